import JaqalProofs.Lemmas.BuiltScoped
import JaqalProofs.Lemmas.BuiltSpecOK
import JaqalProofs.Lemmas.RunModel
import JaqalProofs.Props.C06
import JaqalProofs.Props.C10
/-!
# Every circuit `parse_jaqal_string` returns is `Legal`

`parsed_legal : Pipeline.parseProgram cfg txt = .ok c → Legal c` — for EVERY configuration (gate set, `inject_pulses`,
`autoload_pulses` on or off) and every text: the three fields of `Passes.Legal` (`Props/C10.lean`), i.e. the well-formedness
hypotheses of the pass theorems C04 / C05 / C06 / C10, hold of whatever the parser produces.

* `wf1 : ExpandMacros.WellFormed c = true` — `built_wellFormed` (`Lemmas/BuiltSpecOK.lean`), through `parseText_parserSx`.
* `wf2 : FillIn.WellFormed c`:
  - the body is a plain sequential block: `parseProgram_body`;
  - constants are constants, registers are register-like: `built_typed` (`TypedC.constants`, `TypedC.regLike`);
  - **the block invariants `BlocksOK`** of the body and of every macro body — NEW here (`built_blockShape`): an induction over the
    builder in the style of `built_scoped` (`Lemmas/BuiltScoped.lean`, memo off by `C07_memo_transparent`, shapes from
    `parseText_grammarSx`).  `BSh`: a block that is no subcircuit has the iteration count `1` (`build_sequential_block` /
    `build_parallel_block` pass none), a subcircuit block is sequential; `rebuild_macro_in_context` keeps that (a rebuilt block
    is `BlockStatement(parallel=…)`).  That the count of a subcircuit block is not `None` comes from the typing (`StmtIn`: it is
    an int, an integer constant or a parameter).
* `deep : Deep c` — from the typing: a typed gate argument (`InT`) is a number, a let constant, a parameter, a register sized and
  sliced by ints / integer constants (`RegT`) or a qubit of such a register or of a parameter; `RegT` gives `baseBuilt`.

No hypothesis on the configuration is needed (`cfg.autoload = false` is NOT assumed).

## The hypothesis of C06 (`AllVals GoodRef`)

`C06_fill_in_map` wants of every gate argument, loop count and subcircuit count of the body and of every macro body:
`GoodRef v` = if `v` is a qubit reference `src[idx]` then `ValidChain src` (the alias chain under it ends in a fundamental
register whose size — literal or let — is ≥ 1, every slice has a non-zero step and stays inside its source, all read through the
DECLARED let values) and `idx` is an int or an integer let (`intOf idx = some i`).  This does NOT hold of every parsed circuit:

* `let n 8; register r[n]; map d r[6:10]; X d[0]` is accepted (the constructor cannot check a slice of a let-sized register) and
  `ValidChain` fails — `goodRefs_parsed_fails` below evaluates it;
* a macro body that indexes a parameter (`x[0]`) or indexes by a parameter (`r[i]`) has no `ValidChain` / no integer index
  (`goodRefs_parsed_fails_param`).

The decidable condition is `goodRefs c` (`= true` iff the two hypotheses of `C06_fill_in_map` hold: `goodRefs_iff`);
`goodRefs_parsed_fails` / `goodRefs_parsed_fails_param` evaluate the two counterexamples, `goodRefs_parsed_holds` a parsed
circuit with a let-sized register, an alias and a macro for which it holds.  For a parsed circuit the typing (`parseProgram_facts`:
`TypedC`, `ScopedC`) already gives the rest: counts are never references, and in the body a reference has a register source and an
int / integer-let index — so what `goodRefs` really asks is `validChain` of the sources (the declared sizes and slice bounds) and
that no macro body indexes a parameter or indexes by a parameter.  (That reduction is NOT proved here.)  `fill_in_let` REJECTS the first
counterexample (its rebuild re-validates the now literal slice), and after `fill_in_let` the condition IS automatic
whenever no macro body indexes a parameter: `Lemmas/ParsedGoodRefs.lean: parsed_let_goodRefs` (with `noParamIndex_needed` showing that
this last condition cannot be dropped).
-/
set_option linter.unusedSimpArgs false
set_option linter.unusedVariables false
namespace Jaqal.Builder
open Jaqal Jaqal.FillIn

/-! ## the block invariants of what the builder makes -/

mutual
  /-- a block that is no subcircuit carries the iteration count `1`; a subcircuit block is sequential -/
  def BSh : Stmt → Prop
    | .gate _ _ _ => True
    | .block par sub it body => (sub = false → it = .int 1) ∧ (sub = true → par = false) ∧ BShL body
    | .loop _ b => BSh b
  def BShL : List Stmt → Prop
    | [] => True
    | s :: r => BSh s ∧ BShL r
end

/-- on success the object is a statement with the block invariants -/
def ShPost (r : M (Obj × St)) : Prop := ∀ o s1, r = .ok (o, s1) → ∃ s, o = .stmt s ∧ BSh s

theorem buildGate_sh {cfg : Config} {ctx : Ctx} {f : Nat} {name : String} {gargs : List BSx} {st st1 : St} {s : Stmt}
    (h : buildGate cfg .off ctx (buildVal ctx f) (.str name :: gargs) st = .ok (s, st1)) : BSh s := by
  simp only [buildGate] at h
  obtain ⟨_, _, h⟩ := bind_ok h
  unfold buildGateMemo at h
  simp only [if_true] at h
  obtain ⟨p, hb, h1⟩ := bind_ok h
  obtain ⟨s', g'⟩ := p
  cases h1
  obtain ⟨e, _, _, hcall⟩ := buildGateFresh_ok hb
  obtain ⟨vals, hm, hcd⟩ := bind_ok hcall
  obtain ⟨args, rfl, _⟩ := callDef_full hcd
  simp only [BSh]

theorem asStmts_sh : ∀ {os : List Obj} {ss : List Stmt}, asStmts os = .ok ss →
    (∀ o ∈ os, ∃ s, o = .stmt s ∧ BSh s) → BShL ss := by
  intro os
  induction os with
  | nil => intro ss h _; simp [asStmts, pure, Except.pure] at h; subst h; trivial
  | cons o os ih =>
    intro ss h ho
    cases o with
    | stmt s0 =>
      simp only [asStmts] at h
      obtain ⟨r, hr, h1⟩ := bind_ok h
      cases h1
      obtain ⟨s, hs, hin⟩ := ho (.stmt s0) (by simp)
      cases hs
      exact ⟨hin, ih hr (fun o' ho' => ho o' (by simp [ho']))⟩
    | _ => simp [asStmts, throw_eq] at h

theorem mapMSt_sh {fA : BSx → St → M (Obj × St)} : ∀ (l : List BSx) (st st1 : St) (os : List Obj),
    (∀ x ∈ l, ∀ s, ShPost (fA x s)) → mapMSt fA l st = .ok (os, st1) → ∀ o ∈ os, ∃ s, o = .stmt s ∧ BSh s := by
  intro l
  induction l with
  | nil =>
    intro st st1 os _ h
    simp only [mapMSt, pure, Except.pure] at h
    cases h
    intro o ho; cases ho
  | cons x xs ih =>
    intro st st1 os hf h
    simp only [mapMSt] at h
    obtain ⟨p, hp, h1⟩ := bind_ok h
    obtain ⟨o, s1⟩ := p
    obtain ⟨q, hq, h2⟩ := bind_ok h1
    obtain ⟨os', s2⟩ := q
    cases h2
    intro o' ho'
    rcases List.mem_cons.1 ho' with rfl | ho'
    · exact hf x (by simp) st o' s1 hp
    · exact ih s1 _ os' (fun y hy => hf y (by simp [hy])) hq o' ho'

theorem block_sh {fA : BSx → St → M (Obj × St)} {l : List BSx} {st : St} {par : Bool}
    (h : ∀ x ∈ l, ∀ s, ShPost (fA x s)) :
    ShPost (mapMSt fA l st >>= fun p => do
      let ss ← asStmts p.1
      pure (Obj.stmt (Stmt.block par false (.int 1) ss), p.2)) := by
  intro o s1 hr
  obtain ⟨p, hp, h2⟩ := bind_ok hr
  obtain ⟨os, s2⟩ := p
  obtain ⟨ss, hss, h3⟩ := bind_ok h2
  simp only [pure, Except.pure, Except.ok.injEq, Prod.mk.injEq] at h3
  obtain ⟨rfl, rfl⟩ := h3
  refine ⟨_, rfl, ?_⟩
  rw [BSh]
  exact ⟨fun _ => rfl, fun h => (by cases h), asStmts_sh hss (mapMSt_sh l st s2 os h hp)⟩

/-- **statements** -/
theorem buildAny_sh (cfg : Config) : ∀ (f : Nat) (ctx : Ctx) (e : BSx) (st : St),
    isGStmt e = true → ShPost (buildAny cfg .off f ctx e st) := by
  intro f
  induction f with
  | zero =>
    intro ctx e st h
    cases e with
    | list l => intro o s1 hr; simp [buildAny, throw_eq] at hr
    | _ => simp [isGStmt] at h
  | succ f ih =>
    intro ctx e st h
    cases e with
    | list l =>
      show ShPost (anyStep cfg .off (buildAny cfg .off f) (buildVal ctx f) ctx l st)
      unfold isGStmt at h
      split at h
      · rename_i cmd args heq
        cases heq
        by_cases h1 : cmd = "gate"
        · subst h1
          simp only [if_true] at h
          split at h
          · rename_i name gargs
            simp only [anyStep, if_true]
            intro o s1 hr
            obtain ⟨p, hp, h2⟩ := bind_ok hr
            obtain ⟨s, st'⟩ := p
            simp only [pure, Except.pure, Except.ok.injEq, Prod.mk.injEq] at h2
            obtain ⟨rfl, rfl⟩ := h2
            exact ⟨_, rfl, buildGate_sh hp⟩
          · cases h
        simp only [h1, if_false] at h
        by_cases h2 : cmd = "loop"
        · subst h2
          simp only [if_true] at h
          split at h
          · rename_i count block
            simp only [Bool.and_eq_true] at h
            simp only [anyStep, show ("loop" = "gate") = False from by decide,
              show ("loop" = "sequential_block" ∨ "loop" = "block") = False from by decide,
              show ("loop" = "parallel_block") = False from by decide,
              show ("loop" = "unscheduled_block") = False from by decide,
              show ("loop" = "subcircuit_block") = False from by decide, if_false, if_true]
            intro o s1 hr
            obtain ⟨cnt, hcnt, h3⟩ := bind_ok hr
            obtain ⟨p, hp, h4⟩ := bind_ok h3
            obtain ⟨o', s2⟩ := p
            obtain ⟨s, rfl, hsc⟩ := ih ctx block st h.2 o' s2 hp
            obtain ⟨_, _, h5⟩ := bind_ok h4
            simp only [pure, Except.pure, Except.ok.injEq, Prod.mk.injEq] at h5
            obtain ⟨rfl, rfl⟩ := h5
            refine ⟨_, rfl, ?_⟩
            simp only [BSh]
            exact hsc
          · cases h
        simp only [h2, if_false] at h
        by_cases h3 : cmd = "sequential_block" ∨ cmd = "parallel_block"
        · simp only [h3, if_true] at h
          have hmem : ∀ x ∈ args, ∀ (c : Ctx), ∀ s, ShPost (buildAny cfg .off f c x s) :=
            fun x hx c s => ih c x s (isGStmts_mem h x hx)
          rcases h3 with h3 | h3
          · subst h3
            simp only [anyStep, show ("sequential_block" = "gate") = False from by decide, if_false,
              if_true, true_or]
            exact block_sh (fun x hx s => hmem x hx _ s)
          · subst h3
            simp only [anyStep, show ("parallel_block" = "gate") = False from by decide, if_false,
              show ("parallel_block" = "sequential_block" ∨ "parallel_block" = "block") = False from by decide,
              if_true]
            exact block_sh (fun x hx s => hmem x hx _ s)
        simp only [h3, if_false] at h
        by_cases h4 : cmd = "subcircuit_block"
        · subst h4
          simp only [if_true] at h
          split at h
          · rename_i count stmts
            simp only [Bool.and_eq_true] at h
            have hkids : ∀ x ∈ stmts, ∀ s, ShPost (buildAny cfg .off f { ctx with inSub := true } x s) :=
              fun x hx s => ih _ x s (isGStmts_mem h.2 x hx)
            simp only [anyStep, show ("subcircuit_block" = "gate") = False from by decide, if_false,
              show ("subcircuit_block" = "sequential_block" ∨ "subcircuit_block" = "block") = False from by decide,
              show ("subcircuit_block" = "parallel_block") = False from by decide,
              show ("subcircuit_block" = "unscheduled_block") = False from by decide, if_true, List.tail_cons]
            by_cases hflag : (ctx.inSub || ctx.inPar) = true
            · simp only [hflag, if_true]
              intro o s1 hr; cases hr
            · simp only [hflag, Bool.false_eq_true, if_false]
              intro o s1 hr
              obtain ⟨p, hp, h5⟩ := bind_ok hr
              obtain ⟨os, s2⟩ := p
              obtain ⟨cnt, _, h6⟩ := bind_ok h5
              obtain ⟨_, _, h7⟩ := bind_ok h6
              obtain ⟨ss, hss, h8⟩ := bind_ok h7
              simp only [pure, Except.pure, Except.ok.injEq, Prod.mk.injEq] at h8
              obtain ⟨rfl, rfl⟩ := h8
              refine ⟨_, rfl, ?_⟩
              rw [BSh]
              exact ⟨fun h => (by cases h), fun _ => rfl, asStmts_sh hss (mapMSt_sh stmts st s2 os hkids hp)⟩
          · cases h
        · simp [h4] at h
      · cases h
    | _ => simp [isGStmt] at h

/-! ### `rebuild_macro_in_context` -/

mutual
theorem rebuildStmt_sh (g : GCtx) : ∀ (s : Stmt) (ch : Bool) (s' : Stmt),
    rebuildStmt g s = .ok (ch, s') → BSh s → BSh s'
  | .gate name gd args, ch, s', h, hs => by
    simp only [rebuildStmt] at h
    split at h
    · split at h
      · split at h
        · cases h; exact hs
        · simp [throw_eq] at h
      · obtain ⟨s2, hcall, h2⟩ := bind_ok h
        cases h2
        obtain ⟨args', rfl, _⟩ := callDef_full hcall
        simp only [BSh]
    · cases h; exact hs
  | .block par sub it body, ch, s', h, hs => by
    simp only [rebuildStmt] at h
    obtain ⟨p, hp, h2⟩ := bind_ok h
    obtain ⟨c, body'⟩ := p
    rw [BSh] at hs
    have := rebuildList_sh g body c body' hp hs.2.2
    split at h2
    · cases h2
      rw [BSh]
      exact ⟨fun _ => rfl, fun h => (by cases h), this⟩
    · cases h2
      rw [BSh]
      exact hs
  | .loop c b, ch, s', h, hs => by
    simp only [rebuildStmt] at h
    obtain ⟨p, hp, h2⟩ := bind_ok h
    obtain ⟨c1, b'⟩ := p
    simp only [BSh] at hs
    have := rebuildStmt_sh g b c1 b' hp hs
    split at h2
    · cases h2; simp only [BSh]; exact this
    · cases h2; simp only [BSh]; exact hs
theorem rebuildList_sh (g : GCtx) : ∀ (l : List Stmt) (ch : Bool) (l' : List Stmt),
    rebuildList g l = .ok (ch, l') → BShL l → BShL l'
  | [], ch, l', h, _ => by simp only [rebuildList, pure, Except.pure] at h; cases h; trivial
  | s :: ss, ch, l', h, hs => by
    simp only [rebuildList] at h
    obtain ⟨p, hp, h2⟩ := bind_ok h
    obtain ⟨c1, s'⟩ := p
    obtain ⟨q, hq, h3⟩ := bind_ok h2
    obtain ⟨c2, ss'⟩ := q
    cases h3
    exact ⟨rebuildStmt_sh g s c1 _ hp hs.1, rebuildList_sh g ss c2 ss' hq hs.2⟩
end

theorem rebuildMacro_sh {g : GCtx} {m m' : Macro} (h : rebuildMacro g m = .ok m') (hm : BSh m.body) : BSh m'.body := by
  unfold rebuildMacro at h
  obtain ⟨p, hp, h2⟩ := bind_ok h
  obtain ⟨ch, b⟩ := p
  have := rebuildStmt_sh g m.body ch b hp hm
  simp only [pure, Except.pure] at h2
  cases h2
  split
  · exact this
  · exact hm

/-! ### top-level children -/

/-- a statement or a macro body a top-level child is built to has the block invariants -/
def ObjSh : Obj → Prop
  | .stmt s => BSh s
  | .macro m => BSh m.body
  | _ => True

theorem buildAny_child_sh {cfg : Config} {f : Nat} {ctx : Ctx} {c : BSx} {st s1 : St} {o : Obj}
    (ht : TopT ctx) (hshape : GChild c) (hd : c.depth ≤ f)
    (h : buildAny cfg .off f ctx c st = .ok (o, s1)) : ObjSh o := by
  rcases hshape with hh | hb | ⟨xs, rfl⟩
  · obtain ⟨_, hv | hn⟩ := buildAny_header_obj ht hh hd h
    · obtain ⟨v, rfl, _⟩ := hv
      trivial
    · obtain ⟨n, rfl⟩ := hn
      trivial
  · have hstmt : isGStmt c = true → ObjSh o := by
      intro hs
      obtain ⟨s, rfl, hin⟩ := buildAny_sh cfg f ctx c st hs o s1 h
      exact hin
    unfold isGBody at hb
    split at hb
    · rename_i n rest
      simp only [Bool.and_eq_true] at hb
      cases f with
      | zero => simp [BSx.depth] at hd
      | succ f =>
        have h' : anyStep cfg .off (buildAny cfg .off f) (buildVal ctx f) ctx (.str "macro" :: .str n :: rest) st
            = .ok (o, s1) := h
        simp only [anyStep, show ("macro" = "gate") = False from by decide, if_false,
          show ("macro" = "sequential_block" ∨ "macro" = "block") = False from by decide,
          show ("macro" = "parallel_block") = False from by decide,
          show ("macro" = "unscheduled_block") = False from by decide,
          show ("macro" = "subcircuit_block") = False from by decide,
          show ("macro" = "loop") = False from by decide,
          show ("macro" = "case") = False from by decide,
          show ("macro" = "branch") = False from by decide, if_true] at h'
        by_cases hlen : (List.length (BSx.str n :: rest)) < 2
        · simp only [hlen, if_true] at h'
          simp [throw_eq] at h'
        · simp only [hlen, if_false, strOf, pure_bind] at h'
          by_cases hdef : (List.lookup n st.gctx).isSome = true
          · simp only [if_pos hdef] at h'
            simp [throw_eq, bind, Except.bind] at h'
          · simp only [if_neg hdef] at h'
            obtain ⟨ps, hps, hk⟩ := mapM_macroParam _ hb.1
            simp only [hps, bind, Except.bind] at h'
            cases hlast : rest.getLast? with
            | none => simp [hlast] at hb
            | some blockE =>
              simp only [hlast, Bool.and_eq_true] at hb h'
              cases hr2 : buildAny cfg .off f (ctx.withParams ps) blockE st with
              | error e' => rw [hr2] at h'; cases h'
              | ok p =>
                rw [hr2] at h'
                simp only [] at h'
                obtain ⟨o', s2⟩ := p
                obtain ⟨s, rfl, hin⟩ := buildAny_sh cfg f (ctx.withParams ps) blockE st hb.2.2 o' s2 hr2
                split at h'
                · rename_i par sub it body hbeq
                  simp only [pure, Except.pure, Except.ok.injEq, Prod.mk.injEq] at h'
                  obtain ⟨rfl, rfl⟩ := h'
                  cases hbeq
                  exact hin
                · cases h'
    · exact hstmt hb
  · -- a branch statement is always refused
    exfalso
    cases f with
    | zero => simp [buildAny, throw_eq] at h
    | succ f =>
      have h' : anyStep cfg .off (buildAny cfg .off f) (buildVal ctx f) ctx (.str "branch" :: xs) st = .ok (o, s1) := h
      simp only [anyStep, show ("branch" = "gate") = False from by decide, if_false,
        show ("branch" = "sequential_block" ∨ "branch" = "block") = False from by decide,
        show ("branch" = "parallel_block") = False from by decide,
        show ("branch" = "unscheduled_block") = False from by decide,
        show ("branch" = "subcircuit_block") = False from by decide,
        show ("branch" = "loop") = False from by decide,
        show ("branch" = "case") = False from by decide, if_true] at h'
      obtain ⟨p, _, h6⟩ := bind_ok h'
      cases h6

/-! ### the loop of `build_circuit` (no memo) -/

structure ShInv (acc : Acc) : Prop where
  sc : ScInv acc
  stmts : ∀ s ∈ acc.stmts, BSh s
  macros : ∀ m ∈ acc.macros, BSh m.body

theorem stepTail_sh {cfg : Config} {mode : KeyMode} {inject : Option (List (String × GateDef))} {acc a1 : Acc}
    {o : Obj} {st : St} (ha : ShInv acc) (hsc : ScInv a1) (ho : ObjSh o) (h : stepTail cfg mode inject acc o st = .ok a1) :
    ShInv a1 := by
  cases o with
  | val v =>
    refine ⟨hsc, ?_, ?_⟩ <;>
      (cases v <;> simp only [stepTail, throw_eq] at h <;> first
        | cases h
        | (obtain ⟨c, _, h2⟩ := bind_ok h
           cases h2
           first
             | exact ha.stmts
             | exact ha.macros))
  | usepulses n =>
    simp only [stepTail] at h
    by_cases hauto : cfg.autoload = true
    · simp only [hauto, if_true] at h
      split at h
      · simp [throw_eq] at h
      · split at h
        · cases h
        · simp only [pure, Except.pure] at h
          cases h
          exact ⟨hsc, ha.stmts, ha.macros⟩
    · simp only [hauto, Bool.false_eq_true, if_false, pure, Except.pure] at h
      cases h
      exact ⟨hsc, ha.stmts, ha.macros⟩
  | stmt s =>
    simp only [stepTail, pure, Except.pure] at h
    cases h
    refine ⟨hsc, ?_, ha.macros⟩
    intro x hx
    rcases List.mem_append.1 hx with hx | hx
    · exact ha.stmts x hx
    · simp only [List.mem_singleton] at hx; subst hx; exact ho
  | «macro» m =>
    simp only [stepTail] at h
    obtain ⟨m', hm', h2⟩ := bind_ok h
    have hsh := rebuildMacro_sh hm' ho
    by_cases hl : (List.lookup m'.name st.gctx).isSome = true
    · simp [hl, throw_eq, bind, Except.bind] at h2
    · simp [hl, pure, Except.pure] at h2
      refine ⟨hsc, ?_, ?_⟩
      · rw [← h2]; exact ha.stmts
      · rw [← h2]
        intro x hx
        rcases List.mem_append.1 hx with hx | hx
        · exact ha.macros x hx
        · simp only [List.mem_singleton] at hx; subst hx; exact hsh
  | case => simp [stepTail, throw_eq] at h

theorem circuitLoop_sh {cfg : Config} {inject : Option (List (String × GateDef))} {fuel : Nat} :
    ∀ (cs : List BSx) (acc a1 : Acc), ShInv acc → (∀ c ∈ cs, GChild c ∧ c.depth ≤ fuel) →
      circuitLoop cfg .off inject fuel acc cs = .ok a1 → ShInv a1 := by
  intro cs
  induction cs with
  | nil => intro acc a1 ha _ h; simp only [circuitLoop, pure, Except.pure] at h; cases h; exact ha
  | cons c cs ih =>
    intro acc a1 ha hcs h
    simp only [circuitLoop, circuitStep] at h
    obtain ⟨a2, hstep, h2⟩ := bind_ok h
    obtain ⟨p, hp, h3⟩ := bind_ok hstep
    obtain ⟨o, st⟩ := p
    obtain ⟨hshape, hdep⟩ := hcs c (by simp)
    have hchild := buildAny_child_scoped ha.sc.top hshape hdep hp
    have hsh := buildAny_child_sh ha.sc.top hshape hdep hp
    exact ih a2 a1 (stepTail_sh ha (stepTail_scoped ha.sc hchild h3) hsh h3) (fun d hd => hcs d (by simp [hd])) h2

/-- the block invariants of a circuit -/
structure BlockShapeC (c : Circuit) : Prop where
  body : BSh c.body
  macros : ∀ m ∈ c.macros, BSh m.body

/-- **`built_blockShape`**: what `Builder.build` makes of a program of the grammar has the block invariants -/
theorem built_blockShape (cfg : Config) (e : BSx) (c : Circuit) (hp : GrammarSx e) (hb : build cfg e = .ok c) :
    BlockShapeC c := by
  obtain ⟨cs, rfl, hcs⟩ := hp
  rw [C07_memo_transparent] at hb
  unfold buildNoMemo buildWith at hb
  obtain ⟨inject, _, h1⟩ := bind_ok hb
  simp only [buildCore] at h1
  obtain ⟨acc, hloop, h3⟩ := bind_ok h1
  simp only [pure, Except.pure] at h3
  cases h3
  have hinv : ShInv acc := by
    refine circuitLoop_sh cs _ acc ?_ ?_ hloop
    · exact ⟨⟨(fun n v h => by simp [Ctx.get] at h), (fun s hs => by cases hs), (fun m hm => by cases hm)⟩,
        (fun s hs => by cases hs), (fun m hm => by cases hm)⟩
    · intro c hc
      refine ⟨hcs c hc, ?_⟩
      simp only [BSx.depth, BSx.depthList]
      have := depth_le_of_mem hc
      omega
  refine ⟨?_, hinv.macros⟩
  simp only [Acc.toCircuit]
  rw [BSh]
  refine ⟨fun _ => rfl, fun h => (by cases h), ?_⟩
  have : ∀ l : List Stmt, (∀ s ∈ l, BSh s) → BShL l := by
    intro l
    induction l with
    | nil => intro _; trivial
    | cons x xs ih => intro h; exact ⟨h x (by simp), ih (fun s hs => h s (by simp [hs]))⟩
  exact this _ hinv.stmts

/-! ## from the shape and the typing to `BlocksOK` -/

theorem CntIn_ne_none {v : Val} (h : CntIn v = true) : v ≠ .none := by
  intro hv; subst hv; simp [CntIn, isIntC, isParam] at h

mutual
  theorem blocksOK_of (s : Stmt) : BSh s → StmtIn s → BlocksOK s := by
    cases s with
    | gate n gd a => intro _ _; simp only [BlocksOK]
    | block par sub it body =>
      intro hs ht
      simp only [BSh] at hs
      simp only [StmtIn] at ht
      simp only [BlocksOK]
      exact ⟨hs.1, fun h => ⟨hs.2.1 h, CntIn_ne_none ht.1⟩, blocksOKList_of body hs.2.2 ht.2⟩
    | loop c b =>
      intro hs ht
      simp only [BSh] at hs
      simp only [StmtIn] at ht
      simp only [BlocksOK]
      exact blocksOK_of b hs ht.2
  theorem blocksOKList_of (l : List Stmt) : BShL l → StmtsIn l → BlocksOKList l := by
    cases l with
    | nil => intro _ _; simp only [BlocksOKList]
    | cons s r =>
      intro hs ht
      simp only [BShL] at hs
      simp only [StmtsIn] at ht
      simp only [BlocksOKList]
      exact ⟨blocksOK_of s hs.1 ht.1, blocksOKList_of r hs.2 ht.2⟩
end

/-! ## from the typing to `Deep` -/

theorem RegT_baseBuilt : ∀ v : Val, RegT v = true → Passes.baseBuilt v = true
  | .regF _ sz, h => by
    simp only [RegT] at h
    cases sz <;> simp [isIntC] at h <;> simp [Passes.baseBuilt]
  | .regA _ src, h => by
    simp only [RegT] at h
    simp only [Passes.baseBuilt]
    exact RegT_baseBuilt src h
  | .regS _ src _ _ _, h => by
    simp only [RegT, Bool.and_eq_true] at h
    simp only [Passes.baseBuilt]
    exact RegT_baseBuilt src h.1.1.1
  | .int _, _ | .flt _, _ | .const _ _, _ | .param _ _, _ | .qubit _ _ _, _ | .none, _ | .str _, _ => by
    simp [Passes.baseBuilt]

theorem InT_deepVal {v : Val} (h : InT v = true) : Passes.deepVal v := by
  cases v with
  | qubit n src idx =>
    simp only [InT, Bool.and_eq_true, Bool.or_eq_true] at h
    simp only [Passes.deepVal]
    rcases h.1 with hr | hp
    · exact RegT_baseBuilt src hr
    · cases src <;> simp [isParam] at hp
      simp [Passes.baseBuilt]
  | regF n sz => simp only [Passes.deepVal]; exact RegT_baseBuilt _ (by simpa [InT] using h)
  | regA n src => simp only [Passes.deepVal]; exact RegT_baseBuilt _ (by simpa [InT] using h)
  | regS n src a b s => simp only [Passes.deepVal]; exact RegT_baseBuilt _ (by simpa [InT] using h)
  | int _ => simp [Passes.deepVal, Passes.baseBuilt]
  | flt _ => simp [Passes.deepVal, Passes.baseBuilt]
  | const _ _ => simp [Passes.deepVal, Passes.baseBuilt]
  | param _ _ => simp [Passes.deepVal, Passes.baseBuilt]
  | none => simp [Passes.deepVal, Passes.baseBuilt]
  | str _ => simp [Passes.deepVal, Passes.baseBuilt]

mutual
  theorem argsAll_deep_of (s : Stmt) : StmtIn s → ArgsAll Passes.deepVal s := by
    cases s with
    | gate n gd a =>
      intro ht
      simp only [StmtIn] at ht
      simp only [ArgsAll]
      exact fun x hx => InT_deepVal (ht x hx)
    | block par sub it body =>
      intro ht
      simp only [StmtIn] at ht
      simp only [ArgsAll]
      exact argsAllList_deep_of body ht.2
    | loop c b =>
      intro ht
      simp only [StmtIn] at ht
      simp only [ArgsAll]
      exact argsAll_deep_of b ht.2
  theorem argsAllList_deep_of (l : List Stmt) : StmtsIn l → ArgsAllList Passes.deepVal l := by
    cases l with
    | nil => intro _; simp only [ArgsAllList]
    | cons s r =>
      intro ht
      simp only [StmtsIn] at ht
      simp only [ArgsAllList]
      exact ⟨argsAll_deep_of s ht.1, argsAllList_deep_of r ht.2⟩
end

end Jaqal.Builder

namespace Jaqal.Passes
open Jaqal Jaqal.Builder Jaqal.FillIn

/-- the parser's tree of an accepted text, and the three facts about what is built from it -/
theorem parseProgram_facts {cfg : Config} {txt : String} {c : Circuit} (h : Pipeline.parseProgram cfg txt = .ok c) :
    ExpandMacros.WellFormed c = true ∧ TypedC c ∧ BlockShapeC c ∧ ScopedC c := by
  have h0 := h
  unfold Pipeline.parseProgram Pipeline.parseSx at h
  cases hp : Parser.parseText txt with
  | error pe => rw [hp] at h; cases h
  | ok sx =>
    rw [hp] at h
    have hpb : parseBuild cfg sx = .ok c := h
    have hb := parseBuild_build hpb
    exact ⟨built_wellFormed cfg _ c (parseText_parserSx hp) hb, built_typed cfg _ c (parseText_parserSx hp) hb,
      built_blockShape cfg _ c (parseText_grammarSx hp) hb, built_scoped cfg _ c (parseText_grammarSx hp) hb⟩

/-- `FillIn.WellFormed` of every parsed circuit -/
theorem parsed_fillIn_wellFormed (cfg : Config) (txt : String) (c : Circuit) (h : Pipeline.parseProgram cfg txt = .ok c) :
    FillIn.WellFormed c := by
  obtain ⟨_, ht, hs, _⟩ := parseProgram_facts h
  obtain ⟨b, hb⟩ := RunModel.parseProgram_body h
  exact ⟨⟨b, hb⟩, blocksOK_of _ hs.body ht.body, fun m hm => blocksOK_of _ (hs.macros m hm) (ht.macros m hm),
    ht.constants, ht.regLike⟩

/-- `Deep` of every parsed circuit -/
theorem parsed_deep (cfg : Config) (txt : String) (c : Circuit) (h : Pipeline.parseProgram cfg txt = .ok c) : Deep c := by
  obtain ⟨_, ht, _, _⟩ := parseProgram_facts h
  exact ⟨argsAll_deep_of _ ht.body, fun m hm => argsAll_deep_of _ (ht.macros m hm)⟩

/-- **Every circuit the parser produces is `Legal`** — any configuration, any text. -/
theorem parsed_legal (cfg : Config) (txt : String) (c : Circuit) (h : Pipeline.parseProgram cfg txt = .ok c) : Legal c :=
  ⟨(parseProgram_facts h).1, parsed_fillIn_wellFormed cfg txt c h, parsed_deep cfg txt c h⟩

end Jaqal.Passes

namespace Jaqal.FillIn
open Jaqal Jaqal.Builder

/-! ## The hypothesis of C06, as a decidable condition -/

/-- `GoodRef`, decided -/
def goodRefB : Val → Bool
  | .qubit _ src idx => validChain src && (intOf idx).isSome
  | _ => true

theorem goodRefB_iff (v : Val) : goodRefB v = true ↔ GoodRef v := by
  cases v <;> simp [goodRefB, GoodRef, Option.isSome_iff_exists]

mutual
  /-- `AllVals`, decided -/
  def allValsB (p : Val → Bool) : Stmt → Bool
    | .gate _ _ args => args.all (fun a => p a.2)
    | .block _ sub it body => (!sub || p it) && allValsListB p body
    | .loop c b => p c && allValsB p b
  def allValsListB (p : Val → Bool) : List Stmt → Bool
    | [] => true
    | s :: ss => allValsB p s && allValsListB p ss
end

mutual
  theorem allValsB_iff {p : Val → Bool} {P : Val → Prop} (h : ∀ v, p v = true ↔ P v) :
      ∀ s : Stmt, allValsB p s = true ↔ AllVals P s
    | .gate n gd args => by
      simp only [allValsB, AllVals, List.all_eq_true]
      exact ⟨fun hh a ha => (h _).1 (hh a ha), fun hh a ha => (h _).2 (hh a ha)⟩
    | .block par sub it body => by
      simp only [allValsB, AllVals, Bool.and_eq_true, allValsListB_iff h body]
      cases sub <;> simp [h it]
    | .loop c b => by
      simp only [allValsB, AllVals, Bool.and_eq_true, allValsB_iff h b, h c]
  theorem allValsListB_iff {p : Val → Bool} {P : Val → Prop} (h : ∀ v, p v = true ↔ P v) :
      ∀ l : List Stmt, allValsListB p l = true ↔ AllValsList P l
    | [] => by simp [allValsListB, AllValsList]
    | s :: ss => by
      simp only [allValsListB, AllValsList, Bool.and_eq_true, allValsB_iff h s, allValsListB_iff h ss]
end

/-- **the decidable condition of `C06_fill_in_map`**: every qubit reference (among the gate arguments, loop counts and subcircuit
counts of the body and of every macro body) goes through a `ValidChain` and has an integer (literal or let) index -/
def goodRefs (c : Circuit) : Bool :=
  allValsB goodRefB c.body && c.macros.all (fun m => allValsB goodRefB m.body)

theorem goodRefs_iff (c : Circuit) :
    goodRefs c = true ↔ (AllVals GoodRef c.body ∧ ∀ m ∈ c.macros, AllVals GoodRef m.body) := by
  simp only [goodRefs, Bool.and_eq_true, List.all_eq_true, allValsB_iff goodRefB_iff]

/-- it does NOT hold of every parsed circuit: `let n 8; register r[n]; map d r[6:10]; X d[0]` is accepted (the constructor cannot
check a slice of a let-sized register against the size) and `d` leaves `r` -/
theorem goodRefs_parsed_fails :
    (match Pipeline.parseProgram {} "let n 8\nregister r[n]\nmap d r[6:10]\nX d[0]\n" with
     | .ok c => goodRefs c
     | .error _ => true) = false := by decide +kernel

/-- … nor of a circuit with a macro that indexes its parameter (there is no chain under a parameter) -/
theorem goodRefs_parsed_fails_param :
    (match Pipeline.parseProgram {} "register r[2]\nmacro M x { G x[0] }\nM r\n" with
     | .ok c => goodRefs c
     | .error _ => true) = false := by decide +kernel

/-- … while it holds of `let n 4; register r[n]; map a r[1:n]; macro M x { G x }; M a[0]` -/
theorem goodRefs_parsed_holds :
    (match Pipeline.parseProgram {} "let n 4\nregister r[n]\nmap a r[1:n]\nmacro M x { G x }\nM a[0]\n" with
     | .ok c => goodRefs c
     | .error _ => false) = true := by decide +kernel

end Jaqal.FillIn

#print axioms Jaqal.Builder.built_blockShape
#print axioms Jaqal.Passes.parsed_legal
