import JaqalProofs.Lemmas.ParsedLegal
import JaqalProofs.Lemmas.UnitTimingCircuit
/-!
# What the builder guarantees for `normalize_blocks_with_unitary_timing` (lemmas for `Props/C19Parsed.lean`)

Two new inductions over `Builder.build` (memo off, transparent by `C07_memo_transparent`, shapes from `parseText_grammarSx`, in the
style of `built_blockShape`):

* `built_unitOK`: every block of the body that is not inside a loop passes the `BlockStatement` constructor checks
  (`UnitTimingCircuit.countsOK`: a non-subcircuit block carries the count `1`; the count of a subcircuit block went through
  `_validate_count`, so it is an int, or a constant / parameter of kind INT or NONE — this is finer than `TypedC`, whose `CntIn`
  forgets the kind of a parameter), and NO SUBCIRCUIT BLOCK STANDS INSIDE A PARALLEL BLOCK (`subInParS false`): `build_subcircuit_block`
  raises `JaqalError` when `in_parallel` or `in_subcircuit`, and the flags are passed on through sequential blocks and loops.
* `built_natives_tags`: the native gates of the built circuit are not tagged `macro`, PROVIDED the modules loaded by `usepulses`
  (`cfg.imports`, only looked at when `cfg.autoload`) export gate definitions only (`ImportsOK cfg`); `inject_pulses` is checked by
  `normalize_native_gates`, `UsePulsesStatement.update_gates` checks nothing.
  MODEL GAP (found here): in the real `build_circuit` the last step is `Circuit(native_gates=native_gates)`, which runs
  `normalize_native_gates` on the FINAL dictionary and raises `JaqalError("Native gates must be GateDefinition instances")` — checked
  on the real code with a module whose `ALL_GATES` holds a `Macro` — whereas `Builder.Acc.toCircuit` returns the circuit.  So for
  the real parser `ImportsOK` is not a restriction (such a text does not parse); it is one for the MODEL's `parseProgram`, and only
  for configurations with `autoload = true` whose `imports` hand out a macro-tagged definition.
-/
set_option linter.unusedSimpArgs false
set_option linter.unusedVariables false
namespace Jaqal.Builder
open Jaqal Jaqal.FillIn Jaqal.UnitTimingCircuit

/-! ## a subcircuit block inside a parallel block, on the IR (loops opaque, as in the skeleton) -/

mutual
  /-- `subInParS p s`: some subcircuit block of `s` (outside loops) stands inside a parallel block; `p` = "already inside one" -/
  def subInParS : Bool → Stmt → Bool
    | _, .gate _ _ _ => false
    | _, .loop _ _ => false
    | p, .block par sub _ body => (p && sub) || subInParL (p || par) body
  def subInParL : Bool → List Stmt → Bool
    | _, [] => false
    | p, s :: r => subInParS p s || subInParL p r
end

mutual
  /-- likewise for a loop inside a parallel block -/
  def loopInParS : Bool → Stmt → Bool
    | _, .gate _ _ _ => false
    | p, .loop _ _ => p
    | p, .block par _ _ body => loopInParL (p || par) body
  def loopInParL : Bool → List Stmt → Bool
    | _, [] => false
    | p, s :: r => loopInParS p s || loopInParL p r
end

mutual
  theorem subInPar_skel (L : Labelling) : ∀ (p : Bool) (s : Stmt), UnitTiming.subInPar p (skel L s) = subInParS p s
    | _, .gate _ _ _ => by simp [UnitTimingCircuit.skel, UnitTiming.subInPar, subInParS]
    | _, .loop _ _ => by simp [UnitTimingCircuit.skel, UnitTiming.subInPar, subInParS]
    | p, .block par sub it body => by
      simp only [UnitTimingCircuit.skel, UnitTiming.subInPar, subInParS]
      rw [anySubInPar_skel L (p || par) body]
  theorem anySubInPar_skel (L : Labelling) : ∀ (p : Bool) (l : List Stmt),
      UnitTiming.anySubInPar p (skelList L l) = subInParL p l
    | _, [] => by simp [skelList, UnitTiming.anySubInPar, subInParL]
    | p, s :: r => by
      simp only [skelList, UnitTiming.anySubInPar, subInParL]
      rw [subInPar_skel L p s, anySubInPar_skel L p r]
end

mutual
  theorem loopInPar_skel (L : Labelling) : ∀ (p : Bool) (s : Stmt), UnitTiming.loopInPar p (skel L s) = loopInParS p s
    | _, .gate _ _ _ => by simp [UnitTimingCircuit.skel, UnitTiming.loopInPar, loopInParS]
    | _, .loop _ _ => by simp [UnitTimingCircuit.skel, UnitTiming.loopInPar, loopInParS]
    | p, .block par sub it body => by
      simp only [UnitTimingCircuit.skel, UnitTiming.loopInPar, loopInParS]
      rw [anyLoopInPar_skel L (p || par) body]
  theorem anyLoopInPar_skel (L : Labelling) : ∀ (p : Bool) (l : List Stmt),
      UnitTiming.anyLoopInPar p (skelList L l) = loopInParL p l
    | _, [] => by simp [skelList, UnitTiming.anyLoopInPar, loopInParL]
    | p, s :: r => by
      simp only [skelList, UnitTiming.anyLoopInPar, loopInParL]
      rw [loopInPar_skel L p s, anyLoopInPar_skel L p r]
end

mutual
  theorem subInParS_mono : ∀ (s : Stmt) (p : Bool), subInParS p s = true → subInParS true s = true
    | .gate _ _ _, p, h => by simp [subInParS] at h
    | .loop _ _, p, h => by simp [subInParS] at h
    | .block par sub it body, p, h => by
      simp only [subInParS, Bool.or_eq_true, Bool.and_eq_true] at h ⊢
      rcases h with ⟨_, hs⟩ | h
      · exact Or.inl ⟨trivial, hs⟩
      · right
        have := subInParL_mono body _ h
        simpa using this
  theorem subInParL_mono : ∀ (l : List Stmt) (p : Bool), subInParL p l = true → subInParL true l = true
    | [], p, h => by simp [subInParL] at h
    | s :: r, p, h => by
      simp only [subInParL, Bool.or_eq_true] at h ⊢
      rcases h with h | h
      · exact Or.inl (subInParS_mono s p h)
      · exact Or.inr (subInParL_mono r p h)
end

theorem subInParL_false_of_true {l : List Stmt} (h : subInParL true l = false) (p : Bool) : subInParL p l = false := by
  cases hp : subInParL p l with
  | false => rfl
  | true => rw [subInParL_mono l p hp] at h; cases h

theorem subInParS_false_of {s : Stmt} {q : Bool} (h : subInParS q s = false) : subInParS false s = false := by
  cases q with
  | false => exact h
  | true =>
    cases hp : subInParS false s with
    | false => rfl
    | true => rw [subInParS_mono s false hp] at h; cases h

/-! ## the post-condition of a statement built in a context with flag `p = in_subcircuit or in_parallel` -/

/-- the blocks outside loops pass the constructor checks, and no subcircuit block stands inside a parallel block (`p`: the
statement itself stands inside a parallel or subcircuit block) -/
def UOK (p : Bool) (s : Stmt) : Prop := countsOK s = true ∧ subInParS p s = false

theorem UOK_list {p : Bool} : ∀ {l : List Stmt}, (∀ s ∈ l, UOK p s) → countsOKList l = true ∧ subInParL p l = false
  | [], _ => by simp [countsOKList, subInParL]
  | s :: r, h => by
    obtain ⟨h1, h2⟩ := h s (by simp)
    obtain ⟨h3, h4⟩ := UOK_list (l := r) (fun x hx => h x (by simp [hx]))
    simp [countsOKList, subInParL, h1, h2, h3, h4]

def PostP (P : Stmt → Prop) (r : M (Obj × St)) : Prop := ∀ o s1, r = .ok (o, s1) → ∃ s, o = .stmt s ∧ P s

theorem asStmts_all {P : Stmt → Prop} : ∀ {os : List Obj} {ss : List Stmt}, asStmts os = .ok ss →
    (∀ o ∈ os, ∃ s, o = .stmt s ∧ P s) → ∀ s ∈ ss, P s := by
  intro os
  induction os with
  | nil => intro ss h _; simp [asStmts, pure, Except.pure] at h; subst h; intro s hs; cases hs
  | cons o os ih =>
    intro ss h ho
    cases o with
    | stmt s0 =>
      simp only [asStmts] at h
      obtain ⟨r, hr, h1⟩ := bind_ok h
      cases h1
      obtain ⟨s, hs, hin⟩ := ho (.stmt s0) (by simp)
      cases hs
      intro x hx
      rcases List.mem_cons.1 hx with rfl | hx
      · exact hin
      · exact ih hr (fun o' ho' => ho o' (by simp [ho'])) x hx
    | _ => simp [asStmts, throw_eq] at h

theorem mapMSt_all {P : Stmt → Prop} {fA : BSx → St → M (Obj × St)} : ∀ (l : List BSx) (st st1 : St) (os : List Obj),
    (∀ x ∈ l, ∀ s, PostP P (fA x s)) → mapMSt fA l st = .ok (os, st1) → ∀ o ∈ os, ∃ s, o = .stmt s ∧ P s := by
  intro l
  induction l with
  | nil =>
    intro st st1 os _ h
    simp only [mapMSt, pure, Except.pure] at h
    cases h
    intro o ho; cases ho
  | cons x xs ih =>
    intro st st1 os hf h
    simp only [mapMSt] at h
    obtain ⟨p, hp, h1⟩ := bind_ok h
    obtain ⟨o, s1⟩ := p
    obtain ⟨q, hq, h2⟩ := bind_ok h1
    obtain ⟨os', s2⟩ := q
    cases h2
    intro o' ho'
    rcases List.mem_cons.1 ho' with rfl | ho'
    · exact hf x (by simp) st o' s1 hp
    · exact ih s1 _ os' (fun y hy => hf y (by simp [hy])) hq o' ho'

theorem blockOK_one : blockOK false (.int 1) = true := by decide

theorem block_u {fA : BSx → St → M (Obj × St)} {l : List BSx} {st : St} {par p q : Bool}
    (h : ∀ x ∈ l, ∀ s, PostP (UOK q) (fA x s)) (hq : q = (p || par)) :
    PostP (UOK p) (mapMSt fA l st >>= fun pr => do
      let ss ← asStmts pr.1
      pure (Obj.stmt (Stmt.block par false (.int 1) ss), pr.2)) := by
  intro o s1 hr
  obtain ⟨pr, hp, h2⟩ := bind_ok hr
  obtain ⟨os, s2⟩ := pr
  obtain ⟨ss, hss, h3⟩ := bind_ok h2
  simp only [pure, Except.pure, Except.ok.injEq, Prod.mk.injEq] at h3
  obtain ⟨rfl, rfl⟩ := h3
  refine ⟨_, rfl, ?_⟩
  obtain ⟨h1, h2⟩ := UOK_list (asStmts_all hss (mapMSt_all l st s2 os h hp))
  subst hq
  simp [UOK, countsOK, subInParS, blockOK_one, h1, h2]

theorem validateCount_good {v : Val} {u : Unit} (h : validateCount v = .ok u) : ExpandMacros.badCount v = false := by
  unfold validateCount at h
  split at h
  · rfl
  · split at h
    · rename_i hc
      simp only [Bool.and_eq_true] at hc
      obtain ⟨hav, hk⟩ := hc
      cases v <;> simp [isAV] at hav
      · simp only [avKind, kindIntOrNone, GateDef.constKind] at hk
        simp only [ExpandMacros.badCount, hk, Bool.not_true]
      · simp only [avKind, kindIntOrNone] at hk
        simp only [ExpandMacros.badCount, hk, Bool.not_true]
    · simp [throw_eq] at h

/-- **statements** -/
theorem buildAny_u (cfg : Config) : ∀ (f : Nat) (ctx : Ctx) (e : BSx) (st : St),
    isGStmt e = true → PostP (UOK (ctx.inSub || ctx.inPar)) (buildAny cfg .off f ctx e st) := by
  intro f
  induction f with
  | zero =>
    intro ctx e st h
    cases e with
    | list l => intro o s1 hr; simp [buildAny, throw_eq] at hr
    | _ => simp [isGStmt] at h
  | succ f ih =>
    intro ctx e st h
    cases e with
    | list l =>
      show PostP (UOK (ctx.inSub || ctx.inPar)) (anyStep cfg .off (buildAny cfg .off f) (buildVal ctx f) ctx l st)
      unfold isGStmt at h
      split at h
      · rename_i cmd args heq
        cases heq
        by_cases h1 : cmd = "gate"
        · subst h1
          simp only [if_true] at h
          split at h
          · rename_i name gargs
            simp only [anyStep, if_true]
            intro o s1 hr
            obtain ⟨p, hp, h2⟩ := bind_ok hr
            obtain ⟨s, st'⟩ := p
            simp only [pure, Except.pure, Except.ok.injEq, Prod.mk.injEq] at h2
            obtain ⟨rfl, rfl⟩ := h2
            refine ⟨_, rfl, ?_⟩
            simp only [buildGate] at hp
            obtain ⟨_, _, hp⟩ := bind_ok hp
            unfold buildGateMemo at hp
            simp only [if_true] at hp
            obtain ⟨p, hb, hp1⟩ := bind_ok hp
            obtain ⟨s', g'⟩ := p
            cases hp1
            obtain ⟨e, _, _, hcall⟩ := buildGateFresh_ok hb
            obtain ⟨vals, hm, hcd⟩ := bind_ok hcall
            obtain ⟨args, rfl, _⟩ := callDef_full hcd
            simp [UOK, countsOK, subInParS]
          · cases h
        simp only [h1, if_false] at h
        by_cases h2 : cmd = "loop"
        · subst h2
          simp only [if_true] at h
          split at h
          · rename_i count block
            simp only [Bool.and_eq_true] at h
            simp only [anyStep, show ("loop" = "gate") = False from by decide,
              show ("loop" = "sequential_block" ∨ "loop" = "block") = False from by decide,
              show ("loop" = "parallel_block") = False from by decide,
              show ("loop" = "unscheduled_block") = False from by decide,
              show ("loop" = "subcircuit_block") = False from by decide, if_false, if_true]
            intro o s1 hr
            obtain ⟨cnt, hcnt, h3⟩ := bind_ok hr
            obtain ⟨p, hp, h4⟩ := bind_ok h3
            obtain ⟨o', s2⟩ := p
            obtain ⟨s, rfl, hsc⟩ := ih ctx block st h.2 o' s2 hp
            obtain ⟨_, _, h5⟩ := bind_ok h4
            simp only [pure, Except.pure, Except.ok.injEq, Prod.mk.injEq] at h5
            obtain ⟨rfl, rfl⟩ := h5
            refine ⟨_, rfl, ?_⟩
            simp [UOK, countsOK, subInParS]
          · cases h
        simp only [h2, if_false] at h
        by_cases h3 : cmd = "sequential_block" ∨ cmd = "parallel_block"
        · simp only [h3, if_true] at h
          have hmem : ∀ x ∈ args, ∀ (c : Ctx), ∀ s, PostP (UOK (c.inSub || c.inPar)) (buildAny cfg .off f c x s) :=
            fun x hx c s => ih c x s (isGStmts_mem h x hx)
          rcases h3 with h3 | h3
          · subst h3
            simp only [anyStep, show ("sequential_block" = "gate") = False from by decide, if_false,
              if_true, true_or]
            exact block_u (fun x hx s => hmem x hx _ s) (by simp)
          · subst h3
            simp only [anyStep, show ("parallel_block" = "gate") = False from by decide, if_false,
              show ("parallel_block" = "sequential_block" ∨ "parallel_block" = "block") = False from by decide,
              if_true]
            exact block_u (fun x hx s => hmem x hx _ s) (by simp)
        simp only [h3, if_false] at h
        by_cases h4 : cmd = "subcircuit_block"
        · subst h4
          simp only [if_true] at h
          split at h
          · rename_i count stmts
            simp only [Bool.and_eq_true] at h
            have hkids : ∀ x ∈ stmts, ∀ s, PostP (UOK true) (buildAny cfg .off f { ctx with inSub := true } x s) :=
              fun x hx s => ih _ x s (isGStmts_mem h.2 x hx)
            simp only [anyStep, show ("subcircuit_block" = "gate") = False from by decide, if_false,
              show ("subcircuit_block" = "sequential_block" ∨ "subcircuit_block" = "block") = False from by decide,
              show ("subcircuit_block" = "parallel_block") = False from by decide,
              show ("subcircuit_block" = "unscheduled_block") = False from by decide, if_true, List.tail_cons]
            by_cases hflag : (ctx.inSub || ctx.inPar) = true
            · simp only [hflag, if_true]
              intro o s1 hr; cases hr
            · simp only [hflag, Bool.false_eq_true, if_false]
              intro o s1 hr
              obtain ⟨p, hp, h5⟩ := bind_ok hr
              obtain ⟨os, s2⟩ := p
              obtain ⟨cnt, _, h6⟩ := bind_ok h5
              obtain ⟨_, hval, h7⟩ := bind_ok h6
              obtain ⟨ss, hss, h8⟩ := bind_ok h7
              simp only [pure, Except.pure, Except.ok.injEq, Prod.mk.injEq] at h8
              obtain ⟨rfl, rfl⟩ := h8
              refine ⟨_, rfl, ?_⟩
              obtain ⟨hc1, hc2⟩ := UOK_list (asStmts_all hss (mapMSt_all stmts st s2 os hkids hp))
              have hc3 := subInParL_false_of_true hc2 false
              have hbad := validateCount_good hval
              simp [UOK, countsOK, subInParS, blockOK, hbad, hc1, hc3]
          · cases h
        · simp [h4] at h
      · cases h
    | _ => simp [isGStmt] at h

/-! ## top-level children, the loop of `build_circuit` -/

def ObjU : Obj → Prop
  | .stmt s => UOK false s
  | _ => True

theorem buildAny_child_u {cfg : Config} {f : Nat} {ctx : Ctx} {c : BSx} {st s1 : St} {o : Obj}
    (ht : TopT ctx) (hshape : GChild c) (hd : c.depth ≤ f)
    (h : buildAny cfg .off f ctx c st = .ok (o, s1)) : ObjU o := by
  rcases hshape with hh | hb | ⟨xs, rfl⟩
  · obtain ⟨_, hv | hn⟩ := buildAny_header_obj ht hh hd h
    · obtain ⟨v, rfl, _⟩ := hv
      trivial
    · obtain ⟨n, rfl⟩ := hn
      trivial
  · have hstmt : isGStmt c = true → ObjU o := by
      intro hs
      obtain ⟨s, rfl, hin⟩ := buildAny_u cfg f ctx c st hs o s1 h
      exact ⟨hin.1, subInParS_false_of hin.2⟩
    unfold isGBody at hb
    split at hb
    · rename_i n rest
      simp only [Bool.and_eq_true] at hb
      cases f with
      | zero => simp [BSx.depth] at hd
      | succ f =>
        have h' : anyStep cfg .off (buildAny cfg .off f) (buildVal ctx f) ctx (.str "macro" :: .str n :: rest) st
            = .ok (o, s1) := h
        simp only [anyStep, show ("macro" = "gate") = False from by decide, if_false,
          show ("macro" = "sequential_block" ∨ "macro" = "block") = False from by decide,
          show ("macro" = "parallel_block") = False from by decide,
          show ("macro" = "unscheduled_block") = False from by decide,
          show ("macro" = "subcircuit_block") = False from by decide,
          show ("macro" = "loop") = False from by decide,
          show ("macro" = "case") = False from by decide,
          show ("macro" = "branch") = False from by decide, if_true] at h'
        by_cases hlen : (List.length (BSx.str n :: rest)) < 2
        · simp only [hlen, if_true] at h'
          simp [throw_eq] at h'
        · simp only [hlen, if_false, strOf, pure_bind] at h'
          by_cases hdef : (List.lookup n st.gctx).isSome = true
          · simp only [if_pos hdef] at h'
            simp [throw_eq, bind, Except.bind] at h'
          · simp only [if_neg hdef] at h'
            obtain ⟨ps, hps, hk⟩ := mapM_macroParam _ hb.1
            simp only [hps, bind, Except.bind] at h'
            cases hlast : rest.getLast? with
            | none => simp [hlast] at hb
            | some blockE =>
              simp only [hlast, Bool.and_eq_true] at hb h'
              cases hr2 : buildAny cfg .off f (ctx.withParams ps) blockE st with
              | error e' => rw [hr2] at h'; cases h'
              | ok p =>
                rw [hr2] at h'
                simp only [] at h'
                obtain ⟨o', s2⟩ := p
                split at h'
                · rename_i par sub it body hbeq
                  simp only [pure, Except.pure, Except.ok.injEq, Prod.mk.injEq] at h'
                  obtain ⟨rfl, rfl⟩ := h'
                  trivial
                · cases h'
    · exact hstmt hb
  · exfalso
    cases f with
    | zero => simp [buildAny, throw_eq] at h
    | succ f =>
      have h' : anyStep cfg .off (buildAny cfg .off f) (buildVal ctx f) ctx (.str "branch" :: xs) st = .ok (o, s1) := h
      simp only [anyStep, show ("branch" = "gate") = False from by decide, if_false,
        show ("branch" = "sequential_block" ∨ "branch" = "block") = False from by decide,
        show ("branch" = "parallel_block") = False from by decide,
        show ("branch" = "unscheduled_block") = False from by decide,
        show ("branch" = "subcircuit_block") = False from by decide,
        show ("branch" = "loop") = False from by decide,
        show ("branch" = "case") = False from by decide, if_true] at h'
      obtain ⟨p, _, h6⟩ := bind_ok h'
      cases h6

theorem stepTail_stmts {cfg : Config} {mode : KeyMode} {inject : Option (List (String × GateDef))} {acc a1 : Acc}
    {o : Obj} {st : St} {P : Stmt → Prop} (ha : ∀ s ∈ acc.stmts, P s) (ho : ∀ s, o = .stmt s → P s)
    (h : stepTail cfg mode inject acc o st = .ok a1) : ∀ s ∈ a1.stmts, P s := by
  cases o with
  | val v =>
    cases v <;> simp only [stepTail, throw_eq] at h <;> first
      | cases h
      | (obtain ⟨c, _, h2⟩ := bind_ok h
         cases h2
         exact ha)
  | usepulses n =>
    simp only [stepTail] at h
    by_cases hauto : cfg.autoload = true
    · simp only [hauto, if_true] at h
      split at h
      · simp [throw_eq] at h
      · split at h
        · cases h
        · simp only [pure, Except.pure] at h
          cases h
          exact ha
    · simp only [hauto, Bool.false_eq_true, if_false, pure, Except.pure] at h
      cases h
      exact ha
  | stmt s =>
    simp only [stepTail, pure, Except.pure] at h
    cases h
    intro x hx
    rcases List.mem_append.1 hx with hx | hx
    · exact ha x hx
    · simp only [List.mem_singleton] at hx; subst hx; exact ho _ rfl
  | «macro» m =>
    simp only [stepTail] at h
    obtain ⟨m', hm', h2⟩ := bind_ok h
    by_cases hl : (List.lookup m'.name st.gctx).isSome = true
    · simp [hl, throw_eq, bind, Except.bind] at h2
    · simp [hl, pure, Except.pure] at h2
      rw [← h2]; exact ha
  | case => simp [stepTail, throw_eq] at h

theorem circuitLoop_u {cfg : Config} {inject : Option (List (String × GateDef))} {fuel : Nat} :
    ∀ (cs : List BSx) (acc a1 : Acc), ShInv acc → (∀ s ∈ acc.stmts, UOK false s) → (∀ c ∈ cs, GChild c ∧ c.depth ≤ fuel) →
      circuitLoop cfg .off inject fuel acc cs = .ok a1 → ∀ s ∈ a1.stmts, UOK false s := by
  intro cs
  induction cs with
  | nil => intro acc a1 _ ha _ h; simp only [circuitLoop, pure, Except.pure] at h; cases h; exact ha
  | cons c cs ih =>
    intro acc a1 hsh ha hcs h
    simp only [circuitLoop, circuitStep] at h
    obtain ⟨a2, hstep, h2⟩ := bind_ok h
    obtain ⟨p, hp, h3⟩ := bind_ok hstep
    obtain ⟨o, st⟩ := p
    obtain ⟨hshape, hdep⟩ := hcs c (by simp)
    have hchild := buildAny_child_scoped hsh.sc.top hshape hdep hp
    have hsh' := buildAny_child_sh hsh.sc.top hshape hdep hp
    have hu := buildAny_child_u hsh.sc.top hshape hdep hp
    refine ih a2 a1 (stepTail_sh hsh (stepTail_scoped hsh.sc hchild h3) hsh' h3) ?_ (fun d hd => hcs d (by simp [hd])) h2
    refine stepTail_stmts ha ?_ h3
    intro s hs; subst hs; exact hu

/-- **`built_unitOK`**: the body of what `Builder.build` makes of a program of the grammar passes the constructor checks of the
unit-timing pass and has no subcircuit block inside a parallel block -/
theorem built_unitOK (cfg : Config) (e : BSx) (c : Circuit) (hp : GrammarSx e) (hb : build cfg e = .ok c) :
    countsOK c.body = true ∧ subInParL false c.body.stmts = false := by
  obtain ⟨cs, rfl, hcs⟩ := hp
  rw [C07_memo_transparent] at hb
  unfold buildNoMemo buildWith at hb
  obtain ⟨inject, _, h1⟩ := bind_ok hb
  simp only [buildCore] at h1
  obtain ⟨acc, hloop, h3⟩ := bind_ok h1
  simp only [pure, Except.pure] at h3
  cases h3
  have hinv : ∀ s ∈ acc.stmts, UOK false s := by
    refine circuitLoop_u cs _ acc ?_ ?_ ?_ hloop
    · exact ⟨⟨(fun n v h => by simp [Ctx.get] at h), (fun s hs => by cases hs), (fun m hm => by cases hm)⟩,
        (fun s hs => by cases hs), (fun m hm => by cases hm)⟩
    · intro s hs; cases hs
    · intro c hc
      refine ⟨hcs c hc, ?_⟩
      simp only [BSx.depth, BSx.depthList]
      have := depth_le_of_mem hc
      omega
  obtain ⟨h1, h2⟩ := UOK_list hinv
  simp only [Acc.toCircuit, Stmt.stmts]
  exact ⟨by simp [countsOK, blockOK_one, h1], h2⟩

/-! ## the native gates -/

/-- the modules `usepulses` loads (looked at only when `autoload_pulses` is on) export gate definitions only.  Nothing in
`UsePulsesStatement.update_gates` checks that; `inject_pulses` IS checked (`normalize_native_gates`).  (The real `build_circuit`
re-checks the final dictionary in `Circuit(native_gates=…)`; the model does not — see the header.) -/
def ImportsOK (cfg : Config) : Prop :=
  cfg.autoload = true → ∀ name gs, cfg.imports name = some gs → ∀ g ∈ gs, g.tag ≠ .macro

theorem importsOK_of_noAutoload {cfg : Config} (h : cfg.autoload = false) : ImportsOK cfg := by
  intro h'; rw [h] at h'; cases h'

def NatTags (l : List (String × GateDef)) : Prop := ∀ p ∈ l, p.2.tag ≠ .macro

theorem updateGates_tags {inject : Option (List (String × GateDef))} : ∀ (gs : List GateDef) (l : List (String × GateDef)),
    (∀ g ∈ gs, g.tag ≠ .macro) → NatTags l → NatTags (updateGates id inject gs l) := by
  intro gs
  unfold updateGates
  induction gs with
  | nil => intro l _ hl; exact hl
  | cons g gs ih =>
    intro l hg hl
    simp only [List.foldl_cons]
    apply ih _ (fun x hx => hg x (by simp [hx]))
    have hset : NatTags (dictSet g.name (id g) l) := by
      intro p hp
      rcases dictSet_mem hp with rfl | hp
      · exact hg g (by simp)
      · exact hl p hp
    split
    · split
      · exact hl
      · exact hset
    · exact hset

theorem stepTail_tags {cfg : Config} {mode : KeyMode} {inject : Option (List (String × GateDef))} {acc a1 : Acc}
    {o : Obj} {st : St} (hi : ImportsOK cfg) (ha : NatTags acc.natives)
    (h : stepTail cfg mode inject acc o st = .ok a1) : NatTags a1.natives := by
  cases o with
  | val v =>
    cases v <;> simp only [stepTail, throw_eq] at h <;> first
      | cases h
      | (obtain ⟨c, _, h2⟩ := bind_ok h
         cases h2
         exact ha)
  | usepulses n =>
    simp only [stepTail] at h
    by_cases hauto : cfg.autoload = true
    · simp only [hauto, if_true] at h
      split at h
      · simp [throw_eq] at h
      · split at h
        · cases h
        · rename_i gs hgs
          simp only [pure, Except.pure] at h
          cases h
          exact updateGates_tags gs _ (hi hauto n gs hgs) ha
    · simp only [hauto, Bool.false_eq_true, if_false, pure, Except.pure] at h
      cases h
      exact ha
  | stmt s =>
    simp only [stepTail, pure, Except.pure] at h
    cases h
    exact ha
  | «macro» m =>
    simp only [stepTail] at h
    obtain ⟨m', hm', h2⟩ := bind_ok h
    by_cases hl : (List.lookup m'.name st.gctx).isSome = true
    · simp [hl, throw_eq, bind, Except.bind] at h2
    · simp [hl, pure, Except.pure] at h2
      rw [← h2]; exact ha
  | case => simp [stepTail, throw_eq] at h

theorem circuitLoop_tags {cfg : Config} {mode : KeyMode} {inject : Option (List (String × GateDef))} {fuel : Nat}
    (hi : ImportsOK cfg) : ∀ (cs : List BSx) (acc a1 : Acc), NatTags acc.natives →
      circuitLoop cfg mode inject fuel acc cs = .ok a1 → NatTags a1.natives := by
  intro cs
  induction cs with
  | nil => intro acc a1 ha h; simp only [circuitLoop, pure, Except.pure] at h; cases h; exact ha
  | cons c cs ih =>
    intro acc a1 ha h
    simp only [circuitLoop, circuitStep] at h
    obtain ⟨a2, hstep, h2⟩ := bind_ok h
    obtain ⟨p, hp, h3⟩ := bind_ok hstep
    obtain ⟨o, st⟩ := p
    exact ih a2 a1 (stepTail_tags hi ha h3) h2

/-- **`built_natives_tags`**: no native gate of a built circuit is tagged `macro` (any S-expression) -/
theorem built_natives_tags (cfg : Config) (hi : ImportsOK cfg) (e : BSx) (c : Circuit) (hb : build cfg e = .ok c) :
    badNatives c = false := by
  unfold build buildWith at hb
  obtain ⟨inject, hinj, h1⟩ := bind_ok hb
  unfold buildCore at h1
  split at h1
  · rename_i children
    obtain ⟨acc, hloop, h3⟩ := bind_ok h1
    simp only [pure, Except.pure] at h3
    cases h3
    have h0 : NatTags (inject.getD []) := by
      unfold Config.inject at hinj
      cases hn : cfg.natives with
      | none => simp [hn, pure, Except.pure] at hinj; subst hinj; intro p hp; cases hp
      | some gs =>
        simp only [hn] at hinj
        obtain ⟨d, hd, h4⟩ := bind_ok hinj
        simp only [pure, Except.pure] at h4
        cases h4
        unfold normNatives at hd
        simp only [] at hd
        split at hd
        · simp [throw_eq] at hd
        · rename_i hany
          simp only [pure, Except.pure] at hd
          cases hd
          intro p hp ht
          apply hany
          simp only [List.any_eq_true]
          exact ⟨p, hp, by simp [ht]⟩
    have hfin := circuitLoop_tags hi children _ acc h0 hloop
    simp only [badNatives, Acc.toCircuit]
    rw [Bool.eq_false_iff]
    intro hany
    simp only [List.any_eq_true, List.mem_map] at hany
    obtain ⟨g, ⟨p, hp, rfl⟩, hg⟩ := hany
    exact hfin p hp (by simpa using hg)
  · obtain ⟨_, _, h2⟩ := bind_ok h1
    simp [throw_eq] at h2

end Jaqal.Builder

namespace Jaqal.UnitTimingCircuit
open Jaqal Jaqal.Builder

/-- the tree the parser hands to the builder, with its two shape facts -/
theorem parseProgram_build {cfg : Config} {txt : String} {c : Circuit} (h : Pipeline.parseProgram cfg txt = .ok c) :
    ∃ e, GrammarSx e ∧ build cfg e = .ok c := by
  unfold Pipeline.parseProgram Pipeline.parseSx at h
  cases hp : Parser.parseText txt with
  | error pe => rw [hp] at h; cases h
  | ok sx =>
    rw [hp] at h
    have hpb : parseBuild cfg sx = .ok c := h
    exact ⟨_, parseText_grammarSx hp, parseBuild_build hpb⟩

end Jaqal.UnitTimingCircuit
