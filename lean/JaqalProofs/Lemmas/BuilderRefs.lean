import JaqalModel.Model.Builder
import JaqalProofs.Lemmas.BuilderMemo
import Mathlib.Tactic.Linarith
/-! Lemmas for C14: every value and statement the builder constructs satisfies the declarative validity
predicates `ValOK` / `StmtOK`. -/
namespace Jaqal.Builder
open Jaqal

/-! ### The specification -/

/-- `len(range(a, b, s))` for `s ≠ 0` -/
def rangeLenI (a b s : Int) : Int :=
  if s > 0 then (if b ≤ a then 0 else (b - a + s - 1) / s)
  else (if a ≤ b then 0 else (a - b + (-s) - 1) / (-s))

/-- the size of a register when it follows from integer literals alone: a fundamental register of literal size, a
whole-register alias of such a thing, or a slice with literal bounds of such a thing -/
def litSize : Val → Option Int
  | .regF _ (.int k) => some k
  | .regA _ src => litSize src
  | .regS _ src (.int a) (.int b) (.int s) =>
    match litSize src with
    | some _ => if s = 0 then Option.none else some (rangeLenI a b s)
    | Option.none => Option.none
  | _ => Option.none

/-- Declarative validity of a value (independent of how it was built):
* a qubit is taken from a register or a parameter; a literal index into a register of literal size lies in `0..size-1`;
* a fundamental register of literal size has size ≥ 1;
* an alias is an alias of a register or a parameter; a slice with literal bounds of a source of literal size has a
  non-zero step, a non-negative start, and all its elements `start + j·step` (`0 ≤ j < len`) lie inside the source. -/
def ValOK : Val → Prop
  | .qubit _ src idx => ValOK src ∧ (isRegister src = true ∨ isParam src = true) ∧
      ∀ i k, idx = .int i → litSize src = some k → 0 ≤ i ∧ i < k
  | .regF _ size => ∀ k, size = .int k → 1 ≤ k
  | .regA _ src => ValOK src ∧ (isRegister src = true ∨ isParam src = true)
  | .regS _ src a b s => ValOK src ∧ (isRegister src = true ∨ isParam src = true) ∧
      ∀ ia ib is k, a = .int ia → b = .int ib → s = .int is → litSize src = some k →
        is ≠ 0 ∧ 0 ≤ ia ∧ ∀ j, 0 ≤ j → j < rangeLenI ia ib is → 0 ≤ ia + j * is ∧ ia + j * is < k
  | _ => True

/-- arity and kinds: as many arguments as parameters, and every parameter is bound to an argument that fits its kind -/
def ArgsFit (gd : GateDef) (args : List (String × Val)) : Prop :=
  args.length = gd.params.length ∧
  ∀ p ∈ gd.params, ∃ v, GateDef.odGet? args p.1 = some v ∧ GateDef.fits p.2 v = true

mutual
def StmtOK : Stmt → Prop
  | .gate name gd args => gd.name = name ∧ ArgsFit gd args ∧ ∀ a ∈ args, ValOK a.2
  | .block _ _ it body => ValOK it ∧ StmtsOK body
  | .loop c b => ValOK c ∧ StmtOK b
def StmtsOK : List Stmt → Prop
  | [] => True
  | s :: ss => StmtOK s ∧ StmtsOK ss
end

/-! ### Arithmetic of ranges -/

theorem range_elems {ia ib is k len j : Int} (hs : is ≠ 0) (ha : 0 ≤ ia) (hb : ib ≤ k) (hlen : len = rangeLenI ia ib is)
    (hends : len > 0 → ia < k ∧ 0 ≤ ia + (len - 1) * is) (hj0 : 0 ≤ j) (hj : j < len) :
    0 ≤ ia + j * is ∧ ia + j * is < k := by
  have hpos : len > 0 := by omega
  obtain ⟨h1, h2⟩ := hends hpos
  rcases Int.lt_or_gt_of_ne hs with hneg | hposs
  · -- negative step: the elements decrease from `ia < k` down to the last one, which is ≥ 0
    have hle : (len - 1 - j) * is ≤ 0 := Int.mul_nonpos_of_nonneg_of_nonpos (by omega) (by omega)
    have hjs : j * is ≤ 0 := Int.mul_nonpos_of_nonneg_of_nonpos hj0 (by omega)
    constructor <;> nlinarith
  · -- positive step: the elements increase from `ia ≥ 0` and stay below `ib ≤ k`
    have hjs : 0 ≤ j * is := Int.mul_nonneg hj0 (by omega)
    refine ⟨by omega, ?_⟩
    simp only [rangeLenI, hposs, if_true] at hlen
    by_cases hba : ib ≤ ia
    · simp only [hba, if_true] at hlen; omega
    · simp only [hba, if_false] at hlen
      have : j + 1 ≤ (ib - ia + is - 1) / is := by omega
      have := (Int.le_ediv_iff_mul_le hposs).1 this
      nlinarith

theorem rangeLen_eq {a b s : Int} (hs : s ≠ 0) : Resolve.rangeLen a b s = .ok (rangeLenI a b s) := by
  unfold Resolve.rangeLen rangeLenI
  simp only [hs, if_false]
  by_cases h : s > 0 <;> simp [h, pure, Except.pure]

theorem litSize_isRegister {v : Val} {k : Int} (h : litSize v = some k) : isRegister v = true := by
  cases v with
  | regF _ _ => rfl
  | regA _ _ => rfl
  | regS _ _ _ _ _ => rfl
  | _ => simp [litSize] at h

theorem resolveSize_lit : ∀ (src : Val) (k : Int), litSize src = some k → Resolve.resolveSize [] src = .ok (.int k)
  | .regF n size, k, h => by
    cases size <;> simp [litSize] at h
    subst h; rfl
  | .regA n src, k, h => by
    simp only [litSize] at h
    have ih := resolveSize_lit src k h
    have hr := litSize_isRegister h
    cases src <;> simp [isRegister] at hr <;> simpa [Resolve.resolveSize] using ih
  | .regS n src a b s, k, h => by
    cases a <;> cases b <;> cases s <;> simp only [litSize] at h <;> try (exact absurd h (by simp))
    rename_i ia ib is
    cases hl : litSize src with
    | none => simp [hl] at h
    | some k' =>
      simp only [hl] at h
      by_cases hs : is = 0
      · simp [hs] at h
      · simp only [hs, if_false, Option.some.injEq] at h
        have hr := litSize_isRegister hl
        have hstart : Resolve.startOr0 (.int ia) = .int ia := by
          unfold Resolve.startOr0
          split <;> simp_all
        cases src <;> simp [isRegister] at hr <;>
          simp [Resolve.resolveSize, hstart, Resolve.stepOr1, Resolve.resolveInt, Resolve.resolveAV, Resolve.avFuel,
            rangeLen_eq hs, bind, Except.bind, pure, Except.pure, h, hs]
  | .int _, _, h | .flt _, _, h | .const _ _, _, h | .param _ _, _, h | .qubit _ _ _, _, h | .none, _, h
  | .str _, _, h => by simp [litSize] at h


theorem regSize_lit {src : Val} {k : Int} (h : litSize src = some k) : regSize src = .ok (.int k) := by
  unfold regSize
  rw [resolveSize_lit src k h]

theorem mkRegister_ok {n : String} {size v : Val} (h : mkRegister n size = .ok v) : ValOK v := by
  unfold mkRegister at h
  split at h
  · simp [throw_eq] at h
  · rename_i k
    by_cases hk : k < 1
    · simp [hk, throw_eq] at h
    · simp only [hk, if_false] at h
      cases h
      intro k' hk'
      cases hk'; omega
  · split at h
    · simp [throw_eq] at h
    · cases h; intro k hk; cases hk
  · split at h
    · simp [throw_eq] at h
    · split at h
      · simp [throw_eq] at h
      · cases h
        intro k hk
        rename_i h1 h2 h3 h4 h5
        subst hk
        exact absurd rfl (h2 k)

theorem pyLt_int {a b : Int} : pyLt (.int a) (.int b) = .ok (decide (a < b)) := rfl
theorem pyLe_int {a b : Int} : pyLe (.int a) (.int b) = .ok (!decide (b < a)) := rfl

/-- what the checks of `NamedQubit.__init__` establish for a literal index -/
theorem qubitCheck_lit {src : Val} {i k : Int} (h : qubitCheck src (.int i) = .ok ()) (hk : litSize src = some k) :
    0 ≤ i ∧ i < k := by
  have hreg := litSize_isRegister hk
  have hav : (isAV (.int i) || isAV src) = false := by
    cases src <;> simp [isRegister] at hreg <;> rfl
  have hnone : (Val.int i == Val.none || src == Val.none) = false := by
    cases src <;> simp [isRegister] at hreg <;> rfl
  unfold qubitCheck at h
  simp only [indexIntegralCheck, indexRangeCheck, hnone, hav, Bool.false_eq_true, if_false, bind, Except.bind,
    regSize_lit hk,
    pyIntOfSize, pure, Except.pure, pyLt_int, pyLe_int] at h
  by_cases hb : (decide (i < 0) || !decide (i < k)) = true
  · simp [hb, throw_eq] at h
  · simp only [Bool.or_eq_true, decide_eq_true_eq, Bool.not_eq_true', decide_eq_false_iff_not, not_or, not_lt] at hb
    omega

theorem mkQubit_ok {n : String} {src idx v : Val} (h : mkQubit n src idx = .ok v) (hsrc : ValOK src)
    (hr : isRegister src = true ∨ isParam src = true) : ValOK v := by
  unfold mkQubit at h
  obtain ⟨u, hc, hv⟩ := bind_ok h
  cases hv
  refine ⟨hsrc, hr, ?_⟩
  intro i k hi hk
  subst hi
  exact qubitCheck_lit hc hk


theorem startOr0_int (ia : Int) : Resolve.startOr0 (.int ia) = .int ia := by
  unfold Resolve.startOr0
  split <;> simp_all

theorem sliceCheck_lit {src : Val} {ia ib is k : Int} (h : sliceCheck src (.int ia) (.int ib) (.int is) = .ok ())
    (hk : litSize src = some k) :
    is ≠ 0 ∧ 0 ≤ ia ∧ ∀ j, 0 ≤ j → j < rangeLenI ia ib is → 0 ≤ ia + j * is ∧ ia + j * is < k := by
  have hreg := litSize_isRegister hk
  have hav : (isAV (.int ia) || isAV (.int ib) || isAV (.int is) || isAV src) = false := by
    cases src <;> simp [isRegister] at hreg <;> rfl
  unfold sliceCheck at h
  simp only [hav, Bool.false_eq_true, if_false] at h
  unfold sliceKnownCheck at h
  by_cases hs : is = 0
  · subst hs; simp [hav, isIntLit, pyEq0, Val.toNum?, Num.veq, throw_eq, bind, Except.bind] at h
  have hz : pyEq0 (.int is) = false := by simp [pyEq0, Val.toNum?, Num.veq, hs]
  have hsz : ((Val.int k == Val.none) || isAV (.int k)) = false := rfl
  simp only [hav, hz, hsz, isIntLit, Bool.and_self, Bool.not_true, Bool.false_eq_true, if_false, bind, Except.bind,
    pyLt_int, pyLe_int, pure, Except.pure, regSize_lit hk, startOr0_int, Resolve.stepOr1, pyRangeArg, rangeLen_eq hs, decide_eq_true_eq] at h
  by_cases ha : ia < 0
  · simp [ha, throw_eq] at h
  simp only [ha, if_false] at h
  by_cases hb : k < ib
  · simp [hb, throw_eq] at h
  simp only [hb, if_false] at h
  refine ⟨hs, by omega, ?_⟩
  intro j hj0 hj
  refine range_elems hs (by omega) (by omega) rfl ?_ hj0 hj
  intro hpos
  have hpos' : 0 < rangeLenI ia ib is := hpos
  simp only [hpos', if_true] at h
  simpa [throw_eq] using h

theorem mkSlice_ok {n : String} {src a b s v : Val} (h : mkSlice n src a b s = .ok v) (hsrc : ValOK src)
    (hr : isRegister src = true ∨ isParam src = true) : ValOK v := by
  unfold mkSlice at h
  obtain ⟨u, hc, hv⟩ := bind_ok h
  cases hv
  refine ⟨hsrc, hr, ?_⟩
  intro ia ib is k h1 h2 h3 hk
  subst h1; subst h2; subst h3
  exact sliceCheck_lit hc hk

theorem getItem_ok {arr idx v : Val} (h : getItem arr idx = .ok v) (harr : ValOK arr)
    (hr : isRegister arr = true ∨ isParam arr = true) : ValOK v := by
  unfold getItem at h
  split at h
  · simp [throw_eq] at h
  · split at h
    · exact mkQubit_ok h harr hr
    · obtain ⟨_, _, h2⟩ := bind_ok h
      simp [throw_eq] at h2

mutual
/-- no already-built object is embedded in the expression (true of everything `BSx.ofSx` yields) -/
def BSx.noVals : BSx → Bool
  | .val _ => false
  | .list l => BSx.noValsList l
  | _ => true
def BSx.noValsList : List BSx → Bool
  | [] => true
  | x :: xs => BSx.noVals x && BSx.noValsList xs
end

theorem noVals_of_mem {x : BSx} {l : List BSx} (h : BSx.noValsList l = true) (hx : x ∈ l) : x.noVals = true := by
  induction l with
  | nil => cases hx
  | cons y ys ih =>
    simp only [BSx.noValsList, Bool.and_eq_true] at h
    rcases List.mem_cons.1 hx with rfl | hx
    · exact h.1
    · exact ih h.2 hx

mutual
theorem noVals_ofSx : ∀ s : Sx, (BSx.ofSx s).noVals = true
  | .str _ => rfl
  | .int _ => rfl
  | .flt _ => rfl
  | .none => rfl
  | .list l => by simp only [BSx.ofSx, BSx.noVals]; exact noValsList_ofSx l
theorem noValsList_ofSx : ∀ l : List Sx, BSx.noValsList (BSx.ofSxList l) = true
  | [] => rfl
  | x :: xs => by simp only [BSx.ofSxList, BSx.noValsList, noVals_ofSx x, noValsList_ofSx xs, Bool.and_self]
end

def CtxOK (ctx : Ctx) : Prop := ∀ n v, ctx.get n = some v → ValOK v

theorem mkConstant_ok {n : String} {e : BSx} {v : Val} (h : mkConstant n e = .ok v) : ValOK v := by
  cases e with
  | val w => cases w <;> simp [mkConstant, throw_eq, pure, Except.pure] at h <;> (subst h; trivial)
  | _ => simp [mkConstant, throw_eq, pure, Except.pure] at h <;> (try subst h) <;> trivial

theorem mapSource_ok {get : String → Option Val} {e : BSx} {v : Val} (hg : ∀ s w, get s = some w → ValOK w)
    (hn : e.noVals = true) (h : mapSource get e = .ok v) : ValOK v ∧ (isRegister v = true ∨ isParam v = true) := by
  cases e with
  | val w => simp [BSx.noVals] at hn
  | str s =>
    simp only [mapSource] at h
    cases hgs : get s with
    | none => simp [hgs, throw_eq] at h
    | some w =>
      simp only [hgs] at h
      by_cases hw : (isRegister w || isParam w) = true
      · simp only [hw, if_true, pure, Except.pure] at h
        cases h
        exact ⟨hg s _ hgs, by simpa using hw⟩
      · simp [hw, throw_eq] at h
  | _ => simp [mapSource, throw_eq] at h

theorem valStep_ok {get : String → Option Val} {rec : BSx → M Val} {l : List BSx} {v : Val}
    (hrec : ∀ x ∈ l, ∀ w, rec x = .ok w → ValOK w) (hg : ∀ s w, get s = some w → ValOK w)
    (hn : BSx.noValsList l = true) (h : valStep get rec l = .ok v) : ValOK v := by
  unfold valStep at h
  split at h
  · simp [throw_eq] at h
  · rename_i cmd args
    simp only [BSx.noValsList, BSx.noVals, Bool.true_and] at hn
    split at h
    · split at h
      · obtain ⟨n, _, h1⟩ := bind_ok h
        obtain ⟨sz, _, h2⟩ := bind_ok h1
        exact mkRegister_ok h2
      · simp [throw_eq] at h
    · split at h
      · split at h
        · obtain ⟨n, _, h1⟩ := bind_ok h
          exact mkConstant_ok h1
        · simp [throw_eq] at h
      · split at h
        · split at h
          · rename_i ident index
            obtain ⟨arr, ha, h1⟩ := bind_ok h
            obtain ⟨idx, hi, h2⟩ := bind_ok h1
            by_cases hr : (!(isRegister arr || isParam arr)) = true
            · simp [hr, throw_eq, bind, Except.bind] at h2
            · simp only [hr, if_false, Bool.false_eq_true] at h2
              have harr := hrec ident (by simp) arr ha
              refine getItem_ok h2 harr ?_
              cases h1r : isRegister arr <;> cases h2r : isParam arr <;> simp [h1r, h2r] at hr ⊢
          · simp [throw_eq] at h
        · split at h
          · split at h
            · rename_i name srcE rest
              obtain ⟨src, hs, h1⟩ := bind_ok h
              have hnsrc : srcE.noVals = true := by
                simp only [BSx.noValsList, Bool.and_eq_true] at hn; exact hn.2.1
              obtain ⟨hsrc, hreg⟩ := mapSource_ok hg hnsrc hs
              split at h1
              · obtain ⟨n, _, h2⟩ := bind_ok h1
                cases h2
                exact ⟨hsrc, hreg⟩
              · obtain ⟨n, _, h2⟩ := bind_ok h1
                obtain ⟨idx, _, h3⟩ := bind_ok h2
                exact mkQubit_ok h3 hsrc hreg
              · obtain ⟨n, _, h2⟩ := bind_ok h1
                obtain ⟨a, _, h3⟩ := bind_ok h2
                obtain ⟨b, _, h4⟩ := bind_ok h3
                obtain ⟨c, _, h5⟩ := bind_ok h4
                obtain ⟨d, _, h6⟩ := bind_ok h5
                exact mkSlice_ok h6 hsrc hreg
              · simp [throw_eq] at h1
            · simp [throw_eq] at h
          · split at h <;> simp [throw_eq] at h
  · simp [throw_eq] at h

theorem buildVal_ok {ctx : Ctx} (hc : CtxOK ctx) : ∀ (f : Nat) (e : BSx) (v : Val), e.noVals = true →
    buildVal ctx f e = .ok v → ValOK v := by
  intro f
  induction f with
  | zero =>
    intro e v hn h
    cases e with
    | str s =>
      simp only [buildVal, lookupId] at h
      cases hg : ctx.get s with
      | none => simp [hg, throw_eq] at h
      | some w => simp [hg, pure, Except.pure] at h; subst h; exact hc s w hg
    | list l => simp [buildVal, throw_eq] at h
    | val w => simp [BSx.noVals] at hn
    | _ => simp [buildVal, pure, Except.pure] at h; subst h; trivial
  | succ f ih =>
    intro e v hn h
    cases e with
    | str s =>
      simp only [buildVal, lookupId] at h
      cases hg : ctx.get s with
      | none => simp [hg, throw_eq] at h
      | some w => simp [hg, pure, Except.pure] at h; subst h; exact hc s w hg
    | list l =>
      simp only [BSx.noVals] at hn
      exact valStep_ok (fun x hx w hw => ih x w (noVals_of_mem hn hx) hw) hc hn
        (show valStep ctx.get (buildVal ctx f) l = .ok v from h)
    | val w => simp [BSx.noVals] at hn
    | _ => simp [buildVal, pure, Except.pure] at h; subst h; trivial


/-! ### Gate statements -/

theorem validateAll_ok : ∀ (ps : List (String × Kind)) (bound : List (String × Val)),
    GateDef.validateAll ps bound = .ok () →
    ∀ p ∈ ps, ∃ v, GateDef.odGet? bound p.1 = some v ∧ GateDef.fits p.2 v = true := by
  intro ps
  induction ps with
  | nil => intro _ _ p hp; cases hp
  | cons q qs ih =>
    intro bound h p hp
    obtain ⟨n, k⟩ := q
    simp only [GateDef.validateAll] at h
    cases hf : GateDef.odGet? bound n with
    | none => simp [hf] at h
    | some v =>
      simp only [hf] at h
      obtain ⟨u, hv, h2⟩ := bind_ok h
      rcases List.mem_cons.1 hp with rfl | hp
      · exact ⟨v, hf, by simp [GateDef.fits, hv]⟩
      · exact ih bound h2 p hp

theorem odSet_mem {k : String} {v : Val} : ∀ {l : List (String × Val)} {a : String × Val},
    a ∈ odSet k v l → a.2 = v ∨ a ∈ l := by
  intro l
  induction l with
  | nil => intro a h; simp [odSet] at h; left; rw [h]
  | cons p ps ih =>
    intro a h
    obtain ⟨k', v'⟩ := p
    simp only [odSet] at h
    by_cases hk : (k' == k) = true
    · simp only [hk, if_true] at h
      rcases List.mem_cons.1 h with rfl | h
      · left; rfl
      · right; simp [h]
    · simp only [hk] at h
      rcases List.mem_cons.1 h with rfl | h
      · right; simp
      · rcases ih h with h | h
        · left; exact h
        · right; simp [h]

theorem foldl_odSet_mem : ∀ (zs : List (String × Val)) (init : List (String × Val)) (a : String × Val),
    a ∈ zs.foldl (fun acc p => odSet p.1 p.2 acc) init → (∃ z ∈ zs, a.2 = z.2) ∨ a ∈ init := by
  intro zs
  induction zs with
  | nil => intro init a h; right; exact h
  | cons z zs ih =>
    intro init a h
    simp only [List.foldl_cons] at h
    rcases ih _ a h with ⟨z', hz', he⟩ | h
    · left; exact ⟨z', by simp [hz'], he⟩
    · rcases odSet_mem h with h | h
      · left; exact ⟨z, by simp, h⟩
      · right; exact h

theorem callDef_ok {gd : GateDef} {vals : List Val} {s : Stmt} (h : callDef gd vals = .ok s)
    (hv : ∀ v ∈ vals, ValOK v) : StmtOK s := by
  unfold callDef at h
  simp only [bind, Except.bind] at h
  split at h
  · simp [throw_eq] at h
  · simp only [pure, Except.pure] at h
    split at h
    · simp [throw_eq] at h
    · rename_i hlen
      cases hva : GateDef.validateAll gd.params
          (List.foldl (fun acc p => odSet p.1 p.2 acc) [] ((List.map (fun x => x.1) gd.params).zip vals)) with
      | error e => simp [hva] at h
      | ok u =>
        simp only [hva] at h
        cases h
        refine ⟨rfl, ⟨by have := hlen; simp only [ne_eq, not_not] at this; exact this.symm, validateAll_ok _ _ hva⟩, ?_⟩
        intro a ha
        rcases foldl_odSet_mem _ _ a ha with ⟨z, hz, he⟩ | h0
        · rw [he]
          exact hv _ (List.of_mem_zip hz).2
        · cases h0


def ObjOK : Obj → Prop
  | .val v => ValOK v
  | .stmt s => StmtOK s
  | .macro m => StmtOK m.body
  | _ => True

def MemoStmts (m : Memo) : Prop := ∀ k s, (k, s) ∈ m → StmtOK s

theorem mapM_ok {α β : Type} {f : α → M β} : ∀ {l : List α} {vs : List β}, l.mapM f = .ok vs →
    ∀ v ∈ vs, ∃ x ∈ l, f x = .ok v := by
  intro l
  induction l with
  | nil => intro vs h v hv; simp [List.mapM_nil, pure, Except.pure] at h; subst h; cases hv
  | cons x xs ih =>
    intro vs h v hv
    simp only [List.mapM_cons] at h
    obtain ⟨y, hy, h1⟩ := bind_ok h
    obtain ⟨ys, hys, h2⟩ := bind_ok h1
    cases h2
    rcases List.mem_cons.1 hv with rfl | hv
    · exact ⟨x, by simp, hy⟩
    · obtain ⟨x', hx', hf⟩ := ih hys v hv
      exact ⟨x', by simp [hx'], hf⟩

theorem buildGate_ok {cfg : Config} {mode : KeyMode} {ctx : Ctx} {f : Nat} {args : List BSx} {st st1 : St} {s : Stmt}
    (hc : CtxOK ctx) (hn : BSx.noValsList args = true) (hm : MemoStmts st.memo)
    (h : buildGate cfg mode ctx (buildVal ctx f) args st = .ok (s, st1)) : StmtOK s ∧ MemoStmts st1.memo := by
  unfold buildGate at h
  split at h
  · simp [throw_eq] at h
  · rename_i name gargs
    obtain ⟨_, _, h⟩ := bind_ok h
    unfold buildGateMemo at h
    simp only [BSx.noValsList, BSx.noVals, Bool.true_and] at hn
    have hfresh : ∀ (p : Stmt × GCtx), buildGateFresh cfg (buildVal ctx f) name gargs st.gctx = .ok p → StmtOK p.1 := by
      intro p hb
      unfold buildGateFresh at hb
      obtain ⟨q, _, h2⟩ := bind_ok hb
      obtain ⟨vals, hvals, h3⟩ := bind_ok h2
      obtain ⟨s'', hcall, h4⟩ := bind_ok h3
      cases h4
      apply callDef_ok hcall
      intro v hv
      obtain ⟨x, hx, hfx⟩ := mapM_ok hvals v hv
      exact buildVal_ok hc f x v (noVals_of_mem hn hx) hfx
    by_cases hoff : mode = .off
    · simp only [hoff, if_true] at h
      obtain ⟨p, hb, h1⟩ := bind_ok h
      cases h1
      exact ⟨hfresh p hb, hm⟩
    · simp only [hoff, if_false] at h
      cases hfind : Memo.find mode.numByValue st.memo (mkKey mode ctx name gargs) with
      | some g =>
        simp only [hfind, pure, Except.pure] at h
        cases h
        obtain ⟨k, hk, _⟩ := Memo.find_some hfind
        exact ⟨hm k _ hk, hm⟩
      | none =>
        simp only [hfind] at h
        obtain ⟨p, hb, h1⟩ := bind_ok h
        cases h1
        refine ⟨hfresh p hb, ?_⟩
        intro k s0 hk
        rcases List.mem_cons.1 hk with heq | hk
        · cases heq; exact hfresh p hb
        · exact hm k s0 hk
  · simp [throw_eq] at h

theorem asStmts_ok : ∀ {os : List Obj} {ss : List Stmt}, asStmts os = .ok ss → (∀ o ∈ os, ObjOK o) → StmtsOK ss := by
  intro os
  induction os with
  | nil => intro ss h _; simp [asStmts, pure, Except.pure] at h; subst h; trivial
  | cons o os ih =>
    intro ss h ho
    cases o with
    | stmt s =>
      simp only [asStmts] at h
      obtain ⟨r, hr, h1⟩ := bind_ok h
      cases h1
      exact ⟨ho (.stmt s) (by simp), ih hr (fun o' ho' => ho o' (by simp [ho']))⟩
    | _ => simp [asStmts, throw_eq] at h

theorem mapMSt_ok {fA : BSx → St → M (Obj × St)} : ∀ (l : List BSx) (st st1 : St) (os : List Obj),
    (∀ x ∈ l, ∀ s s1 o, MemoStmts s.memo → fA x s = .ok (o, s1) → ObjOK o ∧ MemoStmts s1.memo) →
    MemoStmts st.memo → mapMSt fA l st = .ok (os, st1) → (∀ o ∈ os, ObjOK o) ∧ MemoStmts st1.memo := by
  intro l
  induction l with
  | nil =>
    intro st st1 os _ hm h
    simp only [mapMSt, pure, Except.pure] at h
    cases h
    exact ⟨fun o ho => (by cases ho), hm⟩
  | cons x xs ih =>
    intro st st1 os hf hm h
    simp only [mapMSt] at h
    obtain ⟨p, hp, h1⟩ := bind_ok h
    obtain ⟨o, s1⟩ := p
    obtain ⟨q, hq, h2⟩ := bind_ok h1
    obtain ⟨os', s2⟩ := q
    cases h2
    obtain ⟨ho, hm1⟩ := hf x (by simp) st s1 o hm hp
    obtain ⟨hos, hm2⟩ := ih s1 _ os' (fun y hy => hf y (by simp [hy])) hm1 hq
    refine ⟨?_, hm2⟩
    intro o' ho'
    rcases List.mem_cons.1 ho' with rfl | ho'
    · exact ho
    · exact hos o' ho'


theorem lookup_append_some {l1 l2 : List (String × Val)} {n : String} {v : Val}
    (h : (l1 ++ l2).lookup n = some v) : l1.lookup n = some v ∨ l2.lookup n = some v := by
  induction l1 with
  | nil => right; exact h
  | cons p ps ih =>
    obtain ⟨k, w⟩ := p
    simp only [List.cons_append, List.lookup] at h ⊢
    by_cases hk : (n == k) = true
    · simp only [hk] at h ⊢; left; exact h
    · simp only [hk] at h ⊢; exact ih h

theorem withParams_ok {ctx : Ctx} (hc : CtxOK ctx) (ps : List (String × Kind)) : CtxOK (ctx.withParams ps) := by
  intro n v h
  simp only [Ctx.get, Ctx.withParams] at h
  rcases lookup_append_some h with h | h
  · have : ∀ (l : List (String × Kind)), (l.map (fun p => (p.1, Val.param p.1 p.2))).lookup n = some v →
        ∃ k m, v = .param m k := by
      intro l
      induction l with
      | nil => intro h; simp at h
      | cons q qs ih =>
        intro h
        simp only [List.map_cons, List.lookup] at h
        by_cases hk : (n == q.1) = true
        · simp only [hk, Option.some.injEq] at h; exact ⟨q.2, q.1, h.symm⟩
        · simp only [hk] at h; exact ih h
    obtain ⟨k, m, hv⟩ := this _ h
    subst hv; trivial
  · exact hc n v h

theorem anyStep_ok {cfg : Config} {mode : KeyMode} {recA : Ctx → BSx → St → M (Obj × St)} {ctx : Ctx} {f : Nat}
    {l : List BSx} {st st1 : St} {o : Obj} (hc : CtxOK ctx)
    (hrec : ∀ c x, x ∈ l → CtxOK c → ∀ s s1 o, MemoStmts s.memo → recA c x s = .ok (o, s1) →
      ObjOK o ∧ MemoStmts s1.memo)
    (hn : BSx.noValsList l = true) (hm : MemoStmts st.memo)
    (h : anyStep cfg mode recA (buildVal ctx f) ctx l st = .ok (o, st1)) : ObjOK o ∧ MemoStmts st1.memo := by
  unfold anyStep at h
  match l, hrec, hn, h with
  | [], _, _, h => simp [throw_eq] at h
  | .str cmd :: args, hrec, hn, h =>
    simp only [BSx.noValsList, BSx.noVals, Bool.true_and] at hn
    have hrec' : ∀ c x, x ∈ args → CtxOK c → ∀ s s1 o, MemoStmts s.memo → recA c x s = .ok (o, s1) →
        ObjOK o ∧ MemoStmts s1.memo := fun c x hx => hrec c x (by simp [hx])
    have hblock : ∀ (c : Ctx) (as : List BSx) (par sub : Bool) (it : Val), CtxOK c → (∀ x ∈ as, x ∈ args) → ValOK it →
        ∀ (os : List Obj) (s1 : St) (ss : List Stmt), mapMSt (recA c) as st = .ok (os, s1) → asStmts os = .ok ss →
        ObjOK (.stmt (.block par sub it ss)) ∧ MemoStmts s1.memo := by
      intro c as par sub it hcc has hit os s1 ss hmap hss
      obtain ⟨hos, hm1⟩ := mapMSt_ok as st s1 os (fun x hx => hrec' c x (has x hx) hcc) hm hmap
      exact ⟨⟨hit, asStmts_ok hss hos⟩, hm1⟩
    by_cases h1 : cmd = "gate"
    · simp only [h1, if_true] at h
      obtain ⟨p, hp, h2⟩ := bind_ok h
      cases h2
      exact buildGate_ok hc hn hm hp
    simp only [h1, if_false] at h
    by_cases h2 : cmd = "sequential_block" ∨ cmd = "block"
    · simp only [h2, if_true] at h
      obtain ⟨p, hp, h3⟩ := bind_ok h
      obtain ⟨ss, hss, h4⟩ := bind_ok h3
      cases h4
      exact hblock { ctx with inSeq := true } args false false (.int 1) (fun n v hh => hc n v hh) (fun _ hx => hx)
        trivial p.1 p.2 _ (by cases p; exact hp) hss
    simp only [h2, if_false] at h
    by_cases h3 : cmd = "parallel_block"
    · simp only [h3, if_true] at h
      obtain ⟨p, hp, h3⟩ := bind_ok h
      obtain ⟨ss, hss, h4⟩ := bind_ok h3
      cases h4
      exact hblock { ctx with inPar := true } args true false (.int 1) (fun n v hh => hc n v hh) (fun _ hx => hx)
        trivial p.1 p.2 _ (by cases p; exact hp) hss
    simp only [h3, if_false] at h
    by_cases h4 : cmd = "unscheduled_block"
    · simp only [h4, if_true] at h
      obtain ⟨p, hp, h3⟩ := bind_ok h
      obtain ⟨ss, hss, h4⟩ := bind_ok h3
      cases h4
      exact hblock ctx args false false (.int 1) hc (fun _ hx => hx) trivial p.1 p.2 _ (by cases p; exact hp) hss
    simp only [h4, if_false] at h
    by_cases h5 : cmd = "subcircuit_block"
    · simp only [h5, if_true] at h
      split at h
      · simp [throw_eq] at h
      · obtain ⟨p, hp, h2⟩ := bind_ok h
        split at h2
        · simp [throw_eq] at h2
        · rename_i countE rest
          obtain ⟨count, hcount, h3⟩ := bind_ok h2
          obtain ⟨_, _, h4⟩ := bind_ok h3
          obtain ⟨ss, hss, h5⟩ := bind_ok h4
          cases h5
          have hcok : ValOK count := by
            unfold subCount at hcount
            split at hcount
            · cases hcount; trivial
            · cases hcount; trivial
            · refine buildVal_ok hc f _ count ?_ hcount
              simp only [BSx.noValsList, Bool.and_eq_true] at hn; exact hn.1
          exact hblock { ctx with inSub := true } _ false true count (fun n v hh => hc n v hh)
            (fun x hx => List.mem_of_mem_tail hx) hcok p.1 p.2 _ (by cases p; exact hp) hss
    simp only [h5, if_false] at h
    by_cases h6 : cmd = "loop"
    · simp only [h6, if_true] at h
      split at h
      · rename_i countE blockE
        obtain ⟨count, hcount, h2⟩ := bind_ok h
        obtain ⟨p, hp, h3⟩ := bind_ok h2
        have hcok : ValOK count := by
          refine buildVal_ok hc f _ count ?_ hcount
          simp only [BSx.noValsList, Bool.and_eq_true] at hn; exact hn.1
        obtain ⟨hob, hm1⟩ := hrec' ctx blockE (by simp) hc st p.2 p.1 hm (by cases p; exact hp)
        split at h3
        · rename_i b hb
          obtain ⟨_, _, h4⟩ := bind_ok h3
          cases h4
          rw [hb] at hob
          exact ⟨⟨hcok, hob⟩, hm1⟩
        · obtain ⟨_, _, h4⟩ := bind_ok h3
          cases h4
          exact ⟨⟨hcok, trivial, trivial⟩, hm1⟩
        · simp [throw_eq] at h3
      · simp [throw_eq] at h
    simp only [h6, if_false] at h
    by_cases h7 : cmd = "case"
    · simp only [h7, if_true] at h
      split at h
      · rename_i stateE blockE
        obtain ⟨_, _, h2⟩ := bind_ok h
        obtain ⟨p, hp, h3⟩ := bind_ok h2
        cases h3
        obtain ⟨_, hm1⟩ := hrec' ctx blockE (by simp) hc st p.2 p.1 hm (by cases p; exact hp)
        exact ⟨trivial, hm1⟩
      · simp [throw_eq] at h
    simp only [h7, if_false] at h
    by_cases h8 : cmd = "branch"
    · simp only [h8, if_true] at h
      obtain ⟨a, _, h2⟩ := bind_ok h
      simp [throw_eq] at h2
    simp only [h8, if_false] at h
    by_cases h9 : cmd = "macro"
    · simp only [h9, if_true] at h
      split at h
      · simp [throw_eq] at h
      · split at h
        · rename_i nameE rest _
          obtain ⟨a, _, h2⟩ := bind_ok h
          split at h2
          · simp [throw_eq, bind, Except.bind] at h2
          · obtain ⟨params, _, h3⟩ := bind_ok h2
            split at h3
            · simp [throw_eq] at h3
            · rename_i blockE hlast
              obtain ⟨p, hp, h4⟩ := bind_ok h3
              have hmem : blockE ∈ rest := List.mem_of_getLast? hlast
              obtain ⟨hob, hm1⟩ := hrec' (ctx.withParams params) blockE (by simp [hmem]) (withParams_ok hc params)
                st p.2 p.1 hm (by cases p; exact hp)
              split at h4
              · rename_i par sub it body hb
                cases h4
                rw [hb] at hob
                exact ⟨hob, hm1⟩
              · simp [throw_eq] at h4
        · simp [throw_eq] at h
    simp only [h9, if_false] at h
    by_cases h10 : cmd = "usepulses"
    · simp only [h10, if_true] at h
      split at h
      · split at h
        · simp [throw_eq, bind, Except.bind] at h
        · split at h
          · cases h; exact ⟨trivial, hm⟩
          · simp [throw_eq] at h
      · simp [throw_eq] at h
    simp only [h10, if_false] at h
    by_cases h11 : cmd = "circuit"
    · simp [h11, throw_eq] at h
    simp only [h11, if_false] at h
    obtain ⟨v, hv, h2⟩ := bind_ok h
    cases h2
    refine ⟨?_, hm⟩
    refine valStep_ok (fun x hx w hw => buildVal_ok hc f x w (noVals_of_mem ?_ hx) hw) hc ?_ hv
    · simp only [BSx.noValsList, BSx.noVals, Bool.true_and]; exact hn
    · simp only [BSx.noValsList, BSx.noVals, Bool.true_and]; exact hn
  | .int _ :: _, _, _, h | .flt _ :: _, _, _, h | .none :: _, _, _, h | .list _ :: _, _, _, h | .val _ :: _, _, _, h =>
    simp [throw_eq] at h


theorem buildAny_ok {cfg : Config} {mode : KeyMode} : ∀ (f : Nat) (ctx : Ctx) (e : BSx) (st st1 : St) (o : Obj),
    CtxOK ctx → e.noVals = true → MemoStmts st.memo → buildAny cfg mode f ctx e st = .ok (o, st1) →
    ObjOK o ∧ MemoStmts st1.memo := by
  intro f
  induction f with
  | zero =>
    intro ctx e st st1 o hc hn hm h
    cases e with
    | list l => simp [buildAny, throw_eq] at h
    | _ =>
      rw [buildAny_atom _ _ _ _ _ _ (by intro l; simp)] at h
      obtain ⟨v, hv, h2⟩ := bind_ok h
      cases h2
      exact ⟨buildVal_ok hc _ _ v hn hv, hm⟩
  | succ f ih =>
    intro ctx e st st1 o hc hn hm h
    cases e with
    | list l =>
      simp only [BSx.noVals] at hn
      refine anyStep_ok hc ?_ hn hm (show anyStep cfg mode (buildAny cfg mode f) (buildVal ctx f) ctx l st = _ from h)
      intro c x hx hcc s s1 o' hms hr
      exact ih c x s s1 o' hcc (noVals_of_mem hn hx) hms hr
    | _ =>
      rw [buildAny_atom _ _ _ _ _ _ (by intro l; simp)] at h
      obtain ⟨v, hv, h2⟩ := bind_ok h
      cases h2
      exact ⟨buildVal_ok hc _ _ v hn hv, hm⟩

/-! ### `rebuild_macro_in_context` keeps statements valid -/

mutual
theorem rebuildStmt_ok (g : GCtx) : ∀ (s : Stmt) (ch : Bool) (s' : Stmt), rebuildStmt g s = .ok (ch, s') →
    StmtOK s → StmtOK s'
  | .gate name gd args, ch, s', h, hs => by
    simp only [rebuildStmt] at h
    split at h
    · rename_i m _
      split at h
      · split at h
        · cases h; exact hs
        · simp [throw_eq] at h
      · obtain ⟨s2, hcall, h2⟩ := bind_ok h
        cases h2
        apply callDef_ok hcall
        intro v hv
        obtain ⟨a, ha, rfl⟩ := List.mem_map.1 hv
        exact hs.2.2 a ha
    · cases h; exact hs
  | .block par sub it body, ch, s', h, hs => by
    simp only [rebuildStmt] at h
    obtain ⟨p, hp, h2⟩ := bind_ok h
    obtain ⟨c, body'⟩ := p
    have := rebuildList_ok g body c body' hp hs.2
    split at h2
    · cases h2; exact ⟨trivial, this⟩
    · cases h2; exact hs
  | .loop c b, ch, s', h, hs => by
    simp only [rebuildStmt] at h
    obtain ⟨p, hp, h2⟩ := bind_ok h
    obtain ⟨c1, b'⟩ := p
    have := rebuildStmt_ok g b c1 b' hp hs.2
    split at h2
    · cases h2; exact ⟨hs.1, this⟩
    · cases h2; exact hs
theorem rebuildList_ok (g : GCtx) : ∀ (l : List Stmt) (ch : Bool) (l' : List Stmt), rebuildList g l = .ok (ch, l') →
    StmtsOK l → StmtsOK l'
  | [], ch, l', h, _ => by simp only [rebuildList, pure, Except.pure] at h; cases h; trivial
  | s :: ss, ch, l', h, hs => by
    simp only [rebuildList] at h
    obtain ⟨p, hp, h2⟩ := bind_ok h
    obtain ⟨c1, s'⟩ := p
    obtain ⟨q, hq, h3⟩ := bind_ok h2
    obtain ⟨c2, ss'⟩ := q
    cases h3
    exact ⟨rebuildStmt_ok g s c1 s' hp hs.1, rebuildList_ok g ss c2 ss' hq hs.2⟩
end

theorem rebuildMacro_ok {g : GCtx} {m m' : Macro} (h : rebuildMacro g m = .ok m') (hm : StmtOK m.body) :
    StmtOK m'.body := by
  unfold rebuildMacro at h
  obtain ⟨p, hp, h2⟩ := bind_ok h
  obtain ⟨ch, b⟩ := p
  have := rebuildStmt_ok g m.body ch b hp hm
  simp only [pure, Except.pure] at h2
  cases h2
  split
  · exact this
  · exact hm

/-! ### Circuit level -/

theorem StmtsOK_append {a : List Stmt} {s : Stmt} (ha : StmtsOK a) (hs : StmtOK s) : StmtsOK (a ++ [s]) := by
  induction a with
  | nil => exact ⟨hs, trivial⟩
  | cons x xs ih => exact ⟨ha.1, ih ha.2⟩

structure AccOK (acc : Acc) : Prop where
  ctx : CtxOK acc.ctx
  memo : MemoStmts acc.st.memo
  regs : ∀ v ∈ acc.registers, ValOK v
  stmts : StmtsOK acc.stmts
  macros : ∀ m ∈ acc.macros, StmtOK m.body

theorem addVar_ok {ctx ctx' : Ctx} {n : String} {v : Val} (hc : CtxOK ctx) (hv : ValOK v)
    (h : addVar ctx n v = .ok ctx') : CtxOK ctx' := by
  unfold addVar at h
  split at h
  · simp [throw_eq] at h
  · simp only [pure, Except.pure] at h
    cases h
    intro n' v' hl
    simp only [Ctx.get, List.lookup] at hl
    by_cases hk : (n' == n) = true
    · simp only [hk, Option.some.injEq] at hl; subst hl; exact hv
    · simp only [hk] at hl; exact hc n' v' hl

theorem stepTail_ok {cfg : Config} {mode : KeyMode} {inject : Option (List (String × GateDef))} {acc a1 : Acc} {o : Obj} {st : St}
    (ha : AccOK acc) (ho : ObjOK o) (hm : MemoStmts st.memo) (h : stepTail cfg mode inject acc o st = .ok a1) : AccOK a1 := by
  cases o with
  | val v =>
    cases v <;> simp only [stepTail, throw_eq] at h <;> first
      | cases h
      | (obtain ⟨c, hc, h2⟩ := bind_ok h
         cases h2
         first
           | exact ⟨addVar_ok ha.ctx ho hc, hm, fun w hw => by
               rcases List.mem_append.1 hw with hw | hw
               · exact ha.regs w hw
               · simp only [List.mem_singleton] at hw; subst hw; exact ho, ha.stmts, ha.macros⟩
           | exact ⟨addVar_ok ha.ctx ho hc, hm, ha.regs, ha.stmts, ha.macros⟩)
  | «macro» m =>
    simp only [stepTail] at h
    obtain ⟨m', hm', h2⟩ := bind_ok h
    have hmok := rebuildMacro_ok hm' ho
    by_cases hl : (List.lookup m'.name st.gctx).isSome = true
    · simp [hl, throw_eq, bind, Except.bind] at h2
    · simp [hl, pure, Except.pure] at h2
      rw [← h2]
      exact ⟨ha.ctx, hm, ha.regs, ha.stmts, fun x hx => by
        rcases List.mem_append.1 hx with hx | hx
        · exact ha.macros x hx
        · simp only [List.mem_singleton] at hx; subst hx; exact hmok⟩
  | stmt s =>
    simp only [stepTail, pure, Except.pure] at h
    cases h
    exact ⟨ha.ctx, hm, ha.regs, StmtsOK_append ha.stmts ho, ha.macros⟩
  | case => simp [stepTail, throw_eq] at h
  | usepulses n =>
    rcases stepTail_usepulses_ok h with ⟨_, rfl⟩ | ⟨_, _, gs, _, rfl⟩
    · exact ⟨ha.ctx, hm, ha.regs, ha.stmts, ha.macros⟩
    · refine ⟨ha.ctx, ?_, ha.regs, ha.stmts, ha.macros⟩
      show MemoStmts (if mode = KeyMode.noReset then st.memo else [])
      split
      · exact hm
      · intro k s0 hk; cases hk

theorem circuitLoop_ok {cfg : Config} {mode : KeyMode} {inject : Option (List (String × GateDef))} {fuel : Nat} :
    ∀ (cs : List BSx) (acc a1 : Acc), AccOK acc → BSx.noValsList cs = true →
    circuitLoop cfg mode inject fuel acc cs = .ok a1 → AccOK a1 := by
  intro cs
  induction cs with
  | nil => intro acc a1 ha _ h; simp only [circuitLoop, pure, Except.pure] at h; cases h; exact ha
  | cons c cs ih =>
    intro acc a1 ha hn h
    simp only [BSx.noValsList, Bool.and_eq_true] at hn
    simp only [circuitLoop, circuitStep] at h
    obtain ⟨a2, hstep, h2⟩ := bind_ok h
    obtain ⟨p, hp, h3⟩ := bind_ok hstep
    obtain ⟨o, st⟩ := p
    obtain ⟨ho, hm⟩ := buildAny_ok fuel acc.ctx c acc.st st o ha.ctx hn.1 ha.memo hp
    exact ih a2 a1 (stepTail_ok ha ho hm h3) hn.2 h2

end Jaqal.Builder
