import JaqalProofs.Lemmas.RoundTripSwap
import Mathlib.Data.List.Perm.Basic
/-!
# C01, builder layer: bringing the statements of an accepted program into the generator's order

`canon cs` is the stable sort of the children by section (usepulses, lets, register and aliases, macros,
statements): each child in turn is inserted behind the last child of its own or an earlier section (`ins`).
`reorder_loop`: the loop of `build_circuit` accepts `canon cs` whenever it accepts `cs`, and accumulates the same
circuit.
-/
set_option linter.unusedSimpArgs false
set_option linter.unusedVariables false
namespace Jaqal.RoundTrip
open Jaqal Jaqal.Builder Jaqal.Pipeline

/-! ## the order -/

/-- insert behind the last child of the same or an earlier section -/
def ins (e : BSx) : List BSx → List BSx
  | [] => [e]
  | x :: l => if cls e < cls x then e :: x :: l else x :: ins e l

/-- the stable sort by section -/
def canon (cs : List BSx) : List BSx := cs.foldl (fun l e => ins e l) []

theorem canon_snoc (cs : List BSx) (e : BSx) : canon (cs ++ [e]) = ins e (canon cs) := by
  simp [canon, List.foldl_append]

theorem ins_perm (e : BSx) : ∀ (l : List BSx), List.Perm (ins e l) (e :: l)
  | [] => List.Perm.refl _
  | x :: l => by
    simp only [ins]
    split
    · exact List.Perm.refl _
    · exact ((ins_perm e l).cons x).trans (List.Perm.swap e x l)

theorem canon_perm : ∀ (cs : List BSx), List.Perm (canon cs) cs := by
  intro cs
  induction cs using List.reverseRecOn with
  | nil => exact List.Perm.refl _
  | append_singleton cs e ih =>
    rw [canon_snoc]
    exact (ins_perm e _).trans ((ih.cons e).trans (List.perm_append_singleton e cs).symm)

theorem ins_sorted (e : BSx) : ∀ (l : List BSx), List.Pairwise (fun a b => cls a ≤ cls b) l →
    List.Pairwise (fun a b => cls a ≤ cls b) (ins e l)
  | [], _ => by simp [ins]
  | x :: l, h => by
    simp only [ins]
    obtain ⟨h1, h2⟩ := List.pairwise_cons.1 h
    split
    · rename_i hlt
      refine List.pairwise_cons.2 ⟨?_, h⟩
      intro y hy
      rcases List.mem_cons.1 hy with rfl | hy
      · omega
      · have := h1 y hy; omega
    · rename_i hge
      refine List.pairwise_cons.2 ⟨?_, ins_sorted e l h2⟩
      intro y hy
      rcases List.mem_cons.1 ((ins_perm e l).mem_iff.1 hy) with rfl | hy
      · omega
      · exact h1 y hy

theorem canon_sorted : ∀ (cs : List BSx), List.Pairwise (fun a b => cls a ≤ cls b) (canon cs) := by
  intro cs
  induction cs using List.reverseRecOn with
  | nil => exact List.Pairwise.nil
  | append_singleton cs e ih => rw [canon_snoc]; exact ins_sorted e _ ih

/-! ## invariants along the loop -/

theorem loop_rinv {cfg : Config} (ha : cfg.autoload = false) {inject : Option (List (String × GateDef))} {F : Nat} :
    ∀ (cs : List BSx) (acc accF : Acc), TopInv acc → RInv acc.st.gctx → (∀ e ∈ cs, GChild e ∧ noBr e = true) →
    circuitLoop cfg .off inject F acc cs = .ok accF → RInv accF.st.gctx
  | [], acc, accF, _, hr, _, h => by
    simp only [circuitLoop, pure, Except.pure, Except.ok.injEq] at h
    subst h
    exact hr
  | e :: cs, acc, accF, hi, hr, hcs, h => by
    simp only [circuitLoop] at h
    obtain ⟨acc1, hstep, hrest⟩ := bind_ok h
    have hi1 := (step_child ha hi (hcs e (by simp)).1 (hcs e (by simp)).2 hstep).inv
    have hr1 := rinv_step ha hi hr (hcs e (by simp)).1 (hcs e (by simp)).2 hstep
    exact loop_rinv ha cs acc1 accF hi1 hr1 (fun x hx => hcs x (by simp [hx])) hrest

/-- the loop from two accumulators that differ only in the order of insertion -/
theorem cong_loop {cfg : Config} (ha : cfg.autoload = false) {inject : Option (List (String × GateDef))} {F : Nat} :
    ∀ (l : List BSx) (a b r : Acc), TopInv a → RInv a.st.gctx → TI b.st → AccEq a b →
    (∀ e ∈ l, GChild e ∧ noBr e = true) → circuitLoop cfg .off inject F a l = .ok r →
    ∃ r', circuitLoop cfg .off inject F b l = .ok r' ∧ AccEq r r' ∧ TI r'.st
  | [], a, b, r, _, _, hib, he, _, h => by
    simp only [circuitLoop, pure, Except.pure, Except.ok.injEq] at h
    subst h
    exact ⟨b, rfl, he, hib⟩
  | x :: l, a, b, r, hi, hr, hib, he, hl, h => by
    simp only [circuitLoop] at h
    obtain ⟨a1, hstep, hrest⟩ := bind_ok h
    have hgx := hl x (by simp)
    obtain ⟨b1, hstep', he1, hib1⟩ := cong_step ha hi hr hib he hgx.1 hgx.2 hstep
    have hi1 := (step_child ha hi hgx.1 hgx.2 hstep).inv
    have hr1 := rinv_step ha hi hr hgx.1 hgx.2 hstep
    obtain ⟨r', hloop', her, hir⟩ := cong_loop ha l a1 b1 r hi1 hr1 hib1 he1 (fun y hy => hl y (by simp [hy])) hrest
    exact ⟨r', by simp only [circuitLoop, hstep', bind, Except.bind]; exact hloop', her, hir⟩

/-- a child of an earlier section, moved from behind a run of children to its front -/
theorem bubble {cfg : Config} (ha : cfg.autoload = false) {inject : Option (List (String × GateDef))} {F : Nat}
    {e : BSx} (hge : GChild e) (hbe : noBr e = true) :
    ∀ (P : List BSx) (a r : Acc), TopInv a → RInv a.st.gctx → (∀ x ∈ P, GChild x ∧ noBr x = true) →
    (∀ x ∈ P, cls e < cls x) → circuitLoop cfg .off inject F a (P ++ [e]) = .ok r →
    ∃ r', circuitLoop cfg .off inject F a (e :: P) = .ok r' ∧ AccEq r r' ∧ TI r'.st
  | [], a, r, hi, hr, _, _, h => by
    refine ⟨r, h, AccEq.refl _, ?_⟩
    have hi' := loop_inv ha [e] a r hi (by intro y hy; simp at hy; subst hy; exact ⟨hge, hbe⟩) h
    have hr' := loop_rinv ha [e] a r hi hr (by intro y hy; simp at hy; subst hy; exact ⟨hge, hbe⟩) h
    exact ⟨hi'.k, hr'⟩
  | x :: l, a, r, hi, hr, hP, hcls, h => by
    simp only [List.cons_append, circuitLoop] at h
    obtain ⟨a1, hstepx, hrest⟩ := bind_ok h
    have hgx := hP x (by simp)
    have hi1 := (step_child ha hi hgx.1 hgx.2 hstepx).inv
    have hr1 := rinv_step ha hi hr hgx.1 hgx.2 hstepx
    obtain ⟨r1, hloop1, he1, _⟩ := bubble ha hge hbe l a1 r hi1 hr1 (fun y hy => hP y (by simp [hy]))
      (fun y hy => hcls y (by simp [hy])) hrest
    simp only [circuitLoop] at hloop1
    obtain ⟨a2, hstepe, hrest2⟩ := bind_ok hloop1
    obtain ⟨b1, b2, hs1, hs2, he2, hib2⟩ := swap_step ha hi hr hgx.1 hgx.2 hge hbe (hcls x (by simp)) hstepx hstepe
    have hi2 := (step_child ha hi1 hge hbe hstepe).inv
    have hr2 := rinv_step ha hi1 hr1 hge hbe hstepe
    obtain ⟨r2, hloop2, he3, hir2⟩ := cong_loop ha l a2 b2 r1 hi2 hr2 hib2 he2 (fun y hy => hP y (by simp [hy])) hrest2
    refine ⟨r2, ?_, he1.trans he3, hir2⟩
    simp only [circuitLoop, hs1, hs2, bind, Except.bind]
    exact hloop2

/-- the last child, inserted into the sorted children before it -/
theorem insert_loop {cfg : Config} (ha : cfg.autoload = false) {inject : Option (List (String × GateDef))} {F : Nat}
    {e : BSx} (hge : GChild e) (hbe : noBr e = true) :
    ∀ (L : List BSx) (a r : Acc), TopInv a → RInv a.st.gctx → (∀ x ∈ L, GChild x ∧ noBr x = true) →
    List.Pairwise (fun a b => cls a ≤ cls b) L → circuitLoop cfg .off inject F a (L ++ [e]) = .ok r →
    ∃ r', circuitLoop cfg .off inject F a (ins e L) = .ok r' ∧ AccEq r r' ∧ TI r'.st
  | [], a, r, hi, hr, _, _, h => by
    refine ⟨r, h, AccEq.refl _, ?_⟩
    have hi' := loop_inv ha [e] a r hi (by intro y hy; simp at hy; subst hy; exact ⟨hge, hbe⟩) h
    have hr' := loop_rinv ha [e] a r hi hr (by intro y hy; simp at hy; subst hy; exact ⟨hge, hbe⟩) h
    exact ⟨hi'.k, hr'⟩
  | x :: l, a, r, hi, hr, hL, hs, h => by
    obtain ⟨hs1, hs2⟩ := List.pairwise_cons.1 hs
    simp only [ins]
    split
    · rename_i hlt
      apply bubble ha hge hbe (x :: l) a r hi hr hL ?_ h
      intro y hy
      rcases List.mem_cons.1 hy with rfl | hy
      · exact hlt
      · have := hs1 y hy; omega
    · simp only [List.cons_append, circuitLoop] at h
      obtain ⟨a1, hstepx, hrest⟩ := bind_ok h
      have hgx := hL x (by simp)
      have hi1 := (step_child ha hi hgx.1 hgx.2 hstepx).inv
      have hr1 := rinv_step ha hi hr hgx.1 hgx.2 hstepx
      obtain ⟨r', hloop', he', hir'⟩ := insert_loop ha hge hbe l a1 r hi1 hr1 (fun y hy => hL y (by simp [hy])) hs2 hrest
      exact ⟨r', by simp only [circuitLoop, hstepx, bind, Except.bind]; exact hloop', he', hir'⟩

/-- **Reordering**: the loop of `build_circuit` on the children sorted by section. -/
theorem reorder_loop {cfg : Config} (ha : cfg.autoload = false) {inject : Option (List (String × GateDef))} {F : Nat}
    (a : Acc) (hi : TopInv a) (hr : RInv a.st.gctx) :
    ∀ (cs : List BSx) (r : Acc), (∀ x ∈ cs, GChild x ∧ noBr x = true) → circuitLoop cfg .off inject F a cs = .ok r →
    ∃ r', circuitLoop cfg .off inject F a (canon cs) = .ok r' ∧ AccEq r r' ∧ TI r'.st := by
  intro cs
  induction cs using List.reverseRecOn with
  | nil =>
    intro r _ h
    simp only [circuitLoop, pure, Except.pure, Except.ok.injEq] at h
    subst h
    exact ⟨a, rfl, AccEq.refl _, hi.k, hr⟩
  | append_singleton cs e ih =>
    intro r hcs h
    rw [circuitLoop_append] at h
    obtain ⟨r0, hloop0, hlast⟩ := bind_ok h
    have hcs0 : ∀ x ∈ cs, GChild x ∧ noBr x = true := fun x hx => hcs x (by simp [hx])
    have hge := hcs e (by simp)
    obtain ⟨r0', hloop0', he0, hib0⟩ := ih r0 hcs0 hloop0
    have hi0 := loop_inv ha cs a r0 hi hcs0 hloop0
    have hr0 := loop_rinv ha cs a r0 hi hr hcs0 hloop0
    simp only [circuitLoop] at hlast
    obtain ⟨r1, hstep, hnil⟩ := bind_ok hlast
    simp only [pure, Except.pure, Except.ok.injEq] at hnil
    subst hnil
    obtain ⟨r1', hstep', he1, _⟩ := cong_step ha hi0 hr0 hib0 he0 hge.1 hge.2 hstep
    have hcan : ∀ x ∈ canon cs, GChild x ∧ noBr x = true := fun x hx => hcs0 x ((canon_perm cs).mem_iff.1 hx)
    have hall : circuitLoop cfg .off inject F a (canon cs ++ [e]) = .ok r1' := by
      rw [circuitLoop_append, hloop0']
      simp only [bind, Except.bind, circuitLoop, hstep']
      rfl
    obtain ⟨r2, hloop2, he2, hir2⟩ := insert_loop ha hge.1 hge.2 (canon cs) a r1' hi hr hcan (canon_sorted cs) hall
    exact ⟨r2, by rw [canon_snoc]; exact hloop2, he1.trans he2, hir2⟩

/-! ## whole programs -/

theorem depthList_perm {l l' : List BSx} (h : List.Perm l l') : BSx.depthList l = BSx.depthList l' := by
  induction h with
  | nil => rfl
  | cons x _ ih => simp only [BSx.depthList, ih]
  | swap x y l => simp only [BSx.depthList]; omega
  | trans _ _ ih1 ih2 => exact ih1.trans ih2

theorem rinv_acc0 (inject : Option (List (String × GateDef))) : RInv (acc0 inject).st.gctx :=
  RInv.natives (inject.getD [])

/-- **The builder does not care about the order of the sections**: if `build_circuit` accepts the children `cs`, it
accepts them sorted by section and makes the same circuit. -/
theorem buildNoMemo_reorder {cfg : Config} (ha : cfg.autoload = false) {cs : List BSx} {c : Circuit}
    (hcs : ∀ e ∈ cs, GChild e ∧ noBr e = true) (h : buildNoMemo cfg (.list (.str "circuit" :: cs)) = .ok c) :
    buildNoMemo cfg (.list (.str "circuit" :: canon cs)) = .ok c := by
  unfold buildNoMemo buildWith at h ⊢
  obtain ⟨inject, hinj, h1⟩ := bind_ok h
  simp only [buildCore] at h1
  obtain ⟨accF, hloop, h2⟩ := bind_ok h1
  simp only [pure, Except.pure, Except.ok.injEq] at h2
  subst h2
  have hdepth : (BSx.list (.str "circuit" :: canon cs)).depth = (BSx.list (.str "circuit" :: cs)).depth := by
    simp only [BSx.depth, BSx.depthList, depthList_perm (canon_perm cs)]
  obtain ⟨r', hloop', he, _⟩ := reorder_loop ha (acc0 inject) (topInv_acc0 cfg hinj) (rinv_acc0 inject) cs accF hcs hloop
  rw [hinj]
  simp only [bind, Except.bind, buildCore, hdepth]
  have hloop'' := hloop'
  simp only [acc0] at hloop''
  rw [hloop'']
  simp only [pure, Except.pure, he.toCircuit]

/-! ## with at most one fundamental register, the sorted children are in the generator's order

An alias needs a source, which is a register or an alias; so before the first alias comes a `register` statement, and
a second `register` statement would make a second fundamental register. -/

/-- the number of fundamental registers accumulated -/
def nf (acc : Acc) : Nat := (acc.registers.filter isFundamental).length

/-- `2` for each `register` child and `3` for each `map` child, in order -/
def ranks2 (l : List BSx) : List Nat := (l.filter (fun e => decide (cls e = 2))).map rank

structure RegInv (acc : Acc) (pre : List BSx) : Prop where
  k : ∀ n v, acc.ctx.get n = some v → (isRegister v = true ∨ isParam v = true) → 1 ≤ nf acc
  z : nf acc = 0 → ranks2 pre = []
  o : nf acc = 1 → ∃ j, ranks2 pre = 2 :: List.replicate j 3

theorem ranks2_snoc (pre : List BSx) (x : BSx) :
    ranks2 (pre ++ [x]) = ranks2 pre ++ (if cls x = 2 then [rank x] else []) := by
  unfold ranks2
  rw [List.filter_append, List.map_append]
  by_cases h : cls x = 2 <;> simp [h]

theorem cls_eq_two {x : BSx} : cls x = 2 ↔ rank x = 2 ∨ rank x = 3 := by
  unfold cls
  split <;> simp_all

theorem regInv_step {cfg : Config} (ha : cfg.autoload = false) {inject : Option (List (String × GateDef))} {F : Nat}
    {a a1 : Acc} {x : BSx} {pre : List BSx} (hi : TopInv a) (hR : RegInv a pre) (hg : GChild x) (hb : noBr x = true)
    (h : circuitStep cfg .off inject F a x = .ok a1) : RegInv a1 (pre ++ [x]) := by
  obtain ⟨o, st1, hf, ht⟩ := step_facts hi hg hb h
  obtain ⟨hguard, rfl⟩ := step_apply ha hf hi.k ht
  have hsame : ∀ (b : Acc), b.ctx = a.ctx → b.registers = a.registers → cls x ≠ 2 → RegInv b (pre ++ [x]) := by
    intro b hc hr hx
    have hnf : nf b = nf a := by simp [nf, hr]
    have hr2 : ranks2 (pre ++ [x]) = ranks2 pre := by rw [ranks2_snoc]; simp [hx]
    refine ⟨?_, ?_, ?_⟩
    · intro n v hn hv; rw [hnf]; rw [hc] at hn; exact hR.k n v hn hv
    · intro h0; rw [hr2]; exact hR.z (by rw [← hnf]; exact h0)
    · intro h0; rw [hr2]; exact hR.o (by rw [← hnf]; exact h0)
  cases o with
  | val v =>
    obtain ⟨n, c, hv, hfresh⟩ := hguard
    have hk := hf.kind
    have hvr := hf.vrank v rfl
    rw [applyObj_val hv]
    cases c with
    | true =>
      -- a constant
      have hx : cls x ≠ 2 := by
        have h1 : okind (.val v) = 1 := by simp [okind, hv]
        rw [h1] at hk; omega
      have hconst : isRegister v = false ∧ isParam v = false := by
        cases v <;> simp [varOf] at hv <;> simp [isRegister, isParam]
      have hnf : nf (pushVar a st1 n v true) = nf a := rfl
      have hr2 : ranks2 (pre ++ [x]) = ranks2 pre := by rw [ranks2_snoc]; simp [hx]
      refine ⟨?_, ?_, ?_⟩
      · intro m w hm hw
        rw [hnf]
        have hm' : Ctx.get { a.ctx with vars := (n, v) :: a.ctx.vars } m = some w := hm
        rw [get_cons] at hm'
        by_cases hmn : m = n
        · simp [hmn] at hm'; subst hm'; rcases hw with hw | hw <;> simp [hconst.1, hconst.2] at hw
        · simp [hmn] at hm'; exact hR.k m w hm' hw
      · intro h0; rw [hr2]; exact hR.z h0
      · intro h0; rw [hr2]; exact hR.o h0
    | false =>
      have hx : cls x = 2 := by
        have h1 : okind (.val v) = 2 := by simp [okind, hv]
        rw [h1] at hk; omega
      have hnf : nf (pushVar a st1 n v false) = nf a + (if isFundamental v then 1 else 0) := by
        simp only [nf, pushVar, Bool.false_eq_true, if_false, List.filter_append, List.length_append]
        by_cases hfv : isFundamental v = true <;> simp [hfv]
      have hr2 : ranks2 (pre ++ [x]) = ranks2 pre ++ [rank x] := by rw [ranks2_snoc]; simp [hx]
      have hkeep : ∀ m w, Ctx.get { a.ctx with vars := (n, v) :: a.ctx.vars } m = some w →
          (isRegister w = true ∨ isParam w = true) → m ≠ n → 1 ≤ nf a := by
        intro m w hm hw hmn
        rw [get_cons] at hm
        simp [hmn] at hm
        exact hR.k m w hm hw
      rcases cls_eq_two.1 hx with hr | hr
      · -- a `register` statement
        have hfund : isFundamental v = true := by
          rw [hr] at hvr
          cases v <;> simp [varOf] at hv <;> simp [valRank] at hvr <;> rfl
        rw [hfund] at hnf
        simp only [if_true] at hnf
        refine ⟨fun _ _ _ _ => by rw [hnf]; omega, fun h0 => by rw [hnf] at h0; omega, ?_⟩
        intro h1
        rw [hnf] at h1
        rw [hr2, hR.z (by omega), hr]
        exact ⟨0, rfl⟩
      · -- a `map` statement
        have hfund : isFundamental v = false := by
          rw [hr] at hvr
          cases v <;> simp [varOf] at hv <;> simp [valRank] at hvr <;> rfl
        rw [hfund] at hnf
        simp only [Bool.false_eq_true, if_false, Nat.add_zero] at hnf
        obtain ⟨s, w, hs, hw⟩ := hf.src hr
        have h1 : 1 ≤ nf a := hR.k s w hs hw
        refine ⟨?_, fun h0 => by rw [hnf] at h0; omega, ?_⟩
        · intro m w' hm hw'; rw [hnf]; exact h1
        · intro h0
          rw [hnf] at h0
          obtain ⟨j, hj⟩ := hR.o h0
          refine ⟨j + 1, ?_⟩
          rw [hr2, hj, hr, List.replicate_succ']
          simp
  | «macro» m => exact hsame _ rfl rfl (by have := hf.kind; have h3 : okind (.macro m) = 3 := rfl; rw [h3] at this; omega)
  | stmt s => exact hsame _ rfl rfl (by have := hf.kind; have h3 : okind (.stmt s) = 4 := rfl; rw [h3] at this; omega)
  | usepulses n => exact hsame _ rfl rfl (by have := hf.kind; have h3 : okind (.usepulses n) = 0 := rfl; rw [h3] at this; omega)
  | case => exact hguard.elim

theorem regInv_loop {cfg : Config} (ha : cfg.autoload = false) {inject : Option (List (String × GateDef))} {F : Nat} :
    ∀ (cs pre : List BSx) (a r : Acc), TopInv a → RegInv a pre → (∀ x ∈ cs, GChild x ∧ noBr x = true) →
    circuitLoop cfg .off inject F a cs = .ok r → RegInv r (pre ++ cs)
  | [], pre, a, r, _, hR, _, h => by
    simp only [circuitLoop, pure, Except.pure, Except.ok.injEq] at h
    subst h
    simpa using hR
  | x :: cs, pre, a, r, hi, hR, hcs, h => by
    simp only [circuitLoop] at h
    obtain ⟨a1, hstep, hrest⟩ := bind_ok h
    have hgx := hcs x (by simp)
    have hi1 := (step_child ha hi hgx.1 hgx.2 hstep).inv
    have hR1 := regInv_step ha hi hR hgx.1 hgx.2 hstep
    have := regInv_loop ha cs (pre ++ [x]) a1 r hi1 hR1 (fun y hy => hcs y (by simp [hy])) hrest
    simpa using this

/-- inserting keeps the relative order inside a section -/
theorem ins_filter (k : Nat) (e : BSx) : ∀ (l : List BSx), List.Pairwise (fun a b => cls a ≤ cls b) l →
    (ins e l).filter (fun x => decide (cls x = k)) =
      l.filter (fun x => decide (cls x = k)) ++ (if cls e = k then [e] else [])
  | [], _ => by by_cases h : cls e = k <;> simp [ins, h]
  | x :: l, hs => by
    obtain ⟨hs1, hs2⟩ := List.pairwise_cons.1 hs
    simp only [ins]
    split
    · rename_i hlt
      by_cases h : cls e = k
      · have hnone : (x :: l).filter (fun y => decide (cls y = k)) = [] := by
          rw [List.filter_eq_nil_iff]
          intro y hy
          rcases List.mem_cons.1 hy with rfl | hy
          · simp; omega
          · have := hs1 y hy; simp; omega
        rw [hnone, List.filter_cons_of_pos (by simp [h]), hnone]
        simp [h]
      · simp [List.filter_cons, h]
    · rw [List.filter_cons, List.filter_cons, ins_filter k e l hs2]
      split <;> simp

theorem canon_filter (k : Nat) : ∀ (cs : List BSx),
    (canon cs).filter (fun x => decide (cls x = k)) = cs.filter (fun x => decide (cls x = k)) := by
  intro cs
  induction cs using List.reverseRecOn with
  | nil => rfl
  | append_singleton cs e ih =>
    rw [canon_snoc, ins_filter k e _ (canon_sorted cs), ih, List.filter_append]
    by_cases h : cls e = k <;> simp [h]

theorem rank_le_five (a : BSx) : rank a ≤ 5 := by
  unfold rank
  split
  · repeat' split
    all_goals omega
  · omega

theorem rank_le_of_cls {a b : BSx} (h : cls a ≤ cls b) (h2 : ¬ (cls a = 2 ∧ cls b = 2)) : rank a ≤ rank b := by
  have ha := rank_le_five a
  have hb := rank_le_five b
  unfold cls at h h2
  split at h <;> split at h <;> simp_all <;> omega

/-- sorted by section, and the `register` statements before the `map` statements: the generator's order -/
theorem canon_canonical {cs : List BSx} (h : List.Pairwise (· ≤ ·) (ranks2 cs)) : Canonical (canon cs) := by
  unfold Canonical
  rw [List.pairwise_map, List.pairwise_iff_forall_sublist]
  intro a b hab
  have hcls : cls a ≤ cls b := (List.pairwise_iff_forall_sublist.1 (canon_sorted cs)) hab
  by_cases h2 : cls a = 2 ∧ cls b = 2
  · have hsub := hab.filter (fun x => decide (cls x = 2))
    rw [canon_filter] at hsub
    have hf : [a, b].filter (fun x => decide (cls x = 2)) = [a, b] := by simp [h2.1, h2.2]
    rw [hf] at hsub
    have hsub' := hsub.map rank
    have hsub'' : [rank a, rank b].Sublist (ranks2 cs) := by simpa [ranks2] using hsub'
    exact (List.pairwise_iff_forall_sublist.1 h) hsub''

  · exact rank_le_of_cls hcls h2

theorem ranks2_sorted_of {acc : Acc} {cs : List BSx} (hR : RegInv acc cs) (h1 : nf acc ≤ 1) :
    List.Pairwise (· ≤ ·) (ranks2 cs) := by
  rcases Nat.lt_or_ge (nf acc) 1 with h0 | h0
  · rw [hR.z (by omega)]; exact List.Pairwise.nil
  · obtain ⟨j, hj⟩ := hR.o (by omega)
    rw [hj]
    refine List.pairwise_cons.2 ⟨?_, ?_⟩
    · intro y hy; rw [List.mem_replicate] at hy; omega
    · rw [List.pairwise_replicate]; omega

/-- **The sorted children of an accepted program with at most one fundamental register are in the generator's order.** -/
theorem canonical_of_built {cfg : Config} (ha : cfg.autoload = false) {cs : List BSx} {c : Circuit}
    (hcs : ∀ e ∈ cs, GChild e ∧ noBr e = true) (h : buildNoMemo cfg (.list (.str "circuit" :: cs)) = .ok c)
    (h1 : (c.registers.filter isFundamental).length ≤ 1) : Canonical (canon cs) := by
  unfold buildNoMemo buildWith at h
  obtain ⟨inject, hinj, h2⟩ := bind_ok h
  simp only [buildCore] at h2
  obtain ⟨accF, hloop, h3⟩ := bind_ok h2
  simp only [pure, Except.pure, Except.ok.injEq] at h3
  subst h3
  have hR0 : RegInv (acc0 inject) [] := by
    refine ⟨?_, fun _ => rfl, fun h0 => by simp [nf, acc0] at h0⟩
    intro n v hn
    simp [Ctx.get, acc0] at hn
  have hR := regInv_loop ha cs [] (acc0 inject) accF (topInv_acc0 cfg hinj) hR0 hcs hloop
  simp only [List.nil_append] at hR
  exact canon_canonical (ranks2_sorted_of hR h1)

end Jaqal.RoundTrip

