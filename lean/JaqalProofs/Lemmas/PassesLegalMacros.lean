import JaqalProofs.Lemmas.PassesLegalSubs
import JaqalProofs.Lemmas.FillInSem
/-!
`expand_macros` keeps both well-formedness predicates: the statements that come out of a macro body are gate statements
rebuilt by `gate_def(**new)` on substituted values, and blocks / loops that passed the constructors' checks.
-/
namespace Jaqal.Passes
open Jaqal Jaqal.ExpandMacros

/-! ### values -/

/-- a value as `WellFormed` wants it inside a gate statement -/
def vOK (v : Val) : Bool := okVal v && goodVal v

theorem checkQubit_indexLike {src idx : Val} (h : checkQubit src idx = .ok ()) : isIndexLike idx = true := by
  unfold checkQubit at h
  split at h
  · cases h
  · split at h
    · cases idx <;> simp_all [isIndexLike]
    · split at h
      · cases h
      · rename_i hx; simpa using hx

theorem getItem_indexLike {s i v : Val} (h : getItem s i = .ok v) : isIndexLike i = true := by
  unfold getItem at h
  cases s <;> simp only [Val.name?] at h <;> try (cases h)
  all_goals
    simp only [bind, Except.bind] at h
    cases hc : checkQubit _ i with
    | error e => rw [hc] at h; cases h
    | ok u => cases u; exact checkQubit_indexLike hc

theorem indexLike_or {v : Val} (hi : isIndexLike v = true) (ho : okVal v = true) : (isParam v || noParam v) = true := by
  cases v <;> simp_all [isIndexLike, okVal, isParam, noParam]

theorem filterFloat_keeps (v : Val) : isIndexLike (filterFloat v) = isIndexLike v ∧
    (isParam (filterFloat v) || noParam (filterFloat v)) = (isParam v || noParam v) := by
  cases v with
  | flt d => by_cases hd : d.isIntegral = true <;> simp [filterFloat, hd, isIndexLike, isParam, noParam]
  | _ => simp [filterFloat]

theorem vOK_of_count {c : Val} (h1 : (isParam c || noParam c) = true) (h2 : isIndexLike c = true) : vOK c = true := by
  cases c <;> simp_all [vOK, okVal, goodVal, isIndexLike, isParam, noParam, isReg]

/-- substitution of well-formed arguments into a well-formed value gives a well-formed value -/
theorem substVal_vOK (args : List (String × Val)) (hargs : ∀ a ∈ args, vOK a.2 = true) {v v' : Val} (hv : vOK v = true)
    (h : substVal args v = .ok v') : vOK v' = true := by
  cases v with
  | param n k =>
    rcases substVal_param h with hl | ⟨_, rfl⟩
    · obtain ⟨e, he, rfl⟩ := lookupArg_mem hl; exact hargs e he
    · exact hv
  | qubit n s i =>
    obtain ⟨s', i', nm, hs, ha, hi, hg, rfl⟩ := substVal_qubit_inv h
    simp only [vOK, okVal, goodVal, Bool.and_eq_true] at hv
    obtain ⟨⟨hso, hio⟩, ⟨⟨_, hsr⟩, hii⟩⟩ := hv
    -- the array
    have hS : (isParam s' || noParam s') = true ∧ (!isReg s' || regBuilt s') = true := by
      cases s with
      | param sn sk =>
        rcases substVal_param hs with hl | ⟨_, rfl⟩
        · obtain ⟨e, he, rfl⟩ := lookupArg_mem hl
          have := hargs e he
          simp only [vOK, Bool.and_eq_true] at this
          cases hv2 : e.2 <;> rw [hv2] at ha this <;> simp_all [isArrayLike, okVal, goodVal, isParam, noParam, isReg]
        · simp [isParam, isReg]
      | qubit _ _ _ =>
        obtain ⟨_, _, _, _, _, _, _, rfl⟩ := substVal_qubit_inv hs
        simp [isArrayLike] at ha
      | _ =>
        have := substVal_noParam (args := args) (by intro a b c hc; cases hc) (by simpa [isParam] using hso) hs
        subst this
        exact ⟨hso, hsr⟩
    -- the index
    have hi2 := getItem_indexLike hg
    have hI : (isParam i' || noParam i') = true := by
      rw [← (filterFloat_keeps i').2]
      cases i with
      | param inn ik =>
        rcases substVal_param hi with hl | ⟨_, rfl⟩
        · obtain ⟨e, he, rfl⟩ := lookupArg_mem hl
          have := hargs e he
          simp only [vOK, Bool.and_eq_true] at this
          rw [(filterFloat_keeps e.2).2]
          exact indexLike_or (by rw [← (filterFloat_keeps e.2).1]; exact hi2) this.1
        · simp [filterFloat, isParam]
      | qubit _ _ _ => simp [isIndexLike] at hii
      | _ =>
        have := substVal_noParam (args := args) (by intro a b c hc; cases hc) (by simpa [isParam] using hio) hi
        subst this
        rw [(filterFloat_keeps _).2]; exact hio
    simp only [vOK, okVal, goodVal, Bool.and_eq_true]
    exact ⟨⟨hS.1, by rw [(filterFloat_keeps i').2]; exact hI⟩, ⟨⟨ha, hS.2⟩, hi2⟩⟩
  | _ =>
    have := substVal_noParam (args := args) (by intro a b c hc; cases hc)
      (by simp only [vOK, okVal, Bool.and_eq_true] at hv; exact hv.1) h
    subst this; exact hv

/-! ### statements -/

/-- the output predicate: a well-formed statement that calls no macro (table `[]`) -/
abbrev outOK (s : Stmt) : Bool := okS [] [] s

theorem outOK_gate (n : String) (gd : GateDef) (a : List (String × Val)) :
    outOK (.gate n gd a) = (wfGate [] n gd a && a.all (fun e => goodVal e.2)) := by
  simp [outOK, okS, wfStmt, inScope, wfT]

theorem outOK_loop (c : Val) (b : Stmt) :
    outOK (.loop c b) = ((isParam c || noParam c) && isIndexLike c && outOK b) := by
  simp only [outOK, okS, wfStmt, inScope, wfT]
  generalize (isParam c || noParam c) = x
  generalize isIndexLike c = y
  generalize wfStmt [] b = z
  generalize inScope [] (List.map (fun (x : Macro) => x.name) []) b = u
  generalize wfT b = w
  cases x <;> cases y <;> cases z <;> cases u <;> cases w <;> rfl

theorem count_ok {c : Val} (ho : okVal c = true) (hb : badCount c = false) :
    ((isParam c || noParam c) && isIndexLike c) = true := by
  cases c <;> simp_all [badCount, okVal, isParam, noParam, isIndexLike]

theorem substArgs_ok (args : List (String × Val)) (hargs : ∀ a ∈ args, vOK a.2 = true) :
    ∀ (gargs new : List (String × Val)), (∀ a ∈ gargs, vOK a.2 = true) → substArgs args gargs = .ok new →
      new.map (·.1) = gargs.map (·.1) ∧ ∀ a ∈ new, vOK a.2 = true
  | [], new, _, h => by simp only [substArgs, pure, Except.pure, Except.ok.injEq] at h; subst h; simp
  | (n, v) :: rest, new, hg, h => by
    simp only [substArgs, bind, Except.bind] at h
    cases h1 : substVal args v with
    | error e => rw [h1] at h; cases h
    | ok v' =>
      rw [h1] at h; simp only at h
      cases h2 : substArgs args rest with
      | error e => rw [h2] at h; cases h
      | ok rest' =>
        rw [h2] at h; simp only [pure, Except.pure, Except.ok.injEq] at h; subst h
        obtain ⟨i1, i2⟩ := substArgs_ok args hargs rest rest' (fun a ha => hg a (by simp [ha])) h2
        refine ⟨by simp [i1], ?_⟩
        intro a ha
        rcases List.mem_cons.1 ha with rfl | ha
        · exact substVal_vOK args hargs (hg (n, v) (by simp)) h1
        · exact i2 a ha

theorem outOK_spliceInto (par : Bool) (s : Stmt) (r : List Stmt) (hs : outOK s = true) (hr : r.all outOK = true) :
    (spliceInto par s r).all outOK = true := by
  unfold spliceInto
  split
  · next p it b =>
    split
    · rw [outOK, okS_block] at hs
      simp only [Bool.and_eq_true] at hs
      simp [List.all_append, hs.2, hr]
    · simp [hs, hr]
  · simp [hs, hr]

theorem mkBlock_outOK {par sub : Bool} {it : Val} {l : List Stmt} {s : Stmt} (h : mkBlock par sub it l = .ok s)
    (ho : okVal it = true) (hl : l.all outOK = true) : outOK s = true := by
  have hs := mkBlock_ok h
  subst hs
  have hb : badCount it = false := by
    unfold mkBlock at h
    split at h
    · cases h
    · split at h
      · cases h
      · rename_i hc; simpa using hc
  rw [outOK, okS_block]
  simp [count_ok ho hb, hl]

section stm
variable (ms : List Macro)

/-- what `call` is given, and what it must return -/
def CallOut (call : Stmt → M Stmt) : Prop :=
  ∀ (n : String) (gd : GateDef) (a : List (String × Val)) (g' : Stmt), wfGate ms n gd a = true →
    (∀ e ∈ a, vOK e.2 = true) → call (.gate n gd a) = .ok g' → outOK g' = true

theorem wfGate_args {n : String} {gd : GateDef} {a : List (String × Val)} (h : wfGate ms n gd a = true)
    (hT : a.all (fun e => goodVal e.2) = true) : ∀ e ∈ a, vOK e.2 = true := by
  intro e he
  simp only [wfGate, Bool.and_eq_true, List.all_eq_true] at h hT
  simp [vOK, h.1.2 e he, hT e he]

mutual
  theorem replStmt_out (call : Stmt → M Stmt) (hc : CallOut ms call) (args : List (String × Val))
      (hargs : ∀ a ∈ args, vOK a.2 = true) :
      ∀ (s s' : Stmt), wfStmt ms s = true → wfT s = true → replStmt call args s = .ok s' → outOK s' = true
    | .gate n gd gargs, s', hw, hT, h => by
      simp only [replStmt, bind, Except.bind] at h
      cases h1 : substArgs args gargs with
      | error e => rw [h1] at h; cases h
      | ok new =>
        rw [h1] at h; simp only at h
        cases h2 : GateDef.callKw gd new with
        | error e => rw [h2] at h; cases h
        | ok g =>
          rw [h2] at h; simp only at h
          simp only [wfStmt] at hw
          simp only [wfT] at hT
          obtain ⟨hn, hnew⟩ := substArgs_ok args hargs gargs new (wfGate_args ms hw hT) h1
          have hw' := hw
          simp only [wfGate, Bool.and_eq_true, beq_iff_eq, decide_eq_true_eq] at hw'
          obtain ⟨⟨⟨⟨hname, hnames⟩, hnd⟩, _⟩, hfm⟩ := hw'
          have hg := callKw_ok h2 (by rw [hn]; exact hnames) hnd
          subst hg
          refine hc _ _ _ _ ?_ hnew h
          simp only [wfGate, Bool.and_eq_true, beq_iff_eq, decide_eq_true_eq, List.all_eq_true]
          refine ⟨⟨⟨⟨trivial, by rw [hn]; exact hnames⟩, hnd⟩, fun e he => ?_⟩, by rw [← hname]; exact hfm⟩
          have := hnew e he
          simp only [vOK, Bool.and_eq_true] at this
          exact this.1
    | .loop c body, s', hw, hT, h => by
      simp only [replStmt, bind, Except.bind] at h
      cases h1 : substVal args c with
      | error e => rw [h1] at h; cases h
      | ok c' =>
        rw [h1] at h; simp only at h
        cases h2 : replStmt call args body with
        | error e => rw [h2] at h; cases h
        | ok b' =>
          rw [h2] at h; simp only at h
          obtain ⟨rfl, hbc⟩ := mkLoop_ok h
          simp only [wfStmt, Bool.and_eq_true] at hw
          simp only [wfT, Bool.and_eq_true] at hT
          have hv := substVal_vOK args hargs (vOK_of_count hw.1 hT.1) h1
          simp only [vOK, Bool.and_eq_true] at hv
          have ih := replStmt_out call hc args hargs body b' hw.2 hT.2 h2
          rw [outOK_loop]
          simp [count_ok hv.1 hbc, ih]
    | .block par sub it body, s', hw, hT, h => by
      simp only [replStmt, bind, Except.bind] at h
      cases h1 : replList call args par body with
      | error e => rw [h1] at h; cases h
      | ok stmts =>
        rw [h1] at h; simp only at h
        cases h2 : substVal args it with
        | error e => rw [h2] at h; cases h
        | ok it' =>
          rw [h2] at h; simp only at h
          simp only [wfStmt, Bool.and_eq_true] at hw
          simp only [wfT, Bool.and_eq_true] at hT
          have hv := substVal_vOK args hargs (vOK_of_count hw.1 hT.1) h2
          simp only [vOK, Bool.and_eq_true] at hv
          exact mkBlock_outOK h hv.1 (replList_out call hc args hargs par body stmts hw.2 hT.2 h1)
  theorem replList_out (call : Stmt → M Stmt) (hc : CallOut ms call) (args : List (String × Val))
      (hargs : ∀ a ∈ args, vOK a.2 = true) (par : Bool) :
      ∀ (l l' : List Stmt), wfStmtList ms l = true → wfTList l = true → replList call args par l = .ok l' →
        l'.all outOK = true
    | [], l', _, _, h => by
      simp only [replList, pure, Except.pure, Except.ok.injEq] at h; subst h; rfl
    | s :: r, l', hw, hT, h => by
      simp only [replList, bind, Except.bind] at h
      cases h1 : replStmt call args s with
      | error e => rw [h1] at h; cases h
      | ok s' =>
        rw [h1] at h; simp only at h
        cases h2 : replList call args par r with
        | error e => rw [h2] at h; cases h
        | ok r' =>
          rw [h2] at h; simp only [pure, Except.pure, Except.ok.injEq] at h; subst h
          simp only [wfStmtList, Bool.and_eq_true] at hw
          simp only [wfTList, Bool.and_eq_true] at hT
          exact outOK_spliceInto par s' r' (replStmt_out call hc args hargs s s' hw.1 hT.1 h1)
            (replList_out call hc args hargs par r r' hw.2 hT.2 h2)
end

theorem wfMacrosFrom_mem : ∀ (pre : List String) (r : List Macro), wfMacrosFrom ms pre r = true →
    ∀ m ∈ r, wfStmt ms m.body = true
  | _, [], _, m, hm => by cases hm
  | pre, x :: r, h, m, hm => by
    simp only [wfMacrosFrom, Bool.and_eq_true] at h
    rcases List.mem_cons.1 hm with rfl | hm
    · exact h.1.1
    · exact wfMacrosFrom_mem _ r h.2 m hm

theorem replaceGate_out (hwf : wfMacrosFrom ms [] ms = true) (hT : ∀ m ∈ ms, wfT m.body = true) :
    ∀ (fuel : Nat), CallOut ms (replaceGate ms fuel) := by
  intro fuel
  induction fuel with
  | zero =>
    intro n gd a g' hw ha h
    simp only [replaceGate] at h
    cases hf : findMacro ms n with
    | none =>
      rw [hf] at h; simp only [pure, Except.pure, Except.ok.injEq] at h; subst h
      rw [outOK_gate]
      simp only [wfGate, hf, Bool.and_true] at hw
      simp only [wfGate, findMacro, List.find?_nil, Bool.and_true, hw, Bool.true_and, List.all_eq_true]
      intro e he
      have := ha e he
      simp only [vOK, Bool.and_eq_true] at this
      exact this.2
    | some m => rw [hf] at h; simp only at h; split at h <;> cases h
  | succ f ih =>
    intro n gd a g' hw ha h
    simp only [replaceGate] at h
    cases hf : findMacro ms n with
    | none =>
      rw [hf] at h; simp only [pure, Except.pure, Except.ok.injEq] at h; subst h
      rw [outOK_gate]
      simp only [wfGate, hf, Bool.and_true] at hw
      simp only [wfGate, findMacro, List.find?_nil, Bool.and_true, hw, Bool.true_and, List.all_eq_true]
      intro e he
      have := ha e he
      simp only [vOK, Bool.and_eq_true] at this
      exact this.2
    | some m =>
      rw [hf] at h; simp only at h
      split at h
      · cases h
      · have hmem : m ∈ ms := by
          obtain ⟨_, pre, post, hsp, _⟩ := findMacro_some_split hf
          rw [hsp]; simp
        exact replStmt_out ms (replaceGate ms f) ih a ha m.body g' (wfMacrosFrom_mem ms [] ms hwf m hmem) (hT m hmem) h

mutual
  theorem expStmt_out (call : Stmt → M Stmt) (hc : CallOut ms call) :
      ∀ (s s' : Stmt), wfStmt ms s = true → wfT s = true → expStmt call s = .ok s' → outOK s' = true
    | .gate n gd gargs, s', hw, hT, h => by
      simp only [expStmt] at h
      simp only [wfStmt] at hw
      simp only [wfT] at hT
      exact hc _ _ _ _ hw (wfGate_args ms hw hT) h
    | .loop c body, s', hw, hT, h => by
      simp only [expStmt, bind, Except.bind] at h
      cases h2 : expStmt call body with
      | error e => rw [h2] at h; cases h
      | ok b' =>
        rw [h2] at h; simp only at h
        obtain ⟨rfl, hbc⟩ := mkLoop_ok h
        simp only [wfStmt, Bool.and_eq_true] at hw
        simp only [wfT, Bool.and_eq_true] at hT
        rw [outOK_loop]
        simp [hw.1, hT.1, expStmt_out call hc body b' hw.2 hT.2 h2]
    | .block par sub it body, s', hw, hT, h => by
      simp only [expStmt, bind, Except.bind] at h
      cases h1 : expList call par body with
      | error e => rw [h1] at h; cases h
      | ok stmts =>
        rw [h1] at h; simp only at h
        simp only [wfStmt, Bool.and_eq_true] at hw
        simp only [wfT, Bool.and_eq_true] at hT
        exact mkBlock_outOK h (okVal_of_or hw.1) (expList_out call hc par body stmts hw.2 hT.2 h1)
  theorem expList_out (call : Stmt → M Stmt) (hc : CallOut ms call) (par : Bool) :
      ∀ (l l' : List Stmt), wfStmtList ms l = true → wfTList l = true → expList call par l = .ok l' → l'.all outOK = true
    | [], l', _, _, h => by
      simp only [expList, pure, Except.pure, Except.ok.injEq] at h; subst h; rfl
    | s :: r, l', hw, hT, h => by
      simp only [expList, bind, Except.bind] at h
      cases h1 : expStmt call s with
      | error e => rw [h1] at h; cases h
      | ok s' =>
        rw [h1] at h; simp only at h
        cases h2 : expList call par r with
        | error e => rw [h2] at h; cases h
        | ok r' =>
          rw [h2] at h; simp only [pure, Except.pure, Except.ok.injEq] at h; subst h
          simp only [wfStmtList, Bool.and_eq_true] at hw
          simp only [wfTList, Bool.and_eq_true] at hT
          exact outOK_spliceInto par s' r' (expStmt_out call hc s s' hw.1 hT.1 h1)
            (expList_out call hc par r r' hw.2 hT.2 h2)
end

end stm

/-! ### `ExpandMacros.WellFormed` of the result -/

mutual
  theorem wfStmt_of_noCalls (ms : List Macro) : ∀ (s : Stmt), wfStmt [] s = true → noCalls ms s = true → wfStmt ms s = true
    | .gate n gd a, h, hn => by
      simp only [noCalls, isMacro, Bool.not_eq_true', Option.isSome_eq_false_iff, Option.isNone_iff_eq_none] at hn
      simp only [wfStmt, wfGate, hn] at h ⊢
      simpa [findMacro] using h
    | .loop c b, h, hn => by
      simp only [wfStmt, Bool.and_eq_true] at h ⊢
      exact ⟨h.1, wfStmt_of_noCalls ms b h.2 (by simpa [noCalls] using hn)⟩
    | .block _ _ it body, h, hn => by
      simp only [wfStmt, Bool.and_eq_true] at h ⊢
      exact ⟨h.1, wfStmtList_of_noCalls ms body h.2 (by simpa [noCalls] using hn)⟩
  theorem wfStmtList_of_noCalls (ms : List Macro) : ∀ (l : List Stmt), wfStmtList [] l = true → noCallsList ms l = true →
      wfStmtList ms l = true
    | [], _, _ => rfl
    | s :: r, h, hn => by
      simp only [wfStmtList, Bool.and_eq_true] at h ⊢
      simp only [noCallsList, Bool.and_eq_true] at hn
      exact ⟨wfStmt_of_noCalls ms s h.1 hn.1, wfStmtList_of_noCalls ms r h.2 hn.2⟩
end

/-- **`expand_macros` keeps `ExpandMacros.WellFormed`.** -/
theorem expandMacros_wellFormed (p : Bool) (c c' : Circuit) (hw : WellFormed c = true)
    (h : expandMacros p c = .ok c') : WellFormed c' = true := by
  have hnc := C04_no_calls p c c' h
  obtain ⟨it, b0, hb0⟩ := WellFormed_body_block hw
  obtain ⟨body, stmts, hexp, hs, rfl⟩ := expand_ok h
  simp only [WellFormed, Bool.and_eq_true] at hw
  obtain ⟨⟨⟨⟨hwm, hwb⟩, _⟩, hTb⟩, hTm⟩ := hw
  have hTm' : ∀ x ∈ c.macros, wfT x.body = true := by simpa [List.all_eq_true] using hTm
  have hcall := replaceGate_out c.macros hwm hTm' c.macros.length
  have hout := expStmt_out c.macros _ hcall c.body body hwb hTb hexp
  rw [hb0] at hexp
  simp only [expStmt, bind, Except.bind] at hexp
  cases hl : expList (replaceGate c.macros c.macros.length) false b0 with
  | error e => rw [hl] at hexp; cases hexp
  | ok l =>
    rw [hl] at hexp; simp only at hexp
    have := mkBlock_ok hexp; subst this
    simp only [statementsOf, pure, Except.pure, Except.ok.injEq] at hs; subst hs
    rw [outOK, okS_block] at hout
    simp only [Bool.and_eq_true] at hout
    have hout' : outOK (.block false false (.int 1) l) = true := by
      rw [outOK, okS_block]; simp [noParam, isIndexLike, hout.2]
    simp only [outOK, okS, Bool.and_eq_true] at hout'
    cases p with
    | true =>
      simp only [WellFormed, if_true, Bool.and_eq_true, hwm, hout'.2, hTm, and_true, true_and]
      exact wfStmt_of_noCalls c.macros _ hout'.1.1 hnc
    | false =>
      simp [WellFormed, wfMacrosFrom, hout'.1.1, hout'.2]

/-! ### the block invariants of `FillIn.WellFormed` -/

open Jaqal.FillIn in
theorem blocksOKList_append' : ∀ (a b : List Stmt), BlocksOKList a → BlocksOKList b → BlocksOKList (a ++ b)
  | [], b, _, hb => hb
  | s :: r, b, ha, hb => by
    simp only [List.cons_append, BlocksOKList] at ha ⊢
    exact ⟨ha.1, blocksOKList_append' r b ha.2 hb⟩

open Jaqal.FillIn in
theorem mkBlock_blocksOK {par sub : Bool} {it : Val} {l : List Stmt} {s : Stmt} (h : mkBlock par sub it l = .ok s)
    (hpar : sub = true → par = false) (hl : BlocksOKList l) : BlocksOK s := by
  have hs := mkBlock_ok h
  subst hs
  unfold mkBlock at h
  split at h
  · cases h
  · rename_i h1
    split at h
    · cases h
    · rename_i h2
      rw [BlocksOK]
      refine ⟨?_, ?_, hl⟩
      · intro hs; subst hs
        cases it <;> simp_all [neq1, badCount]
        rename_i v
        by_cases hv : v = 1
        · exact hv
        · exfalso; split at h1 <;> simp_all
      · intro hs
        refine ⟨hpar hs, ?_⟩
        intro hn; subst hn; simp [badCount] at h2

open Jaqal.FillIn in
theorem blocksOK_spliceInto (par : Bool) (s : Stmt) (r : List Stmt) (hs : BlocksOK s) (hr : BlocksOKList r) :
    BlocksOKList (spliceInto par s r) := by
  unfold spliceInto
  split
  · next p it b =>
    split
    · rw [BlocksOK] at hs
      exact blocksOKList_append' _ _ hs.2.2 hr
    · exact ⟨hs, hr⟩
  · exact ⟨hs, hr⟩

section blocks
open Jaqal.FillIn

def CallB (call : Stmt → M Stmt) : Prop :=
  ∀ (n : String) (gd : GateDef) (a : List (String × Val)) (g' : Stmt), call (.gate n gd a) = .ok g' → BlocksOK g'

mutual
  theorem replStmt_blocks (call : Stmt → M Stmt) (hc : CallB call) (args : List (String × Val)) :
      ∀ (s s' : Stmt), BlocksOK s → replStmt call args s = .ok s' → BlocksOK s'
    | .gate n gd gargs, s', _, h => by
      simp only [replStmt, bind, Except.bind] at h
      cases h1 : substArgs args gargs with
      | error e => rw [h1] at h; cases h
      | ok new =>
        rw [h1] at h; simp only at h
        cases h2 : GateDef.callKw gd new with
        | error e => rw [h2] at h; cases h
        | ok g =>
          rw [h2] at h; simp only at h
          obtain ⟨a, rfl⟩ := callKw_isGate h2
          exact hc _ _ _ _ h
    | .loop c body, s', hb, h => by
      simp only [replStmt, bind, Except.bind] at h
      cases h1 : substVal args c with
      | error e => rw [h1] at h; cases h
      | ok c' =>
        rw [h1] at h; simp only at h
        cases h2 : replStmt call args body with
        | error e => rw [h2] at h; cases h
        | ok b' =>
          rw [h2] at h; simp only at h
          obtain ⟨rfl, _⟩ := mkLoop_ok h
          rw [BlocksOK] at hb ⊢
          exact replStmt_blocks call hc args body b' hb h2
    | .block par sub it body, s', hb, h => by
      simp only [replStmt, bind, Except.bind] at h
      cases h1 : replList call args par body with
      | error e => rw [h1] at h; cases h
      | ok stmts =>
        rw [h1] at h; simp only at h
        cases h2 : substVal args it with
        | error e => rw [h2] at h; cases h
        | ok it' =>
          rw [h2] at h; simp only at h
          rw [BlocksOK] at hb
          exact mkBlock_blocksOK h (fun hs => (hb.2.1 hs).1) (replList_blocks call hc args par body stmts hb.2.2 h1)
  theorem replList_blocks (call : Stmt → M Stmt) (hc : CallB call) (args : List (String × Val)) (par : Bool) :
      ∀ (l l' : List Stmt), BlocksOKList l → replList call args par l = .ok l' → BlocksOKList l'
    | [], l', _, h => by
      simp only [replList, pure, Except.pure, Except.ok.injEq] at h; subst h; trivial
    | s :: r, l', hb, h => by
      simp only [replList, bind, Except.bind] at h
      cases h1 : replStmt call args s with
      | error e => rw [h1] at h; cases h
      | ok s' =>
        rw [h1] at h; simp only at h
        cases h2 : replList call args par r with
        | error e => rw [h2] at h; cases h
        | ok r' =>
          rw [h2] at h; simp only [pure, Except.pure, Except.ok.injEq] at h; subst h
          rw [BlocksOKList] at hb
          exact blocksOK_spliceInto par s' r' (replStmt_blocks call hc args s s' hb.1 h1)
            (replList_blocks call hc args par r r' hb.2 h2)
end

theorem replaceGate_blocks (ms : List Macro) (hm : ∀ m ∈ ms, BlocksOK m.body) : ∀ (fuel : Nat), CallB (replaceGate ms fuel) := by
  intro fuel
  induction fuel with
  | zero =>
    intro n gd a g' h
    simp only [replaceGate] at h
    cases hf : findMacro ms n with
    | none => rw [hf] at h; simp only [pure, Except.pure, Except.ok.injEq] at h; subst h; rw [BlocksOK]; trivial
    | some m => rw [hf] at h; simp only at h; split at h <;> cases h
  | succ f ih =>
    intro n gd a g' h
    simp only [replaceGate] at h
    cases hf : findMacro ms n with
    | none => rw [hf] at h; simp only [pure, Except.pure, Except.ok.injEq] at h; subst h; rw [BlocksOK]; trivial
    | some m =>
      rw [hf] at h; simp only at h
      split at h
      · cases h
      · have hmem : m ∈ ms := by
          obtain ⟨_, pre, post, hsp, _⟩ := findMacro_some_split hf
          rw [hsp]; simp
        exact replStmt_blocks (replaceGate ms f) ih a m.body g' (hm m hmem) h

mutual
  theorem expStmt_blocks (call : Stmt → M Stmt) (hc : CallB call) :
      ∀ (s s' : Stmt), BlocksOK s → expStmt call s = .ok s' → BlocksOK s'
    | .gate n gd gargs, s', _, h => by simp only [expStmt] at h; exact hc _ _ _ _ h
    | .loop c body, s', hb, h => by
      simp only [expStmt, bind, Except.bind] at h
      cases h2 : expStmt call body with
      | error e => rw [h2] at h; cases h
      | ok b' =>
        rw [h2] at h; simp only at h
        obtain ⟨rfl, _⟩ := mkLoop_ok h
        rw [BlocksOK] at hb ⊢
        exact expStmt_blocks call hc body b' hb h2
    | .block par sub it body, s', hb, h => by
      simp only [expStmt, bind, Except.bind] at h
      cases h1 : expList call par body with
      | error e => rw [h1] at h; cases h
      | ok stmts =>
        rw [h1] at h; simp only at h
        rw [BlocksOK] at hb
        exact mkBlock_blocksOK h (fun hs => (hb.2.1 hs).1) (expList_blocks call hc par body stmts hb.2.2 h1)
  theorem expList_blocks (call : Stmt → M Stmt) (hc : CallB call) (par : Bool) :
      ∀ (l l' : List Stmt), BlocksOKList l → expList call par l = .ok l' → BlocksOKList l'
    | [], l', _, h => by
      simp only [expList, pure, Except.pure, Except.ok.injEq] at h; subst h; trivial
    | s :: r, l', hb, h => by
      simp only [expList, bind, Except.bind] at h
      cases h1 : expStmt call s with
      | error e => rw [h1] at h; cases h
      | ok s' =>
        rw [h1] at h; simp only at h
        cases h2 : expList call par r with
        | error e => rw [h2] at h; cases h
        | ok r' =>
          rw [h2] at h; simp only [pure, Except.pure, Except.ok.injEq] at h; subst h
          rw [BlocksOKList] at hb
          exact blocksOK_spliceInto par s' r' (expStmt_blocks call hc s s' hb.1 h1)
            (expList_blocks call hc par r r' hb.2 h2)
end

/-- **`expand_macros` keeps `FillIn.WellFormed`.** -/
theorem expandMacros_wf2 (p : Bool) (c c' : Circuit) (hw : FillIn.WellFormed c)
    (h : expandMacros p c = .ok c') : FillIn.WellFormed c' := by
  obtain ⟨bs, hbs⟩ := hw.body
  obtain ⟨body, stmts, hexp, hs, rfl⟩ := expand_ok h
  have hcall := replaceGate_blocks c.macros hw.macros c.macros.length
  have hout := expStmt_blocks _ hcall c.body body hw.blocks hexp
  rw [hbs] at hexp
  simp only [expStmt, bind, Except.bind] at hexp
  cases hl : expList (replaceGate c.macros c.macros.length) false bs with
  | error e => rw [hl] at hexp; cases hexp
  | ok l =>
    rw [hl] at hexp; simp only at hexp
    have := mkBlock_ok hexp; subst this
    simp only [statementsOf, pure, Except.pure, Except.ok.injEq] at hs; subst hs
    rw [BlocksOK] at hout
    refine ⟨⟨l, rfl⟩, ?_, ?_, hw.consts, hw.regs⟩
    · rw [BlocksOK]; exact ⟨fun _ => rfl, fun hx => (by cases hx), hout.2.2⟩
    · intro m hm
      cases p with
      | true => exact hw.macros m hm
      | false => cases hm

end blocks

end Jaqal.Passes

#print axioms Jaqal.Passes.expandMacros_wellFormed
#print axioms Jaqal.Passes.expandMacros_wf2
