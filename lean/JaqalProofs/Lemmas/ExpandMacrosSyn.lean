import JaqalProofs.Lemmas.ExpandMacrosSem
/-!
Purely syntactic facts about the model of `expand_macros` (no well-formedness needed): the result contains no macro
calls, is in spliced normal form, and a statement in that form without calls is left alone; a call with the wrong
number of arguments is never accepted.
-/
namespace Jaqal.ExpandMacros
open Jaqal

theorem callKw_isGate {gd : GateDef} {new : List (String × Val)} {g : Stmt} (h : GateDef.callKw gd new = .ok g) :
    ∃ a, g = .gate gd.name gd a :=
  GateDef.callKw_isGate h

/-! ## normal form: what the splices leave behind -/

/-- is the statement one that `spliceInto par` dissolves? -/
def spliceable (par : Bool) : Stmt → Bool
  | .block p false _ _ => p == par
  | _ => false

mutual
  /-- spliced normal form: no non-subcircuit block sits directly in a block of its own kind, and every block passes
  `BlockStatement.__init__`'s check -/
  def nf : Stmt → Bool
    | .gate _ _ _ => true
    | .loop c b => !badCount c && nf b
    | .block par sub it body => (sub || !neq1 it) && !badCount it && nfList par body
  def nfList (par : Bool) : List Stmt → Bool
    | [] => true
    | s :: r => nf s && !spliceable par s && nfList par r
end

theorem nfList_append (par : Bool) : ∀ (a b : List Stmt), nfList par (a ++ b) = (nfList par a && nfList par b)
  | [], b => by simp [nfList]
  | s :: r, b => by simp [nfList, nfList_append par r b, Bool.and_assoc]

theorem spliceInto_not_spliceable {par : Bool} {s : Stmt} (h : spliceable par s = false) (r : List Stmt) :
    spliceInto par s r = s :: r := by
  unfold spliceInto
  split
  · next p it b => simp only [spliceable, beq_eq_false_iff_ne, ne_eq] at h; simp [h]
  · rfl

theorem nf_spliceInto (par : Bool) (s : Stmt) (r : List Stmt) (hs : nf s = true) (hr : nfList par r = true) :
    nfList par (spliceInto par s r) = true := by
  cases hsp : spliceable par s with
  | false => rw [spliceInto_not_spliceable hsp]; simp [nfList, hs, hsp, hr]
  | true =>
    cases s with
    | gate n gd a => simp [spliceable] at hsp
    | loop c b => simp [spliceable] at hsp
    | block p sub it body =>
      cases sub with
      | true => simp [spliceable] at hsp
      | false =>
        simp only [spliceable, beq_iff_eq] at hsp; subst hsp
        simp only [nf, Bool.and_eq_true] at hs
        simp [spliceInto, nfList_append, hs.2, hr]

theorem mkBlock_nf {par sub : Bool} {it : Val} {body : List Stmt} {s : Stmt} (h : mkBlock par sub it body = .ok s)
    (hb : nfList par body = true) : nf s = true := by
  unfold mkBlock at h
  split at h
  · cases h
  · next hc =>
    split at h
    · cases h
    · next hbc =>
      simp only [pure, Except.pure, Except.ok.injEq] at h; subst h
      simp only [nf, Bool.and_eq_true, hb, and_true]
      cases sub <;> simp_all

section syn
variable (ms : List Macro)

/-- the property of `call` the syntactic lemmas need -/
def CallGood (call : Stmt → M Stmt) : Prop :=
  ∀ (n : String) (gd : GateDef) (a : List (String × Val)) (g' : Stmt), call (.gate n gd a) = .ok g' →
    noCalls ms g' = true ∧ nf g' = true

mutual
  theorem replStmt_good (call : Stmt → M Stmt) (hc : CallGood ms call) (args : List (String × Val)) :
      ∀ (s s' : Stmt), replStmt call args s = .ok s' → noCalls ms s' = true ∧ nf s' = true
    | .gate n gd gargs, s', h => by
      simp only [replStmt, bind, Except.bind] at h
      cases h1 : substArgs args gargs with
      | error e => rw [h1] at h; cases h
      | ok new =>
        rw [h1] at h; simp only at h
        cases h2 : GateDef.callKw gd new with
        | error e => rw [h2] at h; cases h
        | ok g =>
          rw [h2] at h; simp only at h
          obtain ⟨a, rfl⟩ := callKw_isGate h2
          exact hc _ _ _ _ h
    | .loop c body, s', h => by
      simp only [replStmt, bind, Except.bind] at h
      cases h1 : substVal args c with
      | error e => rw [h1] at h; cases h
      | ok c' =>
        rw [h1] at h; simp only at h
        cases h2 : replStmt call args body with
        | error e => rw [h2] at h; cases h
        | ok b' =>
          rw [h2] at h; simp only at h
          obtain ⟨rfl, hbc⟩ := mkLoop_ok h
          simpa [noCalls, nf, hbc] using replStmt_good call hc args body b' h2
    | .block par sub it body, s', h => by
      simp only [replStmt, bind, Except.bind] at h
      cases h1 : replList call args par body with
      | error e => rw [h1] at h; cases h
      | ok stmts =>
        rw [h1] at h; simp only at h
        cases h2 : substVal args it with
        | error e => rw [h2] at h; cases h
        | ok it' =>
          rw [h2] at h; simp only at h
          have ih := replList_good call hc args par body stmts h1
          refine ⟨?_, mkBlock_nf h ih.2⟩
          rw [mkBlock_ok h]; simpa [noCalls] using ih.1
  theorem replList_good (call : Stmt → M Stmt) (hc : CallGood ms call) (args : List (String × Val)) (par : Bool) :
      ∀ (l l' : List Stmt), replList call args par l = .ok l' → noCallsList ms l' = true ∧ nfList par l' = true
    | [], l', h => by
      simp only [replList, pure, Except.pure, Except.ok.injEq] at h; subst h; simp [noCallsList, nfList]
    | s :: r, l', h => by
      simp only [replList, bind, Except.bind] at h
      cases h1 : replStmt call args s with
      | error e => rw [h1] at h; cases h
      | ok s' =>
        rw [h1] at h; simp only at h
        cases h2 : replList call args par r with
        | error e => rw [h2] at h; cases h
        | ok r' =>
          rw [h2] at h; simp only [pure, Except.pure, Except.ok.injEq] at h; subst h
          have i1 := replStmt_good call hc args s s' h1
          have i2 := replList_good call hc args par r r' h2
          exact ⟨noCalls_spliceInto ms par s' r' i1.1 i2.1, nf_spliceInto par s' r' i1.2 i2.2⟩
end

theorem replaceGate_good : ∀ (fuel : Nat), CallGood ms (replaceGate ms fuel) := by
  intro fuel
  induction fuel with
  | zero =>
    intro n gd a g' h
    simp only [replaceGate] at h
    cases hf : findMacro ms n with
    | none => rw [hf] at h; simp only [pure, Except.pure, Except.ok.injEq] at h; subst h; simp [noCalls, isMacro, hf, nf]
    | some m => rw [hf] at h; simp only at h; split at h <;> cases h
  | succ f ih =>
    intro n gd a g' h
    simp only [replaceGate] at h
    cases hf : findMacro ms n with
    | none => rw [hf] at h; simp only [pure, Except.pure, Except.ok.injEq] at h; subst h; simp [noCalls, isMacro, hf, nf]
    | some m =>
      rw [hf] at h; simp only at h
      split at h
      · cases h
      · exact replStmt_good ms (replaceGate ms f) ih a m.body g' h

mutual
  theorem expStmt_good (call : Stmt → M Stmt) (hc : CallGood ms call) :
      ∀ (s s' : Stmt), expStmt call s = .ok s' → noCalls ms s' = true ∧ nf s' = true
    | .gate n gd gargs, s', h => by simp only [expStmt] at h; exact hc _ _ _ _ h
    | .loop c body, s', h => by
      simp only [expStmt, bind, Except.bind] at h
      cases h2 : expStmt call body with
      | error e => rw [h2] at h; cases h
      | ok b' =>
        rw [h2] at h; simp only at h
        obtain ⟨rfl, hbc⟩ := mkLoop_ok h
        simpa [noCalls, nf, hbc] using expStmt_good call hc body b' h2
    | .block par sub it body, s', h => by
      simp only [expStmt, bind, Except.bind] at h
      cases h1 : expList call par body with
      | error e => rw [h1] at h; cases h
      | ok stmts =>
        rw [h1] at h; simp only at h
        have ih := expList_good call hc par body stmts h1
        refine ⟨?_, mkBlock_nf h ih.2⟩
        rw [mkBlock_ok h]; simpa [noCalls] using ih.1
  theorem expList_good (call : Stmt → M Stmt) (hc : CallGood ms call) (par : Bool) :
      ∀ (l l' : List Stmt), expList call par l = .ok l' → noCallsList ms l' = true ∧ nfList par l' = true
    | [], l', h => by
      simp only [expList, pure, Except.pure, Except.ok.injEq] at h; subst h; simp [noCallsList, nfList]
    | s :: r, l', h => by
      simp only [expList, bind, Except.bind] at h
      cases h1 : expStmt call s with
      | error e => rw [h1] at h; cases h
      | ok s' =>
        rw [h1] at h; simp only at h
        cases h2 : expList call par r with
        | error e => rw [h2] at h; cases h
        | ok r' =>
          rw [h2] at h; simp only [pure, Except.pure, Except.ok.injEq] at h; subst h
          have i1 := expStmt_good call hc s s' h1
          have i2 := expList_good call hc par r r' h2
          exact ⟨noCalls_spliceInto ms par s' r' i1.1 i2.1, nf_spliceInto par s' r' i1.2 i2.2⟩
end

mutual
  /-- a statement in normal form without calls is a fixed point of the expander (any fuel) -/
  theorem expStmt_fixed (ms' : List Macro) (fuel : Nat) : ∀ (s : Stmt), noCalls ms' s = true → nf s = true →
      expStmt (replaceGate ms' fuel) s = .ok s
    | .gate n gd a, hn, _ => by
      simp only [noCalls, isMacro, Bool.not_eq_true', Option.isSome_eq_false_iff, Option.isNone_iff_eq_none] at hn
      cases fuel <;> simp [expStmt, replaceGate, hn, pure, Except.pure]
    | .loop c b, hn, hf => by
      simp only [nf, Bool.and_eq_true, Bool.not_eq_true'] at hf
      simp [expStmt, expStmt_fixed ms' fuel b (by simpa [noCalls] using hn) hf.2, bind, Except.bind, mkLoop, hf.1, pure, Except.pure]
    | .block par sub it body, hn, hf => by
      simp only [nf, Bool.and_eq_true, Bool.not_eq_true'] at hf
      have hl := expList_fixed ms' fuel par body (by simpa [noCalls] using hn) hf.2
      have hm : mkBlock par sub it body = .ok (.block par sub it body) := by
        unfold mkBlock
        have h1 := hf.1.1
        have h2 := hf.1.2
        cases sub <;> simp_all [pure, Except.pure]
      simp [expStmt, hl, hm, bind, Except.bind]
  theorem expList_fixed (ms' : List Macro) (fuel : Nat) (par : Bool) : ∀ (l : List Stmt), noCallsList ms' l = true → nfList par l = true →
      expList (replaceGate ms' fuel) par l = .ok l
    | [], _, _ => by simp [expList, pure, Except.pure]
    | s :: r, hn, hf => by
      simp only [noCallsList, Bool.and_eq_true] at hn
      simp only [nfList, Bool.and_eq_true, Bool.not_eq_true'] at hf
      simp [expList, expStmt_fixed ms' fuel s hn.1 hf.1.1, expList_fixed ms' fuel par r hn.2 hf.2,
        spliceInto_not_spliceable hf.1.2, bind, Except.bind, pure, Except.pure]
end

mutual
  theorem noCalls_nil : ∀ (s : Stmt), noCalls [] s = true
    | .gate _ _ _ => by simp [noCalls, isMacro, findMacro]
    | .loop _ b => by simp [noCalls, noCalls_nil b]
    | .block _ _ _ body => by simp [noCalls, noCallsList_nil body]
  theorem noCallsList_nil : ∀ (l : List Stmt), noCallsList [] l = true
    | [] => rfl
    | s :: r => by simp [noCallsList, noCalls_nil s, noCallsList_nil r]
end

/-! ## wrong argument counts -/

mutual
  /-- a call of a macro with the wrong number of arguments occurs (outside the macro bodies) -/
  def hasBadCall : Stmt → Bool
    | .gate n _ a =>
      match findMacro ms n with
      | some m => a.length != m.params.length
      | none => false
    | .loop _ b => hasBadCall b
    | .block _ _ _ body => hasBadCallList body
  def hasBadCallList : List Stmt → Bool
    | [] => false
    | s :: r => hasBadCall s || hasBadCallList r
end

mutual
  theorem expStmt_noBadCall (fuel : Nat) : ∀ (s s' : Stmt), expStmt (replaceGate ms fuel) s = .ok s' → hasBadCall ms s = false
    | .gate n gd a, s', h => by
      simp only [expStmt] at h
      simp only [hasBadCall]
      cases hf : findMacro ms n with
      | none => rfl
      | some m =>
        simp only [bne_eq_false_iff_eq]
        cases fuel with
        | zero => simp only [replaceGate, hf] at h; split at h <;> cases h
        | succ f =>
          simp only [replaceGate, hf] at h
          split at h
          · cases h
          · next hne => simpa using hne
    | .loop c body, s', h => by
      simp only [expStmt, bind, Except.bind] at h
      cases h2 : expStmt (replaceGate ms fuel) body with
      | error e => rw [h2] at h; cases h
      | ok b' => simpa [hasBadCall] using expStmt_noBadCall fuel body b' h2
    | .block par sub it body, s', h => by
      simp only [expStmt, bind, Except.bind] at h
      cases h1 : expList (replaceGate ms fuel) par body with
      | error e => rw [h1] at h; cases h
      | ok stmts => simpa [hasBadCall] using expList_noBadCall fuel par body stmts h1
  theorem expList_noBadCall (fuel : Nat) (par : Bool) : ∀ (l l' : List Stmt), expList (replaceGate ms fuel) par l = .ok l' → hasBadCallList ms l = false
    | [], _, _ => rfl
    | s :: r, l', h => by
      simp only [expList, bind, Except.bind] at h
      cases h1 : expStmt (replaceGate ms fuel) s with
      | error e => rw [h1] at h; cases h
      | ok s' =>
        rw [h1] at h; simp only at h
        cases h2 : expList (replaceGate ms fuel) par r with
        | error e => rw [h2] at h; cases h
        | ok r' => simp [hasBadCallList, expStmt_noBadCall fuel s s' h1, expList_noBadCall fuel par r r' h2]
end

end syn

end Jaqal.ExpandMacros
