import JaqalProofs.Lemmas.BuiltCountsOK
import JaqalProofs.Props.C04
import JaqalProofs.Props.C09
import JaqalProofs.Props.ParsedC10
/-!
# `countsOK` of the body after each of the four passes, and after any sequence of them
-/
set_option linter.unusedSimpArgs false
set_option linter.unusedVariables false
namespace Jaqal.UnitTimingCircuit
open Jaqal Jaqal.Builder

theorem countsOKList_append (a b : List Stmt) : countsOKList (a ++ b) = (countsOKList a && countsOKList b) := by
  induction a with
  | nil => simp [countsOKList]
  | cons s r ih => simp [countsOKList, ih, Bool.and_assoc]

/-! ## `expand_subcircuits` -/

open ExpandSubcircuits in
mutual
  theorem countsOK_spell (p m : Stmt) (hp : countsOK p = true) (hm : countsOK m = true) :
      ∀ s : Stmt, countsOK (spell p m s) = true
    | .gate _ _ _ => by simp [spell, countsOK]
    | .loop _ _ => by simp [spell, countsOK]
    | .block par sub it body => by
      simp only [spell]
      split
      · simp [countsOK, blockOK_one, countsOKList, countsOKList_append, hp, hm, countsOK_spellList p m hp hm body]
      · simp [countsOK, blockOK_one, countsOK_spellList p m hp hm body]
  theorem countsOK_spellList (p m : Stmt) (hp : countsOK p = true) (hm : countsOK m = true) :
      ∀ l : List Stmt, countsOKList (spellList p m l) = true
    | [] => by simp [spellList, countsOKList]
    | s :: r => by simp [spellList, countsOKList, countsOK_spell p m hp hm s, countsOK_spellList p m hp hm r]
end

theorem subs_countsOK {c c1 : Circuit} (hsb : SeqBody c) (h : ExpandSubcircuits.expandSubcircuits none none c = .ok c1) :
    countsOK c1.body = true := by
  obtain ⟨sub, it, b, hb⟩ := hsb
  obtain ⟨stmts, hs, _, _, _, _, rfl⟩ := ExpandSubcircuits.expand_ok h
  have hsp := countsOK_spell (ExpandSubcircuits.prepStmt none c) (ExpandSubcircuits.measStmt none c)
    (by simp [ExpandSubcircuits.prepStmt, ExpandSubcircuits.boundGate, countsOK])
    (by simp [ExpandSubcircuits.measStmt, ExpandSubcircuits.boundGate, countsOK]) c.body
  rw [hb] at hs hsp
  simp only [countsOK, blockOK_one, Bool.true_and]
  cases sub <;>
    (simp only [ExpandSubcircuits.spell, Bool.false_eq_true, if_false, if_true, ExpandSubcircuits.statementsOf, pure,
        Except.pure, Except.ok.injEq] at hs hsp
     subst hs
     simp only [countsOK, Bool.and_eq_true] at hsp
     exact hsp.2)

/-! ## `expand_macros` -/

open ExpandMacros

theorem mkBlock_ok_c {par sub : Bool} {it : Val} {body : List Stmt} {s : Stmt} (h : mkBlock par sub it body = .ok s) :
    s = .block par sub it body ∧ blockOK sub it = true := by
  unfold mkBlock at h
  split at h
  · cases h
  · split at h
    · cases h
    · rename_i h1 h2
      simp only [pure, Except.pure, Except.ok.injEq] at h
      refine ⟨h.symm, ?_⟩
      simp only [blockOK]
      simp only [Bool.not_eq_true] at h1 h2
      simp [h1, h2]

theorem mkLoop_ok_c {cnt : Val} {b s : Stmt} (h : mkLoop cnt b = .ok s) : countsOK s = true := by
  unfold mkLoop at h
  split at h
  · cases h
  · simp only [pure, Except.pure, Except.ok.injEq] at h; subst h; simp [countsOK]

theorem countsOKList_spliceInto (par : Bool) {s : Stmt} {r : List Stmt} (hs : countsOK s = true) (hr : countsOKList r = true) :
    countsOKList (spliceInto par s r) = true := by
  unfold spliceInto
  split
  · rename_i p it b
    split
    · simp only [countsOK, Bool.and_eq_true] at hs
      simp [countsOKList_append, hs.2, hr]
    · simp [countsOKList, hs, hr]
  · simp [countsOKList, hs, hr]

/-- what `call` (= `replace_gate`) returns for a gate statement passes the checks -/
def CallC (call : Stmt → M Stmt) : Prop := ∀ n gd a s', call (.gate n gd a) = .ok s' → countsOK s' = true

mutual
  theorem expStmt_c {call : Stmt → M Stmt} (hc : CallC call) : ∀ (s s' : Stmt), expStmt call s = .ok s' → countsOK s' = true
    | .gate n gd a, s', h => by simp only [expStmt] at h; exact hc n gd a s' h
    | .block par sub it body, s', h => by
      simp only [expStmt] at h
      obtain ⟨stmts, hst, h2⟩ := bind_ok h
      obtain ⟨rfl, hbk⟩ := mkBlock_ok_c h2
      simp [countsOK, hbk, expList_c hc par body stmts hst]
    | .loop cnt b, s', h => by
      simp only [expStmt] at h
      obtain ⟨b', _, h2⟩ := bind_ok h
      exact mkLoop_ok_c h2
  theorem expList_c {call : Stmt → M Stmt} (hc : CallC call) : ∀ (par : Bool) (l l' : List Stmt),
      expList call par l = .ok l' → countsOKList l' = true
    | par, [], l', h => by simp only [expList, pure, Except.pure, Except.ok.injEq] at h; subst h; rfl
    | par, s :: r, l', h => by
      simp only [expList] at h
      obtain ⟨s', hs', h2⟩ := bind_ok h
      obtain ⟨r', hr', h3⟩ := bind_ok h2
      simp only [pure, Except.pure, Except.ok.injEq] at h3
      subst h3
      exact countsOKList_spliceInto par (expStmt_c hc s s' hs') (expList_c hc par r r' hr')
end

mutual
  theorem replStmt_c {call : Stmt → M Stmt} (hc : CallC call) (args : List (String × Val)) :
      ∀ (s s' : Stmt), replStmt call args s = .ok s' → countsOK s' = true
    | .gate n gd a, s', h => by
      simp only [replStmt] at h
      obtain ⟨new, _, h2⟩ := bind_ok h
      obtain ⟨g, hg, h3⟩ := bind_ok h2
      obtain ⟨a', rfl⟩ := callKw_isGate hg
      exact hc _ _ _ s' h3
    | .block par sub it body, s', h => by
      simp only [replStmt] at h
      obtain ⟨stmts, hst, h2⟩ := bind_ok h
      obtain ⟨it', _, h3⟩ := bind_ok h2
      obtain ⟨rfl, hbk⟩ := mkBlock_ok_c h3
      simp [countsOK, hbk, replList_c hc args par body stmts hst]
    | .loop cnt b, s', h => by
      simp only [replStmt] at h
      obtain ⟨c', _, h2⟩ := bind_ok h
      obtain ⟨b', _, h3⟩ := bind_ok h2
      exact mkLoop_ok_c h3
  theorem replList_c {call : Stmt → M Stmt} (hc : CallC call) (args : List (String × Val)) : ∀ (par : Bool) (l l' : List Stmt),
      replList call args par l = .ok l' → countsOKList l' = true
    | par, [], l', h => by simp only [replList, pure, Except.pure, Except.ok.injEq] at h; subst h; rfl
    | par, s :: r, l', h => by
      simp only [replList] at h
      obtain ⟨s', hs', h2⟩ := bind_ok h
      obtain ⟨r', hr', h3⟩ := bind_ok h2
      simp only [pure, Except.pure, Except.ok.injEq] at h3
      subst h3
      exact countsOKList_spliceInto par (replStmt_c hc args s s' hs') (replList_c hc args par r r' hr')
end

theorem replaceGate_c (ms : List Macro) : ∀ fuel : Nat, CallC (replaceGate ms fuel) := by
  intro fuel
  induction fuel with
  | zero =>
    intro n gd a s' h
    simp only [replaceGate] at h
    split at h
    · simp only [pure, Except.pure, Except.ok.injEq] at h; subst h; simp [countsOK]
    · split at h
      · cases h
      · cases h
  | succ f ih =>
    intro n gd a s' h
    simp only [replaceGate] at h
    split at h
    · simp only [pure, Except.pure, Except.ok.injEq] at h; subst h; simp [countsOK]
    · split at h
      · cases h
      · exact replStmt_c ih a _ s' h

theorem macros_countsOK {p : Bool} {c c1 : Circuit} (hsb : SeqBody c) (h : expandMacros p c = .ok c1) :
    countsOK c1.body = true := by
  obtain ⟨sub, it, b, hb⟩ := hsb
  obtain ⟨body, stmts, hbody, hst, rfl⟩ := ExpandMacros.expand_ok h
  have hc := expStmt_c (replaceGate_c c.macros c.macros.length) c.body body hbody
  rw [hb] at hbody
  simp only [expStmt] at hbody
  obtain ⟨ss, _, h2⟩ := bind_ok hbody
  obtain ⟨rfl, _⟩ := mkBlock_ok_c h2
  simp only [statementsOf, pure, Except.pure, Except.ok.injEq] at hst
  subst hst
  simp only [countsOK, Bool.and_eq_true] at hc
  simp [countsOK, blockOK_one, hc.2]

/-! ## all four, and sequences -/

theorem apply_countsOK (p : Passes.Pass) {c c1 : Circuit} (hsb : SeqBody c) (h : Passes.apply p c = .ok c1) :
    countsOK c1.body = true := by
  cases p with
  | let_ ov =>
    simp only [Passes.apply] at h
    unfold FillIn.fillInLet at h
    obtain ⟨e, _, hb⟩ := bind_ok h
    exact built_countsOK _ e c1 hb
  | macros pr => exact macros_countsOK hsb h
  | subs => exact subs_countsOK hsb h
  | map =>
    simp only [Passes.apply] at h
    unfold FillIn.fillInMap at h
    obtain ⟨e, _, hb⟩ := bind_ok h
    exact built_countsOK _ e c1 hb

/-- after any sequence of passes from a `Legal` circuit whose body blocks pass the constructor checks, they still do -/
theorem applySeq_countsOK : ∀ (π : List Passes.Pass) {c c1 : Circuit}, Passes.Legal c → countsOK c.body = true →
    Passes.applySeq π c = .ok c1 → countsOK c1.body = true
  | [], c, c1, _, hc, h => by simp only [Passes.applySeq, pure, Except.pure, Except.ok.injEq] at h; subst h; exact hc
  | p :: ps, c, c1, hL, hc, h => by
    simp only [Passes.applySeq] at h
    cases h1 : Passes.apply p c with
    | error e => rw [h1] at h; cases h
    | ok c2 =>
      rw [h1] at h
      obtain ⟨bb, hbb⟩ := hL.wf2.body
      exact applySeq_countsOK ps (Passes.C10_legal_preserved p c c2 hL h1)
        (apply_countsOK p ⟨false, .int 1, bb, hbb⟩ h1) h

end Jaqal.UnitTimingCircuit
