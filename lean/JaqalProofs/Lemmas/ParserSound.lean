import JaqalModel.Model.Parser
import JaqalModel.Spec.Grammar
/-! Soundness of the recursive-descent parser model w.r.t. the grammar: what it accepts is derivable. -/
namespace Jaqal.Parser
open Jaqal.Lexer Jaqal.Grammar

/-- The token string of a positioned token list. -/
abbrev toks (ts : List PTok) : List Tok := ts.map (·.tok)

theorem isSeqSep_iff (t : Tok) : isSeqSep t = true ↔ IsSeqSep t := by
  simp [isSeqSep, IsSeqSep]

theorem isParSep_iff (t : Tok) : isParSep t = true ↔ IsParSep t := by
  simp [isParSep, IsParSep]

/-- First token is not a `;`/NL (or there is none). -/
def NoSeqHead : List PTok → Prop
  | [] => True
  | p :: _ => isSeqSep p.tok = false

def NoParHead : List PTok → Prop
  | [] => True
  | p :: _ => isParSep p.tok = false

theorem skipSeq_spec (ts : List PTok) :
    ∃ pad, ts = pad ++ skipSeq ts ∧ SeqPad (toks pad) ∧ NoSeqHead (skipSeq ts) := by
  induction ts with
  | nil => exact ⟨[], by simp [skipSeq, SeqPad, NoSeqHead]⟩
  | cons p r ih =>
    by_cases h : isSeqSep p.tok = true
    · obtain ⟨pad, h1, h2, h3⟩ := ih
      refine ⟨p :: pad, ?_, ?_, ?_⟩
      · simp only [skipSeq, h, if_true, List.cons_append]; exact congrArg _ h1
      · intro t ht
        simp only [toks, List.map_cons, List.mem_cons] at ht
        rcases ht with rfl | ht
        · exact (isSeqSep_iff _).1 h
        · exact h2 t ht
      · simpa only [skipSeq, h, if_true] using h3
    · refine ⟨[], ?_, ?_, ?_⟩
      · simp [skipSeq, h]
      · simp [SeqPad]
      · simp only [skipSeq, h]; simpa [NoSeqHead] using h

theorem skipPar_spec (ts : List PTok) :
    ∃ pad, ts = pad ++ skipPar ts ∧ ParPad (toks pad) ∧ NoParHead (skipPar ts) := by
  induction ts with
  | nil => exact ⟨[], by simp [skipPar, ParPad, NoParHead]⟩
  | cons p r ih =>
    by_cases h : isParSep p.tok = true
    · obtain ⟨pad, h1, h2, h3⟩ := ih
      refine ⟨p :: pad, ?_, ?_, ?_⟩
      · simp only [skipPar, h, if_true, List.cons_append]; exact congrArg _ h1
      · intro t ht
        simp only [toks, List.map_cons, List.mem_cons] at ht
        rcases ht with rfl | ht
        · exact (isParSep_iff _).1 h
        · exact h2 t ht
      · simpa only [skipPar, h, if_true] using h3
    · refine ⟨[], ?_, ?_, ?_⟩
      · simp [skipPar, h]
      · simp [ParPad]
      · simp only [skipPar, h]; simpa [NoParHead] using h

theorem pLetOrInt_sound {ts x rest} (h : pLetOrInt ts = .ok (x, rest)) :
    ∃ p, ts = p :: rest ∧ LetOrInt p.tok x := by
  unfold pLetOrInt at h
  split at h
  · cases h
  · rename_i p r
    split at h <;> cases h
    · rename_i s hs; exact ⟨p, rfl, hs ▸ LetOrInt.ident s⟩
    · rename_i v hv; exact ⟨p, rfl, hv ▸ LetOrInt.int v⟩

theorem expect_sound {t ts rest} (h : expect t ts = .ok rest) : ∃ p, ts = p :: rest ∧ p.tok = t := by
  unfold expect at h
  split at h
  · cases h
  · rename_i p r
    split at h <;> cases h
    exact ⟨p, rfl, by assumption⟩

theorem pIdent_sound {ts s rest} (h : pIdent ts = .ok (s, rest)) :
    ∃ p, ts = p :: rest ∧ p.tok = .IDENTIFIER s := by
  unfold pIdent at h
  split at h
  · cases h
  · rename_i p r
    split at h <;> cases h
    exact ⟨p, rfl, by assumption⟩

theorem pGateArgs_sound (ts : List PTok) : ∀ {as rest}, pGateArgs ts = .ok (as, rest) →
    ∃ c, ts = c ++ rest ∧ GateArgs (toks c) as := by
  fun_induction pGateArgs ts <;> intro as rest h <;> cases h
  case case1 => exact ⟨[], rfl, .nil⟩
  case case2 p a ha =>
    exact ⟨[p], rfl, by simpa [toks, ha] using GateArgs.cons (GateArg.ident a) .nil⟩
  case case5 p a ha q hq i s hi c tail hc as' rest' hrec ih =>
    obtain ⟨c', rfl, hc'⟩ := ih hrec
    exact ⟨p :: q :: i :: c :: c', rfl, by
      simpa [toks, ha, hq, hi, hc, sxArrayItem] using GateArgs.cons (GateArg.itemIdent a s) hc'⟩
  case case9 p a ha q hq i v hi c tail hc as' rest' hrec ih =>
    obtain ⟨c', rfl, hc'⟩ := ih hrec
    exact ⟨p :: q :: i :: c :: c', rfl, by
      simpa [toks, ha, hq, hi, hc, sxArrayItem] using GateArgs.cons (GateArg.itemInt a v) hc'⟩
  case case13 p a ha q tail hq as' rest' hrec ih =>
    obtain ⟨c', hc1, hc'⟩ := ih hrec
    exact ⟨p :: c', by rw [hc1]; rfl, by
      simpa [toks, ha] using GateArgs.cons (GateArg.ident a) hc'⟩
  case case15 p tail d hd as' rest' hrec ih =>
    obtain ⟨c', rfl, hc'⟩ := ih hrec
    exact ⟨p :: c', rfl, by simpa [toks, hd] using GateArgs.cons (GateArg.number d) hc'⟩
  case case17 p tail v hv as' rest' hrec ih =>
    obtain ⟨c', rfl, hc'⟩ := ih hrec
    exact ⟨p :: c', rfl, by simpa [toks, hv] using GateArgs.cons (GateArg.int v) hc'⟩
  case case19 => exact ⟨[], rfl, .nil⟩

def SoundSeqStmts (n : Nat) : Prop := ∀ ts xs rest, pSeqStmts n ts = .ok (xs, rest) →
  ∃ body q, ts = body ++ q :: rest ∧ q.tok = .rbrace ∧ Block .seqStmts (toks body) (.list xs)
def SoundParStmts (n : Nat) : Prop := ∀ ts xs rest, pParStmts n ts = .ok (xs, rest) →
  ∃ body q, ts = body ++ q :: rest ∧ q.tok = .gt ∧ Block .parStmts (toks body) (.list xs)
def SoundSeqStmt (n : Nat) : Prop := ∀ ts x rest, pSeqStmt n ts = .ok (x, rest) →
  ∃ c, ts = c ++ rest ∧ Block .seqStmt (toks c) x
def SoundParStmt (n : Nat) : Prop := ∀ ts x rest, pParStmt n ts = .ok (x, rest) →
  ∃ c, ts = c ++ rest ∧ Block .parStmt (toks c) x
def SoundGateBlock (n : Nat) : Prop := ∀ ts x rest, pGateBlock n ts = .ok (x, rest) →
  ∃ c, ts = c ++ rest ∧ Block .gateBlock (toks c) x

theorem seqSep_single {q : PTok} (h : isSeqSep q.tok = true) {pad : List PTok} (hp : SeqPad (toks pad)) :
    SeqSep (toks (q :: pad)) := by
  refine ⟨by simp [toks], ?_⟩
  intro t ht
  simp only [toks, List.map_cons, List.mem_cons] at ht
  rcases ht with rfl | ht
  · exact (isSeqSep_iff _).1 h
  · exact hp t ht

theorem parSep_single {q : PTok} (h : isParSep q.tok = true) {pad : List PTok} (hp : ParPad (toks pad)) :
    ParSep (toks (q :: pad)) := by
  refine ⟨by simp [toks], ?_⟩
  intro t ht
  simp only [toks, List.map_cons, List.mem_cons] at ht
  rcases ht with rfl | ht
  · exact (isParSep_iff _).1 h
  · exact hp t ht

theorem soundSeqStmts_succ (n : Nat) (ih3 : SoundSeqStmt n) (ih1 : SoundSeqStmts n) : SoundSeqStmts (n+1) := by
  intro ts xs rest h
  rw [pSeqStmts.eq_def] at h; simp only at h
  split at h
  · cases h
  · rename_i p r
    split at h
    · cases h
      exact ⟨[], p, rfl, by assumption, .seqNil⟩
    · split at h
      · cases h
      · rename_i x r1 hx
        obtain ⟨c, hc, hb⟩ := ih3 _ _ _ hx
        split at h
        · cases h
        · rename_i q r2
          split at h
          · cases h
            exact ⟨c, q, hc, by assumption, .seqOne hb⟩
          · split at h
            · rename_i hsep
              split at h
              · cases h
              · rename_i xs' r3 hrec
                cases h
                obtain ⟨body, q', hb1, hq', hbody⟩ := ih1 _ _ _ hrec
                obtain ⟨pad, hp1, hp2, -⟩ := skipSeq_spec r2
                refine ⟨c ++ (q :: pad) ++ body, q', ?_, hq', ?_⟩
                · rw [hc, hp1, hb1]; simp
                · have := Block.seqCons hb (seqSep_single hsep hp2) hbody
                  simpa [toks] using this
            · cases h

theorem soundParStmts_succ (n : Nat) (ih3 : SoundParStmt n) (ih1 : SoundParStmts n) : SoundParStmts (n+1) := by
  intro ts xs rest h
  rw [pParStmts.eq_def] at h; simp only at h
  split at h
  · cases h
  · rename_i p r
    split at h
    · cases h
      exact ⟨[], p, rfl, by assumption, .parNil⟩
    · split at h
      · cases h
      · rename_i x r1 hx
        obtain ⟨c, hc, hb⟩ := ih3 _ _ _ hx
        split at h
        · cases h
        · rename_i q r2
          split at h
          · cases h
            exact ⟨c, q, hc, by assumption, .parOne hb⟩
          · split at h
            · rename_i hsep
              split at h
              · cases h
              · rename_i xs' r3 hrec
                cases h
                obtain ⟨body, q', hb1, hq', hbody⟩ := ih1 _ _ _ hrec
                obtain ⟨pad, hp1, hp2, -⟩ := skipPar_spec r2
                refine ⟨c ++ (q :: pad) ++ body, q', ?_, hq', ?_⟩
                · rw [hc, hp1, hb1]; simp
                · have := Block.parCons hb (parSep_single hsep hp2) hbody
                  simpa [toks] using this
            · cases h

/-- `"{" seqpad sequential_statements "}"` from its pieces. -/
theorem curly_of {p : PTok} {r : List PTok} {n xs rest} (hp : p.tok = .lbrace) (ih : SoundSeqStmts n)
    (h : pSeqStmts n (skipSeq r) = .ok (xs, rest)) :
    ∃ pad body q, p :: r = p :: (pad ++ body ++ [q]) ++ rest ∧ SeqPad (toks pad) ∧
      Block .seqStmts (toks body) (.list xs) ∧
      toks (p :: (pad ++ body ++ [q])) = .lbrace :: (toks pad ++ toks body ++ [.rbrace]) := by
  obtain ⟨body, q, hb1, hq, hbody⟩ := ih _ _ _ h
  obtain ⟨pad, hp1, hp2, -⟩ := skipSeq_spec r
  refine ⟨pad, body, q, ?_, hp2, hbody, ?_⟩
  · rw [hp1, hb1]; simp
  · simp [toks, hp, hq]

theorem angle_of {p : PTok} {r : List PTok} {n xs rest} (hp : p.tok = .lt) (ih : SoundParStmts n)
    (h : pParStmts n (skipPar r) = .ok (xs, rest)) :
    ∃ pad body q, p :: r = p :: (pad ++ body ++ [q]) ++ rest ∧ ParPad (toks pad) ∧
      Block .parStmts (toks body) (.list xs) ∧
      toks (p :: (pad ++ body ++ [q])) = .lt :: (toks pad ++ toks body ++ [.gt]) := by
  obtain ⟨body, q, hb1, hq, hbody⟩ := ih _ _ _ h
  obtain ⟨pad, hp1, hp2, -⟩ := skipPar_spec r
  refine ⟨pad, body, q, ?_, hp2, hbody, ?_⟩
  · rw [hp1, hb1]; simp
  · simp [toks, hp, hq]

theorem soundGateBlock_succ (n : Nat) (ih1 : SoundSeqStmts n) (ih2 : SoundParStmts n) : SoundGateBlock (n+1) := by
  intro ts x rest h
  rw [pGateBlock.eq_def] at h; simp only at h
  split at h
  · cases h
  · rename_i p r
    split at h
    · rename_i hp
      split at h
      · cases h
      · rename_i xs r1 hrec
        cases h
        obtain ⟨pad, body, q, e1, hpad, hbody, e2⟩ := curly_of hp ih1 hrec
        exact ⟨_, e1, .gateBlockSeq (by rw [e2]; exact .seqBlock hpad hbody)⟩
    · rename_i hp
      split at h
      · cases h
      · rename_i xs r1 hrec
        cases h
        obtain ⟨pad, body, q, e1, hpad, hbody, e2⟩ := angle_of hp ih2 hrec
        exact ⟨_, e1, .gateBlockPar (by rw [e2]; exact .parBlock hpad hbody)⟩
    · cases h

theorem soundParStmt_succ (n : Nat) (ih1 : SoundSeqStmts n) : SoundParStmt (n+1) := by
  intro ts x rest h
  rw [pParStmt.eq_def] at h; simp only at h
  split at h
  · cases h
  · rename_i p r
    split at h
    · rename_i g hg
      split at h
      · cases h
      · rename_i as r1 hrec
        cases h
        obtain ⟨c, rfl, hc⟩ := pGateArgs_sound _ hrec
        exact ⟨p :: c, rfl, .parGate (by simpa [toks, hg, sxGate] using Gate.mk g hc)⟩
    · rename_i hp
      split at h
      · cases h
      · rename_i xs r1 hrec
        cases h
        obtain ⟨pad, body, q, e1, hpad, hbody, e2⟩ := curly_of hp ih1 hrec
        exact ⟨_, e1, .parSeq (by rw [e2]; exact .seqBlock hpad hbody)⟩
    · cases h


theorem soundSeqStmt_succ (n : Nat) (ih1 : SoundSeqStmts n) (ih2 : SoundParStmts n) (ih5 : SoundGateBlock n) :
    SoundSeqStmt (n+1) := by
  intro ts x rest h
  rw [pSeqStmt.eq_def] at h; simp only at h
  split at h
  · cases h
  · rename_i p r
    split at h
    · rename_i g hg
      split at h
      · cases h
      · rename_i as r1 hrec
        cases h
        obtain ⟨c, rfl, hc⟩ := pGateArgs_sound _ hrec
        exact ⟨p :: c, rfl, .seqGate (by simpa [toks, hg, sxGate] using Gate.mk g hc)⟩
    · rename_i hp
      split at h
      · cases h
      · rename_i xs r1 hrec
        cases h
        obtain ⟨pad, body, q, e1, hpad, hbody, e2⟩ := angle_of hp ih2 hrec
        exact ⟨_, e1, .seqPar (by rw [e2]; exact .parBlock hpad hbody)⟩
    · rename_i hp
      split at h
      · cases h
      · rename_i c r1 hc
        obtain ⟨pc, rfl, hpc⟩ := pLetOrInt_sound hc
        split at h
        · cases h
        · rename_i b r2 hb
          cases h
          obtain ⟨cb, rfl, hcb⟩ := ih5 _ _ _ hb
          exact ⟨p :: pc :: cb, rfl, by simpa [toks, hp, sxLoop] using Block.seqLoop hpc hcb⟩
    · rename_i hp
      split at h
      · cases h
      · rename_i q r1
        split at h
        · rename_i hq
          split at h
          · cases h
          · rename_i xs r2 hrec
            cases h
            obtain ⟨pad, body, q', e1, hpad, hbody, e2⟩ := curly_of hq ih1 hrec
            refine ⟨p :: q :: (pad ++ body ++ [q']), by rw [e1]; rfl, ?_⟩
            have := Block.seqSub hpad hbody
            simp only [toks, List.map_cons, hp] at e2 ⊢
            rw [e2]; simpa [sxSub] using this
        · split at h
          · cases h
          · rename_i c r2 hc
            obtain ⟨pc, hpc1, hpc⟩ := pLetOrInt_sound hc
            cases hpc1
            split at h
            · cases h
            · rename_i r3 he
              obtain ⟨pl, rfl, hpl⟩ := expect_sound he
              split at h
              · cases h
              · rename_i xs r4 hrec
                cases h
                obtain ⟨pad, body, q', e1, hpad, hbody, e2⟩ := curly_of hpl ih1 hrec
                refine ⟨p :: q :: pl :: (pad ++ body ++ [q']), by rw [e1]; rfl, ?_⟩
                have := Block.seqSubN hpc hpad hbody
                simp only [toks, List.map_cons, hp] at e2 ⊢
                rw [e2]; simpa [sxSub] using this
    · cases h

theorem blocks_sound (n : Nat) :
    SoundSeqStmts n ∧ SoundParStmts n ∧ SoundSeqStmt n ∧ SoundParStmt n ∧ SoundGateBlock n := by
  induction n with
  | zero =>
    refine ⟨?_, ?_, ?_, ?_, ?_⟩ <;> intro ts x rest h
    · rw [pSeqStmts.eq_def] at h; cases h
    · rw [pParStmts.eq_def] at h; cases h
    · rw [pSeqStmt.eq_def] at h; cases h
    · rw [pParStmt.eq_def] at h; cases h
    · rw [pGateBlock.eq_def] at h; cases h
  | succ n ih =>
    obtain ⟨i1, i2, i3, i4, i5⟩ := ih
    exact ⟨soundSeqStmts_succ n i3 i1, soundParStmts_succ n i4 i2, soundSeqStmt_succ n i1 i2 i5,
      soundParStmt_succ n i1, soundGateBlock_succ n i1 i2⟩


theorem case_of {p : PTok} {tail r1 : List PTok} {v n b rest} (hp : p.tok = .BININT v)
    (he : expect .colon tail = .ok r1) (hb : pGateBlock n r1 = .ok (b, rest)) :
    ∃ c, p :: tail = c ++ rest ∧ Case (toks c) (sxCase v b) := by
  obtain ⟨pc, rfl, hpc⟩ := expect_sound he
  obtain ⟨cb, rfl, hcb⟩ := (blocks_sound n).2.2.2.2 _ _ _ hb
  exact ⟨p :: pc :: cb, rfl, by simpa [toks, hp, hpc, sxCase] using Case.mk v hcb⟩

theorem pCases_sound (n : Nat) (ts : List PTok) : ∀ {xs rest}, pCases n ts = .ok (xs, rest) →
    ∃ body q, ts = body ++ q :: rest ∧ q.tok = .rbrace ∧ Cases (toks body) xs := by
  fun_induction pCases n ts <;> intro xs rest h <;> cases h
  case case3 n p tail hp => exact ⟨[], p, rfl, hp, .nil⟩
  case case7 n p tail v hp r1 he b q tail' hq hb =>
    obtain ⟨c, hc, hcase⟩ := case_of hp he hb
    exact ⟨c, q, hc, hq, .one hcase⟩
  case case9 n p tail v hp r1 he b q tail' hq hsep xs' r3 hrec hb ih =>
    obtain ⟨c, hc, hcase⟩ := case_of hp he hb
    obtain ⟨body, q', hb1, hq', hbody⟩ := ih hrec
    obtain ⟨pad, hp1, hp2, -⟩ := skipSeq_spec tail'
    refine ⟨c ++ (q :: pad) ++ body, q', ?_, hq', ?_⟩
    · rw [hc, hp1, hb1]; simp
    · simpa [toks] using Cases.cons hcase (seqSep_single hsep hp2) hbody

theorem pSliceStep_sound {start stop ts idx rest} (h : pSliceStep start stop ts = .ok (idx, rest)) :
    ∃ c s sx, ts = c ++ rest ∧ OptStep s sx ∧ toks c = s ++ [.rbrack] ∧ idx = [start, stop, sx] := by
  unfold pSliceStep at h
  split at h
  · cases h
  · rename_i p r1
    split at h
    · rename_i hp
      cases h
      exact ⟨[p], [], .none, rfl, .none, by simp [toks, hp], rfl⟩
    · split at h
      · rename_i hp
        split at h
        · cases h
        · rename_i step r2 hs
          obtain ⟨ps, rfl, hps⟩ := pLetOrInt_sound hs
          split at h
          · cases h
          · rename_i r3 he
            obtain ⟨pe, rfl, hpe⟩ := expect_sound he
            cases h
            exact ⟨[p, ps, pe], _, _, rfl, .some hps, by simp [toks, hp, hpe], rfl⟩
      · cases h

theorem pSliceStop_sound {start ts idx rest} (h : pSliceStop start ts = .ok (idx, rest)) :
    ∃ c b bx s sx, ts = c ++ rest ∧ OptLetOrInt b bx ∧ OptStep s sx ∧ toks c = b ++ (s ++ [.rbrack]) ∧
      idx = [start, bx, sx] := by
  unfold pSliceStop at h
  split at h
  · cases h
  · rename_i p r1
    split at h
    · rename_i s hs
      obtain ⟨c, st, sx, rfl, h1, h2, rfl⟩ := pSliceStep_sound h
      exact ⟨p :: c, [p.tok], _, st, sx, rfl, .some (hs ▸ .ident s), h1, by simp [toks] at h2 ⊢; exact h2, rfl⟩
    · rename_i v hv
      obtain ⟨c, st, sx, rfl, h1, h2, rfl⟩ := pSliceStep_sound h
      exact ⟨p :: c, [p.tok], _, st, sx, rfl, .some (hv ▸ .int v), h1, by simp [toks] at h2 ⊢; exact h2, rfl⟩
    · obtain ⟨c, st, sx, hc, h1, h2, rfl⟩ := pSliceStep_sound h
      exact ⟨c, [], _, st, sx, hc, .none, h1, by simpa using h2, rfl⟩

/-- What `pMapIndex` accepts (the part of a map statement after `[`). -/
inductive MapIndex : List Tok → List Sx → Prop
  | index {i ix} : LetOrInt i ix → MapIndex [i, .rbrack] [ix]
  | slice {a ax b bx c cx} : OptLetOrInt a ax → OptLetOrInt b bx → OptStep c cx →
      MapIndex (a ++ .colon :: (b ++ (c ++ [.rbrack]))) [ax, bx, cx]

theorem pMapIndex_sound {ts idx rest} (h : pMapIndex ts = .ok (idx, rest)) :
    ∃ c, ts = c ++ rest ∧ MapIndex (toks c) idx := by
  unfold pMapIndex at h
  split at h
  · cases h
  · rename_i p r
    split at h
    · rename_i hp
      obtain ⟨c, b, bx, s, sx, rfl, h1, h2, h3, rfl⟩ := pSliceStop_sound h
      refine ⟨p :: c, rfl, ?_⟩
      have := MapIndex.slice .none h1 h2
      simpa [toks, hp, h3] using this
    · split at h
      · cases h
      · rename_i i r1 hi
        obtain ⟨pi, hpi1, hpi⟩ := pLetOrInt_sound hi
        cases hpi1
        split at h
        · cases h
        · rename_i q r2
          split at h
          · rename_i hq
            cases h
            exact ⟨[p, q], rfl, by simpa [toks, hq] using MapIndex.index hpi⟩
          · split at h
            · rename_i hq
              obtain ⟨c, b, bx, s, sx, rfl, h1, h2, h3, rfl⟩ := pSliceStop_sound h
              refine ⟨p :: q :: c, rfl, ?_⟩
              have := MapIndex.slice (.some hpi) h1 h2
              simpa [toks, hq, h3] using this
            · cases h


theorem pIdents_sound (ts : List PTok) :
    ∃ c, ts = c ++ (pIdents ts).2 ∧ toks c = (pIdents ts).1.map Tok.IDENTIFIER := by
  fun_induction pIdents ts
  · exact ⟨[], rfl, rfl⟩
  · rename_i p r s hs x ih
    obtain ⟨c, h1, h2⟩ := ih
    refine ⟨p :: c, ?_, ?_⟩
    · simp only [List.cons_append]; exact congrArg _ h1
    · simp only [toks, List.map_cons, hs]; exact congrArg _ h2
  · exact ⟨[], rfl, rfl⟩

/-- What a successful `pTopStmt` result means. -/
def TopResOk (c : List Tok) : TopRes → Prop
  | .header x => Header c x
  | .body x => Body c x
  | .bad _ => True

theorem pTopStmt_sound {n ts res rest} (h : pTopStmt n ts = .ok (res, rest)) :
    ∃ c, ts = c ++ rest ∧ TopResOk (toks c) res := by
  unfold pTopStmt at h
  split at h
  · cases h
  · rename_i n ts
    split at h
    · cases h
    · rename_i p r
      split at h
      · -- REG
        rename_i hp
        split at h
        · cases h
        · rename_i name r1 h1
          obtain ⟨p1, rfl, hp1⟩ := pIdent_sound h1
          split at h
          · cases h
          · rename_i r2 h2
            obtain ⟨p2, rfl, hp2⟩ := expect_sound h2
            split at h
            · cases h
            · rename_i sz r3 h3
              obtain ⟨p3, rfl, hp3⟩ := pLetOrInt_sound h3
              split at h
              · cases h
              · rename_i r4 h4
                obtain ⟨p4, rfl, hp4⟩ := expect_sound h4
                split at h
                · rename_i v
                  split at h
                  · cases h; exact ⟨[p, p1, p2, p3, p4], rfl, trivial⟩
                  · rename_i hv
                    cases h
                    refine ⟨[p, p1, p2, p3, p4], rfl, ?_⟩
                    have : ∀ w, p3.tok = .INT w → 0 < w := by
                      intro w hw; rw [hw] at hp3; cases hp3; omega
                    simpa [TopResOk, toks, hp, hp1, hp2, hp4, sxRegister] using Header.register name hp3 this
                · cases h
                  refine ⟨[p, p1, p2, p3, p4], rfl, ?_⟩
                  have : ∀ w, p3.tok = .INT w → 0 < w := by
                    intro w hw; rw [hw] at hp3; cases hp3; rename_i hne; exact absurd rfl (hne w)
                  simpa [TopResOk, toks, hp, hp1, hp2, hp4, sxRegister] using Header.register name hp3 this
      · -- LET
        rename_i hp
        split at h
        · cases h
        · rename_i name r1 h1
          obtain ⟨p1, rfl, hp1⟩ := pIdent_sound h1
          split at h
          · cases h
          · rename_i q r2
            split at h
            · rename_i d hd
              cases h
              exact ⟨[p, p1, q], rfl, by simpa [TopResOk, toks, hp, hp1, hd, sxLet] using Header.letNumber name d⟩
            · rename_i v hv
              cases h
              exact ⟨[p, p1, q], rfl, by simpa [TopResOk, toks, hp, hp1, hv, sxLet] using Header.letInt name v⟩
            · cases h
      · -- MAP
        rename_i hp
        split at h
        · cases h
        · rename_i name r1 h1
          obtain ⟨p1, rfl, hp1⟩ := pIdent_sound h1
          split at h
          · cases h
          · rename_i src r2 h2
            obtain ⟨p2, rfl, hp2⟩ := pIdent_sound h2
            split at h
            · cases h
              exact ⟨[p, p1, p2], rfl, by simpa [TopResOk, toks, hp, hp1, hp2, sxMap] using Header.mapWhole name src⟩
            · rename_i q r3
              split at h
              · rename_i hq
                split at h
                · cases h
                · rename_i idx r4 h4
                  cases h
                  obtain ⟨c, rfl, hc⟩ := pMapIndex_sound h4
                  refine ⟨p :: p1 :: p2 :: q :: c, rfl, ?_⟩
                  generalize hci : toks c = tc at hc
                  cases hc with
                  | index hi =>
                    have := Header.mapIndex name src hi
                    simp only [TopResOk, toks, List.map_cons, hp, hp1, hp2, hq, sxMap] at hci ⊢
                    rw [hci]; exact this
                  | slice ha hb hs =>
                    have := Header.mapSlice name src ha hb hs
                    simp only [TopResOk, toks, List.map_cons, hp, hp1, hp2, hq, sxMap] at hci ⊢
                    rw [hci]; exact this
              · cases h
                exact ⟨[p, p1, p2], rfl, by simpa [TopResOk, toks, hp, hp1, hp2, sxMap] using Header.mapWhole name src⟩
      · -- FROM
        rename_i hp
        split at h
        · cases h
        · rename_i q r1
          split at h
          · rename_i m hm
            split at h
            · cases h
            · rename_i r2 h2
              obtain ⟨p2, rfl, hp2⟩ := expect_sound h2
              split at h
              · cases h
              · rename_i r3 h3
                obtain ⟨p3, rfl, hp3⟩ := expect_sound h3
                cases h
                exact ⟨[p, q, p2, p3], rfl, by simpa [TopResOk, toks, hp, hm, hp2, hp3, sxUsepulses] using Header.usepulses m⟩
          · rename_i m hm
            split at h
            · cases h
            · rename_i r2 h2
              obtain ⟨p2, rfl, hp2⟩ := expect_sound h2
              split at h
              · cases h
              · rename_i r3 h3
                obtain ⟨p3, rfl, hp3⟩ := expect_sound h3
                cases h
                exact ⟨[p, q, p2, p3], rfl, by simpa [TopResOk, toks, hp, hm, hp2, hp3, sxUsepulses] using Header.usepulsesDot m⟩
          · cases h
      · -- IMPORT
        split at h
        · cases h
        · rename_i nm r1 h1
          obtain ⟨p1, rfl, hp1⟩ := pIdent_sound h1
          split at h
          · cases h
          · rename_i r2 h2
            obtain ⟨p2, rfl, hp2⟩ := expect_sound h2
            split at h
            · cases h
            · rename_i nm2 r3 h3
              obtain ⟨p3, rfl, hp3⟩ := pIdent_sound h3
              cases h
              exact ⟨[p, p1, p2, p3], rfl, trivial⟩
      · -- MACRO
        rename_i hp
        split at h
        · cases h
        · rename_i name r1 h1
          obtain ⟨p1, rfl, hp1⟩ := pIdent_sound h1
          simp only at h
          split at h
          · cases h
          · rename_i b r2 hb
            cases h
            obtain ⟨cb, hcb1, hcb⟩ := (blocks_sound _).2.2.2.2 _ _ _ hb
            obtain ⟨ci, hci1, hci⟩ := pIdents_sound r1
            refine ⟨p :: p1 :: (ci ++ cb), ?_, ?_⟩
            · rw [hcb1] at hci1; rw [hci1]; simp
            · have := Body.macroDef name (pIdents r1).1 hcb
              simpa [TopResOk, toks, hp, hp1, hci, sxMacro] using this
      · -- BRANCH
        rename_i hp
        split at h
        · cases h
        · rename_i r1 h1
          obtain ⟨p1, rfl, hp1⟩ := expect_sound h1
          split at h
          · cases h
          · rename_i cs r2 hc
            cases h
            obtain ⟨body, q, hb1, hq, hbody⟩ := pCases_sound _ _ hc
            obtain ⟨pad, hpad1, hpad2, -⟩ := skipSeq_spec r1
            refine ⟨p :: p1 :: (pad ++ body ++ [q]), ?_, ?_⟩
            · rw [hpad1, hb1]; simp
            · have := Body.branch hpad2 hbody
              simpa [TopResOk, toks, hp, hp1, hq, sxBranch] using this
      · -- "{"
        rename_i hp
        split at h
        · cases h
        · rename_i xs r1 hrec
          cases h
          obtain ⟨pad, body, q, e1, hpad, hbody, e2⟩ := curly_of hp (blocks_sound _).1 hrec
          exact ⟨_, e1, Body.seqBlock (by rw [e2]; exact .seqBlock hpad hbody)⟩
      · -- other statements
        split at h
        · cases h
        · rename_i x r1 hx
          cases h
          obtain ⟨c, hc, hb⟩ := (blocks_sound _).2.2.1 _ _ _ hx
          exact ⟨c, hc, Body.stmt hb⟩


def phaseOf (inBody : Bool) : Phase := if inBody then .body else .header

theorem topAction_sound {inBody line index atEnd res x inBody' c}
    (h : topAction inBody line index atEnd res = .ok (x, inBody')) (hr : TopResOk c res) :
    (Header c x ∧ inBody = false ∧ inBody' = false) ∨ (Body c x ∧ inBody' = true) := by
  cases res with
  | bad k => cases h
  | header y =>
    simp only [topAction] at h
    split at h
    · cases h
    · rename_i hb
      cases h; left; exact ⟨hr, by simpa using hb, rfl⟩
  | body y => cases h; right; exact ⟨hr, rfl⟩

theorem pTop_sound (n : Nat) (inBody : Bool) (ts : List PTok) : ∀ {xs}, pTop n inBody ts = .ok xs →
    Stmts (phaseOf inBody) (toks ts) xs := by
  fun_induction pTop n inBody ts <;> intro xs h <;> cases h
  case case2 => exact .nil
  case case5 n inBody p tail res x ib hact hstmt =>
    obtain ⟨c, hc, hres⟩ := pTopStmt_sound hstmt
    simp only [List.append_nil] at hc
    subst hc
    rcases topAction_sound hact hres with ⟨hh, rfl, -⟩ | ⟨hb, -⟩
    · exact .lastHeader hh
    · exact .lastBody hb
  case case8 n inBody p tail res q tail' hsep x ib hact xs' hrec hstmt ih =>
    obtain ⟨c, hc, hres⟩ := pTopStmt_sound hstmt
    obtain ⟨pad, hp1, hp2, -⟩ := skipSeq_spec tail'
    have hsepS := seqSep_single hsep hp2
    have ih' := ih hrec
    have e : toks (p :: tail) = toks c ++ toks (q :: pad) ++ toks (skipSeq tail') := by
      rw [hc]; conv => lhs; rw [hp1]
      simp [toks]
    rw [e]
    rcases topAction_sound hact hres with ⟨hh, rfl, rfl⟩ | ⟨hb, rfl⟩
    · exact .consHeader hh hsepS ih'
    · exact .consBody hb hsepS ih'

theorem parse_sound {ts t} (h : parse ts = .ok t) : Derives (toks ts) t := by
  unfold parse at h
  split at h
  · cases h
  · rename_i xs hx
    cases h
    obtain ⟨pad, hp1, hp2, -⟩ := skipSeq_spec ts
    have := Derives.circuit hp2 (pTop_sound _ _ _ hx)
    rw [hp1]; simpa [toks, sxCircuit] using this


end Jaqal.Parser
