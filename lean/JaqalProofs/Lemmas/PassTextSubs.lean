import JaqalProofs.Props.C01Autoload
import JaqalProofs.Props.ParsedC10
/-!
# Text of a pass result, layers A and B — general part, and `expand_subcircuits`

For C10's last clause ("the result of a pass can be generated as text and re-parsed") C01's three layers are needed for
circuits that are not parse results but PASS results.

* `NamesOK c` — the names / floats half of `LexSafe` (`SafeCircuit SafeMod LegalName FloatOK`): what `buildNoMemo_safe`
  gives for every parsed circuit; with `IntsBounded` it is `LexSafe` (`lexSafe_of`).
* `text_reduces` — for EVERY circuit that is `printable` and `LexSafe` the generator succeeds and parsing its text, in any
  configuration, IS building the tree `unbuild c` (layers A + B): the question "does the text re-parse, and to what" is a
  question about the builder alone.
* `spell_printable`, `spell_namesOK` — `expand_subcircuits` (the tree map `spell`) keeps `printable` and `NamesOK`.
-/
set_option linter.unusedVariables false
set_option linter.unusedSimpArgs false
namespace Jaqal.PassText
open Jaqal Jaqal.Builder Jaqal.Pipeline Jaqal.RoundTrip Jaqal.Generator Jaqal.Lexer Jaqal.Parser

/-- the names and floats of the circuit can be read back by the lexer (the integers are `IntsBounded`'s business) -/
abbrev NamesOK (c : Circuit) : Prop := SafeCircuit SafeMod LegalName FloatOK c

/-- every parsed circuit is `NamesOK`, whatever the configuration -/
theorem parsed_namesOK {cfg : Config} {txt : String} {c : Circuit} (h : parseProgram cfg txt = .ok c) : NamesOK c := by
  obtain ⟨sx, hs, bs, _, _, hh, hb, hnb, hsafe, hnm, _, _, _⟩ := Autoload.parseProgram_shape h
  exact Autoload.buildNoMemo_safe_any cfg hh hb (fun e hm => ⟨hsafe e hm, hnb e hm⟩) hnm

/-- **Layers A and B for any circuit**: if `c` is printable and `LexSafe`, its text is generated and parsing that text in
ANY configuration is building the tree `unbuild c` in that configuration. -/
theorem text_reduces (c : Circuit) (hp : printable c = true) (hs : LexSafe c) :
    ∃ t, gen c = .ok t ∧ ∀ cfg : Config, parseProgram cfg t = parseBuild cfg (unbuild c) := by
  obtain ⟨t, ts, hg, hl, hts⟩ := C01.C01_lex_gen c hp hs
  refine ⟨t, hg, fun cfg => ?_⟩
  have hparse := C01.C01_parse_toks c hp ts hts
  have htext : parseText t = .ok (unbuild c) := by
    unfold parseText
    rw [C01.lexAll_of_lex hl]
    simp only [hparse]
  unfold parseProgram parseSx
  rw [htext]
  rfl

/-! ## `okItems`: one statement at a time -/

/-- may `s` stand in a block of kind `par` (a nested block of the same kind is spliced by the generator)? -/
def okIn (par : Bool) (s : Stmt) : Bool := okItems par [s]

theorem okItems_nil (par : Bool) : okItems par [] = true := by simp [okItems]

theorem okItems_cons (par : Bool) (s : Stmt) (rest : List Stmt) :
    okItems par (s :: rest) = (okIn par s && okItems par rest) := by
  unfold okIn
  cases s with
  | gate n gd a => simp [okItems]
  | loop c b => simp [okItems]
  | block p sub it b =>
    cases sub with
    | true => simp [okItems]
    | false =>
      by_cases hp : p = par
      · simp [okItems, hp]
      · simp [okItems, hp]

theorem okItems_append (par : Bool) : ∀ (a b : List Stmt), okItems par (a ++ b) = (okItems par a && okItems par b)
  | [], b => by simp [okItems_nil]
  | s :: r, b => by
    rw [List.cons_append, okItems_cons, okItems_cons, okItems_append par r b, Bool.and_assoc]

theorem okIn_gate (par : Bool) (n : String) (gd : GateDef) (a : List (String × Val)) :
    okIn par (.gate n gd a) = okArgs a := by simp [okIn, okItems, okStmt]

theorem okIn_block_plain (par p : Bool) (it : Val) (b : List Stmt) :
    okIn par (.block p false it b) = okItems p b := by
  unfold okIn
  by_cases hp : p = par
  · subst hp; simp [okItems]
  · have : (p != par) = true := by cases p <;> cases par <;> simp_all
    simp [okItems, okStmt, hp, this]

theorem okIn_block_sub (par p : Bool) (it : Val) (b : List Stmt) :
    okIn par (.block p true it b) = (!par && !p && okRef it && okItems false b) := by
  simp [okIn, okItems, okStmt]

theorem okIn_loop (par : Bool) (c : Val) (body : Stmt) :
    okIn par (.loop c body) = (match body with
      | .block p sub _ b => !par && okRef c && !sub && okItems p b
      | _ => false) := by
  cases body <;> simp [okIn, okItems, okStmt]

theorem okTop_eq (s : Stmt) : okTop s = okIn false s := by
  cases s with
  | gate n gd a => simp [okTop, okIn, okItems]
  | loop c b => simp [okTop, okIn, okItems]
  | block p sub it b =>
    cases sub with
    | true => simp [okTop, okIn, okItems]
    | false =>
      cases p with
      | false => simp [okTop, okIn, okItems]
      | true => simp [okTop, okIn, okItems]

theorem all_okTop : ∀ (l : List Stmt), l.all okTop = okItems false l
  | [] => by simp [okItems_nil]
  | s :: r => by rw [List.all_cons, okItems_cons, okTop_eq, all_okTop r]

/-! ## `expand_subcircuits` = `spell` -/

open Jaqal.ExpandSubcircuits

section Spell
variable (p m : Stmt)

mutual
theorem spell_okIn (hp : okIn false p = true) (hm : okIn false m = true) :
    ∀ (s : Stmt) (par : Bool), okIn par s = true → okIn par (spell p m s) = true
  | .gate n gd a, par, h => by simpa [spell] using h
  | .loop c (.block q sub it bb), par, h => by
    rw [okIn_loop] at h
    simp only [Bool.and_eq_true, Bool.not_eq_true'] at h
    obtain ⟨⟨⟨h1, h2⟩, h3⟩, h4⟩ := h
    subst h3
    have := spellList_okItems hp hm bb q h4
    simp [spell, okIn_loop, h1, h2, this]
  | .loop c (.gate _ _ _), par, h => by simp [okIn_loop] at h
  | .loop c (.loop _ _), par, h => by simp [okIn_loop] at h
  | .block q true it bb, par, h => by
    rw [okIn_block_sub] at h
    simp only [Bool.and_eq_true, Bool.not_eq_true'] at h
    obtain ⟨⟨⟨h1, h2⟩, h3⟩, h4⟩ := h
    subst h1; subst h2
    have := spellList_okItems hp hm bb false h4
    simp only [spell, if_true, okIn_block_plain]
    rw [List.cons_append, okItems_cons, okItems_append, okItems_cons, okItems_nil, hp, hm, this]
    rfl
  | .block q false it bb, par, h => by
    rw [okIn_block_plain] at h
    have := spellList_okItems hp hm bb q h
    simp only [spell, Bool.false_eq_true, if_false, okIn_block_plain]
    exact this
theorem spellList_okItems (hp : okIn false p = true) (hm : okIn false m = true) :
    ∀ (l : List Stmt) (par : Bool), okItems par l = true → okItems par (spellList p m l) = true
  | [], par, h => by simp [spellList, okItems_nil]
  | s :: r, par, h => by
    rw [okItems_cons, Bool.and_eq_true] at h
    rw [spellList, okItems_cons, spell_okIn hp hm s par h.1, spellList_okItems hp hm r par h.2]
    rfl
end

theorem spellMacro_ok (hp : okIn false p = true) (hm : okIn false m = true) (mc : Macro) (h : okMacro mc = true) :
    okMacro (spellMacro p m mc) = true := by
  unfold okMacro at h ⊢
  cases hb : mc.body with
  | gate _ _ _ => simp [hb] at h
  | loop _ _ => simp [hb] at h
  | block par sub it b =>
    simp only [hb, Bool.and_eq_true, Bool.not_eq_true'] at h
    obtain ⟨h1, h2⟩ := h
    subst h1
    simp [spellMacro, hb, spell, spellList_okItems p m hp hm b par h2]

/-! ### names and floats -/

theorem itemsP_append {P : String → Prop} {R : Dec → Prop} : ∀ (a b : List Stmt),
    ItemsP P R a → ItemsP P R b → ItemsP P R (a ++ b)
  | [], b, _, hb => hb
  | s :: r, b, ha, hb => by
    simp only [List.cons_append, ItemsP] at ha ⊢
    exact ⟨ha.1, itemsP_append r b ha.2 hb⟩

theorem itemsP_mem {P : String → Prop} {R : Dec → Prop} : ∀ {l : List Stmt}, ItemsP P R l → ∀ s ∈ l, StmtP P R s
  | [], _, s, hs => by cases hs
  | x :: r, h, s, hs => by
    simp only [ItemsP] at h
    rcases List.mem_cons.1 hs with rfl | hs
    · exact h.1
    · exact itemsP_mem h.2 s hs

theorem itemsP_of_mem {P : String → Prop} {R : Dec → Prop} : ∀ {l : List Stmt}, (∀ s ∈ l, StmtP P R s) → ItemsP P R l
  | [], _ => by simp only [ItemsP]
  | x :: r, h => by
    simp only [ItemsP]
    exact ⟨h x (by simp), itemsP_of_mem (fun s hs => h s (by simp [hs]))⟩

mutual
theorem spell_stmtP {P : String → Prop} {R : Dec → Prop} (hp : StmtP P R p) (hm : StmtP P R m) :
    ∀ (s : Stmt), StmtP P R s → StmtP P R (spell p m s)
  | .gate n gd a, h => by simpa [spell] using h
  | .loop c b, h => by
    simp only [StmtP, spell] at h ⊢
    exact ⟨h.1, spell_stmtP hp hm b h.2⟩
  | .block q true it bb, h => by
    simp only [StmtP, spell, if_true] at h ⊢
    refine ⟨by simp [RefP], ?_⟩
    rw [List.cons_append]
    simp only [ItemsP]
    refine ⟨hp, itemsP_append _ _ (spellList_itemsP hp hm bb h.2) ?_⟩
    simp only [ItemsP]
    exact ⟨hm, trivial⟩
  | .block q false it bb, h => by
    simp only [StmtP, spell, Bool.false_eq_true, if_false] at h ⊢
    exact ⟨by simp [RefP], spellList_itemsP hp hm bb h.2⟩
theorem spellList_itemsP {P : String → Prop} {R : Dec → Prop} (hp : StmtP P R p) (hm : StmtP P R m) :
    ∀ (l : List Stmt), ItemsP P R l → ItemsP P R (spellList p m l)
  | [], h => by simp only [spellList, ItemsP]
  | s :: r, h => by
    simp only [ItemsP, spellList] at h ⊢
    exact ⟨spell_stmtP hp hm s h.1, spellList_itemsP hp hm r h.2⟩
end

end Spell

/-! ### the two bounding names are identifiers -/

theorem legal_prepare_all : LegalName "prepare_all" := by
  refine ⟨⟨'p', "repare_all".toList, rfl, by decide, ?_⟩, rfl⟩
  simp [TailOK, identTail, isAlnum_, isAlpha_, isDigit]

theorem legal_measure_all : LegalName "measure_all" := by
  refine ⟨⟨'m', "easure_all".toList, rfl, by decide, ?_⟩, rfl⟩
  simp [TailOK, identTail, isAlnum_, isAlpha_, isDigit]

/-! ### the pass -/

theorem subs_printable {c c' : Circuit} (hL : Passes.Legal c) (hp : printable c = true)
    (h : Passes.apply .subs c = .ok c') : printable c' = true := by
  have h' : expandSubcircuits none none c = .ok c' := h
  obtain ⟨bs, hb⟩ := hL.wf2.body
  have hbody := C09_shape_body hb h'
  obtain ⟨hmac, _⟩ := C09_shape h'
  obtain ⟨stmts, _, _, _, _, _, hc'⟩ := expand_ok h'
  have hu : c'.usepulses = c.usepulses := by rw [hc']
  have hcs : c'.constants = c.constants := by rw [hc']
  have hr : c'.registers = c.registers := by rw [hc']
  have hP : okIn false (prepStmt none c) = true := by simp [prepStmt, boundGate, okIn_gate, okArgs]
  have hM : okIn false (measStmt none c) = true := by simp [measStmt, boundGate, okIn_gate, okArgs]
  simp only [Pipeline.printable, Bool.and_eq_true] at hp ⊢
  obtain ⟨⟨⟨⟨h1, h2⟩, h3⟩, h4⟩, h5⟩ := hp
  rw [hu, hcs, hr, hmac, hbody, hb]
  refine ⟨⟨⟨⟨h1, h2⟩, h3⟩, ?_⟩, ?_⟩
  · simp only [List.all_eq_true, List.mem_map] at h4 ⊢
    rintro x ⟨mc, hmc, rfl⟩
    exact spellMacro_ok _ _ hP hM mc (h4 mc hmc)
  · rw [hb] at h5
    simp only [spell, Bool.false_eq_true, if_false]
    simp only [] at h5
    rw [all_okTop] at h5 ⊢
    exact spellList_okItems _ _ hP hM bs false h5

theorem subs_namesOK {c c' : Circuit} (hL : Passes.Legal c) (hn : NamesOK c)
    (h : Passes.apply .subs c = .ok c') : NamesOK c' := by
  have h' : expandSubcircuits none none c = .ok c' := h
  obtain ⟨bs, hb⟩ := hL.wf2.body
  have hbody := C09_shape_body hb h'
  obtain ⟨hmac, _⟩ := C09_shape h'
  obtain ⟨stmts, _, _, _, _, _, hc'⟩ := expand_ok h'
  have hu : c'.usepulses = c.usepulses := by rw [hc']
  have hcs : c'.constants = c.constants := by rw [hc']
  have hr : c'.registers = c.registers := by rw [hc']
  have hP : StmtP LegalName FloatOK (prepStmt none c) := by
    simp only [prepStmt, boundGate, StmtP, ArgsP, and_true]
    rw [Passes.chooseBounding_none_name]; exact legal_prepare_all
  have hM : StmtP LegalName FloatOK (measStmt none c) := by
    simp only [measStmt, boundGate, StmtP, ArgsP, and_true]
    rw [Passes.chooseBounding_none_name]; exact legal_measure_all
  refine ⟨by rw [hcs]; exact hn.consts, by rw [hr]; exact hn.regs, ?_, ?_, by rw [hu]; exact hn.mods⟩
  · rw [hmac]
    intro x hx
    simp only [List.mem_map] at hx
    obtain ⟨mc, hmc, rfl⟩ := hx
    obtain ⟨a1, a2, a3⟩ := hn.macros mc hmc
    exact ⟨a1, a2, spell_stmtP _ _ hP hM mc.body a3⟩
  · rw [hbody, hb]
    simp only [spell, Bool.false_eq_true, if_false, Stmt.stmts]
    have : ItemsP LegalName FloatOK bs := itemsP_of_mem (by
      intro s hs; exact hn.stmts s (by rw [hb]; exact hs))
    exact itemsP_mem (spellList_itemsP _ _ hP hM bs this)

end Jaqal.PassText
