import Mathlib.Data.Complex.Basic
import Mathlib.Tactic.LinearCombination
import Mathlib.Tactic.FieldSimp
import Mathlib.Tactic.Ring
import JaqalModel.Model.Emulator
/-!
Meaning of the executable scalars `GD` (Gaussian dyadic numbers) as complex numbers, and transport of
the emulator loop nest along any map that preserves `0`, `1`, `+`, `*`.

`GD` with its normalising `+`/`*` is not literally a semiring on the raw structure (`a + 0` normalises
`a`), so the C03 theorems (stated for a `CommSemiring`) are transferred to it through `GD.val : GD → ℂ`.
-/
namespace Jaqal.Emulator

namespace GD
open Complex

/-- `(re + i·im) / 2^k` -/
noncomputable def val (a : GD) : ℂ := ((a.re : ℂ) + (a.im : ℂ) * I) / 2 ^ a.k

theorem val_mk' (k : Nat) (re im : Int) : val (mk' k re im) = ((re : ℂ) + (im : ℂ) * I) / 2 ^ k := by
  induction k generalizing re im with
  | zero => simp [mk', val]
  | succ k ih =>
    unfold mk'
    split
    · rename_i h
      rw [ih]
      obtain ⟨r, rfl⟩ : ∃ r, re = 2 * r := ⟨re / 2, by omega⟩
      obtain ⟨m, rfl⟩ : ∃ m, im = 2 * m := ⟨im / 2, by omega⟩
      have hr : 2 * r / 2 = r := by omega
      have hm : 2 * m / 2 = m := by omega
      rw [hr, hm, pow_succ]
      push_cast
      field_simp
    · rfl

theorem val_zero : val 0 = 0 := by simp [val, show (0 : GD) = ⟨0, 0, 0⟩ from rfl]
theorem val_one : val 1 = 1 := by simp [val, show (1 : GD) = ⟨1, 0, 0⟩ from rfl]

theorem val_add (a b : GD) : val (a + b) = val a + val b := by
  show val (add a b) = _
  unfold add
  simp only [val_mk']
  unfold val
  generalize hk : max a.k b.k = k
  have h1 : a.k ≤ k := by omega
  have h2 : b.k ≤ k := by omega
  have e1 : (2 : ℂ) ^ k = 2 ^ a.k * 2 ^ (k - a.k) := by rw [← pow_add]; congr 1; omega
  have e2 : (2 : ℂ) ^ k = 2 ^ b.k * 2 ^ (k - b.k) := by rw [← pow_add]; congr 1; omega
  have n0 : (2 : ℂ) ^ k ≠ 0 := pow_ne_zero _ two_ne_zero
  have n1 : (2 : ℂ) ^ a.k ≠ 0 := pow_ne_zero _ two_ne_zero
  have n2 : (2 : ℂ) ^ b.k ≠ 0 := pow_ne_zero _ two_ne_zero
  rw [div_add_div _ _ n1 n2, div_eq_div_iff n0 (mul_ne_zero n1 n2)]
  push_cast
  linear_combination (-((a.re : ℂ) + a.im * I) * 2 ^ b.k) * e1 + (-((b.re : ℂ) + b.im * I) * 2 ^ a.k) * e2

theorem val_mul (a b : GD) : val (a * b) = val a * val b := by
  show val (mul a b) = _
  unfold mul
  rw [val_mk']
  unfold val
  rw [pow_add, div_mul_div_comm]
  congr 1
  push_cast
  linear_combination (-((a.im : ℂ) * b.im)) * I_sq

theorem dyadic_val (k : Nat) (num : Int) :
    ((dyadic k num).1 : ℝ) / 2 ^ (dyadic k num).2 = (num : ℝ) / 2 ^ k := by
  induction k generalizing num with
  | zero => simp [dyadic]
  | succ k ih =>
    unfold dyadic
    split
    · rw [ih]
      obtain ⟨r, rfl⟩ : ∃ r, num = 2 * r := ⟨num / 2, by omega⟩
      have hr : 2 * r / 2 = r := by omega
      rw [hr, pow_succ]
      push_cast
      field_simp
    · rfl

/-- `normSq` is `|val a|²` as an exact dyadic rational. -/
theorem normSq_val (a : GD) : ((normSq a).1 : ℝ) / 2 ^ (normSq a).2 = Complex.normSq (val a) := by
  unfold normSq
  rw [dyadic_val]
  unfold val
  rw [map_div₀, map_pow]
  have h2 : Complex.normSq (2 : ℂ) = 2 ^ 2 := by
    rw [show (2 : ℂ) = ((2 : ℝ) : ℂ) by norm_cast, Complex.normSq_ofReal]; ring
  have hn : Complex.normSq ((a.re : ℂ) + (a.im : ℂ) * I) = (a.re : ℝ) * a.re + (a.im : ℝ) * a.im := by
    have := Complex.normSq_add_mul_I (a.re : ℝ) (a.im : ℝ)
    push_cast at this
    rw [this]; ring
  rw [h2, hn, ← pow_mul]
  push_cast
  rfl

end GD

/-! ### transport of the loop nest along a homomorphism -/

section Map
variable {K L : Type} [Add K] [Mul K] [Zero K] [Add L] [Mul L] [Zero L]

theorem applyGate_map (f : K → L) (h0 : f 0 = 0) (ha : ∀ x y, f (x + y) = f x + f y)
    (hm : ∀ x y, f (x * y) = f x * f y) (U : Nat → Nat → K) (qs : List Nat) (v : Nat → K) (i : Nat) :
    f (applyGate U qs v i) = applyGate (fun r c => f (U r c)) qs (fun j => f (v j)) i := by
  unfold applyGate
  rw [← h0]
  generalize (0 : K) = acc
  induction List.range (2 ^ qs.length) generalizing acc with
  | nil => rfl
  | cons c l ih => rw [List.foldl_cons, List.foldl_cons, ih, ha, hm]

/-- Map the scalars of a gate list. -/
def mapGates (f : K → L) (gates : List (Option (Nat → Nat → K) × List Nat)) :
    List (Option (Nat → Nat → L) × List Nat) :=
  gates.map (fun g => (g.1.map (fun U r c => f (U r c)), g.2))

theorem runGatesFn_map [One K] [One L] (f : K → L) (h0 : f 0 = 0) (h1 : f 1 = 1)
    (ha : ∀ x y, f (x + y) = f x + f y) (hm : ∀ x y, f (x * y) = f x * f y)
    (gates : List (Option (Nat → Nat → K) × List Nat)) (i : Nat) :
    f (runGatesFn gates i) = runGatesFn (mapGates f gates) i := by
  unfold runGatesFn
  have he : ∀ j, f ((e0 : Nat → K) j) = (e0 : Nat → L) j := by
    intro j; unfold e0; split <;> assumption
  generalize (e0 : Nat → K) = v, (e0 : Nat → L) = w at he
  induction gates generalizing v w i with
  | nil => exact he i
  | cons g gs ih =>
    obtain ⟨U?, qs⟩ := g
    cases U? with
    | none => exact ih i v w he
    | some U =>
      simp only [mapGates, List.map_cons, List.foldl_cons, Option.map_some]
      apply ih
      intro j
      rw [applyGate_map f h0 ha hm]
      congr 1
      funext j'
      exact he j'

end Map

end Jaqal.Emulator
