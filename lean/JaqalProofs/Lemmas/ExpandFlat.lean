import JaqalProofs.Lemmas.BuiltWellFormedFull
/-!
# `expand_macros` of a filled circuit is flat and typed

`expand_flat : PreC c → expandMacros false c = .ok x → FlatT x = true` — for a circuit `c` as `fill_in_let` returns it
(`PreC`: gate statements match their definitions and are validated against them; every value is constant-free and typed, the
parameters occurring in a macro body are the macro's own, none occurs in the body of the circuit; loop counts are ints or such
parameters and loop bodies are blocks) the expansion `x` satisfies `FlatT` (`Lemmas/RunModelExec.lean`), the hypothesis of the
class lemmas of the executing stage.

The induction follows `replStmt_good` / `replaceGate_good` / `expStmt_good` of `Lemmas/ExpandMacrosSyn.lean`; the invariant of a
call is: its arguments are closed typed values, named after the parameters of the definition, and fit them.
-/
namespace Jaqal.RunModel
open Jaqal Jaqal.Builder Jaqal.FillIn Jaqal.ExpandMacros

/-! ### Values with parameters in scope -/

def inP (P : List String) : Val → Bool
  | .param n _ => decide (n ∈ P)
  | _ => false

/-- a value of a filled circuit whose parameters are among `P` -/
def ValP (P : List String) : Val → Bool
  | .int _ => true
  | .flt _ => true
  | .param n _ => decide (n ∈ P)
  | .qubit _ src idx => (RegL src || inP P src) && (isIntL idx || inP P idx)
  | v => RegL v

/-- a loop count of a filled circuit -/
def CntP (P : List String) : Val → Bool
  | .int _ => true
  | .param n _ => decide (n ∈ P)
  | _ => false

theorem RegL_argT {v : Val} (h : RegL v = true) : argT v = true := by
  have := RegL_RegT v h
  cases v <;> simp [RegL] at h <;> simpa [argT] using this

theorem ValP_nil_argT {v : Val} (h : ValP [] v = true) : argT v = true := by
  cases v with
  | int _ => rfl
  | flt _ => rfl
  | param n k => simp [ValP] at h
  | qubit n s i =>
    simp only [ValP, Bool.and_eq_true, Bool.or_eq_true] at h
    have hs : RegL s = true := by
      rcases h.1 with h1 | h1
      · exact h1
      · cases s <;> simp [inP] at h1
    have hi : isIntL i = true := by
      rcases h.2 with h1 | h1
      · exact h1
      · cases i <;> simp [inP] at h1
    simp [argT, RegL_RegT s hs, isIntL_intC hi]
  | none => simp [ValP, RegL] at h
  | str _ => simp [ValP, RegL] at h
  | const _ _ => simp [ValP, RegL] at h
  | regF n s => exact RegL_argT (by simpa [ValP] using h)
  | regA n s => exact RegL_argT (by simpa [ValP] using h)
  | regS n s a b c => exact RegL_argT (by simpa [ValP] using h)

/-- a closed typed value that can be indexed is a well-typed register -/
theorem argT_arrayLike {v : Val} (h : argT v = true) (ha : isArrayLike v = true) : RegT v = true := by
  cases v <;> simp [isArrayLike] at ha <;> first | (simpa [argT] using h) | (simp [argT, RegT] at h)

theorem substVal_param_in {P : List String} {args : List (String × Val)} (hargs : ∀ e ∈ args, argT e.2 = true)
    (hcov : ∀ p ∈ P, ∃ a, lookupArg args p = some a) {v w : Val} (hv : inP P v = true) (h : substVal args v = .ok w) :
    argT w = true := by
  cases v <;> simp [inP] at hv
  rename_i n k
  obtain ⟨a, ha⟩ := hcov n hv
  simp only [substVal, ha] at h
  split at h
  · cases h
    obtain ⟨e, he, rfl⟩ := lookupArg_mem ha
    exact hargs e he
  · cases h

/-- `NamedQubit.__init__`'s checks over a register, for an index that is not an annotated value: the index is a number -/
theorem checkQubit_num {s idx : Val} (hs : RegT s = true) (hia : avKind? idx = none) (h : checkQubit s idx = .ok ()) :
    (∃ k, idx = .int k) ∨ ∃ d, idx = .flt d ∧ d.isIntegral = true := by
  have hsa : avKind? s = none := by cases s <;> simp [RegT] at hs <;> rfl
  unfold checkQubit at h
  split at h
  · cases h
  · rw [hia, hsa] at h
    simp only [] at h
    cases idx with
    | int k => exact Or.inl ⟨k, rfl⟩
    | flt d =>
      simp only [] at h
      split at h
      · rename_i hd; exact Or.inr ⟨d, rfl, hd⟩
      · cases h
    | _ => cases h

/-- the index of an accepted `array[filter_float(index)]` over a register, when the index is a closed typed value: an int -/
theorem checkQubit_closed {s i : Val} (hs : RegT s = true) (hi : argT i = true)
    (h : checkQubit s (filterFloat i) = .ok ()) : isIntL (filterFloat i) = true := by
  have hia : avKind? (filterFloat i) = none := by
    cases i <;> simp [argT, RegT] at hi <;> first | rfl | (simp only [filterFloat]; split <;> rfl)
  rcases checkQubit_num hs hia h with ⟨k, hk⟩ | ⟨d, hd, hint⟩
  · rw [hk]; rfl
  · exfalso
    cases i <;> simp [filterFloat] at hd
    rename_i d'
    split at hd
    · cases hd
    · rename_i hn
      cases hd
      exact hn hint

theorem getItem_closed {s i w : Val} (hs : RegT s = true) (hi : argT i = true)
    (h : ExpandMacros.getItem s (filterFloat i) = .ok w) : argT w = true := by
  have key : ∀ nm : String, (do
      checkQubit s (filterFloat i)
      let t ← strIndex (filterFloat i)
      pure (Val.qubit (nm ++ "[" ++ t ++ "]") s (filterFloat i)) : M Val) = .ok w → argT w = true := by
    intro nm hh
    obtain ⟨u, hu, hh⟩ := bind_ok hh
    obtain ⟨t, _, hh⟩ := bind_ok hh
    cases hh
    have := checkQubit_closed hs hi (by cases u; exact hu)
    simp [argT, hs, isIntL_intC this]
  unfold ExpandMacros.getItem at h
  cases s <;> simp [RegT] at hs <;> simp only [Val.name?] at h <;> exact key _ h

/-- **substitution**: the value of a macro body with the call's closed typed arguments written in is a closed typed value -/
theorem substVal_typed {P : List String} {args : List (String × Val)} (hargs : ∀ e ∈ args, argT e.2 = true)
    (hcov : ∀ p ∈ P, ∃ a, lookupArg args p = some a) {v w : Val} (hv : ValP P v = true) (h : substVal args v = .ok w) :
    argT w = true := by
  cases v with
  | int _ => simp only [substVal, pure, Except.pure] at h; cases h; rfl
  | flt _ => simp only [substVal, pure, Except.pure] at h; cases h; rfl
  | param n k => exact substVal_param_in hargs hcov (by simpa [ValP, inP] using hv) h
  | none => simp [ValP, RegL] at hv
  | str _ => simp [ValP, RegL] at hv
  | const _ _ => simp [ValP, RegL] at hv
  | regF n s => simp only [substVal, pure, Except.pure] at h; cases h; exact RegL_argT (by simpa [ValP] using hv)
  | regA n s => simp only [substVal, pure, Except.pure] at h; cases h; exact RegL_argT (by simpa [ValP] using hv)
  | regS n s a b c => simp only [substVal, pure, Except.pure] at h; cases h; exact RegL_argT (by simpa [ValP] using hv)
  | qubit nm src idx =>
    simp only [ValP, Bool.and_eq_true, Bool.or_eq_true] at hv
    simp only [substVal] at h
    obtain ⟨s, hs, h⟩ := bind_ok h
    split at h
    · cases h
    · rename_i harr
      have harr' : isArrayLike s = true := by simpa using harr
      obtain ⟨i, hi, h⟩ := bind_ok h
      -- the substituted source is a well-typed register
      have hsT : RegT s = true := by
        rcases hv.1 with h1 | h1
        · rw [substVal_reg (RegL_isReg h1)] at hs
          cases hs; exact RegL_RegT _ h1
        · exact argT_arrayLike (substVal_param_in hargs hcov h1 hs) harr'
      have hiT : argT i = true := by
        rcases hv.2 with h1 | h1
        · cases idx <;> simp [isIntL] at h1
          simp only [substVal, pure, Except.pure] at hi; cases hi; rfl
        · exact substVal_param_in hargs hcov h1 hi
      exact getItem_closed hsT hiT h

theorem substArgs_typed {P : List String} {args : List (String × Val)} (hargs : ∀ e ∈ args, argT e.2 = true)
    (hcov : ∀ p ∈ P, ∃ a, lookupArg args p = some a) : ∀ (gargs new : List (String × Val)),
    (∀ a ∈ gargs, ValP P a.2 = true) → substArgs args gargs = .ok new →
    new.map (·.1) = gargs.map (·.1) ∧ ∀ a ∈ new, argT a.2 = true
  | [], new, _, h => by simp only [substArgs, pure, Except.pure] at h; cases h; exact ⟨rfl, fun a ha => by cases ha⟩
  | (n, v) :: rest, new, hv, h => by
    simp only [substArgs] at h
    obtain ⟨v', hv', h⟩ := bind_ok h
    obtain ⟨rest', hr, h⟩ := bind_ok h
    cases h
    obtain ⟨h1, h2⟩ := substArgs_typed hargs hcov rest rest' (fun a ha => hv a (List.mem_cons_of_mem _ ha)) hr
    refine ⟨by simp [h1], ?_⟩
    intro a ha
    rcases List.mem_cons.1 ha with rfl | ha
    · exact substVal_typed hargs hcov (hv (n, v) (List.mem_cons_self ..)) hv'
    · exact h2 a ha

/-! ### Validated arguments fit the kinds the emulator looks at -/

theorem validate_closed {k : Kind} {v : Val} (hv : argT v = true) (h : GateDef.validate k v = .ok ()) :
    (k = .qubit ∨ k = .register) → (Resolve.isRegister v = true ∨ ∃ n s i, v = .qubit n s i) := by
  have hav : ∀ ks, GateDef.avKindIn v ks = false := by
    intro ks
    cases v <;> simp [argT, RegT] at hv <;> rfl
  intro hk
  rcases hk with rfl | rfl
  · simp only [GateDef.validate, hav, Bool.false_eq_true, if_false] at h
    split at h
    · rename_i hq
      cases v <;> simp [GateDef.isNamedQubit] at hq
      exact Or.inr ⟨_, _, _, rfl⟩
    · cases h
  · simp only [GateDef.validate, hav, Bool.false_eq_true, if_false] at h
    split at h
    · rename_i hq
      left
      cases v <;> simp [GateDef.isRegister] at hq <;> rfl
    · cases h

theorem odGet?_cons_ne {n n' : String} {v : Val} {as : List (String × Val)} (h : n ≠ n') :
    GateDef.odGet? ((n, v) :: as) n' = GateDef.odGet? as n' := by
  simp [GateDef.odGet?, h]

theorem validateAll_drop {n : String} {v : Val} {as : List (String × Val)} : ∀ (ps : List (String × Kind)),
    n ∉ ps.map (·.1) → GateDef.validateAll ps ((n, v) :: as) = GateDef.validateAll ps as
  | [], _ => rfl
  | (n', k) :: ps, h => by
    simp only [List.map_cons, List.mem_cons, not_or] at h
    simp only [GateDef.validateAll, odGet?_cons_ne h.1, validateAll_drop ps h.2]

/-- arguments named after the parameters, in order, that pass the validation: wherever the emulator resolves an argument
(kinds QUBIT and REGISTER) there is a qubit or a register -/
theorem validateAll_kindsFit : ∀ (ps : List (String × Kind)) (as : List (String × Val)),
    as.map (·.1) = ps.map (·.1) → (ps.map (·.1)).Nodup → (∀ a ∈ as, argT a.2 = true) →
    GateDef.validateAll ps as = .ok () → kindsFit ps as = true
  | [], as, _, _, _, _ => by cases as <;> rfl
  | (n, k) :: ps, [], hn, _, _, _ => by simp at hn
  | (n, k) :: ps, (n', v) :: as, hn, hnd, hargs, h => by
    simp only [List.map_cons, List.cons.injEq] at hn
    obtain ⟨rfl, hn'⟩ := hn
    simp only [List.map_cons, List.nodup_cons] at hnd
    simp only [GateDef.validateAll, GateDef.odGet?, if_true] at h
    obtain ⟨u, hu, h⟩ := bind_ok h
    rw [validateAll_drop ps hnd.1] at h
    have hrest := validateAll_kindsFit ps as hn' hnd.2 (fun a ha => hargs a (List.mem_cons_of_mem _ ha)) h
    have hv := hargs (n', v) (List.mem_cons_self ..)
    have hfit := validate_closed hv (by cases u; exact hu)
    simp only [kindsFit, Bool.and_eq_true, hrest, and_true]
    cases k with
    | qubit =>
      rcases hfit (Or.inl rfl) with h1 | ⟨a, b, c, rfl⟩
      · simp [h1]
      · simp
    | register =>
      rcases hfit (Or.inr rfl) with h1 | ⟨a, b, c, rfl⟩
      · simp [h1]
      · simp
    | int => rfl
    | float => rfl
    | none => rfl

/-! ### Flat typed statements -/

mutual
  /-- the statement-level content of `FlatT` -/
  def FS (nat : List GateDef) : Stmt → Prop
    | .gate n gd args =>
      gd.tag ≠ .macro ∧ (∀ p ∈ UsedQubits.usedParams gd, (args.lookup p).isSome = true) ∧ (∀ a ∈ args, argT a.2 = true) ∧
        emuFit nat n args = true
    | .block _ _ _ body => FSL nat body
    | .loop c b => (∃ k, c = .int k) ∧ (∃ par sub it bb, b = .block par sub it bb) ∧ FS nat b
  def FSL (nat : List GateDef) : List Stmt → Prop
    | [] => True
    | s :: r => FS nat s ∧ FSL nat r
end

theorem FSL_append (nat : List GateDef) : ∀ (a b : List Stmt), FSL nat a → FSL nat b → FSL nat (a ++ b)
  | [], _, _, hb => hb
  | s :: r, b, ha, hb => ⟨ha.1, FSL_append nat r b ha.2 hb⟩

theorem FS_spliceInto (nat : List GateDef) (par : Bool) (s : Stmt) (r : List Stmt) (hs : FS nat s) (hr : FSL nat r) :
    FSL nat (spliceInto par s r) := by
  unfold spliceInto
  split
  · split
    · simp only [FS] at hs
      exact FSL_append nat _ _ hs hr
    · exact ⟨hs, hr⟩
  · exact ⟨hs, hr⟩

/-! ### What is required of the filled circuit -/

/-- a gate statement and its definition, against the macro table and the native gates -/
structure GateStatic (nat : List GateDef) (ms : List Macro) (n : String) (gd : GateDef) : Prop where
  name : n = gd.name
  nodup : (gd.params.map (·.1)).Nodup
  mac : ∀ m, findMacro ms n = some m → gd.params = m.params
  prim : findMacro ms n = none → gd.tag ≠ .macro ∧ ∀ gd', nat.find? (·.name == n) = some gd' → gd' = gd

mutual
  /-- a statement of a filled circuit with the parameters `P` in scope -/
  def PreS (nat : List GateDef) (ms : List Macro) (P : List String) : Stmt → Prop
    | .gate n gd args =>
      GateStatic nat ms n gd ∧ args.map (·.1) = gd.params.map (·.1) ∧ (∀ a ∈ args, ValP P a.2 = true) ∧
        GateDef.validateAll gd.params args = .ok ()
    | .block _ _ _ body => PreSL nat ms P body
    | .loop c b => CntP P c = true ∧ (∃ par sub it bb, b = .block par sub it bb) ∧ PreS nat ms P b
  def PreSL (nat : List GateDef) (ms : List Macro) (P : List String) : List Stmt → Prop
    | [] => True
    | s :: r => PreS nat ms P s ∧ PreSL nat ms P r
end

/-- the property of `call` (= `replace_gate`) the induction needs: a validated call with closed typed arguments expands to
flat typed statements -/
def CallFlat (nat : List GateDef) (ms : List Macro) (call : Stmt → M Stmt) : Prop :=
  ∀ (n : String) (gd : GateDef) (a : List (String × Val)) (g' : Stmt), GateStatic nat ms n gd →
    a.map (·.1) = gd.params.map (·.1) → (∀ e ∈ a, argT e.2 = true) → GateDef.validateAll gd.params a = .ok () →
    call (.gate n gd a) = .ok g' → FS nat g'

theorem lookup_isSome_of_names {args : List (String × Val)} {p : String} (h : p ∈ args.map (·.1)) :
    (args.lookup p).isSome = true := by
  induction args with
  | nil => simp at h
  | cons x xs ih =>
    obtain ⟨k, v⟩ := x
    simp only [List.lookup]
    by_cases hk : (p == k) = true
    · simp [hk]
    · simp only [hk]
      simp only [List.map_cons, List.mem_cons] at h
      rcases h with h | h
      · exact absurd (by simpa using h) hk
      · exact ih h

theorem lookupArg_of_names {args : List (String × Val)} {p : String} (h : p ∈ args.map (·.1)) :
    ∃ a, lookupArg args p = some a := by
  unfold lookupArg
  cases hf : args.find? (fun x => x.1 == p) with
  | some e => exact ⟨e.2, rfl⟩
  | none =>
    exfalso
    obtain ⟨e, he, rfl⟩ := List.mem_map.1 h
    have := List.find?_eq_none.1 hf e he
    simp at this

/-- a gate statement that is not a macro call, with closed typed validated arguments, is flat -/
theorem gate_flat {nat : List GateDef} {ms : List Macro} {n : String} {gd : GateDef} {a : List (String × Val)}
    (hst : GateStatic nat ms n gd) (hn : a.map (·.1) = gd.params.map (·.1)) (ha : ∀ e ∈ a, argT e.2 = true)
    (hval : GateDef.validateAll gd.params a = .ok ()) (hf : findMacro ms n = none) : FS nat (.gate n gd a) := by
  obtain ⟨htag, hnat⟩ := hst.prim hf
  refine ⟨htag, ?_, ha, ?_⟩
  · intro p hp
    apply lookup_isSome_of_names
    rw [hn]
    unfold UsedQubits.usedParams at hp
    obtain ⟨q, hq, rfl⟩ := List.mem_map.1 hp
    exact List.mem_map_of_mem (List.mem_filter.1 hq).1
  · unfold emuFit
    cases hfd : nat.find? (·.name == n) with
    | none => rfl
    | some gd' =>
      have := hnat gd' hfd
      subst this
      simp only []
      cases hu : gd'.hasUnitary with
      | false => rfl
      | true => simpa using validateAll_kindsFit gd'.params a hn hst.nodup ha hval

section flat
variable (nat : List GateDef) (ms : List Macro)

mutual
  theorem replStmt_flat (call : Stmt → M Stmt) (hc : CallFlat nat ms call) (P : List String)
      (args : List (String × Val)) (hargs : ∀ e ∈ args, argT e.2 = true)
      (hcov : ∀ p ∈ P, ∃ a, lookupArg args p = some a) :
      ∀ (s s' : Stmt), PreS nat ms P s → replStmt call args s = .ok s' → FS nat s'
    | .gate n gd gargs, s', hp, h => by
      obtain ⟨hst, hn, hv, _⟩ := hp
      simp only [replStmt] at h
      obtain ⟨new, hnew, h⟩ := bind_ok h
      obtain ⟨g, hg, h⟩ := bind_ok h
      obtain ⟨hnn, hna⟩ := substArgs_typed hargs hcov gargs new hv hnew
      have hnames : new.map (·.1) = gd.params.map (·.1) := by rw [hnn, hn]
      rw [callKw_eq_finish hnames hst.nodup] at hg
      unfold GateDef.finish at hg
      split at hg
      · simp [throw, throwThe, MonadExceptOf.throw, bind, Except.bind] at hg
      · obtain ⟨u, hu, hg⟩ := bind_ok hg
        cases hg
        refine hc gd.name gd new s' ?_ hnames hna (by cases u; exact hu) h
        have := hst.name
        subst this
        exact hst
    | .loop c body, s', hp, h => by
      obtain ⟨hcnt, hblk, hb⟩ := hp
      simp only [replStmt] at h
      obtain ⟨c', hc', h⟩ := bind_ok h
      obtain ⟨b', hb', h⟩ := bind_ok h
      obtain ⟨rfl, hbc⟩ := mkLoop_ok h
      have hbf := replStmt_flat call hc P args hargs hcov body b' hb hb'
      -- the substituted count is an int: `_validate_count` accepted a closed typed value
      have hcT : argT c' = true := by
        cases c <;> simp [CntP] at hcnt
        · simp only [substVal, pure, Except.pure] at hc'; cases hc'; rfl
        · exact substVal_param_in hargs hcov (by simpa [inP] using hcnt) hc'
      have hint : ∃ k, c' = .int k := by
        cases c' <;> simp [badCount] at hbc <;> first | exact ⟨_, rfl⟩ | (simp [argT, RegT] at hcT)
      -- the body is a block again
      obtain ⟨par, sub, it, bb, rfl⟩ := hblk
      simp only [replStmt] at hb'
      obtain ⟨stmts, _, hb'⟩ := bind_ok hb'
      obtain ⟨it', _, hb'⟩ := bind_ok hb'
      have := mkBlock_ok hb'
      exact ⟨hint, ⟨_, _, _, _, this⟩, hbf⟩
    | .block par sub it body, s', hp, h => by
      simp only [PreS] at hp
      simp only [replStmt] at h
      obtain ⟨stmts, hs, h⟩ := bind_ok h
      obtain ⟨it', _, h⟩ := bind_ok h
      rw [mkBlock_ok h]
      exact replList_flat call hc P args hargs hcov par body stmts hp hs
  theorem replList_flat (call : Stmt → M Stmt) (hc : CallFlat nat ms call) (P : List String)
      (args : List (String × Val)) (hargs : ∀ e ∈ args, argT e.2 = true)
      (hcov : ∀ p ∈ P, ∃ a, lookupArg args p = some a) (par : Bool) :
      ∀ (l l' : List Stmt), PreSL nat ms P l → replList call args par l = .ok l' → FSL nat l'
    | [], l', _, h => by simp only [replList, pure, Except.pure] at h; cases h; trivial
    | s :: r, l', hp, h => by
      simp only [replList] at h
      obtain ⟨s', hs', h⟩ := bind_ok h
      obtain ⟨r', hr', h⟩ := bind_ok h
      cases h
      exact FS_spliceInto nat par s' r' (replStmt_flat call hc P args hargs hcov s s' hp.1 hs')
        (replList_flat call hc P args hargs hcov par r r' hp.2 hr')
end

/-- `replace_gate` with any fuel, given that every macro body is a statement of a filled circuit in the scope of the macro's
own parameters -/
theorem replaceGate_flat (hms : ∀ m ∈ ms, PreS nat ms (m.params.map (·.1)) m.body) :
    ∀ (fuel : Nat), CallFlat nat ms (replaceGate ms fuel) := by
  intro fuel
  induction fuel with
  | zero =>
    intro n gd a g' hst hn ha hval h
    simp only [replaceGate] at h
    cases hf : findMacro ms n with
    | none => rw [hf] at h; simp only [pure, Except.pure] at h; cases h; exact gate_flat hst hn ha hval hf
    | some m => rw [hf] at h; simp only at h; split at h <;> cases h
  | succ f ih =>
    intro n gd a g' hst hn ha hval h
    simp only [replaceGate] at h
    cases hf : findMacro ms n with
    | none => rw [hf] at h; simp only [pure, Except.pure] at h; cases h; exact gate_flat hst hn ha hval hf
    | some m =>
      rw [hf] at h; simp only at h
      split at h
      · cases h
      · have hmem : m ∈ ms := List.mem_of_find?_eq_some hf
        refine replStmt_flat nat ms (replaceGate ms f) ih (m.params.map (·.1)) a ha ?_ m.body g' (hms m hmem) h
        intro p hp
        apply lookupArg_of_names
        rw [hn, hst.mac m hf]
        exact hp

mutual
  theorem expStmt_flat (call : Stmt → M Stmt) (hc : CallFlat nat ms call) :
      ∀ (s s' : Stmt), PreS nat ms [] s → expStmt call s = .ok s' → FS nat s'
    | .gate n gd gargs, s', hp, h => by
      obtain ⟨hst, hn, hv, hval⟩ := hp
      simp only [expStmt] at h
      exact hc n gd gargs s' hst hn (fun e he => ValP_nil_argT (hv e he)) hval h
    | .loop c body, s', hp, h => by
      obtain ⟨hcnt, hblk, hb⟩ := hp
      simp only [expStmt] at h
      obtain ⟨b', hb', h⟩ := bind_ok h
      obtain ⟨rfl, _⟩ := mkLoop_ok h
      have hbf := expStmt_flat call hc body b' hb hb'
      have hint : ∃ k, c = .int k := by cases c <;> simp [CntP] at hcnt; exact ⟨_, rfl⟩
      obtain ⟨par, sub, it, bb, rfl⟩ := hblk
      simp only [expStmt] at hb'
      obtain ⟨stmts, _, hb'⟩ := bind_ok hb'
      exact ⟨hint, ⟨_, _, _, _, mkBlock_ok hb'⟩, hbf⟩
    | .block par sub it body, s', hp, h => by
      simp only [PreS] at hp
      simp only [expStmt] at h
      obtain ⟨stmts, hs, h⟩ := bind_ok h
      rw [mkBlock_ok h]
      exact expList_flat call hc par body stmts hp hs
  theorem expList_flat (call : Stmt → M Stmt) (hc : CallFlat nat ms call) (par : Bool) :
      ∀ (l l' : List Stmt), PreSL nat ms [] l → expList call par l = .ok l' → FSL nat l'
    | [], l', _, h => by simp only [expList, pure, Except.pure] at h; cases h; trivial
    | s :: r, l', hp, h => by
      simp only [expList] at h
      obtain ⟨s', hs', h⟩ := bind_ok h
      obtain ⟨r', hr', h⟩ := bind_ok h
      cases h
      exact FS_spliceInto nat par s' r' (expStmt_flat call hc s s' hp.1 hs') (expList_flat call hc par r r' hp.2 hr')
end

end flat

/-! ### From `FS` to the components of `FlatT` -/

mutual
  theorem FS_parts (nat : List GateDef) : ∀ (s : Stmt), FS nat s →
      skelT s = true ∧ usedT s = true ∧ ∀ g ∈ gatesOf s, emuFit nat g.1 g.2.2 = true
    | .gate n gd args, h => by
      obtain ⟨h1, h2, h3, h4⟩ := h
      refine ⟨rfl, ?_, ?_⟩
      · simp only [usedT, Bool.and_eq_true, List.all_eq_true, bne_iff_ne, ne_eq]
        exact ⟨⟨h1, h2⟩, h3⟩
      · intro g hg
        simp only [gatesOf, List.mem_singleton] at hg
        subst hg; exact h4
    | .block par sub it body, h => by
      simp only [FS] at h
      simpa only [skelT, usedT, gatesOf] using FSL_parts nat body h
    | .loop c b, h => by
      obtain ⟨⟨k, rfl⟩, ⟨par, sub, it, bb, rfl⟩, hb⟩ := h
      have := FS_parts nat _ hb
      simpa only [skelT, usedT, gatesOf] using this
  theorem FSL_parts (nat : List GateDef) : ∀ (l : List Stmt), FSL nat l →
      skelTList l = true ∧ usedTList l = true ∧ ∀ g ∈ gatesOfList l, emuFit nat g.1 g.2.2 = true
    | [], _ => ⟨rfl, rfl, fun g hg => by simp [gatesOfList] at hg⟩
    | s :: r, h => by
      obtain ⟨a1, a2, a3⟩ := FS_parts nat s h.1
      obtain ⟨b1, b2, b3⟩ := FSL_parts nat r h.2
      refine ⟨by simp [skelTList, a1, b1], by simp [usedTList, a2, b2], ?_⟩
      intro g hg
      simp only [gatesOfList, List.mem_append] at hg
      rcases hg with hg | hg
      · exact a3 g hg
      · exact b3 g hg
end

/-! ### The theorem -/

/-- what is required of the circuit `fill_in_let` returns -/
structure PreC (c : Circuit) : Prop where
  body : PreS c.natives c.macros [] c.body
  macros : ∀ m ∈ c.macros, PreS c.natives c.macros (m.params.map (·.1)) m.body
  regs : regsT c.registers = true

/-- **`expand_flat`** -/
theorem expand_flat {c x : Circuit} (hp : PreC c) (h : expandMacros false c = .ok x) : FlatT x = true := by
  unfold expandMacros at h
  obtain ⟨body, hbody, h⟩ := bind_ok h
  obtain ⟨stmts, hstmts, h⟩ := bind_ok h
  simp only [pure, Except.pure] at h
  cases h
  have hcall := replaceGate_flat c.natives c.macros hp.macros c.macros.length
  have hfs := expStmt_flat c.natives c.macros _ hcall c.body body hp.body hbody
  -- the statements of the expanded body
  have hiter : ∀ (s : Stmt) (l : List Stmt), FS c.natives s → iterStmts s = .ok l → FSL c.natives l := by
    intro s
    induction s using Stmt.rec (motive_2 := fun _ => True) with
    | gate _ _ _ => intro l _ hl; cases hl
    | block _ _ _ b _ => intro l hb' hl; simp only [iterStmts, pure, Except.pure] at hl; cases hl; exact hb'
    | loop _ b ih => intro l hb' hl; simp only [iterStmts] at hl; exact ih l hb'.2.2 hl
    | nil => trivial
    | cons _ _ _ _ => trivial
  have hl : FSL c.natives stmts := by
    cases body with
    | block par sub it b => simp only [statementsOf, pure, Except.pure] at hstmts; cases hstmts; exact hfs
    | gate _ _ _ => cases hstmts
    | loop cnt b => simp only [statementsOf] at hstmts; exact hiter b stmts hfs.2.2 hstmts
  obtain ⟨h1, h2, h3⟩ := FSL_parts c.natives stmts hl
  simp only [FlatT, Bool.and_eq_true, List.all_eq_true, skelT, usedT, gatesOf]
  exact ⟨⟨⟨⟨trivial, h1⟩, h2⟩, hp.regs⟩, h3⟩

end Jaqal.RunModel

#print axioms Jaqal.RunModel.expand_flat
