import JaqalProofs.Lemmas.ParsedLegal
import JaqalProofs.Lemmas.ExpandFlat
/-!
# `expand_macros` keeps a built circuit typed (`TypedC`)

`expandMacros_typed : WellFormed c → TypedC c → ScopedC c → expandMacros p c = .ok c' → TypedC c'` — for the circuits
`Builder.build` makes of parser output (before `fill_in_let`: let constants still in place).  This is the link the flagged
entry point of the parser needs: `parse_jaqal_string(…, expand_macro=True, expand_let=True)` runs
`expand_macros(preserve_definitions=True)` FIRST and `fill_in_let` on its result, and the class theorem of `fill_in_let`
(`C05_total_class`) is stated for typed circuits.

The induction follows `Lemmas/ExpandFlat.lean` (which does the same for the constant-free circuits `fill_in_let` returns):
the invariant of a call is that its arguments are CLOSED typed values (`ClT`: no parameter), named after the parameters of the
definition.  Closedness is what makes the index of a substituted qubit an int or an integer constant again: over a register the
checks of `NamedQubit.__init__` refuse a float index, over a parameter they would not.
-/
namespace Jaqal.Passes
open Jaqal Jaqal.Builder Jaqal.FillIn Jaqal.ExpandMacros Jaqal.RunModel

/-- a closed typed value of a built circuit: `InT` without parameters -/
def ClT : Val → Bool
  | .param _ _ => false
  | .qubit _ src idx => RegT src && isIntC idx
  | v => InT v

theorem ClT_InT {v : Val} (h : ClT v = true) : InT v = true := by
  cases v with
  | param _ _ => simp [ClT] at h
  | qubit n s i =>
    simp only [ClT, Bool.and_eq_true] at h
    simp [InT, h.1, h.2]
  | _ => exact h

theorem RegT_isReg {v : Val} (h : RegT v = true) : ExpandMacros.isReg v = true := by
  cases v <;> simp [RegT] at h <;> rfl

/-- a typed value without a parameter in scope is closed -/
theorem clT_of {v : Val} (ht : InT v = true) (hp : ParIn noPar v = true) : ClT v = true := by
  cases v with
  | param _ _ => simp [ParIn, parOK, noPar] at hp
  | qubit n s i =>
    simp only [InT, Bool.and_eq_true, Bool.or_eq_true] at ht
    simp only [ParIn, Bool.and_eq_true] at hp
    have h1 : RegT s = true := by
      rcases ht.1 with h | h
      · exact h
      · cases s <;> simp [Builder.isParam] at h; simp [parOK, noPar] at hp
    have h2 : isIntC i = true := by
      rcases ht.2 with h | h
      · exact h
      · cases i <;> simp [Builder.isParam] at h; simp [parOK, noPar] at hp
    simp [ClT, h1, h2]
  | _ => exact ht

theorem clT_arrayLike {v : Val} (h : ClT v = true) (ha : isArrayLike v = true) : RegT v = true := by
  cases v <;> simp [isArrayLike] at ha <;> first | exact h | (simp [ClT] at h)

theorem substVal_param_cl {S : String → Bool} {args : List (String × Val)} (hargs : ∀ e ∈ args, ClT e.2 = true)
    (hcov : ∀ n, S n = true → ∃ a, lookupArg args n = some a) {n : String} {k : Kind} {w : Val} (hs : S n = true)
    (h : substVal args (.param n k) = .ok w) : ClT w = true := by
  obtain ⟨a, ha⟩ := hcov n hs
  simp only [substVal, ha] at h
  split at h
  · cases h
    obtain ⟨e, he, rfl⟩ := lookupArg_mem ha
    exact hargs e he
  · cases h

/-- the index of an accepted `array[filter_float(index)]` over a register, when the index is a closed typed value: an int or
an integer constant (a float constant has kind FLOAT and is refused, a non-integral float is refused) -/
theorem checkQubit_clT {s i : Val} (hs : RegT s = true) (hi : ClT i = true)
    (h : checkQubit s (filterFloat i) = .ok ()) : isIntC (filterFloat i) = true := by
  cases i with
  | int k => rfl
  | param _ _ => simp [ClT] at hi
  | const n x =>
    cases x with
    | int k => rfl
    | flt d =>
      exfalso
      have hsa : avKind? s = none := by cases s <;> simp [RegT] at hs <;> rfl
      replace h : checkQubit s (.const n (.flt d)) = .ok () := h
      unfold checkQubit at h
      split at h
      · cases h
      · simp only [avKind?, hsa, GateDef.constKind, isIndexLike, badIndexKind, Bool.not_true, Bool.false_eq_true,
          if_false, if_true] at h
        cases h
    | _ => simp [ClT, InT, RegT] at hi
  | flt d =>
    have hia : avKind? (filterFloat (.flt d)) = none := by simp only [filterFloat]; split <;> rfl
    rcases checkQubit_num hs hia h with ⟨k, hk⟩ | ⟨d', hd, hint⟩
    · rw [hk]; rfl
    · exfalso
      simp only [filterFloat] at hd
      split at hd
      · cases hd
      · rename_i hn
        cases hd
        exact hn hint
  | none => exfalso; rcases checkQubit_num hs rfl h with ⟨k, hk⟩ | ⟨d', hd, _⟩ <;> simp [filterFloat] at *
  | str _ => exfalso; rcases checkQubit_num hs rfl h with ⟨k, hk⟩ | ⟨d', hd, _⟩ <;> simp [filterFloat] at *
  | qubit _ _ _ => exfalso; rcases checkQubit_num hs rfl h with ⟨k, hk⟩ | ⟨d', hd, _⟩ <;> simp [filterFloat] at *
  | regF _ _ => exfalso; rcases checkQubit_num hs rfl h with ⟨k, hk⟩ | ⟨d', hd, _⟩ <;> simp [filterFloat] at *
  | regA _ _ => exfalso; rcases checkQubit_num hs rfl h with ⟨k, hk⟩ | ⟨d', hd, _⟩ <;> simp [filterFloat] at *
  | regS _ _ _ _ _ => exfalso; rcases checkQubit_num hs rfl h with ⟨k, hk⟩ | ⟨d', hd, _⟩ <;> simp [filterFloat] at *

theorem getItem_clT {s i w : Val} (hs : RegT s = true) (hi : ClT i = true)
    (h : ExpandMacros.getItem s (filterFloat i) = .ok w) : ClT w = true := by
  have key : ∀ nm : String, (do
      checkQubit s (filterFloat i)
      let t ← strIndex (filterFloat i)
      pure (Val.qubit (nm ++ "[" ++ t ++ "]") s (filterFloat i)) : M Val) = .ok w → ClT w = true := by
    intro nm hh
    obtain ⟨u, hu, hh⟩ := bind_ok hh
    obtain ⟨t, _, hh⟩ := bind_ok hh
    cases hh
    have := checkQubit_clT hs hi (by cases u; exact hu)
    simp [ClT, hs, this]
  unfold ExpandMacros.getItem at h
  cases s <;> simp [RegT] at hs <;> simp only [Val.name?] at h <;> exact key _ h

/-- **substitution**: a typed value of a macro body whose parameters are covered by the call's closed typed arguments becomes
a closed typed value -/
theorem substVal_clT {S : String → Bool} {args : List (String × Val)} (hargs : ∀ e ∈ args, ClT e.2 = true)
    (hcov : ∀ n, S n = true → ∃ a, lookupArg args n = some a) {v w : Val} (hv : InT v = true) (hp : ParIn S v = true)
    (h : substVal args v = .ok w) : ClT w = true := by
  cases v with
  | param n k => exact substVal_param_cl hargs hcov (by simpa [ParIn, parOK] using hp) h
  | qubit nm src idx =>
    simp only [InT, Bool.and_eq_true, Bool.or_eq_true] at hv
    simp only [ParIn, Bool.and_eq_true] at hp
    simp only [substVal] at h
    obtain ⟨s, hs, h⟩ := bind_ok h
    split at h
    · cases h
    · rename_i harr
      have harr' : isArrayLike s = true := by simpa using harr
      obtain ⟨i, hi, h⟩ := bind_ok h
      have hsT : RegT s = true := by
        rcases hv.1 with h1 | h1
        · rw [substVal_reg (RegT_isReg h1)] at hs
          cases hs; exact h1
        · cases src <;> simp [Builder.isParam] at h1
          exact clT_arrayLike (substVal_param_cl hargs hcov (by simpa [parOK] using hp.1) hs) harr'
      have hiT : ClT i = true := by
        rcases hv.2 with h1 | h1
        · cases idx with
          | int _ => simp only [substVal, pure, Except.pure] at hi; cases hi; rfl
          | const n x =>
            cases x <;> simp [isIntC] at h1
            simp only [substVal, pure, Except.pure] at hi; cases hi; rfl
          | _ => simp [isIntC] at h1
        · cases idx <;> simp [Builder.isParam] at h1
          exact substVal_param_cl hargs hcov (by simpa [parOK] using hp.2) hi
      exact getItem_clT hsT hiT h
  | int _ => simp only [substVal, pure, Except.pure] at h; cases h; exact hv
  | flt _ => simp only [substVal, pure, Except.pure] at h; cases h; exact hv
  | none => simp only [substVal, pure, Except.pure] at h; cases h; exact hv
  | str _ => simp only [substVal, pure, Except.pure] at h; cases h; exact hv
  | const _ _ => simp only [substVal, pure, Except.pure] at h; cases h; exact hv
  | regF _ _ => simp only [substVal, pure, Except.pure] at h; cases h; exact hv
  | regA _ _ => simp only [substVal, pure, Except.pure] at h; cases h; exact hv
  | regS _ _ _ _ _ => simp only [substVal, pure, Except.pure] at h; cases h; exact hv

theorem substArgs_clT {S : String → Bool} {args : List (String × Val)} (hargs : ∀ e ∈ args, ClT e.2 = true)
    (hcov : ∀ n, S n = true → ∃ a, lookupArg args n = some a) : ∀ (gargs new : List (String × Val)),
    (∀ a ∈ gargs, InT a.2 = true) → (∀ a ∈ gargs, ParIn S a.2 = true) → substArgs args gargs = .ok new →
    new.map (·.1) = gargs.map (·.1) ∧ ∀ a ∈ new, ClT a.2 = true
  | [], new, _, _, h => by simp only [substArgs, pure, Except.pure] at h; cases h; exact ⟨rfl, fun a ha => by cases ha⟩
  | (n, v) :: rest, new, hv, hp, h => by
    simp only [substArgs] at h
    obtain ⟨v', hv', h⟩ := bind_ok h
    obtain ⟨rest', hr, h⟩ := bind_ok h
    cases h
    obtain ⟨h1, h2⟩ := substArgs_clT hargs hcov rest rest' (fun a ha => hv a (List.mem_cons_of_mem _ ha))
      (fun a ha => hp a (List.mem_cons_of_mem _ ha)) hr
    refine ⟨by simp [h1], ?_⟩
    intro a ha
    rcases List.mem_cons.1 ha with rfl | ha
    · exact substVal_clT hargs hcov (hv (n, v) (List.mem_cons_self ..)) (hp (n, v) (List.mem_cons_self ..)) hv'
    · exact h2 a ha

/-- a count, substituted and accepted by `_validate_count`, is a count again (whether or not its parameter is bound) -/
theorem cnt_subst {args : List (String × Val)} (hargs : ∀ e ∈ args, ClT e.2 = true) {c c' : Val} (hc : CntIn c = true)
    (h : substVal args c = .ok c') (hb : badCount c' = false) : CntIn c' = true := by
  cases c with
  | int _ => simp only [substVal, pure, Except.pure] at h; cases h; rfl
  | const n x => simp only [substVal, pure, Except.pure] at h; cases h; exact hc
  | param n k =>
    simp only [substVal] at h
    split at h
    · rename_i a ha
      split at h
      · cases h
        obtain ⟨e, he, rfl⟩ := lookupArg_mem ha
        have hcl := hargs e he
        generalize e.2 = w at hcl hb
        cases w with
        | int _ => rfl
        | const n' x =>
          cases x with
          | int _ => rfl
          | flt d => simp [badCount, GateDef.constKind] at hb
          | _ => simp [ClT, InT, RegT] at hcl
        | param _ _ => simp [ClT] at hcl
        | _ => simp [badCount] at hb
      · cases h
    · simp only [pure, Except.pure] at h; cases h; rfl
  | _ => simp [CntIn, isIntC, Builder.isParam] at hc

theorem stmtsIn_append : ∀ (a b : List Stmt), StmtsIn a → StmtsIn b → StmtsIn (a ++ b)
  | [], _, _, hb => hb
  | s :: r, b, ha, hb => ⟨ha.1, stmtsIn_append r b ha.2 hb⟩

theorem stmtsIn_splice (par : Bool) (s : Stmt) (r : List Stmt) (hs : StmtIn s) (hr : StmtsIn r) :
    StmtsIn (spliceInto par s r) := by
  unfold spliceInto
  split
  · split
    · simp only [StmtIn] at hs
      exact stmtsIn_append _ _ hs.2 hr
    · exact ⟨hs, hr⟩
  · exact ⟨hs, hr⟩

/-- the static part of `wfGate` -/
structure GateS (ms : List Macro) (n : String) (gd : GateDef) : Prop where
  name : n = gd.name
  nodup : (gd.params.map (·.1)).Nodup
  mac : ∀ m, findMacro ms n = some m → gd.params = m.params

theorem wfGate_parts {ms : List Macro} {n : String} {gd : GateDef} {args : List (String × Val)}
    (h : wfGate ms n gd args = true) : GateS ms n gd ∧ args.map (·.1) = gd.params.map (·.1) := by
  simp only [wfGate, Bool.and_eq_true, beq_iff_eq, decide_eq_true_eq] at h
  obtain ⟨⟨⟨⟨h1, h2⟩, h3⟩, _⟩, h5⟩ := h
  refine ⟨⟨h1, h3, ?_⟩, h2⟩
  intro m hm
  rw [hm] at h5
  simpa using h5

/-- the property of `call` (= `replace_gate`) the induction needs -/
def CallT (ms : List Macro) (call : Stmt → M Stmt) : Prop :=
  ∀ (n : String) (gd : GateDef) (a : List (String × Val)) (g' : Stmt), GateS ms n gd →
    a.map (·.1) = gd.params.map (·.1) → (∀ e ∈ a, ClT e.2 = true) → call (.gate n gd a) = .ok g' → StmtIn g'

section typed
variable (ms : List Macro)

mutual
  theorem replStmt_typed (call : Stmt → M Stmt) (hc : CallT ms call) (S : String → Bool)
      (args : List (String × Val)) (hargs : ∀ e ∈ args, ClT e.2 = true)
      (hcov : ∀ n, S n = true → ∃ a, lookupArg args n = some a) :
      ∀ (s s' : Stmt), wfStmt ms s = true → StmtIn s → ScS S s → replStmt call args s = .ok s' → StmtIn s'
    | .gate n gd gargs, s', hw, ht, hp, h => by
      simp only [wfStmt] at hw
      obtain ⟨hst, hn⟩ := wfGate_parts hw
      simp only [replStmt] at h
      obtain ⟨new, hnew, h⟩ := bind_ok h
      obtain ⟨g, hg, h⟩ := bind_ok h
      obtain ⟨hnn, hna⟩ := substArgs_clT hargs hcov gargs new ht hp hnew
      have hnames : new.map (·.1) = gd.params.map (·.1) := by rw [hnn, hn]
      rw [callKw_eq_finish hnames hst.nodup] at hg
      unfold GateDef.finish at hg
      split at hg
      · simp [throw, throwThe, MonadExceptOf.throw, bind, Except.bind] at hg
      · obtain ⟨u, hu, hg⟩ := bind_ok hg
        cases hg
        refine hc gd.name gd new s' ?_ hnames hna h
        have := hst.name
        subst this
        exact hst
    | .loop c body, s', hw, ht, hp, h => by
      simp only [wfStmt, Bool.and_eq_true] at hw
      simp only [StmtIn] at ht
      obtain ⟨_, _, hpb⟩ := hp
      simp only [replStmt] at h
      obtain ⟨c', hc', h⟩ := bind_ok h
      obtain ⟨b', hb', h⟩ := bind_ok h
      obtain ⟨rfl, hbc⟩ := mkLoop_ok h
      exact ⟨cnt_subst hargs ht.1 hc' hbc, replStmt_typed call hc S args hargs hcov body b' hw.2 ht.2 hpb hb'⟩
    | .block par sub it body, s', hw, ht, hp, h => by
      simp only [wfStmt, Bool.and_eq_true] at hw
      simp only [StmtIn] at ht
      simp only [ScS] at hp
      simp only [replStmt] at h
      obtain ⟨stmts, hs, h⟩ := bind_ok h
      obtain ⟨it', hit', h⟩ := bind_ok h
      have hbc : badCount it' = false := by
        unfold mkBlock at h
        split at h
        · cases h
        · split at h
          · cases h
          · rename_i hb; simpa using hb
      rw [mkBlock_ok h]
      exact ⟨cnt_subst hargs ht.1 hit' hbc, replList_typed call hc S args hargs hcov par body stmts hw.2 ht.2 hp hs⟩
  theorem replList_typed (call : Stmt → M Stmt) (hc : CallT ms call) (S : String → Bool)
      (args : List (String × Val)) (hargs : ∀ e ∈ args, ClT e.2 = true)
      (hcov : ∀ n, S n = true → ∃ a, lookupArg args n = some a) (par : Bool) :
      ∀ (l l' : List Stmt), wfStmtList ms l = true → StmtsIn l → ScSL S l → replList call args par l = .ok l' → StmtsIn l'
    | [], l', _, _, _, h => by simp only [replList, pure, Except.pure] at h; cases h; trivial
    | s :: r, l', hw, ht, hp, h => by
      simp only [wfStmtList, Bool.and_eq_true] at hw
      simp only [replList] at h
      obtain ⟨s', hs', h⟩ := bind_ok h
      obtain ⟨r', hr', h⟩ := bind_ok h
      cases h
      exact stmtsIn_splice par s' r' (replStmt_typed call hc S args hargs hcov s s' hw.1 ht.1 hp.1 hs')
        (replList_typed call hc S args hargs hcov par r r' hw.2 ht.2 hp.2 hr')
end

/-- `replace_gate` with any fuel -/
theorem replaceGate_typed
    (hms : ∀ m ∈ ms, wfStmt ms m.body = true ∧ StmtIn m.body ∧ ScS (inNames m.params) m.body) :
    ∀ (fuel : Nat), CallT ms (replaceGate ms fuel) := by
  intro fuel
  induction fuel with
  | zero =>
    intro n gd a g' hst hn ha h
    simp only [replaceGate] at h
    cases hf : findMacro ms n with
    | none =>
      rw [hf] at h; simp only [pure, Except.pure] at h; cases h
      exact fun e he => ClT_InT (ha e he)
    | some m => rw [hf] at h; simp only at h; split at h <;> cases h
  | succ f ih =>
    intro n gd a g' hst hn ha h
    simp only [replaceGate] at h
    cases hf : findMacro ms n with
    | none =>
      rw [hf] at h; simp only [pure, Except.pure] at h; cases h
      exact fun e he => ClT_InT (ha e he)
    | some m =>
      rw [hf] at h; simp only at h
      split at h
      · cases h
      · have hmem : m ∈ ms := List.mem_of_find?_eq_some hf
        obtain ⟨h1, h2, h3⟩ := hms m hmem
        refine replStmt_typed ms (replaceGate ms f) ih (inNames m.params) a ha ?_ m.body g' h1 h2 h3 h
        intro p hp
        apply lookupArg_of_names
        rw [hn, hst.mac m hf]
        simpa [inNames] using hp

mutual
  theorem expStmt_typed (call : Stmt → M Stmt) (hc : CallT ms call) :
      ∀ (s s' : Stmt), wfStmt ms s = true → StmtIn s → ScS noPar s → expStmt call s = .ok s' → StmtIn s'
    | .gate n gd gargs, s', hw, ht, hp, h => by
      simp only [wfStmt] at hw
      obtain ⟨hst, hn⟩ := wfGate_parts hw
      simp only [expStmt] at h
      exact hc n gd gargs s' hst hn (fun e he => clT_of (ht e he) (hp e he)) h
    | .loop c body, s', hw, ht, hp, h => by
      simp only [wfStmt, Bool.and_eq_true] at hw
      simp only [StmtIn] at ht
      obtain ⟨_, _, hpb⟩ := hp
      simp only [expStmt] at h
      obtain ⟨b', hb', h⟩ := bind_ok h
      obtain ⟨rfl, _⟩ := mkLoop_ok h
      exact ⟨ht.1, expStmt_typed call hc body b' hw.2 ht.2 hpb hb'⟩
    | .block par sub it body, s', hw, ht, hp, h => by
      simp only [wfStmt, Bool.and_eq_true] at hw
      simp only [StmtIn] at ht
      simp only [ScS] at hp
      simp only [expStmt] at h
      obtain ⟨stmts, hs, h⟩ := bind_ok h
      rw [mkBlock_ok h]
      exact ⟨ht.1, expList_typed call hc par body stmts hw.2 ht.2 hp hs⟩
  theorem expList_typed (call : Stmt → M Stmt) (hc : CallT ms call) (par : Bool) :
      ∀ (l l' : List Stmt), wfStmtList ms l = true → StmtsIn l → ScSL noPar l → expList call par l = .ok l' → StmtsIn l'
    | [], l', _, _, _, h => by simp only [expList, pure, Except.pure] at h; cases h; trivial
    | s :: r, l', hw, ht, hp, h => by
      simp only [wfStmtList, Bool.and_eq_true] at hw
      simp only [expList] at h
      obtain ⟨s', hs', h⟩ := bind_ok h
      obtain ⟨r', hr', h⟩ := bind_ok h
      cases h
      exact stmtsIn_splice par s' r' (expStmt_typed call hc s s' hw.1 ht.1 hp.1 hs')
        (expList_typed call hc par r r' hw.2 ht.2 hp.2 hr')
end

end typed

theorem wfMacrosFrom_bodies (ms : List Macro) : ∀ (pre : List String) (l : List Macro), wfMacrosFrom ms pre l = true →
    ∀ m ∈ l, wfStmt ms m.body = true
  | _, [], _, m, hm => by cases hm
  | pre, x :: r, h, m, hm => by
    simp only [wfMacrosFrom, Bool.and_eq_true] at h
    rcases List.mem_cons.1 hm with rfl | hm
    · exact h.1.1
    · exact wfMacrosFrom_bodies ms _ r h.2 m hm

/-- **`expand_macros` keeps a built circuit typed** (either value of `preserve_definitions`) -/
theorem expandMacros_typed {p : Bool} {c c' : Circuit} (hwf : ExpandMacros.WellFormed c = true) (ht : TypedC c)
    (hs : ScopedC c) (h : expandMacros p c = .ok c') : TypedC c' := by
  obtain ⟨it, b0, hcb⟩ := WellFormed_body_block hwf
  simp only [ExpandMacros.WellFormed, Bool.and_eq_true] at hwf
  obtain ⟨⟨⟨⟨hwm, hwb⟩, _⟩, _⟩, _⟩ := hwf
  have hbodies := wfMacrosFrom_bodies c.macros [] c.macros hwm
  have hcall := replaceGate_typed c.macros (fun m hm => ⟨hbodies m hm, ht.macros m hm, hs.macros m hm⟩) c.macros.length
  unfold expandMacros at h
  obtain ⟨body, hbody, h⟩ := bind_ok h
  obtain ⟨stmts, hstmts, h⟩ := bind_ok h
  simp only [pure, Except.pure] at h
  cases h
  have hfs := expStmt_typed c.macros _ hcall c.body body hwb ht.body hs.body hbody
  rw [hcb] at hbody
  simp only [expStmt] at hbody
  obtain ⟨l, _, hbody⟩ := bind_ok hbody
  have := mkBlock_ok hbody
  subst this
  simp only [statementsOf, pure, Except.pure] at hstmts
  cases hstmts
  simp only [StmtIn] at hfs
  refine ⟨⟨rfl, hfs.2⟩, ?_, ht.registers, ht.constants, ht.regLike⟩
  intro m hm
  cases p with
  | true => exact ht.macros m hm
  | false => cases hm

end Jaqal.Passes

#print axioms Jaqal.Passes.expandMacros_typed
