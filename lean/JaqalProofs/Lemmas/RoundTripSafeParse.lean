import JaqalProofs.Lemmas.RoundTripSafe
import JaqalProofs.Lemmas.RoundTripGenProgram
import JaqalProofs.Lemmas.RoundTripLex
/-!
# C01, text layer: the names and floats of a parsed program are legal

* the lexer: an IDENTIFIER token is read back as one IDENTIFIER (`LegalName`), a DOTIDENTIFIER is a dot or a dot and
  an identifier, a NUMBER token is a canonical decimal that does not overflow (`step_tok_safe`);
* the grammar: the tree of a program keeps these tokens' texts at its name and number positions (`derives_safe`:
  the children have the shapes `SHeader` / `STop` with `LegalName`, `SafeMod`, `FloatOK`).
-/
set_option linter.unusedSimpArgs false
set_option linter.unusedVariables false
namespace Jaqal.RoundTrip
open Jaqal Jaqal.Lexer Jaqal.Grammar Jaqal.Builder Jaqal.NumText

/-! ## tokens -/

def DotName (m : String) : Prop := m = "." ∨ ∃ w, m.toList = '.' :: w ∧ IdentShape w

def TokSafe : Tok → Prop
  | .IDENTIFIER s => LegalName s
  | .DOTIDENTIFIER s => DotName s
  | .NUMBER d => FloatOK d
  | _ => True

theorem alnum_dot : isAlnum_ '.' = false := by decide

theorem identTail_tailOK (cs : List Char) : TailOK (identTail cs).1 := by
  unfold TailOK
  fun_induction identTail cs
  · rfl
  · rename_i c cs' hc r ih
    show identTail (c :: r.1) = (c :: r.1, [])
    have ih' : identTail r.1 = (r.1, []) := ih
    unfold identTail
    simp only [hc, if_true, ih']
  · rename_i d ds hd r hdot ih
    show identTail ('.' :: d :: r.1) = ('.' :: d :: r.1, [])
    have ih' : identTail r.1 = (r.1, []) := ih
    unfold identTail
    simp [alnum_dot, hd, ih']
  · rfl
  · rfl
  · rfl

theorem mIdent_shape {cs m rest : List Char} (h : mIdent cs = some (m, rest)) : IdentShape m := by
  unfold mIdent at h
  split at h
  · rename_i c cs'
    split at h
    · rename_i hc
      simp only [Option.some.injEq, Prod.mk.injEq] at h
      obtain ⟨rfl, _⟩ := h
      exact ⟨c, _, rfl, hc, identTail_tailOK cs'⟩
    · cases h
  · cases h

theorem identTok_safe {m : List Char} (h : IdentShape m) : TokSafe (identTok m) := by
  unfold identTok
  simp only
  split
  · rename_i k hk
    unfold keyword? at hk
    repeat' split at hk
    all_goals first | (cases hk; trivial) | cases hk
  · rename_i hk
    exact ⟨by rw [String.toList_ofList]; exact h, hk⟩

theorem mDotIdent_safe {cs m rest : List Char} (h : mDotIdent cs = some (m, rest)) : DotName (String.ofList m) := by
  unfold mDotIdent at h
  split at h
  · rename_i c cs'
    split at h
    · rename_i hc
      subst hc
      split at h
      · rename_i r hr
        simp only [Option.some.injEq, Prod.mk.injEq] at h
        obtain ⟨rfl, _⟩ := h
        exact Or.inr ⟨r.1, by rw [String.toList_ofList], mIdent_shape (m := r.1) (rest := r.2) (by rw [hr])⟩
      · simp only [Option.some.injEq, Prod.mk.injEq] at h
        obtain ⟨rfl, _⟩ := h
        exact Or.inl rfl
    · cases h
  · cases h

theorem literal_safe {c : Char} {t : Tok} (h : literal? c = some t) : TokSafe t := by
  unfold literal? at h
  repeat' split at h
  all_goals first | (cases h; trivial) | cases h

theorem step_tok_safe {cs rest : List Char} {t : Tok} {nl : Nat} (h : step cs = .token t rest nl) : TokSafe t := by
  unfold step at h
  split at h
  · cases h; trivial
  · split at h
    · rename_i m r hm
      cases h
      exact identTok_safe (mIdent_shape hm)
    · split at h
      · rename_i m r hm
        cases h
        exact mDotIdent_safe hm
      · split at h
        · dsimp only at h
          split at h
          · cases h
          · rename_i n r hn hov
            cases h
            exact ⟨normalize_canonical _, by simpa using hov⟩
        · split at h
          · split at h
            · cases h
            · cases h; trivial
          · split at h
            · cases h; trivial
            · split at h
              · cases h
              · split at h
                · cases h
                · split at h
                  · split at h
                    · rename_i hl
                      cases h
                      exact literal_safe hl
                    · cases h
                  · cases h

theorem lexAux_toks_safe (text : List Char) : ∀ (fuel : Nat) (cs : List Char) (line : Nat),
    ∀ p ∈ (lexAux text fuel cs line).1, TokSafe p.tok := by
  intro fuel
  induction fuel with
  | zero => intro cs line p hp; simp [lexAux] at hp
  | succ fuel ih =>
    intro cs line p hp
    cases cs with
    | nil => simp [lexAux] at hp
    | cons c rest =>
      simp only [lexAux] at hp
      split at hp
      · exact ih _ _ p hp
      · split at hp
        · rename_i t rest' nl hst
          simp only [List.mem_cons] at hp
          rcases hp with rfl | hp
          · exact step_tok_safe hst
          · exact ih _ _ p hp
        · exact ih _ _ p hp
        · simp at hp
        · simp at hp

/-! ## the grammar -/

def AllSafe (ts : List Tok) : Prop := ∀ t ∈ ts, TokSafe t

abbrev SStmtL := SStmt LegalName FloatOK
abbrev STopL := STop LegalName FloatOK
abbrev SHeaderL := SHeader SafeMod LegalName FloatOK
abbrev SChildL := SChild SafeMod LegalName FloatOK

theorem letOrInt_safe {t : Tok} {x : Sx} (h : LetOrInt t x) (ht : TokSafe t) : refT LegalName (BSx.ofSx x) := by
  cases h with
  | ident s => exact ht
  | int v => trivial

theorem gateArg_safe {ts : List Tok} {x : Sx} (h : GateArg ts x) (ht : AllSafe ts) :
    argT LegalName FloatOK (BSx.ofSx x) := by
  cases h with
  | ident s => exact ht (.IDENTIFIER s) (by simp)
  | number d => exact ht (.NUMBER d) (by simp)
  | int v => trivial
  | itemIdent a i => exact ⟨ht (.IDENTIFIER a) (by simp), ht (.IDENTIFIER i) (by simp)⟩
  | itemInt a v => exact ⟨ht (.IDENTIFIER a) (by simp), trivial⟩

theorem gateArgs_safe {ts : List Tok} {xs : List Sx} (h : GateArgs ts xs) :
    AllSafe ts → ∀ a ∈ BSx.ofSxList xs, argT LegalName FloatOK a := by
  induction h with
  | nil => intro _ a ha; simp [BSx.ofSxList] at ha
  | cons ha _ ih =>
    intro ht a hmem
    simp only [BSx.ofSxList, List.mem_cons] at hmem
    rcases hmem with rfl | hmem
    · exact gateArg_safe ha (fun t h => ht t (by simp [h]))
    · exact ih (fun t h => ht t (by simp [h])) a hmem

theorem gate_s {par : Bool} {ts : List Tok} {x : Sx} (h : Gate ts x) (ht : AllSafe ts) : SStmtL par (BSx.ofSx x) := by
  cases h with
  | mk g has =>
    simp only [BSx.ofSx, BSx.ofSxList]
    exact SStmt.gate (gateArgs_shape has) (ht (.IDENTIFIER g) (by simp)) (gateArgs_safe has (fun t h => ht t (by simp [h])))

/-- what each phrase of the block grammar yields -/
def BlockS : Ph → Sx → Prop
  | .seqStmts, x => ∃ xs, x = .list xs ∧ ∀ y ∈ xs, SStmtL false (BSx.ofSx y)
  | .parStmts, x => ∃ xs, x = .list xs ∧ ∀ y ∈ xs, SStmtL true (BSx.ofSx y)
  | .seqStmt, x => SStmtL false (BSx.ofSx x)
  | .parStmt, x => SStmtL true (BSx.ofSx x)
  | .seqBlock, x => ∃ xs, x = .list (.str "sequential_block" :: xs) ∧ ∀ y ∈ xs, SStmtL false (BSx.ofSx y)
  | .parBlock, x => ∃ xs, x = .list (.str "parallel_block" :: xs) ∧ ∀ y ∈ xs, SStmtL true (BSx.ofSx y)
  | .gateBlock, x => ∃ par xs, x = .list (.str (blockCmdB par) :: xs) ∧ ∀ y ∈ xs, SStmtL par (BSx.ofSx y)

theorem items_of_s {par : Bool} {xs : List Sx} (h : ∀ y ∈ xs, SStmtL par (BSx.ofSx y)) :
    ∀ x ∈ BSx.ofSxList xs, SStmtL par x := by
  intro x hx
  obtain ⟨y, hy, rfl⟩ := ofSxList_mem hx
  exact h y hy

theorem block_s {ph : Ph} {ts : List Tok} {x : Sx} (h : Block ph ts x) : AllSafe ts → BlockS ph x := by
  induction h with
  | seqBlock _ _ ih =>
    intro ht
    obtain ⟨xs', hx, hs⟩ := ih (fun t h => ht t (by simp [h]))
    cases hx
    exact ⟨_, rfl, hs⟩
  | parBlock _ _ ih =>
    intro ht
    obtain ⟨xs', hx, hs⟩ := ih (fun t h => ht t (by simp [h]))
    cases hx
    exact ⟨_, rfl, hs⟩
  | gateBlockSeq _ ih =>
    intro ht
    obtain ⟨xs, hx, hs⟩ := ih ht
    exact ⟨false, xs, hx, hs⟩
  | gateBlockPar _ ih =>
    intro ht
    obtain ⟨xs, hx, hs⟩ := ih ht
    exact ⟨true, xs, hx, hs⟩
  | seqGate hg => intro ht; exact gate_s hg ht
  | seqPar _ ih =>
    intro ht
    obtain ⟨xs, hx, hs⟩ := ih ht
    cases hx
    simp only [BlockS, BSx.ofSx, BSx.ofSxList]
    exact SStmt.parB (items_of_s hs)
  | seqLoop hc _ ih =>
    intro ht
    obtain ⟨par, xs, hx, hs⟩ := ih (fun t h => ht t (by simp [h]))
    cases hx
    have hct := letOrInt_safe hc (ht _ (by simp))
    simp only [BlockS, BSx.ofSx, BSx.ofSxList]
    cases par
    · exact SStmt.loopSeq (letOrInt_shape hc) hct (items_of_s hs)
    · exact SStmt.loopPar (letOrInt_shape hc) hct (items_of_s hs)
  | seqSub _ _ ih =>
    intro ht
    obtain ⟨xs', hx, hs⟩ := ih (fun t h => ht t (by simp [h]))
    cases hx
    simp only [BlockS, BSx.ofSx, BSx.ofSxList]
    exact SStmt.sub rfl (Or.inl rfl) (items_of_s hs)
  | seqSubN hc _ _ ih =>
    intro ht
    obtain ⟨xs', hx, hs⟩ := ih (fun t h => ht t (by simp [h]))
    cases hx
    have hct := letOrInt_safe hc (ht _ (by simp))
    simp only [BlockS, BSx.ofSx, BSx.ofSxList]
    exact SStmt.sub (letOrInt_shape hc) (Or.inr hct) (items_of_s hs)
  | parGate hg => intro ht; exact gate_s hg ht
  | parSeq _ ih =>
    intro ht
    obtain ⟨xs, hx, hs⟩ := ih ht
    cases hx
    simp only [BlockS, BSx.ofSx, BSx.ofSxList]
    exact SStmt.seqB (items_of_s hs)
  | seqNil => intro _; exact ⟨[], rfl, fun _ h => by simp at h⟩
  | seqOne _ ih => intro ht; exact ⟨_, rfl, fun y hy => by simp at hy; subst hy; exact ih ht⟩
  | seqCons _ _ _ ih1 ih2 =>
    intro ht
    obtain ⟨xs', hx, hs⟩ := ih2 (fun t h => ht t (by simp [h]))
    cases hx
    exact ⟨_, rfl, fun y hy => by
      rcases List.mem_cons.1 hy with rfl | hy
      · exact ih1 (fun t h => ht t (by simp [h]))
      · exact hs y hy⟩
  | parNil => intro _; exact ⟨[], rfl, fun _ h => by simp at h⟩
  | parOne _ ih => intro ht; exact ⟨_, rfl, fun y hy => by simp at hy; subst hy; exact ih ht⟩
  | parCons _ _ _ ih1 ih2 =>
    intro ht
    obtain ⟨xs', hx, hs⟩ := ih2 (fun t h => ht t (by simp [h]))
    cases hx
    exact ⟨_, rfl, fun y hy => by
      rcases List.mem_cons.1 hy with rfl | hy
      · exact ih1 (fun t h => ht t (by simp [h]))
      · exact hs y hy⟩

theorem optLetOrInt_safe {ts : List Tok} {x : Sx} (h : OptLetOrInt ts x) (ht : AllSafe ts) :
    refT LegalName (BSx.ofSx x) := by
  cases h with
  | none => trivial
  | some hl => exact letOrInt_safe hl (ht _ (by simp))

theorem optStep_safe {ts : List Tok} {x : Sx} (h : OptStep ts x) (ht : AllSafe ts) : refT LegalName (BSx.ofSx x) := by
  cases h with
  | none => trivial
  | some hl => exact letOrInt_safe hl (ht _ (by simp))

theorem legal_not_dot {m : String} (h : LegalName m) : m.toList.head? ≠ some '.' := by
  obtain ⟨c, a, hm, hc, _⟩ := h.1
  rw [hm]
  simp only [List.head?_cons, ne_eq, Option.some.injEq]
  rintro rfl
  revert hc
  decide

theorem header_s {ts : List Tok} {x : Sx} (h : Header ts x) (ht : AllSafe ts) : SHeaderL (BSx.ofSx x) := by
  cases h with
  | register n hsz _ =>
    exact SHeader.register n (letOrInt_shape hsz) (ht (.IDENTIFIER n) (by simp)) (letOrInt_safe hsz (ht _ (by simp)))
  | letInt n v => exact SHeader.letInt n v (ht (.IDENTIFIER n) (by simp))
  | letNumber n d => exact SHeader.letFlt n d (ht (.IDENTIFIER n) (by simp)) (ht (.NUMBER d) (by simp))
  | mapWhole n src => exact SHeader.mapWhole n src (ht (.IDENTIFIER n) (by simp)) (ht (.IDENTIFIER src) (by simp))
  | mapIndex n src hi =>
    exact SHeader.mapIndex n src (letOrInt_shape hi) (ht (.IDENTIFIER n) (by simp)) (ht (.IDENTIFIER src) (by simp))
      (letOrInt_safe hi (ht _ (by simp)))
  | mapSlice n src ha hb hc =>
    exact SHeader.mapSlice n src (optLetOrInt_shape ha) (optLetOrInt_shape hb) (optStep_shape hc)
      (ht (.IDENTIFIER n) (by simp)) (ht (.IDENTIFIER src) (by simp))
      (optLetOrInt_safe ha (fun t h => ht t (by simp [h])))
      (optLetOrInt_safe hb (fun t h => ht t (by simp [h])))
      (optStep_safe hc (fun t h => ht t (by simp [h])))
  | usepulses m =>
    have hm : LegalName m := ht (.IDENTIFIER m) (by simp)
    exact SHeader.usepulses m (Or.inr (Or.inl ⟨legal_not_dot hm, hm⟩))
  | usepulsesDot m =>
    have hm : DotName m := ht (.DOTIDENTIFIER m) (by simp)
    refine SHeader.usepulses m ?_
    rcases hm with rfl | ⟨w, hw, hs⟩
    · exact Or.inr (Or.inr rfl)
    · exact Or.inl ⟨w, hw, hs⟩

theorem body_s {ts : List Tok} {x : Sx} (h : Body ts x) (ht : AllSafe ts) : STopL (BSx.ofSx x) := by
  cases h with
  | stmt hb => exact STop.stmt (block_s hb ht)
  | seqBlock hb =>
    obtain ⟨xs, hx, hs⟩ := block_s hb ht
    cases hx
    simp only [BSx.ofSx, BSx.ofSxList]
    exact STop.seqB (items_of_s hs)
  | macroDef name params hb =>
    obtain ⟨par, xs, hx, hs⟩ := block_s hb (fun t h => ht t (by simp [h]))
    cases hx
    simp only [BSx.ofSx, BSx.ofSxList, ofSxList_append, ofSxList_map_str]
    refine STop.macroDef (ht (.IDENTIFIER name) (by simp)) ?_ (items_of_s hs)
    intro p hp
    exact ht (.IDENTIFIER p) (by simp [hp])
  | branch _ _ =>
    simp only [BSx.ofSx, BSx.ofSxList]
    exact STop.branch

theorem stmts_s {ph : Phase} {ts : List Tok} {xs : List Sx} (h : Stmts ph ts xs) :
    AllSafe ts → ∀ b ∈ BSx.ofSxList xs, SChildL b := by
  induction h with
  | nil => intro _ b hb; simp [BSx.ofSxList] at hb
  | lastHeader hh =>
    intro ht b hb
    simp [BSx.ofSxList] at hb
    subst hb
    exact Or.inl (header_s hh ht)
  | lastBody hb' =>
    intro ht b hb
    simp [BSx.ofSxList] at hb
    subst hb
    exact Or.inr (body_s hb' ht)
  | consHeader hh _ _ ih =>
    intro ht b hb
    simp only [BSx.ofSxList, List.mem_cons] at hb
    rcases hb with rfl | hb
    · exact Or.inl (header_s hh (fun t h => ht t (by simp [h])))
    · exact ih (fun t h => ht t (by simp [h])) b hb
  | consBody hb' _ _ ih =>
    intro ht b hb
    simp only [BSx.ofSxList, List.mem_cons] at hb
    rcases hb with rfl | hb
    · exact Or.inr (body_s hb' (fun t h => ht t (by simp [h])))
    · exact ih (fun t h => ht t (by simp [h])) b hb

theorem derives_safe {ts : List Tok} {sx : Sx} (h : Derives ts sx) (ht : AllSafe ts) :
    ∃ cs, BSx.ofSx sx = .list (.str "circuit" :: cs) ∧ ∀ b ∈ cs, SChildL b := by
  cases h with
  | circuit _ hs =>
    exact ⟨_, by simp only [BSx.ofSx, BSx.ofSxList], stmts_s hs (fun t h => ht t (by simp [h]))⟩

/-- **The children of a parsed program** have legal names and floats at all name and number positions. -/
theorem parseText_safe {txt : String} {sx : Sx} (h : Parser.parseText txt = .ok sx) :
    ∃ cs, BSx.ofSx sx = .list (.str "circuit" :: cs) ∧ ∀ b ∈ cs, SChildL b := by
  have key : ∀ ts : List PTok, ts = (lexAll txt).1 → Parser.parse ts = .ok sx →
      ∃ cs, BSx.ofSx sx = .list (.str "circuit" :: cs) ∧ ∀ b ∈ cs, SChildL b := by
    intro ts hts hp
    refine derives_safe (Parser.parse_sound hp) ?_
    intro t ht
    simp only [List.mem_map] at ht
    obtain ⟨p, hp', rfl⟩ := ht
    rw [hts] at hp'
    exact lexAux_toks_safe _ _ _ _ p hp'
  unfold Parser.parseText at h
  split at h
  · rename_i ts heq
    cases hp : Parser.parse ts with
    | ok x => rw [hp] at h; simp only [] at h; cases h; exact key ts (by rw [heq]) hp
    | error e => rw [hp] at h; cases h
  · rename_i ts le heq
    cases hp : Parser.parse ts with
    | ok x => rw [hp] at h; cases h
    | error e => rw [hp] at h; simp only [] at h; split at h <;> cases h

end Jaqal.RoundTrip
