import JaqalProofs.Lemmas.ExpandFlat
import JaqalProofs.Lemmas.BuiltScoped
import JaqalProofs.Lemmas.BuiltFits
/-!
# The circuit `fill_in_let` returns satisfies `PreC`

`filled_preC`: for a circuit `c` built from text (`parseBuild cfg sx = .ok c`, `sx` as the grammar derives it), its image `c1`
under `expand_subcircuits` and `c2 = fill_in_let(c1, ov)`: `PreC c2` (`Lemmas/ExpandFlat.lean`) — hence `FlatT` of the expansion.

Pieces:
* `c2` is an output of `Builder.build`: gate shapes (`built_gateShape`), validation of every statement (`built_fits`), names
  (`C14_names_build`: the definition of a statement is a native gate, a macro of the circuit, or anonymous);
* its values are the visitors' images (`fillInLet_rebuilt'`): typed and constant-free (`letVal_typed`), with the parameters of
  the original (`letVal_parIn`), which are scoped (`built_scoped`, carried through `spell`);
* loop bodies are blocks (`built_scoped`, `spell`, `Rel`); registers have positive int sizes (`C14_sound`, `mkRegister`).
-/
namespace Jaqal.RunModel
open Jaqal Jaqal.Builder Jaqal.FillIn Jaqal.ExpandMacros

/-! ### Parameters through the visitors -/

theorem RegL_parOK {S : String → Bool} {v : Val} (h : RegL v = true) : parOK S v = true := by
  cases v <;> simp [RegL] at h <;> rfl

theorem NumI_parIn {S : String → Bool} {v : Val} (h : NumI v) : ParIn S v = true ∧ parOK S v = true := by
  cases v <;> simp [NumI] at h <;> exact ⟨rfl, rfl⟩

/-- the visitors neither add nor remove parameters -/
theorem letVal_parIn {S : String → Bool} {ov : List (String × Num)} {rv : Bool} {v w : Val} (ht : InT v = true)
    (h : letVal ov rv v = .ok w) (hp : ParIn S v = true) : ParIn S w = true := by
  cases v with
  | int _ => simp only [letVal, pure, Except.pure] at h; cases h; rfl
  | flt _ => simp only [letVal, pure, Except.pure] at h; cases h; rfl
  | none => simp [InT, RegT] at ht
  | str _ => simp [InT, RegT] at ht
  | param n k => simp only [letVal, pure, Except.pure] at h; cases h; exact hp
  | const n x =>
    have := (letVal_typed (ov := ov) (rv := rv) (.const n x) ht).2 w h
    simp only [letVal, resolveConstant] at h
    split at h
    · simp only [pure, Except.pure] at h
      cases h
      cases Num.asInteger _ <;> rfl
    · split at h <;> first | (cases h; rfl) | cases h
  | regF n s =>
    have := (letVal_reg (ov := ov) (rv := rv) (.regF n s) (by simpa [InT] using ht)).2 w h
    cases w <;> simp [RegL] at this <;> rfl
  | regA n s =>
    have := (letVal_reg (ov := ov) (rv := rv) (.regA n s) (by simpa [InT] using ht)).2 w h
    cases w <;> simp [RegL] at this <;> rfl
  | regS n s a b c =>
    have := (letVal_reg (ov := ov) (rv := rv) (.regS n s a b c) (by simpa [InT] using ht)).2 w h
    cases w <;> simp [RegL] at this <;> rfl
  | qubit name src idx =>
    simp only [InT, Bool.and_eq_true, Bool.or_eq_true] at ht
    simp only [ParIn, Bool.and_eq_true] at hp
    simp only [letVal] at h
    obtain ⟨nf, hnf, h⟩ := bind_ok h
    have hnfp : parOK S nf = true := by
      rcases ht.1 with hr | hpar
      · exact RegL_parOK ((letVal_reg (ov := ov) (rv := rv) src hr).2 nf hnf)
      · cases src <;> simp [Builder.isParam] at hpar
        simp only [letVal, pure, Except.pure] at hnf; cases hnf; exact hp.1
    by_cases hc : isConst idx = true
    · simp only [hc, if_true] at h
      obtain ⟨ni, hni, h⟩ := bind_ok h
      have hic : isIntC idx = true := by
        rcases ht.2 with h1 | h1
        · exact h1
        · cases idx <;> simp [Builder.isParam] at h1; simp [isConst] at hc
      have hnum := (resolveConstant_intC (ov := ov) hic hc).2 ni hni
      have hq : ∃ nm, w = .qubit nm nf ni := by
        unfold constIndexQubit at h
        cases rv with
        | true => simp only [if_true] at h; exact ⟨name, mkQubit_eq h⟩
        | false =>
          simp only [Bool.false_eq_true, if_false] at h
          split at h
          · split at h
            · exact ⟨name, mkQubit_eq h⟩
            · exact getItem_eq h
          · simp [throw_eq] at h
      obtain ⟨nm, rfl⟩ := hq
      simp [ParIn, hnfp, (NumI_parIn hnum).2]
    · have hc' : isConst idx = false := by simpa using hc
      simp only [hc', Bool.false_eq_true, if_false] at h
      rw [mkQubit_eq h]
      simp [ParIn, hnfp, hp.2]

theorem letVal_parOK_cnt {S : String → Bool} {ov : List (String × Num)} {c c' : Val} (hc : CntIn c = true)
    (h : letVal ov false c = .ok c') (hp : parOK S c = true) : parOK S c' = true := by
  have h1 : ParIn S c = true := by
    cases c with
    | qubit _ _ _ => simp [CntIn, isIntC, Builder.isParam] at hc
    | _ => exact hp
  have := letVal_parIn (S := S) (CntIn_InT hc) h h1
  have hout := letVal_cnt hc h
  cases c' <;> simp [CntOut] at hout <;> first | rfl | exact this

/-! ### Scoping through `expand_subcircuits` and the rebuild -/

mutual
  theorem spell_scoped (S : String → Bool) (p m : Stmt) (hp : ScS S p) (hm : ScS S m) : ∀ (s : Stmt), ScS S s →
      ScS S (ExpandSubcircuits.spell p m s)
    | .gate n gd a, h => by simpa only [ExpandSubcircuits.spell] using h
    | .loop c b, h => by
      obtain ⟨h1, ⟨par, sub, it, bb, rfl⟩, h3⟩ := h
      have hb := spell_scoped S p m hp hm (.block par sub it bb) h3
      simp only [ExpandSubcircuits.spell, ScS]
      refine ⟨h1, ?_, hb⟩
      cases sub <;> exact ⟨_, _, _, _, rfl⟩
    | .block par sub it body, h => by
      simp only [ScS] at h
      simp only [ExpandSubcircuits.spell]
      have hb := spellList_scoped S p m hp hm body h
      split
      · refine ⟨hp, ?_⟩
        have happ : ∀ (l : List Stmt), ScSL S l → ScSL S (l ++ [m]) := by
          intro l
          induction l with
          | nil => intro _; exact ⟨hm, trivial⟩
          | cons x xs ih => intro hl; exact ⟨hl.1, ih hl.2⟩
        exact happ _ hb
      · exact hb
  theorem spellList_scoped (S : String → Bool) (p m : Stmt) (hp : ScS S p) (hm : ScS S m) : ∀ (l : List Stmt), ScSL S l →
      ScSL S (ExpandSubcircuits.spellList p m l)
    | [], _ => trivial
    | s :: r, h => ⟨spell_scoped S p m hp hm s h.1, spellList_scoped S p m hp hm r h.2⟩
end

mutual
  theorem Rel_scoped {S : String → Bool} {ov : List (String × Num)} : ∀ (s s' : Stmt), StmtIn s → ScS S s →
      Rel (letVal ov false) (letVal ov false) s s' → ScS S s'
    | .gate n gd args, .gate n' gd' args', ht, hs, h => by
      simp only [Rel] at h
      intro a' ha'
      obtain ⟨a, ha, hab⟩ := forall₂_right h.2 a' ha'
      exact letVal_parIn (ht a ha) hab (hs a ha)
    | .block par sub it body, .block par' sub' it' body', ht, hs, h => by
      simp only [StmtIn] at ht
      simp only [Rel] at h
      exact RelList_scoped body body' ht.2 hs h.2.2.2
    | .loop c b, .loop c' b', ht, hs, h => by
      simp only [StmtIn] at ht
      simp only [Rel] at h
      obtain ⟨h1, ⟨par, sub, it, bb, rfl⟩, h3⟩ := hs
      refine ⟨letVal_parOK_cnt ht.1 h.1 h1, ?_, Rel_scoped _ b' ht.2 h3 h.2⟩
      cases b' with
      | block _ _ _ _ => exact ⟨_, _, _, _, rfl⟩
      | gate _ _ _ => simp [Rel] at h
      | loop _ _ => simp [Rel] at h
    | .gate _ _ _, .block _ _ _ _, _, _, h | .gate _ _ _, .loop _ _, _, _, h
    | .block _ _ _ _, .gate _ _ _, _, _, h | .block _ _ _ _, .loop _ _, _, _, h
    | .loop _ _, .gate _ _ _, _, _, h | .loop _ _, .block _ _ _ _, _, _, h => by simp [Rel] at h
  theorem RelList_scoped {S : String → Bool} {ov : List (String × Num)} : ∀ (l l' : List Stmt), StmtsIn l → ScSL S l →
      RelList (letVal ov false) (letVal ov false) l l' → ScSL S l'
    | [], [], _, _, _ => trivial
    | s :: ss, s' :: ss', ht, hs, h => by
      simp only [RelList] at h
      exact ⟨Rel_scoped s s' ht.1 hs.1 h.1, RelList_scoped ss ss' ht.2 hs.2 h.2⟩
    | [], _ :: _, _, _, h | _ :: _, [], _, _, h => by simp [RelList] at h
end

/-! ### Assembling `PreS` -/

theorem OutT_ValP {P : List String} {v : Val} (ho : OutT v = true) (hp : ParIn (fun n => decide (n ∈ P)) v = true) :
    ValP P v = true := by
  cases v with
  | int _ => rfl
  | flt _ => rfl
  | param n k => simpa [ValP, ParIn, parOK] using hp
  | qubit n s i =>
    simp only [OutT, Bool.and_eq_true, Bool.or_eq_true] at ho
    simp only [ParIn, Bool.and_eq_true] at hp
    simp only [ValP, Bool.and_eq_true, Bool.or_eq_true]
    refine ⟨?_, ?_⟩
    · rcases ho.1 with h | h
      · exact Or.inl h
      · right; cases s <;> simp [Builder.isParam] at h; simpa [inP, parOK] using hp.1
    · rcases ho.2 with h | h
      · exact Or.inl h
      · right; cases i <;> simp [Builder.isParam] at h; simpa [inP, parOK] using hp.2
  | none => simp [OutT, RegL] at ho
  | str _ => simp [OutT, RegL] at ho
  | const _ _ => simp [OutT, RegL] at ho
  | regF n s => simpa [ValP, OutT] using ho
  | regA n s => simpa [ValP, OutT] using ho
  | regS n s a b c => simpa [ValP, OutT] using ho

theorem cnt_CntP {P : List String} {c : Val} (ho : CntOut c = true) (hv : validateCount c = .ok ())
    (hp : parOK (fun n => decide (n ∈ P)) c = true) : CntP P c = true := by
  cases c <;> simp [CntOut] at ho
  · rfl
  · simp [validateCount, isAV, throw_eq] at hv
  · simpa [CntP, parOK] using hp

/-- what `NamesValid` says about one definition -/
def KnownDef (nat : List GateDef) (ms : List Macro) (gd : GateDef) : Prop :=
  gd ∈ nat ∨ (∃ m ∈ ms, gd = defOfMacro m) ∨ (nat = [] ∧ gd = anonDef gd.name gd.params.length)

theorem find?_name_mem {ms : List Macro} {m : Macro} (hm : m ∈ ms) : findMacro ms m.name ≠ none := by
  unfold findMacro
  intro h
  have := List.find?_eq_none.1 h m hm
  simp at this

theorem nodup_names_eq {l : List GateDef} (hnd : (l.map (·.name)).Nodup) {a b : GateDef} (ha : a ∈ l) (hb : b ∈ l)
    (h : a.name = b.name) : a = b := by
  induction l with
  | nil => cases ha
  | cons x xs ih =>
    simp only [List.map_cons, List.nodup_cons] at hnd
    rcases List.mem_cons.1 ha with hax | ha'
    · rcases List.mem_cons.1 hb with hbx | hb'
      · rw [hax, hbx]
      · exfalso; apply hnd.1; rw [← hax, h]; exact List.mem_map_of_mem (f := (·.name)) hb'
    · rcases List.mem_cons.1 hb with hbx | hb'
      · exfalso; apply hnd.1; rw [← hbx, ← h]; exact List.mem_map_of_mem (f := (·.name)) ha'
      · exact ih hnd.2 ha' hb'

theorem gateStatic_of {nat : List GateDef} {ms : List Macro} {n : String} {gd : GateDef} {args : List (String × Val)}
    (hg : gateWF ms (.gate n gd args)) (hk : KnownDef nat ms gd) (htag : ∀ g ∈ nat, g.tag ≠ .macro)
    (hnd : (nat.map (·.name)).Nodup) : GateStatic nat ms n gd := by
  obtain ⟨h1, _, h3, h4⟩ := hg
  refine ⟨h1, h3, h4, ?_⟩
  intro hf
  rcases hk with hin | ⟨m, hm, rfl⟩ | ⟨hnil, han⟩
  · refine ⟨htag gd hin, ?_⟩
    intro gd' hfd
    have hmem := List.mem_of_find?_eq_some hfd
    have hname : gd'.name = n := by simpa using List.find?_some hfd
    exact nodup_names_eq hnd hmem hin (by rw [hname, h1])
  · exfalso
    have : n = m.name := h1
    rw [this] at hf
    exact find?_name_mem hm hf
  · refine ⟨by rw [han]; simp [anonDef], ?_⟩
    intro gd' hfd
    rw [hnil] at hfd
    cases hfd

mutual
  theorem preS_of (nat : List GateDef) (ms : List Macro) (P : List String) (htag : ∀ g ∈ nat, g.tag ≠ .macro)
      (hnd : (nat.map (·.name)).Nodup) : ∀ (s : Stmt), gateWF ms s → QS s → StmtOut s →
      ScS (fun n => decide (n ∈ P)) s → (∀ gd ∈ gateDefsOf s, KnownDef nat ms gd) → PreS nat ms P s
    | .gate n gd args, hg, hq, ho, hs, hk => by
      refine ⟨gateStatic_of hg (hk gd (by simp [gateDefsOf])) htag hnd, hg.2.1, ?_, hq⟩
      intro a ha
      exact OutT_ValP (ho a ha) (hs a ha)
    | .block par sub it body, hg, hq, ho, hs, hk => by
      simp only [gateWF] at hg
      simp only [QS] at hq
      simp only [StmtOut] at ho
      simp only [ScS] at hs
      simp only [PreS]
      exact preSL_of nat ms P htag hnd body hg hq ho.2 hs (fun gd hgd => hk gd (by simpa [gateDefsOf] using hgd))
    | .loop c b, hg, hq, ho, hs, hk => by
      simp only [gateWF] at hg
      simp only [StmtOut] at ho
      obtain ⟨h1, h2, h3⟩ := hs
      exact ⟨cnt_CntP ho.1 hq.1 h1, h2,
        preS_of nat ms P htag hnd b hg hq.2 ho.2 h3 (fun gd hgd => hk gd (by simpa [gateDefsOf] using hgd))⟩
  theorem preSL_of (nat : List GateDef) (ms : List Macro) (P : List String) (htag : ∀ g ∈ nat, g.tag ≠ .macro)
      (hnd : (nat.map (·.name)).Nodup) : ∀ (l : List Stmt), gateWFL ms l → QSL l → StmtsOut l →
      ScSL (fun n => decide (n ∈ P)) l → (∀ gd ∈ gateDefsOfList l, KnownDef nat ms gd) → PreSL nat ms P l
    | [], _, _, _, _, _ => trivial
    | s :: r, hg, hq, ho, hs, hk =>
      ⟨preS_of nat ms P htag hnd s hg.1 hq.1 ho.1 hs.1 (fun gd hgd => hk gd (by simp [gateDefsOfList, hgd])),
       preSL_of nat ms P htag hnd r hg.2 hq.2 ho.2 hs.2 (fun gd hgd => hk gd (by simp [gateDefsOfList, hgd]))⟩
end

/-! ### Registers -/

theorem mkRegister_int_pos {n n' : String} {ns : Val} {k : Int} (hn : NumI ns)
    (h : mkRegister n ns = .ok (.regF n' (.int k))) : 1 ≤ k := by
  cases ns with
  | int k' =>
    simp only [mkRegister] at h
    split at h
    · cases h
    · cases h; omega
  | flt d =>
    simp only [NumI] at hn
    simp [mkRegister, hn, throw_eq] at h
  | _ => cases hn

/-- a fundamental register has a non-negative int size -/
def regPos (w : Val) : Bool :=
  match w with
  | .regF _ (.int k) => decide (0 ≤ k)
  | .regF _ _ => false
  | _ => true

theorem letVal_reg_pos {ov : List (String × Num)} {v w : Val} (ht : InT v = true) (hv : ValOK v)
    (h : letVal ov true v = .ok w) : regPos w = true := by
  have hout := (letVal_typed (ov := ov) (rv := true) v ht).2 w h
  cases w with
  | regF n size =>
    have hL : RegL (.regF n size) = true := by simpa [OutT] using hout
    simp only [RegL] at hL
    cases size <;> simp [isIntL] at hL
    rename_i k
    simp only [regPos, decide_eq_true_eq]
    -- where does a fundamental register come from?
    cases v with
    | regF n0 s0 =>
      simp only [letVal] at h
      split at h
      · rename_i hcst
        obtain ⟨ns, hns, h⟩ := bind_ok h
        have hic : isIntC s0 = true := by simpa [InT, RegT] using ht
        have hnum := (resolveConstant_intC (ov := ov) hic hcst).2 ns hns
        exact Int.le_trans (by decide) (mkRegister_int_pos hnum h)
      · cases h
        have := hv k rfl
        omega
    | regA _ _ => simp only [letVal] at h; obtain ⟨_, _, h⟩ := bind_ok h; cases h
    | regS _ _ _ _ _ =>
      simp only [letVal] at h
      obtain ⟨_, _, h⟩ := bind_ok h
      obtain ⟨_, _, h⟩ := bind_ok h
      obtain ⟨_, _, h⟩ := bind_ok h
      obtain ⟨_, _, h⟩ := bind_ok h
      have := (mkSliceN_eq h).1
      cases this
    | qubit _ _ _ =>
      simp only [letVal] at h
      obtain ⟨nf, _, h⟩ := bind_ok h
      split at h
      · obtain ⟨ni, _, h⟩ := bind_ok h
        unfold constIndexQubit at h
        simp only [if_true] at h
        have := mkQubit_eq h
        cases this
      · have := mkQubit_eq h
        cases this
    | const n x =>
      have := (letVal_typed (ov := ov) (rv := true) (.const n x) ht).2 _ h
      simp only [letVal, resolveConstant] at h
      split at h
      · simp only [pure, Except.pure] at h
        cases hh : Num.asInteger _ <;> rw [hh] at h <;> cases h
      · split at h <;> cases h
    | int _ => simp only [letVal, pure, Except.pure] at h; cases h
    | flt _ => simp only [letVal, pure, Except.pure] at h; cases h
    | param _ _ => simp only [letVal, pure, Except.pure] at h; cases h
    | none => simp [InT, RegT] at ht
    | str _ => simp [InT, RegT] at ht
  | _ => rfl

/-! ### The theorem -/

theorem normNatives_tags {gs : List GateDef} {d : List (String × GateDef)} (h : normNatives gs = .ok d) :
    ∀ p ∈ d, p.2.tag ≠ .macro := by
  unfold normNatives at h
  simp only [] at h
  split at h
  · simp [throw_eq] at h
  · rename_i hany
    simp only [pure, Except.pure] at h
    cases h
    intro p hp ht
    apply hany
    simp only [List.any_eq_true]
    exact ⟨p, hp, by simp [ht]⟩

/-- **`filled_preC`** -/
theorem filled_preC {cfg : Config} {ov : List (String × Num)} {sx : Sx} {c c1 c2 : Circuit}
    (hg : GrammarSx (BSx.ofSx sx)) (hps : ParserSx (BSx.ofSx sx)) (hb : parseBuild cfg sx = .ok c)
    (h1 : ExpandSubcircuits.expandSubcircuits none none c = .ok c1) (h2 : fillInLet ov c1 = .ok c2) : PreC c2 := by
  -- the built circuit
  have htc := parseBuild_typed cfg sx c hps hb
  have hrefs := (C14_sound cfg sx c hb).1
  have hsc : ScopedC c := by
    unfold parseBuild at hb
    obtain ⟨c0, hb0, hb⟩ := bind_ok hb
    unfold tooManyRegisters at hb
    split at hb
    · cases hb
    · cases hb; exact built_scoped cfg _ _ hg hb0
  -- after `expand_subcircuits`
  have ht1 := ExpandSubcircuits.expandSubcircuits_typed htc h1
  obtain ⟨stmts, hs, _, _, _, _, hc1⟩ := ExpandSubcircuits.expand_ok h1
  have hbody1eq : c1.body = .block false false (.int 1) stmts := by rw [hc1]
  have hmac1 : c1.macros = c.macros.map
      (ExpandSubcircuits.spellMacro (ExpandSubcircuits.prepStmt none c) (ExpandSubcircuits.measStmt none c)) := by rw [hc1]
  have hreg1 : c1.registers = c.registers := by rw [hc1]
  have hnat1 : c1.natives = c.natives := by rw [hc1]
  have hp0 : ∀ S, ScS S (ExpandSubcircuits.prepStmt none c) := fun S a ha => by cases ha
  have hm0 : ∀ S, ScS S (ExpandSubcircuits.measStmt none c) := fun S a ha => by cases ha
  have hbody1 : ScSL noPar stmts := by
    have hsp := spell_scoped noPar _ _ (hp0 _) (hm0 _) c.body hsc.body
    obtain ⟨bs, hbs⟩ := parseBuild_body hb
    rw [hbs] at hs hsp
    simp only [ExpandSubcircuits.spell, Bool.false_eq_true, if_false, ExpandSubcircuits.statementsOf, pure, Except.pure] at hs
    cases hs
    exact hsp
  have hst1 : StmtsIn stmts := by have := ht1.body; rw [hbody1eq] at this; exact this.2
  -- the rebuild
  obtain ⟨regs, hregs, hr⟩ := fillInLet_rebuilt' hbody1eq ht1.constants ht1.regLike h2
  obtain ⟨⟨ss, hss, hout⟩, houtm, _⟩ := filled_typed ht1 hbody1eq h2
  have hbuild : ∃ e, build (rebuildCfg c1) e = .ok c2 := by
    unfold fillInLet at h2
    obtain ⟨e, _, h⟩ := bind_ok h2
    exact ⟨e, h⟩
  obtain ⟨e, hbe⟩ := hbuild
  obtain ⟨hgb, hgm⟩ := built_gateShape _ _ _ hbe
  obtain ⟨hqb, hqm⟩ := built_fits _ _ _ hbe
  have hnames := C14_names_build _ _ _ hbe
  -- the native gates of the rebuilt circuit
  have hnat : (∀ g ∈ c2.natives, g.tag ≠ .macro) ∧ ((rebuildCfg c1).anonymousAllowed = true → c2.natives = []) := by
    rcases hr.natives with ⟨hn, hn'⟩ | ⟨hn, d, hd, hn'⟩
    · exact ⟨(by rw [hn']; intro g hg; cases hg), fun _ => hn'⟩
    · refine ⟨?_, ?_⟩
      · rw [hn']
        intro g hg
        obtain ⟨p, hp, rfl⟩ := List.mem_map.1 hg
        exact normNatives_tags hd p hp
      · intro ha
        exfalso
        simp only [Config.anonymousAllowed, rebuildCfg, Bool.and_eq_true] at ha
        have h1' := ha.1
        cases hcn : c1.natives with
        | nil => exact hn hcn
        | cons x xs => simp [hcn] at h1'
  have hnd : (c2.natives.map (·.name)).Nodup := (List.nodup_append.1 hnames.macroNames).2.1
  have hknown : ∀ gd ∈ gateDefsOf c2.body ++ (c2.macros.map (fun m => gateDefsOf m.body)).flatten,
      KnownDef c2.natives c2.macros gd := by
    intro gd hgd
    rcases hnames.known gd hgd with h | h | ⟨ha, hgd'⟩
    · exact Or.inl h
    · exact Or.inr (Or.inl h)
    · exact Or.inr (Or.inr ⟨hnat.2 ha, hgd'⟩)
  refine ⟨?_, ?_, ?_⟩
  · -- the body
    have hsc2 : ScSL noPar ss := by
      obtain ⟨ss', hss', hrel⟩ := hr.body
      rw [hss] at hss'
      cases hss'
      exact RelList_scoped stmts ss hst1 hbody1 hrel
    rw [hss] at hgb hqb hknown ⊢
    have : (fun n => decide (n ∈ ([] : List String))) = noPar := by funext n; simp [noPar]
    refine preS_of c2.natives c2.macros [] hnat.1 hnd _ hgb hqb ⟨rfl, hout⟩ (by rw [this]; exact hsc2) ?_
    intro gd hgd
    exact hknown gd (List.mem_append_left _ hgd)
  · -- the macros
    intro m' hm'
    obtain ⟨m1, hm1, hname, hpar, hrel⟩ := forall₂_right hr.macros m' hm'
    have hm1' := hm1
    rw [hmac1] at hm1'
    obtain ⟨m0, hm0', rfl⟩ := List.mem_map.1 hm1'
    have hsm : ScS (inNames m0.params) (ExpandSubcircuits.spell _ _ m0.body) :=
      spell_scoped _ _ _ (hp0 _) (hm0 _) m0.body (hsc.macros m0 hm0')
    have hS : (fun n => decide (n ∈ m'.params.map (·.1))) = inNames m0.params := by
      funext n
      simp only [inNames, hpar, ExpandSubcircuits.spellMacro, List.map_map, Function.comp_def]
    refine preS_of c2.natives c2.macros _ hnat.1 hnd _ (hgm m' hm') (hqm m' hm') (houtm m' hm') ?_ ?_
    · rw [hS]
      exact Rel_scoped _ m'.body (ht1.macros _ hm1) hsm hrel
    · intro gd hgd
      exact hknown gd (List.mem_append_right _ (List.mem_flatten.2 ⟨_, List.mem_map_of_mem hm', hgd⟩))
  · -- the registers
    rw [hr.registers]
    unfold regsT
    rw [List.all_eq_true]
    intro w hw
    obtain ⟨v0, hv0, hlv⟩ := mapM_ok hregs w hw
    show regPos w = true
    exact letVal_reg_pos (ht1.registers v0 hv0) (hrefs.registers v0 (by rw [← hreg1]; exact hv0)) hlv

end Jaqal.RunModel

#print axioms Jaqal.RunModel.filled_preC
