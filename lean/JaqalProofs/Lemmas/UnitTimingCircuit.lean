import JaqalModel.Model.UnitTimingCircuit
import JaqalModel.Spec.Schedule
import JaqalModel.Spec.Sem
import JaqalProofs.Lemmas.UnitTiming
/-!
Lemmas for `Props/C19Circuit.lean`: the unit-timing pass on the circuit IR (`Jaqal.UnitTimingCircuit`) refines the
skeleton pass (`Jaqal.UnitTiming`) along every labelling of gate statements and counts.
-/
namespace Jaqal.UnitTimingCircuit
open Jaqal

/-! ## skeletons -/

/-- How a circuit is read as a skeleton: a number for every gate statement (name, definition, arguments) and a
natural number for every count (iterations of a subcircuit block, count of a loop).  `cnt (.int 1) = 1` because the
pass builds blocks with the literal count `1`.  Nothing else is assumed: the theorems hold for EVERY labelling, in
particular for the injective ones (each distinct gate statement its own id) and for every valuation of let constants
and macro parameters used as counts. -/
structure Labelling where
  gate : String → GateDef → List (String × Val) → Nat
  cnt : Val → Nat
  cnt_one : cnt (.int 1) = 1

mutual
  /-- the skeleton of a statement -/
  def skel (L : Labelling) : Stmt → UnitTiming.Stmt
    | .gate n gd a => .gate (L.gate n gd a)
    | .block par sub it body => .block par sub (L.cnt it) (skelList L body)
    | .loop c b => .loop (L.cnt c) (skel L b)
  def skelList (L : Labelling) : List Stmt → List UnitTiming.Stmt
    | [] => []
    | s :: r => skel L s :: skelList L r
end

theorem skelList_eq_map (L : Labelling) (l : List Stmt) : skelList L l = l.map (skel L) := by
  induction l with
  | nil => rfl
  | cons s r ih => simp [skelList, ih]

theorem skelList_append (L : Labelling) (a b : List Stmt) : skelList L (a ++ b) = skelList L a ++ skelList L b := by
  simp [skelList_eq_map]

/-- the skeleton of the statements of the circuit's body -/
def skelBody (L : Labelling) (c : Circuit) : List UnitTiming.Stmt := skelList L c.body.stmts

/-! ## errors -/

/-- the exception the real pass raises for a failure of the skeleton -/
def toErr : UnitTiming.Err → Err
  | .loopInParallel => errLoop     -- `JaqalError`
  | .assertion => errAssert        -- `AssertionError`

theorem toErr_cls (e : UnitTiming.Err) :
    (toErr e).cls = match e with | .loopInParallel => "JaqalError" | .assertion => "AssertionError" := by
  cases e <;> rfl

/-- the constructor `BlockStatement(subcircuit=sub, iterations=it, …)` accepts its arguments -/
def blockOK (sub : Bool) (it : Val) : Bool := !(!sub && ExpandMacros.neq1 it) && !ExpandMacros.badCount it

mutual
  /-- every block the pass rebuilds (those not inside a loop) passes the constructor checks — true of every statement
  built through the public constructors -/
  def countsOK : Stmt → Bool
    | .gate _ _ _ => true
    | .loop _ _ => true
    | .block _ sub it body => blockOK sub it && countsOKList body
  def countsOKList : List Stmt → Bool
    | [] => true
    | s :: r => countsOK s && countsOKList r
end

theorem countsOKList_iff (l : List Stmt) : countsOKList l = true ↔ ∀ x ∈ l, countsOK x = true := by
  induction l with
  | nil => simp [countsOKList]
  | cons s r ih => simp [countsOKList, ih]

theorem mkSeqBlock_eq (sub : Bool) (it : Val) (body : List Stmt) :
    mkSeqBlock sub it body =
      if blockOK sub it then .ok (.block false sub it body)
      else if !sub && ExpandMacros.neq1 it then .error (.jaqal "iterations-of-non-subcircuit")
      else .error (.jaqal "count-not-integer") := by
  unfold mkSeqBlock ExpandMacros.mkBlock blockOK
  cases h1 : (!sub && ExpandMacros.neq1 it) <;> cases h2 : ExpandMacros.badCount it <;> simp [pure, Except.pure]

theorem mkSeqBlock_of_ok {sub it} (body : List Stmt) (h : blockOK sub it = true) :
    mkSeqBlock sub it body = .ok (.block false sub it body) := by
  simp [mkSeqBlock_eq, h]

theorem mkSeqBlock_of_bad {sub it} (body : List Stmt) (h : blockOK sub it = false) :
    ∃ e, mkSeqBlock sub it body = .error e := by
  rw [mkSeqBlock_eq]; simp only [h, Bool.false_eq_true, if_false]
  split <;> exact ⟨_, rfl⟩

theorem mkSeqBlock_ok {sub it body v} (h : mkSeqBlock sub it body = .ok v) :
    blockOK sub it = true ∧ v = .block false sub it body := by
  rw [mkSeqBlock_eq] at h
  split at h
  · rename_i hb; simp at h; exact ⟨hb, h.symm⟩
  · split at h <;> cases h

/-! ## the simulation relation -/

/-- `Sim f ok r r'`: the run `r` of the real pass and the run `r'` of the skeleton pass agree — equal results up to
`f`; a failure of the skeleton is the same failure of the real pass; the real pass fails where the skeleton does not
only when a constructor check fails (`ok` false). -/
def Sim {α β} (f : α → β) (ok : Prop) : M α → Except UnitTiming.Err β → Prop
  | .ok a, .ok b => b = f a
  | .error e, .error e' => ok → e = toErr e'
  | .error _, .ok _ => ¬ ok
  | .ok _, .error _ => False

theorem unroll_skel (L : Labelling) (s : Stmt) : UnitTiming.unroll (skel L s) = skelList L (unroll s) := by
  cases s with
  | gate n gd a => simp [skel, UnitTiming.unroll, unroll, skelList]
  | loop c b => simp [skel, UnitTiming.unroll, unroll, skelList]
  | block par sub it body =>
    simp only [skel, UnitTiming.unroll, unroll]
    split <;> simp [skelList, skel]

theorem unrollAll_skel (L : Labelling) (l : List Stmt) :
    UnitTiming.unrollAll (skelList L l) = skelList L (unrollAll l) := by
  induction l with
  | nil => rfl
  | cons s r ih => simp [skelList, UnitTiming.unrollAll, unrollAll, unroll_skel, ih, skelList_append]

theorem zipCons_map {α β} (f : α → β) (l : List α) (rows : List (List α)) :
    UnitTiming.zipCons (l.map f) (rows.map (List.map f)) = (UnitTiming.zipCons l rows).map (List.map f) := by
  induction l generalizing rows with
  | nil => simp [UnitTiming.zipCons]
  | cons a as ih =>
    cases rows with
    | nil => have := ih []; simp only [List.map_nil] at this; simp [UnitTiming.zipCons, this]
    | cons r rs => simp [UnitTiming.zipCons, ih]

theorem zipLongest_map {α β} (f : α → β) (S : List (List α)) :
    UnitTiming.zipLongest (S.map (List.map f)) = (UnitTiming.zipLongest S).map (List.map f) := by
  induction S with
  | nil => rfl
  | cons l ls ih => simp only [List.map_cons, UnitTiming.zipLongest, ih, zipCons_map]

theorem chunkOf_sim (L : Labelling) (row : List Stmt) :
    Sim (skelList L) True (chunkOf row) (UnitTiming.chunkOf (skelList L row)) := by
  induction row with
  | nil => simp [chunkOf, UnitTiming.chunkOf, skelList, Sim]
  | cons s r ih =>
    cases s with
    | gate n gd a =>
      simp only [chunkOf, skelList, skel, UnitTiming.chunkOf]
      cases h1 : chunkOf r <;> cases h2 : UnitTiming.chunkOf (skelList L r) <;>
        simp_all [Sim, Except.map, skelList, skel]
    | loop c b =>
      simp [chunkOf, skelList, skel, UnitTiming.chunkOf, Sim, toErr]
    | block par sub it body =>
      simp only [chunkOf, skelList, skel, UnitTiming.chunkOf]
      cases par
      · simp [Sim, toErr]
      · simp only [if_true]
        cases h1 : chunkOf r <;> cases h2 : UnitTiming.chunkOf (skelList L r) <;>
          simp_all [Sim, Except.map, skelList_append]

theorem chunkRows_sim (L : Labelling) (rows : List (List Stmt)) :
    Sim (List.map (skelList L)) True (chunkRows rows) (UnitTiming.chunkRows (rows.map (skelList L))) := by
  induction rows with
  | nil => simp [chunkRows, UnitTiming.chunkRows, Sim]
  | cons r rs ih =>
    have h := chunkOf_sim L r
    simp only [chunkRows, List.map_cons, UnitTiming.chunkRows]
    cases h1 : chunkOf r <;> cases h2 : UnitTiming.chunkOf (skelList L r) <;> simp_all [Sim]
    cases h3 : chunkRows rs <;> cases h4 : UnitTiming.chunkRows (rs.map (skelList L)) <;> simp_all

theorem chunkBlocks_sim (L : Labelling) (vs : List Stmt) :
    Sim (List.map (skelList L)) True (chunkBlocks vs) (UnitTiming.chunkBlocks (skelList L vs)) := by
  have h := chunkRows_sim L (UnitTiming.zipLongest (vs.map unroll))
  have e : (skelList L vs).map UnitTiming.unroll = (vs.map unroll).map (List.map (skel L)) := by
    simp [skelList_eq_map, unroll_skel]
  have e2 : (fun l => skelList L l) = List.map (skel L) := by funext l; exact skelList_eq_map L l
  unfold chunkBlocks UnitTiming.chunkBlocks
  rw [e, zipLongest_map]
  simpa [e2] using h

theorem emit_skel (L : Labelling) (c : List Stmt) : skel L (emit c) = UnitTiming.emit (skelList L c) := by
  match c with
  | [] => simp [emit, UnitTiming.emit, skel, skelList, L.cnt_one]
  | [s] => simp [emit, UnitTiming.emit, skelList]
  | s :: t :: r => simp [emit, UnitTiming.emit, skel, skelList, L.cnt_one]

theorem emit_map_skel (L : Labelling) (cs : List (List Stmt)) :
    skelList L (cs.map emit) = (cs.map (skelList L)).map UnitTiming.emit := by
  induction cs with
  | nil => rfl
  | cons c r ih => simp [skelList, emit_skel, ih]

/-- the core of the refinement: statement by statement, the two passes simulate each other -/
theorem normalize_sim (L : Labelling) :
    ∀ s : Stmt, Sim (skel L) (countsOK s = true) (normalizeStmt s) (UnitTiming.normalize (skel L s)) := by
  intro s
  induction s using Stmt.rec (motive_2 := fun l =>
      Sim (skelList L) (countsOKList l = true) (normalizeList l) (UnitTiming.normalizeList (skelList L l))) with
  | gate n gd a => simp [normalizeStmt, skel, UnitTiming.normalize, Sim]
  | loop c b _ => simp [normalizeStmt, skel, UnitTiming.normalize, Sim]
  | nil => simp [normalizeList, skelList, UnitTiming.normalizeList, Sim]
  | cons s r ihs ihr =>
    simp only [normalizeList, skelList, UnitTiming.normalizeList, countsOKList, Bool.and_eq_true]
    cases h1 : normalizeStmt s <;> cases h2 : UnitTiming.normalize (skel L s) <;>
      cases h3 : normalizeList r <;> cases h4 : UnitTiming.normalizeList (skelList L r) <;>
      simp_all [Sim, skelList]
  | block par sub it body ih =>
    simp only [normalizeStmt, skel, UnitTiming.normalize, countsOK, Bool.and_eq_true]
    cases par
    · simp only [Bool.false_eq_true, if_false]
      cases h1 : normalizeList body <;> cases h2 : UnitTiming.normalizeList (skelList L body) <;>
        simp only [h1, h2, Sim] at ih ⊢
      · intro h; exact ih h.2
      · intro h; exact ih h.2
      · rename_i vs ws
        subst ih
        cases hb : blockOK sub it
        · obtain ⟨e, he⟩ := mkSeqBlock_of_bad (unrollAll vs) hb
          rw [he]; simp
        · rw [mkSeqBlock_of_ok _ hb]; simp [skel, unrollAll_skel]
    · simp only [if_true]
      cases h1 : normalizeList body <;> cases h2 : UnitTiming.normalizeList (skelList L body) <;>
        simp only [h1, h2, Sim] at ih ⊢
      · intro h; exact ih h.2
      · rename_i e ws
        cases UnitTiming.chunkBlocks ws <;> simp only
        · intro h; exact absurd h.2 ih
        · intro h; exact ih h.2
      · rename_i vs ws
        subst ih
        have hc := chunkBlocks_sim L vs
        cases h3 : chunkBlocks vs <;> cases h4 : UnitTiming.chunkBlocks (skelList L vs) <;>
          simp only [h3, h4, Sim] at hc ⊢
        · intro _; exact hc trivial
        · exact absurd trivial hc
        · subst hc
          cases hb : blockOK sub it
          · obtain ⟨e, he⟩ := mkSeqBlock_of_bad (List.map emit _) hb
            rw [he]; simp
          · rw [mkSeqBlock_of_ok _ hb]; simp [skel, emit_map_skel]

theorem normalizeList_sim (L : Labelling) (l : List Stmt) :
    Sim (skelList L) (countsOKList l = true) (normalizeList l) (UnitTiming.normalizeList (skelList L l)) := by
  induction l with
  | nil => simp [normalizeList, skelList, UnitTiming.normalizeList, Sim]
  | cons s r ihr =>
    have ihs := normalize_sim L s
    simp only [normalizeList, skelList, UnitTiming.normalizeList, countsOKList, Bool.and_eq_true]
    cases h1 : normalizeStmt s <;> cases h2 : UnitTiming.normalize (skel L s) <;>
      cases h3 : normalizeList r <;> cases h4 : UnitTiming.normalizeList (skelList L r) <;>
      simp_all [Sim, skelList]

/-! ## consequences of the simulation -/

theorem normalize_refines (L : Labelling) {s v} (h : normalizeStmt s = .ok v) :
    UnitTiming.normalize (skel L s) = .ok (skel L v) := by
  have := normalize_sim L s
  rw [h] at this
  cases h2 : UnitTiming.normalize (skel L s) <;> simp only [h2, Sim] at this
  rw [this]

theorem normalizeList_refines (L : Labelling) {l vs} (h : normalizeList l = .ok vs) :
    UnitTiming.normalizeList (skelList L l) = .ok (skelList L vs) := by
  have := normalizeList_sim L l
  rw [h] at this
  cases h2 : UnitTiming.normalizeList (skelList L l) <;> simp only [h2, Sim] at this
  rw [this]

theorem normalize_error_refines (L : Labelling) {s e} (h : normalizeStmt s = .error e) (hok : countsOK s = true) :
    ∃ e', UnitTiming.normalize (skel L s) = .error e' ∧ e = toErr e' := by
  have := normalize_sim L s
  rw [h] at this
  cases h2 : UnitTiming.normalize (skel L s) <;> simp only [h2, Sim] at this
  · exact ⟨_, rfl, this hok⟩
  · exact absurd hok this

theorem normalize_of_skel_ok (L : Labelling) {s w} (h : UnitTiming.normalize (skel L s) = .ok w)
    (hok : countsOK s = true) : ∃ v, normalizeStmt s = .ok v ∧ w = skel L v := by
  have := normalize_sim L s
  rw [h] at this
  cases h1 : normalizeStmt s <;> simp only [h1, Sim] at this
  · exact absurd hok this
  · exact ⟨_, rfl, this⟩

theorem normalize_of_skel_error (L : Labelling) {s e'} (h : UnitTiming.normalize (skel L s) = .error e')
    (hok : countsOK s = true) : normalizeStmt s = .error (toErr e') := by
  have := normalize_sim L s
  rw [h] at this
  cases h1 : normalizeStmt s <;> simp only [h1, Sim] at this
  rw [this hok]

/-! ## rule induction over successful runs of the real pass -/

theorem normalizeStmt_block_ok {par sub it body v} (h : normalizeStmt (.block par sub it body) = .ok v) :
    blockOK sub it = true ∧ ∃ vs, normalizeList body = .ok vs ∧
      ((par = false ∧ v = .block false sub it (unrollAll vs)) ∨
       (par = true ∧ ∃ chunks, chunkBlocks vs = .ok chunks ∧ v = .block false sub it (chunks.map emit))) := by
  simp only [normalizeStmt] at h
  split at h
  · cases h
  · rename_i vs hvs
    cases par
    · simp only [Bool.false_eq_true, if_false] at h
      obtain ⟨hb, rfl⟩ := mkSeqBlock_ok h
      exact ⟨hb, vs, hvs, .inl ⟨rfl, rfl⟩⟩
    · simp only [if_true] at h
      split at h
      · cases h
      · rename_i chunks hc
        obtain ⟨hb, rfl⟩ := mkSeqBlock_ok h
        exact ⟨hb, vs, hvs, .inr ⟨rfl, chunks, hc, rfl⟩⟩

theorem normalizeList_cons_ok {s ss out} (h : normalizeList (s :: ss) = .ok out) :
    ∃ v vs, normalizeStmt s = .ok v ∧ normalizeList ss = .ok vs ∧ out = v :: vs := by
  simp only [normalizeList] at h
  split at h
  · cases h
  · rename_i v hv
    split at h
    · cases h
    · rename_i vs hvs
      simp at h; exact ⟨v, vs, hv, hvs, h.symm⟩

theorem normalize_ok_rec {P : Stmt → Stmt → Prop} {Q : List Stmt → List Stmt → Prop}
    (gate : ∀ n gd a, P (.gate n gd a) (.gate n gd a))
    (loop : ∀ c b, P (.loop c b) (.loop c b))
    (seq : ∀ sub it body vs, blockOK sub it = true → normalizeList body = .ok vs → Q body vs →
      P (.block false sub it body) (.block false sub it (unrollAll vs)))
    (par : ∀ sub it body vs chunks, blockOK sub it = true → normalizeList body = .ok vs → Q body vs →
      chunkBlocks vs = .ok chunks → P (.block true sub it body) (.block false sub it (chunks.map emit)))
    (nil : Q [] [])
    (cons : ∀ s ss v vs, normalizeStmt s = .ok v → normalizeList ss = .ok vs → P s v → Q ss vs →
      Q (s :: ss) (v :: vs)) :
    (∀ s v, normalizeStmt s = .ok v → P s v) ∧ (∀ l vs, normalizeList l = .ok vs → Q l vs) := by
  have key : ∀ s : Stmt, (∀ v, normalizeStmt s = .ok v → P s v) := by
    intro s
    induction s using Stmt.rec (motive_2 := fun l => ∀ vs, normalizeList l = .ok vs → Q l vs) with
    | gate n gd a => intro v h; simp [normalizeStmt] at h; subst h; exact gate n gd a
    | loop c b _ => intro v h; simp [normalizeStmt] at h; subst h; exact loop c b
    | block p sub it body ih =>
      intro v h
      obtain ⟨hb, vs, hvs, h | h⟩ := normalizeStmt_block_ok h
      · obtain ⟨rfl, rfl⟩ := h; exact seq _ _ _ _ hb hvs (ih vs hvs)
      · obtain ⟨rfl, chunks, hc, rfl⟩ := h; exact par _ _ _ _ _ hb hvs (ih vs hvs) hc
    | nil => rename_i vs h; simp [normalizeList] at h; subst h; exact nil
    | cons s ss ihs ihss =>
      rename_i out h
      obtain ⟨v, vs, hv, hvs, rfl⟩ := normalizeList_cons_ok h
      exact cons _ _ _ _ hv hvs (ihs v hv) (ihss vs hvs)
  refine ⟨key, ?_⟩
  intro l
  induction l with
  | nil => intro vs h; simp [normalizeList] at h; subst h; exact nil
  | cons s ss ih =>
    intro out h
    obtain ⟨v, vs, hv, hvs, rfl⟩ := normalizeList_cons_ok h
    exact cons _ _ _ _ hv hvs (key s v hv) (ih vs hvs)

/-! ## gate statements are carried over verbatim; the rebuilt blocks pass the constructor checks -/

/-- a gate statement: name, definition, arguments -/
abbrev GateStmt := String × GateDef × List (String × Val)

mutual
  /-- the gate statements of a statement in program order (the body of a loop counted once) -/
  def gates : Stmt → List GateStmt
    | .gate n gd a => [(n, gd, a)]
    | .block _ _ _ body => gatesList body
    | .loop _ b => gates b
  def gatesList : List Stmt → List GateStmt
    | [] => []
    | s :: r => gates s ++ gatesList r
end

theorem gatesList_eq_flatMap (l : List Stmt) : gatesList l = l.flatMap gates := by
  induction l with
  | nil => rfl
  | cons s r ih => simp [gatesList, ih]

theorem gatesList_append (a b : List Stmt) : gatesList (a ++ b) = gatesList a ++ gatesList b := by
  simp [gatesList_eq_flatMap]

theorem gatesList_perm {a b : List Stmt} (h : a.Perm b) : (gatesList a).Perm (gatesList b) := by
  rw [gatesList_eq_flatMap, gatesList_eq_flatMap]; exact h.flatMap_right _

theorem gatesList_flatten (rows : List (List Stmt)) : gatesList rows.flatten = (rows.map gatesList).flatten := by
  induction rows with
  | nil => rfl
  | cons r rs ih => simp [gatesList_append, ih]

theorem gatesList_unroll (v : Stmt) : gatesList (unroll v) = gates v := by
  cases v with
  | gate n gd a => simp [unroll, gatesList, gates]
  | loop c b => simp [unroll, gatesList, gates]
  | block par sub it body => simp only [unroll]; split <;> simp [gatesList, gates]

theorem gatesList_unrollAll (vs : List Stmt) : gatesList (unrollAll vs) = gatesList vs := by
  induction vs with
  | nil => rfl
  | cons v r ih => simp [unrollAll, gatesList_append, gatesList_unroll, gatesList, ih]

theorem unrollAll_eq_flatten (vs : List Stmt) : unrollAll vs = (vs.map unroll).flatten := by
  induction vs with
  | nil => rfl
  | cons v r ih => simp [unrollAll, ih]

theorem gates_emit (c : List Stmt) : gates (emit c) = gatesList c := by
  match c with
  | [] => rfl
  | [s] => simp [emit, gatesList]
  | s :: t :: r => simp [emit, gates]

theorem chunkOf_ok {row c} (h : chunkOf row = .ok c) :
    gatesList c = gatesList row ∧ ((∀ x ∈ row, countsOK x = true) → ∀ x ∈ c, countsOK x = true) := by
  induction row generalizing c with
  | nil => simp [chunkOf] at h; subst h; simp
  | cons s r ih =>
    cases s with
    | loop cnt b => simp [chunkOf] at h
    | gate n gd a =>
      simp only [chunkOf] at h
      split at h
      · cases h
      · rename_i c' hc'
        simp at h; subst h
        obtain ⟨h1, h2⟩ := ih hc'
        refine ⟨by simp [gatesList, h1], fun hall x hx => ?_⟩
        simp only [List.mem_cons] at hx
        rcases hx with rfl | hx
        · rfl
        · exact h2 (fun y hy => hall y (by simp [hy])) x hx
    | block par sub it body =>
      simp only [chunkOf] at h
      cases par
      · simp at h
      · simp only [if_true] at h
        split at h
        · cases h
        · rename_i c' hc'
          simp at h; subst h
          obtain ⟨h1, h2⟩ := ih hc'
          refine ⟨by simp [gatesList, gates, gatesList_append, h1], fun hall x hx => ?_⟩
          simp only [List.mem_append] at hx
          rcases hx with hx | hx
          · have := hall (.block true sub it body) (by simp)
            simp only [countsOK, Bool.and_eq_true] at this
            exact (countsOKList_iff body).1 this.2 x hx
          · exact h2 (fun y hy => hall y (by simp [hy])) x hx

theorem chunkRows_ok {rows cs} (h : chunkRows rows = .ok cs) :
    gatesList cs.flatten = gatesList rows.flatten ∧
    ((∀ r ∈ rows, ∀ x ∈ r, countsOK x = true) → ∀ c ∈ cs, ∀ x ∈ c, countsOK x = true) := by
  induction rows generalizing cs with
  | nil => simp [chunkRows] at h; subst h; simp
  | cons r rs ih =>
    simp only [chunkRows] at h
    split at h
    · cases h
    · rename_i c hc
      split at h
      · cases h
      · rename_i cs' hcs'
        simp at h; subst h
        obtain ⟨g1, k1⟩ := chunkOf_ok hc
        obtain ⟨g2, k2⟩ := ih hcs'
        refine ⟨by simp [gatesList_append, g1, g2], fun hall c' hc' x hx => ?_⟩
        simp only [List.mem_cons] at hc'
        rcases hc' with rfl | hc'
        · exact k1 (hall r (by simp)) x hx
        · exact k2 (fun r' hr' => hall r' (by simp [hr'])) c' hc' x hx

theorem countsOK_unroll {v} (h : countsOK v = true) : ∀ x ∈ unroll v, countsOK x = true := by
  cases v with
  | gate n gd a => simpa [unroll] using h
  | loop c b => simpa [unroll] using h
  | block par sub it body =>
    simp only [unroll]
    split
    · simpa using h
    · simp only [countsOK, Bool.and_eq_true] at h
      exact (countsOKList_iff body).1 h.2

theorem countsOK_emit {c : List Stmt} (h : ∀ x ∈ c, countsOK x = true) : countsOK (emit c) = true := by
  match c, h with
  | [], _ => rfl
  | [s], h => simpa [emit] using h s (by simp)
  | s :: t :: r, h =>
    simp only [emit, countsOK, Bool.and_eq_true]
    exact ⟨rfl, (countsOKList_iff _).2 h⟩

/-- what a successful run says: gate statements carried over as a multiset, constructor checks hold in the result -/
theorem normalize_inv :
    (∀ s v, normalizeStmt s = .ok v → countsOK v = true ∧ (gates v).Perm (gates s)) ∧
    (∀ l vs, normalizeList l = .ok vs → (∀ x ∈ vs, countsOK x = true) ∧ (gatesList vs).Perm (gatesList l)) := by
  apply normalize_ok_rec
  · intro n gd a; exact ⟨rfl, List.Perm.refl _⟩
  · intro c b; exact ⟨rfl, List.Perm.refl _⟩
  · intro sub it body vs hb _ ⟨hok, hp⟩
    refine ⟨?_, ?_⟩
    · simp only [countsOK, hb, Bool.true_and]
      refine (countsOKList_iff _).2 ?_
      rw [unrollAll_eq_flatten]
      intro x hx
      obtain ⟨l, hl, hxl⟩ := List.mem_flatten.1 hx
      obtain ⟨v, hv, rfl⟩ := List.mem_map.1 hl
      exact countsOK_unroll (hok v hv) x hxl
    · simpa [gates, gatesList_unrollAll] using hp
  · intro sub it body vs chunks hb _ ⟨hok, hp⟩ hc
    unfold chunkBlocks at hc
    obtain ⟨g, k⟩ := chunkRows_ok hc
    refine ⟨?_, ?_⟩
    · simp only [countsOK, hb, Bool.true_and]
      refine (countsOKList_iff _).2 ?_
      intro x hx
      obtain ⟨c, hcm, rfl⟩ := List.mem_map.1 hx
      refine countsOK_emit (k ?_ c hcm)
      refine UnitTiming.zipLongest_forall _ ?_
      intro l hl x hxl
      obtain ⟨v, hv, rfl⟩ := List.mem_map.1 hl
      exact countsOK_unroll (hok v hv) x hxl
    · simp only [gates]
      have e1 : gatesList (chunks.map emit) = gatesList chunks.flatten := by
        rw [gatesList_flatten, gatesList_eq_flatMap, List.flatMap_map]
        simp [gates_emit, List.flatMap_def]
      rw [e1, g]
      refine (gatesList_perm (UnitTiming.zipLongest_flatten_perm _)).trans ?_
      rw [← unrollAll_eq_flatten, gatesList_unrollAll]
      exact hp
  · exact ⟨by simp, List.Perm.refl _⟩
  · intro s ss v vs _ _ ⟨h1, p1⟩ ⟨h2, p2⟩
    refine ⟨?_, ?_⟩
    · intro x hx
      simp only [List.mem_cons] at hx
      rcases hx with rfl | hx
      · exact h1
      · exact h2 x hx
    · simp only [gatesList]; exact p1.append p2

/-! ## list-level consequences of the simulation -/

theorem normalizeList_error_refines (L : Labelling) {l e} (h : normalizeList l = .error e)
    (hok : countsOKList l = true) : ∃ e', UnitTiming.normalizeList (skelList L l) = .error e' ∧ e = toErr e' := by
  have := normalizeList_sim L l
  rw [h] at this
  cases h2 : UnitTiming.normalizeList (skelList L l) <;> simp only [h2, Sim] at this
  · exact ⟨_, rfl, this hok⟩
  · exact absurd hok this

theorem normalizeList_of_skel_ok (L : Labelling) {l ws} (h : UnitTiming.normalizeList (skelList L l) = .ok ws)
    (hok : countsOKList l = true) : ∃ vs, normalizeList l = .ok vs ∧ ws = skelList L vs := by
  have := normalizeList_sim L l
  rw [h] at this
  cases h1 : normalizeList l <;> simp only [h1, Sim] at this
  · exact absurd hok this
  · exact ⟨_, rfl, this⟩

theorem normalizeList_of_skel_error (L : Labelling) {l e'} (h : UnitTiming.normalizeList (skelList L l) = .error e')
    (hok : countsOKList l = true) : normalizeList l = .error (toErr e') := by
  have := normalizeList_sim L l
  rw [h] at this
  cases h1 : normalizeList l <;> simp only [h1, Sim] at this
  rw [this hok]

/-! ## the circuit level -/

/-- the body of the circuit is a sequential block (always the case for a `Circuit` object: `Circuit.__init__` makes
`BlockStatement()` and there is no setter) -/
def SeqBody (c : Circuit) : Prop := ∃ sub it b, c.body = .block false sub it b

/-- what every circuit built through the public constructors satisfies: the native gates are gate definitions, the body
is a sequential block, every block outside the loops passes the `BlockStatement` constructor checks -/
def WF (c : Circuit) : Prop := badNatives c = false ∧ SeqBody c ∧ countsOK c.body = true

/-- the circuit returned for the visited body statements `vs` -/
def rebuilt (c : Circuit) (vs : List Stmt) : Circuit :=
  { usepulses := c.usepulses, constants := c.constants, registers := c.registers, macros := c.macros,
    natives := c.natives, body := .block false false (.int 1) (unrollAll vs) }

theorem normalizeCircuit_ok {c c' sub it b} (hb : c.body = .block false sub it b) (h : normalizeCircuit c = .ok c') :
    badNatives c = false ∧ blockOK sub it = true ∧ ∃ vs, normalizeList b = .ok vs ∧ c' = rebuilt c vs := by
  unfold normalizeCircuit at h
  split at h
  · cases h
  · rename_i hn
    rw [hb] at h
    split at h
    · cases h
    · rename_i body hbody
      obtain ⟨hbk, vs, hvs, hcase⟩ := normalizeStmt_block_ok hbody
      rcases hcase with ⟨_, rfl⟩ | ⟨hp, _⟩
      · simp only [ExpandMacros.statementsOf, pure, Except.pure] at h
        simp only [Except.ok.injEq] at h
        exact ⟨by simpa using hn, hbk, vs, hvs, h.symm⟩
      · cases hp

theorem normalizeCircuit_of_list_ok {c sub it b vs} (hb : c.body = .block false sub it b) (hn : badNatives c = false)
    (hbk : blockOK sub it = true) (hvs : normalizeList b = .ok vs) : normalizeCircuit c = .ok (rebuilt c vs) := by
  unfold normalizeCircuit
  simp only [hn, Bool.false_eq_true, if_false, hb, normalizeStmt, hvs, mkSeqBlock_of_ok _ hbk]
  rfl

theorem normalizeCircuit_of_list_error {c sub it b e} (hb : c.body = .block false sub it b) (hn : badNatives c = false)
    (hvs : normalizeList b = .error e) : normalizeCircuit c = .error e := by
  unfold normalizeCircuit
  simp only [hn, Bool.false_eq_true, if_false, hb, normalizeStmt, hvs]

theorem normalizeCircuit_error {c e sub it b} (hb : c.body = .block false sub it b) (hn : badNatives c = false)
    (hbk : blockOK sub it = true) (h : normalizeCircuit c = .error e) : normalizeList b = .error e := by
  cases hvs : normalizeList b with
  | error e' => rw [normalizeCircuit_of_list_error hb hn hvs] at h; cases h; rfl
  | ok vs => rw [normalizeCircuit_of_list_ok hb hn hbk hvs] at h; cases h

theorem skelBody_rebuilt (L : Labelling) (c : Circuit) (vs : List Stmt) :
    skelBody L (rebuilt c vs) = skelList L (unrollAll vs) := rfl

theorem normalizeBody_skel_ok (L : Labelling) {b vs} (h : normalizeList b = .ok vs) :
    UnitTiming.normalizeBody (skelList L b) = .ok (skelList L (unrollAll vs)) := by
  simp [UnitTiming.normalizeBody, normalizeList_refines L h, unrollAll_skel]

/-! ## a labelling that is injective on a given circuit -/

mutual
  /-- every count of a statement (iterations of blocks, counts of loops, also inside loops) -/
  def cnts : Stmt → List Val
    | .gate _ _ _ => []
    | .block _ _ it body => it :: cntsList body
    | .loop c b => c :: cnts b
  def cntsList : List Stmt → List Val
    | [] => []
    | s :: r => cnts s ++ cntsList r
end

mutual
  /-- every gate statement, also inside loops (same as `gates`; kept separate for clarity of use) -/
  def allGates : Stmt → List GateStmt
    | .gate n gd a => [(n, gd, a)]
    | .block _ _ _ body => allGatesList body
    | .loop _ b => allGates b
  def allGatesList : List Stmt → List GateStmt
    | [] => []
    | s :: r => allGates s ++ allGatesList r
end

/-- position in a list as a label: injective on the members, and no non-member gets the label of a member -/
def listLabelling (G : List GateStmt) (V : List Val) : Labelling where
  gate n gd a := G.idxOf (n, gd, a)
  cnt v := if v = .int 1 then 1 else V.idxOf v + 2
  cnt_one := by simp

theorem idxOf_eq_of_mem {α} [BEq α] [LawfulBEq α] {l : List α} {x y : α} (hx : x ∈ l) (h : l.idxOf y = l.idxOf x) : y = x := by
  have hlt : l.idxOf x < l.length := List.idxOf_lt_length_iff.2 hx
  have hlt' : l.idxOf y < l.length := h ▸ hlt
  have e1 := List.getElem_idxOf hlt
  have e2 := List.getElem_idxOf hlt'
  rw [← e1, ← e2]
  simp [h]

theorem listLabelling_cnt_inj {G V} {v v' : Val} (hv : v ∈ V)
    (h : (listLabelling G V).cnt v' = (listLabelling G V).cnt v) : v' = v := by
  simp only [listLabelling] at h
  by_cases h1 : v = .int 1 <;> by_cases h2 : v' = .int 1 <;> simp only [h1, h2, if_true, if_false] at h
  · rw [h1, h2]
  · omega
  · omega
  · exact idxOf_eq_of_mem hv (by omega)

/-- a statement is determined by its skeleton under a labelling by position in lists that contain its gate statements and
counts -/
theorem skel_listLabelling_inj (G : List GateStmt) (V : List Val) :
    ∀ s : Stmt, (∀ g ∈ allGates s, g ∈ G) → (∀ v ∈ cnts s, v ∈ V) →
      ∀ s', skel (listLabelling G V) s' = skel (listLabelling G V) s → s' = s := by
  intro s
  induction s using Stmt.rec (motive_2 := fun l => (∀ g ∈ allGatesList l, g ∈ G) → (∀ v ∈ cntsList l, v ∈ V) →
      ∀ l', skelList (listLabelling G V) l' = skelList (listLabelling G V) l → l' = l) with
  | gate n gd a =>
    intro hg _ s' h
    cases s' with
    | gate n' gd' a' =>
      simp only [skel, UnitTiming.Stmt.gate.injEq] at h
      have := idxOf_eq_of_mem (y := (n', gd', a')) (hg (n, gd, a) (by simp [allGates]))
        (show G.idxOf (n', gd', a') = G.idxOf (n, gd, a) from h)
      simp only [Prod.mk.injEq] at this
      obtain ⟨rfl, rfl, rfl⟩ := this; rfl
    | block _ _ _ _ => simp [skel] at h
    | loop _ _ => simp [skel] at h
  | loop c b ih =>
    intro hg hv s' h
    cases s' with
    | loop c' b' =>
      simp only [skel, UnitTiming.Stmt.loop.injEq] at h
      have e1 := listLabelling_cnt_inj (hv c (by simp [cnts])) h.1
      have e2 := ih (fun g hgm => hg g (by simpa [allGates] using hgm))
        (fun v hvm => hv v (by simp [cnts, hvm])) b' h.2
      rw [e1, e2]
    | block _ _ _ _ => simp [skel] at h
    | gate _ _ _ => simp [skel] at h
  | block par sub it body ih =>
    intro hg hv s' h
    cases s' with
    | block par' sub' it' body' =>
      simp only [skel, UnitTiming.Stmt.block.injEq] at h
      obtain ⟨rfl, rfl, h3, h4⟩ := h
      have e1 := listLabelling_cnt_inj (hv it (by simp [cnts])) h3
      have e2 := ih (fun g hgm => hg g (by simpa [allGates] using hgm))
        (fun v hvm => hv v (by simp [cnts, hvm])) body' h4
      rw [e1, e2]
    | loop _ _ => simp [skel] at h
    | gate _ _ _ => simp [skel] at h
  | nil =>
    rename_i _ _ l' h
    cases l' with
    | nil => rfl
    | cons _ _ => simp [skelList] at h
  | cons s r ihs ihr =>
    rename_i hg hv l' h
    cases l' with
    | nil => simp [skelList] at h
    | cons s' r' =>
      simp only [skelList, List.cons.injEq] at h
      have e1 := ihs (fun g hgm => hg g (by simp [allGatesList, hgm])) (fun v hvm => hv v (by simp [cntsList, hvm])) s' h.1
      have e2 := ihr (fun g hgm => hg g (by simp [allGatesList, hgm])) (fun v hvm => hv v (by simp [cntsList, hvm])) r' h.2
      rw [e1, e2]

/-- the labelling by position in the lists of gate statements and counts of `l` -/
def selfLabelling (l : List Stmt) : Labelling := listLabelling (allGatesList l) (.int 1 :: cntsList l)

/-- a statement list is determined by its skeleton under its own labelling -/
theorem skelList_inj_self (l l' : List Stmt)
    (h : skelList (selfLabelling l) l' = skelList (selfLabelling l) l) : l' = l := by
  have := skel_listLabelling_inj (allGatesList l) (.int 1 :: cntsList l) (.block false false (.int 1) l)
    (by simp [allGates]) (by intro v hv; simpa [cnts] using hv)
    (.block false false (.int 1) l') (by simp only [skel]; unfold selfLabelling at h; rw [h])
  simpa using this

/-! ## gate-level meaning (`Spec/Sem.lean`) -/

section Meaning
open Jaqal.Sem

theorem unrollList_append' : ∀ (a b : List Sem), Sem.unrollList (a ++ b) = Sem.unrollList a ++ Sem.unrollList b
  | [], b => by simp [Sem.unrollList]
  | x :: r, b => by simp [Sem.unrollList, unrollList_append' r b]

mutual
  /-- (as `RunModel.unroll_norm`; repeated here to keep this file's imports light) -/
  theorem unroll_norm' : ∀ (s : Sem), s.norm.unroll = s.unroll
    | .gate n a => by simp [Sem.norm]
    | .loop n b => by simp [Sem.norm, Sem.unroll, unroll_norm' b]
    | .blk par sub it body => by simp [Sem.norm, Sem.unroll, unrollList_normList' par body]
  theorem unrollList_normList' (par : Bool) : ∀ (l : List Sem), Sem.unrollList (normList par l) = Sem.unrollList l
    | [] => by simp [normList]
    | .gate n a :: r => by simp [normList, Sem.norm, Sem.unrollList, unrollList_normList' par r]
    | .loop n b :: r => by
      simp [normList, Sem.norm, Sem.unrollList, Sem.unroll, unroll_norm' b, unrollList_normList' par r]
    | .blk p true it body :: r => by
      simp [normList, Sem.norm, Sem.unrollList, Sem.unroll, unrollList_normList' p body, unrollList_normList' par r]
    | .blk p false it body :: r => by
      simp only [normList]
      by_cases hp : p = par
      · subst hp
        simp only [if_true, unrollList_append', Sem.unrollList, Sem.unroll, unrollList_normList' p body,
          unrollList_normList' p r]
      · simp only [hp, if_false, Sem.unrollList, Sem.unroll, unrollList_normList' p body, unrollList_normList' par r]
end

variable (ρ : Env) (md : MacroDen) (bd : Bind)

/-- the statement has a meaning -/
def Evaluable (s : Stmt) : Prop := ∃ m, evalStmt ρ md bd s = .ok m

/-- the unrolled gate applications of a statement (nothing when it has no meaning) -/
def apps (s : Stmt) : List GateApp :=
  match evalStmt ρ md bd s with
  | .ok m => m.unroll
  | .error _ => []

def appsList (l : List Stmt) : List GateApp := l.flatMap (apps ρ md bd)

theorem evalStmts_ok {l : List Stmt} {ms} (h : evalStmts ρ md bd l = .ok ms) :
    (∀ x ∈ l, Evaluable ρ md bd x) ∧ Sem.unrollList ms = appsList ρ md bd l := by
  induction l generalizing ms with
  | nil => simp [evalStmts, pure, Except.pure] at h; subst h; simp [Sem.unrollList, appsList]
  | cons s r ih =>
    simp only [evalStmts, bind, Except.bind] at h
    cases h1 : evalStmt ρ md bd s with
    | error e => simp [h1] at h
    | ok m =>
      cases h2 : evalStmts ρ md bd r with
      | error e => simp [h1, h2] at h
      | ok ms' =>
        simp [h1, h2, pure, Except.pure] at h; subst h
        obtain ⟨a, b⟩ := ih h2
        refine ⟨?_, ?_⟩
        · intro x hx
          simp only [List.mem_cons] at hx
          rcases hx with rfl | hx
          · exact ⟨m, h1⟩
          · exact a x hx
        · simp only [appsList] at b
          simp [Sem.unrollList, appsList, apps, h1, b]

theorem evalStmts_of_all {l : List Stmt} (h : ∀ x ∈ l, Evaluable ρ md bd x) : ∃ ms, evalStmts ρ md bd l = .ok ms := by
  induction l with
  | nil => exact ⟨[], rfl⟩
  | cons s r ih =>
    obtain ⟨m, hm⟩ := h s (by simp)
    obtain ⟨ms, hms⟩ := ih (fun x hx => h x (by simp [hx]))
    exact ⟨m :: ms, by simp [evalStmts, hm, hms, bind, Except.bind, pure, Except.pure]⟩

theorem evaluable_block {par sub it body} :
    Evaluable ρ md bd (.block par sub it body) ↔
      (∃ n, evalInt ρ bd it = .ok n) ∧ ∀ x ∈ body, Evaluable ρ md bd x := by
  constructor
  · rintro ⟨m, hm⟩
    simp only [evalStmt, bind, Except.bind] at hm
    cases h1 : evalInt ρ bd it with
    | error e => simp [h1] at hm
    | ok n =>
      cases h2 : evalStmts ρ md bd body with
      | error e => simp [h1, h2] at hm
      | ok ms => exact ⟨⟨n, rfl⟩, (evalStmts_ok ρ md bd h2).1⟩
  · rintro ⟨⟨n, hn⟩, hall⟩
    obtain ⟨ms, hms⟩ := evalStmts_of_all ρ md bd hall
    exact ⟨.blk par sub n ms, by simp [evalStmt, hn, hms, bind, Except.bind, pure, Except.pure]⟩

theorem apps_block {par sub it body} (h : Evaluable ρ md bd (.block par sub it body)) :
    apps ρ md bd (.block par sub it body) = appsList ρ md bd body := by
  obtain ⟨⟨n, hn⟩, hall⟩ := (evaluable_block ρ md bd).1 h
  obtain ⟨ms, hms⟩ := evalStmts_of_all ρ md bd hall
  have := (evalStmts_ok ρ md bd hms).2
  simp [apps, evalStmt, hn, hms, bind, Except.bind, pure, Except.pure, Sem.unroll, this]

theorem appsList_append (a b : List Stmt) : appsList ρ md bd (a ++ b) = appsList ρ md bd a ++ appsList ρ md bd b := by
  simp [appsList]

theorem evaluable_unroll {v} (h : Evaluable ρ md bd v) :
    (∀ x ∈ unroll v, Evaluable ρ md bd x) ∧ appsList ρ md bd (unroll v) = apps ρ md bd v := by
  cases v with
  | gate n gd a => simp only [unroll, appsList]; exact ⟨by simpa using h, by simp⟩
  | loop c b => simp only [unroll, appsList]; exact ⟨by simpa using h, by simp⟩
  | block par sub it body =>
    simp only [unroll]
    split
    · simp only [appsList]; exact ⟨by simpa using h, by simp⟩
    · exact ⟨((evaluable_block ρ md bd).1 h).2, (apps_block ρ md bd h).symm⟩

theorem evaluable_unrollAll {vs : List Stmt} (h : ∀ v ∈ vs, Evaluable ρ md bd v) :
    (∀ x ∈ unrollAll vs, Evaluable ρ md bd x) ∧ appsList ρ md bd (unrollAll vs) = appsList ρ md bd vs := by
  induction vs with
  | nil => simp [unrollAll, appsList]
  | cons v r ih =>
    obtain ⟨a1, b1⟩ := evaluable_unroll ρ md bd (h v (by simp))
    obtain ⟨a2, b2⟩ := ih (fun x hx => h x (by simp [hx]))
    refine ⟨?_, ?_⟩
    · intro x hx
      simp only [unrollAll, List.mem_append] at hx
      rcases hx with hx | hx
      · exact a1 x hx
      · exact a2 x hx
    · simp only [unrollAll, appsList_append, b1, b2]
      simp [appsList]

theorem evalInt_one : evalInt ρ bd (.int 1) = .ok 1 := rfl

theorem evaluable_emit {c : List Stmt} (h : ∀ x ∈ c, Evaluable ρ md bd x) :
    Evaluable ρ md bd (emit c) ∧ apps ρ md bd (emit c) = appsList ρ md bd c := by
  have hblk : Evaluable ρ md bd (.block true false (.int 1) c) :=
    (evaluable_block ρ md bd).2 ⟨⟨1, evalInt_one ρ bd⟩, h⟩
  match c, h, hblk with
  | [], _, hblk => exact ⟨hblk, apps_block ρ md bd hblk⟩
  | [s], h, _ => exact ⟨h s (by simp), by simp [emit, appsList]⟩
  | s :: t :: r, _, hblk => exact ⟨hblk, apps_block ρ md bd hblk⟩

theorem chunkOf_apps {row c} (h : chunkOf row = .ok c) (hall : ∀ x ∈ row, Evaluable ρ md bd x) :
    (∀ x ∈ c, Evaluable ρ md bd x) ∧ appsList ρ md bd c = appsList ρ md bd row := by
  induction row generalizing c with
  | nil => simp [chunkOf] at h; subst h; simp
  | cons s r ih =>
    cases s with
    | loop cnt b => simp [chunkOf] at h
    | gate n gd a =>
      simp only [chunkOf] at h
      split at h
      · cases h
      · rename_i c' hc'
        simp at h; subst h
        obtain ⟨h1, h2⟩ := ih hc' (fun y hy => hall y (by simp [hy]))
        refine ⟨fun x hx => ?_, ?_⟩
        · simp only [List.mem_cons] at hx
          rcases hx with rfl | hx
          · exact hall _ (by simp)
          · exact h1 x hx
        · simp only [appsList] at h2; simp [appsList, h2]
    | block par sub it body =>
      simp only [chunkOf] at h
      cases par
      · simp at h
      · simp only [if_true] at h
        split at h
        · cases h
        · rename_i c' hc'
          simp at h; subst h
          obtain ⟨h1, h2⟩ := ih hc' (fun y hy => hall y (by simp [hy]))
          have hb := hall (.block true sub it body) (by simp)
          refine ⟨fun x hx => ?_, ?_⟩
          · simp only [List.mem_append] at hx
            rcases hx with hx | hx
            · exact ((evaluable_block ρ md bd).1 hb).2 x hx
            · exact h1 x hx
          · rw [appsList_append, h2]
            have := apps_block ρ md bd hb
            simp only [appsList] at this ⊢
            simp [this]

theorem chunkRows_apps {rows cs} (h : chunkRows rows = .ok cs) (hall : ∀ r ∈ rows, ∀ x ∈ r, Evaluable ρ md bd x) :
    (∀ c ∈ cs, ∀ x ∈ c, Evaluable ρ md bd x) ∧ appsList ρ md bd cs.flatten = appsList ρ md bd rows.flatten := by
  induction rows generalizing cs with
  | nil => simp [chunkRows] at h; subst h; simp
  | cons r rs ih =>
    simp only [chunkRows] at h
    split at h
    · cases h
    · rename_i c hc
      split at h
      · cases h
      · rename_i cs' hcs'
        simp at h; subst h
        obtain ⟨g1, k1⟩ := chunkOf_apps ρ md bd hc (hall r (by simp))
        obtain ⟨g2, k2⟩ := ih hcs' (fun r' hr' => hall r' (by simp [hr']))
        refine ⟨fun c' hc' x hx => ?_, by simp [appsList_append, k1, k2]⟩
        simp only [List.mem_cons] at hc'
        rcases hc' with rfl | hc'
        · exact g1 x hx
        · exact g2 c' hc' x hx

theorem appsList_map_emit {cs : List (List Stmt)} (h : ∀ c ∈ cs, ∀ x ∈ c, Evaluable ρ md bd x) :
    (∀ x ∈ cs.map emit, Evaluable ρ md bd x) ∧ appsList ρ md bd (cs.map emit) = appsList ρ md bd cs.flatten := by
  induction cs with
  | nil => simp [appsList]
  | cons c r ih =>
    obtain ⟨a1, b1⟩ := evaluable_emit ρ md bd (h c (by simp))
    obtain ⟨a2, b2⟩ := ih (fun c' hc' => h c' (by simp [hc']))
    refine ⟨fun x hx => ?_, ?_⟩
    · simp only [List.map_cons, List.mem_cons] at hx
      rcases hx with rfl | hx
      · exact a1
      · exact a2 x hx
    · simp only [List.map_cons, List.flatten_cons, appsList_append, ← b2]
      simp [appsList, b1]

/-- a successful run keeps the meaning up to a permutation of the unrolled gate applications -/
theorem normalize_meaning :
    (∀ s v, normalizeStmt s = .ok v → Evaluable ρ md bd s →
      Evaluable ρ md bd v ∧ (apps ρ md bd v).Perm (apps ρ md bd s)) ∧
    (∀ l vs, normalizeList l = .ok vs → (∀ x ∈ l, Evaluable ρ md bd x) →
      (∀ x ∈ vs, Evaluable ρ md bd x) ∧ (appsList ρ md bd vs).Perm (appsList ρ md bd l)) := by
  apply normalize_ok_rec
  · intro n gd a h; exact ⟨h, List.Perm.refl _⟩
  · intro c b h; exact ⟨h, List.Perm.refl _⟩
  · intro sub it body vs _ _ ih h
    obtain ⟨hit, hall⟩ := (evaluable_block ρ md bd).1 h
    obtain ⟨hvs, hp⟩ := ih hall
    obtain ⟨hu, eu⟩ := evaluable_unrollAll ρ md bd hvs
    have hv : Evaluable ρ md bd (.block false sub it (unrollAll vs)) := (evaluable_block ρ md bd).2 ⟨hit, hu⟩
    refine ⟨hv, ?_⟩
    rw [apps_block ρ md bd hv, apps_block ρ md bd h, eu]
    exact hp
  · intro sub it body vs chunks _ _ ih hc h
    obtain ⟨hit, hall⟩ := (evaluable_block ρ md bd).1 h
    obtain ⟨hvs, hp⟩ := ih hall
    unfold chunkBlocks at hc
    have hrows : ∀ r ∈ UnitTiming.zipLongest (vs.map unroll), ∀ x ∈ r, Evaluable ρ md bd x := by
      refine UnitTiming.zipLongest_forall _ ?_
      intro l hl x hxl
      obtain ⟨v, hv, rfl⟩ := List.mem_map.1 hl
      exact (evaluable_unroll ρ md bd (hvs v hv)).1 x hxl
    obtain ⟨hcs, ecs⟩ := chunkRows_apps ρ md bd hc hrows
    obtain ⟨hem, eem⟩ := appsList_map_emit ρ md bd hcs
    have hv : Evaluable ρ md bd (.block false sub it (chunks.map emit)) := (evaluable_block ρ md bd).2 ⟨hit, hem⟩
    refine ⟨hv, ?_⟩
    rw [apps_block ρ md bd hv, apps_block ρ md bd h, eem, ecs]
    have hz := UnitTiming.zipLongest_flatten_perm (vs.map unroll)
    refine (List.Perm.flatMap_right _ hz).trans ?_
    have : appsList ρ md bd (vs.map unroll).flatten = appsList ρ md bd vs := by
      rw [← unrollAll_eq_flatten]; exact (evaluable_unrollAll ρ md bd hvs).2
    simp only [appsList] at this hp ⊢
    rw [this]; exact hp
  · intro _; exact ⟨by simp, List.Perm.refl _⟩
  · intro s ss v vs _ _ ih1 ih2 h
    obtain ⟨a1, p1⟩ := ih1 (h s (by simp))
    obtain ⟨a2, p2⟩ := ih2 (fun x hx => h x (by simp [hx]))
    refine ⟨fun x hx => ?_, ?_⟩
    · simp only [List.mem_cons] at hx
      rcases hx with rfl | hx
      · exact a1
      · exact a2 x hx
    · simp only [appsList, List.flatMap_cons] at p2 ⊢
      exact p1.append p2

end Meaning

end Jaqal.UnitTimingCircuit
