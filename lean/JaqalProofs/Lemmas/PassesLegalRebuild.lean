import JaqalProofs.Lemmas.PassesLegalMacros
import JaqalProofs.Lemmas.BuiltWellFormed
import JaqalProofs.Props.C05
import JaqalProofs.Props.C06
/-!
The rebuilding passes (`fill_in_let`, `fill_in_map`) keep `ExpandMacros.WellFormed`: the gate half from what
`Builder.build` guarantees about every gate statement it makes (`built_gateShape`), the value half from what the visitors
do to a well-formed value, the call structure (`inScope`) because names are kept.
-/
namespace Jaqal.Passes
open Jaqal Jaqal.ExpandMacros Jaqal.FillIn Jaqal.Builder

/-! ### `LetFiller` on values -/

theorem resolveConstant_numeric {ov : List (String × Num)} {v v' : Val} (h : resolveConstant ov v = .ok v') :
    (∃ k, v' = .int k) ∨ (∃ d, v' = .flt d) := by
  obtain ⟨_, d, _, hcase⟩ := resolveConstant_num h
  rcases hcase with ⟨x, _, rfl⟩ | ⟨_, rfl, hd⟩
  · cases hx : Num.asInteger x
    · exact Or.inl ⟨_, rfl⟩
    · exact Or.inr ⟨_, rfl⟩
  · cases v' <;> simp [Val.isNum] at hd
    · exact Or.inl ⟨_, rfl⟩
    · exact Or.inr ⟨_, rfl⟩

theorem letVal_keeps {ov : List (String × Num)} : ∀ (v : Val) (rv : Bool) (v' : Val), letVal ov rv v = .ok v' →
    (noParam v = true → noParam v' = true) ∧ (isReg v = true → isReg v' = true) ∧
    (isReg v = true → regBuilt v = true → regBuilt v' = true) := by
  intro v
  induction v with
  | const n d =>
    intro rv v' h
    rcases resolveConstant_numeric (v := .const n d) h with ⟨k, rfl⟩ | ⟨d', rfl⟩ <;> simp [noParam, isReg]
  | qubit n src idx ihs _ =>
    intro rv v' h
    simp only [letVal] at h
    obtain ⟨nf, hnf, h⟩ := bind_ok h
    have hs := (ihs rv nf hnf).1
    refine ⟨?_, by simp [isReg], by simp [isReg]⟩
    intro hn
    simp only [noParam, Bool.and_eq_true] at hn
    split at h
    · obtain ⟨ni, hni, h⟩ := bind_ok h
      obtain ⟨_, hq⟩ := constIndexQubit_mk h
      rw [mkQubit_eq hq]
      rcases resolveConstant_numeric hni with ⟨k, rfl⟩ | ⟨d', rfl⟩ <;> simp [noParam, hs hn.1]
    · rw [mkQubit_eq h]; simp [noParam, hs hn.1, hn.2]
  | regF n size _ =>
    intro rv v' h
    simp only [letVal] at h
    split at h
    · obtain ⟨ns, hns, h⟩ := bind_ok h
      rw [mkRegister_eq h]
      rcases resolveConstant_numeric hns with ⟨k, rfl⟩ | ⟨d', rfl⟩ <;> simp [noParam, isReg, regBuilt]
    · cases h; exact ⟨id, id, fun _ hb => hb⟩
  | regA n src ih =>
    intro rv v' h
    simp only [letVal] at h
    obtain ⟨nf, hnf, h⟩ := bind_ok h
    cases h
    obtain ⟨i1, i2, i3⟩ := ih rv nf hnf
    refine ⟨by simpa [noParam] using i1, by simp [isReg], ?_⟩
    intro _ hb
    simp only [regBuilt, Bool.and_eq_true] at hb ⊢
    exact ⟨i2 hb.1, i3 hb.1 hb.2⟩
  | regS n src a b s ihs iha ihb ihst =>
    intro rv v' h
    simp only [letVal] at h
    obtain ⟨nf, hnf, h⟩ := bind_ok h
    obtain ⟨a', ha', h⟩ := bind_ok h
    obtain ⟨b', hb', h⟩ := bind_ok h
    obtain ⟨s', hs', h⟩ := bind_ok h
    obtain ⟨rfl, hna, hnb, hns, hmk⟩ := mkSliceN_eq h
    obtain ⟨i1, i2, _⟩ := ihs rv nf hnf
    refine ⟨?_, by simp [isReg], ?_⟩
    · intro hn
      simp only [noParam, Bool.and_eq_true] at hn ⊢
      exact ⟨⟨⟨i1 hn.1.1.1, (iha rv a' ha').1 hn.1.1.2⟩, (ihb rv b' hb').1 hn.1.2⟩, (ihst rv s' hs').1 hn.2⟩
    · intro _ hb
      simp only [regBuilt, Bool.and_eq_true] at hb
      -- every visited bound is a number, an int after the constructor's check
      have key : ∀ (x x' : Val), letVal ov rv x = .ok x' → (x == .none || intLike x) = true → x' ≠ .none →
          (isIntLit x' || isAV x') = true → intLike x' = true := by
        intro x x' hx hi hne hlit
        cases x with
        | int k => cases hx; rfl
        | const cn cv =>
          rcases resolveConstant_numeric (v := .const cn cv) hx with ⟨k, rfl⟩ | ⟨d', rfl⟩
          · rfl
          · simp [isIntLit, isAV] at hlit
        | none => cases hx; exact absurd rfl hne
        | _ => simp [intLike] at hi
      unfold mkSlice at hmk
      obtain ⟨_, hchk, _⟩ := bind_ok hmk
      unfold sliceCheck at hchk
      have hlits : ((isIntLit a' || isAV a') && (isIntLit b' || isAV b') && (isIntLit s' || isAV s')) = true := by
        by_cases hc : ((isIntLit a' || isAV a') && (isIntLit b' || isAV b') && (isIntLit s' || isAV s')) = true
        · exact hc
        · exfalso
          simp [hc, throw_eq, bind, Except.bind] at hchk
      simp only [Bool.and_eq_true] at hlits
      simp only [regBuilt, Bool.and_eq_true]
      refine ⟨⟨⟨i2 hb.1.1.1, ?_⟩, ?_⟩, ?_⟩
      · simp [key a a' ha' hb.1.1.2 hna hlits.1.1]
      · exact key b b' hb' (by simp [hb.1.2]) hnb hlits.1.2
      · simp [key s s' hs' hb.2 hns hlits.2]
  | int _ => intro rv v' h; cases h; exact ⟨id, id, fun _ hb => hb⟩
  | flt _ => intro rv v' h; cases h; exact ⟨id, id, fun _ hb => hb⟩
  | param _ _ => intro rv v' h; cases h; exact ⟨id, id, fun _ hb => hb⟩
  | none => intro rv v' h; cases h; exact ⟨id, id, fun _ hb => hb⟩
  | str _ => intro rv v' h; cases h; exact ⟨id, id, fun _ hb => hb⟩

theorem isReg_arrayLike {v : Val} (h : isReg v = true) : isArrayLike v = true := by
  cases v <;> simp_all [isReg, isArrayLike]

theorem arrayLike_cases {v : Val} (h : isArrayLike v = true) : isReg v = true ∨ ∃ n k, v = .param n k := by
  cases v <;> simp_all [isReg, isArrayLike]

/-- `LetFiller` keeps a gate argument well formed -/
theorem letVal_vOK {ov : List (String × Num)} {v v' : Val} (hv : vOK v = true) (h : letVal ov false v = .ok v') :
    vOK v' = true := by
  cases v with
  | const n d =>
    rcases resolveConstant_numeric (v := .const n d) h with ⟨k, rfl⟩ | ⟨d', rfl⟩ <;> rfl
  | qubit n src idx =>
    simp only [vOK, okVal, goodVal, Bool.and_eq_true] at hv
    obtain ⟨⟨hso, hio⟩, ⟨⟨hsa, hsr⟩, hii⟩⟩ := hv
    simp only [letVal] at h
    obtain ⟨nf, hnf, h⟩ := bind_ok h
    obtain ⟨k1, k2, k3⟩ := letVal_keeps src false nf hnf
    have hS : (ExpandMacros.isParam nf || noParam nf) = true ∧ isArrayLike nf = true ∧ (!isReg nf || regBuilt nf) = true := by
      rcases arrayLike_cases hsa with hr | ⟨pn, pk, rfl⟩
      · have hnp : noParam src = true := by
          cases src <;> simp_all [isReg, ExpandMacros.isParam]
        have hrb : regBuilt src = true := by simpa [hr] using hsr
        exact ⟨by simp [k1 hnp], isReg_arrayLike (k2 hr), by simp [k3 hr hrb]⟩
      · cases hnf; simp [ExpandMacros.isParam, isArrayLike, isReg]
    split at h
    · obtain ⟨ni, hni, h⟩ := bind_ok h
      obtain ⟨_, hq⟩ := constIndexQubit_mk h
      rw [mkQubit_eq hq]
      rcases resolveConstant_numeric hni with ⟨k, rfl⟩ | ⟨d', rfl⟩ <;>
        simp [vOK, okVal, goodVal, hS.1, hS.2.1, hS.2.2, noParam, isIndexLike]
    · rw [mkQubit_eq h]
      simp [vOK, okVal, goodVal, hS.1, hS.2.1, hS.2.2, hio, hii]
  | regF n size =>
    simp only [vOK, okVal, goodVal, isReg, Bool.not_true, Bool.false_or, Bool.and_eq_true] at hv
    obtain ⟨k1, k2, k3⟩ := letVal_keeps (.regF n size) false v' h
    have := k2 rfl
    simp only [vOK, Bool.and_eq_true]
    exact ⟨noParam_okVal _ (k1 hv.1), by cases v' <;> simp_all [isReg, goodVal]⟩
  | regA n src =>
    simp only [vOK, okVal, goodVal, isReg, Bool.not_true, Bool.false_or, Bool.and_eq_true] at hv
    obtain ⟨k1, k2, k3⟩ := letVal_keeps (.regA n src) false v' h
    have := k2 rfl
    simp only [vOK, Bool.and_eq_true]
    exact ⟨noParam_okVal _ (k1 hv.1), by cases v' <;> simp_all [isReg, goodVal]⟩
  | regS n src a b s =>
    simp only [vOK, okVal, goodVal, isReg, Bool.not_true, Bool.false_or, Bool.and_eq_true] at hv
    obtain ⟨k1, k2, k3⟩ := letVal_keeps (.regS n src a b s) false v' h
    have := k2 rfl
    simp only [vOK, Bool.and_eq_true]
    exact ⟨noParam_okVal _ (k1 hv.1), by cases v' <;> simp_all [isReg, goodVal]⟩
  | int _ => cases h; exact hv
  | flt _ => cases h; exact hv
  | param _ _ => cases h; exact hv
  | none => cases h; exact hv
  | str _ => cases h; exact hv

/-- … and a count a count -/
theorem letVal_count {ov : List (String × Num)} {c c' : Val} (h1 : (ExpandMacros.isParam c || noParam c) = true)
    (h2 : isIndexLike c = true) (h : letVal ov false c = .ok c') :
    (ExpandMacros.isParam c' || noParam c') = true ∧ isIndexLike c' = true := by
  cases c with
  | const n d =>
    rcases resolveConstant_numeric (v := .const n d) h with ⟨k, rfl⟩ | ⟨d', rfl⟩ <;> simp [ExpandMacros.isParam, noParam, isIndexLike]
  | int _ => cases h; exact ⟨h1, h2⟩
  | flt _ => cases h; exact ⟨h1, h2⟩
  | param _ _ => cases h; exact ⟨h1, h2⟩
  | _ => simp [isIndexLike] at h2

/-! ### the rebuilt statement -/

section rebuilt
set_option linter.unusedSectionVars false
variable {F G : Val → M Val} {P : Val → Prop}
variable (hF : ∀ v v', P v → vOK v = true → F v = .ok v' → vOK v' = true)
variable (hFc : ∀ c c', (ExpandMacros.isParam c || noParam c) = true → isIndexLike c = true → F c = .ok c' →
  (ExpandMacros.isParam c' || noParam c') = true ∧ isIndexLike c' = true)
variable (hGc : ∀ c c', (ExpandMacros.isParam c || noParam c) = true → isIndexLike c = true → G c = .ok c' →
  (ExpandMacros.isParam (normCount c') || noParam (normCount c')) = true ∧ isIndexLike (normCount c') = true)
include hF hFc hGc

mutual
theorem Rel_wf (ms ms' : List Macro) : ∀ (s s' : Stmt), Rel F G s s' → gateWF ms' s' → ArgsAll P s → wfStmt ms s = true →
    wfT s = true → wfStmt ms' s' = true ∧ wfT s' = true
  | .gate n gd args, .gate n' gd' args', h, hg, hP, hw, hT => by
    simp only [ArgsAll] at hP
    simp only [Rel] at h
    obtain ⟨rfl, hargs⟩ := h
    obtain ⟨g1, g2, g3, g4⟩ := hg
    simp only [wfStmt] at hw
    simp only [wfT] at hT
    have hin := wfGate_args ms hw hT
    have hout : ∀ a' ∈ args', vOK a'.2 = true := by
      intro a' ha'
      obtain ⟨a, ha, hab⟩ := forall₂_right hargs a' ha'
      exact hF _ _ (hP a ha) (hin a ha) hab
    constructor
    · simp only [wfStmt, wfGate, Bool.and_eq_true, beq_iff_eq, decide_eq_true_eq, List.all_eq_true]
      refine ⟨⟨⟨⟨g1, g2⟩, g3⟩, fun a' ha' => ?_⟩, ?_⟩
      · have := hout a' ha'
        simp only [vOK, Bool.and_eq_true] at this
        exact this.1
      · cases hf : findMacro ms' n' with
        | none => rfl
        | some m => simp only [beq_iff_eq]; exact g4 m hf
    · simp only [wfT, List.all_eq_true]
      intro a' ha'
      have := hout a' ha'
      simp only [vOK, Bool.and_eq_true] at this
      exact this.2
  | .block par sub it body, .block par' sub' it' body', h, hg, hP, hw, hT => by
    simp only [Rel] at h
    obtain ⟨rfl, rfl, hit, hbody⟩ := h
    simp only [wfStmt, Bool.and_eq_true] at hw
    simp only [wfT, Bool.and_eq_true] at hT
    simp only [gateWF] at hg
    simp only [ArgsAll] at hP
    obtain ⟨i1, i2⟩ := Rel_wfs ms ms' body body' hbody hg hP hw.2 hT.2
    have hcnt : (ExpandMacros.isParam it' || noParam it') = true ∧ isIndexLike it' = true := by
      cases sub' with
      | false =>
        simp only [Bool.false_eq_true, if_false] at hit
        subst hit; simp [noParam, isIndexLike]
      | true =>
        simp only [if_true] at hit
        obtain ⟨c, hc, rfl⟩ := hit
        exact hGc _ _ hw.1 hT.1 hc
    simp [wfStmt, wfT, hcnt.1, hcnt.2, i1, i2]
  | .loop c b, .loop c' b', h, hg, hP, hw, hT => by
    simp only [Rel] at h
    simp only [wfStmt, Bool.and_eq_true] at hw
    simp only [wfT, Bool.and_eq_true] at hT
    simp only [gateWF] at hg
    simp only [ArgsAll] at hP
    obtain ⟨i1, i2⟩ := Rel_wf ms ms' b b' h.2 hg hP hw.2 hT.2
    have hcnt := hFc _ _ hw.1 hT.1 h.1
    simp [wfStmt, wfT, hcnt.1, hcnt.2, i1, i2]
  | .gate _ _ _, .block _ _ _ _, h, _, _, _, _ | .gate _ _ _, .loop _ _, h, _, _, _, _
  | .block _ _ _ _, .gate _ _ _, h, _, _, _, _ | .block _ _ _ _, .loop _ _, h, _, _, _, _
  | .loop _ _, .gate _ _ _, h, _, _, _, _ | .loop _ _, .block _ _ _ _, h, _, _, _, _ => by simp [Rel] at h
theorem Rel_wfs (ms ms' : List Macro) : ∀ (l l' : List Stmt), RelList F G l l' → gateWFL ms' l' → ArgsAllList P l →
    wfStmtList ms l = true → wfTList l = true → wfStmtList ms' l' = true ∧ wfTList l' = true
  | [], [], _, _, _, _, _ => ⟨rfl, rfl⟩
  | s :: ss, s' :: ss', h, hg, hP, hw, hT => by
    simp only [RelList] at h
    simp only [wfStmtList, Bool.and_eq_true] at hw
    simp only [wfTList, Bool.and_eq_true] at hT
    simp only [ArgsAllList] at hP
    obtain ⟨i1, i2⟩ := Rel_wf ms ms' s s' h.1 hg.1 hP.1 hw.1 hT.1
    obtain ⟨j1, j2⟩ := Rel_wfs ms ms' ss ss' h.2 hg.2 hP.2 hw.2 hT.2
    simp [wfStmtList, wfTList, i1, i2, j1, j2]
  | [], _ :: _, h, _, _, _, _ | _ :: _, [], h, _, _, _, _ => by simp [RelList] at h
end

end rebuilt

mutual
/-- the rebuild keeps the names of the gate statements, hence which macros a statement calls -/
theorem Rel_inScope {F G : Val → M Val} (a all : List String) : ∀ (s s' : Stmt), Rel F G s s' →
    inScope a all s' = inScope a all s
  | .gate n gd args, .gate n' gd' args', h => by simp only [Rel] at h; simp [inScope, h.1]
  | .block par sub it body, .block par' sub' it' body', h => by
    simp only [Rel] at h
    simp only [inScope, Rel_inScopes a all body body' h.2.2.2]
  | .loop c b, .loop c' b', h => by
    simp only [Rel] at h
    simp only [inScope, Rel_inScope a all b b' h.2]
  | .gate _ _ _, .block _ _ _ _, h | .gate _ _ _, .loop _ _, h
  | .block _ _ _ _, .gate _ _ _, h | .block _ _ _ _, .loop _ _, h
  | .loop _ _, .gate _ _ _, h | .loop _ _, .block _ _ _ _, h => by simp [Rel] at h
theorem Rel_inScopes {F G : Val → M Val} (a all : List String) : ∀ (l l' : List Stmt), RelList F G l l' →
    inScopeList a all l' = inScopeList a all l
  | [], [], _ => rfl
  | s :: ss, s' :: ss', h => by
    simp only [RelList] at h
    simp only [inScopeList, Rel_inScope a all s s' h.1, Rel_inScopes a all ss ss' h.2]
  | [], _ :: _, h | _ :: _, [], h => by simp [RelList] at h
end

/-! ### the rebuilt circuit -/

/-- what the two visitors do to values, as far as `ExpandMacros.WellFormed` is concerned -/
structure ValKeeps (P : Val → Prop) (F : Val → M Val) : Prop where
  val : ∀ v v', P v → vOK v = true → F v = .ok v' → vOK v' = true
  count : ∀ c c', (ExpandMacros.isParam c || noParam c) = true → isIndexLike c = true → F c = .ok c' →
    (ExpandMacros.isParam c' || noParam c') = true ∧ isIndexLike c' = true

def SubKeeps (G : Val → M Val) : Prop :=
  ∀ c c', (ExpandMacros.isParam c || noParam c) = true → isIndexLike c = true → G c = .ok c' →
    (ExpandMacros.isParam (normCount c') || noParam (normCount c')) = true ∧ isIndexLike (normCount c') = true

theorem wfMacrosFrom_rel {P : Val → Prop} {Fm : Macro → Val → M Val} {G : Val → M Val} (hFm : ∀ m, ValKeeps P (Fm m)) (hG : SubKeeps G)
    (ms ms' : List Macro) (hnames : ms'.map (·.name) = ms.map (·.name)) :
    ∀ (pre : List String) (r r' : List Macro), List.Forall₂ (fun m m' => MacroRel (Fm m) G m m') r r' →
      (∀ m' ∈ r', gateWF ms' m'.body) → (∀ m ∈ r, ArgsAll P m.body) → (∀ m ∈ r, wfT m.body = true) →
      wfMacrosFrom ms pre r = true →
      wfMacrosFrom ms' pre r' = true ∧ ∀ m' ∈ r', wfT m'.body = true := by
  intro pre r r' h
  induction h generalizing pre with
  | nil => intro _ _ _ _; exact ⟨rfl, fun m' hm' => (by cases hm')⟩
  | @cons m m' r r' hm _ ih =>
    intro hg hP hT hw
    simp only [wfMacrosFrom, Bool.and_eq_true] at hw
    obtain ⟨⟨h1, h2⟩, h3⟩ := hw
    obtain ⟨hn, _, hb⟩ := hm
    obtain ⟨i1, i2⟩ := Rel_wf (hFm m).val (hFm m).count hG ms ms' m.body m'.body hb (hg m' (by simp)) (hP m (by simp)) h1
      (hT m (by simp))
    obtain ⟨j1, j2⟩ := ih (pre ++ [m.name]) (fun x hx => hg x (by simp [hx])) (fun x hx => hP x (by simp [hx]))
      (fun x hx => hT x (by simp [hx])) h3
    refine ⟨?_, ?_⟩
    · simp only [wfMacrosFrom, Bool.and_eq_true, hnames, hn]
      exact ⟨⟨i1, by rw [Rel_inScope _ _ m.body m'.body hb]; exact h2⟩, j1⟩
    · intro x hx
      rcases List.mem_cons.1 hx with rfl | hx
      · exact i2
      · exact j2 x hx

theorem forall₂_names {Fm : Macro → Val → M Val} {G : Val → M Val} : ∀ {r r' : List Macro},
    List.Forall₂ (fun m m' => MacroRel (Fm m) G m m') r r' → r'.map (·.name) = r.map (·.name)
  | _, _, .nil => rfl
  | _, _, .cons hm h => by simp [hm.1, forall₂_names h]

/-- **the rebuild keeps `ExpandMacros.WellFormed`**, given what the builder guarantees about its gate statements -/
theorem rebuilt_wellFormed {P : Val → Prop} {F G : Val → M Val} {Fm : Macro → Val → M Val} (hF : ValKeeps P F)
    (hFm : ∀ m, ValKeeps P (Fm m)) (hG : SubKeeps G) {c c' : Circuit} {regs : List Val} {bs : List Stmt}
    (hP : ArgsAll P c.body ∧ ∀ m ∈ c.macros, ArgsAll P m.body) (hw : ExpandMacros.WellFormed c = true)
    (hbs : c.body = .block false false (.int 1) bs) (hr : Rebuilt F Fm G c regs bs c')
    (hg : gateWF c'.macros c'.body ∧ ∀ m ∈ c'.macros, gateWF c'.macros m.body) : ExpandMacros.WellFormed c' = true := by
  obtain ⟨ss, hc', hrel⟩ := hr.body
  simp only [ExpandMacros.WellFormed, Bool.and_eq_true] at hw
  obtain ⟨⟨⟨⟨hwm, hwb⟩, _⟩, hTb⟩, hTm⟩ := hw
  have hTm' : ∀ x ∈ c.macros, wfT x.body = true := by simpa [List.all_eq_true] using hTm
  have hPb := hP.1
  rw [hbs] at hwb hTb hPb
  simp only [ArgsAll] at hPb
  simp only [wfStmt, Bool.and_eq_true] at hwb
  simp only [wfT, Bool.and_eq_true] at hTb
  have hgb := hg.1
  rw [hc'] at hgb
  simp only [gateWF] at hgb
  obtain ⟨b1, b2⟩ := Rel_wfs hF.val hF.count hG c.macros c'.macros bs ss hrel hgb hPb hwb.2 hTb.2
  obtain ⟨m1, m2⟩ := wfMacrosFrom_rel hFm hG c.macros c'.macros (forall₂_names hr.macros) [] c.macros c'.macros hr.macros
    hg.2 hP.2 hTm' hwm
  simp only [ExpandMacros.WellFormed, Bool.and_eq_true, hc', m1, wfStmt, wfT, b1, b2, List.all_eq_true]
  exact ⟨⟨⟨⟨trivial, by simp [noParam]⟩, trivial⟩, by simp [isIndexLike]⟩, m2⟩

theorem letVal_valKeeps (ov : List (String × Num)) : ValKeeps (fun _ => True) (letVal ov false) :=
  ⟨fun _ _ _ hv h => letVal_vOK hv h, fun _ _ h1 h2 h => letVal_count h1 h2 h⟩

mutual
theorem argsAll_true : ∀ s : Stmt, ArgsAll (fun _ => True) s
  | .gate _ _ _ => by simp [ArgsAll]
  | .block _ _ _ body => by simp only [ArgsAll]; exact argsAllList_true body
  | .loop _ b => by simp only [ArgsAll]; exact argsAll_true b
theorem argsAllList_true : ∀ l : List Stmt, ArgsAllList (fun _ => True) l
  | [] => trivial
  | s :: r => ⟨argsAll_true s, argsAllList_true r⟩
end

theorem letVal_subKeeps (ov : List (String × Num)) : SubKeeps (letVal ov false) := by
  intro c c' h1 h2 h
  obtain ⟨k1, k2⟩ := letVal_count h1 h2 h
  cases c' <;> first | exact ⟨k1, k2⟩ | simp [normCount, noParam, isIndexLike]

/-- **`fill_in_let` keeps `ExpandMacros.WellFormed`.** -/
theorem fillInLet_wellFormed (ov : List (String × Num)) (c c' : Circuit) (hw1 : ExpandMacros.WellFormed c = true)
    (hw2 : FillIn.WellFormed c) (h : fillInLet ov c = .ok c') : ExpandMacros.WellFormed c' = true := by
  obtain ⟨bs, regs, hbs, _, hr⟩ := fillInLet_rebuilt hw2 h
  have hb : ∃ sx, build (rebuildCfg c) sx = .ok c' := by
    unfold fillInLet at h
    obtain ⟨sx, _, hb⟩ := bind_ok h
    exact ⟨sx, hb⟩
  obtain ⟨sx, hb⟩ := hb
  exact rebuilt_wellFormed (letVal_valKeeps ov) (fun _ => letVal_valKeeps ov) (letVal_subKeeps ov)
    ⟨argsAll_true _, fun m _ => argsAll_true _⟩ hw1 hbs hr
    (built_gateShape _ _ _ hb)

/-! ### `MapFiller` on values -/

/-- the fundamental register at the bottom of an alias chain is sized by a number or a let constant (what `register`
statements make; `regBuilt` of a slice alias does not say so about its source) -/
def baseBuilt : Val → Bool
  | .regF _ size =>
    (match size with
     | .int _ => true
     | .flt _ => true
     | .const _ _ => true
     | _ => false)
  | .regA _ src => baseBuilt src
  | .regS _ src _ _ _ => baseBuilt src
  | _ => true

/-- … for the register a qubit reference goes through, and for a register passed as an argument -/
def deepVal : Val → Prop
  | .qubit _ s _ => baseBuilt s = true
  | v => baseBuilt v = true

theorem fundOf_built : ∀ (src reg : Val), UsedQubits.fundOf src = some reg →
    (∃ r sz, reg = .regF r sz) ∧ (baseBuilt src = true → regBuilt reg = true) ∧ (noParam src = true → noParam reg = true) := by
  intro src
  induction src with
  | regF r sz _ =>
    intro reg h
    simp only [UsedQubits.fundOf, Option.some.injEq] at h
    subst h
    exact ⟨⟨r, sz, rfl⟩, fun hb => hb, id⟩
  | regA _ s ih =>
    intro reg h
    obtain ⟨i1, i2, i3⟩ := ih reg (by simpa [UsedQubits.fundOf] using h)
    exact ⟨i1, fun hb => i2 (by simpa [baseBuilt] using hb), fun hn => i3 (by simpa [noParam] using hn)⟩
  | regS _ s _ _ _ ih _ _ _ =>
    intro reg h
    obtain ⟨i1, i2, i3⟩ := ih reg (by simpa [UsedQubits.fundOf] using h)
    refine ⟨i1, fun hb => i2 (by simpa [baseBuilt] using hb), fun hn => i3 ?_⟩
    simp only [noParam, Bool.and_eq_true] at hn
    exact hn.1.1.1
  | _ => intro reg h; simp [UsedQubits.fundOf] at h

/-- what `MapFiller` makes of a well-formed qubit reference whose chain ends in a built register: an item of that
(parameter-free, built) fundamental register with a literal index -/
theorem mapVal_qubit_shape {mps : List String} {n : String} {src idx v' : Val} (hd : baseBuilt src = true)
    (hv : vOK (.qubit n src idx) = true) (h : mapVal mps (.qubit n src idx) = .ok v') :
    ∃ nm r sz k, v' = .qubit nm (.regF r sz) (.int k) ∧ regBuilt (.regF r sz) = true ∧ noParam sz = true := by
  simp only [vOK, okVal, goodVal, Bool.and_eq_true] at hv
  obtain ⟨⟨hso, _⟩, ⟨⟨hsa, _⟩, _⟩⟩ := hv
  obtain ⟨nm, reg, k, rfl, hV, _, _⟩ := C06_mapVal_qubit h
  -- the source is a register, and the resolution ends at its fundamental register
  have hreg : isReg src = true := by
    rcases arrayLike_cases hsa with hr | ⟨pn, pk, rfl⟩
    · exact hr
    · exfalso
      rw [resolveQubitV] at hV
      obtain ⟨iv, _, hV⟩ := bind_ok hV
      obtain ⟨rv, hrv, _⟩ := bind_ok hV
      simp [Resolve.avFuel, Resolve.resolveAV, Resolve.Ctx.find] at hrv
  have hnp : noParam src = true := by
    cases src <;> simp_all [isReg, ExpandMacros.isParam]
  have hfund : UsedQubits.fundOf src = some reg := by
    have hr : Resolve.isRegister src = true := by cases src <;> simp_all [isReg, Resolve.isRegister]
    have h2 : Resolve.resolveAV [] (Resolve.avFuel []) src = .ok src := by
      cases src <;> simp [isReg] at hreg <;> simp [Resolve.avFuel, Resolve.resolveAV]
    rw [resolveQubitV] at hV
    obtain ⟨iv, _, hV⟩ := bind_ok hV
    obtain ⟨rv, hrv, hV⟩ := bind_ok hV
    rw [h2] at hrv; cases hrv
    simp only [hr, Bool.not_true, Bool.false_eq_true, if_false, bind, Except.bind] at hV
    cases iv with
    | int i => exact (resolveRegV_spec (ctx := []) i).2 reg k hV
    | flt d =>
      by_cases hdd : d.isIntegral = true
      · simp only [hdd, if_true] at hV; exact (resolveRegV_spec (ctx := []) _).2 reg k hV
      · simp [hdd] at hV
    | _ => simp at hV
  obtain ⟨⟨r, sz, rfl⟩, hb, hn⟩ := fundOf_built src _ hfund
  exact ⟨nm, r, sz, k, rfl, hb hd, by simpa [noParam] using hn hnp⟩

/-- `MapFiller` keeps a gate argument well formed (given that the chain ends in a built register) -/
theorem mapVal_vOK {mps : List String} {v v' : Val} (hd : deepVal v) (hv : vOK v = true) (h : mapVal mps v = .ok v') :
    vOK v' = true := by
  cases v with
  | qubit n src idx =>
    obtain ⟨nm, r, sz, k, rfl, hb', hn''⟩ := mapVal_qubit_shape hd hv h
    simp [vOK, okVal, goodVal, isArrayLike, isReg, hb', hn'', noParam, isIndexLike]
  | regF n sz => simp only [mapVal, pure, Except.pure] at h; cases h; exact hv
  | regA _ _ => simp [mapVal, Builder.throw_eq] at h
  | regS _ _ _ _ _ => simp [mapVal, Builder.throw_eq] at h
  | int _ => cases h; exact hv
  | flt _ => cases h; exact hv
  | const _ _ => cases h; exact hv
  | param _ _ => cases h; exact hv
  | none => cases h; exact hv
  | str _ => cases h; exact hv

theorem mapVal_count {mps : List String} {c c' : Val} (h2 : isIndexLike c = true) (h : mapVal mps c = .ok c') : c' = c := by
  cases c <;> first | (cases h; rfl) | simp [isIndexLike] at h2

theorem mapVal_valKeeps (mps : List String) : ValKeeps deepVal (mapVal mps) :=
  ⟨fun _ _ hd hv h => mapVal_vOK hd hv h, fun c c' h1 h2 h => by rw [mapVal_count h2 h]; exact ⟨h1, h2⟩⟩

theorem pure_subKeeps : SubKeeps (pure : Val → M Val) := by
  intro c c' h1 h2 h
  cases h
  cases c <;> first | exact ⟨h1, h2⟩ | simp [isIndexLike] at h2

/-- **`fill_in_map` keeps `ExpandMacros.WellFormed`** when every qubit reference goes through a chain that ends in a
register sized by a number or a let (`deepVal`: true of everything `register` / `map` statements make). -/
theorem fillInMap_wellFormed (c c' : Circuit) (hw1 : ExpandMacros.WellFormed c = true) (hw2 : FillIn.WellFormed c)
    (hd : ArgsAll deepVal c.body ∧ ∀ m ∈ c.macros, ArgsAll deepVal m.body) (h : fillInMap c = .ok c') :
    ExpandMacros.WellFormed c' = true := by
  obtain ⟨bs, hbs, hr⟩ := fillInMap_rebuilt hw2 h
  have hb : ∃ sx, build (rebuildCfg c) sx = .ok c' := by
    unfold fillInMap at h
    obtain ⟨sx, _, hb⟩ := bind_ok h
    exact ⟨sx, hb⟩
  obtain ⟨sx, hb⟩ := hb
  exact rebuilt_wellFormed (mapVal_valKeeps []) (fun m => mapVal_valKeeps _) pure_subKeeps hd hw1 hbs hr
    (built_gateShape _ _ _ hb)

end Jaqal.Passes

#print axioms Jaqal.Passes.fillInLet_wellFormed
#print axioms Jaqal.Passes.fillInMap_wellFormed
