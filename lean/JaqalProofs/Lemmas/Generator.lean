import JaqalModel.Model.Generator
/-! Lemmas about the model of `generate_jaqal_program` (`Jaqal.Generator`). -/
namespace Jaqal.Generator
open Jaqal

/-! ## `iter_block_statements` as a list function -/

mutual
  /-- the statements `iter_block_statements` yields for a block of kind `par` -/
  def flatItems (par : Bool) : List Stmt → List Stmt
    | [] => []
    | .block p false it b :: rest =>
      if p = par then flatItems par b ++ flatItems par rest else .block p false it b :: flatItems par rest
    | s :: rest => s :: flatItems par rest
end

theorem concatM_append {α} (f : α → M String) : ∀ l1 l2 : List α,
    concatM f (l1 ++ l2) = (do let x ← concatM f l1; let y ← concatM f l2; pure (x ++ y))
  | [], l2 => by
    simp only [List.nil_append, concatM, pure, Except.pure, bind, Except.bind]
    cases concatM f l2 <;> simp
  | a :: l1, l2 => by
    simp only [List.cons_append, concatM, concatM_append f l1 l2, bind, Except.bind, pure, Except.pure]
    cases f a <;> simp only []
    cases concatM f l1 <;> simp only []
    cases concatM f l2 <;> simp [String.append_assoc]

/-- The loop of `generate_jaqal_block` prints exactly the spliced statements, one after the other, at one depth. -/
theorem genItems_eq_flat (par : Bool) (d : Nat) : ∀ l : List Stmt,
    genItems par d l = concatM (genStmt d) (flatItems par l)
  | [] => by simp [genItems, flatItems, concatM]
  | .block p false it b :: rest => by
    by_cases hp : p = par
    · simp only [genItems, flatItems, hp, ↓reduceIte, concatM_append,
        genItems_eq_flat par d b, genItems_eq_flat par d rest]
    · simp only [genItems, flatItems, hp, ↓reduceIte, concatM, genItems_eq_flat par d rest]
  | .block p true it b :: rest => by
    simp only [genItems, flatItems, concatM, genItems_eq_flat par d rest]
  | .gate n g a :: rest => by
    simp only [genItems, flatItems, concatM, genItems_eq_flat par d rest]
  | .loop c b :: rest => by
    simp only [genItems, flatItems, concatM, genItems_eq_flat par d rest]

/-- Two statement lists that differ only by splicing same-kind non-subcircuit blocks print the same. -/
theorem genItems_congr_flat (par : Bool) (d : Nat) (l l' : List Stmt) (h : flatItems par l = flatItems par l') :
    genItems par d l = genItems par d l' := by
  rw [genItems_eq_flat, genItems_eq_flat, h]

theorem genStmt_block_congr_flat (d : Nat) (par sub : Bool) (it : Val) (l l' : List Stmt)
    (h : flatItems par l = flatItems par l') :
    genStmt d (.block par sub it l) = genStmt d (.block par sub it l') := by
  simp only [genStmt, genItems_congr_flat par (d + 1) l l' h]

/-! ## the text depends on names only -/

/-- `generate_jaqal_value` of anything that has a `.name` is that name -/
theorem genValue_of_name {v : Val} {n : String} (h : v.name? = some n) : genValue v = some n := by
  cases v <;> simp_all [Val.name?, genValue]

/-- a gate line depends on the arguments only through `generate_jaqal_value` (for named objects: the name) -/
theorem genGate_congr (d : Nat) (name : String) (args args' : List (String × Val))
    (h : args.map (fun a => genValue a.2) = args'.map (fun a => genValue a.2)) :
    genGate d name args = genGate d name args' := by
  have : ∀ (l l' : List (String × Val)), l.map (fun a => genValue a.2) = l'.map (fun a => genValue a.2) →
      l.mapM (fun a => joinValue a.2) = l'.mapM (fun a => joinValue a.2) := by
    intro l
    induction l with
    | nil => intro l' h; cases l' <;> simp_all
    | cons a as ih =>
      intro l' h
      cases l' with
      | nil => simp at h
      | cons b bs =>
        simp only [List.map_cons, List.cons.injEq] at h
        rw [List.mapM_cons, List.mapM_cons, ih bs h.2]
        simp only [joinValue, h.1]
  simp only [genGate, this args args' h]

end Jaqal.Generator
