import JaqalProofs.Lemmas.PyEqSymm
import JaqalProofs.Lemmas.ExpandMacrosSem
import JaqalModel.Spec.Sem
/-! Soundness of the model of Python `==` with respect to the gate-level meaning `Sem.meaning`.

* the logical relation `evalStmt_rel`: statements that compare equal (`stmtEq`), whose gate arguments satisfy an
  invariant of their circuit (`StmtAll A`, `StmtAll B` with `ArgInv ρ bnd bnd' A B`), evaluated under related bindings and
  under macro tables that agree on the gate names occurring in them (`MDLook`), have related meanings;
* two instances of the invariant: `ArgOk` (`ParserLike`: every source is a parameter or an UNSHADOWED declared register)
  and `ArgRef` (`ParsedLike`: what every parser-produced circuit satisfies — `Lemmas/ParsedParserLike.lean` — including a
  header alias whose source is named like a parameter of the enclosing macro);
* macro tables: `denote_foldl_rel` (same order in both circuits) and `denote_look` (any two orders in which callees come
  first: `MacrosOrdered`);
* `meaning_rel` (`ParserLike`, same order), `meaning_rel_ordered` (`ParserLike`, callees first), `meaning_rel_parsed`
  (`ParsedLike`). -/
namespace Jaqal.PyEq
open Jaqal Jaqal.Sem

/-! ## relations on results -/

/-- both fail, or both succeed with related values -/
def MRel {α β} (R : α → β → Prop) : M α → M β → Prop
  | .ok x, .ok y => R x y
  | .error _, .error _ => True
  | _, _ => False

theorem MRel.bind {α β γ δ} {R : α → β → Prop} {S : γ → δ → Prop} {x : M α} {x' : M β} {f : α → M γ} {f' : β → M δ}
    (h : MRel R x x') (hf : ∀ a b, R a b → MRel S (f a) (f' b)) : MRel S (x >>= f) (x' >>= f') := by
  cases x <;> cases x' <;> simp_all [MRel, Bind.bind, Except.bind]

theorem MRel.pure {α β} {R : α → β → Prop} {a : α} {b : β} (h : R a b) :
    MRel R (Pure.pure a : M α) (Pure.pure b : M β) := h

theorem MRel.err {α β} {R : α → β → Prop} (e e' : Err) : MRel R (.error e : M α) (.error e' : M β) := trivial

theorem MRel.mono {α β} {R S : α → β → Prop} {x : M α} {y : M β} (h : MRel R x y) (hRS : ∀ a b, R a b → S a b) :
    MRel S x y := by
  cases x <;> cases y <;> simp_all [MRel]

/-- evaluated arguments equal up to the value of numbers (`1 == 1.0`) -/
def ArgRel : SArg → SArg → Prop
  | .num x, .num y => Num.veq x y = true
  | .qubit p, .qubit q => p = q
  | .reg l, .reg l' => l = l'
  | _, _ => False

def OptRel {α β} (R : α → β → Prop) : Option α → Option β → Prop
  | some x, some y => R x y
  | none, none => True
  | _, _ => False

/-- association lists with the same keys in the same order and related values -/
def AssocRel {α β} (R : α → β → Prop) (l : List (String × α)) (l' : List (String × β)) : Prop :=
  List.Forall₂ (fun x y => x.1 = y.1 ∧ R x.2 y.2) l l'

theorem lookup_rel {α β} {R : α → β → Prop} {l : List (String × α)} {l' : List (String × β)}
    (h : AssocRel R l l') (n : String) : OptRel R (lookup l n) (lookup l' n) := by
  unfold AssocRel at h
  induction h with
  | nil => simp [lookup, OptRel]
  | @cons x y xs ys hxy _ ih =>
    obtain ⟨hk, hr⟩ := hxy
    unfold lookup at ih ⊢
    by_cases hx : x.1 = n
    · have hy : y.1 = n := hk ▸ hx
      simp [hx, hy, OptRel, hr]
    · have hy : ¬ y.1 = n := hk ▸ hx
      simpa [List.find?_cons, hx, hy] using ih

abbrev BindRel (b b' : Bind) : Prop := AssocRel ArgRel b b'

/-! ## numbers -/

theorem veq_refl' (x : Num) : Num.veq x x = true := veq_refl x

/-- the integer a number denotes in `evalInt` -/
def numToInt : Num → M Int
  | .int i => pure i
  | .flt d => if d.isIntegral then pure d.toInt else .error (.jaqal "not an integer")

theorem evalInt_eq (ρ : Env) (b : Bind) (v : Val) : evalInt ρ b v = evalNum ρ b v >>= numToInt := by
  unfold evalInt
  congr 1

theorem toInt_of_mant_zero {d : Dec} (h : d.mant = 0) : d.toInt = 0 := by
  unfold Dec.toInt
  simp [h]

theorem numToInt_rel {x y : Num} (h : Num.veq x y = true) : MRel Eq (numToInt x) (numToInt y) := by
  cases x <;> cases y <;> simp only [Num.veq, Bool.and_eq_true, Bool.or_eq_true, beq_iff_eq] at h
  · subst h; exact rfl
  · simp [numToInt, h.1, h.2, MRel, Pure.pure, Except.pure]
  · simp [numToInt, h.1, h.2, MRel, Pure.pure, Except.pure]
  · rcases h with ⟨h1, h2⟩ | h
    · simp [numToInt, Dec.isIntegral, h1, h2, toInt_of_mant_zero h1, toInt_of_mant_zero h2, MRel, Pure.pure, Except.pure]
    · subst h
      rename_i d
      cases hd : d.isIntegral <;> simp [numToInt, hd, MRel, Pure.pure, Except.pure]

theorem evalNum_rel (ρ : Env) {bnd bnd' : Bind} (hb : BindRel bnd bnd') :
    ∀ a b : Val, valEq a b = true → MRel (fun x y => Num.veq x y = true) (evalNum ρ bnd a) (evalNum ρ bnd' b) := by
  intro a
  induction a with
  | int x => intro b h; cases b <;> simp [valEq] at h <;> simpa [evalNum, MRel, Pure.pure, Except.pure] using h
  | flt x => intro b h; cases b <;> simp [valEq] at h <;> simpa [evalNum, MRel, Pure.pure, Except.pure] using h
  | const n v ih =>
    intro b h
    cases b <;> simp [valEq] at h
    rename_i n' v'
    obtain ⟨rfl, hv⟩ := h
    simp only [evalNum]
    cases lookup ρ n with
    | some x => simpa [MRel, Pure.pure, Except.pure] using veq_refl x
    | none => exact ih v' hv
  | param n k =>
    intro b h
    cases b <;> simp [valEq] at h
    obtain ⟨rfl, rfl⟩ := h
    simp only [evalNum]
    have := lookup_rel hb n
    cases h1 : lookup bnd n <;> cases h2 : lookup bnd' n <;> simp [h1, h2, OptRel] at this
    · exact trivial
    · rename_i x y
      cases x <;> cases y <;> simp [ArgRel] at this <;> first | exact trivial | simpa [MRel, Pure.pure, Except.pure] using this
  | none => intro b h; cases b <;> simp [valEq] at h; exact trivial
  | str s => intro b h; cases b <;> simp [valEq] at h; exact trivial
  | qubit n s i _ _ => intro b h; cases b <;> simp [valEq] at h; exact trivial
  | regF n s _ => intro b h; cases b <;> simp [valEq] at h; exact trivial
  | regA n s _ => intro b h; cases b <;> simp [valEq] at h; exact trivial
  | regS n s x y z _ _ _ _ => intro b h; cases b <;> simp [valEq] at h; exact trivial

theorem evalInt_rel (ρ : Env) {bnd bnd' : Bind} (hb : BindRel bnd bnd') (a b : Val) (h : valEq a b = true) :
    MRel Eq (evalInt ρ bnd a) (evalInt ρ bnd' b) := by
  rw [evalInt_eq, evalInt_eq]
  exact MRel.bind (evalNum_rel ρ hb a b h) (fun x y hxy => numToInt_rel hxy)

/-! ## registers -/

theorem valEq_none_left {v : Val} (h : valEq .none v = true) : v = .none := by
  cases v <;> simp [valEq] at h; rfl

theorem valEq_none_right {v : Val} (h : valEq v .none = true) : v = .none := by
  cases v <;> simp [valEq] at h; rfl

/-- a defaulted slice bound: `None` stands for `d` -/
def boundInt (ρ : Env) (b : Bind) (d : Int) : Val → M Int
  | .none => pure d
  | v => evalInt ρ b v

theorem boundInt_rel (ρ : Env) {bnd bnd' : Bind} (hb : BindRel bnd bnd') (d : Int) (a b : Val) (h : valEq a b = true) :
    MRel Eq (boundInt ρ bnd d a) (boundInt ρ bnd' d b) := by
  by_cases ha : a = .none
  · subst ha
    rw [valEq_none_left h]
    exact rfl
  · have hb' : b ≠ .none := fun e => ha (valEq_none_right (e ▸ h))
    have e1 : boundInt ρ bnd d a = evalInt ρ bnd a := by cases a <;> first | rfl | exact absurd rfl ha
    have e2 : boundInt ρ bnd' d b = evalInt ρ bnd' b := by cases b <;> first | rfl | exact absurd rfl hb'
    rw [e1, e2]
    exact evalInt_rel ρ hb a b h

theorem evalReg_regS (ρ : Env) (b : Bind) (n : String) (src start stop step : Val) :
    evalReg ρ b (.regS n src start stop step) = (do
      let l ← evalReg ρ b src
      let a ← boundInt ρ b 0 start
      let s ← boundInt ρ b 1 step
      let e ← boundInt ρ b (l.length : Int) stop
      if s = 0 then .error (.jaqal "zero step") else
      (rangeList a e s).mapM (fun i => match nth? l i with
        | some q => pure q
        | none => .error (.jaqal "slice leaves its source"))) := by
  simp only [evalReg]
  congr 1; funext l
  cases start <;> cases step <;> cases stop <;> rfl

theorem MRel.eq_refl {α} (x : M α) : MRel Eq x x := by
  cases x <;> simp [MRel]

theorem evalReg_param_rel (ρ : Env) {bnd bnd' : Bind} (hb : BindRel bnd bnd') (n : String) (k k' : Kind) :
    MRel Eq (evalReg ρ bnd (.param n k)) (evalReg ρ bnd' (.param n k')) := by
  simp only [evalReg]
  have := lookup_rel hb n
  cases h1 : lookup bnd n <;> cases h2 : lookup bnd' n <;> simp [h1, h2, OptRel] at this
  · exact trivial
  · rename_i x y
    cases x <;> cases y <;> simp [ArgRel] at this <;> first | exact trivial | (subst this; exact rfl)

theorem evalReg_rel (ρ : Env) {bnd bnd' : Bind} (hb : BindRel bnd bnd') :
    ∀ a b : Val, valEq a b = true → MRel Eq (evalReg ρ bnd a) (evalReg ρ bnd' b) := by
  intro a
  induction a with
  | regF n size _ =>
    intro b h
    cases b <;> simp [valEq] at h
    obtain ⟨rfl, hs⟩ := h
    simp only [evalReg]
    refine MRel.bind (evalInt_rel ρ hb _ _ hs) (fun k k' hk => ?_)
    subst hk
    exact MRel.eq_refl _
  | regA n src ih =>
    intro b h
    cases b <;> simp [valEq] at h
    obtain ⟨rfl, hs⟩ := h
    simp only [evalReg]
    exact ih _ hs
  | regS n src st sp se ih _ _ _ =>
    intro b h
    cases b <;> simp [valEq] at h
    obtain ⟨⟨⟨⟨rfl, h0⟩, h1⟩, h2⟩, h3⟩ := h
    rw [evalReg_regS, evalReg_regS]
    refine MRel.bind (ih _ h0) (fun l l' hl => ?_)
    subst hl
    refine MRel.bind (boundInt_rel ρ hb 0 _ _ h1) (fun a a' ha => ?_)
    subst ha
    refine MRel.bind (boundInt_rel ρ hb 1 _ _ h3) (fun s s' hs => ?_)
    subst hs
    refine MRel.bind (boundInt_rel ρ hb _ _ _ h2) (fun e e' he => ?_)
    subst he
    exact MRel.eq_refl _
  | param n k =>
    intro b h
    cases b <;> simp [valEq] at h
    obtain ⟨rfl, rfl⟩ := h
    exact evalReg_param_rel ρ hb n k k
  | int x => intro b h; cases b <;> simp [valEq] at h <;> exact trivial
  | flt x => intro b h; cases b <;> simp [valEq] at h <;> exact trivial
  | const n v _ => intro b h; cases b <;> simp [valEq] at h; exact trivial
  | none => intro b h; cases b <;> simp [valEq] at h; exact trivial
  | str s => intro b h; cases b <;> simp [valEq] at h; exact trivial
  | qubit n s i _ _ => intro b h; cases b <;> simp [valEq] at h; exact trivial

/-! ## statements all of whose gate arguments have a property -/

mutual
  /-- every gate argument of the statement has `A` -/
  def StmtAll (A : Val → Prop) : Stmt → Prop
    | .gate _ _ args => ∀ a ∈ args, A a.2
    | .block _ _ _ body => StmtsAll A body
    | .loop _ b => StmtAll A b
  def StmtsAll (A : Val → Prop) : List Stmt → Prop
    | [] => True
    | s :: rest => StmtAll A s ∧ StmtsAll A rest
end

mutual
  theorem StmtAll.mono {A B : Val → Prop} (h : ∀ v, A v → B v) : ∀ s : Stmt, StmtAll A s → StmtAll B s
    | .gate _ _ _, hs => fun a ha => h _ (hs a ha)
    | .block _ _ _ body, hs => by
      simp only [StmtAll] at hs ⊢
      exact StmtsAll.mono h body hs
    | .loop _ b, hs => by
      simp only [StmtAll] at hs ⊢
      exact StmtAll.mono h b hs
  theorem StmtsAll.mono {A B : Val → Prop} (h : ∀ v, A v → B v) : ∀ l : List Stmt, StmtsAll A l → StmtsAll B l
    | [], _ => trivial
    | s :: rest, hs => ⟨StmtAll.mono h s hs.1, StmtsAll.mono h rest hs.2⟩
end

theorem stmtsAll_of_forall {A : Val → Prop} : ∀ {l : List Stmt}, (∀ s ∈ l, StmtAll A s) → StmtsAll A l
  | [], _ => trivial
  | s :: rest, h => ⟨h s (by simp), stmtsAll_of_forall (fun x hx => h x (by simp [hx]))⟩

/-! ## scoping (1): every source is a parameter or an unshadowed register of the circuit -/

/-- The source of a qubit reference, in a scope whose macro parameters are `P`: the parameter of that name, or
the register object the circuit's dictionary holds (the builder indexes the context's own object), whose name is
not shadowed by a parameter. -/
def SrcOk (regs : List Val) (P : List String) (src : Val) : Prop :=
  (∃ p k, src = .param p k ∧ p ∈ P) ∨ (src ∈ regs ∧ ∀ s, src.name? = some s → s ∉ P)

/-- a gate argument: never `None`; a qubit's source is in scope -/
def ArgOk (regs : List Val) (P : List String) : Val → Prop
  | .qubit _ src _ => SrcOk regs P src
  | .none => False
  | _ => True

abbrev StmtOk (regs : List Val) (P : List String) : Stmt → Prop := StmtAll (ArgOk regs P)
abbrev StmtsOk (regs : List Val) (P : List String) : List Stmt → Prop := StmtsAll (ArgOk regs P)

/-- the two register dictionaries bind equal (`==`) values to equal names -/
def RegsAgree (ra rb : List Val) : Prop := ∀ x ∈ ra, ∀ y ∈ rb, x.name? = y.name? → valEq x y = true

theorem src_rel (ρ : Env) {bnd bnd' : Bind} (hb : BindRel bnd bnd') {ra rb : List Val} (hr : RegsAgree ra rb)
    {P : List String} {src src' : Val} (h1 : SrcOk ra P src) (h2 : SrcOk rb P src') {s : String}
    (hn : src.name? = some s) (hn' : src'.name? = some s) :
    MRel Eq (evalReg ρ bnd src) (evalReg ρ bnd' src') := by
  rcases h1 with ⟨p, k, rfl, hp⟩ | ⟨hm, hs⟩ <;> rcases h2 with ⟨p', k', rfl, hp'⟩ | ⟨hm', hs'⟩
  · simp only [Val.name?, Option.some.injEq] at hn hn'
    have : p = p' := hn.trans hn'.symm
    subst this
    exact evalReg_param_rel ρ hb p k k'
  · simp only [Val.name?, Option.some.injEq] at hn
    subst hn
    exact absurd hp (hs' _ hn')
  · simp only [Val.name?, Option.some.injEq] at hn'
    subst hn'
    exact absurd hp' (hs _ hn)
  · exact evalReg_rel ρ hb _ _ (hr _ hm _ hm' (hn.trans hn'.symm))

/-! ## what the logical relation needs of the invariants of the two circuits -/

/-- `A` (for the left circuit) and `B` (for the right one) exclude `None` arguments, and two qubit references that `==`
cannot tell apart (same name, same source NAME) have sources that denote the same list of qubits. -/
structure ArgInv (ρ : Env) (bnd bnd' : Bind) (A B : Val → Prop) : Prop where
  noneA : ¬ A .none
  noneB : ¬ B .none
  src : ∀ {n : String} {src idx src' idx' : Val} {s : String}, A (.qubit n src idx) → B (.qubit n src' idx') →
    src.name? = some s → src'.name? = some s → MRel Eq (evalReg ρ bnd src) (evalReg ρ bnd' src')

theorem argInv_ok (ρ : Env) {bnd bnd' : Bind} (hb : BindRel bnd bnd') {ra rb : List Val} (hr : RegsAgree ra rb)
    (P : List String) : ArgInv ρ bnd bnd' (ArgOk ra P) (ArgOk rb P) :=
  ⟨fun h => h, fun h => h, fun hv hw hn hn' => src_rel ρ hb hr hv hw hn hn'⟩

theorem evalArg_rel (ρ : Env) {bnd bnd' : Bind} (hb : BindRel bnd bnd') {A B : Val → Prop}
    (hAB : ArgInv ρ bnd bnd' A B) (v w : Val) (h : valEq v w = true) (hv : A v) (hw : B w) :
    MRel ArgRel (evalArg ρ bnd v) (evalArg ρ bnd' w) := by
  cases v <;> cases w <;> simp [valEq] at h
  case int.int => simpa [evalArg, evalNum, MRel, ArgRel, Bind.bind, Except.bind, Pure.pure, Except.pure] using h
  case int.flt => simpa [evalArg, evalNum, MRel, ArgRel, Bind.bind, Except.bind, Pure.pure, Except.pure] using h
  case flt.int => simpa [evalArg, evalNum, MRel, ArgRel, Bind.bind, Except.bind, Pure.pure, Except.pure] using h
  case flt.flt => simpa [evalArg, evalNum, MRel, ArgRel, Bind.bind, Except.bind, Pure.pure, Except.pure] using h
  case const.const n v n' v' =>
    simp only [evalArg]
    refine MRel.bind (evalNum_rel ρ hb (.const n v) (.const n' v') (by simpa [valEq] using h)) (fun x y hxy => ?_)
    exact hxy
  case param.param n k n' k' =>
    obtain ⟨rfl, rfl⟩ := h
    simp only [evalArg]
    have := lookup_rel hb n
    cases h1 : lookup bnd n <;> cases h2 : lookup bnd' n <;> simp [h1, h2, OptRel] at this
    · exact trivial
    · exact this
  case qubit.qubit n src idx n' src' idx' =>
    obtain ⟨⟨rfl, hs⟩, hi⟩ := h
    simp only [evalArg, evalQubit]
    cases hsn : src.name? <;> cases hsn' : src'.name? <;> simp [hsn, hsn'] at hs
    subst hs
    refine MRel.bind (R := Eq) (MRel.bind (evalInt_rel ρ hb _ _ hi) (fun i i' hi' => ?_)) (fun q q' hq => ?_)
    · subst hi'
      refine MRel.bind (hAB.src hv hw hsn hsn') (fun l l' hl => ?_)
      subst hl
      exact MRel.eq_refl _
    · subst hq; exact rfl
  case regF.regF n s n' s' =>
    simp only [evalArg]
    exact MRel.bind (evalReg_rel ρ hb (.regF n s) (.regF n' s') (by simpa [valEq] using h)) (fun l l' hl => hl)
  case regA.regA n s n' s' =>
    simp only [evalArg]
    exact MRel.bind (evalReg_rel ρ hb (.regA n s) (.regA n' s') (by simpa [valEq] using h)) (fun l l' hl => hl)
  case regS.regS n s x y z n' s' x' y' z' =>
    simp only [evalArg]
    exact MRel.bind (evalReg_rel ρ hb (.regS n s x y z) (.regS n' s' x' y' z') (by simpa [valEq] using h))
      (fun l l' hl => hl)
  case none.none => exact (hAB.noneA hv).elim
  case str.str => exact trivial

/-! ## scoping (2): what holds of EVERY circuit the parser and builder produce

A qubit reference in a statement of a parser-produced circuit is
* an element `s[i]` written in place: the builder indexes what the identifier `s` resolves to — the parameter `s` of
  the enclosing macro when there is one (parameters shadow declarations), else the register or alias `s` of the
  circuit — and calls the reference `s[i]`, which is not the name of any declaration (identifiers have no `[`); or
* a single-qubit alias `q` of the header (`map q s[i]`) reached by its NAME: the very value the register dictionary
  holds under `q`, whose source is a declared register whatever parameters the enclosing macro has (in
  `register r[2]; map q r[1]; macro m r { g q }` the source of `q` is the REGISTER `r` although `r` is a parameter).

`==` sees the reference's own name, the NAME of its source and its index.  The own name tells the two cases apart:
the name of an element is not declared, the name of an alias is. -/

/-- a register / alias / named qubit of that name is declared -/
def Declared (regs : List Val) (n : String) : Prop := ∃ x ∈ regs, x.name? = some n

/-- The qubit reference called `n` with source `src`, in a scope with parameters `P` of a circuit whose register
dictionary is `regs`: the source is a parameter and `n` is not the name of a declaration; or the source is a
declared register / alias that no parameter shadows, or `n` is itself the name of a declaration. -/
def QRef (regs : List Val) (P : List String) (n : String) (src : Val) : Prop :=
  (∃ s k, src = .param s k ∧ s ∈ P ∧ ¬ Declared regs n) ∨
  (src ∈ regs ∧ ((∀ s, src.name? = some s → s ∉ P) ∨ Declared regs n))

/-- a gate argument: never `None`; a qubit is referenced as the parser does -/
def ArgRef (regs : List Val) (P : List String) : Val → Prop
  | .qubit n src _ => QRef regs P n src
  | .none => False
  | _ => True

/-- the stronger invariant implies the general one when element names are not declared -/
theorem argRef_of_argOk {regs : List Val} {P : List String} {v : Val} (h : ArgOk regs P v)
    (hn : ∀ n src idx, v = .qubit n src idx → (∃ p k, src = .param p k) → ¬ Declared regs n) : ArgRef regs P v := by
  cases v <;> try exact h
  rename_i n src idx
  rcases h with ⟨p, k, rfl, hp⟩ | ⟨hm, hs⟩
  · exact Or.inl ⟨p, k, rfl, hp, hn _ _ _ rfl ⟨p, k, rfl⟩⟩
  · exact Or.inr ⟨hm, Or.inl hs⟩

theorem argInv_ref (ρ : Env) {bnd bnd' : Bind} (hb : BindRel bnd bnd') {ra rb : List Val} (hr : RegsAgree ra rb)
    (hk : ∀ n, Declared ra n ↔ Declared rb n) (P : List String) : ArgInv ρ bnd bnd' (ArgRef ra P) (ArgRef rb P) := by
  refine ⟨fun h => h, fun h => h, ?_⟩
  intro n src idx src' idx' s hv hw hn hn'
  rcases hv with ⟨p, k, rfl, hp, hnd⟩ | ⟨hm, hc⟩ <;> rcases hw with ⟨p', k', rfl, hp', hnd'⟩ | ⟨hm', hc'⟩
  · simp only [Val.name?, Option.some.injEq] at hn hn'
    have : p = p' := hn.trans hn'.symm
    subst this
    exact evalReg_param_rel ρ hb p k k'
  · simp only [Val.name?, Option.some.injEq] at hn
    subst hn
    rcases hc' with hc' | hc'
    · exact absurd hp (hc' _ hn')
    · exact absurd ((hk n).2 hc') hnd
  · simp only [Val.name?, Option.some.injEq] at hn'
    subst hn'
    rcases hc with hc | hc
    · exact absurd hp' (hc _ hn)
    · exact absurd ((hk n).1 hc) hnd'
  · exact evalReg_rel ρ hb _ _ (hr _ hm _ hm' (hn.trans hn'.symm))

/-! ## statements -/

mutual
  /-- identical trees, numeric arguments compared by value -/
  def SemRel : Sem → Sem → Prop
    | .gate n a, .gate n' a' => n = n' ∧ List.Forall₂ ArgRel a a'
    | .blk p s i b, .blk p' s' i' b' => p = p' ∧ s = s' ∧ i = i' ∧ SemsRel b b'
    | .loop n b, .loop n' b' => n = n' ∧ SemRel b b'
    | _, _ => False
  def SemsRel : List Sem → List Sem → Prop
    | [], [] => True
    | x :: xs, y :: ys => SemRel x y ∧ SemsRel xs ys
    | _, _ => False
end

/-- related macro denotations: same arities, related results on related arguments -/
def FunRel (x y : Nat × (List SArg → M Sem)) : Prop :=
  x.1 = y.1 ∧ ∀ vs vs', List.Forall₂ ArgRel vs vs' → MRel SemRel (x.2 vs) (y.2 vs')

/-- related macro tables: same names in the same order, related denotations -/
abbrev MDRel (md md' : MacroDen) : Prop := AssocRel FunRel md md'

/-- the two macro tables agree (up to `FunRel`) on the name `g` -/
def MDLook (md md' : MacroDen) (g : String) : Prop := OptRel FunRel (lookup md g) (lookup md' g)

theorem MDRel.look {md md' : MacroDen} (h : MDRel md md') (g : String) : MDLook md md' g := lookup_rel h g

theorem argsEq_forall₂ : ∀ (as bs : List (String × Val)), argsEq as bs = true →
    (∀ a ∈ as, a.2 ≠ .none) → (∀ b ∈ bs, b.2 ≠ .none) → List.Forall₂ (fun a b => valEq a.2 b.2 = true) as bs
  | [], [], _, _, _ => .nil
  | a :: as, [], h, ha, _ => by
    simp only [argsEq, Bool.and_eq_true] at h
    exact absurd (valEq_none_right h.1) (ha a (by simp))
  | [], b :: bs, h, _, hb => by
    simp only [argsEq, Bool.and_eq_true] at h
    exact absurd (valEq_none_left h.1) (hb b (by simp))
  | a :: as, b :: bs, h, ha, hb => by
    simp only [argsEq, Bool.and_eq_true] at h
    exact .cons h.1 (argsEq_forall₂ as bs h.2 (fun x hx => ha x (by simp [hx])) (fun x hx => hb x (by simp [hx])))

theorem mapM_rel {α β γ δ} {S : γ → δ → Prop} {f : α → M γ} {g : β → M δ} {l : List α} {l' : List β}
    (h : List.Forall₂ (fun a b => MRel S (f a) (g b)) l l') :
    MRel (List.Forall₂ S) (l.mapM f) (l'.mapM g) := by
  induction h with
  | nil => exact List.Forall₂.nil
  | cons hab _ ih =>
    rw [List.mapM_cons, List.mapM_cons]
    refine MRel.bind hab (fun x y hxy => ?_)
    refine MRel.bind ih (fun xs ys hxs => ?_)
    exact List.Forall₂.cons hxy hxs

theorem forall₂_length {α β} {R : α → β → Prop} {l : List α} {l' : List β} (h : List.Forall₂ R l l') :
    l.length = l'.length := by
  induction h with
  | nil => rfl
  | cons _ _ ih => simp [ih]

mutual
  /-- The logical relation: statements that compare equal, whose arguments satisfy the invariants of their circuits,
  evaluated under related bindings and under macro tables that agree on the gate names occurring in them, have related
  meanings. -/
  theorem evalStmt_rel (ρ : Env) {md md' : MacroDen} {bnd bnd' : Bind} (hb : BindRel bnd bnd')
      {A B : Val → Prop} (hAB : ArgInv ρ bnd bnd' A B) :
      ∀ s t : Stmt, stmtEq s t = true → StmtAll A s → StmtAll B t →
        (∀ g ∈ ExpandMacros.gateNames s, MDLook md md' g) →
        MRel SemRel (evalStmt ρ md bnd s) (evalStmt ρ md' bnd' t)
    | .gate n _ args, .gate n' _ args', h, hs, ht, hmd => by
      simp only [stmtEq, Bool.and_eq_true, beq_iff_eq] at h
      obtain ⟨rfl, ha⟩ := h
      simp only [StmtAll] at hs ht
      have hf := argsEq_forall₂ args args' ha (fun a h e => hAB.noneA (e ▸ hs a h)) (fun a h e => hAB.noneB (e ▸ ht a h))
      have hlook := hmd n (by simp [ExpandMacros.gateNames])
      clear hmd
      have hf2 : List.Forall₂ (fun a b => MRel ArgRel (evalArg ρ bnd a.2) (evalArg ρ bnd' b.2)) args args' := by
        clear ha
        induction hf with
        | nil => exact .nil
        | @cons a b as bs hab _ ih =>
          exact .cons (evalArg_rel ρ hb hAB a.2 b.2 hab (hs a (by simp)) (ht b (by simp)))
            (ih (fun x hx => hs x (by simp [hx])) (fun x hx => ht x (by simp [hx])))
      simp only [evalStmt]
      refine MRel.bind (mapM_rel hf2) (fun vs vs' hvs => ?_)
      have hl := forall₂_length hvs
      have := hlook
      unfold MDLook at this
      cases h1 : lookup md n <;> cases h2 : lookup md' n <;> simp [h1, h2, OptRel] at this
      · exact ⟨rfl, hvs⟩
      · rename_i x y
        obtain ⟨hxy, hfun⟩ := this
        simp only [hl, hxy]
        split
        · exact hfun vs vs' hvs
        · exact trivial
    | .block par sub it body, .block par' sub' it' body', h, hs, ht, hmd => by
      simp only [stmtEq, Bool.and_eq_true, beq_iff_eq] at h
      obtain ⟨⟨⟨⟨rfl, rfl⟩, hi⟩, _⟩, hbody⟩ := h
      simp only [StmtAll] at hs ht
      simp only [evalStmt]
      refine MRel.bind (evalInt_rel ρ hb _ _ hi) (fun k k' hk => ?_)
      subst hk
      refine MRel.bind (evalStmts_rel ρ hb hAB body body' hbody ‹_› hs ht
        (fun g hg => hmd g (by simpa [ExpandMacros.gateNames] using hg))) (fun xs ys hxs => ?_)
      exact ⟨rfl, rfl, rfl, hxs⟩
    | .loop c b, .loop c' b', h, hs, ht, hmd => by
      simp only [stmtEq, Bool.and_eq_true] at h
      simp only [StmtAll] at hs ht
      simp only [evalStmt]
      refine MRel.bind (evalInt_rel ρ hb _ _ h.1) (fun k k' hk => ?_)
      subst hk
      refine MRel.bind (evalStmt_rel ρ hb hAB b b' h.2 hs ht
        (fun g hg => hmd g (by simpa [ExpandMacros.gateNames] using hg))) (fun x y hxy => ?_)
      exact ⟨rfl, hxy⟩
    | .gate .., .block .., h, _, _, _ => by simp [stmtEq] at h
    | .gate .., .loop .., h, _, _, _ => by simp [stmtEq] at h
    | .block .., .gate .., h, _, _, _ => by simp [stmtEq] at h
    | .block .., .loop .., h, _, _, _ => by simp [stmtEq] at h
    | .loop .., .gate .., h, _, _, _ => by simp [stmtEq] at h
    | .loop .., .block .., h, _, _, _ => by simp [stmtEq] at h
  theorem evalStmts_rel (ρ : Env) {md md' : MacroDen} {bnd bnd' : Bind} (hb : BindRel bnd bnd')
      {A B : Val → Prop} (hAB : ArgInv ρ bnd bnd' A B) :
      ∀ l l' : List Stmt, stmtsEq l l' = true → l.length = l'.length → StmtsAll A l → StmtsAll B l' →
        (∀ g ∈ ExpandMacros.gateNamesList l, MDLook md md' g) →
        MRel SemsRel (evalStmts ρ md bnd l) (evalStmts ρ md' bnd' l')
    | [], [], _, _, _, _, _ => by simp [evalStmts, MRel, Pure.pure, Except.pure, SemsRel]
    | [], _ :: _, _, hl, _, _, _ => by simp at hl
    | _ :: _, [], _, hl, _, _, _ => by simp at hl
    | s :: rest, t :: rest', h, hl, hs, ht, hmd => by
      simp only [stmtsEq, Bool.and_eq_true] at h
      simp only [StmtsAll] at hs ht
      simp only [evalStmts]
      refine MRel.bind (evalStmt_rel ρ hb hAB s t h.1 hs.1 ht.1
        (fun g hg => hmd g (by simp [ExpandMacros.gateNamesList, hg]))) (fun x y hxy => ?_)
      refine MRel.bind (evalStmts_rel ρ hb hAB rest rest' h.2 (by simpa using hl) hs.2 ht.2
        (fun g hg => hmd g (by simp [ExpandMacros.gateNamesList, hg]))) (fun xs ys hxs => ?_)
      exact ⟨hxy, hxs⟩
end

/-! ## normalisation -/

theorem SemsRel.append : ∀ {a b c d : List Sem}, SemsRel a b → SemsRel c d → SemsRel (a ++ c) (b ++ d)
  | [], [], _, _, _, h => by simpa using h
  | [], _ :: _, _, _, h, _ => by simp [SemsRel] at h
  | _ :: _, [], _, _, h, _ => by simp [SemsRel] at h
  | x :: xs, y :: ys, c, d, h, h' => by
    simp only [SemsRel] at h
    simp only [List.cons_append, SemsRel]
    exact ⟨h.1, SemsRel.append h.2 h'⟩

mutual
  theorem norm_rel : ∀ x y : Sem, SemRel x y → SemRel x.norm y.norm
    | .gate n a, .gate n' a', h => by simpa [Sem.norm] using h
    | .blk p s i b, .blk p' s' i' b', h => by
      simp only [SemRel] at h
      obtain ⟨rfl, rfl, rfl, hb⟩ := h
      simp only [Sem.norm, SemRel]
      exact ⟨trivial, trivial, trivial, normList_rel p b b' hb⟩
    | .loop n b, .loop n' b', h => by
      simp only [SemRel] at h
      simp only [Sem.norm, SemRel]
      exact ⟨h.1, norm_rel b b' h.2⟩
    | .gate .., .blk .., h => by simp [SemRel] at h
    | .gate .., .loop .., h => by simp [SemRel] at h
    | .blk .., .gate .., h => by simp [SemRel] at h
    | .blk .., .loop .., h => by simp [SemRel] at h
    | .loop .., .gate .., h => by simp [SemRel] at h
    | .loop .., .blk .., h => by simp [SemRel] at h
  theorem normList_rel (par : Bool) : ∀ xs ys : List Sem, SemsRel xs ys → SemsRel (normList par xs) (normList par ys)
    | [], [], _ => by simp [normList, SemsRel]
    | [], _ :: _, h => by simp [SemsRel] at h
    | _ :: _, [], h => by simp [SemsRel] at h
    | .blk p false i b :: xs, y :: ys, h => by
      simp only [SemsRel] at h
      obtain ⟨hxy, hrest⟩ := h
      cases y <;> simp only [SemRel] at hxy
      rename_i p' s' i' b'
      obtain ⟨rfl, rfl, rfl, hb⟩ := hxy
      simp only [normList]
      split
      · exact SemsRel.append (normList_rel par b b' hb) (normList_rel par xs ys hrest)
      · simp only [SemsRel, SemRel]
        exact ⟨⟨trivial, trivial, trivial, normList_rel p b b' hb⟩, normList_rel par xs ys hrest⟩
    | .blk p true i b :: xs, y :: ys, h => by
      simp only [SemsRel] at h
      obtain ⟨hxy, hrest⟩ := h
      cases y <;> simp only [SemRel] at hxy
      rename_i p' s' i' b'
      obtain ⟨rfl, rfl, rfl, hb⟩ := hxy
      simp only [normList, SemsRel]
      exact ⟨norm_rel (.blk p true i b) (.blk p true i b') (by simp only [SemRel]; exact ⟨trivial, trivial, trivial, hb⟩),
        normList_rel par xs ys hrest⟩
    | .gate n a :: xs, y :: ys, h => by
      simp only [SemsRel] at h
      obtain ⟨hxy, hrest⟩ := h
      cases y <;> simp only [SemRel] at hxy
      simp only [normList, SemsRel]
      exact ⟨norm_rel _ _ (by simpa only [SemRel] using hxy), normList_rel par xs ys hrest⟩
    | .loop n b :: xs, y :: ys, h => by
      simp only [SemsRel] at h
      obtain ⟨hxy, hrest⟩ := h
      cases y <;> simp only [SemRel] at hxy
      simp only [normList, SemsRel]
      exact ⟨norm_rel _ _ (by simpa only [SemRel] using hxy), normList_rel par xs ys hrest⟩
end

/-! ## macros, listed in the same order -/

theorem forall₂_append {α β} {R : α → β → Prop} {a : List α} {b : List β} {c : List α} {d : List β}
    (h : List.Forall₂ R a b) (h' : List.Forall₂ R c d) : List.Forall₂ R (a ++ c) (b ++ d) := by
  induction h with
  | nil => simpa using h'
  | cons hxy _ ih => exact .cons hxy ih

theorem zip_bindRel : ∀ (names : List String) {vs vs' : List SArg}, List.Forall₂ ArgRel vs vs' →
    BindRel (names.zip vs) (names.zip vs')
  | [], _, _, _ => by simp [AssocRel]
  | n :: ns, _, _, h => by
    cases h with
    | nil => simp [AssocRel]
    | cons hxy hrest => exact List.Forall₂.cons ⟨rfl, hxy⟩ (zip_bindRel ns hrest)

/-- two macros that compare equal, whose bodies are well scoped in their circuits -/
def MacRel (ra rb : List Val) (m m' : Macro) : Prop :=
  macroEq m m' = true ∧ StmtOk ra (m.params.map (·.1)) m.body ∧ StmtOk rb (m'.params.map (·.1)) m'.body

/-- one step of `denoteMacros` -/
def denoteStep (ρ : Env) (md : MacroDen) (m : Macro) : MacroDen :=
  md ++ [(m.name, (m.params.length,
    fun args => evalStmt ρ md (m.params.map (·.1) |>.zip args) m.body))]

theorem denoteMacros_eq (ρ : Env) (ms : List Macro) : denoteMacros ρ ms = ms.foldl (denoteStep ρ) [] := rfl

theorem denote_foldl_rel (ρ : Env) {ra rb : List Val} (hr : RegsAgree ra rb) {ms ms' : List Macro}
    (h : List.Forall₂ (MacRel ra rb) ms ms') :
    ∀ md md' : MacroDen, MDRel md md' → MDRel (ms.foldl (denoteStep ρ) md) (ms'.foldl (denoteStep ρ) md') := by
  induction h with
  | nil => intro md md' hmd; exact hmd
  | @cons m m' ms ms' hm _ ih =>
    intro md md' hmd
    simp only [List.foldl_cons]
    apply ih
    obtain ⟨heq, hs, ht⟩ := hm
    simp only [macroEq, paramsEq, Bool.and_eq_true, beq_iff_eq] at heq
    obtain ⟨⟨hname, hparams⟩, hbody⟩ := heq
    unfold denoteStep
    refine forall₂_append hmd (List.Forall₂.cons ⟨hname, ?_, ?_⟩ List.Forall₂.nil)
    · simp [hparams]
    · intro vs vs' hvs
      rw [← hparams] at ht ⊢
      exact evalStmt_rel ρ (zip_bindRel _ hvs) (argInv_ok ρ (zip_bindRel _ hvs) hr _) m.body m'.body hbody hs ht
        (fun g _ => hmd.look g)

/-! ## macros, listed in any order in which callees come first -/

/-- every macro body calls (of the macros of the list) only macros listed before it -/
def MacrosOrdered (ms : List Macro) : Prop :=
  ∀ pre m post, ms = pre ++ m :: post →
    ∀ g ∈ ExpandMacros.gateNames m.body, g ∈ pre.map (·.name) ∨ g ∉ ms.map (·.name)

theorem nodup_names {ms : List Macro} (h : (ms.map (fun m => some m.name)).Nodup) : (ms.map (·.name)).Nodup := by
  induction ms with
  | nil => simp
  | cons m ms ih =>
    simp only [List.map_cons, List.nodup_cons] at h ⊢
    refine ⟨fun hmem => h.1 ?_, ih h.2⟩
    obtain ⟨x, hx, hn⟩ := List.mem_map.1 hmem
    exact List.mem_map.2 ⟨x, hx, by simp [hn]⟩

theorem lookup_den_none (ρ : Env) {ms : List Macro} {g : String} (h : g ∉ ms.map (·.name)) :
    lookup (denoteMacros ρ ms) g = none := by
  rw [ExpandMacros.denoteMacros_eq]
  apply ExpandMacros.lookup_fold_none ρ ms [] g rfl
  intro x hx
  have : x.name ≠ g := fun he => h (he ▸ List.mem_map_of_mem hx)
  simpa using this

/-- in an ordered table with distinct names the denotation of a macro is the meaning of its body under the FULL table -/
theorem lookup_denote_ordered (ρ : Env) {ms : List Macro} (hnd : (ms.map (·.name)).Nodup) (ho : MacrosOrdered ms)
    {pre : List Macro} {m : Macro} {post : List Macro} (hs : ms = pre ++ m :: post) :
    ∃ f, lookup (denoteMacros ρ ms) m.name = some (m.params.length, f) ∧
      ∀ args, f args = evalStmt ρ (denoteMacros ρ ms) (m.params.map (·.1) |>.zip args) m.body := by
  have hsc := ho pre m post hs
  subst hs
  have hpre : ∀ x ∈ pre, (x.name == m.name) = false := by
    intro x hx
    simp only [List.map_append, List.map_cons] at hnd
    have hdis := (List.nodup_append.1 hnd).2.2
    have : x.name ≠ m.name := hdis x.name (List.mem_map_of_mem hx) m.name (by simp)
    simpa using this
  refine ⟨fun args => evalStmt ρ (pre.foldl (ExpandMacros.mstep ρ) []) (m.params.map (·.1) |>.zip args) m.body, ?_, ?_⟩
  · rw [ExpandMacros.denoteMacros_eq]
    exact ExpandMacros.lookup_fold_hit ρ pre post m [] m.name rfl hpre (by simp)
  · intro args
    apply ExpandMacros.evalStmt_congr_md
    intro g hg
    rw [ExpandMacros.denoteMacros_eq, List.foldl_append]
    rcases hsc g hg with hav | hnot
    · obtain ⟨x, hx, hxn⟩ := List.mem_map.1 hav
      cases hf : List.find? (fun y : Macro => y.name == g) pre with
      | none => exact absurd (List.find?_eq_none.mp hf x hx) (by simp [hxn])
      | some y =>
        obtain ⟨hy, p1, p2, hp, hp1⟩ := List.find?_eq_some_iff_append.mp hf
        have hit := ExpandMacros.lookup_fold_hit ρ p1 p2 y [] g rfl (fun z hz => by simpa using hp1 z hz) hy
        rw [← hp] at hit
        rw [hit]
        exact (ExpandMacros.lookup_fold_some ρ _ _ g _ hit).symm
    · have hall : ∀ x ∈ pre ++ m :: post, (x.name == g) = false := by
        intro x hx
        have : x.name ≠ g := fun he => hnot (by rw [← he]; exact List.mem_map_of_mem hx)
        simpa using this
      have h1 : lookup (List.foldl (ExpandMacros.mstep ρ) [] pre) g = none :=
        ExpandMacros.lookup_fold_none ρ pre [] g rfl (fun x hx => hall x (by simp [hx]))
      rw [h1]
      exact (ExpandMacros.lookup_fold_none ρ _ _ g h1 (fun x hx => hall x (by
        simp only [List.mem_append, List.mem_cons] at hx ⊢; exact Or.inr hx))).symm

/-- **The macro tables of two circuits that compare equal agree on every name, whatever the order of the two lists**, as
long as in each list callees come first: `dict.__eq__` pairs the macros by name, and the denotation of a macro is the
meaning of its body under the full table (induction on the position of the macro in the first list). -/
theorem denote_look (ρ : Env) {A B : List String → Val → Prop}
    (hAB : ∀ P (bnd bnd' : Bind), BindRel bnd bnd' → ArgInv ρ bnd bnd' (A P) (B P)) {ms ms' : List Macro}
    (hnd : (ms.map (·.name)).Nodup) (hnd' : (ms'.map (·.name)).Nodup) (ho : MacrosOrdered ms) (ho' : MacrosOrdered ms')
    (hpair : ∀ m ∈ ms, ∃ m' ∈ ms', m'.name = m.name ∧ macroEq m m' = true)
    (hback : ∀ m' ∈ ms', ∃ m ∈ ms, m.name = m'.name)
    (hA : ∀ m ∈ ms, StmtAll (A (m.params.map (·.1))) m.body)
    (hB : ∀ m ∈ ms', StmtAll (B (m.params.map (·.1))) m.body) :
    ∀ g, MDLook (denoteMacros ρ ms) (denoteMacros ρ ms') g := by
  have hnone : ∀ g, g ∉ ms.map (·.name) → MDLook (denoteMacros ρ ms) (denoteMacros ρ ms') g := by
    intro g hg
    have hg' : g ∉ ms'.map (·.name) := by
      intro hmem
      obtain ⟨m', hm', rfl⟩ := List.mem_map.1 hmem
      obtain ⟨m, hm, hn⟩ := hback m' hm'
      exact hg (hn ▸ List.mem_map_of_mem hm)
    unfold MDLook
    rw [lookup_den_none ρ hg, lookup_den_none ρ hg']
    trivial
  have key : ∀ k, ∀ pre m post, pre.length < k → ms = pre ++ m :: post →
      MDLook (denoteMacros ρ ms) (denoteMacros ρ ms') m.name := by
    intro k
    induction k with
    | zero => intro pre m post hk; omega
    | succ k ih =>
      intro pre m post hk hs
      have hm : m ∈ ms := by rw [hs]; simp
      obtain ⟨m', hm', hname, heq⟩ := hpair m hm
      obtain ⟨pre', post', hs'⟩ := List.append_of_mem hm'
      obtain ⟨f, hf, hfe⟩ := lookup_denote_ordered ρ hnd ho hs
      obtain ⟨f', hf', hfe'⟩ := lookup_denote_ordered ρ hnd' ho' hs'
      simp only [macroEq, paramsEq, Bool.and_eq_true, beq_iff_eq] at heq
      obtain ⟨⟨_, hparams⟩, hbody⟩ := heq
      unfold MDLook
      rw [hf, ← hname, hf']
      refine ⟨by simp [hparams], fun vs vs' hvs => ?_⟩
      show MRel SemRel (f vs) (f' vs')
      rw [hfe, hfe']
      have hB' := hB m' hm'
      rw [← hparams] at hB' ⊢
      refine evalStmt_rel ρ (zip_bindRel _ hvs) (hAB _ _ _ (zip_bindRel _ hvs)) m.body m'.body hbody (hA m hm) hB'
        (fun g hg => ?_)
      rcases ho pre m post hs g hg with hav | hnot
      · obtain ⟨x, hx, rfl⟩ := List.mem_map.1 hav
        obtain ⟨p1, p2, hp⟩ := List.append_of_mem hx
        refine ih p1 x (p2 ++ m :: post) ?_ (by rw [hs, hp]; simp)
        have : pre.length = p1.length + 1 + p2.length := by rw [hp]; simp; omega
        omega
      · exact hnone g hnot
  intro g
  by_cases hg : g ∈ ms.map (·.name)
  · obtain ⟨m, hm, rfl⟩ := List.mem_map.1 hg
    obtain ⟨pre, post, hs⟩ := List.append_of_mem hm
    exact key (pre.length + 1) pre m post (by omega) hs
  · exact hnone g hg

/-! ## circuits -/

/-- from the per-key statement of `dict.__eq__` to a position-by-position one, when both dictionaries list their
keys in the same order -/
theorem forall₂_of_keys {α} (key : α → Option String) (R : α → α → Prop) : ∀ (a b : List α),
    (a.map key).Nodup → (b.map key).Nodup → a.map key = b.map key →
    (∀ x ∈ a, ∃ y ∈ b, key y = key x ∧ R x y) → List.Forall₂ R a b
  | [], [], _, _, _, _ => .nil
  | [], _ :: _, _, _, hk, _ => by simp at hk
  | _ :: _, [], _, _, hk, _ => by simp at hk
  | x :: xs, y :: ys, hna, hnb, hk, hall => by
    simp only [List.map_cons, List.cons.injEq] at hk
    have hna' := hna; have hnb' := hnb
    simp only [List.map_cons, List.nodup_cons] at hna' hnb'
    refine .cons ?_ (forall₂_of_keys key R xs ys hna'.2 hnb'.2 hk.2 (fun x' hx' => ?_))
    · obtain ⟨y', hy', hky, hR⟩ := hall x (by simp)
      have : y' = y := key_inj_of_nodup key (y :: ys) hnb y' hy' y (by simp) (hky.trans hk.1)
      exact this ▸ hR
    · obtain ⟨y', hy', hky, hR⟩ := hall x' (by simp [hx'])
      rcases List.mem_cons.mp hy' with rfl | hy''
      · exfalso
        apply hna'.1
        rw [hk.1, hky]
        exact List.mem_map_of_mem hx'
      · exact ⟨y', hy'', hky, hR⟩

/-- A circuit as far as the first form of `C20_sound` needs: dictionaries with distinct keys;
every qubit reference in a statement has as its source the macro parameter of that name or the very register value
the circuit's dictionary holds ("registers are declared once": the builder makes qubits by indexing the register
object of its context), NOT shadowed by a parameter; no gate argument is `None`.  Not every parser-produced circuit is
like this (a single-qubit alias whose source is shadowed by a parameter: `ParsedLike` below covers those). -/
structure ParserLike (c : Circuit) : Prop extends DictKeys c where
  bodyOk : StmtOk c.registers [] c.body
  macrosOk : ∀ m ∈ c.macros, StmtOk c.registers (m.params.map (·.1)) m.body

/-- What holds of EVERY circuit the parser and builder produce (`parsed_parserLike`, `Lemmas/ParsedParserLike.lean`):
dictionaries with distinct keys; every qubit reference is an element of a parameter / of an unshadowed declared register
under a name that is not declared, or has a declared source and a declared name (`QRef`); no gate argument is `None`;
every macro body calls, of the circuit's macros, only those listed before it. -/
structure ParsedLike (c : Circuit) : Prop extends DictKeys c where
  bodyRef : StmtAll (ArgRef c.registers []) c.body
  macrosRef : ∀ m ∈ c.macros, StmtAll (ArgRef c.registers (m.params.map (·.1))) m.body
  ordered : MacrosOrdered c.macros

theorem regsAgree_of_dictEq {ra rb : List Val} (hnb : (rb.map Val.name?).Nodup)
    (h : dictEq Val.name? valEq ra rb = true) : RegsAgree ra rb := by
  intro x hx y hy hk
  obtain ⟨y', hy', hk', he⟩ := (dictEq_true h).2 x hx
  have : y' = y := key_inj_of_nodup Val.name? rb hnb y' hy' y hy (hk'.trans hk)
  exact this ▸ he

/-- equal register dictionaries declare the same names -/
theorem declared_of_dictEq {ra rb : List Val} (hna : (ra.map Val.name?).Nodup)
    (h : dictEq Val.name? valEq ra rb = true) (n : String) : Declared ra n ↔ Declared rb n := by
  obtain ⟨hlen, hall⟩ := dictEq_true h
  have hsub : ∀ x ∈ ra, ∃ y ∈ rb, y.name? = x.name? := fun x hx => by
    obtain ⟨y, hy, hk, _⟩ := hall x hx
    exact ⟨y, hy, hk⟩
  constructor
  · rintro ⟨x, hx, hn⟩
    obtain ⟨y, hy, hk⟩ := hsub x hx
    exact ⟨y, hy, hk.trans hn⟩
  · rintro ⟨y, hy, hn⟩
    obtain ⟨x, hx, hk⟩ := keys_subset_symm Val.name? ra rb hna hlen hsub y hy
    exact ⟨x, hx, hk.trans hn⟩

/-- Circuits that compare equal have the same gate-level meaning (numbers by value) under every override
environment `ρ` — for parser-like circuits that list their macros in the same (definition) order. -/
theorem meaning_rel (ρ : Env) (a b : Circuit) (ha : ParserLike a) (hb : ParserLike b)
    (horder : a.macros.map (·.name) = b.macros.map (·.name)) (h : circuitEq a b = true) :
    MRel SemRel (meaning ρ a) (meaning ρ b) := by
  simp only [circuitEq, Bool.and_eq_true] at h
  obtain ⟨⟨⟨⟨⟨_, hmac⟩, _⟩, hregs⟩, hbody⟩, _⟩ := h
  have hr : RegsAgree a.registers b.registers := regsAgree_of_dictEq hb.regKeys hregs
  have hk : a.macros.map (fun m => some m.name) = b.macros.map (fun m => some m.name) := by
    have := congrArg (List.map some) horder
    simp only [List.map_map] at this
    exact this
  have hms : List.Forall₂ (MacRel a.registers b.registers) a.macros b.macros := by
    refine forall₂_of_keys (fun m => some m.name) _ a.macros b.macros ha.macroKeys hb.macroKeys hk (fun x hx => ?_)
    obtain ⟨y, hy, hky, he⟩ := (dictEq_true hmac).2 x hx
    exact ⟨y, hy, hky, he, ha.macrosOk x hx, hb.macrosOk y hy⟩
  have hmd : MDRel (denoteMacros ρ a.macros) (denoteMacros ρ b.macros) := by
    rw [denoteMacros_eq, denoteMacros_eq]
    exact denote_foldl_rel ρ hr hms [] [] List.Forall₂.nil
  unfold meaning
  refine MRel.bind (evalStmt_rel ρ (List.Forall₂.nil) (argInv_ok ρ List.Forall₂.nil hr []) a.body b.body hbody
    ha.bodyOk hb.bodyOk (fun g _ => hmd.look g)) (fun x y hxy => ?_)
  exact norm_rel x y hxy

/-- the common part of the order-free theorems -/
theorem meaning_rel_look (ρ : Env) (a b : Circuit) (ha : DictKeys a) (hb : DictKeys b)
    {A B : List String → Val → Prop}
    (hAB : ∀ P (bnd bnd' : Bind), BindRel bnd bnd' → ArgInv ρ bnd bnd' (A P) (B P))
    (hoa : MacrosOrdered a.macros) (hob : MacrosOrdered b.macros)
    (hbodyA : StmtAll (A []) a.body) (hbodyB : StmtAll (B []) b.body)
    (hA : ∀ m ∈ a.macros, StmtAll (A (m.params.map (·.1))) m.body)
    (hB : ∀ m ∈ b.macros, StmtAll (B (m.params.map (·.1))) m.body)
    (h : circuitEq a b = true) : MRel SemRel (meaning ρ a) (meaning ρ b) := by
  simp only [circuitEq, Bool.and_eq_true] at h
  obtain ⟨⟨⟨⟨⟨_, hmac⟩, _⟩, _⟩, hbody⟩, _⟩ := h
  obtain ⟨hlen, hall⟩ := dictEq_true hmac
  have hsub : ∀ x ∈ a.macros, ∃ y ∈ b.macros, (fun m : Macro => some m.name) y = (fun m : Macro => some m.name) x :=
    fun x hx => by
      obtain ⟨y, hy, hk, _⟩ := hall x hx
      exact ⟨y, hy, hk⟩
  have hlook := denote_look ρ hAB (nodup_names ha.macroKeys) (nodup_names hb.macroKeys) hoa hob
    (fun m hm => by
      obtain ⟨y, hy, hk, he⟩ := hall m hm
      exact ⟨y, hy, by simpa using hk, he⟩)
    (fun m' hm' => by
      obtain ⟨x, hx, hk⟩ := keys_subset_symm (fun m : Macro => some m.name) a.macros b.macros ha.macroKeys hlen hsub m' hm'
      exact ⟨x, hx, by simpa using hk⟩)
    hA hB
  unfold meaning
  refine MRel.bind (evalStmt_rel ρ (List.Forall₂.nil) (hAB [] [] [] List.Forall₂.nil) a.body b.body hbody
    hbodyA hbodyB (fun g _ => hlook g)) (fun x y hxy => ?_)
  exact norm_rel x y hxy

/-- `meaning_rel` without the hypothesis on the order of the two macro lists: callees first in each is enough. -/
theorem meaning_rel_ordered (ρ : Env) (a b : Circuit) (ha : ParserLike a) (hb : ParserLike b)
    (hoa : MacrosOrdered a.macros) (hob : MacrosOrdered b.macros) (h : circuitEq a b = true) :
    MRel SemRel (meaning ρ a) (meaning ρ b) := by
  have hregs : dictEq Val.name? valEq a.registers b.registers = true := by
    simp only [circuitEq, Bool.and_eq_true] at h
    exact h.1.1.2
  have hr : RegsAgree a.registers b.registers := regsAgree_of_dictEq hb.regKeys hregs
  exact meaning_rel_look ρ a b ha.toDictKeys hb.toDictKeys
    (A := fun P => ArgOk a.registers P) (B := fun P => ArgOk b.registers P)
    (fun P _ _ hbnd => argInv_ok ρ hbnd hr P) hoa hob ha.bodyOk hb.bodyOk ha.macrosOk hb.macrosOk h

/-- **Soundness of `==` for the circuits the parser produces**: two `ParsedLike` circuits that compare equal have the
same gate-level meaning (numbers by value) under every override environment, in whatever order their macro dictionaries
list the macros. -/
theorem meaning_rel_parsed (ρ : Env) (a b : Circuit) (ha : ParsedLike a) (hb : ParsedLike b) (h : circuitEq a b = true) :
    MRel SemRel (meaning ρ a) (meaning ρ b) := by
  have hregs : dictEq Val.name? valEq a.registers b.registers = true := by
    simp only [circuitEq, Bool.and_eq_true] at h
    exact h.1.1.2
  have hr : RegsAgree a.registers b.registers := regsAgree_of_dictEq hb.regKeys hregs
  have hk := declared_of_dictEq ha.regKeys hregs
  exact meaning_rel_look ρ a b ha.toDictKeys hb.toDictKeys
    (A := fun P => ArgRef a.registers P) (B := fun P => ArgRef b.registers P)
    (fun P _ _ hbnd => argInv_ref ρ hbnd hr hk P) ha.ordered hb.ordered ha.bodyRef hb.bodyRef ha.macrosRef hb.macrosRef h

end Jaqal.PyEq
