import JaqalProofs.Props.C16Flags
import JaqalProofs.Props.C06
import JaqalProofs.Lemmas.PassesIdem
import JaqalProofs.Lemmas.BuiltWellFormedFull
/-!
# The error class of `fill_in_map` after the other passes (`MapClass`)

`mapClass_holds : ∀ cfg em ov txt, MapClass cfg em ov txt` — `fill_in_map` on what `fill_in_let` returns, on the (optionally
macro-expanded) circuit built from a text, fails with `JaqalError` / `ImportError` only.

* the visitor (`mapVal_class`): on a value of a filled circuit (`OutT`: no constants, registers sized and sliced by ints)
  `MapFiller.visit` fails with `JaqalError` only — `resolveRegV []` has the class of `Resolve.resolveReg []`
  (`resolveRegV_spec`, `resolveReg_class`), its result is the fundamental register of the chain (`fundOf`, again sized by an int),
  so `reg[index]` can only be refused by the range check; what it returns is an embedded object (never a bare string);
* the statements (`mapStmt_class`, `mapStmt_shape`): the same for `visitStmt (mapVal mps) pure`, with the shapes `isLStmt`;
* the rebuild (`mapRebuild_total`): `build_total_let` for the children `mapSx` writes;
* `fillInMap_class`: the two together on any circuit whose values are `OutT`; `mapClass_holds` with `filled_typed`.
-/
namespace Jaqal.Passes
open Jaqal Jaqal.Builder Jaqal.Parser Jaqal.RunModel Jaqal.FillIn

/-! ### Values -/

theorem fundOf_RegL : ∀ (v reg : Val), RegL v = true → UsedQubits.fundOf v = some reg → RegL reg = true
  | .regF _ _, reg, h, hf => by simp only [UsedQubits.fundOf, Option.some.injEq] at hf; subst hf; exact h
  | .regA _ src, reg, h, hf => by
    simp only [RegL] at h
    simp only [UsedQubits.fundOf] at hf
    exact fundOf_RegL src reg h hf
  | .regS _ src a b s, reg, h, hf => by
    simp only [RegL, Bool.and_eq_true] at h
    simp only [UsedQubits.fundOf] at hf
    exact fundOf_RegL src reg h.1.1.1 hf
  | .int _, _, h, _ | .flt _, _, h, _ | .const _ _, _, h, _ | .param _ _, _, h, _ | .qubit _ _ _, _, h, _
  | .none, _, h, _ | .str _, _, h, _ => by simp [RegL] at h

/-- `Register.resolve_qubit` returning the register object has the class of the one returning its name -/
theorem resolveRegV_class {src : Val} (h : RegL src = true) (i : Int) : Cls Good (resolveRegV [] src i) := by
  intro e he
  have hs := (resolveRegV_spec (ctx := []) (v := src) i).1
  rw [he] at hs
  exact resolveReg_class src (RegL_RegT src h) i e hs.symm

theorem resolveRegV_out {src : Val} (h : RegL src = true) {i : Int} {reg : Val} {k : Int}
    (hr : resolveRegV [] src i = .ok (reg, k)) : RegL reg = true ∧ ∃ nm sz, reg = .regF nm sz :=
  ⟨fundOf_RegL _ _ h ((resolveRegV_spec (ctx := []) (v := src) i).2 reg k hr), (resolveRegV_base [] src i reg k hr).1⟩

/-- `NamedQubit.resolve_qubit()` on a qubit of a filled circuit -/
theorem resolveQubitV_class {n : String} {src idx : Val} (hs : RegL src = true ∨ isParam src = true)
    (hi : isIntL idx = true ∨ isParam idx = true) :
    Cls Good (resolveQubitV [] (.qubit n src idx)) ∧
    ∀ reg k, resolveQubitV [] (.qubit n src idx) = .ok (reg, k) → RegL reg = true ∧ ∃ nm sz, reg = .regF nm sz := by
  cases idx with
  | param p kd =>
    have : resolveQubitV [] (.qubit n src (.param p kd)) = .error (.jaqal "unbound-identifier") := by
      simp [resolveQubitV, Resolve.avFuel, Resolve.resolveAV, Resolve.Ctx.find, bind, Except.bind]
    rw [this]
    exact ⟨Cls.err (Good.jaqal _), fun _ _ h => by cases h⟩
  | int i =>
    have h1 : Resolve.resolveAV [] (Resolve.avFuel []) (.int i) = .ok (.int i) := by simp [Resolve.avFuel, Resolve.resolveAV]
    rcases hs with hs | hs
    · have hr : Resolve.isRegister src = true := by
        cases src <;> first | rfl | simp [RegL] at hs
      have h2 : Resolve.resolveAV [] (Resolve.avFuel []) src = .ok src := by
        cases src <;> simp [Resolve.isRegister] at hr <;> simp [Resolve.avFuel, Resolve.resolveAV]
      have heq : resolveQubitV [] (.qubit n src (.int i)) = resolveRegV [] src i := by
        simp only [resolveQubitV, h1, h2, hr, bind, Except.bind, Bool.not_true, Bool.false_eq_true, if_false]
      rw [heq]
      exact ⟨resolveRegV_class hs i, fun reg k h => resolveRegV_out hs h⟩
    · cases src <;> simp [isParam] at hs
      rename_i p kd
      have : resolveQubitV [] (.qubit n (.param p kd) (.int i)) = .error (.jaqal "unbound-identifier") := by
        simp [resolveQubitV, Resolve.avFuel, Resolve.resolveAV, Resolve.Ctx.find, bind, Except.bind]
      rw [this]
      exact ⟨Cls.err (Good.jaqal _), fun _ _ h => by cases h⟩
  | _ => simp [isIntL, isParam] at hi

/-- `reg[index]` on a fundamental register sized by an int -/
theorem getItem_regF_class {nm : String} {sz : Val} (h : RegL (.regF nm sz) = true) (k : Int) :
    Cls Good (FillIn.getItem (.regF nm sz) (.int k)) ∧
    ∀ v', FillIn.getItem (.regF nm sz) (.int k) = .ok v' → ∃ a b c, v' = .qubit a b c := by
  have hq : Total (qubitCheck (.regF nm sz) (.int k)) := qubitCheck_total (Or.inl (RegL_RegT _ h))
  have heq : FillIn.getItem (.regF nm sz) (.int k) =
      mkQubit s!"{nm}[{k}]" (.regF nm sz) (.int k) := by
    simp [FillIn.getItem, isRegister, Val.name?, FillIn.itemName, Builder.itemName]
  rw [heq]
  unfold mkQubit
  refine ⟨Cls.bind hq (fun _ _ => Cls.pure _), fun v' hv => ?_⟩
  obtain ⟨_, _, hv⟩ := bind_ok hv
  cases hv
  exact ⟨_, _, _, rfl⟩

/-- **`MapFiller.visit` on a value of a filled circuit** -/
theorem mapVal_class (mps : List String) : ∀ v : Val, OutT v = true →
    Cls Good (mapVal mps v) ∧ ∀ v', mapVal mps v = .ok v' → isLeaf (ofVal v') = true
  | .int _, _ => ⟨Cls.pure _, fun v' h => by simp only [mapVal, pure, Except.pure] at h; cases h; rfl⟩
  | .flt _, _ => ⟨Cls.pure _, fun v' h => by simp only [mapVal, pure, Except.pure] at h; cases h; rfl⟩
  | .param _ _, _ => ⟨Cls.pure _, fun v' h => by simp only [mapVal, pure, Except.pure] at h; cases h; rfl⟩
  | .regF _ _, _ => ⟨Cls.pure _, fun v' h => by simp only [mapVal, pure, Except.pure] at h; cases h; rfl⟩
  | .regA _ _, _ => ⟨Cls.throw (Good.jaqal _), fun v' h => by simp [mapVal, throw, throwThe, MonadExceptOf.throw] at h⟩
  | .regS _ _ _ _ _, _ => ⟨Cls.throw (Good.jaqal _), fun v' h => by simp [mapVal, throw, throwThe, MonadExceptOf.throw] at h⟩
  | .const _ _, h | .none, h | .str _, h => by simp [OutT, RegL] at h
  | .qubit n src idx, h => by
    simp only [OutT, Bool.and_eq_true, Bool.or_eq_true] at h
    obtain ⟨hcls, hout⟩ := resolveQubitV_class (n := n) h.1 h.2
    simp only [mapVal]
    constructor
    · refine Cls.bind hcls (fun p hp => ?_)
      obtain ⟨reg, k⟩ := p
      obtain ⟨hl, nm, sz, rfl⟩ := hout reg k hp
      simp only []
      split
      · exact Cls.bind (Cls.throw (Good.jaqal _)) (fun _ _ => (getItem_regF_class hl k).1)
      · exact (getItem_regF_class hl k).1
    · intro v' hv
      obtain ⟨p, hp, hv⟩ := bind_ok hv
      obtain ⟨reg, k⟩ := p
      obtain ⟨hl, nm, sz, rfl⟩ := hout reg k hp
      simp only [] at hv
      split at hv
      · obtain ⟨_, hthrow, _⟩ := bind_ok hv
        cases hthrow
      · obtain ⟨a, b, c, rfl⟩ := (getItem_regF_class hl k).2 v' hv
        rfl

theorem CntOut_leaf {v : Val} (h : CntOut v = true) : isLeaf (ofVal v) = true := by
  cases v <;> first | rfl | (simp [CntOut] at h)

theorem CntOut_OutT {v : Val} (h : CntOut v = true) : OutT v = true := by
  cases v <;> first | rfl | (simp [CntOut] at h)

/-! ### Statements -/

theorem mapArgs_class (mps : List String) : ∀ (args : List (String × Val)), (∀ a ∈ args, OutT a.2 = true) →
    Cls Good (visitArgs (mapVal mps) args) ∧ ∀ vs, visitArgs (mapVal mps) args = .ok vs → ∀ x ∈ vs, isLeaf x = true
  | [], _ => ⟨Cls.pure _, fun vs h => by simp only [visitArgs, pure, Except.pure] at h; cases h; intro x hx; cases hx⟩
  | (n, v) :: rest, ht => by
    have hv := mapVal_class mps v (ht (n, v) (List.mem_cons_self ..))
    have hr := mapArgs_class mps rest (fun a ha => ht a (List.mem_cons_of_mem _ ha))
    simp only [visitArgs]
    refine ⟨Cls.bind hv.1 (fun _ _ => Cls.bind hr.1 (fun _ _ => Cls.pure _)), fun vs h => ?_⟩
    obtain ⟨v', hv', h⟩ := bind_ok h
    obtain ⟨rest', hr', h⟩ := bind_ok h
    cases h
    intro x hx
    rcases List.mem_cons.1 hx with rfl | hx
    · exact hv.2 v' hv'
    · exact hr.2 rest' hr' x hx

mutual
  theorem mapStmt_class (mps : List String) : ∀ (s : Stmt), StmtOut s → Cls Good (visitStmt (mapVal mps) pure s)
    | .gate name gd args, h => by
      simp only [visitStmt]
      exact Cls.bind (mapArgs_class mps args h).1 (fun _ _ => Cls.pure _)
    | .block par sub it body, h => by
      simp only [StmtOut] at h
      simp only [visitStmt]
      refine Cls.bind (mapStmts_class mps body h.2) (fun ss _ => ?_)
      cases sub with
      | true => simp only [if_true]; exact Cls.bind (Cls.pure _) (fun _ _ => Cls.pure _)
      | false => simp only [Bool.false_eq_true, if_false]; exact Cls.pure _
    | .loop c b, h => by
      simp only [StmtOut] at h
      simp only [visitStmt]
      exact Cls.bind (mapVal_class mps c (CntOut_OutT h.1)).1
        (fun _ _ => Cls.bind (mapStmt_class mps b h.2) (fun _ _ => Cls.pure _))
  theorem mapStmts_class (mps : List String) : ∀ (l : List Stmt), StmtsOut l → Cls Good (visitStmts (mapVal mps) pure l)
    | [], _ => Cls.pure _
    | s :: r, h => by
      simp only [visitStmts]
      exact Cls.bind (mapStmt_class mps s h.1) (fun _ _ => Cls.bind (mapStmts_class mps r h.2) (fun _ _ => Cls.pure _))
end

mutual
  /-- the shape lemma for `MapFiller`'s statements (the analogue of `letStmt_shape`) -/
  theorem mapStmt_shape (mps : List String) : ∀ (s : Stmt) (x : BSx), StmtOut s →
      visitStmt (mapVal mps) pure s = .ok x → isLStmt x = true
    | .gate name gd args, x, ht, h => by
      simp only [visitStmt] at h
      obtain ⟨vs, hvs, h⟩ := bind_ok h
      cases h
      unfold isLStmt
      simp only [if_true, List.all_eq_true]
      exact (mapArgs_class mps args ht).2 vs hvs
    | .block par sub it body, x, ht, h => by
      simp only [StmtOut] at ht
      simp only [visitStmt] at h
      obtain ⟨ss, hss, h⟩ := bind_ok h
      have hkids := mapStmts_shape mps body ss ht.2 hss
      cases sub with
      | true =>
        simp only [if_true] at h
        obtain ⟨c, hc, h⟩ := bind_ok h
        cases hc
        cases h
        unfold isLStmt
        simp only [show ("subcircuit_block" = "gate") = False from by decide,
          show ("subcircuit_block" = "loop") = False from by decide,
          show ("subcircuit_block" = "sequential_block" ∨ "subcircuit_block" = "parallel_block") = False from by decide,
          if_false, if_true, Bool.and_eq_true]
        exact ⟨CntOut_leaf ht.1, hkids⟩
      | false =>
        simp only [Bool.false_eq_true, if_false, pure, Except.pure] at h
        cases h
        unfold isLStmt
        cases par <;>
          simp only [blockCmd, if_true, Bool.false_eq_true, if_false,
            show ("sequential_block" = "gate") = False from by decide,
            show ("sequential_block" = "loop") = False from by decide,
            show ("parallel_block" = "gate") = False from by decide,
            show ("parallel_block" = "loop") = False from by decide, true_or, or_true] <;> exact hkids
    | .loop c b, x, ht, h => by
      simp only [StmtOut] at ht
      simp only [visitStmt] at h
      obtain ⟨c', hc', h⟩ := bind_ok h
      obtain ⟨b', hb', h⟩ := bind_ok h
      cases h
      unfold isLStmt
      simp only [show ("loop" = "gate") = False from by decide, if_false, if_true, Bool.and_eq_true]
      exact ⟨(mapVal_class mps c (CntOut_OutT ht.1)).2 c' hc', mapStmt_shape mps b b' ht.2 hb'⟩
  theorem mapStmts_shape (mps : List String) : ∀ (l : List Stmt) (xs : List BSx), StmtsOut l →
      visitStmts (mapVal mps) pure l = .ok xs → isLStmts xs = true
    | [], xs, _, h => by simp only [visitStmts, pure, Except.pure] at h; cases h; rfl
    | s :: r, xs, ht, h => by
      simp only [visitStmts] at h
      obtain ⟨x, hx, h⟩ := bind_ok h
      obtain ⟨xs', hxs, h⟩ := bind_ok h
      cases h
      simp only [isLStmts, Bool.and_eq_true]
      exact ⟨mapStmt_shape mps s x ht.1 hx, mapStmts_shape mps r xs' ht.2 hxs⟩
end

/-! ### The circuit -/

/-- what `fill_in_map` needs of its circuit: the values of a filled circuit -/
structure OutC (c : Circuit) : Prop where
  body : ∃ ss, c.body = .block false false (.int 1) ss ∧ StmtsOut ss
  macros : ∀ m ∈ c.macros, StmtOut m.body
  registers : ∀ v ∈ c.registers, OutT v = true
  constants : ∀ v ∈ c.constants, isConst v = true

/-- the visitors of `fill_in_map` fail with `JaqalError` only -/
theorem mapSx_class {c : Circuit} (ho : OutC c) : Cls Good (mapSx c) := by
  obtain ⟨ss, hbody, hss⟩ := ho.body
  unfold mapSx mapStmt
  have hb : StmtOut c.body := by rw [hbody]; exact ⟨rfl, hss⟩
  refine Cls.bind (mapStmt_class [] c.body hb) (fun body hbd => ?_)
  obtain ⟨l, rfl⟩ := visitStmt_list hbd
  refine Cls.bind ?_ (fun stmts _ => Cls.bind (mapM_cls (fun m hm => ?_)) (fun _ _ => Cls.pure _))
  · cases l <;> exact Cls.pure _
  · unfold mapMacro mapStmt
    exact Cls.bind (mapStmt_class _ m.body (ho.macros m hm)) (fun _ _ => Cls.pure _)

/-- the rebuild at the end of `fill_in_map` fails with `JaqalError` / `ImportError` only -/
theorem mapRebuild_total {c : Circuit} (ho : OutC c) {sx : BSx} (hsx : mapSx c = .ok sx) :
    Cls Good (build (rebuildCfg c) sx) := by
  obtain ⟨bs, hcb, htb⟩ := ho.body
  unfold mapSx mapStmt at hsx
  obtain ⟨body, hbody, hsx⟩ := bind_ok hsx
  obtain ⟨stmts, hstmts, hsx⟩ := bind_ok hsx
  obtain ⟨macros, hmacros, hsx⟩ := bind_ok hsx
  simp only [pure, Except.pure] at hsx
  cases hsx
  have hall : isLStmts stmts = true := by
    rw [hcb] at hbody
    simp only [visitStmt] at hbody
    obtain ⟨ss, hss, hbody⟩ := bind_ok hbody
    simp only [Bool.false_eq_true, if_false, pure, Except.pure] at hbody
    cases hbody
    simp only [tailOf, pure, Except.pure] at hstmts
    cases hstmts
    exact mapStmts_shape [] bs _ htb hss
  unfold circuitSx
  intro e he
  refine build_total_let (rebuildCfg c) _ ?_ e he
  intro x hx
  simp only [List.mem_append, List.mem_map] at hx
  rcases hx with (((⟨u, _, rfl⟩ | ⟨v, hv, rfl⟩) | ⟨v, hv, rfl⟩) | hx) | hx
  · rfl
  · have := ho.constants v hv
    cases v <;> simp [isConst] at this
    rfl
  · have := ho.registers v hv
    cases v <;> first | rfl | (simp [OutT, RegL] at this)
  · obtain ⟨m, hm, hlm⟩ := mapM_ok hmacros x hx
    unfold mapMacro mapStmt at hlm
    obtain ⟨b, hb, hlm⟩ := bind_ok hlm
    cases hlm
    have hbs := mapStmt_shape _ m.body b (ho.macros m hm) hb
    unfold isLChild isLMacro macroSx
    simp [hbs, List.all_map, isStr]
  · exact isLStmt_child (isLStmts_mem hall x hx)

/-- **`fill_in_map` on a circuit with the values of a filled circuit fails with `JaqalError` / `ImportError` only** -/
theorem fillInMap_class {c : Circuit} (ho : OutC c) : Cls Good (fillInMap c) := by
  unfold fillInMap
  exact Cls.bind (mapSx_class ho) (fun sx hsx => mapRebuild_total ho hsx)

/-- what `fill_in_let` returns on a typed circuit has these values -/
theorem filled_outC {ov : List (String × Num)} {c c' : Circuit} {bs : List Stmt} (ht : TypedC c)
    (hbs : c.body = .block false false (.int 1) bs) (h : fillInLet ov c = .ok c') : OutC c' := by
  obtain ⟨hb, hm, hr⟩ := filled_typed ht hbs h
  obtain ⟨regs, _, hreb⟩ := fillInLet_rebuilt' hbs ht.constants ht.regLike h
  exact ⟨hb, hm, hr, fun v hv => ht.constants v (by rw [← hreb.constants]; exact hv)⟩

/-- **`MapClass` holds for every text, configuration, `expand_macro` flag and override list** -/
theorem mapClass_holds : ∀ (cfg : Config) (em : Bool) (ov : List (String × Num)) (txt : String), MapClass cfg em ov txt := by
  intro cfg em ov txt sx c0 c1 c2 ht hb h1 h2
  obtain ⟨_, hkeep⟩ := macros_stage em ht hb
  obtain ⟨hty1, b1, hb1⟩ := hkeep c1 h1
  exact fillInMap_class (filled_outC hty1 hb1 h2)

/-! ### Non-vacuity -/

/-- a qubit of an alias slice of a register sized by an int is a filled value; `MapFiller` rewrites it on the register -/
example : OutT (.qubit "a[1]" (.regS "a" (.regF "r" (.int 6)) (.int 1) (.int 6) (.int 2)) (.int 1)) = true := by decide
example : mapVal [] (.qubit "a[1]" (.regS "a" (.regF "r" (.int 6)) (.int 1) (.int 6) (.int 2)) (.int 1)) =
    .ok (.qubit "r[3]" (.regF "r" (.int 6)) (.int 3)) := by decide +kernel
/-- a whole alias in a statement is refused with a JaqalError -/
example : (match mapVal [] (.regA "a" (.regF "r" (.int 6))) with | .error (.jaqal _) => true | _ => false) = true := by decide
/-- the hypotheses of `MapClass` are satisfiable: a text with a let, an alias and a macro goes through all stages -/
example : (match parseTextWithFlags {} true true true [] "let n 2\nregister r[n]\nmap a r[0:2:1]\nmacro m x{g x}\nm a[1]\n" with
  | .ok _ => true | _ => false) = true := by decide +kernel

end Jaqal.Passes

#print axioms Jaqal.Passes.mapVal_class
#print axioms Jaqal.Passes.mapStmt_shape
#print axioms Jaqal.Passes.fillInMap_class
#print axioms Jaqal.Passes.mapClass_holds
