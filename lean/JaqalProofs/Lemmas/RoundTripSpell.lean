import JaqalModel.Model.Lexer
import JaqalProofs.Lemmas.LexerSpec
/-!
# C01, text layer, lexer side: texts that spell a token list

`Spells cs ts`: the character list `cs` is a sequence of blanks, newline runs and token texts that the lexer reads
back as exactly the tokens `ts` (each token text ends where the next piece begins: maximal munch does not run on).
`spells_lex` is that reading; the rest of the file shows how identifiers, keywords, the one-character literals and
newline runs are spelled.  Numbers are in `RoundTripSpellNum.lean`.
-/
set_option linter.unusedSimpArgs false
set_option linter.unusedVariables false
namespace Jaqal.RoundTrip
open Jaqal Jaqal.Lexer

inductive Spells : List Char → List Tok → Prop
  | nil : Spells [] []
  | blank {c : Char} {cs : List Char} {ts : List Tok} : isIgnore c = true → Spells cs ts → Spells (c :: cs) ts
  | tok {c : Char} {w cs : List Char} {t : Tok} {ts : List Tok} {nl : Nat} : isIgnore c = false →
      step (c :: w ++ cs) = .token t cs nl → Spells cs ts → Spells (c :: w ++ cs) (t :: ts)

theorem spells_lexAux (text : List Char) : ∀ {cs : List Char} {ts : List Tok}, Spells cs ts →
    ∀ (fuel line : Nat), cs.length < fuel →
      (lexAux text fuel cs line).1.map (·.tok) = ts ∧ (lexAux text fuel cs line).2 = none := by
  intro cs ts h
  induction h with
  | nil =>
    intro fuel line hf
    cases fuel with
    | zero => omega
    | succ f => simp [lexAux]
  | blank hc _ ih =>
    intro fuel line hf
    cases fuel with
    | zero => omega
    | succ f =>
      simp only [lexAux, hc, if_true]
      exact ih f line (by simp at hf; omega)
  | @tok c w cs' t ts' nl hc hstep _ ih =>
    intro fuel line hf
    cases fuel with
    | zero => omega
    | succ f =>
      have hlen : cs'.length < f := by
        simp only [List.cons_append, List.length_cons, List.length_append] at hf
        omega
      have hstep' : step (c :: (w ++ cs')) = .token t cs' nl := hstep
      simp only [List.cons_append, lexAux, hc, Bool.false_eq_true, if_false, hstep']
      obtain ⟨h1, h2⟩ := ih f (line + nl) hlen
      exact ⟨by simp [h1], h2⟩

theorem spells_lex {s : String} {ts : List Tok} (h : Spells s.toList ts) :
    ∃ pts, lex s = .ok pts ∧ pts.map (·.tok) = ts := by
  obtain ⟨h1, h2⟩ := spells_lexAux s.toList h (s.toList.length + 1) 1 (Nat.lt_succ_self _)
  refine ⟨(lexAux s.toList (s.toList.length + 1) s.toList 1).1, ?_, h1⟩
  unfold lex lexAll
  simp only
  generalize hr : lexAux s.toList (s.toList.length + 1) s.toList 1 = r at h1 h2
  obtain ⟨a, b⟩ := r
  simp only at h2
  subst h2
  rfl

/-! ## identifiers and keywords -/

/-- what may follow an identifier: nothing, or a character that neither continues it nor is a dot -/
def StopId (cs : List Char) : Prop := ∀ c, cs.head? = some c → isAlnum_ c = false ∧ c ≠ '.'

theorem StopId.of_head {c : Char} {r : List Char} (h1 : isAlnum_ c = false) (h2 : c ≠ '.') : StopId (c :: r) := by
  intro d hd; simp at hd; subst hd; exact ⟨h1, h2⟩

theorem StopId.nil : StopId [] := by intro c h; simp at h

/-- `a` is consumed entirely by the tail rule `(\.?[a-zA-Z0-9_])*` -/
def TailOK (a : List Char) : Prop := identTail a = (a, [])

theorem identTail_append {a : List Char} (ha : TailOK a) {cs : List Char} (hs : StopId cs) :
    identTail (a ++ cs) = (a, cs) := by
  unfold TailOK at ha
  fun_induction identTail a
  · cases cs with
    | nil => rfl
    | cons c r =>
      obtain ⟨h1, h2⟩ := hs c rfl
      unfold identTail
      simp [h1, h2]
  · rename_i c cs' hc r ih
    have hr : r = (cs', []) := by
      simp only [Prod.mk.injEq, List.cons.injEq, true_and] at ha
      exact Prod.ext ha.1 ha.2
    have := ih hr
    simp only [List.cons_append]
    unfold identTail
    simp only [hc, if_true, this]
  · rename_i d ds hd r hdot ih
    have hr : r = (ds, []) := by
      simp only [Prod.mk.injEq, List.cons.injEq, true_and] at ha
      exact Prod.ext ha.1 ha.2
    have := ih hr
    simp only [List.cons_append]
    unfold identTail
    simp [hdot, hd, this]
  · simp at ha
  · simp at ha
  · simp at ha

/-- the shape of an identifier: a letter or `_`, then a tail -/
def IdentShape (w : List Char) : Prop := ∃ c a, w = c :: a ∧ isAlpha_ c = true ∧ TailOK a

theorem mIdent_append {w : List Char} (hw : IdentShape w) {cs : List Char} (hs : StopId cs) :
    mIdent (w ++ cs) = some (w, cs) := by
  obtain ⟨c, a, rfl, hc, ha⟩ := hw
  simp only [List.cons_append, mIdent, hc, if_true, identTail_append ha hs]

theorem alpha_not_ignore {c : Char} (h : isAlpha_ c = true) : isIgnore c = false := by
  cases hi : isIgnore c
  · rfl
  · simp only [isIgnore, Bool.or_eq_true, decide_eq_true_eq] at hi
    rcases hi with rfl | rfl <;> revert h <;> decide

theorem alpha_not_nl {c : Char} (h : isAlpha_ c = true) : c ≠ '\n' := by
  rintro rfl; revert h; decide

theorem step_ident {w : List Char} (hw : IdentShape w) {cs : List Char} (hs : StopId cs) :
    step (w ++ cs) = .token (identTok w) cs 0 := by
  have hm := mIdent_append hw hs
  obtain ⟨c, a, rfl, hc, _⟩ := hw
  have hnl : mNL (c :: a ++ cs) = none := by
    simp [mNL, spanP, alpha_not_nl hc]
  simp only [step, hnl, hm]

/-- an identifier-shaped word followed by a stop spells the token `identTok w` (a keyword token or an IDENTIFIER) -/
theorem Spells.word {w : List Char} (hw : IdentShape w) {cs : List Char} {ts : List Tok} (hs : StopId cs)
    (h : Spells cs ts) : Spells (w ++ cs) (identTok w :: ts) := by
  have hst := step_ident hw hs
  obtain ⟨c, a, rfl, hc, _⟩ := hw
  exact Spells.tok (alpha_not_ignore hc) hst h

/-! ## one-character literals -/

/-- the punctuation the generator writes -/
def isPunct (c : Char) : Bool := c = '[' || c = ']' || c = '{' || c = '}' || c = '<' || c = '>' || c = ':' || c = '*'

theorem step_punct {c : Char} (hc : isPunct c = true) (cs : List Char) :
    ∃ t, literal? c = some t ∧ step (c :: cs) = .token t cs 0 := by
  simp only [isPunct, Bool.or_eq_true, decide_eq_true_eq] at hc
  rcases hc with ((((((rfl | rfl) | rfl) | rfl) | rfl) | rfl) | rfl) | rfl <;>
    refine ⟨_, rfl, ?_⟩ <;> cases cs <;>
    simp [step, mNL, spanP, mIdent, isAlpha_, mDotIdent, mNumber, optSign, isSign, isDigit, mInt, mBinInt, mComment,
      mBlockComment, literal?]

theorem Spells.punct {c : Char} {t : Tok} (hc : isPunct c = true) (ht : literal? c = some t) {cs : List Char}
    {ts : List Tok} (h : Spells cs ts) : Spells (c :: cs) (t :: ts) := by
  obtain ⟨t', ht', hst⟩ := step_punct hc cs
  rw [ht] at ht'
  cases ht'
  have hi : isIgnore c = false := by
    simp only [isPunct, Bool.or_eq_true, decide_eq_true_eq] at hc
    rcases hc with ((((((rfl | rfl) | rfl) | rfl) | rfl) | rfl) | rfl) | rfl <;> decide
  exact Spells.tok (w := []) hi hst h

/-! ## newline runs -/

theorem spanP_nl_replicate (k : Nat) {cs : List Char} (h : cs.head? ≠ some '\n') :
    spanP (· = '\n') (List.replicate k '\n' ++ cs) = (List.replicate k '\n', cs) := by
  induction k with
  | zero =>
    cases cs with
    | nil => rfl
    | cons c r =>
      have : c ≠ '\n' := by intro hc; apply h; simp [hc]
      simp [spanP, this]
  | succ k ih => simp [List.replicate_succ, spanP, ih]

theorem Spells.newlines (k : Nat) {cs : List Char} {ts : List Tok} (hcs : cs.head? ≠ some '\n')
    (h : Spells cs ts) : Spells (List.replicate (k + 1) '\n' ++ cs) (Tok.NL :: ts) := by
  have hsp := spanP_nl_replicate (k + 1) hcs
  have hst : step ('\n' :: (List.replicate k '\n' ++ cs)) = .token .NL cs (k + 1) := by
    have : '\n' :: (List.replicate k '\n' ++ cs) = List.replicate (k + 1) '\n' ++ cs := by
      simp [List.replicate_succ]
    rw [this]
    simp only [step, mNL, hsp]
    simp [List.replicate_succ]
  have := Spells.tok (c := '\n') (w := List.replicate k '\n') (by decide) hst h
  simpa [List.replicate_succ] using this

theorem Spells.space {cs : List Char} {ts : List Tok} (h : Spells cs ts) : Spells (' ' :: cs) ts :=
  Spells.blank (by decide) h

theorem Spells.tabs (n : Nat) {cs : List Char} {ts : List Tok} (h : Spells cs ts) :
    Spells (List.replicate n '\t' ++ cs) ts := by
  induction n with
  | zero => simpa using h
  | succ n ih => simpa [List.replicate_succ] using Spells.blank (c := '\t') (by decide) ih

end Jaqal.RoundTrip
