import JaqalProofs.Lemmas.BuiltWellFormed
import JaqalProofs.Lemmas.FillInTyped
import JaqalProofs.Props.C09
/-!
# The values of a circuit built from parser output are typed

`built_typed : ParserSx e → build cfg e = .ok c → TypedC c` — every gate argument, loop count, subcircuit count and register
of a circuit `Builder.build` makes of a parser-shaped S-expression is a number, a numeric let constant, a parameter, a register
sized and sliced by ints or integer constants (`RegT`), or a qubit of such a register / of a parameter with an int,
integer-constant or parameter index (`FillIn.InT`, `FillIn.TypedC`: `Props/C05Class.lean`).  Any configuration, any memo mode but
`noReset`.

The induction follows `buildAny_total` (`Lemmas/BuilderTotal.lean`, shapes `isPStmt`) in the success direction, with the
context typing `CtxT` / `TopT` of that file for identifiers, and the circuit-level loop of `built_gateShape`
(`Lemmas/BuiltWellFormed.lean`).
-/
namespace Jaqal.Builder
open Jaqal Jaqal.FillIn

/-! ### Leaves -/

theorem ValT_InT {v : Val} (h : ValT v = true) : InT v = true := by
  cases v with
  | const n x => cases x <;> simp [ValT, RegT] at h <;> rfl
  | param n k => rfl
  | qubit n s i =>
    simp only [ValT, Bool.and_eq_true] at h
    simp [InT, h.1, h.2]
  | int _ => rfl
  | flt _ => rfl
  | none => simp [ValT, RegT] at h
  | str _ => simp [ValT, RegT] at h
  | regF n s => simpa [InT, ValT] using h
  | regA n s => simpa [InT, ValT] using h
  | regS n s a b c => simpa [InT, ValT] using h

theorem IdxOK_InT {ctx : Ctx} (hc : CtxT ctx) {v : Val} (h : IdxOK ctx v) : InT v = true := by
  rcases h with ⟨i, rfl⟩ | ⟨n, hn⟩
  · rfl
  · exact ValT_InT (hc n v hn)

theorem buildVal_intOrId_typed {ctx : Ctx} (hc : CtxT ctx) {f : Nat} {e : BSx} (he : isIntOrId e = true) {v : Val}
    (h : buildVal ctx f e = .ok v) : InT v = true :=
  IdxOK_InT hc ((buildVal_intOrId (ctx := ctx) (f := f) he).2 v h)

/-- a gate argument of the grammar builds to a typed value -/
theorem buildVal_gateArg_typed {ctx : Ctx} (hc : CtxT ctx) {f : Nat} {a : BSx} (ha : isGateArg a = true) {v : Val}
    (h : buildVal ctx f a = .ok v) : InT v = true := by
  cases a with
  | str s =>
    have : buildVal ctx f (.str s) = lookupId ctx s := by cases f <;> rfl
    rw [this] at h
    unfold lookupId at h
    cases hg : ctx.get s with
    | none => simp [hg, throw_eq] at h
    | some w => simp only [hg, pure, Except.pure] at h; cases h; exact ValT_InT (hc s _ hg)
  | int i => have : buildVal ctx f (.int i) = .ok (.int i) := by cases f <;> rfl
             rw [this] at h; cases h; rfl
  | flt d => have : buildVal ctx f (.flt d) = .ok (.flt d) := by cases f <;> rfl
             rw [this] at h; cases h; rfl
  | none => simp [isGateArg] at ha
  | val _ => simp [isGateArg] at ha
  | list l =>
    cases f with
    | zero => simp [buildVal, throw_eq] at h
    | succ f =>
      have h' : valStep ctx.get (buildVal ctx f) l = .ok v := h
      unfold isGateArg at ha
      split at ha
      · rename_i heq; cases heq
      · rename_i heq; cases heq
      · rename_i heq; cases heq
      · rename_i an idxE heq
        cases heq
        simp only [valStep, show ("array_item" = "register") = False from by decide,
          show ("array_item" = "let") = False from by decide, if_false, if_true] at h'
        have hA : buildVal ctx f (.str an) = lookupId ctx an := by cases f <;> rfl
        rw [hA] at h'
        unfold lookupId at h'
        cases hg : ctx.get an with
        | none => simp [hg, throw_eq, bind, Except.bind] at h'
        | some arr =>
          simp only [hg, pure_bind] at h'
          obtain ⟨iv, hiv, h'⟩ := bind_ok h'
          have hidx := (buildVal_intOrId (ctx := ctx) (f := f) ha).2 iv hiv
          rw [asIntegerV_idx hc hidx] at h'
          by_cases hr : (!(isRegister arr || isParam arr)) = true
          · simp [hr, throw_eq, bind, Except.bind] at h'
          · simp only [hr, Bool.false_eq_true, if_false] at h'
            have hr' : isRegister arr = true ∨ isParam arr = true := by
              cases h1 : isRegister arr <;> cases h2 : isParam arr <;> simp [h1, h2] at hr ⊢
            have harr := hc an arr hg
            -- `getItem arr iv` is `mkQubit _ arr iv`
            have hq : ∃ nm, v = .qubit nm arr iv ∧ qubitCheck arr iv = .ok () := by
              unfold getItem at h'
              split at h'
              · simp [throw_eq] at h'
              · split at h'
                · unfold mkQubit at h'
                  obtain ⟨u, hu, h'⟩ := bind_ok h'
                  cases h'; cases u; exact ⟨_, rfl, hu⟩
                · obtain ⟨_, _, h'⟩ := bind_ok h'
                  simp [throw_eq] at h'
            obtain ⟨nm, rfl, hqc⟩ := hq
            have hsrc : (RegT arr || isParam arr) = true := by
              rcases hr' with h1 | h1
              · simp [ValT_reg harr h1]
              · simp [h1]
            have hi : (isIntC iv || isParam iv) = true := by
              rcases hidx with ⟨i, rfl⟩ | ⟨n, hn⟩
              · rfl
              · have hvt := hc n iv hn
                by_cases hp : isParam iv = true
                · simp [hp]
                · have hp' : isParam iv = false := by simpa using hp
                  simp [qubitCheck_ok_intC hqc (Or.inr ⟨hvt, hp'⟩)]
            simp only [InT, hsrc, hi, Bool.and_self]
      · cases ha

/-! ### Typed statements -/

/-- a typed value that `_validate_count` accepts is an int, an integer constant or a parameter -/
theorem validateCount_cnt {v : Val} {u : Unit} (ht : InT v = true) (h : validateCount v = .ok u) : CntIn v = true := by
  unfold validateCount at h
  split at h
  · rfl
  · split at h
    · rename_i hav
      simp only [Bool.and_eq_true] at hav
      cases v with
      | const n x =>
        cases x <;> simp [InT, RegT] at ht
        · rfl
        · simp [isAV, avKind, GateDef.constKind, kindIntOrNone] at hav
      | param n k => rfl
      | _ => simp [isAV] at hav
    · cases h

def MemoTy (m : Memo) : Prop := ∀ k s, (k, s) ∈ m → StmtIn s

/-- on success: the memo stays typed and the object is a typed statement -/
def TyPost (r : M (Obj × St)) : Prop := ∀ o s1, r = .ok (o, s1) → MemoTy s1.memo ∧ ∃ s, o = .stmt s ∧ StmtIn s

theorem callDef_typed {gd : GateDef} {vals : List Val} {s : Stmt} (h : callDef gd vals = .ok s)
    (hv : ∀ v ∈ vals, InT v = true) : StmtIn s := by
  obtain ⟨args, rfl, hvals, _, _⟩ := callDef_full h
  intro a ha
  exact hv a.2 (by rw [← hvals]; exact List.mem_map_of_mem ha)

theorem buildGate_typed {cfg : Config} {mode : KeyMode} {ctx : Ctx} (hc : CtxT ctx) {f : Nat} {name : String}
    {gargs : List BSx} (hg : ∀ a ∈ gargs, isGateArg a = true) {st st1 : St} {s : Stmt} (hi : MemoTy st.memo)
    (h : buildGate cfg mode ctx (buildVal ctx f) (.str name :: gargs) st = .ok (s, st1)) :
    MemoTy st1.memo ∧ StmtIn s := by
  simp only [buildGate] at h
  obtain ⟨_, _, h⟩ := bind_ok h
  unfold buildGateMemo at h
  have hfresh : ∀ (s' : Stmt) (g' : GCtx), buildGateFresh cfg (buildVal ctx f) name gargs st.gctx = .ok (s', g') →
      StmtIn s' := by
    intro s' g' hb
    obtain ⟨e, _, _, hcall⟩ := buildGateFresh_ok hb
    obtain ⟨vals, hm, hcd⟩ := bind_ok hcall
    refine callDef_typed hcd (fun v hv => ?_)
    obtain ⟨x, hx, hxv⟩ := mapM_ok hm v hv
    exact buildVal_gateArg_typed hc (hg x hx) hxv
  by_cases hoff : mode = .off
  · simp only [hoff, if_true] at h
    obtain ⟨p, hb, h1⟩ := bind_ok h
    obtain ⟨s', g'⟩ := p
    cases h1
    exact ⟨hi, hfresh s' g' hb⟩
  · simp only [hoff, if_false] at h
    cases hfind : Memo.find mode.numByValue st.memo (mkKey mode ctx name gargs) with
    | some g =>
      simp only [hfind, pure, Except.pure] at h
      cases h
      obtain ⟨k, hk, _⟩ := Memo.find_some hfind
      exact ⟨hi, hi k _ hk⟩
    | none =>
      simp only [hfind] at h
      obtain ⟨p, hb, h1⟩ := bind_ok h
      obtain ⟨s', g'⟩ := p
      cases h1
      have hs := hfresh s' g' hb
      refine ⟨?_, hs⟩
      intro k s0 hk
      rcases List.mem_cons.1 hk with heq | hk
      · cases heq; exact hs
      · exact hi k s0 hk

theorem asStmts_typed : ∀ {os : List Obj} {ss : List Stmt}, asStmts os = .ok ss →
    (∀ o ∈ os, ∃ s, o = .stmt s ∧ StmtIn s) → StmtsIn ss := by
  intro os
  induction os with
  | nil => intro ss h _; simp [asStmts, pure, Except.pure] at h; subst h; trivial
  | cons o os ih =>
    intro ss h ho
    cases o with
    | stmt s0 =>
      simp only [asStmts] at h
      obtain ⟨r, hr, h1⟩ := bind_ok h
      cases h1
      obtain ⟨s, hs, hin⟩ := ho (.stmt s0) (by simp)
      cases hs
      exact ⟨hin, ih hr (fun o' ho' => ho o' (by simp [ho']))⟩
    | _ => simp [asStmts, throw_eq] at h

theorem mapMSt_typed {fA : BSx → St → M (Obj × St)} : ∀ (l : List BSx) (st st1 : St) (os : List Obj),
    (∀ x ∈ l, ∀ s, MemoTy s.memo → TyPost (fA x s)) →
    MemoTy st.memo → mapMSt fA l st = .ok (os, st1) → MemoTy st1.memo ∧ ∀ o ∈ os, ∃ s, o = .stmt s ∧ StmtIn s := by
  intro l
  induction l with
  | nil =>
    intro st st1 os _ hi h
    simp only [mapMSt, pure, Except.pure] at h
    cases h
    exact ⟨hi, fun o ho => (by cases ho)⟩
  | cons x xs ih =>
    intro st st1 os hf hi h
    simp only [mapMSt] at h
    obtain ⟨p, hp, h1⟩ := bind_ok h
    obtain ⟨o, s1⟩ := p
    obtain ⟨q, hq, h2⟩ := bind_ok h1
    obtain ⟨os', s2⟩ := q
    cases h2
    have hp1 := hf x (by simp) st hi o s1 hp
    obtain ⟨hi2, hos⟩ := ih s1 _ os' (fun y hy => hf y (by simp [hy])) hp1.1 hq
    refine ⟨hi2, ?_⟩
    intro o' ho'
    rcases List.mem_cons.1 ho' with rfl | ho'
    · exact hp1.2
    · exact hos o' ho'

/-- the four block forms: the members are typed statements, so is the block (its count typed) -/
theorem block_typed {fA : BSx → St → M (Obj × St)} {l : List BSx} {st : St} {par sub : Bool} {it : Val}
    (hit : CntIn it = true) (h : ∀ x ∈ l, ∀ s, MemoTy s.memo → TyPost (fA x s)) (hi : MemoTy st.memo) :
    TyPost (mapMSt fA l st >>= fun p => do
      let ss ← asStmts p.1
      pure (Obj.stmt (Stmt.block par sub it ss), p.2)) := by
  intro o s1 hr
  obtain ⟨p, hp, h2⟩ := bind_ok hr
  obtain ⟨os, s2⟩ := p
  obtain ⟨ss, hss, h3⟩ := bind_ok h2
  simp only [pure, Except.pure, Except.ok.injEq, Prod.mk.injEq] at h3
  obtain ⟨rfl, rfl⟩ := h3
  obtain ⟨hm, hos⟩ := mapMSt_typed l st s2 os h hi hp
  exact ⟨hm, _, rfl, hit, asStmts_typed hss hos⟩

theorem ctxT_flags {ctx : Ctx} (hc : CtxT ctx) (a b c : Bool) :
    CtxT { ctx with inSeq := a, inPar := b, inSub := c } := fun n v hv => hc n v hv

/-- **statements**: a parser-shaped statement builds to a typed statement -/
theorem buildAny_typed (cfg : Config) (mode : KeyMode) : ∀ (f : Nat) (ctx : Ctx) (e : BSx) (st : St), CtxT ctx →
    isPStmt e = true → MemoTy st.memo → TyPost (buildAny cfg mode f ctx e st) := by
  intro f
  induction f with
  | zero =>
    intro ctx e st _ h _
    cases e with
    | list l => intro o s1 hr; simp [buildAny, throw_eq] at hr
    | _ => simp [isPStmt] at h
  | succ f ih =>
    intro ctx e st hc h hi
    cases e with
    | list l =>
      show TyPost (anyStep cfg mode (buildAny cfg mode f) (buildVal ctx f) ctx l st)
      unfold isPStmt at h
      split at h
      · rename_i cmd args heq
        cases heq
        by_cases h1 : cmd = "gate"
        · subst h1
          simp only [if_true] at h
          split at h
          · rename_i name gargs
            have hg : ∀ a ∈ gargs, isGateArg a = true := by simpa [List.all_eq_true] using h
            simp only [anyStep, if_true]
            intro o s1 hr
            obtain ⟨p, hp, h2⟩ := bind_ok hr
            obtain ⟨s, st'⟩ := p
            simp only [pure, Except.pure, Except.ok.injEq, Prod.mk.injEq] at h2
            obtain ⟨rfl, rfl⟩ := h2
            obtain ⟨hm, hs⟩ := buildGate_typed hc hg hi hp
            exact ⟨hm, _, rfl, hs⟩
          · cases h
        simp only [h1, if_false] at h
        by_cases h2 : cmd = "loop"
        · subst h2
          simp only [if_true] at h
          split at h
          · rename_i count block
            simp only [Bool.and_eq_true] at h
            simp only [anyStep, show ("loop" = "gate") = False from by decide,
              show ("loop" = "sequential_block" ∨ "loop" = "block") = False from by decide,
              show ("loop" = "parallel_block") = False from by decide,
              show ("loop" = "unscheduled_block") = False from by decide,
              show ("loop" = "subcircuit_block") = False from by decide, if_false, if_true]
            intro o s1 hr
            obtain ⟨cnt, hcnt, h3⟩ := bind_ok hr
            obtain ⟨p, hp, h4⟩ := bind_ok h3
            obtain ⟨o', s2⟩ := p
            obtain ⟨hm, s, rfl, hs⟩ := ih ctx block st hc h.2 hi o' s2 hp
            obtain ⟨_, hvc, h5⟩ := bind_ok h4
            simp only [pure, Except.pure, Except.ok.injEq, Prod.mk.injEq] at h5
            obtain ⟨rfl, rfl⟩ := h5
            exact ⟨hm, _, rfl, validateCount_cnt (buildVal_intOrId_typed hc h.1 hcnt) hvc, hs⟩
          · cases h
        simp only [h2, if_false] at h
        by_cases h3 : cmd = "sequential_block" ∨ cmd = "parallel_block"
        · simp only [h3, if_true] at h
          have hmem : ∀ x ∈ args, ∀ (c : Ctx), CtxT c → ∀ s, MemoTy s.memo → TyPost (buildAny cfg mode f c x s) :=
            fun x hx c hcc s hs => ih c x s hcc (isPStmts_mem h x hx) hs
          rcases h3 with h3 | h3
          · subst h3
            simp only [anyStep, show ("sequential_block" = "gate") = False from by decide, if_false,
              if_true, true_or]
            exact block_typed rfl (fun x hx s hs => hmem x hx _ (ctxT_flags hc true ctx.inPar ctx.inSub) s hs) hi
          · subst h3
            simp only [anyStep, show ("parallel_block" = "gate") = False from by decide, if_false,
              show ("parallel_block" = "sequential_block" ∨ "parallel_block" = "block") = False from by decide,
              if_true]
            exact block_typed rfl (fun x hx s hs => hmem x hx _ (ctxT_flags hc ctx.inSeq true ctx.inSub) s hs) hi
        simp only [h3, if_false] at h
        by_cases h4 : cmd = "subcircuit_block"
        · subst h4
          simp only [if_true] at h
          split at h
          · rename_i count stmts
            simp only [Bool.and_eq_true] at h
            have hkids : ∀ x ∈ stmts, ∀ s, MemoTy s.memo →
                TyPost (buildAny cfg mode f { ctx with inSub := true } x s) :=
              fun x hx s hs => ih _ x s (ctxT_flags hc ctx.inSeq ctx.inPar true) (isPStmts_mem h.2 x hx) hs
            simp only [anyStep, show ("subcircuit_block" = "gate") = False from by decide, if_false,
              show ("subcircuit_block" = "sequential_block" ∨ "subcircuit_block" = "block") = False from by decide,
              show ("subcircuit_block" = "parallel_block") = False from by decide,
              show ("subcircuit_block" = "unscheduled_block") = False from by decide, if_true, List.tail_cons]
            by_cases hflag : (ctx.inSub || ctx.inPar) = true
            · simp only [hflag, if_true]
              intro o s1 hr; cases hr
            · simp only [hflag, Bool.false_eq_true, if_false]
              intro o s1 hr
              obtain ⟨p, hp, h5⟩ := bind_ok hr
              obtain ⟨os, s2⟩ := p
              obtain ⟨cnt, hcnt, h6⟩ := bind_ok h5
              obtain ⟨_, hvc, h7⟩ := bind_ok h6
              obtain ⟨ss, hss, h8⟩ := bind_ok h7
              simp only [pure, Except.pure, Except.ok.injEq, Prod.mk.injEq] at h8
              obtain ⟨rfl, rfl⟩ := h8
              obtain ⟨hm, hos⟩ := mapMSt_typed stmts st s2 os hkids hi hp
              have hct : InT cnt = true := by
                unfold subCount at hcnt
                split at hcnt
                · cases hcnt; rfl
                · cases hcnt; rfl
                · exact buildVal_intOrId_typed hc h.1 hcnt
              exact ⟨hm, _, rfl, validateCount_cnt hct hvc, asStmts_typed hss hos⟩
          · cases h
        simp only [h4, if_false] at h
        by_cases h5 : cmd = "branch"
        · subst h5
          simp only [anyStep, show ("branch" = "gate") = False from by decide, if_false,
            show ("branch" = "sequential_block" ∨ "branch" = "block") = False from by decide,
            show ("branch" = "parallel_block") = False from by decide,
            show ("branch" = "unscheduled_block") = False from by decide,
            show ("branch" = "subcircuit_block") = False from by decide,
            show ("branch" = "loop") = False from by decide,
            show ("branch" = "case") = False from by decide, if_true]
          intro o s1 hr
          obtain ⟨p, _, h6⟩ := bind_ok hr
          cases h6
        · simp [h5] at h
      · cases h
    | _ => simp [isPStmt] at h

/-! ### `rebuild_macro_in_context` -/

mutual
theorem rebuildStmt_typed (g : GCtx) : ∀ (s : Stmt) (ch : Bool) (s' : Stmt),
    rebuildStmt g s = .ok (ch, s') → StmtIn s → StmtIn s'
  | .gate name gd args, ch, s', h, hs => by
    simp only [rebuildStmt] at h
    split at h
    · split at h
      · split at h
        · cases h; exact hs
        · simp [throw_eq] at h
      · obtain ⟨s2, hcall, h2⟩ := bind_ok h
        cases h2
        refine callDef_typed hcall (fun v hv => ?_)
        obtain ⟨a, ha, rfl⟩ := List.mem_map.1 hv
        exact hs a ha
    · cases h; exact hs
  | .block par sub it body, ch, s', h, hs => by
    simp only [rebuildStmt] at h
    obtain ⟨p, hp, h2⟩ := bind_ok h
    obtain ⟨c, body'⟩ := p
    simp only [StmtIn] at hs
    have := rebuildList_typed g body c body' hp hs.2
    split at h2
    · cases h2; exact ⟨rfl, this⟩
    · cases h2; exact hs
  | .loop c b, ch, s', h, hs => by
    simp only [rebuildStmt] at h
    obtain ⟨p, hp, h2⟩ := bind_ok h
    obtain ⟨c1, b'⟩ := p
    simp only [StmtIn] at hs
    have := rebuildStmt_typed g b c1 b' hp hs.2
    split at h2
    · cases h2; exact ⟨hs.1, this⟩
    · cases h2; exact hs
theorem rebuildList_typed (g : GCtx) : ∀ (l : List Stmt) (ch : Bool) (l' : List Stmt),
    rebuildList g l = .ok (ch, l') → StmtsIn l → StmtsIn l'
  | [], ch, l', h, _ => by simp only [rebuildList, pure, Except.pure] at h; cases h; trivial
  | s :: ss, ch, l', h, hs => by
    simp only [rebuildList] at h
    obtain ⟨p, hp, h2⟩ := bind_ok h
    obtain ⟨c1, s'⟩ := p
    obtain ⟨q, hq, h3⟩ := bind_ok h2
    obtain ⟨c2, ss'⟩ := q
    cases h3
    exact ⟨rebuildStmt_typed g s c1 _ hp hs.1, rebuildList_typed g ss c2 ss' hq hs.2⟩
end

theorem rebuildMacro_typed {g : GCtx} {m m' : Macro} (h : rebuildMacro g m = .ok m') (hm : StmtIn m.body) :
    StmtIn m'.body := by
  unfold rebuildMacro at h
  obtain ⟨p, hp, h2⟩ := bind_ok h
  obtain ⟨ch, b⟩ := p
  have := rebuildStmt_typed g m.body ch b hp hm
  simp only [pure, Except.pure] at h2
  cases h2
  split
  · exact this
  · exact hm

/-! ### The loop of `build_circuit` -/

/-- what a top-level child of parser output is built to, with its typing -/
def ChildTy (st : St) (o : Obj) (s1 : St) : Prop :=
  (∃ v, o = .val v ∧ ValT v = true ∧ isParam v = false ∧ s1 = st) ∨ (∃ n, o = .usepulses n ∧ s1 = st) ∨
  (MemoTy s1.memo ∧ ∃ s, o = .stmt s ∧ StmtIn s) ∨ (MemoTy s1.memo ∧ ∃ m, o = .macro m ∧ StmtIn m.body)

theorem buildAny_child_typed {cfg : Config} {mode : KeyMode} {f : Nat} {ctx : Ctx} {c : BSx} {st s1 : St} {o : Obj}
    (ht : TopT ctx) (hshape : isPHeader c = true ∨ isPBody c = true) (hd : c.depth ≤ f) (hi : MemoTy st.memo)
    (h : buildAny cfg mode f ctx c st = .ok (o, s1)) : ChildTy st o s1 := by
  rcases hshape with hh | hb
  · -- header: `buildAny_header_total` has the typing of the value
    rcases (buildAny_header_total (cfg := cfg) (mode := mode) (st := st) ht hh hd).2 o s1 h with
      ⟨v, hv, h1, h2, h3⟩ | ⟨n, hn⟩ | ⟨s, hs⟩ | ⟨m, hm⟩
    · exact Or.inl ⟨v, hv, h1, h2, h3⟩
    · -- a usepulses statement does not touch the state
      refine Or.inr (Or.inl ⟨n, hn, ?_⟩)
      unfold isPHeader at hh
      by_cases hv : isPHeaderV c = true
      · -- a value statement yields a value
        exfalso
        cases c with
        | list l =>
          cases f with
          | zero => simp [BSx.depth] at hd
          | succ f =>
            have hfall : anyStep cfg mode (buildAny cfg mode f) (buildVal ctx f) ctx l st =
                (valStep ctx.get (buildVal ctx f) l >>= fun v => pure (Obj.val v, st)) := by
              unfold isPHeaderV at hv
              split at hv <;> first
                | (rename_i heq; cases heq; simp [anyStep])
                | cases hv
            have h' : anyStep cfg mode (buildAny cfg mode f) (buildVal ctx f) ctx l st = .ok (o, s1) := h
            rw [hfall] at h'
            obtain ⟨v, _, h2⟩ := bind_ok h'
            cases h2
            cases hn
        | _ => simp [isPHeaderV] at hv
      · simp only [hv, Bool.false_or] at hh
        split at hh
        · rename_i n'
          cases f with
          | zero => simp [BSx.depth] at hd
          | succ f =>
            have : buildAny cfg mode (f+1) ctx (.list [.str "usepulses", .str n', .str "*"]) st
                = .ok (.usepulses n', st) := by
              show anyStep cfg mode (buildAny cfg mode f) (buildVal ctx f) ctx [.str "usepulses", .str n', .str "*"] st = _
              simp [anyStep, isStar, pure, Except.pure]
            rw [this] at h
            cases h; rfl
        · cases hh
    · -- a header statement is never built to a statement or a macro
      exfalso
      have := isPHeader_noVals hh
      unfold isPHeader at hh
      by_cases hv : isPHeaderV c = true
      · cases c with
        | list l =>
          cases f with
          | zero => simp [BSx.depth] at hd
          | succ f =>
            have hfall : anyStep cfg mode (buildAny cfg mode f) (buildVal ctx f) ctx l st =
                (valStep ctx.get (buildVal ctx f) l >>= fun v => pure (Obj.val v, st)) := by
              unfold isPHeaderV at hv
              split at hv <;> first
                | (rename_i heq; cases heq; simp [anyStep])
                | cases hv
            have h' : anyStep cfg mode (buildAny cfg mode f) (buildVal ctx f) ctx l st = .ok (o, s1) := h
            rw [hfall] at h'
            obtain ⟨v, _, h2⟩ := bind_ok h'
            cases h2
            obtain ⟨s, hs⟩ := hs
        | _ => simp [isPHeaderV] at hv
      · simp only [hv, Bool.false_or] at hh
        split at hh
        · rename_i n'
          cases f with
          | zero => simp [BSx.depth] at hd
          | succ f =>
            have : buildAny cfg mode (f+1) ctx (.list [.str "usepulses", .str n', .str "*"]) st
                = .ok (.usepulses n', st) := by
              show anyStep cfg mode (buildAny cfg mode f) (buildVal ctx f) ctx [.str "usepulses", .str n', .str "*"] st = _
              simp [anyStep, isStar, pure, Except.pure]
            rw [this] at h
            cases h
            obtain ⟨s, hs⟩ := hs
        · cases hh
    · exfalso
      unfold isPHeader at hh
      by_cases hv : isPHeaderV c = true
      · cases c with
        | list l =>
          cases f with
          | zero => simp [BSx.depth] at hd
          | succ f =>
            have hfall : anyStep cfg mode (buildAny cfg mode f) (buildVal ctx f) ctx l st =
                (valStep ctx.get (buildVal ctx f) l >>= fun v => pure (Obj.val v, st)) := by
              unfold isPHeaderV at hv
              split at hv <;> first
                | (rename_i heq; cases heq; simp [anyStep])
                | cases hv
            have h' : anyStep cfg mode (buildAny cfg mode f) (buildVal ctx f) ctx l st = .ok (o, s1) := h
            rw [hfall] at h'
            obtain ⟨v, _, h2⟩ := bind_ok h'
            cases h2
            obtain ⟨m, hm⟩ := hm
        | _ => simp [isPHeaderV] at hv
      · simp only [hv, Bool.false_or] at hh
        split at hh
        · rename_i n'
          cases f with
          | zero => simp [BSx.depth] at hd
          | succ f =>
            have : buildAny cfg mode (f+1) ctx (.list [.str "usepulses", .str n', .str "*"]) st
                = .ok (.usepulses n', st) := by
              show anyStep cfg mode (buildAny cfg mode f) (buildVal ctx f) ctx [.str "usepulses", .str n', .str "*"] st = _
              simp [anyStep, isStar, pure, Except.pure]
            rw [this] at h
            cases h
            obtain ⟨m, hm⟩ := hm
        · cases hh
  · -- body: a statement or a macro definition
    have hstmt : isPStmt c = true → ChildTy st o s1 := by
      intro hs
      obtain ⟨hm, s, rfl, hin⟩ := buildAny_typed cfg mode f ctx c st ht.ctxT hs hi o s1 h
      exact Or.inr (Or.inr (Or.inl ⟨hm, s, rfl, hin⟩))
    unfold isPBody at hb
    split at hb
    · rename_i n rest
      simp only [Bool.and_eq_true] at hb
      cases f with
      | zero => simp [BSx.depth] at hd
      | succ f =>
        have h' : anyStep cfg mode (buildAny cfg mode f) (buildVal ctx f) ctx (.str "macro" :: .str n :: rest) st
            = .ok (o, s1) := h
        simp only [anyStep, show ("macro" = "gate") = False from by decide, if_false,
          show ("macro" = "sequential_block" ∨ "macro" = "block") = False from by decide,
          show ("macro" = "parallel_block") = False from by decide,
          show ("macro" = "unscheduled_block") = False from by decide,
          show ("macro" = "subcircuit_block") = False from by decide,
          show ("macro" = "loop") = False from by decide,
          show ("macro" = "case") = False from by decide,
          show ("macro" = "branch") = False from by decide, if_true] at h'
        by_cases hlen : (List.length (BSx.str n :: rest)) < 2
        · simp only [hlen, if_true] at h'
          simp [throw_eq] at h'
        · simp only [hlen, if_false, strOf, pure_bind] at h'
          by_cases hdef : (List.lookup n st.gctx).isSome = true
          · simp only [if_pos hdef] at h'
            simp [throw_eq, bind, Except.bind] at h'
          · simp only [if_neg hdef, pure_bind] at h'
            obtain ⟨ps, hps, hk⟩ := mapM_macroParam _ hb.1
            simp only [hps, bind, Except.bind] at h'
            cases hlast : rest.getLast? with
            | none => simp [hlast] at hb
            | some blockE =>
              simp only [hlast] at hb h'
              cases hr2 : buildAny cfg mode f (ctx.withParams ps) blockE st with
              | error e' => rw [hr2] at h'; cases h'
              | ok p =>
                rw [hr2] at h'
                simp only [] at h'
                obtain ⟨o', s2⟩ := p
                obtain ⟨hm, s, rfl, hin⟩ := buildAny_typed cfg mode f (ctx.withParams ps) blockE st
                  (withParams_ctxT ht.ctxT hk) hb.2 hi o' s2 hr2
                split at h'
                · rename_i par sub it body hbeq
                  simp only [pure, Except.pure, Except.ok.injEq, Prod.mk.injEq] at h'
                  obtain ⟨rfl, rfl⟩ := h'
                  cases hbeq
                  exact Or.inr (Or.inr (Or.inr ⟨hm, _, rfl, hin⟩))
                · cases h'
    · exact hstmt hb

/-- the invariant: the header context is typed, and so is everything built so far -/
structure TyInv (acc : Acc) : Prop where
  top : TopT acc.ctx
  memo : MemoTy acc.st.memo
  stmts : ∀ s ∈ acc.stmts, StmtIn s
  macros : ∀ m ∈ acc.macros, StmtIn m.body
  regs : ∀ v ∈ acc.registers, InT v = true
  consts : ∀ v ∈ acc.constants, isConst v = true
  regLike : ∀ v ∈ acc.registers, isRegLike v = true

theorem stepTail_typed {cfg : Config} {mode : KeyMode} {inject : Option (List (String × GateDef))} {acc a1 : Acc}
    {o : Obj} {st : St} (ha : TyInv acc) (ho : ChildTy acc.st o st) (h : stepTail cfg mode inject acc o st = .ok a1) :
    TyInv a1 := by
  have htop : TopT a1.ctx := by
    refine stepTail_topT ha.top ?_ h
    intro v hv
    rcases ho with ⟨v', hv', h1, h2, _⟩ | ⟨n, hn, _⟩ | ⟨_, s, hs, _⟩ | ⟨_, m, hm, _⟩
    · rw [hv] at hv'; cases hv'; exact ⟨h1, h2⟩
    · rw [hv] at hn; cases hn
    · rw [hv] at hs; cases hs
    · rw [hv] at hm; cases hm
  rcases ho with ⟨v, rfl, hvt, hvp, rfl⟩ | ⟨n, rfl, rfl⟩ | ⟨hm, s, rfl, hs⟩ | ⟨hm, m, rfl, hmb⟩
  · -- a value
    refine ⟨htop, ?_, ?_, ?_, ?_, ?_, ?_⟩ <;>
      (cases v <;> simp only [stepTail, throw_eq] at h <;> first
        | cases h
        | (obtain ⟨c, _, h2⟩ := bind_ok h
           cases h2
           first
             | exact ha.memo
             | exact ha.stmts
             | exact ha.macros
             | exact ha.regs
             | exact ha.consts
             | exact ha.regLike
             | (intro x hx
                rcases List.mem_append.1 hx with hx | hx
                · exact ha.regLike x hx
                · simp only [List.mem_singleton] at hx; subst hx; rfl)
             | (intro x hx
                rcases List.mem_append.1 hx with hx | hx
                · exact ha.regs x hx
                · simp only [List.mem_singleton] at hx; subst hx; exact ValT_InT hvt)
             | (intro x hx
                rcases List.mem_append.1 hx with hx | hx
                · exact ha.consts x hx
                · simp only [List.mem_singleton] at hx; subst hx; rfl)))
  · -- usepulses
    simp only [stepTail] at h
    by_cases hauto : cfg.autoload = true
    · simp only [hauto, if_true] at h
      split at h
      · simp [throw_eq] at h
      · split at h
        · cases h
        · simp only [pure, Except.pure] at h
          cases h
          refine ⟨htop, ?_, ha.stmts, ha.macros, ha.regs, ha.consts, ha.regLike⟩
          intro k s hk
          split at hk
          · exact ha.memo k s hk
          · cases hk
    · simp only [hauto, Bool.false_eq_true, if_false, pure, Except.pure] at h
      cases h
      exact ⟨htop, ha.memo, ha.stmts, ha.macros, ha.regs, ha.consts, ha.regLike⟩
  · -- a statement
    simp only [stepTail, pure, Except.pure] at h
    cases h
    refine ⟨htop, hm, ?_, ha.macros, ha.regs, ha.consts, ha.regLike⟩
    intro x hx
    rcases List.mem_append.1 hx with hx | hx
    · exact ha.stmts x hx
    · simp only [List.mem_singleton] at hx; subst hx; exact hs
  · -- a macro
    simp only [stepTail] at h
    obtain ⟨m', hm', h2⟩ := bind_ok h
    have hsh := rebuildMacro_typed hm' hmb
    by_cases hl : (List.lookup m'.name st.gctx).isSome = true
    · simp [hl, throw_eq, bind, Except.bind] at h2
    · simp [hl, pure, Except.pure] at h2
      rw [← h2]
      refine ⟨by rw [← h2] at htop; exact htop, hm, ha.stmts, ?_, ha.regs, ha.consts, ha.regLike⟩
      intro x hx
      rcases List.mem_append.1 hx with hx | hx
      · exact ha.macros x hx
      · simp only [List.mem_singleton] at hx; subst hx; exact hsh

theorem circuitLoop_typed {cfg : Config} {mode : KeyMode} {inject : Option (List (String × GateDef))} {fuel : Nat} :
    ∀ (cs : List BSx) (acc a1 : Acc), TyInv acc →
      (∀ c ∈ cs, (isPHeader c = true ∨ isPBody c = true) ∧ c.depth ≤ fuel) →
      circuitLoop cfg mode inject fuel acc cs = .ok a1 → TyInv a1 := by
  intro cs
  induction cs with
  | nil => intro acc a1 ha _ h; simp only [circuitLoop, pure, Except.pure] at h; cases h; exact ha
  | cons c cs ih =>
    intro acc a1 ha hcs h
    simp only [circuitLoop, circuitStep] at h
    obtain ⟨a2, hstep, h2⟩ := bind_ok h
    obtain ⟨p, hp, h3⟩ := bind_ok hstep
    obtain ⟨o, st⟩ := p
    obtain ⟨hshape, hdep⟩ := hcs c (by simp)
    have hchild := buildAny_child_typed ha.top hshape hdep ha.memo hp
    exact ih a2 a1 (stepTail_typed ha hchild h3) (fun d hd => hcs d (by simp [hd])) h2

/-! ### The theorem -/

/-- **`built_typed`.** The values of a circuit built from parser output are typed. -/
theorem built_typed (cfg : Config) (e : BSx) (c : Circuit) (hp : ParserSx e) (hb : build cfg e = .ok c) : TypedC c := by
  obtain ⟨cs, rfl, hcs⟩ := hp
  unfold build buildWith at hb
  obtain ⟨inject, _, h1⟩ := bind_ok hb
  simp only [buildCore] at h1
  obtain ⟨acc, hloop, h3⟩ := bind_ok h1
  simp only [pure, Except.pure] at h3
  cases h3
  have hinv : TyInv acc := by
    refine circuitLoop_typed cs _ acc ?_ ?_ hloop
    · exact ⟨(fun n v h => by simp [Ctx.get] at h), (fun k s hk => by cases hk), (fun s hs => by cases hs),
        (fun m hm => by cases hm), (fun v hv => by cases hv), (fun v hv => by cases hv), (fun v hv => by cases hv)⟩
    · intro c hc
      refine ⟨hcs c hc, ?_⟩
      simp only [BSx.depth, BSx.depthList]
      have := depth_le_of_mem hc
      omega
  refine ⟨?_, hinv.macros, hinv.regs, hinv.consts, hinv.regLike⟩
  simp only [Acc.toCircuit, StmtIn]
  refine ⟨rfl, ?_⟩
  have : ∀ l : List Stmt, (∀ s ∈ l, StmtIn s) → StmtsIn l := by
    intro l
    induction l with
    | nil => intro _; trivial
    | cons x xs ih => intro h; exact ⟨h x (by simp), ih (fun s hs => h s (by simp [hs]))⟩
  exact this _ hinv.stmts

/-- `parse_jaqal_string` (no pass requested) returns a typed circuit -/
theorem parseBuild_typed (cfg : Config) (sx : Sx) (c : Circuit) (hp : ParserSx (BSx.ofSx sx))
    (h : parseBuild cfg sx = .ok c) : TypedC c := by
  unfold parseBuild at h
  obtain ⟨c0, hb, h⟩ := bind_ok h
  unfold tooManyRegisters at h
  split at h
  · cases h
  · cases h
    exact built_typed cfg _ _ hp hb

end Jaqal.Builder

#print axioms Jaqal.Builder.built_typed

/-! ### Through `expand_subcircuits` -/
namespace Jaqal.ExpandSubcircuits
open Jaqal Jaqal.FillIn Jaqal.Builder

mutual
  theorem spell_typed (p m : Stmt) (hp : StmtIn p) (hm : StmtIn m) : ∀ (s : Stmt), StmtIn s → StmtIn (spell p m s)
    | .gate n gd a, h => by simpa only [spell] using h
    | .loop c b, h => by
      simp only [StmtIn] at h
      simp only [spell, StmtIn]
      exact ⟨h.1, spell_typed p m hp hm b h.2⟩
    | .block par sub it body, h => by
      simp only [StmtIn] at h
      simp only [spell]
      have hb := spellList_typed p m hp hm body h.2
      split
      · refine ⟨rfl, hp, ?_⟩
        have happ : ∀ (l : List Stmt), StmtsIn l → StmtsIn (l ++ [m]) := by
          intro l
          induction l with
          | nil => intro _; exact ⟨hm, trivial⟩
          | cons x xs ih => intro hl; exact ⟨hl.1, ih hl.2⟩
        exact happ _ hb
      · exact ⟨rfl, hb⟩
  theorem spellList_typed (p m : Stmt) (hp : StmtIn p) (hm : StmtIn m) : ∀ (l : List Stmt), StmtsIn l →
      StmtsIn (spellList p m l)
    | [], _ => trivial
    | s :: r, h => ⟨spell_typed p m hp hm s h.1, spellList_typed p m hp hm r h.2⟩
end

/-- `expand_subcircuits` keeps a circuit typed -/
theorem expandSubcircuits_typed {prep meas : Option GateDefChoice} {c c' : Circuit} (ht : TypedC c)
    (h : expandSubcircuits prep meas c = .ok c') : TypedC c' := by
  obtain ⟨stmts, hs, _, _, _, _, rfl⟩ := expand_ok h
  have hp : StmtIn (prepStmt prep c) := by intro a ha; cases ha
  have hm : StmtIn (measStmt meas c) := by intro a ha; cases ha
  refine ⟨?_, ?_, ht.registers, ht.constants, ht.regLike⟩
  · have hb := spell_typed _ _ hp hm c.body ht.body
    simp only [StmtIn]
    refine ⟨rfl, ?_⟩
    cases hcb : spell (prepStmt prep c) (measStmt meas c) c.body with
    | block par sub it b =>
      rw [hcb] at hs hb
      simp only [statementsOf, pure, Except.pure] at hs
      cases hs
      exact hb.2
    | gate _ _ _ => rw [hcb] at hs; cases hs
    | loop cnt b =>
      -- `iterStmts` walks down to the block inside the loops
      rw [hcb] at hs hb
      have hiter : ∀ (s : Stmt) (l : List Stmt), StmtIn s → iterStmts s = .ok l → StmtsIn l := by
        intro s
        induction s using Stmt.rec (motive_2 := fun _ => True) with
        | gate _ _ _ => intro l _ hl; cases hl
        | block _ _ _ b _ => intro l hb' hl; simp only [iterStmts, pure, Except.pure] at hl; cases hl; exact hb'.2
        | loop _ b ih => intro l hb' hl; simp only [iterStmts] at hl; exact ih l hb'.2 hl
        | nil => trivial
        | cons _ _ _ _ => trivial
      simp only [statementsOf] at hs
      exact hiter b stmts hb.2 hs
  · intro m' hm'
    obtain ⟨m0, hm0, rfl⟩ := List.mem_map.1 hm'
    exact spell_typed _ _ hp hm m0.body (ht.macros m0 hm0)

end Jaqal.ExpandSubcircuits

#print axioms Jaqal.ExpandSubcircuits.expandSubcircuits_typed
