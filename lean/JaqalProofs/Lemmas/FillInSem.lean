import JaqalProofs.Lemmas.FillInBuild
import JaqalProofs.Lemmas.FillInResolve
/-!
Lemmas for C05 / C06: the visitors on values against the specification (`Sem.evalNum`, `evalReg`, `evalQubit`, `evalArg`),
and the lifting to statements through `Rel`.
-/
namespace Jaqal.FillIn
open Jaqal Jaqal.Builder Jaqal.Sem

/-- the override environment as the pass reads it: an integral float counts as an integer (`as_integer`), exactly as
a `let` statement reads its literal -/
def normOv (ov : List (String × Num)) : Env := ov.map (fun p => (p.1, Num.asInteger p.2))

theorem lookup_normOv (ov : List (String × Num)) (n : String) :
    Sem.lookup (normOv ov) n = (lookupOv ov n).map Num.asInteger := by
  unfold Sem.lookup lookupOv normOv
  induction ov with
  | nil => rfl
  | cons p ov ih =>
    simp only [List.map_cons, List.find?_cons]
    by_cases h : (p.1 == n) = true
    · simp [h]
    · simp only [h]; exact ih

/-! ### Shapes of the constructors' results -/

theorem mkQubit_eq {n : String} {src idx v : Val} (h : mkQubit n src idx = .ok v) : v = .qubit n src idx := by
  unfold mkQubit at h
  obtain ⟨_, _, h⟩ := bind_ok h
  cases h; rfl

theorem getItem_eq {arr idx v : Val} (h : FillIn.getItem arr idx = .ok v) : ∃ n, v = .qubit n arr idx := by
  unfold FillIn.getItem at h
  split at h
  · simp [throw_eq] at h
  · split at h
    · simp [throw_eq] at h
    · split at h
      · exact ⟨_, mkQubit_eq h⟩
      · obtain ⟨_, _, h⟩ := bind_ok h
        simp [throw_eq] at h

/-- however the visitors end a qubit whose index was a constant, the result is `NamedQubit(some name, nf, ni)` having
passed the constructor's checks -/
theorem constIndexQubit_mk {rv : Bool} {name : String} {src idx nf ni v : Val}
    (h : constIndexQubit rv name src idx nf ni = .ok v) : ∃ n', mkQubit n' nf ni = .ok v := by
  unfold constIndexQubit at h
  split at h
  · exact ⟨_, h⟩
  · split at h
    · split at h
      · exact ⟨_, h⟩
      · unfold FillIn.getItem at h
        split at h
        · simp [throw_eq] at h
        · split at h
          · simp [throw_eq] at h
          · split at h
            · exact ⟨_, h⟩
            · obtain ⟨_, _, h⟩ := bind_ok h
              simp [throw_eq] at h
    · simp [throw_eq] at h

theorem mkRegister_eq {n : String} {size v : Val} (h : mkRegister n size = .ok v) : v = .regF n size := by
  unfold mkRegister at h
  split at h
  · simp [throw_eq] at h
  · split at h <;> first | (exact (Except.ok.inj h).symm) | (simp [throw_eq] at h)
  · split at h <;> first | (exact (Except.ok.inj h).symm) | (simp [throw_eq] at h)
  · split at h
    · simp [throw_eq] at h
    · split at h <;> first | (exact (Except.ok.inj h).symm) | (simp [throw_eq] at h)

theorem mkSliceN_eq {n : String} {src a b s v : Val} (h : mkSliceN n src a b s = .ok v) :
    v = .regS n src a b s ∧ a ≠ .none ∧ b ≠ .none ∧ s ≠ .none ∧ mkSlice n src a b s = .ok v := by
  unfold mkSliceN at h
  split at h
  · simp [throw_eq] at h
  · rename_i hn
    simp only [Bool.or_eq_true, beq_iff_eq, not_or] at hn
    have h' := h
    unfold mkSlice at h
    obtain ⟨_, _, h⟩ := bind_ok h
    cases h
    exact ⟨rfl, hn.1.1, hn.1.2, hn.2, h'⟩

theorem resolveConstant_num {ov : List (String × Num)} {v v' : Val} (h : resolveConstant ov v = .ok v') :
    ∃ n d, v = .const n d ∧ ((∃ x, lookupOv ov n = some x ∧ v' = Val.ofNum (Num.asInteger x)) ∨
      (lookupOv ov n = none ∧ v' = d ∧ d.isNum = true)) := by
  cases v <;> simp only [resolveConstant, throw_eq] at h <;> try (cases h)
  rename_i n d
  refine ⟨n, d, rfl, ?_⟩
  cases hl : lookupOv ov n with
  | some x => simp only [hl, pure, Except.pure] at h; cases h; exact Or.inl ⟨x, rfl, rfl⟩
  | none =>
    simp only [hl] at h
    cases d <;> simp only [pure, Except.pure] at h <;> first | (cases h; exact Or.inr ⟨rfl, rfl, rfl⟩) | (cases h)

/-! ### Numbers -/

theorem evalNum_ofNum (ρ : Env) (b : Bind) (x : Num) : evalNum ρ b (Val.ofNum x) = .ok x := by
  cases x <;> rfl

theorem evalNum_nonconst (ρ ρ' : Env) (b : Bind) {v : Val} (h : isConst v = false) : evalNum ρ' b v = evalNum ρ b v := by
  cases v <;> first | rfl | simp [isConst] at h

theorem resolveConstant_evalNum {ov : List (String × Num)} {v v' : Val} (b : Bind) (h : resolveConstant ov v = .ok v') :
    evalNum [] b v' = evalNum (normOv ov) b v := by
  obtain ⟨n, d, rfl, hcase⟩ := resolveConstant_num h
  simp only [evalNum, lookup_normOv]
  rcases hcase with ⟨x, hx, rfl⟩ | ⟨hx, rfl, hd⟩
  · simp [hx, evalNum_ofNum, pure, Except.pure]
  · simp only [hx, Option.map_none]
    cases v' <;> first | rfl | simp [Val.isNum] at hd

theorem evalInt_congr {ρ ρ' : Env} {b : Bind} {v v' : Val} (h : evalNum ρ' b v' = evalNum ρ b v) :
    evalInt ρ' b v' = evalInt ρ b v := by
  simp only [evalInt, h]

theorem optInt_congr {ρ ρ' : Env} {b : Bind} {v v' : Val} (d : Int) (h : evalNum ρ' b v' = evalNum ρ b v)
    (hn : v ≠ .none) (hn' : v' ≠ .none) : ExpandMacros.optInt ρ' b d v' = ExpandMacros.optInt ρ b d v := by
  have e1 : ExpandMacros.optInt ρ' b d v' = evalInt ρ' b v' := by cases v' <;> first | rfl | exact absurd rfl hn'
  have e2 : ExpandMacros.optInt ρ b d v = evalInt ρ b v := by cases v <;> first | rfl | exact absurd rfl hn
  rw [e1, e2, evalInt_congr h]

theorem letVal_none {ov : List (String × Num)} {rv : Bool} {v : Val} (h : letVal ov rv v = .ok .none) : v = .none := by
  cases v with
  | none => rfl
  | const n d =>
    obtain ⟨_, _, hc, hcase⟩ := resolveConstant_num (v := .const n d) h
    rcases hcase with ⟨x, _, hx⟩ | ⟨_, hx, hnum⟩
    · cases hx' : Num.asInteger x <;> simp [hx', Val.ofNum] at hx
    · cases hc; subst hx; simp [Val.isNum] at hnum
  | qubit n src idx =>
    simp only [letVal] at h
    obtain ⟨nf, _, h⟩ := bind_ok h
    split at h
    · obtain ⟨ni, _, h⟩ := bind_ok h
      obtain ⟨_, hq⟩ := constIndexQubit_mk h
      cases mkQubit_eq hq
    · cases mkQubit_eq h
  | regF n size =>
    simp only [letVal] at h
    split at h
    · obtain ⟨ns, _, h⟩ := bind_ok h
      cases mkRegister_eq h
    · cases h
  | regA n src =>
    simp only [letVal] at h
    obtain ⟨nf, _, h⟩ := bind_ok h
    cases h
  | regS n src a b s =>
    simp only [letVal] at h
    obtain ⟨nf, _, h⟩ := bind_ok h
    obtain ⟨a', _, h⟩ := bind_ok h
    obtain ⟨b', _, h⟩ := bind_ok h
    obtain ⟨s', _, h⟩ := bind_ok h
    cases (mkSliceN_eq h).1
  | int _ => cases h
  | flt _ => cases h
  | param _ _ => cases h
  | str _ => cases h

/-- **Substitution commutes with evaluation**: a value visited by `LetFiller` / `RegisterVisitor`, evaluated under the
empty environment, is the original evaluated under the overriding values. -/
theorem letVal_sem {ov : List (String × Num)} : ∀ (v : Val) (rv : Bool) (v' : Val), letVal ov rv v = .ok v' →
    ∀ b : Bind, evalNum [] b v' = evalNum (normOv ov) b v ∧ evalReg [] b v' = evalReg (normOv ov) b v ∧
      evalQubit [] b v' = evalQubit (normOv ov) b v ∧ evalArg [] b v' = evalArg (normOv ov) b v := by
  intro v
  induction v with
  | const n d =>
    intro rv v' h b
    have hnum := resolveConstant_evalNum b (v := .const n d) h
    obtain ⟨_, _, hc, hcase⟩ := resolveConstant_num (v := .const n d) h
    have hv' : v'.isNum = true := by
      rcases hcase with ⟨x, _, rfl⟩ | ⟨_, rfl, hd⟩
      · cases hx : Num.asInteger x <;> simp [Val.ofNum, Val.isNum]
      · cases hc; exact hd
    cases v' <;> simp [Val.isNum] at hv' <;>
      exact ⟨hnum, rfl, rfl, by simp only [evalArg, hnum]⟩
  | qubit n src idx ihs ihi =>
    intro rv v' h b
    simp only [letVal] at h
    obtain ⟨nf, hnf, h⟩ := bind_ok h
    have hR := (ihs rv nf hnf b).2.1
    have key : ∀ n' ni, evalNum [] b ni = evalNum (normOv ov) b idx → v' = .qubit n' nf ni →
        evalNum [] b v' = evalNum (normOv ov) b (.qubit n src idx) ∧
        evalReg [] b v' = evalReg (normOv ov) b (.qubit n src idx) ∧
        evalQubit [] b v' = evalQubit (normOv ov) b (.qubit n src idx) ∧
        evalArg [] b v' = evalArg (normOv ov) b (.qubit n src idx) := by
      intro n' ni hN hv
      subst hv
      have hQ : evalQubit [] b (.qubit n' nf ni) = evalQubit (normOv ov) b (.qubit n src idx) := by
        simp only [evalQubit, evalInt_congr hN, hR]
      exact ⟨rfl, rfl, hQ, by simp only [evalArg, hQ]⟩
    split at h
    · obtain ⟨ni, hni, h⟩ := bind_ok h
      have hN := resolveConstant_evalNum b hni
      obtain ⟨n', hq⟩ := constIndexQubit_mk h
      exact key _ _ hN (mkQubit_eq hq)
    · rename_i hc
      exact key _ _ (evalNum_nonconst _ _ b (by simpa using hc)) (mkQubit_eq h)
  | regF n size _ =>
    intro rv v' h b
    simp only [letVal] at h
    split at h
    · obtain ⟨ns, hns, h⟩ := bind_ok h
      cases mkRegister_eq h
      have hN := resolveConstant_evalNum b hns
      have hR : evalReg [] b (.regF n ns) = evalReg (normOv ov) b (.regF n size) := by
        simp only [evalReg, evalInt_congr hN]
      exact ⟨rfl, hR, rfl, by simp only [evalArg, hR]⟩
    · rename_i hc
      cases h
      have hN := evalNum_nonconst (normOv ov) [] b (v := size) (by simpa using hc)
      have hR : evalReg [] b (.regF n size) = evalReg (normOv ov) b (.regF n size) := by
        simp only [evalReg, evalInt_congr hN]
      exact ⟨rfl, hR, rfl, by simp only [evalArg, hR]⟩
  | regA n src ih =>
    intro rv v' h b
    simp only [letVal] at h
    obtain ⟨nf, hnf, h⟩ := bind_ok h
    cases h
    have hR : evalReg [] b (.regA n nf) = evalReg (normOv ov) b (.regA n src) := by
      simp only [evalReg]; exact (ih rv nf hnf b).2.1
    exact ⟨rfl, hR, rfl, by simp only [evalArg, hR]⟩
  | regS n src a bb s ihs iha ihb ihst =>
    intro rv v' h b
    simp only [letVal] at h
    obtain ⟨nf, hnf, h⟩ := bind_ok h
    obtain ⟨a', ha', h⟩ := bind_ok h
    obtain ⟨b', hb', h⟩ := bind_ok h
    obtain ⟨s', hs', h⟩ := bind_ok h
    obtain ⟨rfl, hna, hnb, hns, _⟩ := mkSliceN_eq h
    have hna0 : a ≠ .none := fun hx => hna (by subst hx; exact (Except.ok.inj ha').symm)
    have hnb0 : bb ≠ .none := fun hx => hnb (by subst hx; exact (Except.ok.inj hb').symm)
    have hns0 : s ≠ .none := fun hx => hns (by subst hx; exact (Except.ok.inj hs').symm)
    have hR : evalReg [] b (.regS n nf a' b' s') = evalReg (normOv ov) b (.regS n src a bb s) := by
      rw [ExpandMacros.evalReg_regS, ExpandMacros.evalReg_regS, (ihs rv nf hnf b).2.1]
      cases hl : evalReg (normOv ov) b src with
      | error e => rfl
      | ok l =>
        simp only [bind, Except.bind]
        rw [optInt_congr 0 (iha rv a' ha' b).1 hna0 hna, optInt_congr 1 (ihst rv s' hs' b).1 hns0 hns,
          optInt_congr _ (ihb rv b' hb' b).1 hnb0 hnb]
    exact ⟨rfl, hR, rfl, by simp only [evalArg, hR]⟩
  | int _ => intro rv v' h b; cases h; exact ⟨rfl, rfl, rfl, rfl⟩
  | flt _ => intro rv v' h b; cases h; exact ⟨rfl, rfl, rfl, rfl⟩
  | param _ _ => intro rv v' h b; cases h; exact ⟨rfl, rfl, rfl, rfl⟩
  | none => intro rv v' h b; cases h; exact ⟨rfl, rfl, rfl, rfl⟩
  | str _ => intro rv v' h b; cases h; exact ⟨rfl, rfl, rfl, rfl⟩

/-! ### Lifting to statements, macros and circuits -/

mutual
/-- the block invariants of `BlockStatement`: only a subcircuit block has an iteration count (`iterations != 1` is
refused otherwise), a subcircuit block is sequential (`build_subcircuit_block` makes nothing else) and its count is given -/
def BlocksOK : Stmt → Prop
  | .gate _ _ _ => True
  | .block par sub it body =>
    (sub = false → it = .int 1) ∧ (sub = true → par = false ∧ it ≠ .none) ∧ BlocksOKList body
  | .loop _ b => BlocksOK b
def BlocksOKList : List Stmt → Prop
  | [] => True
  | s :: ss => BlocksOK s ∧ BlocksOKList ss
end

mutual
/-- `P` holds of every gate argument, loop count and subcircuit count -/
def AllVals (P : Val → Prop) : Stmt → Prop
  | .gate _ _ args => ∀ a ∈ args, P a.2
  | .block _ sub it body => (sub = true → P it) ∧ AllValsList P body
  | .loop c b => P c ∧ AllVals P b
def AllValsList (P : Val → Prop) : List Stmt → Prop
  | [] => True
  | s :: ss => AllVals P s ∧ AllValsList P ss
end

theorem mapM_evalArg_rel {F : Val → M Val} {ρ ρ' : Env} {P : Val → Prop} (b : Bind)
    (hF : ∀ v v' b, P v → F v = .ok v' → evalArg ρ' b v' = evalArg ρ b v) :
    ∀ {args args' : List (String × Val)}, List.Forall₂ (fun a a' => F a.2 = .ok a'.2) args args' → (∀ a ∈ args, P a.2) →
    args'.mapM (fun a => evalArg ρ' b a.2) = args.mapM (fun a => evalArg ρ b a.2) := by
  intro args args' h
  induction h with
  | nil => intro _; rfl
  | cons hab _ ih =>
    intro hP
    simp only [List.mapM_cons]
    rw [hF _ _ b (hP _ (by simp)) hab, ih (fun a ha => hP a (by simp [ha]))]

section Lift
variable {F G : Val → M Val} {ρ ρ' : Env} {P : Val → Prop}
variable (hF : ∀ v v' b, P v → F v = .ok v' → evalArg ρ' b v' = evalArg ρ b v ∧ evalNum ρ' b v' = evalNum ρ b v)
variable (hG : ∀ v v' b, P v → G v = .ok v' → evalNum ρ' b v' = evalNum ρ b v ∧ (v' = .none → v = .none))
include hF hG

mutual
theorem Rel_evalStmt (md : MacroDen) : ∀ (s s' : Stmt) (b : Bind), Rel F G s s' → BlocksOK s → AllVals P s →
    evalStmt ρ' md b s' = evalStmt ρ md b s
  | .gate n gd args, .gate n' gd' args', b, h, _, hP => by
    simp only [Rel] at h
    obtain ⟨rfl, hargs⟩ := h
    simp only [evalStmt, mapM_evalArg_rel b (fun v v' b hp hf => (hF v v' b hp hf).1) hargs hP]
  | .block par sub it body, .block par' sub' it' body', b, h, hB, hP => by
    simp only [Rel] at h
    obtain ⟨rfl, rfl, hit, hbody⟩ := h
    simp only [BlocksOK] at hB
    simp only [AllVals] at hP
    have hrec := Rel_evalStmts md body body' b hbody hB.2.2 hP.2
    cases sub' with
    | false =>
      simp only [Bool.false_eq_true, if_false] at hit
      subst hit
      rw [hB.1 rfl]
      simp only [evalStmt, hrec, Bool.not_false, Bool.and_true]
      rfl
    | true =>
      simp only [if_true] at hit
      obtain ⟨c, hc, rfl⟩ := hit
      obtain ⟨hpar, hnone⟩ := hB.2.1 rfl
      subst hpar
      obtain ⟨hN, hn⟩ := hG it c b (hP.1 rfl) hc
      have hcn : normCount c = c := by
        cases c <;> first | rfl | exact absurd (hn rfl) hnone
      simp only [evalStmt, hrec, hcn, evalInt_congr hN, Bool.not_true, Bool.and_false]
  | .loop c body, .loop c' body', b, h, hB, hP => by
    simp only [Rel] at h
    simp only [BlocksOK] at hB
    simp only [AllVals] at hP
    simp only [evalStmt, evalInt_congr (hF c c' b hP.1 h.1).2, Rel_evalStmt md body body' b h.2 hB hP.2]
  | .gate _ _ _, .block _ _ _ _, _, h, _, _ | .gate _ _ _, .loop _ _, _, h, _, _
  | .block _ _ _ _, .gate _ _ _, _, h, _, _ | .block _ _ _ _, .loop _ _, _, h, _, _
  | .loop _ _, .gate _ _ _, _, h, _, _ | .loop _ _, .block _ _ _ _, _, h, _, _ => by simp [Rel] at h
theorem Rel_evalStmts (md : MacroDen) : ∀ (l l' : List Stmt) (b : Bind), RelList F G l l' → BlocksOKList l →
    AllValsList P l → evalStmts ρ' md b l' = evalStmts ρ md b l
  | [], [], _, _, _, _ => rfl
  | s :: ss, s' :: ss', b, h, hB, hP => by
    simp only [RelList] at h
    simp only [BlocksOKList] at hB
    simp only [AllValsList] at hP
    simp only [evalStmts, Rel_evalStmt md s s' b h.1 hB.1 hP.1, Rel_evalStmts md ss ss' b h.2 hB.2 hP.2]
  | [], _ :: _, _, h, _, _ | _ :: _, [], _, h, _, _ => by simp [RelList] at h
end

theorem denoteMacros_rel {Fm : Macro → Val → M Val}
    (hFm : ∀ m v v' b, P v → Fm m v = .ok v' → evalArg ρ' b v' = evalArg ρ b v ∧ evalNum ρ' b v' = evalNum ρ b v) :
    ∀ {ms ms' : List Macro}, List.Forall₂ (fun m m' => MacroRel (Fm m) G m m') ms ms' →
    (∀ m ∈ ms, BlocksOK m.body ∧ AllVals P m.body) → ∀ md : MacroDen,
    ms'.foldl (fun md m => md ++ [(m.name, (m.params.length,
      fun args => evalStmt ρ' md (m.params.map (·.1) |>.zip args) m.body))]) md =
    ms.foldl (fun md m => md ++ [(m.name, (m.params.length,
      fun args => evalStmt ρ md (m.params.map (·.1) |>.zip args) m.body))]) md := by
  intro ms ms' h
  induction h with
  | nil => intro _ _; rfl
  | @cons m m' ms ms' hm _ ih =>
    intro hok md
    obtain ⟨hn, hp, hb⟩ := hm
    obtain ⟨hB, hP⟩ := hok m (by simp)
    simp only [List.foldl_cons]
    have e : (fun args => evalStmt ρ' md (m'.params.map (·.1) |>.zip args) m'.body) =
        (fun args => evalStmt ρ md (m.params.map (·.1) |>.zip args) m.body) := by
      funext args
      rw [hp, List.map_map]
      exact Rel_evalStmt (hFm m) hG md m.body m'.body _ hb hB hP
    rw [hn, e, hp, List.length_map]
    exact ih (fun x hx => hok x (by simp [hx])) _

/-- the rebuilt circuit means what the original means (given how the visitors treat values) -/
theorem Rebuilt_meaning {Fm : Macro → Val → M Val}
    (hFm : ∀ m v v' b, P v → Fm m v = .ok v' → evalArg ρ' b v' = evalArg ρ b v ∧ evalNum ρ' b v' = evalNum ρ b v)
    {c c' : Circuit} {regs : List Val} {body : List Stmt} (hr : Rebuilt F Fm G c regs body c')
    (hbody : c.body = .block false false (.int 1) body) (hB : BlocksOKList body) (hP : AllValsList P body)
    (hms : ∀ m ∈ c.macros, BlocksOK m.body ∧ AllVals P m.body) : meaning ρ' c' = meaning ρ c := by
  obtain ⟨ss, hc', hrel⟩ := hr.body
  have hmd : denoteMacros ρ' c'.macros = denoteMacros ρ c.macros := denoteMacros_rel hF hG hFm hr.macros hms []
  have e1 : evalInt ρ' [] (Val.int 1) = evalInt ρ [] (Val.int 1) := rfl
  simp only [meaning, hmd, hc', hbody, evalStmt, Rel_evalStmts hF hG _ body ss [] hrel hB hP, e1]

end Lift

/-! ### Well-formed circuits; what the visitors put out -/

structure WellFormed (c : Circuit) : Prop where
  /-- `Circuit.body` is a plain sequential block -/
  body : ∃ bs, c.body = .block false false (.int 1) bs
  blocks : BlocksOK c.body
  macros : ∀ m ∈ c.macros, BlocksOK m.body
  consts : ∀ v ∈ c.constants, isConst v = true
  regs : ∀ v ∈ c.registers, isRegLike v = true

theorem mapM_all {α β : Type} {f : α → M β} {P : α → Prop} {Q : β → Prop} (hf : ∀ a b, P a → f a = .ok b → Q b) :
    ∀ {l : List α} {l' : List β}, l.mapM f = .ok l' → (∀ a ∈ l, P a) → ∀ b ∈ l', Q b := by
  intro l l' h hP b hb
  obtain ⟨a, ha, hab⟩ := mapM_ok h b hb
  exact hf a b (hP a ha) hab

theorem allVals_true (s : Stmt) : AllVals (fun _ => True) s :=
  Stmt.rec (motive_1 := fun s => AllVals (fun _ => True) s) (motive_2 := fun l => AllValsList (fun _ => True) l)
    (fun _ _ _ => by simp [AllVals]) (fun _ _ _ _ ih => by simp only [AllVals]; exact ⟨fun _ => trivial, ih⟩)
    (fun _ _ ih => by simp only [AllVals]; exact ⟨trivial, ih⟩) (by simp [AllValsList])
    (fun _ _ ih1 ih2 => by simp only [AllValsList]; exact ⟨ih1, ih2⟩) s

theorem allValsList_true : ∀ l : List Stmt, AllValsList (fun _ => True) l
  | [] => trivial
  | s :: l => ⟨allVals_true s, allValsList_true l⟩

theorem forall₂_right {α β : Type} {R : α → β → Prop} {l : List α} {l' : List β} (h : List.Forall₂ R l l') :
    ∀ b ∈ l', ∃ a ∈ l, R a b := by
  induction h with
  | nil => intro b hb; cases hb
  | cons hab _ ih =>
    intro b hb
    rcases List.mem_cons.1 hb with rfl | hb
    · exact ⟨_, by simp, hab⟩
    · obtain ⟨a, ha, hr⟩ := ih b hb
      exact ⟨a, by simp [ha], hr⟩

theorem forall₂_imp {α β : Type} {R S : α → β → Prop} (hRS : ∀ a b, R a b → S a b) {l : List α} {l' : List β}
    (h : List.Forall₂ R l l') : List.Forall₂ S l l' := by
  induction h with
  | nil => exact List.Forall₂.nil
  | cons hab _ ih => exact List.Forall₂.cons (hRS _ _ hab) ih


mutual
theorem Rel_out {F G : Val → M Val} {P Q : Val → Prop} (hF : ∀ v v', P v → F v = .ok v' → Q v')
    (hG : ∀ v v', P v → G v = .ok v' → Q (normCount v')) : ∀ (s s' : Stmt), Rel F G s s' → AllVals P s → AllVals Q s'
  | .gate n gd args, .gate n' gd' args', h, hP => by
    simp only [Rel] at h
    simp only [AllVals] at hP ⊢
    intro a' ha'
    obtain ⟨a, ha, hab⟩ := forall₂_right h.2 a' ha'
    exact hF _ _ (hP a ha) hab
  | .block par sub it body, .block par' sub' it' body', h, hP => by
    simp only [Rel] at h
    obtain ⟨rfl, _, hit, hbody⟩ := h
    simp only [AllVals] at hP ⊢
    refine ⟨?_, Rel_outs hF hG body body' hbody hP.2⟩
    intro hs
    subst hs
    simp only [if_true] at hit
    obtain ⟨c, hc, rfl⟩ := hit
    exact hG _ _ (hP.1 rfl) hc
  | .loop c b, .loop c' b', h, hP => by
    simp only [Rel] at h
    simp only [AllVals] at hP ⊢
    exact ⟨hF _ _ hP.1 h.1, Rel_out hF hG b b' h.2 hP.2⟩
  | .gate _ _ _, .block _ _ _ _, h, _ | .gate _ _ _, .loop _ _, h, _
  | .block _ _ _ _, .gate _ _ _, h, _ | .block _ _ _ _, .loop _ _, h, _
  | .loop _ _, .gate _ _ _, h, _ | .loop _ _, .block _ _ _ _, h, _ => by simp [Rel] at h
theorem Rel_outs {F G : Val → M Val} {P Q : Val → Prop} (hF : ∀ v v', P v → F v = .ok v' → Q v')
    (hG : ∀ v v', P v → G v = .ok v' → Q (normCount v')) : ∀ (l l' : List Stmt), RelList F G l l' → AllValsList P l →
    AllValsList Q l'
  | [], [], _, _ => trivial
  | s :: ss, s' :: ss', h, hP => by
    simp only [RelList] at h
    simp only [AllValsList] at hP
    exact ⟨Rel_out hF hG s s' h.1 hP.1, Rel_outs hF hG ss ss' h.2 hP.2⟩
  | [], _ :: _, h, _ | _ :: _, [], h, _ => by simp [RelList] at h
end


/-! ### A running example -/
section Example

def exR : Val := .regF "r" (.const "n" (.int 4))
def exA : Val := .regS "a" exR (.const "k" (.int 1)) (.const "n" (.int 4)) (.int 2)
def exM : GateDef := { name := "M", tag := DefTag.macro, params := [("x", .none), ("n", .none)] }
/-- `let n 4; let k 1; register r[n]; map a r[k:n:2]; macro M x n { P x n; X a[0] }`
`loop k { M r[k] 2 }; subcircuit n { X a[k] }` — the macro parameter `n` shadows the constant; no gate set, so the
definitions are the anonymous ones the builder invents -/
def exC : Circuit := {
  constants := [.const "n" (.int 4), .const "k" (.int 1)],
  registers := [exR, exA],
  macros := [Macro.mk "M" [("x", .none), ("n", .none)] (.block false false (.int 1) [
      .gate "P" (anonDef "P" 2) [("p0", .param "x" .none), ("p1", .param "n" .none)],
      .gate "X" (anonDef "X" 1) [("p0", .qubit "a[0]" exA (.int 0))]])],
  body := .block false false (.int 1) [
    .loop (.const "k" (.int 1)) (.block false false (.int 1) [
      .gate "M" exM [("x", .qubit "r[k]" exR (.const "k" (.int 1))), ("n", .int 2)]]),
    .block false true (.const "n" (.int 4)) [.gate "X" (anonDef "X" 1) [("p0", .qubit "a[k]" exA (.const "k" (.int 1)))]]] }

theorem exC_wellFormed : WellFormed exC := by
  refine ⟨⟨_, rfl⟩, ?_, ?_, ?_, ?_⟩
  · simp [exC, BlocksOK, BlocksOKList]
  · intro m hm
    simp only [exC, List.mem_singleton] at hm
    subst hm
    simp [BlocksOK, BlocksOKList]
  · intro v hv
    simp only [exC, List.mem_cons, List.not_mem_nil, or_false] at hv
    rcases hv with rfl | rfl <;> rfl
  · intro v hv
    simp only [exC, List.mem_cons, List.not_mem_nil, or_false] at hv
    rcases hv with rfl | rfl <;> rfl

mutual
/-- a statement as decidable data (for examples checked by `decide +kernel`): gates with their argument values, blocks
with kind, subcircuit flag and count, loops with their count, in order -/
def digest : Stmt → List (String × List Val)
  | .gate n _ args => [(n, args.map (·.2))]
  | .block par sub it body => (s!"block par={par} sub={sub}", [it]) :: digests body ++ [("end", [])]
  | .loop c b => ("loop", [c]) :: digest b
def digests : List Stmt → List (String × List Val)
  | [] => []
  | s :: ss => digest s ++ digests ss
end

/-- a circuit as decidable data: the registers; the statements of the body followed by those of the macros -/
def cdigest (c : Circuit) : List Val × List (String × List Val) :=
  (c.registers, digest c.body ++
    c.macros.flatMap (fun m => ("macro " ++ m.name ++ " " ++ " ".intercalate (m.params.map (·.1)), []) :: digest m.body))

end Example

end Jaqal.FillIn
