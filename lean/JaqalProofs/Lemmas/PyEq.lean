import JaqalModel.Model.PyEq
/-! Lemmas about the model of Python `==` (`Jaqal.PyEq`): reflexivity, inversion of `dictEq`. -/
namespace Jaqal.PyEq
open Jaqal

/-! ## Well-formed (constructible) values: the source of a `NamedQubit` has a `.name` -/

/-- every `NamedQubit` below has a source with a `.name` (the constructor reads `alias_from.size`, and
`NamedQubit.__eq__` reads `alias_from.name`: without it `q == q` is `False`) -/
def wfVal : Val → Bool
  | .const _ v => wfVal v
  | .qubit _ src idx => src.name?.isSome && wfVal src && wfVal idx
  | .regF _ size => wfVal size
  | .regA _ src => wfVal src
  | .regS _ src a b c => wfVal src && wfVal a && wfVal b && wfVal c
  | _ => true

theorem veq_refl (x : Num) : Num.veq x x = true := by
  cases x <;> simp [Num.veq]

theorem valEq_refl : ∀ v : Val, wfVal v = true → valEq v v = true := by
  intro v
  induction v with
  | int x => intro _; simp [valEq, Num.veq]
  | flt d => intro _; simp [valEq, Num.veq]
  | none => intro _; simp [valEq]
  | str s => intro _; simp [valEq]
  | param n k => intro _; simp [valEq]
  | const n v ih => intro h; simp only [wfVal] at h; simp [valEq, ih h]
  | qubit n src idx _ ih2 =>
    intro h
    simp only [wfVal, Bool.and_eq_true] at h
    obtain ⟨⟨h1, _⟩, h3⟩ := h
    obtain ⟨s, hs⟩ := Option.isSome_iff_exists.mp h1
    simp [valEq, hs, ih2 h3]
  | regF n size ih => intro h; simp only [wfVal] at h; simp [valEq, ih h]
  | regA n src ih => intro h; simp only [wfVal] at h; simp [valEq, ih h]
  | regS n src a b c ih1 ih2 ih3 ih4 =>
    intro h
    simp only [wfVal, Bool.and_eq_true] at h
    obtain ⟨⟨⟨h1, h2⟩, h3⟩, h4⟩ := h
    simp [valEq, ih1 h1, ih2 h2, ih3 h3, ih4 h4]

theorem argsEq_refl : ∀ args : List (String × Val), (args.all (fun a => wfVal a.2)) = true → argsEq args args = true
  | [], _ => by simp [argsEq]
  | a :: as, h => by
    simp only [List.all_cons, Bool.and_eq_true] at h
    simp [argsEq, valEq_refl a.2 h.1, argsEq_refl as h.2]

mutual
  def wfStmt : Stmt → Bool
    | .gate _ _ args => args.all (fun a => wfVal a.2)
    | .block _ _ it body => wfVal it && wfStmts body
    | .loop c b => wfVal c && wfStmt b
  def wfStmts : List Stmt → Bool
    | [] => true
    | s :: rest => wfStmt s && wfStmts rest
end

mutual
  theorem stmtEq_refl : ∀ s : Stmt, wfStmt s = true → stmtEq s s = true
    | .gate n gd args, h => by
      simp only [wfStmt] at h
      simp [stmtEq, argsEq_refl args h]
    | .block par sub it body, h => by
      simp only [wfStmt, Bool.and_eq_true] at h
      simp [stmtEq, valEq_refl it h.1, stmtsEq_refl body h.2]
    | .loop c b, h => by
      simp only [wfStmt, Bool.and_eq_true] at h
      simp [stmtEq, valEq_refl c h.1, stmtEq_refl b h.2]
  theorem stmtsEq_refl : ∀ l : List Stmt, wfStmts l = true → stmtsEq l l = true
    | [], _ => by simp [stmtsEq]
    | s :: rest, h => by
      simp only [wfStmts, Bool.and_eq_true] at h
      simp [stmtsEq, stmtEq_refl s h.1, stmtsEq_refl rest h.2]
end

/-! ## `dict.__eq__` -/

/-- in a list with pairwise distinct keys, looking a member's key up finds that member -/
theorem find_self_of_nodup {α} (key : α → Option String) :
    ∀ (b : List α), (b.map key).Nodup → ∀ x ∈ b, b.find? (fun y => key y == key x) = some x
  | [], _, x, hx => by simp at hx
  | y :: ys, hnd, x, hx => by
    simp only [List.map_cons, List.nodup_cons] at hnd
    rcases List.mem_cons.mp hx with rfl | hx'
    · simp
    · have hne : key y ≠ key x := fun h => hnd.1 (h ▸ List.mem_map_of_mem hx')
      simp [hne, find_self_of_nodup key ys hnd.2 x hx']

theorem key_inj_of_nodup {α} (key : α → Option String) : ∀ (b : List α), (b.map key).Nodup →
    ∀ y ∈ b, ∀ y' ∈ b, key y = key y' → y = y'
  | [], _, y, hy, _, _, _ => by simp at hy
  | z :: zs, hnd, y, hy, y', hy', hk => by
    simp only [List.map_cons, List.nodup_cons] at hnd
    rcases List.mem_cons.mp hy with rfl | hy1 <;> rcases List.mem_cons.mp hy' with rfl | hy2
    · rfl
    · exact absurd (hk ▸ List.mem_map_of_mem hy2) hnd.1
    · exact absurd (hk ▸ List.mem_map_of_mem hy1) hnd.1
    · exact key_inj_of_nodup key zs hnd.2 y hy1 y' hy2 hk

/-- `dict.__eq__` returned `True`: equally many entries, and every entry of `a` has an equal entry under the same
key in `b` -/
theorem dictEq_true {α} {key : α → Option String} {eq : α → α → Bool} {a b : List α}
    (h : dictEq key eq a b = true) :
    a.length = b.length ∧ ∀ x ∈ a, ∃ y ∈ b, key y = key x ∧ eq x y = true := by
  simp only [dictEq, Bool.and_eq_true, beq_iff_eq, List.all_eq_true] at h
  refine ⟨h.1, fun x hx => ?_⟩
  have := h.2 x hx
  cases hf : b.find? (fun y => key y == key x) with
  | none => simp [hf] at this
  | some y =>
    rw [hf] at this
    exact ⟨y, List.mem_of_find?_eq_some hf, by simpa using List.find?_some hf, this⟩

/-- converse, for a dictionary `b` with distinct keys -/
theorem dictEq_of {α} {key : α → Option String} {eq : α → α → Bool} {a b : List α} (hnd : (b.map key).Nodup)
    (hlen : a.length = b.length) (h : ∀ x ∈ a, ∃ y ∈ b, key y = key x ∧ eq x y = true) :
    dictEq key eq a b = true := by
  simp only [dictEq, Bool.and_eq_true, beq_iff_eq, List.all_eq_true]
  refine ⟨hlen, fun x hx => ?_⟩
  obtain ⟨y, hy, hk, he⟩ := h x hx
  have := find_self_of_nodup key b hnd y hy
  rw [hk] at this
  rw [this]; exact he

theorem dictEq_refl {α} (key : α → Option String) (eq : α → α → Bool) (a : List α)
    (hnd : (a.map key).Nodup) (heq : ∀ x ∈ a, eq x x = true) : dictEq key eq a a = true :=
  dictEq_of hnd rfl (fun x hx => ⟨x, hx, rfl, heq x hx⟩)

theorem listEqB_refl {α} (eq : α → α → Bool) (h : ∀ x, eq x x = true) : ∀ l : List α, listEqB eq l l = true
  | [] => rfl
  | x :: xs => by simp [listEqB, h x, listEqB_refl eq h xs]

/-- The list representation of the four dictionaries of a circuit has pairwise distinct keys (a Python `dict`
cannot be otherwise). -/
structure DictKeys (c : Circuit) : Prop where
  constKeys : (c.constants.map Val.name?).Nodup
  regKeys : (c.registers.map Val.name?).Nodup
  macroKeys : (c.macros.map (fun m => some m.name)).Nodup
  nativeKeys : (c.natives.map (fun g => some g.name)).Nodup

/-- A circuit as Python can hold it: dictionaries, and every `NamedQubit` has a source with a name. -/
structure WF (c : Circuit) : Prop extends DictKeys c where
  consts : ∀ v ∈ c.constants, wfVal v = true
  regs : ∀ v ∈ c.registers, wfVal v = true
  macros : ∀ m ∈ c.macros, wfStmt m.body = true
  body : wfStmt c.body = true

theorem circuitEq_refl (c : Circuit) (h : WF c) : circuitEq c c = true := by
  unfold circuitEq
  rw [dictEq_refl _ _ _ h.constKeys (fun v hv => valEq_refl v (h.consts v hv))]
  rw [dictEq_refl _ _ _ h.macroKeys (fun m hm => by simp [macroEq, paramsEq, stmtEq_refl m.body (h.macros m hm)])]
  rw [dictEq_refl _ _ _ h.nativeKeys (fun g _ => by simp [gateDefEq, paramsEq])]
  rw [dictEq_refl _ _ _ h.regKeys (fun v hv => valEq_refl v (h.regs v hv))]
  rw [stmtEq_refl c.body h.body]
  simp [listEqB_refl usepulsesEq (fun u => by simp [usepulsesEq])]

end Jaqal.PyEq
