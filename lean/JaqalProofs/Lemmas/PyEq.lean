import JaqalModel.Model.PyEq
import Batteries.Data.List.Perm
/-! Lemmas about the model of Python `==` (`Jaqal.PyEq`). -/
namespace Jaqal.PyEq
open Jaqal

/-! ## `andM` -/

@[simp] theorem andM_ok_true (b : M Bool) : andM (.ok true) b = b := rfl
@[simp] theorem andM_ok_false (b : M Bool) : andM (.ok false) b = .ok false := rfl
@[simp] theorem andM_pure_true (b : M Bool) : andM (pure true) b = b := rfl
@[simp] theorem andM_pure_false (b : M Bool) : andM (pure false) b = .ok false := rfl
@[simp] theorem andM_error (e : Err) (b : M Bool) : andM (.error e) b = .error e := rfl

theorem andM_eq_true {a b : M Bool} : andM a b = .ok true ↔ a = .ok true ∧ b = .ok true := by
  cases a with
  | error e => simp
  | ok x => cases x <;> simp

/-! ## Well-formed (constructible) values: the source of a `NamedQubit` has a `.name` -/

/-- every `NamedQubit` below has a source with a `.name` (the constructor reads `alias_from.size`) -/
def wfVal : Val → Bool
  | .const _ v => wfVal v
  | .qubit _ src idx => src.name?.isSome && wfVal src && wfVal idx
  | .regF _ size => wfVal size
  | .regA _ src => wfVal src
  | .regS _ src a b c => wfVal src && wfVal a && wfVal b && wfVal c
  | _ => true

theorem veq_refl (x : Num) : Num.veq x x = true := by
  cases x <;> simp [Num.veq]

theorem valEq_refl : ∀ v : Val, wfVal v = true → valEq v v = .ok true := by
  intro v
  induction v with
  | int x => intro _; simp [valEq, Num.veq, pure, Except.pure]
  | flt d => intro _; simp [valEq, Num.veq, pure, Except.pure]
  | none => intro _; simp [valEq, pure, Except.pure]
  | str s => intro _; simp [valEq, pure, Except.pure]
  | param n k => intro _; simp [valEq, pure, Except.pure]
  | const n v ih => intro h; simp only [wfVal] at h; simp [valEq, ih h]
  | qubit n src idx _ ih2 =>
    intro h
    simp only [wfVal, Bool.and_eq_true] at h
    obtain ⟨⟨h1, _⟩, h3⟩ := h
    obtain ⟨s, hs⟩ := Option.isSome_iff_exists.mp h1
    simp [valEq, hs, ih2 h3]
  | regF n size ih =>
    intro h; simp only [wfVal] at h
    simp [valEq, Val.name?, sizeAttr, Resolve.resolveSize, pure, Except.pure, bind, Except.bind, ih h]
  | regA n src ih => intro h; simp only [wfVal] at h; simp [valEq, ih h]
  | regS n src a b c ih1 ih2 ih3 ih4 =>
    intro h
    simp only [wfVal, Bool.and_eq_true] at h
    obtain ⟨⟨⟨h1, h2⟩, h3⟩, h4⟩ := h
    simp [valEq, ih1 h1, ih2 h2, ih3 h3, ih4 h4]


theorem argsEq_refl : ∀ args : List (String × Val), (args.all (fun a => wfVal a.2)) = true → argsEq args args = .ok true
  | [], _ => by simp [argsEq, pure, Except.pure]
  | a :: as, h => by
    simp only [List.all_cons, Bool.and_eq_true] at h
    simp [argsEq, valEq_refl a.2 h.1, argsEq_refl as h.2]

mutual
  def wfStmt : Stmt → Bool
    | .gate _ _ args => args.all (fun a => wfVal a.2)
    | .block _ _ it body => wfVal it && wfStmts body
    | .loop c b => wfVal c && wfStmt b
  def wfStmts : List Stmt → Bool
    | [] => true
    | s :: rest => wfStmt s && wfStmts rest
end

mutual
  theorem stmtEq_refl : ∀ s : Stmt, wfStmt s = true → stmtEq s s = .ok true
    | .gate n gd args, h => by
      simp only [wfStmt] at h
      simp [stmtEq, argsEq_refl args h]
    | .block par sub it body, h => by
      simp only [wfStmt, Bool.and_eq_true] at h
      simp [stmtEq, valEq_refl it h.1, stmtsEq_refl body h.2]
    | .loop c b, h => by
      simp only [wfStmt, Bool.and_eq_true] at h
      simp [stmtEq, valEq_refl c h.1, stmtEq_refl b h.2]
  theorem stmtsEq_refl : ∀ l : List Stmt, wfStmts l = true → stmtsEq l l = .ok true
    | [], _ => by simp [stmtsEq, pure, Except.pure]
    | s :: rest, h => by
      simp only [wfStmts, Bool.and_eq_true] at h
      simp [stmtsEq, stmtEq_refl s h.1, stmtsEq_refl rest h.2]
end

/-! ## `dict.__eq__` -/

theorem dictEq_go_refl {α} (key : α → Option String) (eq : α → α → M Bool) (b : List α)
    (hfind : ∀ x ∈ b, b.find? (fun y => key y == key x) = some x) :
    ∀ a : List α, (∀ x ∈ a, x ∈ b) → (∀ x ∈ a, eq x x = .ok true) → dictEq.go key eq b a = .ok true
  | [], _, _ => rfl
  | x :: xs, hsub, heq => by
    simp only [dictEq.go, hfind x (hsub x (by simp)), heq x (by simp), andM_ok_true]
    exact dictEq_go_refl key eq b hfind xs (fun y hy => hsub y (by simp [hy])) (fun y hy => heq y (by simp [hy]))

/-- in a list with pairwise distinct keys, looking a member's key up finds that member -/
theorem find_self_of_nodup {α} (key : α → Option String) :
    ∀ (b : List α), (b.map key).Nodup → ∀ x ∈ b, b.find? (fun y => key y == key x) = some x
  | [], _, x, hx => by simp at hx
  | y :: ys, hnd, x, hx => by
    simp only [List.map_cons, List.nodup_cons] at hnd
    rcases List.mem_cons.mp hx with rfl | hx'
    · simp
    · have hne : key y ≠ key x := fun h => hnd.1 (h ▸ List.mem_map_of_mem hx')
      simp [hne, find_self_of_nodup key ys hnd.2 x hx']

theorem dictEq_refl {α} (key : α → Option String) (eq : α → α → M Bool) (a : List α)
    (hnd : (a.map key).Nodup) (heq : ∀ x ∈ a, eq x x = .ok true) : dictEq key eq a a = .ok true := by
  simp only [dictEq, bne_self_eq_false, Bool.false_eq_true, ↓reduceIte]
  exact dictEq_go_refl key eq a (find_self_of_nodup key a hnd) a (fun _ h => h) heq

theorem listEqB_refl {α} (eq : α → α → Bool) (h : ∀ x, eq x x = true) : ∀ l : List α, listEqB eq l l = true
  | [] => rfl
  | x :: xs => by simp [listEqB, h x, listEqB_refl eq h xs]

/-- A circuit as Python can hold it: the four dictionaries have distinct keys, and every value is constructible. -/
structure WF (c : Circuit) : Prop where
  constKeys : (c.constants.map Val.name?).Nodup
  regKeys : (c.registers.map Val.name?).Nodup
  macroKeys : (c.macros.map (fun m => some m.name)).Nodup
  nativeKeys : (c.natives.map (fun g => some g.name)).Nodup
  consts : ∀ v ∈ c.constants, wfVal v = true
  regs : ∀ v ∈ c.registers, wfVal v = true
  macros : ∀ m ∈ c.macros, wfStmt m.body = true
  body : wfStmt c.body = true

theorem circuitEq_refl (c : Circuit) (h : WF c) : circuitEq c c = .ok true := by
  unfold circuitEq
  rw [dictEq_refl _ _ _ h.constKeys (fun v hv => valEq_refl v (h.consts v hv))]
  rw [dictEq_refl _ _ _ h.macroKeys (fun m hm => by simp [macroEq, paramsEq, stmtEq_refl m.body (h.macros m hm)])]
  rw [dictEq_refl _ _ _ h.nativeKeys (fun g _ => by simp [gateDefEq, paramsEq, pure, Except.pure])]
  rw [dictEq_refl _ _ _ h.regKeys (fun v hv => valEq_refl v (h.regs v hv))]
  rw [stmtEq_refl c.body h.body]
  simp [listEqB_refl usepulsesEq (fun u => by simp [usepulsesEq]), pure, Except.pure]

end Jaqal.PyEq
