import JaqalProofs.Lemmas.BuiltWellFormed
/-!
# Every gate statement of a built circuit passed its definition's validation, every loop count `_validate_count`

`built_fits : build cfg e = .ok c → QS c.body ∧ ∀ m ∈ c.macros, QS m.body` — any configuration, any S-expression (parser
output or the S-expression with embedded objects of the fill-in passes).  Every gate statement is made by `AbstractGate.call`
(`callDef`: directly, from the gate memo, or when a macro body is re-bound), which runs `param.validate(arg)` for every parameter;
every `LoopStatement` by `build_loop`, which runs `_validate_count`.

The induction is that of `built_gateShape` (`Lemmas/BuiltWellFormed.lean`, agent c10) with another predicate.
-/
namespace Jaqal.Builder
open Jaqal

/-! ### validated statements -/

mutual
/-- every gate statement passed the validation of its definition (`param.validate` for every parameter), every loop count
`_validate_count` -/
def QS : Stmt → Prop
  | .gate _ gd args => GateDef.validateAll gd.params args = .ok ()
  | .block _ _ _ body => QSL body
  | .loop c b => validateCount c = .ok () ∧ QS b
def QSL : List Stmt → Prop
  | [] => True
  | s :: ss => QS s ∧ QSL ss
end

theorem qsl_mem : ∀ {l : List Stmt}, QSL l ↔ ∀ s ∈ l, QS s
  | [] => by simp [QSL]
  | s :: r => by simp [QSL, qsl_mem (l := r)]

def ObjFit : Obj → Prop
  | .stmt s => QS s
  | .macro m => QS m.body
  | _ => True

def MemoFit (m : Memo) : Prop := ∀ k s, (k, s) ∈ m → QS s

theorem callDef_fit {gd : GateDef} {vals : List Val} {s : Stmt} (h : callDef gd vals = .ok s) : QS s := by
  unfold callDef at h
  simp only [bind, Except.bind] at h
  split at h
  · simp [throw_eq] at h
  · simp only [pure, Except.pure] at h
    split at h
    · simp [throw_eq] at h
    · split at h
      · simp at h
      · rename_i u hval
        cases h
        cases u
        exact hval

theorem buildGate_fit {cfg : Config} {mode : KeyMode} {ctx : Ctx} {recV : BSx → M Val} {args : List BSx} {st st1 : St}
    {s : Stmt} (hi : MemoFit st.memo) (h : buildGate cfg mode ctx recV args st = .ok (s, st1)) :
    MemoFit st1.memo ∧ QS s := by
  unfold buildGate at h
  split at h
  · simp [throw_eq] at h
  · rename_i name gargs
    obtain ⟨_, _, h⟩ := bind_ok h
    unfold buildGateMemo at h
    by_cases hoff : mode = .off
    · simp only [hoff, if_true] at h
      obtain ⟨p, hb, h1⟩ := bind_ok h
      obtain ⟨s', g'⟩ := p
      cases h1
      obtain ⟨e, _, _, hcall⟩ := buildGateFresh_ok hb
      obtain ⟨vals, _, hc⟩ := bind_ok hcall
      exact ⟨hi, callDef_fit hc⟩
    · simp only [hoff, if_false] at h
      cases hfind : Memo.find mode.numByValue st.memo (mkKey mode ctx name gargs) with
      | some g =>
        simp only [hfind, pure, Except.pure] at h
        cases h
        obtain ⟨k, hk, _⟩ := Memo.find_some hfind
        exact ⟨hi, hi k _ hk⟩
      | none =>
        simp only [hfind] at h
        obtain ⟨p, hb, h1⟩ := bind_ok h
        obtain ⟨s', g'⟩ := p
        cases h1
        obtain ⟨e, _, _, hcall⟩ := buildGateFresh_ok hb
        obtain ⟨vals, _, hc⟩ := bind_ok hcall
        have hs := callDef_fit hc
        refine ⟨?_, hs⟩
        intro k s0 hk
        rcases List.mem_cons.1 hk with heq | hk
        · cases heq; exact hs
        · exact hi k s0 hk
  · simp [throw_eq] at h

theorem asStmts_fit : ∀ {os : List Obj} {ss : List Stmt}, asStmts os = .ok ss →
    (∀ o ∈ os, ObjFit o) → QSL ss := by
  intro os
  induction os with
  | nil => intro ss h _; simp [asStmts, pure, Except.pure] at h; subst h; trivial
  | cons o os ih =>
    intro ss h ho
    cases o with
    | stmt s0 =>
      simp only [asStmts] at h
      obtain ⟨r, hr, h1⟩ := bind_ok h
      cases h1
      exact ⟨ho (.stmt s0) (by simp), ih hr (fun o' ho' => ho o' (by simp [ho']))⟩
    | _ => simp [asStmts, throw_eq] at h

theorem mapMSt_fit {fA : BSx → St → M (Obj × St)} : ∀ (l : List BSx) (st st1 : St) (os : List Obj),
    (∀ x ∈ l, ∀ s s1 o, MemoFit s.memo → fA x s = .ok (o, s1) → MemoFit s1.memo ∧ ObjFit o) →
    MemoFit st.memo → mapMSt fA l st = .ok (os, st1) → MemoFit st1.memo ∧ ∀ o ∈ os, ObjFit o := by
  intro l
  induction l with
  | nil =>
    intro st st1 os _ hi h
    simp only [mapMSt, pure, Except.pure] at h
    cases h
    exact ⟨hi, fun o ho => (by cases ho)⟩
  | cons x xs ih =>
    intro st st1 os hf hi h
    simp only [mapMSt] at h
    obtain ⟨p, hp, h1⟩ := bind_ok h
    obtain ⟨o, s1⟩ := p
    obtain ⟨q, hq, h2⟩ := bind_ok h1
    obtain ⟨os', s2⟩ := q
    cases h2
    have hp1 := hf x (by simp) st s1 o hi hp
    obtain ⟨hi2, hos⟩ := ih s1 _ os' (fun y hy => hf y (by simp [hy])) hp1.1 hq
    refine ⟨hi2, ?_⟩
    intro o' ho'
    rcases List.mem_cons.1 ho' with rfl | ho'
    · exact hp1.2
    · exact hos o' ho'

theorem anyStep_fit {cfg : Config} {mode : KeyMode} {recA : Ctx → BSx → St → M (Obj × St)} {recV : BSx → M Val}
    {ctx : Ctx} {l : List BSx} {st st1 : St} {o : Obj}
    (hrec : ∀ c x, x ∈ l → ∀ s s1 o, MemoFit s.memo → recA c x s = .ok (o, s1) → MemoFit s1.memo ∧ ObjFit o)
    (hi : MemoFit st.memo) (h : anyStep cfg mode recA recV ctx l st = .ok (o, st1)) :
    MemoFit st1.memo ∧ ObjFit o := by
  unfold anyStep at h
  match l, hrec, h with
  | [], _, h => simp [throw_eq] at h
  | .str cmd :: args, hrec, h =>
    have hrec' : ∀ c x, x ∈ args → ∀ s s1 o, MemoFit s.memo → recA c x s = .ok (o, s1) → MemoFit s1.memo ∧ ObjFit o :=
      fun c x hx => hrec c x (by simp [hx])
    have hblock : ∀ (c : Ctx) (as : List BSx) (par sub : Bool) (it : Val), (∀ x ∈ as, x ∈ args) →
        ∀ (os : List Obj) (s1 : St) (ss : List Stmt), mapMSt (recA c) as st = .ok (os, s1) → asStmts os = .ok ss →
        MemoFit s1.memo ∧ ObjFit (.stmt (.block par sub it ss)) := by
      intro c as par sub it has os s1 ss hmap hss
      obtain ⟨hi1, hos⟩ := mapMSt_fit as st s1 os (fun x hx => hrec' c x (has x hx)) hi hmap
      exact ⟨hi1, asStmts_fit hss hos⟩
    by_cases h1 : cmd = "gate"
    · simp only [h1, if_true] at h
      obtain ⟨p, hp, h2⟩ := bind_ok h
      cases h2
      exact buildGate_fit hi hp
    simp only [h1, if_false] at h
    by_cases h2 : cmd = "sequential_block" ∨ cmd = "block"
    · simp only [h2, if_true] at h
      obtain ⟨p, hp, h3⟩ := bind_ok h
      obtain ⟨ss, hss, h4⟩ := bind_ok h3
      cases h4
      exact hblock { ctx with inSeq := true } args false false (.int 1) (fun _ hx => hx) p.1 p.2 _
        (by cases p; exact hp) hss
    simp only [h2, if_false] at h
    by_cases h3 : cmd = "parallel_block"
    · simp only [h3, if_true] at h
      obtain ⟨p, hp, h3⟩ := bind_ok h
      obtain ⟨ss, hss, h4⟩ := bind_ok h3
      cases h4
      exact hblock { ctx with inPar := true } args true false (.int 1) (fun _ hx => hx) p.1 p.2 _
        (by cases p; exact hp) hss
    simp only [h3, if_false] at h
    by_cases h4 : cmd = "unscheduled_block"
    · simp only [h4, if_true] at h
      obtain ⟨p, hp, h3⟩ := bind_ok h
      obtain ⟨ss, hss, h4⟩ := bind_ok h3
      cases h4
      exact hblock ctx args false false (.int 1) (fun _ hx => hx) p.1 p.2 _ (by cases p; exact hp) hss
    simp only [h4, if_false] at h
    by_cases h5 : cmd = "subcircuit_block"
    · simp only [h5, if_true] at h
      split at h
      · simp [throw_eq] at h
      · obtain ⟨p, hp, h2⟩ := bind_ok h
        split at h2
        · simp [throw_eq] at h2
        · obtain ⟨count, _, h3⟩ := bind_ok h2
          obtain ⟨_, _, h4⟩ := bind_ok h3
          obtain ⟨ss, hss, h5⟩ := bind_ok h4
          cases h5
          exact hblock { ctx with inSub := true } _ false true count (fun x hx => List.mem_of_mem_tail hx) p.1 p.2 _
            (by cases p; exact hp) hss
    simp only [h5, if_false] at h
    by_cases h6 : cmd = "loop"
    · simp only [h6, if_true] at h
      split at h
      · rename_i countE blockE
        obtain ⟨count, _, h2⟩ := bind_ok h
        obtain ⟨p, hp, h3⟩ := bind_ok h2
        have hpost := hrec' ctx blockE (by simp) st p.2 p.1 hi (by cases p; exact hp)
        split at h3
        · rename_i b hb
          obtain ⟨u, hvc, h4⟩ := bind_ok h3
          cases h4
          refine ⟨hpost.1, ?_⟩
          have := hpost.2
          rw [hb] at this
          exact ⟨by cases u; exact hvc, this⟩
        · obtain ⟨u, hvc, h4⟩ := bind_ok h3
          cases h4
          exact ⟨hpost.1, ⟨by cases u; exact hvc, trivial⟩⟩
        · simp [throw_eq] at h3
      · simp [throw_eq] at h
    simp only [h6, if_false] at h
    by_cases h7 : cmd = "case"
    · simp only [h7, if_true] at h
      split at h
      · rename_i stateE blockE
        obtain ⟨_, _, h2⟩ := bind_ok h
        obtain ⟨p, hp, h3⟩ := bind_ok h2
        cases h3
        have hpost := hrec' ctx blockE (by simp) st p.2 p.1 hi (by cases p; exact hp)
        exact ⟨hpost.1, trivial⟩
      · simp [throw_eq] at h
    simp only [h7, if_false] at h
    by_cases h8 : cmd = "branch"
    · simp only [h8, if_true] at h
      obtain ⟨a, _, h2⟩ := bind_ok h
      simp [throw_eq] at h2
    simp only [h8, if_false] at h
    by_cases h9 : cmd = "macro"
    · simp only [h9, if_true] at h
      split at h
      · simp [throw_eq] at h
      · split at h
        · rename_i nameE rest _
          obtain ⟨a, _, h2⟩ := bind_ok h
          split at h2
          · simp [throw_eq, bind, Except.bind] at h2
          · obtain ⟨params, _, h3⟩ := bind_ok h2
            split at h3
            · simp [throw_eq] at h3
            · rename_i blockE hlast
              obtain ⟨p, hp, h4⟩ := bind_ok h3
              have hmem : blockE ∈ rest := List.mem_of_getLast? hlast
              have hpost := hrec' (ctx.withParams params) blockE (by simp [hmem]) st p.2 p.1 hi (by cases p; exact hp)
              split at h4
              · rename_i par sub it body hb
                cases h4
                refine ⟨hpost.1, ?_⟩
                have := hpost.2
                rw [hb] at this
                exact this
              · simp [throw_eq] at h4
        · simp [throw_eq] at h
    simp only [h9, if_false] at h
    by_cases h10 : cmd = "usepulses"
    · simp only [h10, if_true] at h
      split at h
      · split at h
        · simp [throw_eq, bind, Except.bind] at h
        · split at h
          · cases h; exact ⟨hi, trivial⟩
          · simp [throw_eq] at h
      · simp [throw_eq] at h
    simp only [h10, if_false] at h
    by_cases h11 : cmd = "circuit"
    · simp [h11, throw_eq] at h
    simp only [h11, if_false] at h
    obtain ⟨v, _, h2⟩ := bind_ok h
    cases h2
    exact ⟨hi, trivial⟩
  | .int _ :: _, _, h | .flt _ :: _, _, h | .none :: _, _, h | .list _ :: _, _, h | .val _ :: _, _, h =>
    simp [throw_eq] at h

theorem buildAny_fit {cfg : Config} {mode : KeyMode} : ∀ (f : Nat) (ctx : Ctx) (e : BSx) (st st1 : St) (o : Obj),
    MemoFit st.memo → buildAny cfg mode f ctx e st = .ok (o, st1) → MemoFit st1.memo ∧ ObjFit o := by
  intro f
  induction f with
  | zero =>
    intro ctx e st st1 o hi h
    cases e with
    | list l => simp [buildAny, throw_eq] at h
    | _ =>
      rw [buildAny_atom _ _ _ _ _ _ (by intro l; simp)] at h
      obtain ⟨v, _, h2⟩ := bind_ok h
      cases h2
      exact ⟨hi, trivial⟩
  | succ f ih =>
    intro ctx e st st1 o hi h
    cases e with
    | list l =>
      refine anyStep_fit ?_ hi (show anyStep cfg mode (buildAny cfg mode f) (buildVal ctx f) ctx l st = _ from h)
      intro c x _ s s1 o' his hr
      exact ih c x s s1 o' his hr
    | _ =>
      rw [buildAny_atom _ _ _ _ _ _ (by intro l; simp)] at h
      obtain ⟨v, _, h2⟩ := bind_ok h
      cases h2
      exact ⟨hi, trivial⟩

/-! ### `rebuild_macro_in_context` -/

mutual
theorem rebuildStmt_fit (g : GCtx) : ∀ (s : Stmt) (ch : Bool) (s' : Stmt),
    rebuildStmt g s = .ok (ch, s') → QS s → QS s'
  | .gate name gd args, ch, s', h, hs => by
    simp only [rebuildStmt] at h
    split at h
    · split at h
      · split at h
        · cases h; exact hs
        · simp [throw_eq] at h
      · obtain ⟨s2, hcall, h2⟩ := bind_ok h
        cases h2
        exact callDef_fit hcall
    · cases h; exact hs
  | .block par sub it body, ch, s', h, hs => by
    simp only [rebuildStmt] at h
    obtain ⟨p, hp, h2⟩ := bind_ok h
    obtain ⟨c, body'⟩ := p
    have := rebuildList_fit g body c body' hp hs
    split at h2
    · cases h2; exact this
    · cases h2; exact hs
  | .loop c b, ch, s', h, hs => by
    simp only [rebuildStmt] at h
    obtain ⟨p, hp, h2⟩ := bind_ok h
    obtain ⟨c1, b'⟩ := p
    have := rebuildStmt_fit g b c1 b' hp hs.2
    split at h2
    · cases h2; exact ⟨hs.1, this⟩
    · cases h2; exact hs
theorem rebuildList_fit (g : GCtx) : ∀ (l : List Stmt) (ch : Bool) (l' : List Stmt),
    rebuildList g l = .ok (ch, l') → QSL l → QSL l'
  | [], ch, l', h, _ => by simp only [rebuildList, pure, Except.pure] at h; cases h; trivial
  | s :: ss, ch, l', h, hs => by
    simp only [rebuildList] at h
    obtain ⟨p, hp, h2⟩ := bind_ok h
    obtain ⟨c1, s'⟩ := p
    obtain ⟨q, hq, h3⟩ := bind_ok h2
    obtain ⟨c2, ss'⟩ := q
    cases h3
    exact ⟨rebuildStmt_fit g s c1 _ hp hs.1, rebuildList_fit g ss c2 ss' hq hs.2⟩
end

theorem rebuildMacro_fit {g : GCtx} {m m' : Macro} (h : rebuildMacro g m = .ok m') (hm : QS m.body) :
    QS m'.body := by
  unfold rebuildMacro at h
  obtain ⟨p, hp, h2⟩ := bind_ok h
  obtain ⟨ch, b⟩ := p
  have := rebuildStmt_fit g m.body ch b hp hm
  simp only [pure, Except.pure] at h2
  cases h2
  split
  · exact this
  · exact hm

/-! ### the loop of `build_circuit` -/

/-- the invariant: shapes of everything built so far, and every macro's name bound to that macro -/
structure FInv (acc : Acc) : Prop where
  memo : MemoFit acc.st.memo
  stmts : ∀ s ∈ acc.stmts, QS s
  macros : ∀ m ∈ acc.macros, QS m.body
  bound : ∀ m ∈ acc.macros, acc.st.gctx.lookup m.name = some (.macro m)

theorem stepTail_fit {cfg : Config} {mode : KeyMode} (hmode : mode ≠ .noReset)
    {inject : Option (List (String × GateDef))} {acc a1 : Acc} {o : Obj} {st : St}
    (ha : FInv acc) (hx : GExt acc.st.gctx st.gctx) (hm : MemoFit st.memo) (ho : ObjFit o)
    (h : stepTail cfg mode inject acc o st = .ok a1) : FInv a1 := by
  have hbound : ∀ m ∈ acc.macros, st.gctx.lookup m.name = some (.macro m) := fun m hmm => hx _ _ (ha.bound m hmm)
  cases o with
  | val v =>
    cases v <;> simp only [stepTail, throw_eq] at h <;> first
      | cases h
      | (obtain ⟨c, _, h2⟩ := bind_ok h
         cases h2
         exact ⟨hm, ha.stmts, ha.macros, hbound⟩)
  | «macro» m =>
    simp only [stepTail] at h
    obtain ⟨m', hm', h2⟩ := bind_ok h
    have hsh := rebuildMacro_fit hm' ho
    by_cases hl : (List.lookup m'.name st.gctx).isSome = true
    · simp [hl, throw_eq, bind, Except.bind] at h2
    · simp [hl, pure, Except.pure] at h2
      have hnone : List.lookup m'.name st.gctx = none := by
        cases hq : List.lookup m'.name st.gctx with
        | none => rfl
        | some e => simp [hq] at hl
      rw [← h2]
      refine ⟨hm, ha.stmts, ?_, ?_⟩
      · intro x hxm
        rcases List.mem_append.1 hxm with hxm | hxm
        · exact ha.macros x hxm
        · simp only [List.mem_singleton] at hxm; subst hxm; exact hsh
      · intro x hxm
        simp only [List.lookup]
        rcases List.mem_append.1 hxm with hxm | hxm
        · have hb := hbound x hxm
          have hne : (x.name == m'.name) = false := by
            cases hq : (x.name == m'.name) with
            | false => rfl
            | true =>
              have : x.name = m'.name := by simpa using hq
              rw [this, hnone] at hb; cases hb
          simp [hne, hb]
        · simp only [List.mem_singleton] at hxm; subst hxm; simp
  | stmt s =>
    simp only [stepTail, pure, Except.pure] at h
    cases h
    refine ⟨hm, ?_, ha.macros, hbound⟩
    intro x hxm
    rcases List.mem_append.1 hxm with hxm | hxm
    · exact ha.stmts x hxm
    · simp only [List.mem_singleton] at hxm; subst hxm; exact ho
  | case => simp [stepTail, throw_eq] at h
  | usepulses n =>
    simp only [stepTail] at h
    by_cases hauto : cfg.autoload = true
    · simp only [hauto, if_true] at h
      split at h
      · simp [throw_eq] at h
      · rename_i hcond
        split at h
        · cases h
        · simp only [pure, Except.pure] at h
          cases h
          have hmode' : (mode != KeyMode.noReset) = true := by simpa using hmode
          simp only [hmode', Bool.true_and, Bool.or_eq_true, Bool.not_eq_true', not_or, Bool.not_eq_false] at hcond
          have h1 : acc.stmts = [] := by simpa using hcond.1
          have h2 : acc.macros = [] := by simpa using hcond.2
          refine ⟨?_, ?_, ?_, ?_⟩
          · intro k s hk
            cases hk
          · intro s hs; exact ha.stmts s hs
          · intro m hmm; exact ha.macros m hmm
          · intro m hmm; rw [h2] at hmm; cases hmm
    · simp only [hauto, Bool.false_eq_true, if_false, pure, Except.pure] at h
      cases h
      exact ⟨hm, ha.stmts, ha.macros, hbound⟩

theorem circuitLoop_fit {cfg : Config} {mode : KeyMode} (hmode : mode ≠ .noReset)
    {inject : Option (List (String × GateDef))} {fuel : Nat} :
    ∀ (cs : List BSx) (acc a1 : Acc), GInv cfg acc → FInv acc → circuitLoop cfg mode inject fuel acc cs = .ok a1 →
      GInv cfg a1 ∧ FInv a1 := by
  intro cs
  induction cs with
  | nil => intro acc a1 hg ha h; simp only [circuitLoop, pure, Except.pure] at h; cases h; exact ⟨hg, ha⟩
  | cons c cs ih =>
    intro acc a1 hg ha h
    simp only [circuitLoop, circuitStep] at h
    obtain ⟨a2, hstep, h2⟩ := bind_ok h
    obtain ⟨p, hp, h3⟩ := bind_ok hstep
    obtain ⟨o, st⟩ := p
    have hpost := buildAny_known fuel acc.ctx c acc.st st o hg.b.k hp
    have hsh := buildAny_fit fuel acc.ctx c acc.st st o ha.memo hp
    exact ih a2 a1 (stepTail_general hmode hg hpost (fun ho => buildAny_pure_obj hp ho) h3)
      (stepTail_fit hmode ha hpost.ext hsh.1 hsh.2 h3) h2

/-! ### the theorem -/

/-- **`built_fits`** -/
theorem built_fits (cfg : Config) (e : BSx) (c : Circuit) (hb : build cfg e = .ok c) :
    QS c.body ∧ ∀ m ∈ c.macros, QS m.body := by
  unfold build buildWith at hb
  obtain ⟨inject, hinj, h1⟩ := bind_ok hb
  unfold buildCore at h1
  split at h1
  · rename_i children
    obtain ⟨acc, hloop, h3⟩ := bind_ok h1
    simp only [pure, Except.pure] at h3
    cases h3
    have hnat : NatOK (inject.getD []) := by
      unfold Config.inject at hinj
      cases hn : cfg.natives with
      | none => simp [hn, pure, Except.pure] at hinj; subst hinj; exact ⟨fun p hp => (by cases hp), by simp⟩
      | some gs =>
        simp only [hn] at hinj
        obtain ⟨d, hd, h4⟩ := bind_ok hinj
        simp only [pure, Except.pure] at h4
        cases h4
        exact normNatives_natOK hd
    obtain ⟨_, hS⟩ : GInv cfg acc ∧ FInv acc := by
      refine circuitLoop_fit (by decide) children _ acc ?_ ?_ hloop
      · refine ⟨HInv.toBInv ?_, fun _ _ => ?_⟩ <;> exact ⟨rfl, rfl, rfl, rfl, hnat⟩
      · exact ⟨fun k s hk => (by cases hk), fun s hs => (by cases hs), fun m hm => (by cases hm), fun m hm => (by cases hm)⟩
    exact ⟨by simp only [Acc.toCircuit, QS]; exact qsl_mem.2 hS.stmts, hS.macros⟩
  · obtain ⟨_, _, h2⟩ := bind_ok h1
    simp [throw_eq] at h2

end Jaqal.Builder

#print axioms Jaqal.Builder.built_fits
