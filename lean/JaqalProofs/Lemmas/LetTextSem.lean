import JaqalProofs.Lemmas.LetText
import JaqalProofs.Lemmas.FillInSem
import JaqalProofs.Lemmas.PassesEnv
/-!
# "The same circuit except for the declared values of the overridden lets" and its meaning

`reval ov v` replaces, inside a value, the declared value of every let-constant the override dictionary binds by the overriding
value (read as a `let` line reads it: an integral float is the integer).  `revalC ov c` does so everywhere in a circuit.

`meaning_reval`: the meaning of `c` under the overrides IS the meaning of `revalC ov c` under no override — the specification
looks a constant up in the environment first and falls back to the declared value.
-/
set_option linter.unusedVariables false
namespace Jaqal.FillIn
open Jaqal Jaqal.Builder Jaqal.Sem

/-- the declared value of an overridden let replaced, everywhere inside a value -/
def reval (ov : List (String × Num)) : Val → Val
  | .const n d =>
    match lookupOv ov n with
    | some x => .const n (Val.ofNum (Num.asInteger x))
    | none => .const n (reval ov d)
  | .qubit n src idx => .qubit n (reval ov src) (reval ov idx)
  | .regF n size => .regF n (reval ov size)
  | .regA n src => .regA n (reval ov src)
  | .regS n src a b s => .regS n (reval ov src) (reval ov a) (reval ov b) (reval ov s)
  | v => v

def revalArgs (ov : List (String × Num)) (args : List (String × Val)) : List (String × Val) :=
  args.map (fun a => (a.1, reval ov a.2))

mutual
def revalStmt (ov : List (String × Num)) : Stmt → Stmt
  | .gate n gd args => .gate n gd (revalArgs ov args)
  | .block par sub it body => .block par sub (reval ov it) (revalStmts ov body)
  | .loop c b => .loop (reval ov c) (revalStmt ov b)
def revalStmts (ov : List (String × Num)) : List Stmt → List Stmt
  | [] => []
  | s :: ss => revalStmt ov s :: revalStmts ov ss
end

def revalMacro (ov : List (String × Num)) (m : Macro) : Macro := { m with body := revalStmt ov m.body }

def revalC (ov : List (String × Num)) (c : Circuit) : Circuit :=
  { c with constants := c.constants.map (reval ov), registers := c.registers.map (reval ov),
           macros := c.macros.map (revalMacro ov), body := revalStmt ov c.body }

/-! ### `reval` keeps the constructor and the name -/

theorem reval_const (ov : List (String × Num)) (n : String) (d : Val) : ∃ y, reval ov (.const n d) = .const n y := by
  simp only [reval]
  cases lookupOv ov n with
  | some x => exact ⟨_, rfl⟩
  | none => exact ⟨_, rfl⟩

theorem reval_eq_none {ov : List (String × Num)} {v : Val} : reval ov v = .none ↔ v = .none := by
  cases v <;> simp [reval]
  rename_i n d
  cases lookupOv ov n <;> simp

theorem reval_int {ov : List (String × Num)} {v : Val} {i : Int} : reval ov v = .int i ↔ v = .int i := by
  cases v <;> simp [reval]
  rename_i n d
  cases lookupOv ov n <;> simp

/-! ### Meaning -/

theorem evalNum_reval (ov : List (String × Num)) (b : Bind) :
    ∀ v : Val, evalNum (normOv ov) b v = evalNum [] b (reval ov v) := by
  intro v
  induction v with
  | const n d ih =>
    simp only [evalNum, reval, lookup_normOv]
    cases h : lookupOv ov n with
    | some x =>
      simp only [Option.map_some, evalNum, Sem.lookup, List.find?_nil, Option.map_none, evalNum_ofNum]
      rfl
    | none =>
      simp only [Option.map_none, evalNum, Sem.lookup, List.find?_nil]
      exact ih
  | int _ => rfl
  | flt _ => rfl
  | param _ _ => rfl
  | none => rfl
  | str _ => rfl
  | qubit _ _ _ _ _ => rfl
  | regF _ _ _ => rfl
  | regA _ _ _ => rfl
  | regS _ _ _ _ _ _ _ _ _ => rfl

theorem evalInt_reval (ov : List (String × Num)) (b : Bind) (v : Val) :
    evalInt (normOv ov) b v = evalInt [] b (reval ov v) := by
  simp only [evalInt, evalNum_reval]

/-- a slice bound: `None` reads as the default -/
def optInt (ρ : Env) (b : Bind) (k : M Int) (v : Val) : M Int :=
  match v with
  | .none => k
  | w => evalInt ρ b w

theorem optInt_reval (ov : List (String × Num)) (b : Bind) (k : M Int) (v : Val) :
    optInt (normOv ov) b k v = optInt [] b k (reval ov v) := by
  cases v with
  | none => rfl
  | const n d =>
    obtain ⟨y, hy⟩ := reval_const ov n d
    have := evalInt_reval ov b (.const n d)
    rw [hy] at this ⊢
    exact this
  | int _ => rfl
  | flt _ => rfl
  | param _ _ => rfl
  | str _ => rfl
  | qubit _ _ _ => exact evalInt_reval ov b _
  | regF _ _ => exact evalInt_reval ov b _
  | regA _ _ => exact evalInt_reval ov b _
  | regS _ _ _ _ _ => exact evalInt_reval ov b _

theorem evalReg_regS (ρ : Env) (b : Bind) (n : String) (src start stop step : Val) :
    evalReg ρ b (.regS n src start stop step) = (do
      let l ← evalReg ρ b src
      let a ← optInt ρ b (pure 0) start
      let s ← optInt ρ b (pure 1) step
      let e ← optInt ρ b (pure (l.length : Int)) stop
      if s = 0 then .error (.jaqal "zero step") else
      (rangeList a e s).mapM (fun i => match nth? l i with
        | some q => pure q
        | none => .error (.jaqal "slice leaves its source"))) := by
  simp only [evalReg, optInt]
  cases start <;> cases stop <;> cases step <;> rfl

theorem evalReg_reval (ov : List (String × Num)) (b : Bind) :
    ∀ v : Val, evalReg (normOv ov) b v = evalReg [] b (reval ov v) := by
  intro v
  induction v with
  | regF n size _ => simp only [evalReg, reval, evalInt_reval]
  | regA n src ih => simp only [evalReg, reval]; exact ih
  | regS n src a e s ih _ _ _ =>
    simp only [reval, evalReg_regS, ih, optInt_reval]
  | const n d _ =>
    obtain ⟨y, hy⟩ := reval_const ov n d
    rw [hy]; rfl
  | int _ => rfl
  | flt _ => rfl
  | param _ _ => rfl
  | none => rfl
  | str _ => rfl
  | qubit _ _ _ _ _ => rfl

theorem evalQubit_reval (ov : List (String × Num)) (b : Bind) (v : Val) :
    evalQubit (normOv ov) b v = evalQubit [] b (reval ov v) := by
  cases v with
  | qubit n src idx => simp only [evalQubit, reval, evalInt_reval, evalReg_reval]
  | const n d =>
    obtain ⟨y, hy⟩ := reval_const ov n d
    rw [hy]; rfl
  | int _ => rfl
  | flt _ => rfl
  | param _ _ => rfl
  | none => rfl
  | str _ => rfl
  | regF _ _ => rfl
  | regA _ _ => rfl
  | regS _ _ _ _ _ => rfl

theorem evalArg_reval (ov : List (String × Num)) (b : Bind) (v : Val) :
    evalArg (normOv ov) b v = evalArg [] b (reval ov v) := by
  cases v with
  | qubit n src idx =>
    have := evalQubit_reval ov b (.qubit n src idx)
    simp only [reval] at this
    simp only [evalArg, reval, this]
  | const n d =>
    obtain ⟨y, hy⟩ := reval_const ov n d
    have := evalNum_reval ov b (.const n d)
    rw [hy] at this ⊢
    simp only [evalArg, this]
  | int _ => rfl
  | flt _ => rfl
  | param _ _ => rfl
  | none => rfl
  | str _ => rfl
  | regF n size =>
    have := evalReg_reval ov b (.regF n size)
    simp only [reval] at this
    simp only [evalArg, reval, this]
  | regA n src =>
    have := evalReg_reval ov b (.regA n src)
    simp only [reval] at this
    simp only [evalArg, reval, this]
  | regS n src a e s =>
    have := evalReg_reval ov b (.regS n src a e s)
    simp only [reval] at this
    simp only [evalArg, reval, this]

theorem mapM_evalArg_reval (ov : List (String × Num)) (b : Bind) : ∀ args : List (String × Val),
    args.mapM (fun a => evalArg (normOv ov) b a.2) = (revalArgs ov args).mapM (fun a => evalArg [] b a.2) := by
  intro args
  induction args with
  | nil => rfl
  | cons a args ih =>
    simp only [revalArgs, List.map_cons, List.mapM_cons] at ih ⊢
    rw [ih, evalArg_reval]

mutual
theorem evalStmt_reval (ov : List (String × Num)) (md : MacroDen) (b : Bind) :
    ∀ s : Stmt, evalStmt (normOv ov) md b s = evalStmt [] md b (revalStmt ov s)
  | .gate n gd args => by
    simp only [revalStmt, evalStmt, mapM_evalArg_reval]
  | .block par sub it body => by
    simp only [revalStmt, evalStmt, evalInt_reval, evalStmts_reval ov md b body]
  | .loop c body => by
    simp only [revalStmt, evalStmt, evalInt_reval, evalStmt_reval ov md b body]
theorem evalStmts_reval (ov : List (String × Num)) (md : MacroDen) (b : Bind) :
    ∀ l : List Stmt, evalStmts (normOv ov) md b l = evalStmts [] md b (revalStmts ov l)
  | [] => rfl
  | s :: ss => by
    simp only [revalStmts, evalStmts, evalStmt_reval ov md b s, evalStmts_reval ov md b ss]
end

/-- one step of `denoteMacros` -/
def denStep (ρ : Env) (md : MacroDen) (m : Macro) : MacroDen :=
  md ++ [(m.name, (m.params.length, fun args => evalStmt ρ md (m.params.map (·.1) |>.zip args) m.body))]

theorem denStep_reval (ov : List (String × Num)) (md : MacroDen) (m : Macro) :
    denStep (normOv ov) md m = denStep [] md (revalMacro ov m) := by
  simp only [denStep, revalMacro]
  congr 4
  funext args
  exact evalStmt_reval ov md _ m.body

theorem foldl_denStep_reval (ov : List (String × Num)) : ∀ (ms : List Macro) (acc : MacroDen),
    ms.foldl (denStep (normOv ov)) acc = (ms.map (revalMacro ov)).foldl (denStep []) acc := by
  intro ms
  induction ms with
  | nil => intro acc; rfl
  | cons m ms ih =>
    intro acc
    simp only [List.map_cons, List.foldl_cons, denStep_reval]
    exact ih _

theorem denoteMacros_reval (ov : List (String × Num)) (ms : List Macro) :
    denoteMacros (normOv ov) ms = denoteMacros [] (ms.map (revalMacro ov)) :=
  foldl_denStep_reval ov ms []

/-- **the meaning under the overrides is the meaning of the re-valued circuit** -/
theorem meaning_reval (ov : List (String × Num)) (c : Circuit) :
    meaning (normOv ov) c = meaning [] (revalC ov c) := by
  simp only [meaning, revalC, denoteMacros_reval, evalStmt_reval]

/-! ### Well-formedness is kept -/

mutual
theorem blocksOK_reval (ov : List (String × Num)) : ∀ s : Stmt, BlocksOK s → BlocksOK (revalStmt ov s)
  | .gate _ _ _, _ => by simp only [revalStmt, BlocksOK]
  | .block par sub it body, h => by
    simp only [BlocksOK] at h
    simp only [revalStmt, BlocksOK]
    refine ⟨fun hs => ?_, fun hs => ⟨(h.2.1 hs).1, fun hn => (h.2.1 hs).2 (reval_eq_none.1 hn)⟩,
      blocksOKList_reval ov body h.2.2⟩
    rw [h.1 hs]; rfl
  | .loop _ b, h => by
    simp only [BlocksOK] at h
    simp only [revalStmt, BlocksOK]
    exact blocksOK_reval ov b h
theorem blocksOKList_reval (ov : List (String × Num)) : ∀ l : List Stmt, BlocksOKList l → BlocksOKList (revalStmts ov l)
  | [], _ => by simp only [revalStmts, BlocksOKList]
  | s :: ss, h => by
    simp only [BlocksOKList] at h
    simp only [revalStmts, BlocksOKList]
    exact ⟨blocksOK_reval ov s h.1, blocksOKList_reval ov ss h.2⟩
end

theorem wellFormed_reval (ov : List (String × Num)) {c : Circuit} (hw : WellFormed c) : WellFormed (revalC ov c) := by
  obtain ⟨bs, hbs⟩ := hw.body
  refine ⟨⟨revalStmts ov bs, ?_⟩, blocksOK_reval ov _ hw.blocks, ?_, ?_, ?_⟩
  · simp only [revalC, hbs, revalStmt]; rfl
  · intro m hm
    simp only [revalC, List.mem_map] at hm
    obtain ⟨m0, hm0, rfl⟩ := hm
    exact blocksOK_reval ov _ (hw.macros m0 hm0)
  · intro v hv
    simp only [revalC, List.mem_map] at hv
    obtain ⟨v0, hv0, rfl⟩ := hv
    have := hw.consts v0 hv0
    cases v0 <;> simp [isConst] at this
    rename_i n d
    obtain ⟨y, hy⟩ := reval_const ov n d
    rw [hy]; rfl
  · intro v hv
    simp only [revalC, List.mem_map] at hv
    obtain ⟨v0, hv0, rfl⟩ := hv
    have := hw.regs v0 hv0
    cases v0 <;> simp [isRegLike] at this <;> rfl

/-- **from "re-valued" to the clause**: if the circuit built from the rewritten text is the re-valued circuit, the two
`fill_in_let`s mean the same -/
theorem text_clause_of_reval (ov : List (String × Num)) {c f f' : Circuit} (hw : WellFormed c)
    (hf : fillInLet ov c = .ok f) (hf' : fillInLet [] (revalC ov c) = .ok f') : meaning [] f = meaning [] f' := by
  rw [Passes.fillInLet_meaning [] ov c f hw hf, Passes.fillInLet_meaning [] [] _ f' (wellFormed_reval ov hw) hf']
  exact meaning_reval ov c

end Jaqal.FillIn
