import JaqalModel.Model.Pipeline
import JaqalProofs.Lemmas.RoundTripShape
import JaqalProofs.Lemmas.BuilderNames
import JaqalProofs.Lemmas.PyEq
/-!
# C01, builder layer: what the builder makes of a statement of the grammar can be read back

For every child `e` of a grammar-shaped program (`RoundTripShape.lean`) that the builder (memo switched off, which
changes nothing: `C07_memo_transparent`) turns into an object `o`, the tree the generator writes for `o`
(`Pipeline.stmtSx`, `letSx`, `regSx`, `mapSx`, `macroSx`) is built, in the same state, to the same object and the
same new state; and `o` has a spelling (`Pipeline.okStmt` …).  The only differences between `e` and the written tree
are the ones `unbuild` normalises: a subcircuit count of 1 (absent), written-out slice defaults, `as_integer` on let
values.
-/
set_option linter.unusedSimpArgs false
set_option linter.unusedVariables false
namespace Jaqal.RoundTrip
open Jaqal Jaqal.Lexer Jaqal.Grammar Jaqal.Builder Jaqal.Pipeline Jaqal.Generator Jaqal.PyEq

/-! ## names -/

/-- no `[` in a name (the names of the parser are identifiers; `make_item_name` writes `a[i]`) -/
def nameOK (s : String) : Bool := !(s.toList.contains '[')

mutual
/-- every string of the tree is `nameOK` -/
def noBr : BSx → Bool
  | .str s => nameOK s
  | .list l => noBrList l
  | _ => true
def noBrList : List BSx → Bool
  | [] => true
  | x :: xs => noBr x && noBrList xs
end

theorem noBr_mem {x : BSx} : ∀ {l : List BSx}, noBrList l = true → x ∈ l → noBr x = true
  | [], _, h => by simp at h
  | y :: ys, hl, h => by
    simp only [noBrList, Bool.and_eq_true] at hl
    rcases List.mem_cons.1 h with rfl | h
    · exact hl.1
    · exact noBr_mem hl.2 h

theorem noBrList_append : ∀ {a b : List BSx}, noBrList (a ++ b) = true → noBrList a = true ∧ noBrList b = true
  | [], b, h => ⟨rfl, h⟩
  | x :: xs, b, h => by
    simp only [List.cons_append, noBrList, Bool.and_eq_true] at h ⊢
    obtain ⟨h1, h2⟩ := noBrList_append h.2
    exact ⟨⟨h.1, h1⟩, h2⟩

theorem noBrList_of_mem : ∀ {l : List BSx}, (∀ x ∈ l, noBr x = true) → noBrList l = true
  | [], _ => rfl
  | x :: xs, h => by
    simp only [noBrList, Bool.and_eq_true]
    exact ⟨h x (by simp), noBrList_of_mem (fun y hy => h y (by simp [hy]))⟩

theorem itemName_bracket {an n : String} {idx : Val} (h : itemName an idx = some n) : nameOK n = false := by
  have key : ∀ (x : String), nameOK (an ++ "[" ++ x ++ "]") = false := by
    intro x
    simp [nameOK, String.toList_append]
  cases idx <;> simp only [itemName, Option.some.injEq] at h <;> first
    | (subst h; simpa [toString] using key _)
    | cases h

theorem isItem_bracket {n : String} {src idx : Val} (h : isItem n src idx = true) : nameOK n = false := by
  unfold isItem at h
  split at h
  · simp only [Bool.and_eq_true, beq_iff_eq] at h
    exact itemName_bracket h.2
  · cases h

/-! ## the context: every name is bound to a value of that name -/

/-- what a context entry can be: a let, a register, an alias, a named qubit, a macro parameter -/
def topKind : Val → Bool
  | .const _ _ => true
  | .param _ _ => true
  | .qubit _ _ _ => true
  | .regF _ _ => true
  | .regA _ _ => true
  | .regS _ _ _ _ _ => true
  | _ => false

def CtxN (ctx : Ctx) : Prop := ∀ n v, ctx.get n = some v → v.name? = some n ∧ topKind v = true ∧ wfVal v = true

theorem topKind_asInteger {v : Val} (h : topKind v = true) : asIntegerV v = v := by
  cases v <;> simp [topKind] at h <;> rfl

theorem nameOf_eq {v : Val} {n : String} (h : v.name? = some n) : Pipeline.nameOf v = n := by
  simp [Pipeline.nameOf, h]

theorem buildVal_str (ctx : Ctx) (f : Nat) (s : String) : buildVal ctx f (.str s) = lookupId ctx s := by
  cases f <;> rfl
theorem buildVal_int (ctx : Ctx) (f : Nat) (i : Int) : buildVal ctx f (.int i) = .ok (.int i) := by
  cases f <;> rfl
theorem buildVal_flt (ctx : Ctx) (f : Nat) (d : Dec) : buildVal ctx f (.flt d) = .ok (.flt d) := by
  cases f <;> rfl
theorem buildVal_none (ctx : Ctx) (f : Nat) : buildVal ctx f .none = .ok .none := by
  cases f <;> rfl

theorem lookupId_ok {ctx : Ctx} {s : String} {v : Val} (h : lookupId ctx s = .ok v) : ctx.get s = some v := by
  unfold lookupId at h
  cases hg : ctx.get s with
  | none => simp [hg, throw_eq] at h
  | some w => simp only [hg, pure, Except.pure, Except.ok.injEq] at h; rw [h]

theorem lookupId_of {ctx : Ctx} {s : String} {v : Val} (h : ctx.get s = some v) : lookupId ctx s = .ok v := by
  unfold lookupId; rw [h]; rfl

/-- a name or an integer, built: an int, or the context's value of that name -/
theorem ref_inv {ctx : Ctx} (hc : CtxN ctx) {f : Nat} {e : BSx} (he : isIntOrId e = true) {v : Val}
    (h : buildVal ctx f e = .ok v) :
    (∃ i, e = .int i ∧ v = .int i) ∨
      (∃ n, e = .str n ∧ ctx.get n = some v ∧ v.name? = some n ∧ topKind v = true ∧ wfVal v = true) := by
  cases e with
  | int i => rw [buildVal_int] at h; cases h; exact Or.inl ⟨i, rfl, rfl⟩
  | str n =>
    rw [buildVal_str] at h
    have hg := lookupId_ok h
    exact Or.inr ⟨n, rfl, hg, hc n v hg⟩
  | _ => simp [isIntOrId] at he

theorem ref_asInteger {ctx : Ctx} (hc : CtxN ctx) {f : Nat} {e : BSx} (he : isIntOrId e = true) {v : Val}
    (h : buildVal ctx f e = .ok v) : asIntegerV v = v := by
  rcases ref_inv hc he h with ⟨i, _, rfl⟩ | ⟨n, _, _, _, hk, _⟩
  · rfl
  · exact topKind_asInteger hk

theorem ref_wf {ctx : Ctx} (hc : CtxN ctx) {f : Nat} {e : BSx} (he : isIntOrId e = true) {v : Val}
    (h : buildVal ctx f e = .ok v) : wfVal v = true := by
  rcases ref_inv hc he h with ⟨i, _, rfl⟩ | ⟨n, _, _, _, _, hw⟩
  · rfl
  · exact hw

/-- if such a value passes as an index / bound / count (`okRef`), the written form is the expression it came from -/
theorem ref_sx {ctx : Ctx} (hc : CtxN ctx) {f : Nat} {e : BSx} (he : isIntOrId e = true) {v : Val}
    (h : buildVal ctx f e = .ok v) (hr : okRef v = true) : BSx.ofSx (refSx v) = e := by
  rcases ref_inv hc he h with ⟨i, rfl, rfl⟩ | ⟨n, rfl, _, hn, _, _⟩
  · rfl
  · cases v <;> simp [okRef] at hr <;> simp [Val.name?] at hn <;> subst hn <;> rfl

/-! ## gate arguments -/

theorem arg_inv {ctx : Ctx} (hc : CtxN ctx) {f : Nat} {a : BSx} (ha : isGateArg a = true) (hb : noBr a = true)
    {v : Val} (h : buildVal ctx f a = .ok v) : okArg v = true ∧ wfVal v = true ∧ BSx.ofSx (argSx v) = a := by
  cases a with
  | int i => rw [buildVal_int] at h; cases h; exact ⟨rfl, rfl, rfl⟩
  | flt d => rw [buildVal_flt] at h; cases h; exact ⟨rfl, rfl, rfl⟩
  | none => simp [isGateArg] at ha
  | val w => simp [isGateArg] at ha
  | str s =>
    rw [buildVal_str] at h
    obtain ⟨hn, hk, hw⟩ := hc s v (lookupId_ok h)
    simp only [noBr] at hb
    cases v <;> simp [topKind] at hk
    case qubit n src idx =>
      simp only [Val.name?, Option.some.injEq] at hn
      subst hn
      have hni : isItem n src idx = false := by
        cases hi : isItem n src idx
        · rfl
        · rw [isItem_bracket hi] at hb; cases hb
      exact ⟨rfl, hw, by simp [argSx, hni, BSx.ofSx]⟩
    all_goals
      simp only [Val.name?, Option.some.injEq] at hn
      subst hn
      exact ⟨rfl, hw, rfl⟩
  | list l =>
    unfold isGateArg at ha
    split at ha
    · rename_i heq; cases heq
    · rename_i heq; cases heq
    · rename_i heq; cases heq
    · rename_i an idx heq
      cases heq
      cases f with
      | zero => simp [buildVal, throw_eq] at h
      | succ f =>
        have h' : valStep ctx.get (buildVal ctx f) [.str "array_item", .str an, idx] = .ok v := h
        simp only [valStep, show ("array_item" = "register") = False from by decide,
          show ("array_item" = "let") = False from by decide, if_false, if_true] at h'
        rw [buildVal_str] at h'
        obtain ⟨arr, harr, h1⟩ := bind_ok h'
        obtain ⟨iv, hiv, h2⟩ := bind_ok h1
        obtain ⟨han, hak, hwarr⟩ := hc an arr (lookupId_ok harr)
        rw [ref_asInteger hc ha hiv] at h2
        by_cases hr : (!(isRegister arr || isParam arr)) = true
        · simp [hr, throw_eq, bind, Except.bind] at h2
        · simp only [hr, Bool.false_eq_true, if_false, pure, Except.pure, bind, Except.bind] at h2
          unfold getItem at h2
          rw [han] at h2
          simp only at h2
          cases hin : itemName an iv with
          | none =>
            rw [hin] at h2
            simp only at h2
            cases hq : mkQubit an arr iv with
            | error e => rw [hq] at h2; simp [bind, Except.bind] at h2
            | ok q => rw [hq] at h2; simp [bind, Except.bind, throw_eq] at h2
          | some n =>
            rw [hin] at h2
            simp only at h2
            unfold mkQubit at h2
            obtain ⟨_, _, h3⟩ := bind_ok h2
            simp only [pure, Except.pure, Except.ok.injEq] at h3
            subst h3
            have hokr : okRef iv = true := by
              cases iv <;> simp [itemName] at hin <;> rfl
            have hitem : isItem n arr iv = true := by
              simp [isItem, han, hokr, hin]
            refine ⟨rfl, by simp [wfVal, han, hwarr, ref_wf hc ha hiv], ?_⟩
            simp only [argSx, hitem, if_true, BSx.ofSx, BSx.ofSxList, nameOf_eq han, ref_sx hc ha hiv hokr]
    · cases ha

/-! ## the steps of `anyStep`, one command at a time -/

section equations
variable (cfg : Config) (mode : KeyMode) (recA : Ctx → BSx → St → M (Obj × St)) (recV : BSx → M Val) (ctx : Ctx)
  (args : List BSx) (st : St)

theorem anyStep_gate : anyStep cfg mode recA recV ctx (.str "gate" :: args) st =
    (do let (s, st') ← buildGate cfg mode ctx recV args st; pure (.stmt s, st')) := by
  simp [anyStep]

theorem anyStep_seq : anyStep cfg mode recA recV ctx (.str "sequential_block" :: args) st =
    (do let (os, st') ← mapMSt (recA { ctx with inSeq := true }) args st
        pure (.stmt (.block false false (.int 1) (← asStmts os)), st')) := by
  simp [anyStep]

theorem anyStep_par : anyStep cfg mode recA recV ctx (.str "parallel_block" :: args) st =
    (do let (os, st') ← mapMSt (recA { ctx with inPar := true }) args st
        pure (.stmt (.block true false (.int 1) (← asStmts os)), st')) := by
  simp [anyStep]

theorem anyStep_sub (c : BSx) : anyStep cfg mode recA recV ctx (.str "subcircuit_block" :: c :: args) st =
    (if ctx.inSub || ctx.inPar then throw (.jaqal "nesting-subcircuit")
      else do
        let (os, st') ← mapMSt (recA { ctx with inSub := true }) args st
        let count ← subCount recV c
        validateCount count
        pure (.stmt (.block false true count (← asStmts os)), st')) := by
  simp [anyStep]

theorem anyStep_loop (c b : BSx) : anyStep cfg mode recA recV ctx [.str "loop", c, b] st =
    (do let count ← recV c
        let (o, st') ← recA ctx b st
        match o with
        | .stmt s => do
          validateCount count
          pure (.stmt (.loop count s), st')
        | .val .none => do
          validateCount count
          pure (.stmt (.loop count (.block false false (.int 1) [])), st')
        | _ => throw (unmodelled "loop-body-not-a-statement")) := by
  rfl

theorem anyStep_macro (nameE : BSx) (rest : List BSx) (h : ¬ ((nameE :: rest).length < 2)) :
    anyStep cfg mode recA recV ctx (.str "macro" :: nameE :: rest) st =
    (do let name ← strOf nameE
        if (st.gctx.lookup name).isSome then throw (.jaqal "redefine-gate")
        let params ← rest.dropLast.mapM macroParam
        match rest.getLast? with
        | Option.none => throw (.jaqal "macro-needs-two-arguments")
        | some blockE => do
          let (b, st') ← recA (ctx.withParams params) blockE st
          match b with
          | .stmt (.block par sub it body) =>
            pure (.macro { name := name, params := params, body := .block par sub it body }, st')
          | _ => throw (.jaqal "macro-body-must-be-a-block")) := by
  have h' : ¬ (rest.length + 1 < 2) := by simpa using h
  simp only [anyStep]
  simp only [String.reduceEq, if_false, if_true, List.length_cons, false_or, or_false, or_self, h']
  rfl

theorem anyStep_value (cmd : String) (hcmd : cmd = "register" ∨ cmd = "map" ∨ cmd = "let") :
    anyStep cfg mode recA recV ctx (.str cmd :: args) st =
    (valStep ctx.get recV (.str cmd :: args) >>= fun v => pure (Obj.val v, st)) := by
  rcases hcmd with rfl | rfl | rfl <;> simp [anyStep]

end equations

/-! ## `AbstractGate.call` binds the arguments in order -/

theorem odSet_cases (k : String) (v : Val) : ∀ (l : List (String × Val)),
    odSet k v l = l ++ [(k, v)] ∨ (odSet k v l).length = l.length
  | [] => Or.inl rfl
  | (k', v') :: r => by
    simp only [odSet]
    split
    · exact Or.inr rfl
    · rcases odSet_cases k v r with h | h
      · exact Or.inl (by rw [h]; rfl)
      · exact Or.inr (by simp [h])

theorem odSet_length_le (k : String) (v : Val) (l : List (String × Val)) : (odSet k v l).length ≤ l.length + 1 := by
  rcases odSet_cases k v l with h | h
  · rw [h]; simp
  · omega

theorem foldl_odSet_full : ∀ (zs init : List (String × Val)),
    (zs.foldl (fun acc p => odSet p.1 p.2 acc) init).length ≤ init.length + zs.length ∧
    ((zs.foldl (fun acc p => odSet p.1 p.2 acc) init).length = init.length + zs.length →
      zs.foldl (fun acc p => odSet p.1 p.2 acc) init = init ++ zs)
  | [], init => ⟨by simp, fun _ => by simp⟩
  | z :: zs, init => by
    obtain ⟨h1, h2⟩ := foldl_odSet_full zs (odSet z.1 z.2 init)
    have hle := odSet_length_le z.1 z.2 init
    simp only [List.foldl_cons, List.length_cons]
    refine ⟨by omega, fun heq => ?_⟩
    have hlen : (odSet z.1 z.2 init).length = init.length + 1 := by omega
    rcases odSet_cases z.1 z.2 init with h | h
    · have := h2 (by rw [hlen] at *; omega)
      rw [this, h]; simp
    · omega

theorem callDef_bound {gd : GateDef} {vals : List Val} {s : Stmt} (h : callDef gd vals = .ok s) :
    ∃ bound, s = .gate gd.name gd bound ∧ bound.map (·.2) = vals := by
  unfold callDef at h
  by_cases h1 : vals.length > gd.params.length
  · simp [h1, throw_eq, bind, Except.bind] at h
  · simp only [h1, if_false, pure_bind] at h
    generalize hb : (List.foldl (fun acc p => odSet p.1 p.2 acc) [] ((gd.params.map (·.1)).zip vals)) = bound at h
    by_cases h2 : gd.params.length ≠ bound.length
    · simp [h2, throw_eq, bind, Except.bind] at h
    · simp only [h2, if_false, pure_bind] at h
      obtain ⟨_, _, h3⟩ := bind_ok h
      simp only [pure, Except.pure, Except.ok.injEq] at h3
      refine ⟨bound, h3.symm, ?_⟩
      obtain ⟨hle, hfull⟩ := foldl_odSet_full ((gd.params.map (·.1)).zip vals) []
      rw [hb] at hle hfull
      have hz : ((gd.params.map (·.1)).zip vals).length = vals.length := by
        simp [List.length_zip]; omega
      simp only [List.length_nil, Nat.zero_add] at hle hfull
      have hbl : bound.length = gd.params.length := by omega
      have := hfull (by omega)
      rw [this]
      simp only [List.nil_append]
      exact List.map_snd_zip (by simp; omega)

theorem getGateDef_name {cfg : Config} {name : String} {n : Nat} {g g' : GCtx} {gd : GateDef} (hk : GKeys g)
    (h : getGateDef cfg name n g = .ok (gd, g')) : gd.name = name := by
  unfold getGateDef at h
  cases hl : g.lookup name with
  | some e =>
    simp only [hl, pure, Except.pure, Except.ok.injEq, Prod.mk.injEq] at h
    rw [← h.1]; exact hk name e hl
  | none =>
    simp only [hl] at h
    split at h
    · simp only [pure, Except.pure, Except.ok.injEq, Prod.mk.injEq] at h
      rw [← h.1]; rfl
    · simp [throw_eq] at h

/-! ## argument lists -/

theorem argsSx_map : ∀ (l : List (String × Val)), argsSx l = l.map (fun a => argSx a.2)
  | [] => rfl
  | a :: as => by simp [argsSx, argsSx_map as]

theorem okArgs_all : ∀ (l : List (String × Val)), okArgs l = l.all (fun a => okArg a.2)
  | [] => rfl
  | a :: as => by simp [okArgs, okArgs_all as]

theorem args_inv {ctx : Ctx} (hc : CtxN ctx) {f : Nat} : ∀ {args : List BSx} {vals : List Val},
    args.all isGateArg = true → noBrList args = true → args.mapM (buildVal ctx f) = .ok vals →
    (∀ v ∈ vals, okArg v = true ∧ wfVal v = true) ∧ BSx.ofSxList (vals.map argSx) = args
  | [], vals, _, _, h => by
    simp only [List.mapM_nil, pure, Except.pure, Except.ok.injEq] at h
    subst h
    exact ⟨by simp, rfl⟩
  | a :: as, vals, ha, hb, h => by
    simp only [List.all_cons, Bool.and_eq_true] at ha
    simp only [noBrList, Bool.and_eq_true] at hb
    simp only [List.mapM_cons] at h
    obtain ⟨v, hv, h1⟩ := bind_ok h
    obtain ⟨vs, hvs, h2⟩ := bind_ok h1
    simp only [pure, Except.pure, Except.ok.injEq] at h2
    subst h2
    obtain ⟨h3, h3w, h4⟩ := arg_inv hc ha.1 hb.1 hv
    obtain ⟨h5, h6⟩ := args_inv hc ha.2 hb.2 hvs
    refine ⟨?_, ?_⟩
    · intro w hw
      rcases List.mem_cons.1 hw with rfl | hw
      · exact ⟨h3, h3w⟩
      · exact h5 w hw
    · simp only [List.map_cons, BSx.ofSxList, h4, h6]

/-! ## statements -/

/-- a statement that the generator does not splice into a block of kind `par` -/
def splFree (par : Bool) : Stmt → Bool
  | .block p false _ _ => p != par
  | _ => true

mutual
/-- every gate statement is filed under the name of its definition -/
def gNamed : Stmt → Bool
  | .gate name gd _ => name == gd.name
  | .block _ _ _ b => gNamedL b
  | .loop _ b => gNamed b
def gNamedL : List Stmt → Bool
  | [] => true
  | s :: ss => gNamed s && gNamedL ss
end

mutual
/-- no block directly inside a block of its own kind (subcircuits apart): what the generator would splice -/
def nsk : Stmt → Bool
  | .gate _ _ _ => true
  | .block p _ _ b => nskL p b
  | .loop _ b => nsk b
def nskL (p : Bool) : List Stmt → Bool
  | [] => true
  | s :: ss => splFree p s && nsk s && nskL p ss
end

/-- the tree the generator writes for `s` is built, in state `st`, to `s` and the state `st'` -/
def Rebuilds (cfg : Config) (ctx : Ctx) (s : Stmt) (st st' : St) : Prop :=
  ∀ f2, (BSx.ofSx (stmtSx s)).depth ≤ f2 →
    buildAny cfg .off f2 ctx (BSx.ofSx (stmtSx s)) st = .ok (.stmt s, st')

def StmtPost (cfg : Config) (ctx : Ctx) (par : Bool) (e : BSx) (st : St) (o : Obj) (st' : St) : Prop :=
  ∃ s, o = .stmt s ∧ okStmt par s = true ∧ splFree par s = true ∧ Rebuilds cfg ctx s st st' ∧
    (∀ p items, e = .list (.str (blockCmdB p) :: items) → ∃ ss, s = .block p false (.int 1) ss ∧ okItems p ss = true) ∧
    gNamed s = true ∧ wfStmt s = true ∧ nsk s = true

/-- the induction hypothesis: the claim for fuel `f` -/
def StmtIH (cfg : Config) (f : Nat) : Prop :=
  ∀ (ctx : Ctx) (par : Bool) (e : BSx) (st : St) (o : Obj) (st' : St), CtxN ctx → KInv st → GStmt par e →
    noBr e = true → buildAny cfg .off f ctx e st = .ok (o, st') → StmtPost cfg ctx par e st o st'

theorem mapM_ok_all {α β : Type} {f : α → M β} : ∀ {l : List α} {vs : List β}, l.mapM f = .ok vs →
    ∀ x ∈ l, ∃ v, f x = .ok v
  | [], _, _, x, hx => by cases hx
  | y :: ys, vs, h, x, hx => by
    simp only [List.mapM_cons] at h
    obtain ⟨v, hv, h1⟩ := bind_ok h
    obtain ⟨vs', hvs, _⟩ := bind_ok h1
    rcases List.mem_cons.1 hx with rfl | hx
    · exact ⟨v, hv⟩
    · exact mapM_ok_all hvs x hx

theorem gateArg_depth {ctx : Ctx} {f : Nat} {a : BSx} {v : Val} (ha : isGateArg a = true)
    (h : buildVal ctx f a = .ok v) : a.depth ≤ f := by
  cases a with
  | list l =>
    cases f with
    | zero => simp [buildVal, throw_eq] at h
    | succ f =>
      unfold isGateArg at ha
      split at ha
      · rename_i heq; cases heq
      · rename_i heq; cases heq
      · rename_i heq; cases heq
      · rename_i an idx heq
        cases heq
        cases idx <;> simp [isIntOrId] at ha <;> simp [BSx.depth, BSx.depthList]
      · cases ha
  | _ => simp [BSx.depth]

theorem depth_mem_le {x : BSx} : ∀ {l : List BSx} {f : Nat}, BSx.depthList l ≤ f → x ∈ l → x.depth ≤ f
  | [], _, _, h => by cases h
  | y :: ys, f, hd, h => by
    obtain ⟨h1, h2⟩ := depthList_cons_le hd
    rcases List.mem_cons.1 h with rfl | h
    · exact h1
    · exact depth_mem_le h2 h

theorem buildGate_congr {cfg : Config} {mode : KeyMode} {ctx : Ctx} {recV recV' : BSx → M Val} {g : String}
    {args : List BSx} {st : St} (h : ∀ a ∈ args, recV a = recV' a) :
    buildGate cfg mode ctx recV (.str g :: args) st = buildGate cfg mode ctx recV' (.str g :: args) st := by
  simp only [buildGate, buildGateMemo, buildGateFresh, mapM_congr h]

theorem buildAny_list (cfg : Config) (mode : KeyMode) (f : Nat) (ctx : Ctx) (l : List BSx) (st : St) :
    buildAny cfg mode (f + 1) ctx (.list l) st = anyStep cfg mode (buildAny cfg mode f) (buildVal ctx f) ctx l st := rfl

theorem gate_post {cfg : Config} {ctx : Ctx} (hc : CtxN ctx) {f : Nat} {g : String} {args : List BSx} {st st' : St}
    {o : Obj} (par : Bool) (hk : KInv st) (ha : args.all isGateArg = true) (hb : noBrList args = true)
    (h : buildAny cfg .off (f + 1) ctx (.list (.str "gate" :: .str g :: args)) st = .ok (o, st')) :
    StmtPost cfg ctx par (.list (.str "gate" :: .str g :: args)) st o st' := by
  have horig := h
  rw [buildAny_list, anyStep_gate] at h
  obtain ⟨⟨s, st1⟩, hbg, h1⟩ := bind_ok h
  simp only [pure, Except.pure, Except.ok.injEq, Prod.mk.injEq] at h1
  obtain ⟨rfl, rfl⟩ := h1
  have hbg0 := hbg
  simp only [buildGate] at hbg
  obtain ⟨_, _, h2⟩ := bind_ok hbg
  simp only [buildGateMemo, if_true] at h2
  obtain ⟨⟨s', g'⟩, hfresh, h3⟩ := bind_ok h2
  simp only [pure, Except.pure, Except.ok.injEq, Prod.mk.injEq] at h3
  obtain ⟨rfl, rfl⟩ := h3
  unfold buildGateFresh at hfresh
  obtain ⟨⟨gd, g''⟩, hgd, h4⟩ := bind_ok hfresh
  obtain ⟨vals, hvals, h5⟩ := bind_ok h4
  obtain ⟨s'', hcall, h6⟩ := bind_ok h5
  simp only [pure, Except.pure, Except.ok.injEq, Prod.mk.injEq] at h6
  obtain ⟨rfl, rfl⟩ := h6
  have hname := getGateDef_name hk.keys hgd
  obtain ⟨bound, rfl, hbv⟩ := callDef_bound hcall
  obtain ⟨hok, hsx⟩ := args_inv hc ha hb hvals
  have hsx' : BSx.ofSx (stmtSx (.gate gd.name gd bound)) = .list (.str "gate" :: .str g :: args) := by
    simp only [stmtSx, BSx.ofSx, BSx.ofSxList, argsSx_map, hname]
    rw [show bound.map (fun a => argSx a.2) = (bound.map (·.2)).map argSx from by simp [List.map_map]]
    rw [hbv, hsx]
  refine ⟨_, rfl, ?_, rfl, ?_, ?_, by simp [gNamed], ?_, rfl⟩
  · simp only [okStmt, okArgs_all, List.all_eq_true]
    intro a ha'
    exact (hok a.2 (hbv ▸ List.mem_map_of_mem ha')).1
  rotate_left
  rotate_left
  · simp only [wfStmt, List.all_eq_true]
    intro a ha'
    exact (hok a.2 (hbv ▸ List.mem_map_of_mem ha')).2
  rotate_right
  · intro p items he
    cases p <;> simp [blockCmdB] at he
  · intro f2 hd
    rw [hsx'] at hd ⊢
    cases f2 with
    | zero => simp [BSx.depth] at hd
    | succ f2 =>
      rw [buildAny_list, anyStep_gate]
      have hcong : ∀ a ∈ args, buildVal ctx f2 a = buildVal ctx f a := by
        intro a hmem
        obtain ⟨v, hv⟩ := mapM_ok_all hvals a hmem
        have h1 : a.depth ≤ f := gateArg_depth (List.all_eq_true.1 ha a hmem) hv
        have h2 : a.depth ≤ f2 := by
          simp only [BSx.depth, BSx.depthList] at hd
          have : BSx.depthList args ≤ f2 := by omega
          exact depth_mem_le this hmem
        exact buildVal_fuel ctx f2 f a h2 h1
      rw [buildGate_congr hcong, hbg0]
      rfl

/-! ### lists of statements inside a block -/

theorem okItems_cons_free {par : Bool} {s : Stmt} (ss : List Stmt) (h : splFree par s = true) :
    okItems par (s :: ss) = (okStmt par s && okItems par ss) := by
  cases s with
  | gate n gd a => simp [okItems]
  | loop c b => simp [okItems]
  | block p sub it b =>
    cases sub
    · simp only [splFree, bne_iff_ne, ne_eq] at h
      simp [okItems, h]
    · simp [okItems]

theorem itemsSx_cons_free {par : Bool} {s : Stmt} (ss : List Stmt) (h : splFree par s = true) :
    itemsSx par (s :: ss) = stmtSx s :: itemsSx par ss := by
  cases s with
  | gate n gd a => simp [itemsSx]
  | loop c b => simp [itemsSx]
  | block p sub it b =>
    cases sub
    · simp only [splFree, bne_iff_ne, ne_eq] at h
      simp [itemsSx, h]
    · simp [itemsSx]

theorem asStmts_map : ∀ (ss : List Stmt), asStmts (ss.map Obj.stmt) = .ok ss
  | [] => rfl
  | s :: ss => by simp [asStmts, asStmts_map ss, bind, Except.bind, pure, Except.pure]

theorem items_post {cfg : Config} {f : Nat} (IH : StmtIH cfg f) {ctx : Ctx} (hc : CtxN ctx) {par : Bool} :
    ∀ {items : List BSx} {st : St} {os : List Obj} {st' : St}, KInv st → (∀ x ∈ items, GStmt par x) →
    noBrList items = true → mapMSt (buildAny cfg .off f ctx) items st = .ok (os, st') →
    ∃ ss, os = ss.map Obj.stmt ∧ okItems par ss = true ∧ itemsSx par ss = ss.map stmtSx ∧ KInv st' ∧
      gNamedL ss = true ∧ wfStmts ss = true ∧ nskL par ss = true ∧
      ∀ f2, BSx.depthList (BSx.ofSxList (ss.map stmtSx)) ≤ f2 →
        mapMSt (buildAny cfg .off f2 ctx) (BSx.ofSxList (ss.map stmtSx)) st = .ok (ss.map Obj.stmt, st')
  | [], st, os, st', hk, _, _, h => by
    simp only [mapMSt, pure, Except.pure, Except.ok.injEq, Prod.mk.injEq] at h
    obtain ⟨rfl, rfl⟩ := h
    exact ⟨[], rfl, rfl, rfl, hk, rfl, rfl, rfl, fun f2 _ => rfl⟩
  | x :: xs, st, os, st', hk, hg, hb, h => by
    simp only [noBrList, Bool.and_eq_true] at hb
    simp only [mapMSt] at h
    obtain ⟨⟨o, s1⟩, hx, h1⟩ := bind_ok h
    obtain ⟨⟨os', s2⟩, hxs, h2⟩ := bind_ok h1
    simp only [pure, Except.pure, Except.ok.injEq, Prod.mk.injEq] at h2
    obtain ⟨rfl, rfl⟩ := h2
    obtain ⟨s, rfl, hok, hfree, hre, _, hgn, hwf, hns⟩ := IH ctx par x st o s1 hc hk (hg x (by simp)) hb.1 hx
    have hk1 : KInv s1 := (buildAny_known f ctx x st s1 _ hk hx).inv
    obtain ⟨ss, rfl, hoks, hsx, hk2, hgns, hwfs, hnss, hres⟩ :=
      items_post IH hc hk1 (fun y hy => hg y (by simp [hy])) hb.2 hxs
    refine ⟨s :: ss, rfl, ?_, ?_, hk2, by simp [gNamedL, hgn, hgns], by simp [wfStmts, hwf, hwfs],
      by simp [nskL, hfree, hns, hnss], ?_⟩
    · rw [okItems_cons_free ss hfree, hok, hoks]; rfl
    · rw [itemsSx_cons_free ss hfree, hsx]; rfl
    · intro f2 hd
      simp only [List.map_cons, BSx.ofSxList] at hd ⊢
      obtain ⟨hd1, hd2⟩ := depthList_cons_le hd
      simp only [mapMSt]
      rw [hre f2 hd1]
      simp only [bind, Except.bind]
      rw [hres f2 hd2]
      rfl

theorem blockCmd_eq (p : Bool) : Pipeline.blockCmd p = blockCmdB p := by cases p <;> rfl

/-- a `{ }` / `< >` block of the grammar -/
theorem block_post {cfg : Config} {f : Nat} (IH : StmtIH cfg f) {ctx : Ctx} (hc : CtxN ctx) {p : Bool}
    {items : List BSx} {st st' : St} {o : Obj} (hk : KInv st) (hg : ∀ x ∈ items, GStmt p x)
    (hb : noBrList items = true)
    (h : buildAny cfg .off (f + 1) ctx (.list (.str (blockCmdB p) :: items)) st = .ok (o, st')) :
    ∃ ss, o = .stmt (.block p false (.int 1) ss) ∧ okItems p ss = true ∧ itemsSx p ss = ss.map stmtSx ∧
      gNamedL ss = true ∧ wfStmts ss = true ∧ nskL p ss = true ∧
      Rebuilds cfg ctx (.block p false (.int 1) ss) st st' := by
  cases p with
  | false =>
    simp only [blockCmdB, Bool.false_eq_true, if_false] at h
    rw [buildAny_list, anyStep_seq] at h
    obtain ⟨⟨os, s1⟩, hm, h1⟩ := bind_ok h
    obtain ⟨ss0, has, h2⟩ := bind_ok h1
    simp only [pure, Except.pure, Except.ok.injEq, Prod.mk.injEq] at h2
    obtain ⟨rfl, rfl⟩ := h2
    obtain ⟨ss, rfl, hoks, hsx, _, hgns, hwfs, hnss, hres⟩ :=
      items_post (ctx := { ctx with inSeq := true }) IH hc hk hg hb hm
    rw [asStmts_map] at has
    injection has with has
    subst has
    refine ⟨ss, rfl, hoks, hsx, hgns, hwfs, hnss, ?_⟩
    intro f2 hd
    simp only [stmtSx, Bool.false_eq_true, if_false, hsx, BSx.ofSx, BSx.ofSxList, Pipeline.blockCmd] at hd ⊢
    cases f2 with
    | zero => simp [BSx.depth] at hd
    | succ f2 =>
      rw [buildAny_list, anyStep_seq]
      simp only [BSx.depth, BSx.depthList] at hd
      rw [hres f2 (by omega)]
      simp only [bind, Except.bind, asStmts_map]
      rfl
  | true =>
    simp only [blockCmdB, if_true] at h
    rw [buildAny_list, anyStep_par] at h
    obtain ⟨⟨os, s1⟩, hm, h1⟩ := bind_ok h
    obtain ⟨ss0, has, h2⟩ := bind_ok h1
    simp only [pure, Except.pure, Except.ok.injEq, Prod.mk.injEq] at h2
    obtain ⟨rfl, rfl⟩ := h2
    obtain ⟨ss, rfl, hoks, hsx, _, hgns, hwfs, hnss, hres⟩ :=
      items_post (ctx := { ctx with inPar := true }) IH hc hk hg hb hm
    rw [asStmts_map] at has
    injection has with has
    subst has
    refine ⟨ss, rfl, hoks, hsx, hgns, hwfs, hnss, ?_⟩
    intro f2 hd
    simp only [stmtSx, Bool.false_eq_true, if_false, hsx, BSx.ofSx, BSx.ofSxList, Pipeline.blockCmd, if_true] at hd ⊢
    cases f2 with
    | zero => simp [BSx.depth] at hd
    | succ f2 =>
      rw [buildAny_list, anyStep_par]
      simp only [BSx.depth, BSx.depthList] at hd
      rw [hres f2 (by omega)]
      simp only [bind, Except.bind, asStmts_map]
      rfl

theorem validateCount_okRef {ctx : Ctx} (hc : CtxN ctx) {f : Nat} {e : BSx} (he : isIntOrId e = true) {v : Val}
    (hv : buildVal ctx f e = .ok v) (h : validateCount v = .ok ()) : okRef v = true := by
  rcases ref_inv hc he hv with ⟨i, _, rfl⟩ | ⟨n, _, _, _, hk, _⟩
  · rfl
  · cases v <;> simp [topKind] at hk <;> first | rfl | (simp [validateCount, isAV, throw_eq] at h)

theorem subCount_int (recV : BSx → M Val) (i : Int) : subCount recV (.int i) = recV (.int i) := by
  simp [subCount]

theorem subCount_str_ne (recV : BSx → M Val) {n : String} (h : n ≠ "") : subCount recV (.str n) = recV (.str n) := by
  unfold subCount
  split
  · rename_i heq; cases heq; exact absurd rfl h
  · rename_i heq; cases heq
  · rfl

theorem subCount_empty (recV : BSx → M Val) : subCount recV (.str "") = .ok (.int 1) := rfl

/-- the count of a subcircuit, read back from what the generator writes -/
theorem subCount_rebuild {ctx : Ctx} (hc : CtxN ctx) {f : Nat} {c : BSx} (he : isIntOrId c = true) {v : Val}
    (hv : subCount (buildVal ctx f) c = .ok v) (hval : validateCount v = .ok ()) (f2 : Nat) :
    okRef v = true ∧ wfVal v = true ∧ subCount (buildVal ctx f2) (BSx.ofSx (subCountSx v)) = .ok v := by
  cases c with
  | int i =>
    rw [subCount_int, buildVal_int] at hv
    cases hv
    refine ⟨rfl, rfl, ?_⟩
    by_cases h1 : i = 1
    · subst h1; rfl
    · have : itersNe1 (.int i) = true := by simp [itersNe1, h1]
      simp only [subCountSx, this, if_true, refSx, BSx.ofSx, subCount_int, buildVal_int]
  | str n =>
    by_cases hn : n = ""
    · subst hn
      rw [subCount_empty] at hv
      cases hv
      exact ⟨rfl, rfl, rfl⟩
    · rw [subCount_str_ne _ hn] at hv
      have hr := validateCount_okRef hc he hv hval
      refine ⟨hr, ref_wf hc he hv, ?_⟩
      rcases ref_inv hc he hv with ⟨i, h0, _⟩ | ⟨m, h0, hg, hname, hk, _⟩
      · cases h0
      · cases h0
        have hne : itersNe1 v = true := by
          cases v <;> simp [topKind] at hk <;> rfl
        have hsx : BSx.ofSx (refSx v) = .str n := ref_sx hc he hv hr
        simp only [subCountSx, hne, if_true, hsx]
        rw [subCount_str_ne _ hn, buildVal_str]
        exact lookupId_of hg
  | _ => simp [isIntOrId] at he

theorem sub_post {cfg : Config} {f : Nat} (IH : StmtIH cfg f) {ctx : Ctx} (hc : CtxN ctx) {c : BSx}
    {items : List BSx} {st st' : St} {o : Obj} (hk : KInv st) (hcnt : isIntOrId c = true)
    (hg : ∀ x ∈ items, GStmt false x) (hb : noBrList items = true)
    (h : buildAny cfg .off (f + 1) ctx (.list (.str "subcircuit_block" :: c :: items)) st = .ok (o, st')) :
    StmtPost cfg ctx false (.list (.str "subcircuit_block" :: c :: items)) st o st' := by
  rw [buildAny_list, anyStep_sub] at h
  by_cases hflag : (ctx.inSub || ctx.inPar) = true
  · simp [hflag, throw_eq] at h
  · simp only [hflag, Bool.false_eq_true, if_false] at h
    obtain ⟨⟨os, s1⟩, hm, h1⟩ := bind_ok h
    obtain ⟨count, hcount, h2⟩ := bind_ok h1
    obtain ⟨_, hval, h3⟩ := bind_ok h2
    obtain ⟨ss0, has, h4⟩ := bind_ok h3
    simp only [pure, Except.pure, Except.ok.injEq, Prod.mk.injEq] at h4
    obtain ⟨rfl, rfl⟩ := h4
    obtain ⟨ss, rfl, hoks, hsx, _, hgns, hwfs, hnss, hres⟩ :=
      items_post (ctx := { ctx with inSub := true }) IH hc hk hg hb hm
    rw [asStmts_map] at has
    injection has with has
    subst has
    have hcr := fun f2 => subCount_rebuild hc hcnt hcount hval f2
    refine ⟨_, rfl, ?_, rfl, ?_, ?_, by simpa [gNamed] using hgns, by simp [wfStmt, (hcr 0).2.1, hwfs],
      by simpa [nsk] using hnss⟩
    · simp [okStmt, (hcr 0).1, hoks]
    · intro f2 hd
      simp only [stmtSx, if_true, hsx, BSx.ofSx, BSx.ofSxList] at hd ⊢
      cases f2 with
      | zero => simp [BSx.depth] at hd
      | succ f2 =>
        rw [buildAny_list, anyStep_sub]
        simp only [hflag, Bool.false_eq_true, if_false]
        simp only [BSx.depth, BSx.depthList] at hd
        rw [hres f2 (by omega)]
        simp only [bind, Except.bind, (hcr f2).2.2, hval, asStmts_map]
        rfl
    · intro p items' he
      cases p <;> simp [blockCmdB] at he

theorem loop_post {cfg : Config} {f : Nat} (IH : StmtIH cfg f) {ctx : Ctx} (hc : CtxN ctx) {c : BSx} {p : Bool}
    {items : List BSx} {st st' : St} {o : Obj} (hk : KInv st) (hcnt : isIntOrId c = true)
    (hg : ∀ x ∈ items, GStmt p x) (hb : noBrList items = true)
    (h : buildAny cfg .off (f + 1) ctx (.list [.str "loop", c, .list (.str (blockCmdB p) :: items)]) st = .ok (o, st')) :
    StmtPost cfg ctx false (.list [.str "loop", c, .list (.str (blockCmdB p) :: items)]) st o st' := by
  rw [buildAny_list, anyStep_loop] at h
  obtain ⟨count, hcount, h1⟩ := bind_ok h
  obtain ⟨⟨ob, s1⟩, hbody, h2⟩ := bind_ok h1
  have hgb : GStmt (!p) (.list (.str (blockCmdB p) :: items)) := by
    cases p
    · exact GStmt.seqB hg
    · exact GStmt.parB hg
  have hnb : noBr (.list (.str (blockCmdB p) :: items)) = true := by
    simp only [noBr, noBrList, Bool.and_eq_true]
    exact ⟨by cases p <;> decide, hb⟩
  obtain ⟨sb, rfl, _, _, hre, hshape, hgnb, hwfb, hnsb⟩ := IH ctx (!p) _ st ob s1 hc hk hgb hnb hbody
  obtain ⟨ss, rfl, hoks⟩ := hshape p items rfl
  simp only at h2
  obtain ⟨_, hval, h3⟩ := bind_ok h2
  simp only [pure, Except.pure, Except.ok.injEq, Prod.mk.injEq] at h3
  obtain ⟨rfl, rfl⟩ := h3
  have hr := validateCount_okRef hc hcnt hcount hval
  have hsx := ref_sx hc hcnt hcount hr
  refine ⟨_, rfl, ?_, rfl, ?_, ?_, by simpa [gNamed] using hgnb,
    (by have := hwfb; simp [wfStmt, wfVal] at this ⊢; exact ⟨ref_wf hc hcnt hcount, this⟩),
    by simpa [nsk] using hnsb⟩
  · simp [okStmt, hr, hoks]
  · intro f2 hd
    have hbsx : BSx.ofSx (stmtSx (.block p false (.int 1) ss)) =
        .list (.str (Pipeline.blockCmd p) :: BSx.ofSxList (itemsSx p ss)) := by
      simp [stmtSx, BSx.ofSx, BSx.ofSxList]
    simp only [stmtSx, BSx.ofSx, BSx.ofSxList, hsx] at hd ⊢
    rw [← hbsx] at hd ⊢
    cases f2 with
    | zero => simp [BSx.depth] at hd
    | succ f2 =>
      rw [buildAny_list, anyStep_loop]
      have hc2 : buildVal ctx f2 c = .ok count := by
        rw [← hcount]
        cases c <;> simp [isIntOrId] at hcnt
        · rw [buildVal_str, buildVal_str]
        · rw [buildVal_int, buildVal_int]
      simp only [BSx.depth, BSx.depthList] at hd
      have hd2 : (BSx.ofSx (stmtSx (.block p false (.int 1) ss))).depth ≤ f2 := by
        have : ∀ a b : Nat, max a (max b 0) + 1 ≤ f2 + 1 → b ≤ f2 := by intro a b h; omega
        exact this _ _ (by simpa [BSx.depth] using hd)
      simp only [hc2, bind, Except.bind, hre f2 hd2, hval]
      rfl
  · intro p' items' he
    cases p' <;> simp [blockCmdB] at he

theorem stmt_rebuild (cfg : Config) : ∀ f, StmtIH cfg f := by
  intro f
  induction f with
  | zero =>
    intro ctx par e st o st' _ _ hg _ h
    cases hg <;> simp [buildAny, throw_eq] at h
  | succ f IH =>
    intro ctx par e st o st' hc hk hg hb h
    cases hg with
    | gate ha =>
      simp only [noBr, noBrList, Bool.and_eq_true] at hb
      exact gate_post hc par hk ha hb.2.2 h
    | parB hitems =>
      simp only [noBr, noBrList, Bool.and_eq_true] at hb
      obtain ⟨ss, rfl, hoks, _, hgns, hwfs, hnss, hre⟩ := block_post (p := true) IH hc hk hitems hb.2 h
      refine ⟨_, rfl, by simp [okStmt, hoks], rfl, hre, ?_, by simpa [gNamed] using hgns,
        by simpa [wfStmt, wfVal] using hwfs, by simpa [nsk] using hnss⟩
      intro p items' he
      cases p <;> simp [blockCmdB] at he
      subst he
      exact ⟨ss, rfl, hoks⟩
    | seqB hitems =>
      simp only [noBr, noBrList, Bool.and_eq_true] at hb
      obtain ⟨ss, rfl, hoks, _, hgns, hwfs, hnss, hre⟩ := block_post (p := false) IH hc hk hitems hb.2 h
      refine ⟨_, rfl, by simp [okStmt, hoks], rfl, hre, ?_, by simpa [gNamed] using hgns,
        by simpa [wfStmt, wfVal] using hwfs, by simpa [nsk] using hnss⟩
      intro p items' he
      cases p <;> simp [blockCmdB] at he
      subst he
      exact ⟨ss, rfl, hoks⟩
    | loopSeq hcnt hitems =>
      simp only [noBr, noBrList, Bool.and_eq_true] at hb
      exact loop_post (p := false) IH hc hk hcnt hitems hb.2.2.1.2 h
    | loopPar hcnt hitems =>
      simp only [noBr, noBrList, Bool.and_eq_true] at hb
      exact loop_post (p := true) IH hc hk hcnt hitems hb.2.2.1.2 h
    | sub hcnt hitems =>
      simp only [noBr, noBrList, Bool.and_eq_true] at hb
      exact sub_post IH hc hk hcnt hitems hb.2.2 h

end Jaqal.RoundTrip
