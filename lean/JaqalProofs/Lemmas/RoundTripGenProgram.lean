import JaqalProofs.Lemmas.RoundTripGenText
/-!
# C01, text layer: header lines, macros, and the whole program
-/
set_option linter.unusedSimpArgs false
set_option linter.unusedVariables false
namespace Jaqal.RoundTrip
open Jaqal Jaqal.Lexer Jaqal.NumText Jaqal.Pipeline Jaqal.Generator

/-! ## `from … usepulses *` -/

theorem step_dotident {w : List Char} (hw : IdentShape w) {cs : List Char} (hs : StopId cs) :
    step ('.' :: w ++ cs) = .token (.DOTIDENTIFIER (String.ofList ('.' :: w))) cs 0 := by
  have hm := mIdent_append hw hs
  have h1 : mNL ('.' :: (w ++ cs)) = none := by simp [mNL, spanP]
  have h2 : mIdent ('.' :: (w ++ cs)) = none := by simp [mIdent, isAlpha_]
  have h3 : mDotIdent ('.' :: (w ++ cs)) = some ('.' :: w, cs) := by simp [mDotIdent, hm]
  simp only [List.cons_append, step, h1, h2, h3]

theorem step_dot {cs : List Char} (hs : StopId cs) : step ('.' :: cs) = .token (.DOTIDENTIFIER ".") cs 0 := by
  have h1 : mNL ('.' :: cs) = none := by simp [mNL, spanP]
  have h2 : mIdent ('.' :: cs) = none := by simp [mIdent, isAlpha_]
  have h3 : mIdent cs = none := by
    cases cs with
    | nil => rfl
    | cons c r =>
      obtain ⟨ha, _⟩ := hs c rfl
      have : isAlpha_ c = false := by
        simp only [isAlnum_, Bool.or_eq_false_iff] at ha
        exact ha.1
      simp [mIdent, this]
  have h4 : mDotIdent ('.' :: cs) = some (['.'], cs) := by simp [mDotIdent, h3]
  simp only [step, h1, h2, h4]

/-- a module name: an identifier, or a dot followed by one, or a dot -/
def SafeMod (m : String) : Prop :=
  (∃ w, m.toList = '.' :: w ∧ IdentShape w) ∨ (m.toList.head? ≠ some '.' ∧ LegalName m) ∨ m = "."

theorem spell_mod {m : String} (hm : SafeMod m) {cs : List Char} {ts : List Tok} (hd : Delim cs) (h : Spells cs ts) :
    Spells (m.toList ++ cs) (modTok m :: ts) := by
  rcases hm with ⟨w, hw, hsh⟩ | ⟨hnd, hl⟩ | rfl
  rotate_left
  rotate_left
  · have hst := step_dot hd.stopId
    exact Spells.tok (c := '.') (by decide) hst h
  · have hst := step_dotident hsh hd.stopId
    have hmod : modTok m = .DOTIDENTIFIER m := by simp [modTok, hw]
    have hof : String.ofList ('.' :: w) = m := by rw [← hw, String.ofList_toList]
    rw [hmod, hw]
    rw [hof] at hst
    exact Spells.tok (c := '.') (by decide) hst h
  · have hmod : modTok m = .IDENTIFIER m := by simp [modTok, hnd]
    rw [hmod]
    exact Spells.name hl hd h

theorem legal_head_notnl {w : List Char} (h : IdentShape w) : NotNL w := by
  obtain ⟨c, a, rfl, hc, _⟩ := h
  simpa [NotNL] using alpha_not_nl hc

theorem spell_usepulses {u : String × String} (hstar : (u.2 == "*") = true) (hm : SafeMod u.1) {cs : List Char}
    {ts : List Tok} (K : SpellsNL cs ts) :
    ∃ t, genUsepulses u = .ok t ∧ Spells (t.toList ++ cs) (usepulsesToks u ++ Tok.NL :: ts) ∧
      NotNL (t.toList ++ cs) := by
  refine ⟨"from " ++ u.1 ++ " usepulses *\n", by simp [genUsepulses, hstar, pure, Except.pure], ?_, ?_⟩
  · have h0 := Spells.endline K
    have h1 := Spells.punct (c := '*') (by decide) rfl h0
    have h2 := Spells.space h1
    have h3 := Spells.keyword "usepulses" .USEPULSES shape_usepulses rfl (delim_space _) h2
    have h4 := Spells.space h3
    have h5 := spell_mod hm (delim_space _) h4
    have h6 := Spells.space h5
    have h7 := Spells.keyword "from" .FROM shape_from rfl (delim_space _) h6
    simpa [usepulsesToks, String.toList_append, List.append_assoc] using h7
  · simp [NotNL, String.toList_append]

/-! ## `let` -/

def SafeLet : Val → Prop
  | .const n (.int i) => LegalName n ∧ IntOK i
  | .const n (.flt d) => LegalName n ∧ FloatOK d
  | _ => True

theorem spell_let {v : Val} (hok : okLet v = true) (hs : SafeLet v) {cs : List Char} {ts : List Tok}
    (K : SpellsNL cs ts) :
    ∃ t, genLet v = .ok t ∧ Spells (t.toList ++ cs) (letToks v ++ Tok.NL :: ts) ∧ NotNL (t.toList ++ cs) := by
  cases v with
  | const n x =>
    cases x <;> simp [okLet] at hok
    · rename_i i
      refine ⟨"let " ++ n ++ " " ++ genInt i ++ "\n", by simp [genLet, joinValue, genValue, pure, Except.pure, bind, Except.bind], ?_, by simp [NotNL, String.toList_append]⟩
      have h0 := Spells.endline K
      have h1 := Spells.int hs.2 (delim_nl _).stopInt h0
      have h2 := Spells.space h1
      have h3 := Spells.name hs.1 (delim_space _) h2
      have h4 := Spells.space h3
      have h5 := Spells.keyword "let" .LET shape_let rfl (delim_space _) h4
      simpa [letToks, String.toList_append, List.append_assoc, genInt_toList] using h5
    · rename_i d
      refine ⟨"let " ++ n ++ " " ++ genFloat d ++ "\n", by simp [genLet, joinValue, genValue, pure, Except.pure, bind, Except.bind], ?_, by simp [NotNL, String.toList_append]⟩
      have h0 := Spells.endline K
      have h1 := Spells.float hs.2.1 hs.2.2 (delim_nl _).stop h0
      have h2 := Spells.space h1
      have h3 := Spells.name hs.1 (delim_space _) h2
      have h4 := Spells.space h3
      have h5 := Spells.keyword "let" .LET shape_let rfl (delim_space _) h4
      simpa [letToks, String.toList_append, List.append_assoc, genFloat_toList] using h5
  | _ => simp [okLet] at hok

/-! ## `register`, `map` -/

def SafeDecl : Val → Prop
  | .regF n size => LegalName n ∧ SafeRef size
  | .qubit n src idx => LegalName n ∧ LegalName (Pipeline.nameOf src) ∧ SafeRef idx
  | .regA n src => LegalName n ∧ LegalName (Pipeline.nameOf src)
  | .regS n src a b c => LegalName n ∧ LegalName (Pipeline.nameOf src) ∧ SafeRef a ∧ SafeRef b ∧ SafeRef c
  | _ => True

theorem okRegister_ref {n : String} {size : Val} (h : okRegister (.regF n size) = true) : okRef size = true := by
  cases size <;> simp [okRegister] at h <;> rfl

theorem spell_reg {v : Val} (hf : isFund v = true) (hok : okRegister v = true) (hs : SafeDecl v) {cs : List Char}
    {ts : List Tok} (K : SpellsNL cs ts) :
    ∃ t, genReg v = .ok t ∧ Spells (t.toList ++ cs) (regToks v ++ Tok.NL :: ts) ∧ NotNL (t.toList ++ cs) := by
  cases v with
  | regF n size =>
    have hr := okRegister_ref hok
    refine ⟨"register " ++ n ++ "[" ++ refStr size ++ "]\n",
      by simp [genReg, joinValue_ref hr, pure, Except.pure, bind, Except.bind], ?_, by simp [NotNL, String.toList_append]⟩
    have h0 := Spells.endline K
    have h1 := Spells.punct (c := ']') (by decide) rfl h0
    have h2 := spell_ref hr hs.2 (delim_rb _) h1
    have h3 := Spells.punct (c := '[') (by decide) rfl h2
    have h4 := Spells.name hs.1 (delim_lb _) h3
    have h5 := Spells.space h4
    have h6 := Spells.keyword "register" .REG shape_register rfl (delim_space _) h5
    simpa [regToks, String.toList_append, List.append_assoc] using h6
  | _ => simp [isFund] at hf

theorem nameAttr_of {v : Val} (h : v.name?.isSome = true) : nameAttr v = .ok (Pipeline.nameOf v) := by
  unfold nameAttr Pipeline.nameOf
  cases hn : v.name? with
  | none => simp [hn] at h
  | some n => simp [pure, Except.pure]

theorem truthy_ref {v : Val} (h : okRef v = true) : truthy v = .ok (writesStep v) := by
  cases v <;> simp [okRef] at h <;> simp [truthy, writesStep, pure, Except.pure]

theorem pctValue_ref {v : Val} (h : okRef v = true) : pctValue v = refStr v := by
  simp [pctValue, genValue_ref h]

theorem spell_map {v : Val} (hf : isFund v = false) (hok : okMap v = true) (hs : SafeDecl v) {cs : List Char}
    {ts : List Tok} (K : SpellsNL cs ts) :
    ∃ t, genMap v = .ok t ∧ Spells (t.toList ++ cs) (mapToks v ++ Tok.NL :: ts) ∧ NotNL (t.toList ++ cs) := by
  have h0 := Spells.endline K
  cases v with
  | qubit n src idx =>
    simp only [okMap, Bool.and_eq_true] at hok
    refine ⟨"map " ++ n ++ " " ++ Pipeline.nameOf src ++ "[" ++ refStr idx ++ "]\n",
      by simp [genMap, nameAttr_of hok.1, joinValue_ref hok.2, pure, Except.pure, bind, Except.bind], ?_,
      by simp [NotNL, String.toList_append]⟩
    have h1 := Spells.punct (c := ']') (by decide) rfl h0
    have h2 := spell_ref hok.2 hs.2.2 (delim_rb _) h1
    have h3 := Spells.punct (c := '[') (by decide) rfl h2
    have h4 := Spells.name hs.2.1 (delim_lb _) h3
    have h5 := Spells.space h4
    have h6 := Spells.name hs.1 (delim_space _) h5
    have h7 := Spells.space h6
    have h8 := Spells.keyword "map" .MAP shape_map rfl (delim_space _) h7
    simpa [mapToks, String.toList_append, List.append_assoc] using h8
  | regA n src =>
    simp only [okMap] at hok
    refine ⟨"map " ++ n ++ " " ++ Pipeline.nameOf src ++ "\n",
      by simp [genMap, nameAttr_of hok, pure, Except.pure, bind, Except.bind], ?_, by simp [NotNL, String.toList_append]⟩
    have h4 := Spells.name hs.2 (delim_nl _) h0
    have h5 := Spells.space h4
    have h6 := Spells.name hs.1 (delim_space _) h5
    have h7 := Spells.space h6
    have h8 := Spells.keyword "map" .MAP shape_map rfl (delim_space _) h7
    simpa [mapToks, String.toList_append, List.append_assoc] using h8
  | regS n src a b c =>
    simp only [okMap, Bool.and_eq_true] at hok
    obtain ⟨⟨⟨hsrc, ha⟩, hb⟩, hc⟩ := hok
    obtain ⟨hn, hsn, hsa, hsb, hsc⟩ := hs
    have hstart : (if writesStep a then a else Val.int 0) = a ∨ a = .int 0 := by
      cases a <;> simp [okRef] at ha <;> simp [writesStep]
      rename_i i
      by_cases hi : i = 0 <;> simp [hi]
    have hpa : pctValue (if writesStep a then a else Val.int 0) = refStr a := by
      rcases hstart with h | h
      · rw [h]; exact pctValue_ref ha
      · subst h; rfl
    have h1 := Spells.punct (c := ']') (by decide) rfl h0
    by_cases hw : writesStep c = true
    · refine ⟨"map " ++ n ++ " " ++ Pipeline.nameOf src ++ "[" ++ (refStr a ++ ":" ++ refStr b ++ ":" ++ refStr c) ++ "]\n",
        by simp [genMap, nameAttr_of hsrc, notateSlice, truthy_ref ha, truthy_ref hc, hw, hpa, pctValue_ref hb,
          pctValue_ref hc, pure, Except.pure, bind, Except.bind], ?_, by simp [NotNL, String.toList_append]⟩
      have h2 := spell_ref hc hsc (delim_rb _) h1
      have h3 := Spells.punct (c := ':') (by decide) rfl h2
      have h4 := spell_ref hb hsb (delim_colon _) h3
      have h5 := Spells.punct (c := ':') (by decide) rfl h4
      have h6 := spell_ref ha hsa (delim_colon _) h5
      have h7 := Spells.punct (c := '[') (by decide) rfl h6
      have h8 := Spells.name hsn (delim_lb _) h7
      have h9 := Spells.space h8
      have h10 := Spells.name hn (delim_space _) h9
      have h11 := Spells.space h10
      have h12 := Spells.keyword "map" .MAP shape_map rfl (delim_space _) h11
      simpa [mapToks, stepToks, hw, String.toList_append, List.append_assoc] using h12
    · have hw' : writesStep c = false := by simpa using hw
      refine ⟨"map " ++ n ++ " " ++ Pipeline.nameOf src ++ "[" ++ (refStr a ++ ":" ++ refStr b) ++ "]\n",
        by simp [genMap, nameAttr_of hsrc, notateSlice, truthy_ref ha, truthy_ref hc, hw', hpa, pctValue_ref hb,
          pure, Except.pure, bind, Except.bind], ?_, by simp [NotNL, String.toList_append]⟩
      have h4 := spell_ref hb hsb (delim_rb _) h1
      have h5 := Spells.punct (c := ':') (by decide) rfl h4
      have h6 := spell_ref ha hsa (delim_colon _) h5
      have h7 := Spells.punct (c := '[') (by decide) rfl h6
      have h8 := Spells.name hsn (delim_lb _) h7
      have h9 := Spells.space h8
      have h10 := Spells.name hn (delim_space _) h9
      have h11 := Spells.space h10
      have h12 := Spells.keyword "map" .MAP shape_map rfl (delim_space _) h11
      simpa [mapToks, stepToks, hw', String.toList_append, List.append_assoc] using h12
  | _ => simp [okMap] at hok

/-! ## macros -/

theorem spell_params : ∀ (ps : List String), (∀ p ∈ ps, LegalName p) → ∀ {X : List Char} {T : List Tok},
    Spells X T → Spells (ps.flatMap (fun s => ' ' :: s.toList) ++ ' ' :: X) (ps.map Tok.IDENTIFIER ++ T)
  | [], _, X, T, h => Spells.space h
  | p :: ps, hl, X, T, h => by
    have ih := spell_params ps (fun q hq => hl q (by simp [hq])) h
    have hd : Delim (ps.flatMap (fun s => ' ' :: s.toList) ++ ' ' :: X) := by
      cases ps with
      | nil => exact delim_space _
      | cons q qs => exact delim_space _
    have := Spells.space (Spells.name (hl p (by simp)) hd ih)
    simpa [List.flatMap_cons, List.append_assoc] using this

theorem spell_params_text (ps : List String) {X : List Char} {T : List Tok}
    (h : Spells (ps.flatMap (fun s => ' ' :: s.toList) ++ ' ' :: X) T) :
    Spells (' ' :: ((" ".intercalate ps).toList ++ ' ' :: X)) T := by
  cases ps with
  | nil => simpa [String.intercalate] using Spells.space h
  | cons p qs =>
    rw [inter_toList]
    simpa [List.flatMap_cons, List.append_assoc] using h

theorem spell_macro {m : Macro} (hok : okMacro m = true) (hn : LegalName m.name) (hps : ∀ p ∈ m.params, LegalName p.1)
    (hs : SafeStmt m.body) {cs : List Char} {ts : List Tok} (K : SpellsNL cs ts) :
    ∃ t, genMacro m = .ok t ∧ Spells (t.toList ++ cs) (macroToks m ++ Tok.NL :: ts) ∧ NotNL (t.toList ++ cs) := by
  unfold okMacro at hok
  cases hb : m.body with
  | gate _ _ _ => rw [hb] at hok; simp at hok
  | loop _ _ => rw [hb] at hok; simp at hok
  | block par sub it b =>
    rw [hb] at hok hs
    simp only [Bool.and_eq_true, Bool.not_eq_true'] at hok
    obtain ⟨hsub, hitems⟩ := hok
    subst hsub
    simp only [SafeStmt] at hs
    obtain ⟨op, inner, hop, hinner, hsp, _⟩ := spell_block_core false 0 par false it b (by intro h; cases h) hs.1
      (fun K' => spell_items 1 hitems hs.2 K') K.nl
    refine ⟨"macro " ++ m.name ++ " " ++ " ".intercalate (m.params.map (·.1)) ++ " " ++ op ++ inner ++
      blockClose 0 par ++ "\n", by simp only [genMacro, hb, hop, hinner, bind, Except.bind, pure, Except.pure], ?_,
      by simp [NotNL, String.toList_append]⟩
    have h0 : Spells ((op ++ inner ++ blockClose 0 par).toList ++ '\n' :: cs)
        (openTok par :: Tok.NL :: (itemsToks par b ++ [closeTok par]) ++ Tok.NL :: ts) := by simpa using hsp
    have hpl : ∀ p ∈ m.params.map (·.1), LegalName p := by
      intro p hp
      simp only [List.mem_map] at hp
      obtain ⟨q, hq, rfl⟩ := hp
      exact hps q hq
    have h1 := spell_params_text _ (spell_params (m.params.map (·.1)) hpl h0)
    have hd : Delim (' ' :: ((" ".intercalate (m.params.map (·.1))).toList ++ ' ' ::
        ((op ++ inner ++ blockClose 0 par).toList ++ '\n' :: cs))) := delim_space _
    have h2 := Spells.name hn hd h1
    have h3 := Spells.space h2
    have h4 := Spells.keyword "macro" .MACRO shape_macro rfl (delim_space _) h3
    simpa [macroToks, hb, String.toList_append, List.append_assoc, List.map_map, Function.comp_def] using h4

/-! ## the whole program -/

/-- every name of the circuit is read back as one identifier, every float is a canonical decimal in range, every int
has at most 4300 digits -/
structure LexSafe (c : Circuit) : Prop where
  mods : ∀ u ∈ c.usepulses, SafeMod u.1
  lets : ∀ v ∈ c.constants, SafeLet v
  regs : ∀ v ∈ c.registers, SafeDecl v
  macros : ∀ m ∈ c.macros, LegalName m.name ∧ (∀ p ∈ m.params, LegalName p.1) ∧ SafeStmt m.body
  body : ∀ s ∈ c.body.stmts, SafeStmt s

theorem fundamentalAttr_decl {v : Val} (h : (if isFund v then okRegister v else okMap v) = true) :
    fundamentalAttr v = .ok (isFund v) := by
  cases v <;> simp [isFund, okRegister, okMap] at h <;> rfl

theorem concatM_congr {α : Type} {f g : α → M String} : ∀ (l : List α), (∀ x ∈ l, f x = g x) →
    concatM f l = concatM g l
  | [], _ => rfl
  | x :: xs, h => by
    simp only [concatM, h x (by simp), concatM_congr xs (fun y hy => h y (by simp [hy]))]

theorem concatM_filter {α : Type} (p : α → Bool) (f : α → M String) : ∀ (l : List α),
    concatM (fun r => if p r = true then f r else pure "") l = concatM f (l.filter p)
  | [] => rfl
  | x :: xs => by
    cases hp : p x
    · simp only [concatM, hp, Bool.false_eq_true, if_false, List.filter_cons, concatM_filter p f xs, pure_bind]
      cases concatM f (List.filter p xs) with
      | error e => rfl
      | ok t => simp [bind, Except.bind, pure, Except.pure]
    · simp only [concatM, hp, if_true, List.filter_cons, concatM_filter p f xs]

theorem concatM_regs (f : Val → M String) (l : List Val)
    (h : ∀ v ∈ l, (if isFund v then okRegister v else okMap v) = true) :
    concatM (fun r => do if ← fundamentalAttr r then f r else pure "") l = concatM f (l.filter isFund) := by
  rw [← concatM_filter]
  apply concatM_congr
  intro v hv
  simp only [fundamentalAttr_decl (h v hv), bind, Except.bind]

theorem concatM_maps (f : Val → M String) (l : List Val)
    (h : ∀ v ∈ l, (if isFund v then okRegister v else okMap v) = true) :
    concatM (fun r => do if !(← fundamentalAttr r) then f r else pure "") l =
      concatM f (l.filter (fun r => !isFund r)) := by
  rw [← concatM_filter]
  apply concatM_congr
  intro v hv
  simp only [fundamentalAttr_decl (h v hv), bind, Except.bind]

theorem spells_of_notNL {X : List Char} {T : List Tok} (h : SpellsNL X T) (hn : NotNL X) : Spells X T := by
  obtain ⟨k, cs', rfl, _, hsp⟩ := h
  cases k with
  | zero => simpa using hsp
  | succ k => simp [NotNL, List.replicate_succ] at hn

/-- a section followed by a blank line when it is not empty -/
theorem section_blank {α : Type} (l : List α) {cs : List Char} {ts : List Tok} (K : SpellsNL cs ts) :
    SpellsNL (if l.isEmpty then cs else '\n' :: cs) ts := by
  cases l with
  | nil => simpa using K
  | cons x xs => simpa using K.nl

theorem lines_eq_nil {α : Type} {f : α → List Tok} {l : List α} (h : lines f l = []) : l = [] := by
  cases l with
  | nil => rfl
  | cons x xs => simp [lines] at h

/-- **The generated text spells the tokens `toks c`.** -/
theorem gen_spells (c : Circuit) (hp : printable c = true) (hs : LexSafe c) :
    ∃ t, gen c = .ok t ∧ Spells t.toList (toks c) := by
  unfold printable at hp
  simp only [Bool.and_eq_true, List.all_eq_true] at hp
  obtain ⟨⟨⟨⟨hstar, hlets⟩, hregs⟩, hmacros⟩, hbody⟩ := hp
  -- the body
  obtain ⟨b, hbd, hbok⟩ : ∃ b, c.body.stmts = b ∧ iterBody c.body = .ok b ∧ ∀ s ∈ b, okTop s = true := by
    cases hb : c.body with
    | block p sub it b =>
      rw [hb] at hbody
      simp only [List.all_eq_true] at hbody
      exact ⟨b, rfl, rfl, hbody⟩
    | gate _ _ _ => rw [hb] at hbody; simp at hbody
    | loop _ _ => rw [hb] at hbody; simp at hbody
  obtain ⟨hiter, hbok⟩ := hbok
  have hsb := hs.body
  rw [hbd] at hsb
  obtain ⟨tb, htb, hSb, _⟩ := spell_concatM (genStmt 0) stmtToks b
    (fun s hsm => fun K => spell_top (hbok s hsm) (hsb s hsm) K) SpellsNL.nil
  obtain ⟨tm, htm, hSm, _⟩ := spell_concatM genMacro macroToks c.macros
    (fun m hm => fun K => spell_macro (hmacros m hm) (hs.macros m hm).1 (hs.macros m hm).2.1 (hs.macros m hm).2.2 K) hSb
  -- aliases, then the blank line after them when there is more than one register
  have hSm' : SpellsNL (if c.registers.length > 1 then '\n' :: (tm.toList ++ (tb.toList ++ [])) else
      (tm.toList ++ (tb.toList ++ []))) (lines macroToks c.macros ++ (lines stmtToks b ++ [])) := by
    split
    · exact hSm.nl
    · exact hSm
  obtain ⟨tmap, htmap, hSmap, _⟩ := spell_concatM genMap mapToks (c.registers.filter (fun r => !isFund r))
    (fun v hv => fun K => by
      have hm := List.mem_filter.mp hv
      have hok := hregs v hm.1
      have hf : isFund v = false := by simpa using hm.2
      simp only [hf, Bool.false_eq_true, if_false] at hok
      exact spell_map hf hok (hs.regs v hm.1) K) hSm'
  -- the unconditional blank line, the register
  obtain ⟨tr, htr, hSr, hNr⟩ := spell_concatM genReg regToks (c.registers.filter isFund)
    (fun v hv => fun K => by
      have hm := List.mem_filter.mp hv
      have hok := hregs v hm.1
      simp only [hm.2, if_true] at hok
      exact spell_reg hm.2 hok (hs.regs v hm.1) K) hSmap.nl
  obtain ⟨tl, htl, hSl, hNl⟩ := spell_concatM genLet letToks c.constants
    (fun v hv => fun K => spell_let (hlets v hv) (hs.lets v hv) K) (section_blank c.constants hSr)
  obtain ⟨tu, htu, hSu, hNu⟩ := spell_concatM genUsepulses usepulsesToks c.usepulses
    (fun u hu => fun K => spell_usepulses (hstar u hu) (hs.mods u hu) K) (section_blank c.usepulses hSl)
  -- the text
  refine ⟨(if c.usepulses.isEmpty then tu else tu ++ "\n") ++ (if c.constants.isEmpty then tl else tl ++ "\n") ++ tr ++
    "\n" ++ (if c.registers.length > 1 then tmap ++ "\n" else tmap) ++ tm ++ tb, ?_, ?_⟩
  · simp only [gen, concatM_regs genReg c.registers hregs, concatM_maps genMap c.registers hregs]
    simp only [htu, htl, htr, htmap, htm, hiter, htb, bind, Except.bind, pure, Except.pure]
  · -- one list of characters for the whole text
    have htext : ((if c.usepulses.isEmpty then tu else tu ++ "\n") ++ (if c.constants.isEmpty then tl else tl ++ "\n") ++
        tr ++ "\n" ++ (if c.registers.length > 1 then tmap ++ "\n" else tmap) ++ tm ++ tb).toList =
        tu.toList ++ (if c.usepulses.isEmpty then
          tl.toList ++ (if c.constants.isEmpty then tr.toList ++ '\n' :: (tmap.toList ++
            (if c.registers.length > 1 then '\n' :: (tm.toList ++ (tb.toList ++ [])) else tm.toList ++ (tb.toList ++ [])))
          else '\n' :: (tr.toList ++ '\n' :: (tmap.toList ++
            (if c.registers.length > 1 then '\n' :: (tm.toList ++ (tb.toList ++ [])) else tm.toList ++ (tb.toList ++ [])))))
        else '\n' :: (tl.toList ++ (if c.constants.isEmpty then tr.toList ++ '\n' :: (tmap.toList ++
            (if c.registers.length > 1 then '\n' :: (tm.toList ++ (tb.toList ++ [])) else tm.toList ++ (tb.toList ++ [])))
          else '\n' :: (tr.toList ++ '\n' :: (tmap.toList ++
            (if c.registers.length > 1 then '\n' :: (tm.toList ++ (tb.toList ++ [])) else tm.toList ++ (tb.toList ++ []))))))) := by
      split <;> split <;> split <;> simp [String.toList_append, List.append_assoc]
    rw [htext]
    have htoks : toks c = (if (headerToks c).isEmpty then [Tok.NL] else []) ++
        (lines usepulsesToks c.usepulses ++ (lines letToks c.constants ++ (lines regToks (c.registers.filter isFund) ++
          (lines mapToks (c.registers.filter (fun r => !isFund r)) ++ (lines macroToks c.macros ++
            (lines stmtToks b ++ [])))))) := by
      simp [toks, headerToks, hbd, List.append_assoc]
    rw [htoks]
    by_cases hu : c.usepulses = []
    · by_cases hl : c.constants = []
      · by_cases hr : c.registers.filter isFund = []
        · -- no header line at all: the text begins with the blank line
          have hh : (headerToks c).isEmpty = true := by simp [headerToks, hu, hl, hr, lines]
          have htu0 : tu = "" := by rw [hu] at htu; simpa [concatM, pure, Except.pure] using htu.symm
          have htl0 : tl = "" := by rw [hl] at htl; simpa [concatM, pure, Except.pure] using htl.symm
          have htr0 : tr = "" := by rw [hr] at htr; simpa [concatM, pure, Except.pure] using htr.symm
          simp only [hh, if_true, hu, hl, hr, lines, List.isEmpty_nil, htu0, htl0, htr0, String.toList_empty,
            List.nil_append, List.singleton_append]
          have := Spells.endline hSmap
          simpa [hr, lines] using this
        · have hh : (headerToks c).isEmpty = false := by
            cases hx : (headerToks c).isEmpty
            · rfl
            · exfalso
              have : headerToks c = [] := by simpa using hx
              simp only [headerToks, List.append_eq_nil_iff] at this
              exact hr (lines_eq_nil this.2)
          have htu0 : tu = "" := by rw [hu] at htu; simpa [concatM, pure, Except.pure] using htu.symm
          have htl0 : tl = "" := by rw [hl] at htl; simpa [concatM, pure, Except.pure] using htl.symm
          obtain ⟨hsp, _⟩ := hNr hr
          simp only [hh, Bool.false_eq_true, if_false, hu, hl, lines, List.isEmpty_nil, if_true, htu0, htl0,
            String.toList_empty, List.nil_append]
          exact hsp
      · have hh : (headerToks c).isEmpty = false := by
          cases hx : (headerToks c).isEmpty
          · rfl
          · exfalso
            have : headerToks c = [] := by simpa using hx
            simp only [headerToks, List.append_eq_nil_iff] at this
            exact hl (lines_eq_nil this.1.2)
        have htu0 : tu = "" := by rw [hu] at htu; simpa [concatM, pure, Except.pure] using htu.symm
        obtain ⟨hsp, _⟩ := hNl hl
        have hle : c.constants.isEmpty = false := by cases hc : c.constants <;> simp_all
        simp only [hh, Bool.false_eq_true, if_false, hu, lines, List.isEmpty_nil, if_true, htu0, String.toList_empty,
          List.nil_append, hle]
        simpa [hle] using hsp
    · have hh : (headerToks c).isEmpty = false := by
        cases hx : (headerToks c).isEmpty
        · rfl
        · exfalso
          have : headerToks c = [] := by simpa using hx
          simp only [headerToks, List.append_eq_nil_iff] at this
          exact hu (lines_eq_nil this.1.1)
      obtain ⟨hsp, _⟩ := hNu hu
      have hue : c.usepulses.isEmpty = false := by cases hc : c.usepulses <;> simp_all
      simp only [hh, Bool.false_eq_true, if_false, List.nil_append, hue]
      simpa [hue] using hsp

/-- **Layer B.** For a printable circuit whose names, floats and ints the lexer can read back, the generator does not
raise, and lexing its text gives exactly the tokens `toks c`. -/
theorem lex_gen (c : Circuit) (hp : printable c = true) (hs : LexSafe c) :
    ∃ t pts, gen c = .ok t ∧ lex t = .ok pts ∧ pts.map (·.tok) = toks c := by
  obtain ⟨t, ht, hsp⟩ := gen_spells c hp hs
  obtain ⟨pts, hl, hm⟩ := spells_lex hsp
  exact ⟨t, pts, ht, hl, hm⟩

end Jaqal.RoundTrip
