import JaqalProofs.Props.C01
/-!
# The builder with `autoload_pulses=True` is the builder with the loaded gate table injected

`Props/C01.lean`, `Lemmas/ParsedParserLike.lean` prove their facts about parser-produced circuits under
`cfg.autoload = false`.  The hypothesis enters in exactly one place, the `usepulses` case of `stepTail`
(`Model/Builder.lean`): with autoload on, a `usepulses` statement

* is refused once a statement or a macro has been built ("pulses-after-first-gate-or-macro"),
* needs `cfg.imports name` to be there (`ImportError` otherwise),
* replaces the gate table and the native-gate table by `updateGates … (cfg.imports name)` and resets the memo.

Everything else of the builder looks at `cfg` only through `cfg.anonymousAllowed` (false with autoload on).

This file removes the hypothesis by simulation rather than by redoing the proofs.  For a program of the grammar
(`hs ++ bs`: header statements, then body statements — `derives_gprogram`):

* `auto_to_plain` — if the autoload builder accepts the children and accumulates `accF`, then the builder with autoload
  OFF (`plain cfg`: unknown gates refused, like every autoload configuration), started from the FINAL native table
  `accF.natives`, accepts the same children and accumulates the same `accF`; and `accF.natives` is what loading the
  modules `accF.usepulses` in order makes of the injected table (`importAll`).
* `plain_to_auto` — conversely, on children `usepulses… ++ rest` (the generator's order) where the `usepulses` modules
  load to the table `N`, a run of the plain builder from `N` is a run of the autoload builder from the injected table.

The loop-level lemmas of the C01 chain (`loop_inv`, `loop_rebuild`, `reorder_loop`, `regInv_loop`, `safe_loop`,
`ref_loop`) are stated for any starting accumulator and any `inject`, so they apply to the plain run; the wrappers at the
end of this file restate the `buildNoMemo_…` theorems for EVERY configuration.
-/
set_option linter.unusedSimpArgs false
set_option linter.unusedVariables false
namespace Jaqal.Autoload
open Jaqal Jaqal.Builder Jaqal.Pipeline Jaqal.RoundTrip Jaqal.PyEq

/-! ## the builder sees `cfg` through `anonymousAllowed` only (outside `usepulses`) -/

theorem getGateDef_congr {cfg cfg' : Config} (h : cfg.anonymousAllowed = cfg'.anonymousAllowed) (name : String)
    (argc : Nat) (g : GCtx) : getGateDef cfg name argc g = getGateDef cfg' name argc g := by
  unfold getGateDef
  rw [h]

theorem buildGate_congr {cfg cfg' : Config} (h : cfg.anonymousAllowed = cfg'.anonymousAllowed) (mode : KeyMode)
    (ctx : Ctx) (recV : BSx → M Val) (args : List BSx) (st : St) :
    buildGate cfg mode ctx recV args st = buildGate cfg' mode ctx recV args st := by
  unfold buildGate buildGateMemo buildGateFresh
  simp only [getGateDef_congr h]

theorem anyStep_congr {cfg cfg' : Config} (h : cfg.anonymousAllowed = cfg'.anonymousAllowed) (mode : KeyMode)
    (recA : Ctx → BSx → St → M (Obj × St)) (recV : BSx → M Val) (ctx : Ctx) (l : List BSx) (st : St) :
    anyStep cfg mode recA recV ctx l st = anyStep cfg' mode recA recV ctx l st := by
  unfold anyStep
  simp only [buildGate_congr h]

theorem buildAny_congr {cfg cfg' : Config} (h : cfg.anonymousAllowed = cfg'.anonymousAllowed) (mode : KeyMode) :
    ∀ (f : Nat) (ctx : Ctx) (e : BSx) (st : St), buildAny cfg mode f ctx e st = buildAny cfg' mode f ctx e st := by
  intro f
  induction f with
  | zero => intro ctx e st; cases e <;> rfl
  | succ f ih =>
    intro ctx e st
    cases e with
    | list l =>
      rw [buildAny_list, buildAny_list]
      have : buildAny cfg mode f = buildAny cfg' mode f := by
        funext c e s; exact ih c e s
      rw [this]
      exact anyStep_congr h mode _ _ ctx l st
    | _ => rfl

theorem stepTail_congr {cfg cfg' : Config} {mode : KeyMode} {inject inject' : Option (List (String × GateDef))}
    {acc : Acc} {o : Obj} {st : St} (ho : ∀ n, o ≠ .usepulses n) :
    stepTail cfg mode inject acc o st = stepTail cfg' mode inject' acc o st := by
  cases o with
  | usepulses n => exact absurd rfl (ho n)
  | val v => cases v <;> rfl
  | _ => rfl

/-- a step that does not build a `usepulses` statement leaves the module list and the native table alone -/
theorem stepTail_keeps {cfg : Config} {mode : KeyMode} {inject : Option (List (String × GateDef))}
    {acc a1 : Acc} {o : Obj} {st : St} (ho : ∀ n, o ≠ .usepulses n)
    (h : stepTail cfg mode inject acc o st = .ok a1) : a1.usepulses = acc.usepulses ∧ a1.natives = acc.natives := by
  cases o with
  | usepulses n => exact absurd rfl (ho n)
  | val v =>
    cases v <;> simp only [stepTail, throw_eq] at h <;> first
      | cases h
      | (obtain ⟨c, _, h2⟩ := bind_ok h
         cases h2
         exact ⟨rfl, rfl⟩)
  | «macro» m =>
    simp only [stepTail] at h
    obtain ⟨m', _, h2⟩ := bind_ok h
    split at h2
    · simp [throw_eq, bind, Except.bind] at h2
    · simp only [bind, Except.bind, pure, Except.pure] at h2
      cases h2
      exact ⟨rfl, rfl⟩
  | stmt s =>
    simp only [stepTail, pure, Except.pure] at h
    cases h
    exact ⟨rfl, rfl⟩
  | case => simp [stepTail, throw_eq] at h

/-- the loop over children none of which is a `usepulses` statement: the same in two configurations that agree on
`anonymousAllowed`, whatever `inject` -/
theorem loop_congr {cfg cfg' : Config} (h : cfg.anonymousAllowed = cfg'.anonymousAllowed)
    {inject inject' : Option (List (String × GateDef))} {F : Nat} :
    ∀ (bs : List BSx) (acc accF : Acc), (∀ e ∈ bs, notUse e = true) →
    circuitLoop cfg .off inject F acc bs = .ok accF →
    circuitLoop cfg' .off inject' F acc bs = .ok accF ∧ accF.usepulses = acc.usepulses ∧ accF.natives = acc.natives
  | [], acc, accF, _, hl => by
    simp only [circuitLoop, pure, Except.pure, Except.ok.injEq] at hl
    subst hl
    exact ⟨rfl, rfl, rfl⟩
  | e :: bs, acc, accF, hbs, hl => by
    simp only [circuitLoop] at hl
    obtain ⟨a1, hstep, hrest⟩ := bind_ok hl
    have hstep0 := hstep
    unfold circuitStep at hstep
    obtain ⟨⟨o, st⟩, hb, ht⟩ := bind_ok hstep
    have hnu : ∀ n, o ≠ .usepulses n := by
      intro n hn
      subst hn
      have h1 := buildAny_usepulses hb
      have h2 := hbs e (by simp)
      simp [notUse, h1] at h2
    obtain ⟨hr, hu, hn⟩ := loop_congr h bs a1 accF (fun x hx => hbs x (by simp [hx])) hrest
    obtain ⟨hu1, hn1⟩ := stepTail_keeps hnu ht
    refine ⟨?_, hu.trans hu1, hn.trans hn1⟩
    have hstep' : circuitStep cfg' .off inject' F acc e = .ok a1 := by
      unfold circuitStep
      rw [← buildAny_congr h, hb]
      simp only [bind, Except.bind]
      rw [← stepTail_congr (cfg := cfg) (inject := inject) hnu]
      exact ht
    simp only [circuitLoop, hstep', bind, Except.bind]
    exact hr

/-! ## header statements -/

/-- a header statement is built to a value or a `usepulses` statement, without looking at the configuration or at the
state -/
theorem buildAny_gheader {cfg : Config} {mode : KeyMode} {f : Nat} {ctx : Ctx} {e : BSx} {st s1 : St} {o : Obj}
    (he : GHeader e) (h : buildAny cfg mode f ctx e st = .ok (o, s1)) :
    s1 = st ∧ ((∃ v, o = .val v) ∨ ∃ n, o = .usepulses n) ∧
      ∀ (cfg' : Config) (st2 : St), buildAny cfg' mode f ctx e st2 = .ok (o, st2) := by
  cases f with
  | zero => cases he <;> simp [buildAny, throw_eq] at h
  | succ f =>
    have key : ∀ (cmd : String) (args : List BSx), (cmd = "register" ∨ cmd = "map" ∨ cmd = "let") →
        buildAny cfg mode (f + 1) ctx (.list (.str cmd :: args)) st = .ok (o, s1) →
        s1 = st ∧ ((∃ v, o = .val v) ∨ ∃ n, o = .usepulses n) ∧
          ∀ (cfg' : Config) (st2 : St), buildAny cfg' mode (f + 1) ctx (.list (.str cmd :: args)) st2 = .ok (o, st2) := by
      intro cmd args hcmd hb
      rw [buildAny_list, anyStep_value _ _ _ _ _ _ _ _ hcmd] at hb
      obtain ⟨v, hv, h1⟩ := bind_ok hb
      simp only [pure, Except.pure, Except.ok.injEq, Prod.mk.injEq] at h1
      obtain ⟨rfl, rfl⟩ := h1
      refine ⟨rfl, Or.inl ⟨v, rfl⟩, fun cfg' st2 => ?_⟩
      rw [buildAny_list, anyStep_value _ _ _ _ _ _ _ _ hcmd, hv]
      rfl
    cases he with
    | usepulses m =>
      rw [buildAny_usepulses_eq] at h
      cases h
      exact ⟨rfl, Or.inr ⟨m, rfl⟩, fun cfg' st2 => buildAny_usepulses_eq cfg' mode f ctx m st2⟩
    | letInt n i => exact key _ _ (Or.inr (Or.inr rfl)) h
    | letFlt n d => exact key _ _ (Or.inr (Or.inr rfl)) h
    | register n hs => exact key _ _ (Or.inl rfl) h
    | mapWhole n s' => exact key _ _ (Or.inr (Or.inl rfl)) h
    | mapIndex n s' hx => exact key _ _ (Or.inr (Or.inl rfl)) h
    | mapSlice n s' ha hb' hc => exact key _ _ (Or.inr (Or.inl rfl)) h

/-- the configuration with autoload switched off that refuses unknown gates, as every autoload configuration does -/
def plain (cfg : Config) : Config := { natives := some [], autoload := false, imports := cfg.imports }

theorem plain_autoload (cfg : Config) : (plain cfg).autoload = false := rfl

theorem plain_anon {cfg : Config} (ha : cfg.autoload = true) : cfg.anonymousAllowed = (plain cfg).anonymousAllowed := by
  simp [Config.anonymousAllowed, plain, ha]

/-- the accumulator with the gate table and the native table replaced -/
def twin (acc : Acc) (N : List (String × GateDef)) : Acc :=
  { acc with st := { memo := [], gctx := N.map wrapG }, natives := N }

/-- what loading the modules `ms` in order makes of the native table `N` (`none`: a module is missing) -/
def importAll (cfg : Config) (inject : Option (List (String × GateDef))) :
    List String → List (String × GateDef) → Option (List (String × GateDef))
  | [], N => some N
  | m :: ms, N =>
    match cfg.imports m with
    | Option.none => Option.none
    | some gs => importAll cfg inject ms (updateGates id inject gs N)

theorem importAll_snoc (cfg : Config) (inject : Option (List (String × GateDef))) :
    ∀ (ms : List String) (m : String) (N N1 : List (String × GateDef)) (gs : List GateDef),
      importAll cfg inject ms N = some N1 → cfg.imports m = some gs →
      importAll cfg inject (ms ++ [m]) N = some (updateGates id inject gs N1)
  | [], m, N, N1, gs, h, hm => by
    simp only [importAll, Option.some.injEq] at h
    subst h
    simp [importAll, hm]
  | m0 :: ms, m, N, N1, gs, h, hm => by
    simp only [importAll, List.cons_append] at h ⊢
    cases hi : cfg.imports m0 with
    | none => simp [hi] at h
    | some gs0 =>
      simp only [hi] at h ⊢
      exact importAll_snoc cfg inject ms m _ N1 gs h hm

/-- **Header phase, forward.**  The autoload builder on header statements: the plain builder, started from ANY native
table `N`, does the same to everything but the two gate tables; and the native table the autoload builder ends with is
what loading the new modules makes of the one it started from. -/
theorem header_fwd {cfg : Config} (ha : cfg.autoload = true) {inject inj' : Option (List (String × GateDef))} {F : Nat}
    (N : List (String × GateDef)) :
    ∀ (hs : List BSx) (acc accH : Acc), (∀ e ∈ hs, GHeader e) → circuitLoop cfg .off inject F acc hs = .ok accH →
      circuitLoop (plain cfg) .off inj' F (twin acc N) hs = .ok (twin accH N) ∧
      ∃ ms, accH.usepulses = acc.usepulses ++ ms ∧ importAll cfg inject ms acc.natives = some accH.natives
  | [], acc, accH, _, hl => by
    simp only [circuitLoop, pure, Except.pure, Except.ok.injEq] at hl
    subst hl
    exact ⟨rfl, [], by simp, rfl⟩
  | e :: hs, acc, accH, hhs, hl => by
    simp only [circuitLoop] at hl
    obtain ⟨a1, hstep, hrest⟩ := bind_ok hl
    unfold circuitStep at hstep
    obtain ⟨⟨o, st⟩, hb, ht⟩ := bind_ok hstep
    obtain ⟨hst, ho, hany⟩ := buildAny_gheader (hhs e (by simp)) hb
    subst hst
    obtain ⟨hr, ms, hu, hi⟩ := header_fwd ha N hs a1 accH (fun x hx => hhs x (by simp [hx])) hrest
    have hb' : buildAny (plain cfg) .off F (twin acc N).ctx e (twin acc N).st = .ok (o, (twin acc N).st) :=
      hany (plain cfg) (twin acc N).st
    rcases ho with ⟨v, rfl⟩ | ⟨n, rfl⟩
    · -- a value: both tables untouched
      have hk := stepTail_keeps (fun n hn => by cases hn) ht
      have ht' : stepTail (plain cfg) .off inj' (twin acc N) (.val v) (twin acc N).st = .ok (twin a1 N) := by
        cases v <;> simp only [stepTail, throw_eq] at ht ⊢ <;> first
          | cases ht
          | (obtain ⟨c, hc, h2⟩ := bind_ok ht
             cases h2
             simp only [twin, hc, bind, Except.bind, pure, Except.pure])
      refine ⟨?_, ms, by rw [hu, hk.1], by rw [← hk.2]; exact hi⟩
      simp only [circuitLoop, circuitStep, hb', bind, Except.bind]
      rw [ht']
      exact hr
    · rcases stepTail_usepulses_ok ht with ⟨hf, _⟩ | ⟨_, _, gs, hgs, rfl⟩
      · rw [ha] at hf; cases hf
      · have ht' : stepTail (plain cfg) .off inj' (twin acc N) (.usepulses n) (twin acc N).st =
            .ok (twin { acc with st := { memo := if KeyMode.off = KeyMode.noReset then acc.st.memo else [],
                                          gctx := updateGates GEntry.gdef inject gs acc.st.gctx },
                                 usepulses := acc.usepulses ++ [n],
                                 natives := updateGates id inject gs acc.natives } N) := by
          simp [stepTail, plain, twin, pure, Except.pure]
        refine ⟨?_, n :: ms, by rw [hu]; simp, by simp only [importAll, hgs]; exact hi⟩
        simp only [circuitLoop, circuitStep, hb', bind, Except.bind]
        rw [ht']
        exact hr


/-! ## whole programs, forward -/

theorem gheader_headerChild {e : BSx} (h : GHeader e) : headerChild e = true := by
  cases h <;> rfl

theorem notUse_of_rank {e : BSx} (h : rank e ≠ 0) : notUse e = true := by
  cases e with
  | list l =>
    cases l with
    | nil => rfl
    | cons x xs =>
      cases x with
      | str c =>
        by_cases hc : c = "usepulses"
        · subst hc; simp [rank] at h
        · simp [notUse, headCmd, hc]
      | _ => rfl
  | _ => rfl

theorem gtop_notUse {e : BSx} (h : GTop e) : notUse e = true :=
  notUse_of_rank (by have := rank_top_ge h; omega)

theorem twin_self {acc : Acc} (h : HInv acc) : twin acc acc.natives = acc := by
  obtain ⟨ctx, ⟨memo, gctx⟩, regs, consts, macros, stmts, ups, nats⟩ := acc
  have h1 := h.memo
  have h2 := h.gctx
  simp only at h1 h2
  subst h1
  subst h2
  rfl

theorem hinv_acc0 {inject : Option (List (String × GateDef))} (hnat : NatOK (inject.getD [])) : HInv (acc0 inject) :=
  ⟨rfl, rfl, rfl, rfl, hnat⟩

theorem inject_natOK {cfg : Config} {inject : Option (List (String × GateDef))} (hinj : cfg.inject = .ok inject) :
    NatOK (inject.getD []) := by
  unfold Config.inject at hinj
  cases hn : cfg.natives with
  | none => simp [hn, pure, Except.pure] at hinj; subst hinj; exact ⟨fun p hp => (by cases hp), by simp⟩
  | some gs =>
    simp only [hn] at hinj
    obtain ⟨d, hd, h4⟩ := bind_ok hinj
    simp only [pure, Except.pure] at h4
    cases h4
    exact normNatives_natOK hd

/-- `topInv_acc0` for any well-formed injected table -/
theorem topInv_acc0_nat (cfg : Config) {inject : Option (List (String × GateDef))} (hnat : NatOK (inject.getD [])) :
    TopInv (acc0 inject) := by
  have hB : BInv cfg (acc0 inject) := HInv.toBInv (hinv_acc0 hnat)
  refine ⟨?_, ?_, hB.k, ?_, ?_, ?_, ?_, ?_, ?_, ?_, ?_⟩
  · intro n v h; simp [Ctx.get, acc0] at h
  · intro n v h; simp [Ctx.get, acc0] at h
  all_goals (intro v hv; cases hv)

/-- **The autoload builder is the plain builder started from the loaded table.**  If `build_circuit` with
`autoload_pulses=True` accepts a program of the grammar and accumulates `accF`, then with autoload off, unknown gates
refused and `accF.natives` injected it accepts the same program and accumulates the same `accF`; `accF.natives` is a
well-formed table, namely what loading the modules `accF.usepulses` in order makes of the injected one. -/
theorem auto_to_plain {cfg : Config} (ha : cfg.autoload = true) {inject : Option (List (String × GateDef))}
    (hnat : NatOK (inject.getD [])) {F : Nat} {hs bs : List BSx} {accF : Acc}
    (hh : ∀ e ∈ hs, GHeader e) (hb : ∀ e ∈ bs, GTop e)
    (hl : circuitLoop cfg .off inject F (acc0 inject) (hs ++ bs) = .ok accF) :
    circuitLoop (plain cfg) .off (some accF.natives) F (acc0 (some accF.natives)) (hs ++ bs) = .ok accF ∧
      NatOK accF.natives ∧ importAll cfg inject accF.usepulses (inject.getD []) = some accF.natives := by
  rw [circuitLoop_append] at hl
  obtain ⟨accH, hH, hB⟩ := bind_ok hl
  have hinvH : HInv accH :=
    circuitLoop_header hs (acc0 inject) accH (hinv_acc0 hnat) (fun c hc => gheader_headerChild (hh c hc)) hH
  obtain ⟨hB', hu, hn⟩ := loop_congr (cfg' := plain cfg) (inject' := some accF.natives) (plain_anon ha) bs accH accF
    (fun e he => gtop_notUse (hb e he)) hB
  obtain ⟨hH', ms, hms, himp⟩ := header_fwd (inj' := some accF.natives) ha accF.natives hs (acc0 inject) accH hh hH
  have htw : twin accH accF.natives = accH := by rw [hn]; exact twin_self hinvH
  rw [htw] at hH'
  refine ⟨?_, by rw [hn]; exact hinvH.nat, ?_⟩
  · rw [circuitLoop_append]
    have : twin (acc0 inject) accF.natives = acc0 (some accF.natives) := rfl
    rw [← this, hH']
    exact hB'
  · rw [hu, hn, hms]
    exact himp

/-! ## whole programs, backward -/

/-- the child the generator's tree has for a `usepulses` statement -/
def useChild (m : String) : BSx := .list [.str "usepulses", .str m, .str "*"]

theorem plain_uses {cfg : Config} (ha : cfg.autoload = false) {inject : Option (List (String × GateDef))} {f : Nat} :
    ∀ (ms : List String) (acc : Acc),
      circuitLoop cfg .off inject (f + 1) acc (ms.map useChild) = .ok { acc with usepulses := acc.usepulses ++ ms }
  | [], acc => by simp [circuitLoop, pure, Except.pure]
  | m :: ms, acc => by
    have hstep : circuitStep cfg .off inject (f + 1) acc (useChild m) =
        .ok { acc with st := acc.st, usepulses := acc.usepulses ++ [m] } := by
      unfold circuitStep useChild
      rw [buildAny_usepulses_eq]
      simp [stepTail, ha, bind, Except.bind, pure, Except.pure]
    simp only [List.map_cons, circuitLoop, hstep, bind, Except.bind]
    rw [plain_uses ha ms]
    simp

theorem auto_uses {cfg : Config} (ha : cfg.autoload = true) {inject : Option (List (String × GateDef))} {f : Nat} :
    ∀ (ms : List String) (acc : Acc) (N : List (String × GateDef)), HInv acc →
      importAll cfg inject ms acc.natives = some N →
      circuitLoop cfg .off inject (f + 1) acc (ms.map useChild) =
        .ok { twin acc N with usepulses := acc.usepulses ++ ms }
  | [], acc, N, hi, himp => by
    simp only [importAll, Option.some.injEq] at himp
    subst himp
    simp [circuitLoop, pure, Except.pure, twin_self hi]
  | m :: ms, acc, N, hi, himp => by
    simp only [importAll] at himp
    cases hgs : cfg.imports m with
    | none => simp [hgs] at himp
    | some gs =>
      simp only [hgs] at himp
      have hstep : circuitStep cfg .off inject (f + 1) acc (useChild m) =
          .ok { acc with st := { memo := [], gctx := updateGates GEntry.gdef inject gs acc.st.gctx },
                         usepulses := acc.usepulses ++ [m], natives := updateGates id inject gs acc.natives } := by
        unfold circuitStep useChild
        rw [buildAny_usepulses_eq]
        simp [stepTail, ha, hi.stmts, hi.macros, hgs, bind, Except.bind, pure, Except.pure]
      have hi1 : HInv
          { acc with st := { memo := [], gctx := updateGates GEntry.gdef inject gs acc.st.gctx },
                     usepulses := acc.usepulses ++ [m], natives := updateGates id inject gs acc.natives } :=
        ⟨rfl, hi.stmts, hi.macros, by simp only []; rw [hi.gctx, updateGates_map], updateGates_natOK inject gs _ hi.nat⟩
      simp only [List.map_cons, circuitLoop, hstep, bind, Except.bind]
      rw [auto_uses ha ms _ N hi1 himp]
      simp [twin]

/-- **Conversely**, on children in the generator's order — `usepulses` statements first, none after — where the modules
load to the table `N`: a run of the plain builder from `N` is a run of the autoload builder from the injected table. -/
theorem plain_to_auto {cfg : Config} (ha : cfg.autoload = true) {inject inj' : Option (List (String × GateDef))}
    (hnat : NatOK (inject.getD [])) {f : Nat} {ms : List String} {rest : List BSx} {N : List (String × GateDef)}
    {accF : Acc} (hrest : ∀ e ∈ rest, notUse e = true)
    (himp : importAll cfg inject ms (inject.getD []) = some N)
    (hl : circuitLoop (plain cfg) .off inj' (f + 1) (acc0 (some N)) (ms.map useChild ++ rest) = .ok accF) :
    circuitLoop cfg .off inject (f + 1) (acc0 inject) (ms.map useChild ++ rest) = .ok accF := by
  rw [circuitLoop_append] at hl ⊢
  rw [plain_uses (plain_autoload cfg)] at hl
  rw [auto_uses ha ms (acc0 inject) N (hinv_acc0 hnat) himp]
  simp only [bind, Except.bind] at hl ⊢
  have : ({ twin (acc0 inject) N with usepulses := (acc0 inject).usepulses ++ ms } : Acc) =
      { acc0 (some N) with usepulses := (acc0 (some N)).usepulses ++ ms } := rfl
  rw [this]
  exact (loop_congr (plain_anon ha).symm rest _ accF hrest hl).1


/-! ## the `buildNoMemo_…` theorems for every configuration -/

theorem gchild_of {hs bs : List BSx} (hh : ∀ e ∈ hs, GHeader e) (hb : ∀ e ∈ bs, GTop e) :
    ∀ e ∈ hs ++ bs, GChild e :=
  fun e he => (List.mem_append.1 he).elim (fun h => Or.inl (hh e h)) (fun h => Or.inr (hb e h))

/-- **Behind every successful build of a program of the grammar there is a run of the loop of `build_circuit` in a
configuration with autoload OFF**, from a well-formed injected table, that accumulates the same circuit: the
configuration itself when autoload is off, `plain cfg` from the loaded table when it is on. -/
theorem built_plain (cfg : Config) {hs bs : List BSx} {c : Circuit} (hh : ∀ e ∈ hs, GHeader e) (hb : ∀ e ∈ bs, GTop e)
    (h : buildNoMemo cfg (.list (.str "circuit" :: (hs ++ bs))) = .ok c) :
    ∃ (cfg' : Config) (inj' : Option (List (String × GateDef))) (accF : Acc), cfg'.autoload = false ∧
      NatOK (inj'.getD []) ∧
      circuitLoop cfg' .off inj' ((BSx.list (.str "circuit" :: (hs ++ bs))).depth + 1) (acc0 inj') (hs ++ bs) = .ok accF ∧
      accF.toCircuit = c := by
  unfold buildNoMemo buildWith at h
  obtain ⟨inject, hinj, h1⟩ := bind_ok h
  simp only [buildCore] at h1
  obtain ⟨accF, hloop, h2⟩ := bind_ok h1
  simp only [pure, Except.pure, Except.ok.injEq] at h2
  have hnat := inject_natOK hinj
  cases ha : cfg.autoload with
  | false => exact ⟨cfg, inject, accF, ha, hnat, hloop, h2⟩
  | true =>
    obtain ⟨hP, hN, _⟩ := auto_to_plain ha hnat hh hb hloop
    exact ⟨plain cfg, some accF.natives, accF, rfl, hN, hP, h2⟩

/-- `buildNoMemo_facts` without `cfg.autoload = false` -/
theorem buildNoMemo_facts_any (cfg : Config) {hs bs : List BSx} {c : Circuit} (hh : ∀ e ∈ hs, GHeader e)
    (hb : ∀ e ∈ bs, GTop e) (hnb : ∀ e ∈ hs ++ bs, noBr e = true)
    (h : buildNoMemo cfg (.list (.str "circuit" :: (hs ++ bs))) = .ok c) : BuiltFacts c := by
  obtain ⟨cfg', inj', accF, ha', hnat, hloop, rfl⟩ := built_plain cfg hh hb h
  exact builtFacts_of_topInv (loop_inv ha' _ (acc0 inj') accF (topInv_acc0_nat cfg' hnat)
    (fun e he => ⟨gchild_of hh hb e he, hnb e he⟩) hloop)

/-- `buildNoMemo_safe` without `cfg.autoload = false`: the builder invents no names and no floats -/
theorem buildNoMemo_safe_any (cfg : Config) {Pm P : String → Prop} {R : Dec → Prop} {hs bs : List BSx} {c : Circuit}
    (hh : ∀ e ∈ hs, GHeader e) (hb : ∀ e ∈ bs, GTop e)
    (hcs : ∀ e ∈ hs ++ bs, SChild Pm P R e ∧ noBr e = true)
    (h : buildNoMemo cfg (.list (.str "circuit" :: (hs ++ bs))) = .ok c) : SafeCircuit Pm P R c := by
  obtain ⟨cfg', inj', accF, ha', hnat, hloop, rfl⟩ := built_plain cfg hh hb h
  have h0 : SafeAcc Pm P R (acc0 inj') := by
    refine ⟨?_, ?_, ?_, ?_, ?_, ?_⟩
    · intro n v hg; simp [Ctx.get, acc0] at hg
    all_goals (intro v hv; simp [acc0] at hv)
  have hF := safe_loop ha' _ (acc0 inj') accF (topInv_acc0_nat cfg' hnat) h0 hcs hloop
  refine ⟨hF.consts, hF.regs, hF.macros, ?_, ?_⟩
  · intro s hs
    exact hF.stmts s (by simpa [Acc.toCircuit, Stmt.stmts] using hs)
  · intro u hu
    simp only [Acc.toCircuit, List.mem_map] at hu
    obtain ⟨n, hn, rfl⟩ := hu
    exact hF.mods n hn

/-- `buildNoMemo_mid` without `cfg.autoload = false` -/
theorem buildNoMemo_mid_any (cfg : Config) {hs bs : List BSx} {c : Circuit} (hh : ∀ e ∈ hs, GHeader e)
    (hb : ∀ e ∈ bs, GTop e) (hnb : ∀ e ∈ hs ++ bs, noBr e = true)
    (h : buildNoMemo cfg (.list (.str "circuit" :: (hs ++ bs))) = .ok c) : MidCircuit c := by
  obtain ⟨cfg', inj', accF, ha', hnat, hloop, rfl⟩ := built_plain cfg hh hb h
  have h0 : RefAcc (acc0 inj') := by
    refine ⟨?_, ?_, ?_, ?_⟩
    · intro n v hg; simp [Ctx.get, acc0] at hg
    · intro n src idx hq; simp [acc0] at hq
    · intro s hs; simp [acc0] at hs
    · intro m hm; simp [acc0] at hm
  have hF := ref_loop ha' _ (acc0 inj') accF (topInv_acc0_nat cfg' hnat) h0
    (fun e he => ⟨gchild_of hh hb e he, hnb e he⟩) hloop
  refine ⟨?_, hF.macros⟩
  simp only [Acc.toCircuit, StmtAll]
  exact stmtsAll_of_forall hF.stmts

theorem regInv_acc0 (inj' : Option (List (String × GateDef))) : RegInv (acc0 inj') [] := by
  refine ⟨?_, fun _ => rfl, fun h0 => by simp [nf, acc0] at h0⟩
  intro n v hn
  simp [Ctx.get, acc0] at hn

/-- `canonical_of_built` without `cfg.autoload = false` -/
theorem canonical_of_built_any (cfg : Config) {hs bs : List BSx} {c : Circuit} (hh : ∀ e ∈ hs, GHeader e)
    (hb : ∀ e ∈ bs, GTop e) (hnb : ∀ e ∈ hs ++ bs, noBr e = true)
    (h : buildNoMemo cfg (.list (.str "circuit" :: (hs ++ bs))) = .ok c)
    (h1 : (c.registers.filter isFundamental).length ≤ 1) : Canonical (canon (hs ++ bs)) := by
  obtain ⟨cfg', inj', accF, ha', hnat, hloop, rfl⟩ := built_plain cfg hh hb h
  have hR := regInv_loop ha' (hs ++ bs) [] (acc0 inj') accF (topInv_acc0_nat cfg' hnat) (regInv_acc0 inj')
    (fun e he => ⟨gchild_of hh hb e he, hnb e he⟩) hloop
  simp only [List.nil_append] at hR
  exact canon_canonical (ranks2_sorted_of hR h1)

/-! ### the tree the generator writes, as children -/

theorem ofSxList_uses : ∀ (ms : List String),
    BSx.ofSxList (ms.map (fun n => usepulsesSx (n, "*"))) = ms.map useChild
  | [] => rfl
  | m :: ms => by
    simp only [List.map_cons, BSx.ofSxList, ofSxList_uses ms]
    rfl

/-- what the generator's tree has after the `usepulses` statements -/
def restW (acc : Acc) : List Sx :=
  acc.constants.map letSx ++ ((acc.registers.filter isFund).map regSx ++
    ((acc.registers.filter (fun r => !isFund r)).map mapSx ++ (acc.macros.map macroSx ++ acc.stmts.map stmtSx)))

theorem ofSxList_W (acc : Acc) : BSx.ofSxList (W acc) = acc.usepulses.map useChild ++ BSx.ofSxList (restW acc) := by
  simp only [W, restW, List.append_assoc]
  rw [ofSxList_append, ofSxList_uses]

theorem notUse_stmtSx (s : Stmt) : notUse (BSx.ofSx (stmtSx s)) = true := by
  cases s with
  | gate n gd a => simp [stmtSx, BSx.ofSx, BSx.ofSxList, notUse, headCmd]
  | loop c b => cases b <;> simp [stmtSx, BSx.ofSx, BSx.ofSxList, notUse, headCmd]
  | block p sub it b =>
    cases sub <;> cases p <;> simp [stmtSx, BSx.ofSx, BSx.ofSxList, notUse, headCmd, blockCmd]

theorem notUse_macroSx (m : Macro) : notUse (BSx.ofSx (macroSx m)) = true := by
  unfold macroSx
  split <;> simp [BSx.ofSx, BSx.ofSxList, notUse, headCmd]

theorem notUse_letSx (v : Val) : notUse (BSx.ofSx (letSx v)) = true := by
  unfold letSx
  split <;> simp [BSx.ofSx, BSx.ofSxList, notUse, headCmd]

theorem notUse_regSx (v : Val) : notUse (BSx.ofSx (regSx v)) = true := by
  unfold regSx
  split <;> simp [BSx.ofSx, BSx.ofSxList, notUse, headCmd]

theorem notUse_mapSx (v : Val) : notUse (BSx.ofSx (mapSx v)) = true := by
  unfold mapSx
  split <;> simp [BSx.ofSx, BSx.ofSxList, notUse, headCmd]

theorem notUse_restW (acc : Acc) : ∀ e ∈ BSx.ofSxList (restW acc), notUse e = true := by
  intro e he
  obtain ⟨y, hy, rfl⟩ := ofSxList_mem he
  simp only [restW, List.mem_append, List.mem_map] at hy
  rcases hy with ⟨v, _, rfl⟩ | ⟨v, _, rfl⟩ | ⟨v, _, rfl⟩ | ⟨m, _, rfl⟩ | ⟨s, _, rfl⟩
  · exact notUse_letSx v
  · exact notUse_regSx v
  · exact notUse_mapSx v
  · exact notUse_macroSx m
  · exact notUse_stmtSx s

/-- **Layer C for every configuration**: `buildNoMemo_reorder`, `canonical_of_built` and `buildNoMemo_rebuild` composed,
without `cfg.autoload = false`.  If `build_circuit` accepts a program of the grammar — statements in any order the
grammar allows — and the circuit has at most one fundamental register, then the tree the generator writes for the
circuit is built, in the SAME configuration (same `inject_pulses`, same `autoload_pulses`, same modules), to exactly
that circuit. -/
theorem buildNoMemo_rebuild_any (cfg : Config) {hs bs : List BSx} {c : Circuit} (hh : ∀ e ∈ hs, GHeader e)
    (hb : ∀ e ∈ bs, GTop e) (hnb : ∀ e ∈ hs ++ bs, noBr e = true)
    (h : buildNoMemo cfg (.list (.str "circuit" :: (hs ++ bs))) = .ok c)
    (h1 : (c.registers.filter isFundamental).length ≤ 1) : buildNoMemo cfg (BSx.ofSx (unbuild c)) = .ok c := by
  have hcs : ∀ e ∈ hs ++ bs, GChild e ∧ noBr e = true := fun e he => ⟨gchild_of hh hb e he, hnb e he⟩
  have hcs' : ∀ e ∈ canon (hs ++ bs), GChild e ∧ noBr e = true := fun e hm => hcs e ((canon_perm _).mem_iff.1 hm)
  cases ha : cfg.autoload with
  | false =>
    exact (buildNoMemo_rebuild ha hcs' (canonical_of_built ha hcs h h1) (buildNoMemo_reorder ha hcs h)).1
  | true =>
    have hcan := canonical_of_built_any cfg hh hb hnb h h1
    unfold buildNoMemo buildWith at h ⊢
    obtain ⟨inject, hinj, h2⟩ := bind_ok h
    simp only [buildCore] at h2
    obtain ⟨accF, hloop, h3⟩ := bind_ok h2
    simp only [pure, Except.pure, Except.ok.injEq] at h3
    subst h3
    have hnat := inject_natOK hinj
    obtain ⟨hP, hN, hI⟩ := auto_to_plain ha hnat hh hb hloop
    have hi0 := topInv_acc0_nat (plain cfg) (inject := some accF.natives) hN
    have hp := plain_autoload cfg
    obtain ⟨r', hloop', he, _⟩ :=
      reorder_loop hp (acc0 (some accF.natives)) hi0 (rinv_acc0 _) (hs ++ bs) accF hcs hP
    have hr0 : RankInv (acc0 (some accF.natives)) 0 :=
      ⟨fun _ => rfl, fun _ => rfl, fun _ => rfl, fun _ => rfl, fun _ => rfl⟩
    obtain ⟨hiF, es, hW, hreb⟩ := loop_rebuild hp (canon (hs ++ bs)) (acc0 (some accF.natives)) r' 0 hi0 hr0 hcs'
      (List.pairwise_cons.2 ⟨fun _ _ => Nat.zero_le _, hcan⟩) hloop'
    have hW0 : W (acc0 (some accF.natives)) = [] := by simp [W, acc0]
    rw [hW0, List.nil_append] at hW
    subst hW
    have hplain := hreb ((BSx.list (BSx.str "circuit" :: BSx.ofSxList (W r'))).depth + 1)
      (by simp only [BSx.depth, BSx.depthList]; omega)
    rw [ofSxList_W] at hplain
    have hI' : importAll cfg inject r'.usepulses (inject.getD []) = some accF.natives := by
      rw [← he.usepulses]; exact hI
    have hauto := plain_to_auto ha hnat (notUse_restW r') hI' hplain
    rw [← ofSxList_W] at hauto
    rw [hinj, he.toCircuit, unbuild_toCircuit]
    simp only [bind, Except.bind, BSx.ofSx, BSx.ofSxList, buildCore]
    simp only [acc0] at hauto
    rw [hauto]
    rfl


/-! ## parser-produced circuits -/

/-- a text accepted by `parseProgram`: its tree is a program of the grammar — header statements `hs`, then body
statements `bs` — whose names and floats are those of the text; the memo-free build makes the same circuit -/
theorem parseProgram_shape {cfg : Config} {txt : String} {c : Circuit} (h : parseProgram cfg txt = .ok c) :
    ∃ sx hs bs, Parser.parseText txt = .ok sx ∧ BSx.ofSx sx = .list (.str "circuit" :: (hs ++ bs)) ∧
      (∀ e ∈ hs, GHeader e) ∧ (∀ e ∈ bs, GTop e) ∧ (∀ e ∈ hs ++ bs, noBr e = true) ∧
      (∀ e ∈ hs ++ bs, SChildL e) ∧ buildNoMemo cfg (.list (.str "circuit" :: (hs ++ bs))) = .ok c ∧
      build cfg (BSx.ofSx sx) = .ok c ∧ parseBuild cfg sx = .ok c ∧ tooManyRegisters c = .ok c := by
  unfold parseProgram parseSx at h
  cases hp : Parser.parseText txt with
  | error e => rw [hp] at h; cases h
  | ok sx =>
    rw [hp] at h
    have hpb : parseBuild cfg sx = .ok c := h
    have hbd := parseBuild_build hpb
    have h2 := hpb
    unfold parseBuild at h2
    obtain ⟨c0, hb0, ht⟩ := bind_ok h2
    have hc0 : c0 = c := by
      unfold tooManyRegisters at ht
      split at ht
      · simp [throw_eq] at ht
      · simpa [pure, Except.pure] using ht
    subst hc0
    have hnb := parseText_noBr hp
    obtain ⟨cs, he, hsafe⟩ := parseText_safe hp
    have hder : ∃ ts, Grammar.Derives ts sx := by
      unfold Parser.parseText at hp
      split at hp
      · rename_i ts _
        cases hq : Parser.parse ts with
        | ok x => rw [hq] at hp; simp only [] at hp; cases hp; exact ⟨_, Parser.parse_sound hq⟩
        | error e => rw [hq] at hp; cases hp
      · rename_i ts le _
        cases hq : Parser.parse ts with
        | ok x => rw [hq] at hp; cases hp
        | error e => rw [hq] at hp; simp only [] at hp; split at hp <;> cases hp
    obtain ⟨ts, hd⟩ := hder
    obtain ⟨hs, bs, he', hh, hbod⟩ := derives_gprogram hd
    have hcs : cs = hs ++ bs := by rw [he] at he'; cases he'; rfl
    subst hcs
    refine ⟨sx, hs, bs, rfl, he, hh, hbod, ?_, hsafe, ?_, hbd, hpb, ht⟩
    · intro e hmem
      rw [he] at hnb
      simp only [noBr, noBrList, Bool.and_eq_true] at hnb
      exact noBr_mem hnb.2 hmem
    · rw [← he, ← C07_memo_transparent]; exact hbd

/-- **Every circuit `parse_jaqal_string` returns — any `inject_pulses`, `autoload_pulses` on or off, any modules — is
`ParsedLike`** (`parsed_parserLike` without `cfg.autoload = false`). -/
theorem parsed_parserLike_any {cfg : Config} {txt : String} {c : Circuit} (h : parseProgram cfg txt = .ok c) :
    ParsedLike c := by
  obtain ⟨sx, hs, bs, hp, he, hh, hb, hnb, hsafe, hnm, hbd, _, _⟩ := parseProgram_shape h
  have hf := buildNoMemo_facts_any cfg hh hb hnb hnm
  have hmid := buildNoMemo_mid_any cfg hh hb hnb hnm
  have hsc := buildNoMemo_safe_any cfg hh hb (fun e hm => ⟨hsafe e hm, hnb e hm⟩) hnm
  have hn := C14_names_build cfg _ _ hbd
  have hwf := built_wellFormed cfg _ c (Jaqal.Builder.parseText_parserSx hp) hbd
  have hnames := hn.names
  have key : ∀ (l : List Val), (∀ v ∈ l, ∃ n, v.name? = some n) → (l.map Builder.nameOf).Nodup → (l.map Val.name?).Nodup := by
    intro l hl hnd
    have : l.map Val.name? = (l.map Builder.nameOf).map some := by
      rw [List.map_map]
      apply List.map_congr_left
      intro v hv
      obtain ⟨n, hn'⟩ := hl v hv
      simp [Builder.nameOf, hn']
    rw [this]
    exact hnd.map (Option.some_injective _)
  rw [List.map_append] at hnames
  have hmn := hn.macroNames
  have hdk : DictKeys c := by
    refine { constKeys := key _ hf.namedConsts (List.Nodup.of_append_left hnames),
             regKeys := key _ hf.namedRegs (List.Nodup.of_append_right hnames), macroKeys := ?_, nativeKeys := ?_ }
    · have := (List.Nodup.of_append_left hmn).map (Option.some_injective _)
      simpa [List.map_map, Function.comp_def] using this
    · have := (List.Nodup.of_append_right hmn).map (Option.some_injective _)
      simpa [List.map_map, Function.comp_def] using this
  have hpr := hf.printable
  simp only [printable, Bool.and_eq_true, List.all_eq_true] at hpr
  have hregNames : ∀ v ∈ c.registers, ∀ n, v.name? = some n → nameOK n = true :=
    fun v hv n hvn => declP_name (hsc.regs v hv) (hpr.1.1.2 v hv) hvn
  have hconv : ∀ (P : List String) (v : Val), ArgMid c.registers P v → ArgRef c.registers P v := by
    intro P v hv
    cases v <;> try exact hv
    rename_i n src idx
    rcases hv with ⟨s, k, rfl, hs, hbr⟩ | ⟨hm, hc⟩
    · refine Or.inl ⟨s, k, rfl, hs, ?_⟩
      rintro ⟨x, hx, hxn⟩
      rw [hregNames x hx n hxn] at hbr
      cases hbr
    · refine Or.inr ⟨hm, ?_⟩
      rcases hc with hc | hc
      · exact Or.inl hc
      · exact Or.inr ⟨_, hc, rfl⟩
  simp only [ExpandMacros.WellFormed, Bool.and_eq_true] at hwf
  exact { toDictKeys := hdk,
          bodyRef := StmtAll.mono (hconv []) _ hmid.body,
          macrosRef := fun m hm => StmtAll.mono (hconv _) _ (hmid.macros m hm),
          ordered := macrosOrdered_of_wf hwf.1.1.1.1 }

/-- … and well-formed in the sense of `C20_refl`, hence `c == c` (`parsed_wf` without `cfg.autoload = false`). -/
theorem parsed_wf_any {cfg : Config} {txt : String} {c : Circuit} (h : parseProgram cfg txt = .ok c) : WF c := by
  obtain ⟨sx, hs, bs, hp, he, hh, hb, hnb, hsafe, hnm, hbd, _, _⟩ := parseProgram_shape h
  have hf := buildNoMemo_facts_any cfg hh hb hnb hnm
  exact { toDictKeys := (parsed_parserLike_any h).toDictKeys, consts := hf.wfConsts, regs := hf.wfRegs,
          macros := hf.wfMacros, body := hf.wfBody }

end Jaqal.Autoload

#print axioms Jaqal.Autoload.auto_to_plain
#print axioms Jaqal.Autoload.plain_to_auto
#print axioms Jaqal.Autoload.built_plain
#print axioms Jaqal.Autoload.buildNoMemo_rebuild_any
#print axioms Jaqal.Autoload.parsed_parserLike_any
#print axioms Jaqal.Autoload.parsed_wf_any
