import JaqalProofs.Lemmas.RoundTripSafeParse
/-!
# C01, text layer: a parsed circuit whose integers have at most 4300 digits is read back by the lexer

`IntsBounded c` (decidable): every integer the generator writes for `c` — let values, register sizes, alias indices
and slice bounds (the computed defaults included), gate arguments and the index of an element `r[i]`, loop and
subcircuit counts — has at most 4300 decimal digits (`int(text)` and `str(int)` refuse more).  The names and floats need
no hypothesis: they are those of the parsed text (`buildNoMemo_safe`, `parseText_safe`).
-/
set_option linter.unusedSimpArgs false
set_option linter.unusedVariables false
namespace Jaqal.RoundTrip
open Jaqal Jaqal.Builder Jaqal.Pipeline Jaqal.Lexer

/-! ## the integers the generator writes -/

def refInt : Val → Prop
  | .int i => IntOK i
  | _ => True

def argInt : Val → Prop
  | .int i => IntOK i
  | .qubit n src idx => if isItem n src idx = true then refInt idx else True
  | _ => True

def argsInt : List (String × Val) → Prop
  | [] => True
  | a :: as => argInt a.2 ∧ argsInt as

mutual
def stmtInt : Stmt → Prop
  | .gate _ _ args => argsInt args
  | .loop cnt body => refInt cnt ∧ stmtInt body
  | .block _ _ it b => refInt it ∧ itemsInt b
def itemsInt : List Stmt → Prop
  | [] => True
  | s :: ss => stmtInt s ∧ itemsInt ss
end

def letIntOK : Val → Prop
  | .const _ (.int i) => IntOK i
  | _ => True

def declInt : Val → Prop
  | .regF _ size => refInt size
  | .qubit _ _ idx => refInt idx
  | .regS _ _ a b c => refInt a ∧ refInt b ∧ refInt c
  | _ => True

instance (i : Int) : Decidable (IntOK i) := by unfold IntOK; exact inferInstance

instance : (v : Val) → Decidable (refInt v)
  | .int i => by unfold refInt; exact inferInstance
  | .flt _ | .const _ _ | .param _ _ | .qubit _ _ _ | .regF _ _ | .regA _ _ | .regS _ _ _ _ _ | .none | .str _ => by
    unfold refInt; exact inferInstance

instance : (v : Val) → Decidable (argInt v)
  | .int i => by unfold argInt; exact inferInstance
  | .qubit n src idx => by unfold argInt; exact inferInstance
  | .flt _ | .const _ _ | .param _ _ | .regF _ _ | .regA _ _ | .regS _ _ _ _ _ | .none | .str _ => by
    unfold argInt; exact inferInstance

def decArgsInt : (l : List (String × Val)) → Decidable (argsInt l)
  | [] => by unfold argsInt; exact inferInstance
  | a :: as => by
    unfold argsInt
    have := decArgsInt as
    exact inferInstance

instance (l : List (String × Val)) : Decidable (argsInt l) := decArgsInt l

mutual
def decStmtInt : (s : Stmt) → Decidable (stmtInt s)
  | .gate _ _ args => by unfold stmtInt; exact inferInstance
  | .loop cnt body => by
    unfold stmtInt
    have := decStmtInt body
    exact inferInstance
  | .block _ _ it b => by
    unfold stmtInt
    have := decItemsInt b
    exact inferInstance
def decItemsInt : (l : List Stmt) → Decidable (itemsInt l)
  | [] => by unfold itemsInt; exact inferInstance
  | s :: ss => by
    unfold itemsInt
    have := decStmtInt s
    have := decItemsInt ss
    exact inferInstance
end

instance (s : Stmt) : Decidable (stmtInt s) := decStmtInt s

instance : (v : Val) → Decidable (letIntOK v)
  | .const _ (.int i) => by unfold letIntOK; exact inferInstance
  | .const _ (.flt _) | .const _ (.const _ _) | .const _ (.param _ _) | .const _ (.qubit _ _ _) | .const _ (.regF _ _)
  | .const _ (.regA _ _) | .const _ (.regS _ _ _ _ _) | .const _ .none | .const _ (.str _)
  | .int _ | .flt _ | .param _ _ | .qubit _ _ _ | .regF _ _ | .regA _ _ | .regS _ _ _ _ _ | .none | .str _ => by
    unfold letIntOK; exact inferInstance

instance : (v : Val) → Decidable (declInt v)
  | .regF _ size => by unfold declInt; exact inferInstance
  | .qubit _ _ idx => by unfold declInt; exact inferInstance
  | .regS _ _ a b c => by unfold declInt; exact inferInstance
  | .int _ | .flt _ | .const _ _ | .param _ _ | .regA _ _ | .none | .str _ => by unfold declInt; exact inferInstance

/-- every integer the generator writes for the circuit has at most 4300 digits -/
structure IntsBounded (c : Circuit) : Prop where
  lets : ∀ v ∈ c.constants, letIntOK v
  regs : ∀ v ∈ c.registers, declInt v
  macros : ∀ m ∈ c.macros, stmtInt m.body
  body : ∀ s ∈ c.body.stmts, stmtInt s

instance (c : Circuit) : Decidable (IntsBounded c) :=
  if h : (∀ v ∈ c.constants, letIntOK v) ∧ (∀ v ∈ c.registers, declInt v) ∧ (∀ m ∈ c.macros, stmtInt m.body) ∧
      (∀ s ∈ c.body.stmts, stmtInt s) then
    isTrue ⟨h.1, h.2.1, h.2.2.1, h.2.2.2⟩
  else isFalse (fun hb => h ⟨hb.lets, hb.regs, hb.macros, hb.body⟩)

/-! ## names and floats from the text, integers from the bound -/

theorem safeRef_of {v : Val} (hp : RefP LegalName v) (hi : refInt v) : SafeRef v := by
  cases v <;> first | exact hi | exact hp | trivial

theorem safeArg_of {v : Val} (hp : ArgP LegalName FloatOK v) (hi : argInt v) : SafeArg v := by
  cases v with
  | int i => exact hi
  | flt d => exact hp
  | qubit n src idx =>
    simp only [SafeArg, ArgP, argInt] at hp hi ⊢
    by_cases h : isItem n src idx = true
    · simp only [h, if_true] at hp hi ⊢
      exact ⟨hp.1, safeRef_of hp.2 hi⟩
    · simp only [h, if_false] at hp ⊢
      exact hp
  | _ => exact hp

theorem safeArgs_of : ∀ {l : List (String × Val)}, ArgsP LegalName FloatOK l → argsInt l → SafeArgs l
  | [], _, _ => trivial
  | a :: as, hp, hi => ⟨safeArg_of hp.1 hi.1, safeArgs_of hp.2 hi.2⟩

mutual
theorem safeStmt_of : ∀ {s : Stmt}, StmtP LegalName FloatOK s → stmtInt s → SafeStmt s
  | .gate name gd args, hp, hi => by
    simp only [StmtP, stmtInt, SafeStmt] at hp hi ⊢
    exact ⟨hp.1, safeArgs_of hp.2 hi⟩
  | .loop cnt body, hp, hi => by
    simp only [StmtP, stmtInt, SafeStmt] at hp hi ⊢
    exact ⟨safeRef_of hp.1 hi.1, safeStmt_of hp.2 hi.2⟩
  | .block p sub it b, hp, hi => by
    simp only [StmtP, stmtInt, SafeStmt] at hp hi ⊢
    exact ⟨safeRef_of hp.1 hi.1, safeItems_of hp.2 hi.2⟩
theorem safeItems_of : ∀ {l : List Stmt}, ItemsP LegalName FloatOK l → itemsInt l → SafeItems l
  | [], _, _ => by simp only [SafeItems]
  | s :: ss, hp, hi => by
    simp only [ItemsP, itemsInt, SafeItems] at hp hi ⊢
    exact ⟨safeStmt_of hp.1 hi.1, safeItems_of hp.2 hi.2⟩
end

theorem safeLet_of {v : Val} (hp : LetP LegalName FloatOK v) (hi : letIntOK v) : SafeLet v := by
  cases v with
  | const n x =>
    cases x with
    | int i => exact ⟨hp, hi⟩
    | flt d => exact hp
    | _ => trivial
  | _ => trivial

theorem safeDecl_of {v : Val} (hp : DeclP LegalName v) (hi : declInt v) : SafeDecl v := by
  cases v with
  | regF n size => exact ⟨hp.1, safeRef_of hp.2 hi⟩
  | qubit n src idx => exact ⟨hp.1, hp.2.1, safeRef_of hp.2.2 hi⟩
  | regA n src => exact hp
  | regS n src a b c =>
    exact ⟨hp.1, hp.2.1, safeRef_of hp.2.2.1 hi.1, safeRef_of hp.2.2.2.1 hi.2.1, safeRef_of hp.2.2.2.2 hi.2.2⟩
  | _ => trivial

theorem lexSafe_of {c : Circuit} (hs : SafeCircuit SafeMod LegalName FloatOK c) (hi : IntsBounded c) : LexSafe c :=
  ⟨hs.mods, fun v hv => safeLet_of (hs.consts v hv) (hi.lets v hv), fun v hv => safeDecl_of (hs.regs v hv) (hi.regs v hv),
    fun m hm => ⟨(hs.macros m hm).1, (hs.macros m hm).2.1, safeStmt_of (hs.macros m hm).2.2 (hi.macros m hm)⟩,
    fun s hs' => safeStmt_of (hs.stmts s hs') (hi.body s hs')⟩

theorem refInt_of_safe {v : Val} (hv : SafeRef v) : refInt v := by
  cases v <;> first | exact hv | trivial

theorem argInt_of_safe {v : Val} (hv : SafeArg v) : argInt v := by
  cases v with
  | int i => exact hv
  | qubit n src idx =>
    simp only [SafeArg, argInt] at hv ⊢
    by_cases h : isItem n src idx = true
    · simp only [h, if_true] at hv ⊢; exact refInt_of_safe hv.2
    · simp [h]
  | _ => trivial

theorem argsInt_of_safe : ∀ {l : List (String × Val)}, SafeArgs l → argsInt l
  | [], _ => trivial
  | a :: as, hl => ⟨argInt_of_safe hl.1, argsInt_of_safe hl.2⟩

mutual
theorem stmtInt_of_safe : ∀ {s : Stmt}, SafeStmt s → stmtInt s
  | .gate name gd args, hs => by
    simp only [SafeStmt, stmtInt] at hs ⊢
    exact argsInt_of_safe hs.2
  | .loop cnt body, hs => by
    simp only [SafeStmt, stmtInt] at hs ⊢
    exact ⟨refInt_of_safe hs.1, stmtInt_of_safe hs.2⟩
  | .block p sub it b, hs => by
    simp only [SafeStmt, stmtInt] at hs ⊢
    exact ⟨refInt_of_safe hs.1, itemsInt_of_safe hs.2⟩
theorem itemsInt_of_safe : ∀ {l : List Stmt}, SafeItems l → itemsInt l
  | [], _ => by simp only [itemsInt]
  | s :: ss, hs => by
    simp only [SafeItems, itemsInt] at hs ⊢
    exact ⟨stmtInt_of_safe hs.1, itemsInt_of_safe hs.2⟩
end

/-- conversely the bound is necessary -/
theorem intsBounded_of_lexSafe {c : Circuit} (h : LexSafe c) : IntsBounded c := by
  refine ⟨?_, ?_, fun m hm => stmtInt_of_safe (h.macros m hm).2.2, fun s hs => stmtInt_of_safe (h.body s hs)⟩
  · intro v hv
    have := h.lets v hv
    cases v with
    | const n x => cases x <;> first | exact this.2 | trivial
    | _ => trivial
  · intro v hv
    have := h.regs v hv
    cases v with
    | regF n size => exact refInt_of_safe this.2
    | qubit n src idx => exact refInt_of_safe this.2.2
    | regS n src a b c =>
      exact ⟨refInt_of_safe this.2.2.1, refInt_of_safe this.2.2.2.1, refInt_of_safe this.2.2.2.2⟩
    | _ => trivial

end Jaqal.RoundTrip
