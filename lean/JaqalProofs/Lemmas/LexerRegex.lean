import JaqalModel.Generated.LexerRules
import JaqalProofs.Lemmas.LexerSpec
/-!
The hand-written token recognisers of `Model/Lexer.lean` compute the backtracking match
(`Spec/Regex.lean`) of the token rules extracted from `JaqalLexer._master_re.pattern`
(`Generated/LexerRules.lean`), in rule order.
-/
namespace Jaqal.Lexer
open Jaqal.Regex

/-! ## General facts about the matcher -/

theorem first_none_right {β} (a : Option β) : first a none = a := by cases a <;> rfl
theorem first_none_left {β} (b : Option β) : first none b = b := rfl
theorem first_some {β} (a : β) (b : Option β) : first (some a) b = some a := rfl

/-- One character of a class, then `k`. -/
theorem run_cls {β} (neg items) (k : List Char → Option β) (c : Char) (cs : List Char) :
    (Re.cls neg items).run k (c :: cs) = if clsMatches neg items c then k cs else none := rfl

theorem run_cls_nil {β} (neg items) (k : List Char → Option β) : (Re.cls neg items).run k [] = none := rfl

/-- A greedy repetition of a character class followed by something that always succeeds takes the longest
run and never gives back. -/
theorem starLoop_cls_total {β} (neg items) (k : List Char → Option β) (hk : ∀ cs, (k cs).isSome = true) :
    ∀ (n : Nat) (cs : List Char), cs.length ≤ n →
      starLoop (Re.cls neg items).run k n cs = k (spanP (clsMatches neg items) cs).2 := by
  intro n
  induction n with
  | zero =>
    intro cs h
    have : cs = [] := List.eq_nil_of_length_eq_zero (by omega)
    subst this; rfl
  | succ n ih =>
    intro cs h
    cases cs with
    | nil => simp [starLoop, Re.run, first, spanP]
    | cons c cs =>
      simp only [starLoop, run_cls, spanP]
      cases hc : clsMatches neg items c
      · simp [first]
      · simp only [if_true, List.length_cons, Nat.lt_add_one, ih cs (by simp at h; omega)]
        have := hk (spanP (clsMatches neg items) cs).2
        cases hv : k (spanP (clsMatches neg items) cs).2 with
        | none => rw [hv] at this; cases this
        | some v => rfl

/-- A greedy repetition of a character class followed by something that cannot start with a character of
the class never gives back. -/
theorem starLoop_cls_fail {β} (neg items) (k : List Char → Option β)
    (hk : ∀ c cs, clsMatches neg items c = true → k (c :: cs) = none) :
    ∀ (n : Nat) (cs : List Char), cs.length ≤ n →
      starLoop (Re.cls neg items).run k n cs = k (spanP (clsMatches neg items) cs).2 := by
  intro n
  induction n with
  | zero =>
    intro cs h
    have : cs = [] := List.eq_nil_of_length_eq_zero (by omega)
    subst this; rfl
  | succ n ih =>
    intro cs h
    cases cs with
    | nil => simp [starLoop, Re.run, first, spanP]
    | cons c cs =>
      simp only [starLoop, run_cls, spanP]
      cases hc : clsMatches neg items c
      · simp [first]
      · simp only [if_true, List.length_cons, Nat.lt_add_one, ih cs (by simp at h; omega), hk c cs hc,
          first_none_right]

/-- `[c]+` followed by something that always succeeds. -/
theorem run_plus_cls_total {β} (neg items) (k : List Char → Option β) (hk : ∀ cs, (k cs).isSome = true)
    (cs : List Char) :
    (Re.plus (.cls neg items)).run k cs =
      match spanP (clsMatches neg items) cs with
      | ([], _) => none
      | (_, rest) => k rest := by
  cases cs with
  | nil => rfl
  | cons c cs =>
    rw [show (Re.plus (.cls neg items)).run k (c :: cs) = (Re.cls neg items).run
      (fun cs' => starLoop (Re.cls neg items).run k cs'.length cs') (c :: cs) from rfl, run_cls]
    simp only [spanP]
    cases hc : clsMatches neg items c
    · simp
    · simp only [if_true, starLoop_cls_total neg items k hk _ cs (Nat.le_refl _)]

/-- `[c]+` followed by something that cannot start with a character of the class. -/
theorem run_plus_cls_fail {β} (neg items) (k : List Char → Option β)
    (hk : ∀ c cs, clsMatches neg items c = true → k (c :: cs) = none) (cs : List Char) :
    (Re.plus (.cls neg items)).run k cs =
      match spanP (clsMatches neg items) cs with
      | ([], _) => none
      | (_, rest) => k rest := by
  cases cs with
  | nil => rfl
  | cons c cs =>
    rw [show (Re.plus (.cls neg items)).run k (c :: cs) = (Re.cls neg items).run
      (fun cs' => starLoop (Re.cls neg items).run k cs'.length cs') (c :: cs) from rfl, run_cls]
    simp only [spanP]
    cases hc : clsMatches neg items c
    · simp
    · simp only [if_true, starLoop_cls_fail neg items k hk _ cs (Nat.le_refl _)]

/-! ## The character classes of the rules are the character predicates of the model -/

theorem cls_nl : clsMatches false [.ch (Char.ofNat 10)] = (fun c => decide (c = '\n')) := by
  funext c; simp [clsMatches, ClsItem.matches]

theorem cls_notnl : clsMatches true [.ch (Char.ofNat 10)] = (fun c => decide (c ≠ '\n')) := by
  funext c
  simp only [clsMatches, ClsItem.matches, List.any_cons, List.any_nil, Bool.or_false]
  have : (Char.ofNat 10) = '\n' := rfl
  rw [this]
  by_cases h : c = '\n' <;> simp [h]

theorem cls_alpha : clsMatches false [.range 'a' 'z', .range 'A' 'Z', .ch '_'] = isAlpha_ := by
  funext c
  simp only [clsMatches, ClsItem.matches, List.any_cons, List.any_nil, Bool.or_false, isAlpha_]
  by_cases h : c = '_' <;> simp [h]

theorem cls_alnum : clsMatches false [.range 'a' 'z', .range 'A' 'Z', .range '0' '9', .ch '_'] = isAlnum_ := by
  funext c
  simp only [clsMatches, ClsItem.matches, List.any_cons, List.any_nil, Bool.or_false, isAlnum_, isAlpha_, isDigit]
  by_cases h : c = '_' <;> simp [h]
  · cases (decide ('a' ≤ c) && decide (c ≤ 'z')) <;> cases (decide ('A' ≤ c) && decide (c ≤ 'Z')) <;> simp

theorem cls_dot : clsMatches false [.ch '.'] = (fun c => decide (c = '.')) := by
  funext c; simp [clsMatches, ClsItem.matches]

theorem cls_sign : clsMatches false [.ch '-', .ch '+'] = isSign := by
  funext c; simp [clsMatches, ClsItem.matches, isSign]

theorem cls_digit : clsMatches false [.range '0' '9'] = isDigit := by
  funext c; simp [clsMatches, ClsItem.matches, isDigit]

theorem cls_exp : clsMatches false [.ch 'e', .ch 'E'] = (fun c => c = 'e' || c = 'E') := by
  funext c; simp [clsMatches, ClsItem.matches]

theorem cls_quote : clsMatches false [.ch (Char.ofNat 39)] = (fun c => decide (c = '\'')) := by
  funext c; simp [clsMatches, ClsItem.matches]

theorem char_range_01 (c : Char) : ('0' ≤ c ∧ c ≤ '1') ↔ (c = '0' ∨ c = '1') := by
  constructor
  · intro ⟨h1, h2⟩
    have a : (48 : UInt32) ≤ c.val := h1
    have b : c.val ≤ (49 : UInt32) := h2
    rw [UInt32.le_iff_toNat_le] at a b
    simp at a b
    have : c.toNat = 48 ∨ c.toNat = 49 := by omega
    rcases this with h | h
    · left; rw [← Char.ofNat_toNat c, h]
    · right; rw [← Char.ofNat_toNat c, h]
  · rintro (rfl | rfl) <;> decide

theorem cls_bit : clsMatches false [.range '0' '1'] = (fun d => d = '0' || d = '1') := by
  funext c
  simp only [clsMatches, ClsItem.matches, List.any_cons, List.any_nil, Bool.or_false]
  have := char_range_01 c
  by_cases h : ('0' ≤ c ∧ c ≤ '1')
  · have h' := this.1 h
    simp [h.1, h.2, h']
  · have h' : ¬ (c = '0' ∨ c = '1') := fun hh => h (this.2 hh)
    simp only [not_and, not_or] at h h'
    by_cases h0 : '0' ≤ c
    · simp [h0, h', h h0]
    · simp [h0, h']

theorem cls_slash : clsMatches false [.ch '/'] = (fun c => decide (c = '/')) := by
  funext c; simp [clsMatches, ClsItem.matches]

theorem cls_star : clsMatches false [.ch '*'] = (fun c => decide (c = '*')) := by
  funext c; simp [clsMatches, ClsItem.matches]


/-! ## The eight rules -/

def reNL : Re := .plus (.cls false [.ch (Char.ofNat 10)])
def reAlpha : Re := .cls false [.range 'a' 'z', .range 'A' 'Z', .ch '_']
def reAlnum : Re := .cls false [.range 'a' 'z', .range 'A' 'Z', .range '0' '9', .ch '_']
def reDot : Re := .cls false [.ch '.']
def reIdTail : Re := .star (.seq (.opt reDot) reAlnum)
def reIdent : Re := .seq reAlpha reIdTail
def reDotIdent : Re := .seq reDot (.opt reIdent)
def reSign : Re := .cls false [.ch '-', .ch '+']
def reDigit : Re := .cls false [.range '0' '9']
def reExp : Re := .seq (.cls false [.ch 'e', .ch 'E']) (.seq (.opt reSign) (.plus reDigit))
def reNumber : Re := .seq (.opt reSign) (.seq (.star reDigit) (.seq reDot (.seq (.plus reDigit) (.opt reExp))))
def reInt : Re := .seq (.opt reSign) (.plus reDigit)
def reQuote : Re := .cls false [.ch (Char.ofNat 39)]
def reBinInt : Re := .seq reQuote (.seq (.plus (.cls false [.range '0' '1'])) reQuote)
def reSlash : Re := .cls false [.ch '/']
def reStar : Re := .cls false [.ch '*']
def reComment : Re := .seq reSlash (.seq reSlash (.star (.cls true [.ch (Char.ofNat 10)])))
def reBlock : Re := .seq reSlash (.seq reStar (.seq
  (.lazyStar (.alt (.cls false [.ch (Char.ofNat 10)]) (.cls true [.ch (Char.ofNat 10)]))) (.seq reStar reSlash)))

/-- The generated rules are these. -/
theorem rules_eq : LexerRules.rules =
    [("NL", reNL), ("IDENTIFIER", reIdent), ("DOTIDENTIFIER", reDotIdent), ("NUMBER", reNumber),
     ("INT", reInt), ("BININT", reBinInt), ("comment", reComment), ("multiline_comment", reBlock)] := rfl

theorem reNL_run (cs : List Char) : reNL.matchRest cs = (mNL cs).map (·.2) := by
  unfold reNL Re.matchRest mNL
  rw [run_plus_cls_total _ _ _ (fun _ => rfl), cls_nl]
  split <;> rename_i h <;> simp [h]
  · rename_i h2; simp_all

theorem starLoop_identTail (body : (List Char → Option (List Char)) → List Char → Option (List Char))
    (hbody : ∀ k cs, body k cs = first (reDot.run (reAlnum.run k) cs) (reAlnum.run k cs)) :
    ∀ (n : Nat) (cs : List Char), cs.length ≤ n → starLoop body some n cs = some (identTail cs).2 := by
  intro n
  induction n using Nat.strongRecOn with
  | _ n ih =>
    intro cs hl
    cases n with
    | zero =>
      have : cs = [] := List.eq_nil_of_length_eq_zero (by omega)
      subst this; rfl
    | succ n =>
      have hdot : ∀ d, clsMatches false [.ch '.'] d = decide (d = '.') := fun d => congrFun cls_dot d
      have haln : ∀ d, clsMatches false [.range 'a' 'z', .range 'A' 'Z', .range '0' '9', .ch '_'] d = isAlnum_ d :=
        fun d => congrFun cls_alnum d
      cases cs with
      | nil =>
        rw [starLoop, hbody]
        rfl
      | cons c cs =>
        rw [starLoop, hbody, identTail.eq_def]
        simp only [reDot, reAlnum, run_cls, hdot, haln]
        by_cases hc : isAlnum_ c = true
        · have hcd : c ≠ '.' := by intro h; subst h; simp [isAlnum_, isAlpha_, isDigit] at hc
          simp only [hcd, decide_false, Bool.false_eq_true, if_false, hc, if_true, first_none_left,
            List.length_cons, Nat.lt_add_one]
          rw [ih n (Nat.lt_add_one n) cs (by simp at hl; omega)]
          rfl
        · simp only [hc, Bool.false_eq_true, if_false, first_none_right]
          by_cases hcd : c = '.'
          · subst hcd
            simp only [decide_true, if_true]
            cases cs with
            | nil => rfl
            | cons d ds =>
              simp only [run_cls, haln]
              by_cases hd : isAlnum_ d = true
              · simp only [hd, if_true, List.length_cons]
                rw [if_pos (by omega), ih n (Nat.lt_add_one n) ds (by simp at hl; omega)]
                rfl
              · simp only [hd, Bool.false_eq_true, if_false]; rfl
          · simp only [hcd, decide_false, Bool.false_eq_true, if_false]; rfl

theorem reIdTail_run (cs : List Char) : reIdTail.run some cs = some (identTail cs).2 :=
  starLoop_identTail _ (fun _ _ => rfl) cs.length cs (Nat.le_refl _)

theorem reIdent_run (cs : List Char) : reIdent.matchRest cs = (mIdent cs).map (·.2) := by
  cases cs with
  | nil => rfl
  | cons c cs =>
    rw [Re.matchRest, reIdent, Re.run, reAlpha, run_cls, congrFun cls_alpha c, reIdTail_run, mIdent]
    split <;> rfl

theorem reDotIdent_run (cs : List Char) : reDotIdent.matchRest cs = (mDotIdent cs).map (·.2) := by
  cases cs with
  | nil => rfl
  | cons c cs =>
    rw [Re.matchRest, reDotIdent, Re.run, reDot, run_cls, congrFun cls_dot c, mDotIdent]
    by_cases hc : c = '.'
    · simp only [hc, decide_true, if_true]
      have := reIdent_run cs
      rw [Re.matchRest] at this
      rw [Re.run, this]
      cases mIdent cs <;> rfl
    · simp [hc]


theorem optSign_run {β} (k : List Char → Option β) (hk : ∀ c cs, isSign c = true → k (c :: cs) = none)
    (cs : List Char) : (Re.opt reSign).run k cs = k (optSign cs).2 := by
  cases cs with
  | nil => rfl
  | cons c cs =>
    rw [Re.run, reSign, run_cls, congrFun cls_sign c, optSign]
    cases hc : isSign c
    · rfl
    · simp only [if_true, hk c cs hc, first_none_right]

theorem plusDigit_sign {β} (k : List Char → Option β) (c : Char) (cs : List Char) (h : isSign c = true) :
    (Re.plus reDigit).run k (c :: cs) = none := by
  have hd : isDigit c = false := by
    simp only [isSign, Bool.or_eq_true, decide_eq_true_eq] at h
    rcases h with rfl | rfl <;> decide
  rw [show (Re.plus reDigit).run k (c :: cs) = reDigit.run
      (fun cs' => starLoop reDigit.run k cs'.length cs') (c :: cs) from rfl, reDigit, run_cls,
    congrFun cls_digit c, hd]
  rfl

theorem plusDigit_total {β} (k : List Char → Option β) (hk : ∀ cs, (k cs).isSome = true) (cs : List Char) :
    (Re.plus reDigit).run k cs =
      match spanP isDigit cs with
      | ([], _) => none
      | (_, rest) => k rest := by
  rw [reDigit, run_plus_cls_total _ _ _ hk, cls_digit]
  all_goals (cases spanP isDigit cs with | mk a b => cases a <;> rfl)

theorem starDigit_fail {β} (k : List Char → Option β) (hk : ∀ c cs, isDigit c = true → k (c :: cs) = none)
    (cs : List Char) : (Re.star reDigit).run k cs = k (spanP isDigit cs).2 := by
  rw [show (Re.star reDigit).run k cs = starLoop reDigit.run k cs.length cs from rfl, reDigit,
    starLoop_cls_fail _ _ _ (by rw [cls_digit]; exact hk) _ _ (Nat.le_refl _), cls_digit]

theorem reInt_run (cs : List Char) : reInt.matchRest cs = (mInt cs).map (·.2.2) := by
  rw [Re.matchRest, reInt, Re.run, optSign_run _ (plusDigit_sign some), plusDigit_total _ (fun _ => rfl), mInt]
  split <;> rename_i h <;> simp [h]

theorem reExp_run (cs : List Char) : reExp.run some cs = (mExponent cs).map (·.2.2) := by
  cases cs with
  | nil => rfl
  | cons c cs =>
    rw [reExp, Re.run, run_cls, congrFun cls_exp c, mExponent]
    cases hc : (c = 'e' || c = 'E')
    · simp
    · simp only [if_true]
      rw [Re.run, optSign_run _ (plusDigit_sign some), plusDigit_total _ (fun _ => rfl)]
      split <;> rename_i h <;> simp [h]

theorem optExp_total (cs : List Char) : ((Re.opt reExp).run some cs).isSome = true := by
  rw [Re.run]; cases reExp.run some cs <;> rfl

/-- `\.[0-9]+(exp)?` -/
theorem fraction_run (cs : List Char) :
    (Re.seq reDot (.seq (.plus reDigit) (.opt reExp))).run some cs =
      match cs with
      | [] => none
      | c :: r =>
        if c = '.' then
          match spanP isDigit r with
          | ([], _) => none
          | (_, rest) =>
            match mExponent rest with
            | some (_, _, rest') => some rest'
            | none => some rest
        else none := by
  cases cs with
  | nil => rfl
  | cons c r =>
    rw [Re.run, reDot, run_cls, congrFun cls_dot c]
    by_cases hc : c = '.'
    · simp only [hc, decide_true, if_true]
      rw [Re.run, plusDigit_total _ optExp_total]
      split
      · rfl
      · rw [Re.run, reExp_run]
        cases mExponent _ with
        | none => rfl
        | some t => rfl
    · simp [hc]

theorem fraction_digit (c : Char) (cs : List Char) (h : isDigit c = true) :
    (Re.seq reDot (.seq (.plus reDigit) (.opt reExp))).run some (c :: cs) = none := by
  have : c ≠ '.' := by intro e; subst e; simp [isDigit] at h
  rw [Re.run, reDot, run_cls, congrFun cls_dot c]
  simp [this]

theorem unsigned_sign (c : Char) (cs : List Char) (h : isSign c = true) :
    (Re.seq (.star reDigit) (.seq reDot (.seq (.plus reDigit) (.opt reExp)))).run some (c :: cs) = none := by
  have hd : isDigit c = false := by
    simp only [isSign, Bool.or_eq_true, decide_eq_true_eq] at h
    rcases h with rfl | rfl <;> decide
  have hdot : c ≠ '.' := by
    simp only [isSign, Bool.or_eq_true, decide_eq_true_eq] at h
    rcases h with rfl | rfl <;> decide
  rw [Re.run, starDigit_fail _ fraction_digit]
  simp only [spanP, hd, Bool.false_eq_true, if_false]
  rw [Re.run, reDot, run_cls, congrFun cls_dot c]
  simp [hdot]

theorem reNumber_run (cs : List Char) : reNumber.matchRest cs = (mNumber cs).map (·.2) := by
  rw [Re.matchRest, reNumber, Re.run, optSign_run _ unsigned_sign, Re.run, starDigit_fail _ fraction_digit,
    fraction_run, mNumber]
  generalize (spanP isDigit (optSign cs).2).2 = cs2
  cases cs2 with
  | nil => rfl
  | cons c r =>
    simp only
    by_cases hc : c = '.'
    · simp only [hc, if_true]
      split
      · rename_i h; simp [h]
      · rename_i fd rest0 hne h
        rw [h]
        cases hex : mExponent rest0 with
        | none =>
          cases fd with
          | nil => exact absurd rfl hne
          | cons a fd => simp [hex]
        | some t =>
          cases fd with
          | nil => exact absurd rfl hne
          | cons a fd => simp [hex]
    · simp [hc]


theorem reBinInt_run (cs : List Char) : reBinInt.matchRest cs = (mBinInt cs).map (·.2) := by
  cases cs with
  | nil => rfl
  | cons c cs =>
    rw [Re.matchRest, reBinInt, Re.run, reQuote, run_cls, congrFun cls_quote c, mBinInt]
    by_cases hc : c = '\''
    · simp only [hc, decide_true, if_true]
      rw [Re.run, run_plus_cls_fail _ _ _ (by
        intro d ds hd
        rw [congrFun cls_bit d] at hd
        have : d ≠ '\'' := by
          intro e; subst e; simp at hd
        rw [run_cls, congrFun cls_quote d]; simp [this]), cls_bit]
      cases hsp : spanP (fun d => d = '0' || d = '1') cs with
      | mk ds rest =>
        cases ds with
        | nil => rfl
        | cons a ds =>
          cases rest with
          | nil => rfl
          | cons q rest =>
            simp only [run_cls, congrFun cls_quote q]
            by_cases hq : q = '\'' <;> simp [hq]
    · simp [hc]

theorem reComment_run (cs : List Char) : reComment.matchRest cs = mComment cs := by
  match cs with
  | [] => rfl
  | [a] =>
    rw [Re.matchRest, reComment, Re.run, reSlash, run_cls, congrFun cls_slash a]
    by_cases ha : a = '/' <;> simp [ha, Re.run, mComment]
  | a :: b :: cs =>
    rw [Re.matchRest, reComment, Re.run, reSlash, run_cls, congrFun cls_slash a, Re.run, run_cls,
      congrFun cls_slash b, mComment]
    by_cases ha : a = '/'
    · by_cases hb : b = '/'
      · simp only [ha, hb, decide_true, if_true, Bool.and_self]
        rw [show (Re.star (.cls true [.ch (Char.ofNat 10)])).run some cs
            = starLoop (Re.cls true [.ch (Char.ofNat 10)]).run some cs.length cs from rfl,
          starLoop_cls_total _ _ _ (fun _ => rfl) _ _ (Nat.le_refl _), cls_notnl]
      · simp [ha, hb]
    · simp [ha]

/-- `(\n|[^\n])` matches any one character. -/
theorem anyChar_run {β} (k : List Char → Option β) (cs : List Char) :
    (Re.alt (.cls false [.ch (Char.ofNat 10)]) (.cls true [.ch (Char.ofNat 10)])).run k cs =
      match cs with
      | [] => none
      | _ :: cs' => k cs' := by
  cases cs with
  | nil => rfl
  | cons c cs =>
    rw [Re.run, run_cls, run_cls, congrFun cls_nl c, congrFun cls_notnl c]
    by_cases hc : c = '\n' <;> simp [hc, first]
    · cases k cs <;> rfl

theorem lazyLoop_block (body : (List Char → Option (List Char)) → List Char → Option (List Char))
    (hbody : ∀ k cs, body k cs = match cs with | [] => none | _ :: cs' => k cs') :
    ∀ (n : Nat) (cs : List Char), cs.length ≤ n →
      lazyLoop body ((Re.seq reStar reSlash).run some) n cs = (blockBody cs).map (·.2) := by
  intro n
  induction n with
  | zero =>
    intro cs h
    have : cs = [] := List.eq_nil_of_length_eq_zero (by omega)
    subst this; rfl
  | succ n ih =>
    intro cs h
    rw [lazyLoop, hbody]
    match cs with
    | [] => rfl
    | [c] =>
      simp only [List.length_cons, List.length_nil]
      rw [if_pos (by omega), ih [] (by simp)]
      have : (Re.seq reStar reSlash).run some [c] = none := by
        rw [show (Re.seq reStar reSlash).run some [c] =
          (if clsMatches false [.ch '*'] c then (none : Option (List Char)) else none) from rfl]
        split <;> rfl
      rw [this]
      rfl
    | c :: d :: ds =>
      rw [blockBody.eq_def]
      simp only [List.length_cons]
      rw [if_pos (by omega), ih (d :: ds) (by simp at h ⊢; omega)]
      rw [show (Re.seq reStar reSlash).run some (c :: d :: ds) =
        (if clsMatches false [.ch '*'] c then (if clsMatches false [.ch '/'] d then some ds else none) else none) from rfl]
      rw [congrFun cls_star c, congrFun cls_slash d]
      by_cases hc : c = '*'
      · by_cases hd : d = '/'
        · simp [hc, hd, first]
        · simp only [hc, hd, decide_true, decide_false, if_true, Bool.false_eq_true, if_false, first_none_left,
            Bool.and_false]
          cases blockBody (d :: ds) <;> rfl
      · simp only [hc, decide_false, Bool.false_eq_true, if_false, first_none_left, Bool.false_and]
        cases blockBody (d :: ds) <;> rfl

theorem reBlock_run (cs : List Char) : reBlock.matchRest cs = (mBlockComment cs).map (·.2) := by
  match cs with
  | [] => rfl
  | [a] =>
    rw [Re.matchRest, reBlock, Re.run, reSlash, run_cls, congrFun cls_slash a]
    by_cases ha : a = '/'
    · simp only [ha, decide_true, if_true, mBlockComment]
      rfl
    · simp [ha, mBlockComment]
  | a :: b :: cs =>
    rw [Re.matchRest, reBlock, Re.run, reSlash, run_cls, congrFun cls_slash a, Re.run, reStar, run_cls,
      congrFun cls_star b, mBlockComment]
    by_cases ha : a = '/'
    · by_cases hb : b = '*'
      · simp only [ha, hb, decide_true, if_true, Bool.and_self]
        rw [Re.run]
        exact lazyLoop_block _ (fun k cs => anyChar_run k cs) cs.length cs (Nat.le_refl _)
      · simp [ha, hb]
    · simp [ha]


/-! ## The literals, the ignored characters, the keywords -/

theorem literal_isSome (c : Char) : (literal? c).isSome = LexerRules.literals.contains c := by
  unfold literal? LexerRules.literals
  by_cases h1 : c = '<'; · subst h1; rfl
  by_cases h2 : c = '>'; · subst h2; rfl
  by_cases h3 : c = '|'; · subst h3; rfl
  by_cases h4 : c = '{'; · subst h4; rfl
  by_cases h5 : c = '}'; · subst h5; rfl
  by_cases h6 : c = ';'; · subst h6; rfl
  by_cases h7 : c = '['; · subst h7; rfl
  by_cases h8 : c = ']'; · subst h8; rfl
  by_cases h9 : c = ','; · subst h9; rfl
  by_cases h10 : c = '*'; · subst h10; rfl
  by_cases h11 : c = ':'; · subst h11; rfl
  simp [h1, h2, h3, h4, h5, h6, h7, h8, h9, h10, h11]

theorem isIgnore_eq (c : Char) : isIgnore c = LexerRules.ignore.contains c := by
  unfold isIgnore LexerRules.ignore
  by_cases h1 : c = ' '; · subst h1; rfl
  by_cases h2 : c = '\t'; · subst h2; rfl
  have e1 : (Char.ofNat 32) = ' ' := rfl
  have e2 : (Char.ofNat 9) = '\t' := rfl
  simp [h1, h2]

/-- The token type names of the keyword table. -/
def tokOfName (s : String) : Option Tok :=
  if s = "REG" then some .REG else if s = "MAP" then some .MAP else if s = "LET" then some .LET
  else if s = "MACRO" then some .MACRO else if s = "LOOP" then some .LOOP else if s = "IMPORT" then some .IMPORT
  else if s = "USEPULSES" then some .USEPULSES else if s = "FROM" then some .FROM else if s = "AS" then some .AS
  else if s = "BRANCH" then some .BRANCH else if s = "SUBCIRCUIT" then some .SUBCIRCUIT else none

/-- The keyword remapping of the model is the generated table. -/
theorem keyword_eq (s : String) : keyword? s = (LexerRules.keywords.lookup s).bind tokOfName := by
  unfold keyword? LexerRules.keywords
  by_cases h1 : s = "register"; · subst h1; rfl
  by_cases h2 : s = "map"; · subst h2; rfl
  by_cases h3 : s = "let"; · subst h3; rfl
  by_cases h4 : s = "macro"; · subst h4; rfl
  by_cases h5 : s = "loop"; · subst h5; rfl
  by_cases h6 : s = "import"; · subst h6; rfl
  by_cases h7 : s = "usepulses"; · subst h7; rfl
  by_cases h8 : s = "from"; · subst h8; rfl
  by_cases h9 : s = "as"; · subst h9; rfl
  by_cases h10 : s = "branch"; · subst h10; rfl
  by_cases h11 : s = "subcircuit"; · subst h11; rfl
  have hb : ∀ t : String, s ≠ t → (s == t) = false := fun t h => by simpa using h
  simp [List.lookup, h1, h2, h3, h4, h5, h6, h7, h8, h9, h10, h11, hb _ h1, hb _ h2, hb _ h3, hb _ h4, hb _ h5,
    hb _ h6, hb _ h7, hb _ h8, hb _ h9, hb _ h10, hb _ h11]


/-! ## One step of the tokenizer, from the match of the generated rules -/

/-- What `tokenize` does with the result of the master regular expression (`m.lastgroup`, the remaining
input): the matched text is `cs` without the remaining input; IDENTIFIER is remapped through the keyword
table; NUMBER, INT and BININT get their value from the pieces of the matched text (`mNumber`, `mInt`,
`mBinInt` decompose the same match); comments are skipped; when no rule matches, a character from
`literals` is a token of its own. -/
def stepOfMatch (m : Option (String × List Char)) (cs : List Char) : Step :=
  match m with
  | some (name, rest) =>
    let text := cs.take (cs.length - rest.length)
    if name = "NL" then .token .NL rest text.length
    else if name = "IDENTIFIER" then .token (identTok text) rest 0
    else if name = "DOTIDENTIFIER" then .token (.DOTIDENTIFIER (String.ofList text)) rest 0
    else if name = "NUMBER" then
      match mNumber cs with
      | some (n, _) => if Dec.overflows n.value then .overflow else .token (.NUMBER n.value) rest 0
      | none => .illegal
    else if name = "INT" then
      match mInt cs with
      | some (s, ds, _) => if ds.length > maxIntDigits then .overflow else .token (.INT (intValue s ds)) rest 0
      | none => .illegal
    else if name = "BININT" then
      match mBinInt cs with
      | some (ds, _) => .token (.BININT (natOfBits ds)) rest 0
      | none => .illegal
    else if name = "comment" then .skip rest 0
    else if name = "multiline_comment" then .skip rest (countNL text)
    else .illegal
  | none =>
    match cs with
    | c :: rest =>
      match literal? c with
      | some t => .token t rest 0
      | none => .illegal
    | [] => .illegal

theorem take_of_append {m rest cs : List Char} (h : cs = m ++ rest) : cs.take (cs.length - rest.length) = m := by
  subst h; simp

/-- **The tokenizer step of the model is the backtracking match of the generated rules, in rule order.** -/
theorem step_regex (cs : List Char) : step cs = stepOfMatch (lexMatch LexerRules.rules cs) cs := by
  rw [rules_eq]
  simp only [lexMatch, reNL_run, reIdent_run, reDotIdent_run, reNumber_run, reInt_run, reBinInt_run,
    reComment_run, reBlock_run]
  unfold step
  cases h1 : mNL cs with
  | some r1 =>
    obtain ⟨m, rest⟩ := r1
    obtain ⟨-, hm⟩ := mNL_consumes h1
    simp [stepOfMatch, take_of_append hm]
  | none =>
  cases h2 : mIdent cs with
  | some r2 =>
    obtain ⟨m, rest⟩ := r2
    obtain ⟨-, hm⟩ := mIdent_consumes h2
    simp [stepOfMatch, take_of_append hm]
  | none =>
  cases h3 : mDotIdent cs with
  | some r3 =>
    obtain ⟨m, rest⟩ := r3
    obtain ⟨-, hm⟩ := mDotIdent_consumes h3
    simp [stepOfMatch, take_of_append hm]
  | none =>
  cases h4 : mNumber cs with
  | some r4 =>
    obtain ⟨n, rest⟩ := r4
    simp [stepOfMatch, h4]
  | none =>
  cases h5 : mInt cs with
  | some r5 =>
    obtain ⟨s, ds, rest⟩ := r5
    simp [stepOfMatch, h5]
  | none =>
  cases h6 : mBinInt cs with
  | some r6 =>
    obtain ⟨ds, rest⟩ := r6
    simp [stepOfMatch, h6]
  | none =>
  cases h7 : mComment cs with
  | some rest => simp [stepOfMatch]
  | none =>
  cases h8 : mBlockComment cs with
  | some r8 =>
    obtain ⟨body, rest⟩ := r8
    obtain ⟨m, -, hm, hmb⟩ := mBlockComment_spec h8
    have hcnt : countNL (cs.take (cs.length - rest.length)) = countNL body := by
      rw [take_of_append hm, hmb]; simp [countNL]
    simp [stepOfMatch, hcnt]
  | none =>
    simp only [Option.map_none, stepOfMatch]
    cases cs with
    | nil => rfl
    | cons c rest => cases literal? c <;> rfl


end Jaqal.Lexer
