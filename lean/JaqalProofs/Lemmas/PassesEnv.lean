import JaqalProofs.Props.C05
/-!
Environment independence of let-free values, and `C05_meaning` for an arbitrary evaluation environment of the result.
-/
namespace Jaqal.Passes
open Jaqal Jaqal.Sem Jaqal.FillIn

theorem optInt_nonconst (ρ ρ' : Env) (b : Bind) (d : Int) {v : Val} (h : isConst v = false) :
    ExpandMacros.optInt ρ' b d v = ExpandMacros.optInt ρ b d v := by
  cases v <;> first | rfl | simp [isConst] at h

theorem evalReg_noConst (ρ : Env) (b : Bind) : ∀ (v : Val), noConst v = true → evalReg ρ b v = evalReg [] b v := by
  intro v
  induction v with
  | regF n size _ =>
    intro h
    have hs : isConst size = false := by simpa [noConst] using h
    simp only [evalReg, evalInt_congr (evalNum_nonconst [] ρ b hs)]
  | regA n src ih => intro h; simp only [evalReg]; exact ih (by simpa [noConst] using h)
  | regS n src a s e ih _ _ _ =>
    intro h
    simp only [noConst, Bool.and_eq_true, Bool.not_eq_true'] at h
    obtain ⟨⟨⟨h1, h2⟩, h3⟩, h4⟩ := h
    rw [ExpandMacros.evalReg_regS, ExpandMacros.evalReg_regS, ih h1]
    simp only [optInt_nonconst [] ρ b _ h2, optInt_nonconst [] ρ b _ h3, optInt_nonconst [] ρ b _ h4]
  | _ => intro _; rfl

theorem evalQubit_noConst (ρ : Env) (b : Bind) (v : Val) (h : noConst v = true) : evalQubit ρ b v = evalQubit [] b v := by
  cases v with
  | qubit n src idx =>
    simp only [noConst, Bool.and_eq_true, Bool.not_eq_true'] at h
    simp only [evalQubit, evalInt_congr (evalNum_nonconst [] ρ b h.2), evalReg_noConst ρ b src h.1]
  | _ => rfl

theorem evalArg_noConst (ρ : Env) (b : Bind) (v : Val) (h : noConst v = true) : evalArg ρ b v = evalArg [] b v := by
  cases v with
  | const n d => simp [noConst] at h
  | qubit n src idx => simp only [evalArg, evalQubit_noConst ρ b _ h]
  | regF n s => simp only [evalArg, evalReg_noConst ρ b _ h]
  | regA n s => simp only [evalArg, evalReg_noConst ρ b _ h]
  | regS n s x y z => simp only [evalArg, evalReg_noConst ρ b _ h]
  | _ => rfl

theorem evalNum_noConst (ρ : Env) (b : Bind) (v : Val) (h : noConst v = true) : evalNum ρ b v = evalNum [] b v :=
  evalNum_nonconst [] ρ b (noConst_not_isConst h)

/-- **C05_meaning for any evaluation environment of the result**: after `fill_in_let(ov)` nothing depends on the
environment any more, and the circuit means what the original means under the overriding values. -/
theorem fillInLet_meaning (ρ : Env) (ov : List (String × Num)) (c c' : Circuit) (hw : FillIn.WellFormed c)
    (h : fillInLet ov c = .ok c') : meaning ρ c' = meaning (normOv ov) c := by
  obtain ⟨bs, regs, hbs, _, hr⟩ := fillInLet_rebuilt hw h
  have hB : BlocksOKList bs := by
    have := hw.blocks
    rw [hbs] at this
    simp only [BlocksOK] at this
    exact this.2.2
  have key : ∀ v v' (b : Bind), letVal ov false v = .ok v' →
      evalArg ρ b v' = evalArg (normOv ov) b v ∧ evalNum ρ b v' = evalNum (normOv ov) b v := by
    intro v v' b hf
    have hn := letVal_noConst v false v' hf
    have hs := letVal_sem v false v' hf b
    exact ⟨by rw [evalArg_noConst ρ b v' hn, hs.2.2.2], by rw [evalNum_noConst ρ b v' hn, hs.1]⟩
  exact Rebuilt_meaning (P := fun _ => True)
    (fun v v' b _ hf => key v v' b hf)
    (fun v v' b _ hf => ⟨(key v v' b hf).2, fun hn => letVal_none (hn ▸ hf)⟩)
    (fun _ v v' b _ hf => key v v' b hf)
    hr hbs hB (allValsList_true bs) (fun m hm => ⟨hw.macros m hm, allVals_true m.body⟩)

end Jaqal.Passes
