import JaqalModel.Model.GateDef
/-!
Facts about `AbstractGate.call` (model `JaqalModel/Model/GateDef.lean`) used by C04 and C09: a successful call returns
the gate statement of the definition; `gd()` succeeds exactly for a definition without parameters; `gd(**kw)` with
exactly the definition's parameter names in order rebuilds `kw`.
-/
namespace Jaqal.GateDef
open Jaqal

theorem finish_ok {gd : GateDef} {bound : List (String × Val)} {g : Stmt} (h : finish gd bound = .ok g) :
    g = .gate gd.name gd bound := by
  unfold finish at h
  by_cases hc : gd.params.length ≠ bound.length
  · simp [hc, bind, Except.bind, throw, throwThe, MonadExceptOf.throw] at h
  · simp only [hc, if_false, bind, Except.bind, pure, Except.pure] at h
    split at h
    · cases h
    · simp only [Except.ok.injEq] at h; exact h.symm

theorem finish_nil (gd : GateDef) :
    finish gd [] = if gd.params = [] then .ok (.gate gd.name gd []) else .error (.jaqal "bad-argument-count") := by
  unfold finish
  cases h : gd.params with
  | nil => simp [validateAll, bind, Except.bind, pure, Except.pure]
  | cons a l => simp [bind, Except.bind, throw, throwThe, MonadExceptOf.throw]

/-- `gd()` -/
theorem callPos_nil (gd : GateDef) :
    callPos gd [] = if gd.params = [] then .ok (.gate gd.name gd []) else .error (.jaqal "bad-argument-count") := by
  unfold callPos
  simp [odUpdate, finish_nil]

theorem odGet?_none {β : Type} : ∀ (l : List (String × β)) (n : String), n ∉ l.map (·.1) → odGet? l n = none
  | [], _, _ => rfl
  | (k, v) :: r, n, h => by
    simp only [List.map_cons, List.mem_cons, not_or] at h
    simp [odGet?, Ne.symm h.1, odGet?_none r n h.2]

theorem odSet_append {β : Type} : ∀ (acc : List (String × β)) (n : String) (v : β), n ∉ acc.map (·.1) →
    odSet acc n v = acc ++ [(n, v)]
  | [], _, _, _ => rfl
  | (k, w) :: r, n, v, h => by
    simp only [List.map_cons, List.mem_cons, not_or] at h
    simp [odSet, Ne.symm h.1, odSet_append r n v h.2]

theorem odDel_cons_self {β : Type} (l : List (String × β)) (n : String) (v : β) (h : n ∉ l.map (·.1)) :
    odDel ((n, v) :: l) n = l := by
  unfold odDel
  simp only [List.filter_cons, ne_eq, not_true_eq_false, decide_false, Bool.false_eq_true, if_false]
  rw [List.filter_eq_self]
  intro x hx
  have : x.1 ∈ l.map (·.1) := List.mem_map_of_mem hx
  simp only [ne_eq, decide_eq_true_eq]
  intro he; rw [he] at this; exact h this

theorem hasDupKey_false {β : Type} : ∀ (l : List (String × β)), (l.map (·.1)).Nodup → hasDupKey l = false
  | [], _ => rfl
  | (k, v) :: r, h => by
    simp only [List.map_cons, List.nodup_cons] at h
    simp [hasDupKey, odHas, odGet?_none r k h.1, hasDupKey_false r h.2]

theorem popAll_eq : ∀ (ps : List (String × Kind)) (kw acc : List (String × Val)),
    kw.map (·.1) = ps.map (·.1) → (ps.map (·.1)).Nodup → (∀ n ∈ ps.map (·.1), n ∉ acc.map (·.1)) →
    popAll ps kw acc = .ok (acc ++ kw, [])
  | [], kw, acc, h, _, _ => by
    cases kw with
    | nil => simp [popAll, pure, Except.pure]
    | cons a l => simp at h
  | (n, k) :: ps, kw, acc, h, hnd, hacc => by
    cases kw with
    | nil => simp at h
    | cons a l =>
      obtain ⟨n', v⟩ := a
      simp only [List.map_cons, List.cons.injEq] at h
      obtain ⟨h1, h2⟩ := h
      subst h1
      simp only [List.map_cons, List.nodup_cons] at hnd
      have hnl : n' ∉ l.map (·.1) := by rw [h2]; exact hnd.1
      have hna : n' ∉ acc.map (·.1) := hacc n' (by simp)
      have hget : odGet? ((n', v) :: l) n' = some v := by simp [odGet?]
      simp only [popAll, hget, odDel_cons_self l n' v hnl, odSet_append acc n' v hna]
      rw [popAll_eq ps l (acc ++ [(n', v)]) h2 hnd.2]
      · simp
      · intro m hm
        simp only [List.map_append, List.map_cons, List.map_nil, List.mem_append, List.mem_singleton, not_or]
        exact ⟨hacc m (by simp [hm]), fun he => hnd.1 (he ▸ hm)⟩

/-- `gd(**kw)` returns a statement of `gd` -/
theorem callKw_isGate {gd : GateDef} {new : List (String × Val)} {g : Stmt} (h : callKw gd new = .ok g) :
    ∃ a, g = .gate gd.name gd a := by
  unfold callKw at h
  by_cases hd : hasDupKey new = true
  · simp [hd, bind, Except.bind, throw, throwThe, MonadExceptOf.throw] at h
  · simp only [hd, Bool.false_eq_true, if_false, bind, Except.bind, pure, Except.pure] at h
    split at h
    · exact ⟨_, finish_ok h⟩
    · split at h
      · cases h
      · split at h
        · simp [throw, throwThe, MonadExceptOf.throw] at h
        · exact ⟨_, finish_ok h⟩

/-- `gd(**kw)` with exactly the parameters of `gd`, in order: the statement binds `kw` -/
theorem callKw_ok {gd : GateDef} {new : List (String × Val)} {g : Stmt} (h : callKw gd new = .ok g)
    (hn : new.map (·.1) = gd.params.map (·.1)) (hnd : (gd.params.map (·.1)).Nodup) : g = .gate gd.name gd new := by
  unfold callKw at h
  have hd : hasDupKey new = false := hasDupKey_false new (by rw [hn]; exact hnd)
  simp only [hd, Bool.false_eq_true, if_false, bind, Except.bind, pure, Except.pure] at h
  by_cases he : new.isEmpty = true
  · have : new = [] := by simpa using he
    subst this
    simp only [List.isEmpty_nil, if_true] at h
    exact finish_ok h
  · have hp := popAll_eq gd.params new [] hn hnd (by simp)
    simp only [he, Bool.false_eq_true, if_false, hp, List.nil_append, List.isEmpty_nil, Bool.not_true] at h
    exact finish_ok h

end Jaqal.GateDef

namespace Jaqal

/-! ### error classes -/

/-- the error, if any, is a `JaqalError` -/
def JaqalOnly {α} (x : M α) : Prop := ∀ e, x = .error e → ∃ t, e = .jaqal t

theorem JaqalOnly.ok {α} (a : α) : JaqalOnly (.ok a : M α) := by intro e h; cases h
theorem JaqalOnly.pure {α} (a : α) : JaqalOnly (Pure.pure a : M α) := by intro e h; cases h
theorem JaqalOnly.ite {α} {c : Prop} [Decidable c] {x y : M α} (hx : JaqalOnly x) (hy : JaqalOnly y) :
    JaqalOnly (if c then x else y) := by
  split <;> assumption
theorem JaqalOnly.jaqal {α} (t : String) : JaqalOnly (.error (.jaqal t) : M α) := by
  intro e h; cases h; exact ⟨_, rfl⟩

theorem JaqalOnly.bind {α β} {x : M α} {f : α → M β} (hx : JaqalOnly x) (hf : ∀ a, x = .ok a → JaqalOnly (f a)) :
    JaqalOnly (x >>= f) := by
  intro e h
  cases hxx : x with
  | error e' =>
    rw [hxx] at h
    simp only [Bind.bind, Except.bind, Except.error.injEq] at h
    subst h; exact hx _ hxx
  | ok a =>
    rw [hxx] at h
    exact hf a hxx e h

end Jaqal

