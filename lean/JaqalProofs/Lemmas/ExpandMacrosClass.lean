import JaqalProofs.Lemmas.ExpandMacrosSyn
/-!
Error classes of the model of `expand_macros`: on a well-formed circuit every rejection is a `JaqalError`
(no `TypeError` / `AttributeError` / `KeyError` escapes and, the macro table being acyclic, no `RecursionError`).
-/
namespace Jaqal.ExpandMacros
open Jaqal

/-! ## registers -/

theorem resolveInt_int (i : Int) : Resolve.resolveInt [] (.int i) = .ok i := rfl
theorem resolveInt_const_int (n : String) (i : Int) : Resolve.resolveInt [] (.const n (.int i)) = .ok i := rfl

theorem intLike_resolve {v : Val} (h : intLike v = true) : ∃ i, Resolve.resolveInt [] v = .ok i := by
  cases v with
  | int i => exact ⟨i, rfl⟩
  | const n x =>
    cases x with
    | int i => exact ⟨i, rfl⟩
    | _ => simp [intLike] at h
  | _ => simp [intLike] at h

theorem start_resolve {v : Val} (h : (v == .none || intLike v) = true) : ∃ i, Resolve.resolveInt [] (Resolve.startOr0 v) = .ok i := by
  cases v with
  | none => exact ⟨0, rfl⟩
  | int i =>
    by_cases hi : i = 0
    · subst hi; exact ⟨0, rfl⟩
    · refine ⟨i, ?_⟩
      have : Resolve.startOr0 (.int i) = .int i := by
        cases i with
        | ofNat k => cases k with
          | zero => exact absurd rfl hi
          | succ k => rfl
        | negSucc k => rfl
      rw [this]; rfl
  | const n x =>
    cases x with
    | int i => exact ⟨i, rfl⟩
    | _ => simp [intLike] at h
  | _ => simp [intLike] at h

theorem step_resolve {v : Val} (h : (v == .none || intLike v) = true) : ∃ i, Resolve.resolveInt [] (Resolve.stepOr1 v) = .ok i := by
  cases v with
  | none => exact ⟨1, rfl⟩
  | int i => exact ⟨i, rfl⟩
  | const n x =>
    cases x with
    | int i => exact ⟨i, rfl⟩
    | _ => simp [intLike] at h
  | _ => simp [intLike] at h

theorem rangeLen_ok (a b s : Int) (hs : s ≠ 0) : ∃ k, Resolve.rangeLen a b s = .ok k := by
  unfold Resolve.rangeLen
  simp only [hs, if_false]
  split <;> exact ⟨_, rfl⟩

/-- the four things `reg.size` can be for a builder-made register -/
inductive SizeRes : M Val → Prop where
  | err (t : String) : SizeRes (.error (.jaqal t))
  | int (k : Int) : SizeRes (.ok (.int k))
  | flt (d : Dec) : SizeRes (.ok (.flt d))
  | const (n : String) (v : Val) : SizeRes (.ok (.const n v))

theorem resolveSize_built : ∀ (r : Val), regBuilt r = true → SizeRes (Resolve.resolveSize [] r)
  | .regF n size, h => by
    cases size <;> simp [regBuilt] at h
    · exact SizeRes.int _
    · exact SizeRes.flt _
    · exact SizeRes.const _ _
  | .regA n src, h => by
    simp only [regBuilt, Bool.and_eq_true] at h
    have ih := resolveSize_built src h.2
    cases src <;> simp [isReg] at h <;> simpa [Resolve.resolveSize] using ih
  | .regS n src a b c, h => by
    simp only [regBuilt, Bool.and_eq_true] at h
    obtain ⟨⟨⟨hsrc, ha⟩, hb⟩, hc⟩ := h
    obtain ⟨ia, hia⟩ := start_resolve ha
    obtain ⟨ic, hic⟩ := step_resolve hc
    obtain ⟨ib, hib⟩ := intLike_resolve hb
    have key : Resolve.resolveSize [] (.regS n src a b c) =
        (if ic = 0 then .error (.jaqal "zero-step") else do pure (.int (← Resolve.rangeLen ia ib ic))) := by
      cases src <;> simp [isReg] at hsrc <;>
        simp [Resolve.resolveSize, hia, hic, hib, bind, Except.bind, pure, Except.pure]
    rw [key]
    by_cases hz : ic = 0
    · simp only [hz, if_true]; exact SizeRes.err _
    · obtain ⟨k, hk⟩ := rangeLen_ok ia ib ic hz
      simp only [hz, if_false, hk, bind, Except.bind, pure, Except.pure]
      exact SizeRes.int k
  | .int _, h => by simp [regBuilt] at h
  | .flt _, h => by simp [regBuilt] at h
  | .const _ _, h => by simp [regBuilt] at h
  | .param _ _, h => by simp [regBuilt] at h
  | .qubit _ _ _, h => by simp [regBuilt] at h
  | .none, h => by simp [regBuilt] at h
  | .str _, h => by simp [regBuilt] at h

theorem sizeForCheck_ok {r : Val} (h : regBuilt r = true) : ∃ o, sizeForCheck r = .ok o := by
  have hres := resolveSize_built r h
  unfold sizeForCheck
  generalize Resolve.resolveSize [] r = x at hres
  cases hres with
  | err t => exact ⟨none, rfl⟩
  | int k => exact ⟨some k, rfl⟩
  | flt d => exact ⟨some (truncDec d), rfl⟩
  | const n v =>
    cases v with
    | int k => exact ⟨some k, rfl⟩
    | _ => exact ⟨none, rfl⟩

/-! ## values -/

theorem checkQubit_class {src idx : Val} (ha : isArrayLike src = true) (hr : isReg src = true → regBuilt src = true) :
    JaqalOnly (checkQubit src idx) ∧ (checkQubit src idx = .ok () → isIndexLike idx = true) := by
  unfold checkQubit
  split
  · exact ⟨JaqalOnly.jaqal _, fun h => by cases h⟩
  · split
    · next hki hks =>
      -- neither annotated: the source is a register
      have hreg : isReg src = true := by
        cases src <;> simp_all [isArrayLike, isReg, avKind?]
      obtain ⟨o, ho⟩ := sizeForCheck_ok (hr hreg)
      have hrange : ∀ i : Int, JaqalOnly (do
          match ← sizeForCheck src with
          | none => pure ()
          | some n => if i < 0 || i ≥ n then .error (.jaqal "index-out-of-range") else pure () : M Unit) := by
        intro i
        rw [ho]
        simp only [bind, Except.bind]
        cases o with
        | none => exact JaqalOnly.ok _
        | some n => exact JaqalOnly.ite (JaqalOnly.jaqal _) (JaqalOnly.pure _)
      cases idx with
      | int i => exact ⟨hrange i, fun _ => rfl⟩
      | flt d =>
        simp only
        split
        · exact ⟨hrange _, fun _ => rfl⟩
        · exact ⟨JaqalOnly.jaqal _, fun h => by cases h⟩
      | _ => exact ⟨JaqalOnly.jaqal _, fun h => by cases h⟩
    · split
      · exact ⟨JaqalOnly.jaqal _, fun h => by cases h⟩
      · next hidx =>
        refine ⟨?_, fun _ => by simpa using hidx⟩
        split
        · exact JaqalOnly.jaqal _
        · split
          · exact JaqalOnly.jaqal _
          · exact JaqalOnly.ok _

theorem strIndex_ok {idx : Val} (h : isIndexLike idx = true) : ∃ s, strIndex idx = .ok s := by
  cases idx <;> simp [isIndexLike] at h <;> exact ⟨_, rfl⟩

theorem getItem_class {s i : Val} (ha : isArrayLike s = true) (hr : isReg s = true → regBuilt s = true) :
    JaqalOnly (getItem s i) := by
  obtain ⟨hc, hidx⟩ := checkQubit_class (idx := i) ha hr
  have body : ∀ n : String, JaqalOnly (do
      checkQubit s i
      let t ← strIndex i
      pure (Val.qubit (n ++ "[" ++ t ++ "]") s i) : M Val) := by
    intro n
    apply JaqalOnly.bind hc
    intro u hu
    cases u
    obtain ⟨t, ht⟩ := strIndex_ok (hidx hu)
    rw [ht]
    exact JaqalOnly.ok _
  unfold getItem
  cases s <;> simp [isArrayLike] at ha <;> simp only [Val.name?] <;> exact body _

theorem lookupArg_mem {args : List (String × Val)} {n : String} {a : Val} (h : lookupArg args n = some a) :
    ∃ e ∈ args, e.2 = a := by
  unfold lookupArg at h
  cases hf : List.find? (fun x => x.1 == n) args with
  | none => rw [hf] at h; cases h
  | some e =>
    rw [hf] at h; simp only [Option.map_some, Option.some.injEq] at h
    exact ⟨e, List.mem_of_find?_eq_some hf, h⟩

/-- the register arguments of a call are builder-made -/
def argsGood (args : List (String × Val)) : Prop := ∀ e ∈ args, isReg e.2 = true → regBuilt e.2 = true

theorem substParam_class (args : List (String × Val)) (n : String) (k : Kind) : JaqalOnly (substVal args (.param n k)) := by
  simp only [substVal]
  split
  · split
    · exact JaqalOnly.ok _
    · exact JaqalOnly.jaqal _
  · exact JaqalOnly.ok _

/-- a number, let constant or parameter (an index, a count): only the type check of a parameter can fail -/
theorem substIndexLike_class (args : List (String × Val)) {v : Val} (h : isIndexLike v = true) : JaqalOnly (substVal args v) := by
  cases v <;> simp [isIndexLike] at h
  · exact JaqalOnly.ok _
  · exact JaqalOnly.ok _
  · exact JaqalOnly.ok _
  · exact substParam_class args _ _

theorem substVal_reg {args : List (String × Val)} {v : Val} (h : isReg v = true) : substVal args v = .ok v := by
  cases v <;> simp [isReg] at h <;> rfl

theorem substVal_class {args : List (String × Val)} (hargs : argsGood args) {v : Val} (hv : goodVal v = true) :
    JaqalOnly (substVal args v) ∧ ∀ v', substVal args v = .ok v' → (isReg v' = true → regBuilt v' = true) := by
  cases v with
  | param n k =>
    refine ⟨substParam_class args n k, ?_⟩
    intro v' h hreg
    rcases substVal_param h with h1 | ⟨_, h1⟩
    · obtain ⟨e, he, rfl⟩ := lookupArg_mem h1
      exact hargs e he hreg
    · subst h1; simp [isReg] at hreg
  | qubit n s i =>
    simp only [goodVal, Bool.and_eq_true, Bool.or_eq_true, Bool.not_eq_true'] at hv
    obtain ⟨⟨hs, hsr⟩, hi⟩ := hv
    constructor
    · simp only [substVal]
      -- the array
      have hsrc : JaqalOnly (substVal args s) ∧ ∀ s', substVal args s = .ok s' → (isReg s' = true → regBuilt s' = true) := by
        cases s <;> simp [isArrayLike] at hs
        · refine ⟨substParam_class args _ _, ?_⟩
          intro s' h hreg
          rcases substVal_param h with h1 | ⟨_, h1⟩
          · obtain ⟨e, he, rfl⟩ := lookupArg_mem h1
            exact hargs e he hreg
          · subst h1; simp [isReg] at hreg
        · exact ⟨by rw [substVal_reg rfl]; exact JaqalOnly.ok _, fun s' h hr => by
            rw [substVal_reg rfl] at h; cases h; rcases hsr with h0 | h0 <;> simp_all [isReg]⟩
        · exact ⟨by rw [substVal_reg rfl]; exact JaqalOnly.ok _, fun s' h hr => by
            rw [substVal_reg rfl] at h; cases h; rcases hsr with h0 | h0 <;> simp_all [isReg]⟩
        · exact ⟨by rw [substVal_reg rfl]; exact JaqalOnly.ok _, fun s' h hr => by
            rw [substVal_reg rfl] at h; cases h; rcases hsr with h0 | h0 <;> simp_all [isReg]⟩
      apply JaqalOnly.bind hsrc.1
      intro s' hs'
      cases hal : isArrayLike s' with
      | false => simp only [Bool.not_false, if_true]; exact JaqalOnly.jaqal _
      | true =>
        simp only [Bool.not_true, Bool.false_eq_true, if_false]
        apply JaqalOnly.bind (substIndexLike_class args hi)
        intro i' _
        exact getItem_class hal (hsrc.2 s' hs')
    · intro v' h hreg
      obtain ⟨s', i', nm, _, _, _, _, rfl⟩ := substVal_qubit_inv h
      simp [isReg] at hreg
  | int _ => exact ⟨JaqalOnly.ok _, fun v' h hr => by cases h; simp [isReg] at hr⟩
  | flt _ => exact ⟨JaqalOnly.ok _, fun v' h hr => by cases h; simp [isReg] at hr⟩
  | const _ _ => exact ⟨JaqalOnly.ok _, fun v' h hr => by cases h; simp [isReg] at hr⟩
  | none => exact ⟨JaqalOnly.ok _, fun v' h hr => by cases h; simp [isReg] at hr⟩
  | str _ => exact ⟨JaqalOnly.ok _, fun v' h hr => by cases h; simp [isReg] at hr⟩
  | regF _ _ => exact ⟨JaqalOnly.ok _, fun v' h hr => by cases h; simpa [goodVal, isReg] using hv⟩
  | regA _ _ => exact ⟨JaqalOnly.ok _, fun v' h hr => by cases h; simpa [goodVal, isReg] using hv⟩
  | regS _ _ _ _ _ => exact ⟨JaqalOnly.ok _, fun v' h hr => by cases h; simpa [goodVal, isReg] using hv⟩

theorem substArgs_class {args : List (String × Val)} (hargs : argsGood args) : ∀ (gargs : List (String × Val)),
    (∀ a ∈ gargs, goodVal a.2 = true) →
    JaqalOnly (substArgs args gargs) ∧
      ∀ new, substArgs args gargs = .ok new → argsGood new ∧ new.map (·.1) = gargs.map (·.1)
  | [], _ => ⟨JaqalOnly.ok _, fun new h => by
      simp only [substArgs, pure, Except.pure, Except.ok.injEq] at h; subst h
      exact ⟨fun e he => by simp at he, rfl⟩⟩
  | (n, v) :: r, hg => by
    have hv := substVal_class hargs (hg (n, v) (by simp))
    have ih := substArgs_class hargs r (fun a ha => hg a (by simp [ha]))
    constructor
    · simp only [substArgs]
      apply JaqalOnly.bind hv.1
      intro v' _
      apply JaqalOnly.bind ih.1
      intro r' _
      exact JaqalOnly.ok _
    · intro new h
      simp only [substArgs, bind, Except.bind] at h
      cases h1 : substVal args v with
      | error e => rw [h1] at h; cases h
      | ok v' =>
        rw [h1] at h; simp only at h
        cases h2 : substArgs args r with
        | error e => rw [h2] at h; cases h
        | ok r' =>
          rw [h2] at h; simp only [pure, Except.pure, Except.ok.injEq] at h; subst h
          obtain ⟨i1, i2⟩ := ih.2 r' h2
          refine ⟨?_, by simp [i2]⟩
          intro e he
          simp only [List.mem_cons] at he
          rcases he with rfl | he
          · exact hv.2 v' h1
          · exact i1 e he

theorem goodArgs_of_all {gargs : List (String × Val)} (h : ∀ a ∈ gargs, goodVal a.2 = true) : argsGood gargs := by
  intro e he hreg
  have := h e he
  cases hv : e.2 <;> rw [hv] at this hreg <;> simp_all [goodVal, isReg]

/-! ## `gate_def(**new)` -/

theorem validate_cases (k : Kind) (v : Val) :
    GateDef.validate k v = .ok () ∨ GateDef.validate k v = .error GateDef.typeErr := by
  unfold GateDef.validate
  cases k <;> simp only [] <;> (repeat' split) <;> (first | exact Or.inl rfl | exact Or.inr rfl)

theorem validate_class (k : Kind) (v : Val) : JaqalOnly (GateDef.validate k v) := by
  rcases validate_cases k v with h | h <;> rw [h]
  · exact JaqalOnly.ok _
  · exact JaqalOnly.jaqal _

theorem odGet?_some_of_mem {β : Type} : ∀ (l : List (String × β)) (n : String), n ∈ l.map (·.1) → ∃ v, GateDef.odGet? l n = some v
  | [], _, h => by simp at h
  | (k, w) :: r, n, h => by
    by_cases hk : k = n
    · exact ⟨w, by simp [GateDef.odGet?, hk]⟩
    · simp only [List.map_cons, List.mem_cons] at h
      rcases h with h | h
      · exact absurd h.symm hk
      · obtain ⟨v, hv⟩ := odGet?_some_of_mem r n h
        exact ⟨v, by simp [GateDef.odGet?, hk, hv]⟩

theorem validateAll_class (bound : List (String × Val)) : ∀ (ps : List (String × Kind)),
    (∀ p ∈ ps, p.1 ∈ bound.map (·.1)) → JaqalOnly (GateDef.validateAll ps bound)
  | [], _ => JaqalOnly.ok _
  | (n, k) :: ps, h => by
    obtain ⟨v, hv⟩ := odGet?_some_of_mem bound n (h (n, k) (by simp))
    simp only [GateDef.validateAll, hv]
    apply JaqalOnly.bind (validate_class k v)
    intro _ _
    exact validateAll_class bound ps (fun p hp => h p (by simp [hp]))

theorem finish_class (gd : GateDef) (bound : List (String × Val)) (h : bound.map (·.1) = gd.params.map (·.1)) :
    JaqalOnly (GateDef.finish gd bound) := by
  unfold GateDef.finish
  by_cases hc : gd.params.length ≠ bound.length
  · intro e he
    simp [hc, bind, Except.bind, throw, throwThe, MonadExceptOf.throw] at he
    exact ⟨_, he.symm⟩
  · simp only [hc, if_false]
    apply JaqalOnly.bind
    · apply validateAll_class
      intro p hp
      rw [h]; exact List.mem_map_of_mem hp
    · intro _ _; exact JaqalOnly.pure _

theorem callKw_eq_finish {gd : GateDef} {new : List (String × Val)}
    (hn : new.map (·.1) = gd.params.map (·.1)) (hnd : (gd.params.map (·.1)).Nodup) :
    GateDef.callKw gd new = GateDef.finish gd new := by
  unfold GateDef.callKw
  have hd : GateDef.hasDupKey new = false := GateDef.hasDupKey_false new (by rw [hn]; exact hnd)
  simp only [hd, Bool.false_eq_true, if_false, bind, Except.bind, pure, Except.pure]
  by_cases he : new.isEmpty = true
  · have : new = [] := by simpa using he
    subst this
    simp only [List.isEmpty_nil, if_true]
  · have hp := GateDef.popAll_eq gd.params new [] hn hnd (by simp)
    simp only [he, Bool.false_eq_true, if_false, hp, List.nil_append, List.isEmpty_nil, Bool.not_true]

theorem callKw_class {gd : GateDef} {new : List (String × Val)}
    (hn : new.map (·.1) = gd.params.map (·.1)) (hnd : (gd.params.map (·.1)).Nodup) : JaqalOnly (GateDef.callKw gd new) := by
  rw [callKw_eq_finish hn hnd]
  exact finish_class gd new hn

theorem mkBlock_class (par sub : Bool) (it : Val) (body : List Stmt) : JaqalOnly (mkBlock par sub it body) := by
  unfold mkBlock
  split
  · exact JaqalOnly.jaqal _
  · split
    · exact JaqalOnly.jaqal _
    · exact JaqalOnly.ok _

theorem mkLoop_class (c : Val) (b : Stmt) : JaqalOnly (mkLoop c b) := by
  unfold mkLoop
  split
  · exact JaqalOnly.jaqal _
  · exact JaqalOnly.ok _

/-! ## statements -/

section cls
variable (ms : List Macro)

/-- `call` only raises `JaqalError` on statements whose name satisfies `S` and whose arguments are builder-made -/
def CallClass (S : String → Bool) (call : Stmt → M Stmt) : Prop :=
  ∀ (n : String) (gd : GateDef) (a : List (String × Val)), S n = true → argsGood a → JaqalOnly (call (.gate n gd a))

def inS (avail all : List String) (n : String) : Bool := decide (n ∈ avail) || !decide (n ∈ all)

mutual
  theorem replStmt_class (avail all : List String) (call : Stmt → M Stmt) (hc : CallClass (inS avail all) call)
      (args : List (String × Val)) (hargs : argsGood args) :
      ∀ (s : Stmt), wfStmt ms s = true → wfT s = true → inScope avail all s = true → JaqalOnly (replStmt call args s)
    | .gate n gd gargs, hwf, hT, hsc => by
      simp only [wfStmt, wfGate, Bool.and_eq_true, beq_iff_eq, decide_eq_true_eq, List.all_eq_true] at hwf
      obtain ⟨⟨⟨⟨hname, hnames⟩, hnd⟩, _⟩, _⟩ := hwf
      simp only [wfT, List.all_eq_true] at hT
      have hs := substArgs_class hargs gargs hT
      simp only [replStmt]
      apply JaqalOnly.bind hs.1
      intro new hnew
      obtain ⟨hgood, hnn⟩ := hs.2 new hnew
      apply JaqalOnly.bind (callKw_class (by rw [hnn, hnames]) hnd)
      intro g hg
      have := callKw_ok hg (by rw [hnn, hnames]) hnd
      subst this
      apply hc gd.name gd new _ hgood
      rw [← hname]
      simpa [inScope, inS] using hsc
    | .loop c body, hwf, hT, hsc => by
      simp only [wfStmt, Bool.and_eq_true] at hwf
      simp only [wfT, Bool.and_eq_true] at hT
      simp only [replStmt]
      apply JaqalOnly.bind (substIndexLike_class args hT.1)
      intro c' _
      apply JaqalOnly.bind (replStmt_class avail all call hc args hargs body hwf.2 hT.2 (by simpa [inScope] using hsc))
      intro b' _
      exact mkLoop_class _ _
    | .block par sub it body, hwf, hT, hsc => by
      simp only [wfStmt, Bool.and_eq_true] at hwf
      simp only [wfT, Bool.and_eq_true] at hT
      simp only [replStmt]
      apply JaqalOnly.bind (replList_class avail all call hc args hargs par body hwf.2 hT.2 (by simpa [inScope] using hsc))
      intro stmts _
      apply JaqalOnly.bind (substIndexLike_class args hT.1)
      intro it' _
      exact mkBlock_class _ _ _ _
  theorem replList_class (avail all : List String) (call : Stmt → M Stmt) (hc : CallClass (inS avail all) call)
      (args : List (String × Val)) (hargs : argsGood args) (par : Bool) :
      ∀ (l : List Stmt), wfStmtList ms l = true → wfTList l = true → inScopeList avail all l = true →
        JaqalOnly (replList call args par l)
    | [], _, _, _ => JaqalOnly.ok _
    | s :: r, hwf, hT, hsc => by
      simp only [wfStmtList, Bool.and_eq_true] at hwf
      simp only [wfTList, Bool.and_eq_true] at hT
      simp only [inScopeList, Bool.and_eq_true] at hsc
      simp only [replList]
      apply JaqalOnly.bind (replStmt_class avail all call hc args hargs s hwf.1 hT.1 hsc.1)
      intro s' _
      apply JaqalOnly.bind (replList_class avail all call hc args hargs par r hwf.2 hT.2 hsc.2)
      intro r' _
      exact JaqalOnly.ok _
end

mutual
  theorem expStmt_class (avail all : List String) (call : Stmt → M Stmt) (hc : CallClass (inS avail all) call) :
      ∀ (s : Stmt), wfT s = true → inScope avail all s = true → JaqalOnly (expStmt call s)
    | .gate n gd gargs, hT, hsc => by
      simp only [wfT, List.all_eq_true] at hT
      simp only [expStmt]
      exact hc n gd gargs (by simpa [inScope, inS] using hsc) (goodArgs_of_all hT)
    | .loop c body, hT, hsc => by
      simp only [wfT, Bool.and_eq_true] at hT
      simp only [expStmt]
      apply JaqalOnly.bind (expStmt_class avail all call hc body hT.2 (by simpa [inScope] using hsc))
      intro b' _
      exact mkLoop_class _ _
    | .block par sub it body, hT, hsc => by
      simp only [wfT, Bool.and_eq_true] at hT
      simp only [expStmt]
      apply JaqalOnly.bind (expList_class avail all call hc par body hT.2 (by simpa [inScope] using hsc))
      intro stmts _
      exact mkBlock_class _ _ _ _
  theorem expList_class (avail all : List String) (call : Stmt → M Stmt) (hc : CallClass (inS avail all) call) (par : Bool) :
      ∀ (l : List Stmt), wfTList l = true → inScopeList avail all l = true → JaqalOnly (expList call par l)
    | [], _, _ => JaqalOnly.ok _
    | s :: r, hT, hsc => by
      simp only [wfTList, Bool.and_eq_true] at hT
      simp only [inScopeList, Bool.and_eq_true] at hsc
      simp only [expList]
      apply JaqalOnly.bind (expStmt_class avail all call hc s hT.1 hsc.1)
      intro s' _
      apply JaqalOnly.bind (expList_class avail all call hc par r hT.2 hsc.2)
      intro r' _
      exact JaqalOnly.ok _
end

mutual
  theorem inScope_mono (a1 a2 all : List String) (h : ∀ x, x ∈ a1 → x ∈ a2) : ∀ (s : Stmt), inScope a1 all s = true → inScope a2 all s = true
    | .gate n _ _, hs => by
      simp only [inScope, Bool.or_eq_true, decide_eq_true_eq, Bool.not_eq_true', decide_eq_false_iff_not] at hs ⊢
      rcases hs with hs | hs
      · exact Or.inl (h n hs)
      · exact Or.inr hs
    | .loop _ b, hs => by simp only [inScope] at hs ⊢; exact inScope_mono a1 a2 all h b hs
    | .block _ _ _ body, hs => by simp only [inScope] at hs ⊢; exact inScopeList_mono a1 a2 all h body hs
  theorem inScopeList_mono (a1 a2 all : List String) (h : ∀ x, x ∈ a1 → x ∈ a2) : ∀ (l : List Stmt), inScopeList a1 all l = true → inScopeList a2 all l = true
    | [], _ => rfl
    | s :: r, hs => by
      simp only [inScopeList, Bool.and_eq_true] at hs ⊢
      exact ⟨inScope_mono a1 a2 all h s hs.1, inScopeList_mono a1 a2 all h r hs.2⟩
end

mutual
  /-- with every name available nothing is out of scope -/
  theorem inScope_all (all : List String) : ∀ (s : Stmt), inScope all all s = true
    | .gate n _ _ => by
      simp only [inScope, Bool.or_eq_true, decide_eq_true_eq, Bool.not_eq_true', decide_eq_false_iff_not]
      exact Classical.em _
    | .loop _ b => by simp only [inScope]; exact inScope_all all b
    | .block _ _ _ body => by simp only [inScope]; exact inScopeList_all all body
  theorem inScopeList_all (all : List String) : ∀ (l : List Stmt), inScopeList all all l = true
    | [] => rfl
    | s :: r => by simp only [inScopeList, Bool.and_eq_true]; exact ⟨inScope_all all s, inScopeList_all all r⟩
end

theorem findMacro_none_of_not_mem {n : String} (h : n ∉ ms.map (·.name)) : findMacro ms n = none := by
  unfold findMacro
  apply List.find?_eq_none.mpr
  intro m hm hmn
  simp only [beq_iff_eq] at hmn
  exact h (hmn ▸ List.mem_map_of_mem hm)

/-- **no `RecursionError`**: a macro among the first `k` of a well-formed table, called with fuel ≥ `k`, only raises
`JaqalError` (its body names only macros among the first `k - 1`) -/
theorem replaceGate_class (hwf : wfMacrosFrom ms [] ms = true) (hT : ∀ m ∈ ms, wfT m.body = true) :
    ∀ (k fuel : Nat), k ≤ fuel → CallClass (inS ((ms.take k).map (·.name)) (ms.map (·.name))) (replaceGate ms fuel) := by
  intro k
  induction k with
  | zero =>
    intro fuel _ n gd a hS _
    have : n ∉ ms.map (·.name) := by simpa [inS] using hS
    have hf := findMacro_none_of_not_mem ms this
    cases fuel <;> simp only [replaceGate, hf] <;> exact JaqalOnly.ok _
  | succ k ih =>
    intro fuel hk n gd a hS ha
    cases hf : findMacro ms n with
    | none => cases fuel <;> simp only [replaceGate, hf] <;> exact JaqalOnly.ok _
    | some m =>
      obtain ⟨f, rfl⟩ : ∃ f, fuel = f + 1 := ⟨fuel - 1, by omega⟩
      simp only [replaceGate, hf]
      split
      · exact JaqalOnly.jaqal _
      · obtain ⟨hmn, pre, post, hsplit, hpre⟩ := findMacro_some_split hf
        have hw : wfMacrosFrom ms [] (pre ++ m :: post) = true := by rw [← hsplit]; exact hwf
        obtain ⟨hwb, hsc⟩ := wfMacrosFrom_split ms pre [] m post hw
        have hmem : m ∈ ms := by rw [hsplit]; simp
        -- the macro is among the first k+1, so its prefix has at most k elements
        have hn_all : n ∈ ms.map (·.name) := by
          simp only [beq_iff_eq] at hmn
          exact hmn ▸ List.mem_map_of_mem hmem
        have hn_take : n ∈ (ms.take (k + 1)).map (·.name) := by
          simp only [inS, Bool.or_eq_true, decide_eq_true_eq, Bool.not_eq_true', decide_eq_false_iff_not] at hS
          rcases hS with hS | hS
          · exact hS
          · exact absurd hn_all hS
        have hlen : pre.length ≤ k := by
          rcases Nat.lt_or_ge k pre.length with hlt | hge
          · exfalso
            have hle : k + 1 ≤ pre.length := hlt
            rw [hsplit, List.take_append_of_le_length hle] at hn_take
            simp only [List.mem_map] at hn_take
            obtain ⟨x, hx, hxn⟩ := hn_take
            have := hpre x (List.mem_of_mem_take hx)
            simp [hxn] at this
          · exact hge
        have hsub : ∀ x, x ∈ ([] ++ pre.map (·.name)) → x ∈ (ms.take k).map (·.name) := by
          intro x hx
          simp only [List.nil_append, List.mem_map] at hx ⊢
          obtain ⟨y, hy, rfl⟩ := hx
          refine ⟨y, ?_, rfl⟩
          rw [hsplit, List.take_append]
          exact List.mem_append_left _ (by rw [List.take_of_length_le hlen]; exact hy)
        exact replStmt_class ms _ _ (replaceGate ms f) (ih f (by omega)) a ha m.body hwb (hT m hmem)
          (inScope_mono _ _ _ hsub m.body hsc)

end cls

end Jaqal.ExpandMacros
