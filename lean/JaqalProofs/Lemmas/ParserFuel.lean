import JaqalProofs.Lemmas.ParserSound
/-! The recursion bound of the parser model is never the reason for a failure: `parse` never returns
`outOfFuel`. -/
namespace Jaqal.Parser
open Jaqal.Lexer Jaqal.Grammar

theorem len_of_append {ts c rest : List PTok} (h : ts = c ++ rest) : rest.length ≤ ts.length := by
  rw [h]; simp

theorem skipSeq_length (ts : List PTok) : (skipSeq ts).length ≤ ts.length := by
  obtain ⟨pad, h1, -⟩ := skipSeq_spec ts
  exact len_of_append h1

theorem skipPar_length (ts : List PTok) : (skipPar ts).length ≤ ts.length := by
  obtain ⟨pad, h1, -⟩ := skipPar_spec ts
  exact len_of_append h1

theorem pLetOrInt_fuel {ts} : pLetOrInt ts ≠ .error .outOfFuel := by
  unfold pLetOrInt; split
  · simp
  · split <;> simp

theorem expect_fuel {t ts} : expect t ts ≠ .error .outOfFuel := by
  unfold expect; split
  · simp
  · split <;> simp

theorem pIdent_fuel {ts} : pIdent ts ≠ .error .outOfFuel := by
  unfold pIdent; split
  · simp
  · split <;> simp

theorem pGateArgs_fuel (ts : List PTok) : pGateArgs ts ≠ .error .outOfFuel := by
  fun_induction pGateArgs ts <;> simp_all

def FuelSeqStmts (n : Nat) : Prop := ∀ ts, 2 * ts.length + 2 ≤ n → pSeqStmts n ts ≠ .error .outOfFuel
def FuelParStmts (n : Nat) : Prop := ∀ ts, 2 * ts.length + 2 ≤ n → pParStmts n ts ≠ .error .outOfFuel
def FuelSeqStmt (n : Nat) : Prop := ∀ ts, 2 * ts.length + 1 ≤ n → pSeqStmt n ts ≠ .error .outOfFuel
def FuelParStmt (n : Nat) : Prop := ∀ ts, 2 * ts.length + 1 ≤ n → pParStmt n ts ≠ .error .outOfFuel
def FuelGateBlock (n : Nat) : Prop := ∀ ts, 2 * ts.length + 1 ≤ n → pGateBlock n ts ≠ .error .outOfFuel

theorem fuelSeqStmts_succ (n : Nat) (ih3 : FuelSeqStmt n) (ih1 : FuelSeqStmts n) : FuelSeqStmts (n+1) := by
  intro ts hn h
  rw [pSeqStmts.eq_def] at h; simp only at h
  split at h
  · cases h
  · rename_i p r
    split at h
    · cases h
    · split at h
      · rename_i e' hx
        cases h; exact ih3 _ (by omega) hx
      · rename_i x r1 hx
        obtain ⟨c, hc, -⟩ := (blocks_sound n).2.2.1 _ _ _ hx
        have := len_of_append hc
        split at h
        · cases h
        · rename_i q r2
          split at h
          · cases h
          · split at h
            · split at h
              · rename_i e' hrec
                cases h
                have := skipSeq_length r2
                simp only [List.length_cons] at *
                exact ih1 _ (by omega) hrec
              · cases h
            · cases h

theorem fuelParStmts_succ (n : Nat) (ih3 : FuelParStmt n) (ih1 : FuelParStmts n) : FuelParStmts (n+1) := by
  intro ts hn h
  rw [pParStmts.eq_def] at h; simp only at h
  split at h
  · cases h
  · rename_i p r
    split at h
    · cases h
    · split at h
      · rename_i e' hx
        cases h; exact ih3 _ (by omega) hx
      · rename_i x r1 hx
        obtain ⟨c, hc, -⟩ := (blocks_sound n).2.2.2.1 _ _ _ hx
        have := len_of_append hc
        split at h
        · cases h
        · rename_i q r2
          split at h
          · cases h
          · split at h
            · split at h
              · rename_i e' hrec
                cases h
                have := skipPar_length r2
                simp only [List.length_cons] at *
                exact ih1 _ (by omega) hrec
              · cases h
            · cases h

theorem fuelGateBlock_succ (n : Nat) (ih1 : FuelSeqStmts n) (ih2 : FuelParStmts n) : FuelGateBlock (n+1) := by
  intro ts hn h
  rw [pGateBlock.eq_def] at h; simp only at h
  split at h
  · cases h
  · rename_i p r
    simp only [List.length_cons] at hn
    split at h
    · split at h
      · rename_i e' hrec
        cases h
        have := skipSeq_length r
        exact ih1 _ (by omega) hrec
      · cases h
    · split at h
      · rename_i e' hrec
        cases h
        have := skipPar_length r
        exact ih2 _ (by omega) hrec
      · cases h
    · cases h

theorem fuelParStmt_succ (n : Nat) (ih1 : FuelSeqStmts n) : FuelParStmt (n+1) := by
  intro ts hn h
  rw [pParStmt.eq_def] at h; simp only at h
  split at h
  · cases h
  · rename_i p r
    simp only [List.length_cons] at hn
    split at h
    · split at h
      · rename_i e' hrec
        cases h
        exact pGateArgs_fuel _ hrec
      · cases h
    · split at h
      · rename_i e' hrec
        cases h
        have := skipSeq_length r
        exact ih1 _ (by omega) hrec
      · cases h
    · cases h

theorem fuelSeqStmt_succ (n : Nat) (ih1 : FuelSeqStmts n) (ih2 : FuelParStmts n) (ih5 : FuelGateBlock n) :
    FuelSeqStmt (n+1) := by
  intro ts hn h
  rw [pSeqStmt.eq_def] at h; simp only at h
  split at h
  · cases h
  · rename_i p r
    simp only [List.length_cons] at hn
    split at h
    · split at h
      · rename_i e' hrec
        cases h
        exact pGateArgs_fuel _ hrec
      · cases h
    · split at h
      · rename_i e' hrec
        cases h
        have := skipPar_length r
        exact ih2 _ (by omega) hrec
      · cases h
    · split at h
      · rename_i e' hrec
        cases h
        exact pLetOrInt_fuel hrec
      · rename_i c r1 hc
        obtain ⟨pc, rfl, -⟩ := pLetOrInt_sound hc
        simp only [List.length_cons] at hn
        split at h
        · rename_i e' hrec
          cases h
          exact ih5 _ (by omega) hrec
        · cases h
    · split at h
      · cases h
      · rename_i q r1
        simp only [List.length_cons] at hn
        split at h
        · split at h
          · rename_i e' hrec
            cases h
            have := skipSeq_length r1
            exact ih1 _ (by omega) hrec
          · cases h
        · split at h
          · rename_i e' hrec
            cases h
            exact pLetOrInt_fuel hrec
          · rename_i c r2 hc
            obtain ⟨pc, hpc1, -⟩ := pLetOrInt_sound hc
            cases hpc1
            split at h
            · rename_i e' hrec
              cases h
              exact expect_fuel hrec
            · rename_i r3 he
              obtain ⟨pl, rfl, -⟩ := expect_sound he
              simp only [List.length_cons] at hn
              split at h
              · rename_i e' hrec
                cases h
                have := skipSeq_length r3
                exact ih1 _ (by omega) hrec
              · cases h
    · cases h

theorem blocks_fuel (n : Nat) :
    FuelSeqStmts n ∧ FuelParStmts n ∧ FuelSeqStmt n ∧ FuelParStmt n ∧ FuelGateBlock n := by
  induction n with
  | zero =>
    refine ⟨?_, ?_, ?_, ?_, ?_⟩ <;> intro ts hn <;> omega
  | succ n ih =>
    obtain ⟨i1, i2, i3, i4, i5⟩ := ih
    exact ⟨fuelSeqStmts_succ n i3 i1, fuelParStmts_succ n i4 i2, fuelSeqStmt_succ n i1 i2 i5,
      fuelParStmt_succ n i1, fuelGateBlock_succ n i1 i2⟩

theorem pCases_fuel (n : Nat) (ts : List PTok) : 2 * ts.length + 2 ≤ n → pCases n ts ≠ .error .outOfFuel := by
  fun_induction pCases n ts <;> intro hn h <;> cases h
  case case1 => omega
  case case5 n p tail v hp r3 he hb =>
    obtain ⟨pc, rfl, -⟩ := expect_sound he
    simp only [List.length_cons] at hn
    exact (blocks_fuel n).2.2.2.2 _ (by omega) hb
  case case4 n p tail v hp he => exact expect_fuel he
  case case8 =>
    rename_i n p tail v hp r3 he b q tail' hq hsep hb ih hrec
    obtain ⟨pc, rfl, -⟩ := expect_sound he
    obtain ⟨c, hc, -⟩ := (blocks_sound _).2.2.2.2 _ _ _ hb
    have := len_of_append hc
    have := skipSeq_length tail'
    simp only [List.length_cons] at *
    exact ih (by omega) hrec

theorem pSliceStep_fuel {start stop ts} : pSliceStep start stop ts ≠ .error .outOfFuel := by
  intro h
  unfold pSliceStep at h
  split at h
  · cases h
  · split at h
    · cases h
    · split at h
      · split at h
        · rename_i e' hs; cases h; exact pLetOrInt_fuel hs
        · split at h
          · rename_i e' he; cases h; exact expect_fuel he
          · cases h
      · cases h

theorem pSliceStop_fuel {start ts} : pSliceStop start ts ≠ .error .outOfFuel := by
  intro h
  unfold pSliceStop at h
  split at h
  · cases h
  · split at h <;> exact pSliceStep_fuel h

theorem pMapIndex_fuel {ts} : pMapIndex ts ≠ .error .outOfFuel := by
  intro h
  unfold pMapIndex at h
  split at h
  · cases h
  · split at h
    · exact pSliceStop_fuel h
    · split at h
      · rename_i e' hi; cases h; exact pLetOrInt_fuel hi
      · split at h
        · cases h
        · split at h
          · cases h
          · split at h
            · exact pSliceStop_fuel h
            · cases h

theorem pIdents_length (ts : List PTok) : (pIdents ts).2.length ≤ ts.length := by
  obtain ⟨c, h1, -⟩ := pIdents_sound ts
  exact len_of_append h1

theorem pTopStmt_fuel {n ts} (hn : 2 * ts.length + 2 ≤ n) : pTopStmt n ts ≠ .error .outOfFuel := by
  intro h
  unfold pTopStmt at h
  split at h
  · omega
  · rename_i n ts
    split at h
    · cases h
    · rename_i p r
      simp only [List.length_cons] at hn
      split at h
      · -- REG
        split at h
        · rename_i e' h1; cases h; exact pIdent_fuel h1
        · split at h
          · rename_i e' h2; cases h; exact expect_fuel h2
          · split at h
            · rename_i e' h3; cases h; exact pLetOrInt_fuel h3
            · split at h
              · rename_i e' h4; cases h; exact expect_fuel h4
              · split at h
                · split at h <;> cases h
                · cases h
      · -- LET
        split at h
        · rename_i e' h1; cases h; exact pIdent_fuel h1
        · split at h
          · cases h
          · split at h <;> cases h
      · -- MAP
        split at h
        · rename_i e' h1; cases h; exact pIdent_fuel h1
        · split at h
          · rename_i e' h2; cases h; exact pIdent_fuel h2
          · split at h
            · cases h
            · split at h
              · split at h
                · rename_i e' h4; cases h; exact pMapIndex_fuel h4
                · cases h
              · cases h
      · -- FROM
        split at h
        · cases h
        · split at h
          · split at h
            · rename_i e' h2; cases h; exact expect_fuel h2
            · split at h
              · rename_i e' h3; cases h; exact expect_fuel h3
              · cases h
          · split at h
            · rename_i e' h2; cases h; exact expect_fuel h2
            · split at h
              · rename_i e' h3; cases h; exact expect_fuel h3
              · cases h
          · cases h
      · -- IMPORT
        split at h
        · rename_i e' h1; cases h; exact pIdent_fuel h1
        · split at h
          · rename_i e' h2; cases h; exact expect_fuel h2
          · split at h
            · rename_i e' h3; cases h; exact pIdent_fuel h3
            · cases h
      · -- MACRO
        split at h
        · rename_i e' h1; cases h; exact pIdent_fuel h1
        · rename_i name r1 h1
          obtain ⟨p1, rfl, -⟩ := pIdent_sound h1
          simp only at h
          split at h
          · rename_i e' hb
            cases h
            have := pIdents_length r1
            simp only [List.length_cons] at hn
            exact (blocks_fuel _).2.2.2.2 _ (by omega) hb
          · cases h
      · -- BRANCH
        split at h
        · rename_i e' h1; cases h; exact expect_fuel h1
        · rename_i r1 h1
          obtain ⟨p1, rfl, -⟩ := expect_sound h1
          split at h
          · rename_i e' hc
            cases h
            have := skipSeq_length r1
            simp only [List.length_cons] at hn
            exact pCases_fuel _ _ (by omega) hc
          · cases h
      · -- "{"
        split at h
        · rename_i e' hrec
          cases h
          have := skipSeq_length r
          exact (blocks_fuel _).1 _ (by omega) hrec
        · cases h
      · -- other
        split at h
        · rename_i e' hx
          cases h
          exact (blocks_fuel _).2.2.1 _ (by simp only [List.length_cons]; omega) hx
        · cases h

theorem topAction_fuel {inBody l i atEnd res} : topAction inBody l i atEnd res ≠ .error .outOfFuel := by
  intro h
  cases res with
  | bad k => cases h
  | header y => simp only [topAction] at h; split at h <;> cases h
  | body y => cases h

theorem pTop_fuel (n : Nat) (inBody : Bool) (ts : List PTok) : 2 * ts.length + 3 ≤ n →
    pTop n inBody ts ≠ .error .outOfFuel := by
  fun_induction pTop n inBody ts <;> intro hn h <;> cases h
  case case1 => omega
  case case3 n ib p tail hx => exact pTopStmt_fuel (by omega) hx
  case case4 => rename_i hact; exact topAction_fuel hact
  case case6 => rename_i hact; exact topAction_fuel hact
  case case7 =>
    rename_i n ib p tail res q tail' hsep x ib' hact hx ih hrec
    obtain ⟨c, hc, -⟩ := pTopStmt_sound hx
    have := len_of_append hc
    have := skipSeq_length tail'
    simp only [List.length_cons] at *
    exact ih (by omega) hrec

/-- The recursion bound is never the reason for a failure. -/
theorem parse_ne_outOfFuel (ts : List PTok) : parse ts ≠ .error .outOfFuel := by
  intro h
  unfold parse at h
  split at h
  · rename_i e' hx
    cases h
    have := skipSeq_length ts
    exact pTop_fuel _ _ _ (by simp only [fuelFor]; omega) hx
  · cases h


end Jaqal.Parser
