import JaqalProofs.Lemmas.LetTextTop
/-!
# `build_circuit` on a program and on the program with its lets rewritten

The loop of `build_circuit` around `stmt_rel` / `header_rel`: top-level statements and macro definitions,
`rebuild_macro_in_context`, `add_to_context`, `usepulses`; then `circuitLoop`, `buildCore`, `parseBuild`.
-/
set_option linter.unusedVariables false
set_option linter.unusedSimpArgs false
namespace Jaqal.FillIn
open Jaqal Jaqal.Builder Jaqal.RoundTrip

variable (ov : List (String × Num))

/-! ### top-level body statements -/

theorem withParams_reval (ctx : Ctx) (ps : List (String × Kind)) :
    revalCtx ov (ctx.withParams ps) = (revalCtx ov ctx).withParams ps := by
  simp only [revalCtx, Ctx.withParams, List.map_append, List.map_map]
  congr 2

theorem top_rel {cfg : Config} {f : Nat} {ctx : Ctx} {e : BSx} {st st1 st1' : St} {o o' : Obj} (ht : GTop e)
    (h : buildAny cfg .off f ctx e st = .ok (o, st1))
    (h' : buildAny cfg .off f (revalCtx ov ctx) e (revalSt ov st) = .ok (o', st1')) :
    o' = revalObj ov o ∧ st1' = revalSt ov st1 ∧ ((∃ s, o = .stmt s) ∨ ∃ m, o = .macro m) := by
  cases ht with
  | stmt hg =>
    obtain ⟨h1, h2, h3⟩ := stmt_rel ov cfg f ctx false e st st1 st1' o o' hg h h'
    exact ⟨h1, h2, Or.inl h3⟩
  | seqB hitems =>
    cases f with
    | zero => simp [buildAny, throw_eq] at h
    | succ f =>
      obtain ⟨h1, h2, h3⟩ := block_rel ov (p := false) (stmt_rel ov cfg f) hitems h h'
      exact ⟨h1, h2, Or.inl h3⟩
  | branch =>
    cases f with
    | zero => simp [buildAny, throw_eq] at h
    | succ f =>
      rw [buildAny_list] at h
      simp only [anyStep, String.reduceEq, if_false, if_true] at h
      obtain ⟨_, _, h⟩ := bind_ok h
      simp [throw_eq] at h
  | @macroDef name params par items hitems =>
    have hlen : ¬ ((BSx.str name :: (params.map BSx.str ++ [BSx.list (.str (blockCmdB par) :: items)])).length < 2) := by
      simp
    cases f with
    | zero => simp [buildAny, throw_eq] at h
    | succ f =>
      rw [buildAny_list, anyStep_macro _ _ _ _ _ _ _ _ hlen] at h h'
      simp only [strOf, pure_bind] at h h'
      have hlk : ((revalSt ov st).gctx.lookup name).isSome = (st.gctx.lookup name).isSome := by
        simp only [revalSt, g_lookup_reval, Option.isSome_map]
      rw [hlk] at h'
      by_cases hl : (st.gctx.lookup name).isSome = true
      · simp [hl, throw_eq, bind, Except.bind] at h
      · simp only [hl, Bool.false_eq_true, if_false, pure_bind, List.dropLast_concat, mapM_macroParam_str,
          List.getLast?_concat] at h h'
        obtain ⟨ps, hps, h⟩ := bind_ok h
        obtain ⟨ps', hps', h'⟩ := bind_ok h'
        cases hps
        cases hps'
        obtain ⟨⟨ob, sb⟩, hbody, h⟩ := bind_ok h
        obtain ⟨⟨ob', sb'⟩, hbody', h'⟩ := bind_ok h'
        rw [← withParams_reval] at hbody'
        have hgb : GStmt (!par) (.list (.str (blockCmdB par) :: items)) := by
          cases par
          · exact GStmt.seqB hitems
          · exact GStmt.parB hitems
        obtain ⟨rfl, rfl, _⟩ := stmt_rel ov cfg f _ (!par) _ st sb sb' ob ob' hgb hbody hbody'
        cases ob with
        | stmt s =>
          cases s with
          | block p sub it body =>
            simp only [revalObj, revalStmt, pure, Except.pure, Except.ok.injEq, Prod.mk.injEq] at h h'
            obtain ⟨rfl, rfl⟩ := h
            obtain ⟨rfl, rfl⟩ := h'
            exact ⟨rfl, rfl, Or.inr ⟨_, rfl⟩⟩
          | _ => simp [throw_eq] at h
        | _ => simp [throw_eq] at h

/-! ### `rebuild_macro_in_context` -/

theorem revalArgs_snd (args : List (String × Val)) : (revalArgs ov args).map (·.2) = (args.map (·.2)).map (reval ov) := by
  simp only [revalArgs, List.map_map]; rfl

mutual
theorem rebuildStmt_rel (g : GCtx) : ∀ (s : Stmt) (ch ch' : Bool) (s1 s1' : Stmt), rebuildStmt g s = .ok (ch, s1) →
    rebuildStmt (revalG ov g) (revalStmt ov s) = .ok (ch', s1') → ch' = ch ∧ s1' = revalStmt ov s1
  | .gate name gd args, ch, ch', s1, s1', h, h' => by
    simp only [revalStmt, rebuildStmt, g_lookup_reval] at h h'
    cases hl : g.lookup name with
    | none =>
      simp only [hl, Option.map_none, pure, Except.pure, Except.ok.injEq, Prod.mk.injEq] at h h'
      obtain ⟨rfl, rfl⟩ := h
      obtain ⟨rfl, rfl⟩ := h'
      exact ⟨rfl, rfl⟩
    | some e =>
      cases e with
      | gdef d =>
        simp only [hl, Option.map_some, revalEntry, pure, Except.pure, Except.ok.injEq, Prod.mk.injEq] at h h'
        obtain ⟨rfl, rfl⟩ := h
        obtain ⟨rfl, rfl⟩ := h'
        exact ⟨rfl, rfl⟩
      | «macro» m =>
        simp only [hl, Option.map_some, revalEntry, revalMacro] at h h'
        by_cases hc : (m.name == gd.name && decide (m.params = gd.params)) = true
        · simp only [hc, if_true] at h h'
          by_cases ht : (gd.tag == DefTag.macro) = true
          · simp only [ht, if_true, pure, Except.pure, Except.ok.injEq, Prod.mk.injEq] at h h'
            obtain ⟨rfl, rfl⟩ := h
            obtain ⟨rfl, rfl⟩ := h'
            exact ⟨rfl, rfl⟩
          · simp [ht, throw_eq] at h
        · simp only [hc, Bool.false_eq_true, if_false] at h h'
          obtain ⟨s, hs, h⟩ := bind_ok h
          obtain ⟨s', hs', h'⟩ := bind_ok h'
          simp only [pure, Except.pure, Except.ok.injEq, Prod.mk.injEq] at h h'
          obtain ⟨rfl, rfl⟩ := h
          obtain ⟨rfl, rfl⟩ := h'
          rw [revalArgs_snd] at hs'
          exact ⟨rfl, callDef_rel ov hs hs'⟩
  | .block par sub it body, ch, ch', s1, s1', h, h' => by
    simp only [revalStmt, rebuildStmt] at h h'
    obtain ⟨⟨c0, b0⟩, hb, h⟩ := bind_ok h
    obtain ⟨⟨c0', b0'⟩, hb', h'⟩ := bind_ok h'
    obtain ⟨rfl, rfl⟩ := rebuildList_rel g body c0 c0' b0 b0' hb hb'
    cases c0' with
    | true =>
      simp only [if_true, pure, Except.pure, Except.ok.injEq, Prod.mk.injEq] at h h'
      obtain ⟨rfl, rfl⟩ := h
      obtain ⟨rfl, rfl⟩ := h'
      exact ⟨rfl, rfl⟩
    | false =>
      simp only [Bool.false_eq_true, if_false, pure, Except.pure, Except.ok.injEq, Prod.mk.injEq] at h h'
      obtain ⟨rfl, rfl⟩ := h
      obtain ⟨rfl, rfl⟩ := h'
      exact ⟨rfl, rfl⟩
  | .loop c b, ch, ch', s1, s1', h, h' => by
    simp only [revalStmt, rebuildStmt] at h h'
    obtain ⟨⟨c0, b0⟩, hb, h⟩ := bind_ok h
    obtain ⟨⟨c0', b0'⟩, hb', h'⟩ := bind_ok h'
    obtain ⟨rfl, rfl⟩ := rebuildStmt_rel g b c0 c0' b0 b0' hb hb'
    cases c0' with
    | true =>
      simp only [if_true, pure, Except.pure, Except.ok.injEq, Prod.mk.injEq] at h h'
      obtain ⟨rfl, rfl⟩ := h
      obtain ⟨rfl, rfl⟩ := h'
      exact ⟨rfl, rfl⟩
    | false =>
      simp only [Bool.false_eq_true, if_false, pure, Except.pure, Except.ok.injEq, Prod.mk.injEq] at h h'
      obtain ⟨rfl, rfl⟩ := h
      obtain ⟨rfl, rfl⟩ := h'
      exact ⟨rfl, rfl⟩
theorem rebuildList_rel (g : GCtx) : ∀ (l : List Stmt) (ch ch' : Bool) (l1 l1' : List Stmt), rebuildList g l = .ok (ch, l1) →
    rebuildList (revalG ov g) (revalStmts ov l) = .ok (ch', l1') → ch' = ch ∧ l1' = revalStmts ov l1
  | [], ch, ch', l1, l1', h, h' => by
    simp only [revalStmts, rebuildList, pure, Except.pure, Except.ok.injEq, Prod.mk.injEq] at h h'
    obtain ⟨rfl, rfl⟩ := h
    obtain ⟨rfl, rfl⟩ := h'
    exact ⟨rfl, rfl⟩
  | s :: ss, ch, ch', l1, l1', h, h' => by
    simp only [revalStmts, rebuildList] at h h'
    obtain ⟨⟨c1, s1⟩, hs, h⟩ := bind_ok h
    obtain ⟨⟨c2, ss1⟩, hss, h⟩ := bind_ok h
    obtain ⟨⟨c1', s1'⟩, hs', h'⟩ := bind_ok h'
    obtain ⟨⟨c2', ss1'⟩, hss', h'⟩ := bind_ok h'
    simp only [pure, Except.pure, Except.ok.injEq, Prod.mk.injEq] at h h'
    obtain ⟨rfl, rfl⟩ := h
    obtain ⟨rfl, rfl⟩ := h'
    obtain ⟨rfl, rfl⟩ := rebuildStmt_rel g s c1 c1' s1 s1' hs hs'
    obtain ⟨rfl, rfl⟩ := rebuildList_rel g ss c2 c2' ss1 ss1' hss hss'
    exact ⟨rfl, rfl⟩
end

theorem rebuildMacro_rel {g : GCtx} {m m1 m1' : Macro} (h : rebuildMacro g m = .ok m1)
    (h' : rebuildMacro (revalG ov g) (revalMacro ov m) = .ok m1') : m1' = revalMacro ov m1 := by
  unfold rebuildMacro at h h'
  obtain ⟨⟨ch, b⟩, hb, h⟩ := bind_ok h
  obtain ⟨⟨ch', b'⟩, hb', h'⟩ := bind_ok h'
  simp only [pure, Except.pure, Except.ok.injEq] at h h'
  subst h h'
  obtain ⟨rfl, rfl⟩ := rebuildStmt_rel ov g m.body ch ch' b b' hb hb'
  cases ch' <;> rfl

/-! ### the accumulator -/

def revalAcc (a : Acc) : Acc :=
  { ctx := revalCtx ov a.ctx, st := revalSt ov a.st, registers := a.registers.map (reval ov),
    constants := a.constants.map (reval ov), macros := a.macros.map (revalMacro ov), stmts := revalStmts ov a.stmts,
    usepulses := a.usepulses, natives := a.natives }

theorem revalStmts_eq_map : ∀ l : List Stmt, revalStmts ov l = l.map (revalStmt ov)
  | [] => rfl
  | s :: ss => by simp only [revalStmts, List.map_cons, revalStmts_eq_map ss]

theorem addVar_ok {ctx c1 : Ctx} {n : String} {v : Val} (h : addVar ctx n v = .ok c1) :
    c1 = { ctx with vars := (n, v) :: ctx.vars } := by
  unfold addVar at h
  split at h
  · simp [throw_eq] at h
  · simp only [pure, Except.pure, Except.ok.injEq] at h
    exact h.symm

theorem dictSet_map {α β : Type} (F : α → β) (k : String) (v : α) : ∀ l : List (String × α),
    (dictSet k v l).map (fun p => (p.1, F p.2)) = dictSet k (F v) (l.map (fun p => (p.1, F p.2)))
  | [] => rfl
  | (k', v') :: r => by
    simp only [dictSet, List.map_cons]
    split
    · rfl
    · simp only [List.map_cons, dictSet_map F k v r]

theorem updateGates_reval (inject : Option (List (String × GateDef))) (gs : List GateDef) : ∀ g : GCtx,
    revalG ov (updateGates GEntry.gdef inject gs g) = updateGates GEntry.gdef inject gs (revalG ov g) := by
  unfold updateGates
  induction gs with
  | nil => intro g; rfl
  | cons x gs ih =>
    intro g
    simp only [List.foldl_cons]
    rw [ih]
    congr 1
    cases inject with
    | none => exact dictSet_map (revalEntry ov) x.name (GEntry.gdef x) g
    | some l =>
      cases l with
      | nil => exact dictSet_map (revalEntry ov) x.name (GEntry.gdef x) g
      | cons i is =>
        simp only []
        split
        · rfl
        · exact dictSet_map (revalEntry ov) x.name (GEntry.gdef x) g

/-- `build_circuit`'s dispatch on the built object, in the two runs -/
theorem stepTail_rel {cfg : Config} {inject : Option (List (String × GateDef))} {acc acc1 acc1' : Acc} {o : Obj} {st : St}
    (h : stepTail cfg .off inject acc o st = .ok acc1)
    (h' : stepTail cfg .off inject (revalAcc ov acc) (revalObj ov o) (revalSt ov st) = .ok acc1') :
    acc1' = revalAcc ov acc1 := by
  cases o with
  | val v =>
    cases v with
    | regF n size =>
      simp only [revalObj, reval, stepTail] at h h'
      obtain ⟨c1, hc, h⟩ := bind_ok h
      obtain ⟨c1', hc', h'⟩ := bind_ok h'
      simp only [pure, Except.pure, Except.ok.injEq] at h h'
      subst h h'
      rw [addVar_ok hc, addVar_ok hc']
      simp only [revalAcc, revalCtx, List.map_append, List.map_cons, List.map_nil, reval]
    | regA n src =>
      simp only [revalObj, reval, stepTail] at h h'
      obtain ⟨c1, hc, h⟩ := bind_ok h
      obtain ⟨c1', hc', h'⟩ := bind_ok h'
      simp only [pure, Except.pure, Except.ok.injEq] at h h'
      subst h h'
      rw [addVar_ok hc, addVar_ok hc']
      simp only [revalAcc, revalCtx, List.map_append, List.map_cons, List.map_nil, reval]
    | regS n src a b s =>
      simp only [revalObj, reval, stepTail] at h h'
      obtain ⟨c1, hc, h⟩ := bind_ok h
      obtain ⟨c1', hc', h'⟩ := bind_ok h'
      simp only [pure, Except.pure, Except.ok.injEq] at h h'
      subst h h'
      rw [addVar_ok hc, addVar_ok hc']
      simp only [revalAcc, revalCtx, List.map_append, List.map_cons, List.map_nil, reval]
    | qubit n src idx =>
      simp only [revalObj, reval, stepTail] at h h'
      obtain ⟨c1, hc, h⟩ := bind_ok h
      obtain ⟨c1', hc', h'⟩ := bind_ok h'
      simp only [pure, Except.pure, Except.ok.injEq] at h h'
      subst h h'
      rw [addVar_ok hc, addVar_ok hc']
      simp only [revalAcc, revalCtx, List.map_append, List.map_cons, List.map_nil, reval]
    | const n d =>
      obtain ⟨y, hy⟩ := reval_const ov n d
      simp only [revalObj, hy, stepTail] at h h'
      obtain ⟨c1, hc, h⟩ := bind_ok h
      obtain ⟨c1', hc', h'⟩ := bind_ok h'
      simp only [pure, Except.pure, Except.ok.injEq] at h h'
      subst h h'
      rw [addVar_ok hc, addVar_ok hc']
      simp only [revalAcc, revalCtx, List.map_append, List.map_cons, List.map_nil, hy]
    | _ => simp [stepTail, throw_eq] at h
  | stmt s =>
    simp only [revalObj, stepTail, pure, Except.pure, Except.ok.injEq] at h h'
    subst h h'
    simp only [revalAcc, revalStmts_eq_map, List.map_append, List.map_cons, List.map_nil]
  | «macro» m =>
    simp only [revalObj, stepTail] at h h'
    obtain ⟨m1, hm, h⟩ := bind_ok h
    obtain ⟨m1', hm', h'⟩ := bind_ok h'
    have := rebuildMacro_rel ov hm hm'
    subst this
    have hlk : ((revalSt ov st).gctx.lookup (revalMacro ov m1).name).isSome = (st.gctx.lookup m1.name).isSome := by
      simp only [revalSt, revalMacro, g_lookup_reval, Option.isSome_map]
    rw [hlk] at h'
    by_cases hl : (st.gctx.lookup m1.name).isSome = true
    · simp [hl, throw_eq, bind, Except.bind] at h
    · simp only [hl, Bool.false_eq_true, if_false, pure, Except.pure, Except.ok.injEq] at h h'
      subst h h'
      simp only [revalAcc, revalSt, revalG, List.map_append, List.map_cons, List.map_nil, revalEntry, revalMacro]
  | usepulses name =>
    simp only [revalObj, stepTail] at h h'
    by_cases ha : cfg.autoload = true
    · simp only [ha, if_true] at h h'
      have e1 : (revalAcc ov acc).stmts.isEmpty = acc.stmts.isEmpty := by
        simp only [revalAcc, revalStmts_eq_map, List.isEmpty_map]
      have e2 : (revalAcc ov acc).macros.isEmpty = acc.macros.isEmpty := by
        simp only [revalAcc, List.isEmpty_map]
      rw [e1, e2] at h'
      by_cases hc : (KeyMode.off != KeyMode.noReset && (!acc.stmts.isEmpty || !acc.macros.isEmpty)) = true
      · simp [hc, throw_eq] at h
      · simp only [hc, Bool.false_eq_true, if_false] at h h'
        cases hi : cfg.imports name with
        | none => simp [hi, throw_eq] at h
        | some gs =>
          simp only [hi, pure, Except.pure, Except.ok.injEq] at h h'
          subst h h'
          simp only [revalAcc, revalSt, updateGates_reval]
    · simp only [ha, Bool.false_eq_true, if_false, pure, Except.pure, Except.ok.injEq] at h h'
      subst h h'
      rfl
  | case => simp [stepTail, throw_eq] at h

/-! ### the loop of `build_circuit` -/

theorem rewriteLetB_of_head {cmd : String} (rest : List BSx) (h : cmd ≠ "let") :
    rewriteLetB ov (.list (.str cmd :: rest)) = .list (.str cmd :: rest) := by
  unfold rewriteLetB
  split
  · rename_i n v heq
    simp only [BSx.list.injEq, List.cons.injEq, BSx.str.injEq] at heq
    exact absurd heq.1 h
  · rfl

theorem rewriteLetB_top {e : BSx} (ht : GTop e) : rewriteLetB ov e = e := by
  cases ht with
  | stmt hg => cases hg <;> exact rewriteLetB_of_head ov _ (by decide)
  | seqB _ => exact rewriteLetB_of_head ov _ (by decide)
  | macroDef _ => exact rewriteLetB_of_head ov _ (by decide)
  | branch => exact rewriteLetB_of_head ov _ (by decide)

theorem depInv_mono {dep : List String} {ctx : Ctx} (e : BSx) (h : DepInv ov dep ctx) : DepInv ov (depStep ov dep e) ctx :=
  fun n v hg => ⟨(h n v hg).1, fun hc => (h n v hg).2 (depStep_mono ov dep e n hc)⟩

theorem depInv_cons {dep : List String} {ctx : Ctx} {e : BSx} {n : String} {v : Val} (h : DepInv ov dep ctx)
    (hv : v ≠ .none) (hfix : (depStep ov dep e).contains n = false → reval ov v = v) :
    DepInv ov (depStep ov dep e) { ctx with vars := (n, v) :: ctx.vars } := by
  intro m w hg
  simp only [Ctx.get, List.lookup] at hg
  cases hmn : (m == n) with
  | true =>
    simp only [hmn, Option.some.injEq] at hg
    subst hg
    have : m = n := by simpa using hmn
    subst this
    exact ⟨hv, hfix⟩
  | false =>
    simp only [hmn] at hg
    exact depInv_mono ov e h m w hg

/-- `add_to_context` of a header object -/
theorem stepTail_val_ctx {cfg : Config} {inject : Option (List (String × GateDef))} {acc acc1 : Acc} {v : Val} {n : String}
    {st : St} (hn : v.name? = some n)
    (hk : Builder.isRegister v = true ∨ (∃ a b, v = .qubit n a b) ∨ ∃ d, v = .const n d)
    (h : stepTail cfg .off inject acc (.val v) st = .ok acc1) : acc1.ctx = { acc.ctx with vars := (n, v) :: acc.ctx.vars } := by
  cases v with
  | regF m size =>
    simp only [Val.name?, Option.some.injEq] at hn; subst hn
    simp only [stepTail] at h
    obtain ⟨c1, hc, h⟩ := bind_ok h
    simp only [pure, Except.pure, Except.ok.injEq] at h
    subst h
    exact addVar_ok hc
  | regA m src =>
    simp only [Val.name?, Option.some.injEq] at hn; subst hn
    simp only [stepTail] at h
    obtain ⟨c1, hc, h⟩ := bind_ok h
    simp only [pure, Except.pure, Except.ok.injEq] at h
    subst h
    exact addVar_ok hc
  | regS m src a b s =>
    simp only [Val.name?, Option.some.injEq] at hn; subst hn
    simp only [stepTail] at h
    obtain ⟨c1, hc, h⟩ := bind_ok h
    simp only [pure, Except.pure, Except.ok.injEq] at h
    subst h
    exact addVar_ok hc
  | qubit m src idx =>
    simp only [Val.name?, Option.some.injEq] at hn; subst hn
    simp only [stepTail] at h
    obtain ⟨c1, hc, h⟩ := bind_ok h
    simp only [pure, Except.pure, Except.ok.injEq] at h
    subst h
    exact addVar_ok hc
  | const m d =>
    simp only [Val.name?, Option.some.injEq] at hn; subst hn
    simp only [stepTail] at h
    obtain ⟨c1, hc, h⟩ := bind_ok h
    simp only [pure, Except.pure, Except.ok.injEq] at h
    subst h
    exact addVar_ok hc
  | _ => simp [stepTail, throw_eq] at h

theorem stepTail_body_ctx {cfg : Config} {inject : Option (List (String × GateDef))} {acc acc1 : Acc} {o : Obj} {st : St}
    (ho : (∃ s, o = .stmt s) ∨ (∃ m, o = .macro m) ∨ ∃ m, o = .usepulses m)
    (h : stepTail cfg .off inject acc o st = .ok acc1) : acc1.ctx = acc.ctx := by
  rcases ho with ⟨s, rfl⟩ | ⟨m, rfl⟩ | ⟨m, rfl⟩
  · simp only [stepTail, pure, Except.pure, Except.ok.injEq] at h
    subst h; rfl
  · simp only [stepTail] at h
    obtain ⟨m1, _, h⟩ := bind_ok h
    split at h
    · simp [throw_eq, bind, Except.bind] at h
    · simp only [pure, Except.pure, Except.ok.injEq] at h
      subst h; rfl
  · simp only [stepTail] at h
    split at h
    · split at h
      · simp [throw_eq] at h
      · split at h
        · simp [throw_eq] at h
        · simp only [pure, Except.pure, Except.ok.injEq] at h
          subst h; rfl
    · simp only [pure, Except.pure, Except.ok.injEq] at h
      subst h; rfl

theorem val_kind_ne_none {v : Val} {n : String}
    (hk : Builder.isRegister v = true ∨ (∃ a b, v = .qubit n a b) ∨ ∃ d, v = .const n d) : v ≠ .none := by
  rintro rfl
  rcases hk with h | ⟨_, _, h⟩ | ⟨_, h⟩ <;> cases h

theorem circuitLoop_rel {cfg : Config} {inject : Option (List (String × GateDef))} {fuel : Nat} :
    ∀ (cs : List BSx) (dep : List String) (acc acc1 acc1' : Acc), (∀ c ∈ cs, GHeader c ∨ GTop c) →
    scan ov dep cs = true → DepInv ov dep acc.ctx →
    circuitLoop cfg .off inject fuel acc cs = .ok acc1 →
    circuitLoop cfg .off inject fuel (revalAcc ov acc) (cs.map (rewriteLetB ov)) = .ok acc1' →
    acc1' = revalAcc ov acc1
  | [], dep, acc, acc1, acc1', _, _, _, h, h' => by
    simp only [List.map_nil, circuitLoop, pure, Except.pure, Except.ok.injEq] at h h'
    subst h h'; rfl
  | c :: cs, dep, acc, acc1, acc1', hg, hs, hinv, h, h' => by
    simp only [List.map_cons, circuitLoop] at h h'
    obtain ⟨a1, hstep, h⟩ := bind_ok h
    obtain ⟨a1', hstep', h'⟩ := bind_ok h'
    unfold circuitStep at hstep hstep'
    obtain ⟨⟨o, st⟩, hbuild, htail⟩ := bind_ok hstep
    obtain ⟨⟨o', st'⟩, hbuild', htail'⟩ := bind_ok hstep'
    simp only [scan, Bool.and_eq_true, Bool.not_eq_true'] at hs
    have hrest : ∀ x ∈ cs, GHeader x ∨ GTop x := fun x hx => hg x (by simp [hx])
    rcases hg c (by simp) with hh | ht
    · obtain ⟨rfl, rfl, rfl, hkind⟩ := header_rel ov hh hinv hs.1 hbuild hbuild'
      have := stepTail_rel ov htail htail'
      subst this
      refine circuitLoop_rel cs (depStep ov dep c) a1 acc1 acc1' hrest hs.2 ?_ h h'
      rcases hkind with ⟨m, rfl⟩ | ⟨v, n, rfl, hn, hk, hfix⟩
      · rw [stepTail_body_ctx (Or.inr (Or.inr ⟨m, rfl⟩)) htail]
        exact depInv_mono ov c hinv
      · rw [stepTail_val_ctx hn hk htail]
        exact depInv_cons ov hinv (val_kind_ne_none hk) hfix
    · rw [rewriteLetB_top ov ht] at hbuild'
      obtain ⟨rfl, rfl, hkind⟩ := top_rel ov ht hbuild hbuild'
      have := stepTail_rel ov htail htail'
      subst this
      refine circuitLoop_rel cs (depStep ov dep c) a1 acc1 acc1' hrest hs.2 ?_ h h'
      have hctx : a1.ctx = acc.ctx := by
        rcases hkind with hk | hk
        · exact stepTail_body_ctx (Or.inl hk) htail
        · exact stepTail_body_ctx (Or.inr (Or.inl hk)) htail
      rw [hctx]
      exact depInv_mono ov c hinv

end Jaqal.FillIn
