import JaqalProofs.Lemmas.ParserSound
/-! Every position reported by the parser model is the position of a token of its input. -/
namespace Jaqal.Parser
open Jaqal.Lexer Jaqal.Grammar

/-- The error carries the position of one of the tokens `ts` (or is positionless). -/
def ErrAt (ts : List PTok) : ParseErr → Prop
  | .syntaxAt l i => ∃ p ∈ ts, p.line = l ∧ p.index = i
  | .syntaxEOF => True
  | .action _ l i _ => ∃ p ∈ ts, p.line = l ∧ p.index = i
  | .outOfFuel => True

theorem ErrAt.mono {ts ts' : List PTok} {e} (h : ErrAt ts e) (hs : ∀ p ∈ ts, p ∈ ts') : ErrAt ts' e := by
  cases e with
  | syntaxAt l i => obtain ⟨p, hp, h1⟩ := h; exact ⟨p, hs p hp, h1⟩
  | syntaxEOF => trivial
  | action k l i a => obtain ⟨p, hp, h1⟩ := h; exact ⟨p, hs p hp, h1⟩
  | outOfFuel => trivial

theorem ErrAt.here (p : PTok) {ts : List PTok} (hp : p ∈ ts) : ErrAt ts (.syntaxAt p.line p.index) :=
  ⟨p, hp, rfl, rfl⟩

theorem skipSeq_subset (ts : List PTok) : ∀ p ∈ skipSeq ts, p ∈ ts := by
  obtain ⟨pad, h1, -⟩ := skipSeq_spec ts
  intro p hp; rw [h1]; exact List.mem_append_right _ hp

theorem skipPar_subset (ts : List PTok) : ∀ p ∈ skipPar ts, p ∈ ts := by
  obtain ⟨pad, h1, -⟩ := skipPar_spec ts
  intro p hp; rw [h1]; exact List.mem_append_right _ hp

theorem pLetOrInt_err {ts e} (h : pLetOrInt ts = .error e) : ErrAt ts e := by
  unfold pLetOrInt at h
  split at h
  · cases h; trivial
  · split at h <;> cases h
    exact .here _ (by simp)

theorem expect_err {t ts e} (h : expect t ts = .error e) : ErrAt ts e := by
  unfold expect at h
  split at h
  · cases h; trivial
  · split at h <;> cases h
    exact .here _ (by simp)

theorem pIdent_err {ts e} (h : pIdent ts = .error e) : ErrAt ts e := by
  unfold pIdent at h
  split at h
  · cases h; trivial
  · split at h <;> cases h
    exact .here _ (by simp)

theorem pGateArgs_err (ts : List PTok) : ∀ {e}, pGateArgs ts = .error e → ErrAt ts e := by
  fun_induction pGateArgs ts <;> intro e h <;> cases h
  all_goals first
    | trivial
    | exact .here _ (by simp)
    | (rename_i ih; exact (ih ‹_›).mono (by intro p hp; simp [hp]))

theorem mem_of_append {ts c rest : List PTok} (h : ts = c ++ rest) : ∀ p ∈ rest, p ∈ ts := by
  intro p hp; rw [h]; exact List.mem_append_right _ hp

def ErrSeqStmts (n : Nat) : Prop := ∀ ts e, pSeqStmts n ts = .error e → ErrAt ts e
def ErrParStmts (n : Nat) : Prop := ∀ ts e, pParStmts n ts = .error e → ErrAt ts e
def ErrSeqStmt (n : Nat) : Prop := ∀ ts e, pSeqStmt n ts = .error e → ErrAt ts e
def ErrParStmt (n : Nat) : Prop := ∀ ts e, pParStmt n ts = .error e → ErrAt ts e
def ErrGateBlock (n : Nat) : Prop := ∀ ts e, pGateBlock n ts = .error e → ErrAt ts e

theorem errSeqStmts_succ (n : Nat) (ih3 : ErrSeqStmt n) (ih1 : ErrSeqStmts n) : ErrSeqStmts (n+1) := by
  intro ts e h
  rw [pSeqStmts.eq_def] at h; simp only at h
  split at h
  · cases h; trivial
  · rename_i p r
    split at h
    · cases h
    · split at h
      · rename_i e' hx
        cases h; exact ih3 _ _ hx
      · rename_i x r1 hx
        obtain ⟨c, hc, -⟩ := (blocks_sound n).2.2.1 _ _ _ hx
        split at h
        · cases h; trivial
        · rename_i q r2
          split at h
          · cases h
          · split at h
            · split at h
              · rename_i e' hrec
                cases h
                refine (ih1 _ _ hrec).mono ?_
                intro p' hp'
                exact mem_of_append hc _ (List.mem_cons_of_mem _ (skipSeq_subset _ _ hp'))
              · cases h
            · cases h
              exact .here _ (mem_of_append hc _ (by simp))

theorem errParStmts_succ (n : Nat) (ih3 : ErrParStmt n) (ih1 : ErrParStmts n) : ErrParStmts (n+1) := by
  intro ts e h
  rw [pParStmts.eq_def] at h; simp only at h
  split at h
  · cases h; trivial
  · rename_i p r
    split at h
    · cases h
    · split at h
      · rename_i e' hx
        cases h; exact ih3 _ _ hx
      · rename_i x r1 hx
        obtain ⟨c, hc, -⟩ := (blocks_sound n).2.2.2.1 _ _ _ hx
        split at h
        · cases h; trivial
        · rename_i q r2
          split at h
          · cases h
          · split at h
            · split at h
              · rename_i e' hrec
                cases h
                refine (ih1 _ _ hrec).mono ?_
                intro p' hp'
                exact mem_of_append hc _ (List.mem_cons_of_mem _ (skipPar_subset _ _ hp'))
              · cases h
            · cases h
              exact .here _ (mem_of_append hc _ (by simp))

theorem errGateBlock_succ (n : Nat) (ih1 : ErrSeqStmts n) (ih2 : ErrParStmts n) : ErrGateBlock (n+1) := by
  intro ts e h
  rw [pGateBlock.eq_def] at h; simp only at h
  split at h
  · cases h; trivial
  · rename_i p r
    split at h
    · split at h
      · rename_i e' hrec
        cases h
        exact (ih1 _ _ hrec).mono (fun p' hp' => List.mem_cons_of_mem _ (skipSeq_subset _ _ hp'))
      · cases h
    · split at h
      · rename_i e' hrec
        cases h
        exact (ih2 _ _ hrec).mono (fun p' hp' => List.mem_cons_of_mem _ (skipPar_subset _ _ hp'))
      · cases h
    · cases h; exact .here _ (by simp)

theorem errParStmt_succ (n : Nat) (ih1 : ErrSeqStmts n) : ErrParStmt (n+1) := by
  intro ts e h
  rw [pParStmt.eq_def] at h; simp only at h
  split at h
  · cases h; trivial
  · rename_i p r
    split at h
    · split at h
      · rename_i e' hrec
        cases h
        exact (pGateArgs_err _ hrec).mono (fun p' hp' => List.mem_cons_of_mem _ hp')
      · cases h
    · split at h
      · rename_i e' hrec
        cases h
        exact (ih1 _ _ hrec).mono (fun p' hp' => List.mem_cons_of_mem _ (skipSeq_subset _ _ hp'))
      · cases h
    · cases h; exact .here _ (by simp)

theorem errSeqStmt_succ (n : Nat) (ih1 : ErrSeqStmts n) (ih2 : ErrParStmts n) (ih5 : ErrGateBlock n) :
    ErrSeqStmt (n+1) := by
  intro ts e h
  rw [pSeqStmt.eq_def] at h; simp only at h
  split at h
  · cases h; trivial
  · rename_i p r
    split at h
    · split at h
      · rename_i e' hrec
        cases h
        exact (pGateArgs_err _ hrec).mono (fun p' hp' => List.mem_cons_of_mem _ hp')
      · cases h
    · split at h
      · rename_i e' hrec
        cases h
        exact (ih2 _ _ hrec).mono (fun p' hp' => List.mem_cons_of_mem _ (skipPar_subset _ _ hp'))
      · cases h
    · split at h
      · rename_i e' hrec
        cases h
        exact (pLetOrInt_err hrec).mono (fun p' hp' => List.mem_cons_of_mem _ hp')
      · rename_i c r1 hc
        obtain ⟨pc, rfl, -⟩ := pLetOrInt_sound hc
        split at h
        · rename_i e' hrec
          cases h
          exact (ih5 _ _ hrec).mono (fun p' hp' => by simp [hp'])
        · cases h
    · split at h
      · cases h; trivial
      · rename_i q r1
        split at h
        · split at h
          · rename_i e' hrec
            cases h
            exact (ih1 _ _ hrec).mono (fun p' hp' => by simp [skipSeq_subset _ _ hp'])
          · cases h
        · split at h
          · rename_i e' hrec
            cases h
            exact (pLetOrInt_err hrec).mono (fun p' hp' => List.mem_cons_of_mem _ hp')
          · rename_i c r2 hc
            obtain ⟨pc, hpc1, -⟩ := pLetOrInt_sound hc
            cases hpc1
            split at h
            · rename_i e' hrec
              cases h
              exact (expect_err hrec).mono (fun p' hp' => by simp [hp'])
            · rename_i r3 he
              obtain ⟨pl, rfl, -⟩ := expect_sound he
              split at h
              · rename_i e' hrec
                cases h
                exact (ih1 _ _ hrec).mono (fun p' hp' => by simp [skipSeq_subset _ _ hp'])
              · cases h
    · cases h; exact .here _ (by simp)

theorem blocks_err (n : Nat) :
    ErrSeqStmts n ∧ ErrParStmts n ∧ ErrSeqStmt n ∧ ErrParStmt n ∧ ErrGateBlock n := by
  induction n with
  | zero =>
    refine ⟨?_, ?_, ?_, ?_, ?_⟩ <;> intro ts e h
    · rw [pSeqStmts.eq_def] at h; cases h; trivial
    · rw [pParStmts.eq_def] at h; cases h; trivial
    · rw [pSeqStmt.eq_def] at h; cases h; trivial
    · rw [pParStmt.eq_def] at h; cases h; trivial
    · rw [pGateBlock.eq_def] at h; cases h; trivial
  | succ n ih =>
    obtain ⟨i1, i2, i3, i4, i5⟩ := ih
    exact ⟨errSeqStmts_succ n i3 i1, errParStmts_succ n i4 i2, errSeqStmt_succ n i1 i2 i5,
      errParStmt_succ n i1, errGateBlock_succ n i1 i2⟩


theorem pCases_err (n : Nat) (ts : List PTok) : ∀ {e}, pCases n ts = .error e → ErrAt ts e := by
  fun_induction pCases n ts <;> intro e h <;> cases h
  case case1 => trivial
  case case2 => trivial
  case case4 n p tail v hp e' he =>
    exact (expect_err he).mono (fun p' hp' => List.mem_cons_of_mem _ hp')
  case case5 n p tail v hp r3 he e' hb =>
    obtain ⟨pc, rfl, -⟩ := expect_sound he
    exact ((blocks_err n).2.2.2.2 _ _ hb).mono (fun p' hp' => by simp [hp'])
  case case6 => trivial
  case case8 n p tail v hp r3 he b q tail' hq hsep e' hrec hb ih =>
    obtain ⟨pc, rfl, -⟩ := expect_sound he
    obtain ⟨c, hc, -⟩ := (blocks_sound n).2.2.2.2 _ _ _ hb
    refine (ih hrec).mono (fun p' hp' => ?_)
    have := mem_of_append hc _ (List.mem_cons_of_mem _ (skipSeq_subset _ _ hp'))
    simp [this]
  case case10 n p tail v hp r3 he b q tail' hq hsep hb =>
    obtain ⟨pc, rfl, -⟩ := expect_sound he
    obtain ⟨c, hc, -⟩ := (blocks_sound n).2.2.2.2 _ _ _ hb
    refine .here _ ?_
    have := mem_of_append hc q (by simp)
    simp [this]
  case case11 => exact .here _ (by simp)

theorem pSliceStep_err {start stop ts e} (h : pSliceStep start stop ts = .error e) : ErrAt ts e := by
  unfold pSliceStep at h
  split at h
  · cases h; trivial
  · rename_i p r1
    split at h
    · cases h
    · split at h
      · split at h
        · rename_i e' hs
          cases h; exact (pLetOrInt_err hs).mono (fun p' hp' => List.mem_cons_of_mem _ hp')
        · rename_i step r2 hs
          obtain ⟨ps, rfl, -⟩ := pLetOrInt_sound hs
          split at h
          · rename_i e' he
            cases h; exact (expect_err he).mono (fun p' hp' => by simp [hp'])
          · cases h
      · cases h; exact .here _ (by simp)

theorem pSliceStop_err {start ts e} (h : pSliceStop start ts = .error e) : ErrAt ts e := by
  unfold pSliceStop at h
  split at h
  · cases h; trivial
  · rename_i p r1
    split at h
    · exact (pSliceStep_err h).mono (fun p' hp' => List.mem_cons_of_mem _ hp')
    · exact (pSliceStep_err h).mono (fun p' hp' => List.mem_cons_of_mem _ hp')
    · exact pSliceStep_err h

theorem pMapIndex_err {ts e} (h : pMapIndex ts = .error e) : ErrAt ts e := by
  unfold pMapIndex at h
  split at h
  · cases h; trivial
  · rename_i p r
    split at h
    · exact (pSliceStop_err h).mono (fun p' hp' => List.mem_cons_of_mem _ hp')
    · split at h
      · rename_i e' hi
        cases h; exact pLetOrInt_err hi
      · rename_i i r1 hi
        obtain ⟨pi, hpi1, -⟩ := pLetOrInt_sound hi
        cases hpi1
        split at h
        · cases h; trivial
        · rename_i q r2
          split at h
          · cases h
          · split at h
            · exact (pSliceStop_err h).mono (fun p' hp' => by simp [hp'])
            · cases h; exact .here _ (by simp)


theorem pIdents_subset (ts : List PTok) : ∀ p ∈ (pIdents ts).2, p ∈ ts := by
  obtain ⟨c, h1, -⟩ := pIdents_sound ts
  intro p hp; rw [h1]; exact List.mem_append_right _ hp

theorem pTopStmt_err {n ts e} (h : pTopStmt n ts = .error e) : ErrAt ts e := by
  unfold pTopStmt at h
  split at h
  · cases h; trivial
  · rename_i n ts
    split at h
    · cases h; trivial
    · rename_i p r
      have cons : ∀ {l : List PTok} {e}, ErrAt l e → (∀ q ∈ l, q ∈ r) → ErrAt (p :: r) e :=
        fun he hs => he.mono (fun q hq => List.mem_cons_of_mem _ (hs q hq))
      split at h
      · -- REG
        split at h
        · rename_i e' h1; cases h; exact cons (pIdent_err h1) (fun _ hq => hq)
        · rename_i name r1 h1
          obtain ⟨p1, rfl, -⟩ := pIdent_sound h1
          split at h
          · rename_i e' h2; cases h; exact cons (expect_err h2) (fun _ hq => by simp [hq])
          · rename_i r2 h2
            obtain ⟨p2, rfl, -⟩ := expect_sound h2
            split at h
            · rename_i e' h3; cases h; exact cons (pLetOrInt_err h3) (fun _ hq => by simp [hq])
            · rename_i sz r3 h3
              obtain ⟨p3, rfl, -⟩ := pLetOrInt_sound h3
              split at h
              · rename_i e' h4; cases h; exact cons (expect_err h4) (fun _ hq => by simp [hq])
              · split at h
                · split at h <;> cases h
                · cases h
      · -- LET
        split at h
        · rename_i e' h1; cases h; exact cons (pIdent_err h1) (fun _ hq => hq)
        · rename_i name r1 h1
          obtain ⟨p1, rfl, -⟩ := pIdent_sound h1
          split at h
          · cases h; trivial
          · rename_i q r2
            split at h <;> cases h
            exact .here _ (by simp)
      · -- MAP
        split at h
        · rename_i e' h1; cases h; exact cons (pIdent_err h1) (fun _ hq => hq)
        · rename_i name r1 h1
          obtain ⟨p1, rfl, -⟩ := pIdent_sound h1
          split at h
          · rename_i e' h2; cases h; exact cons (pIdent_err h2) (fun _ hq => by simp [hq])
          · rename_i src r2 h2
            obtain ⟨p2, rfl, -⟩ := pIdent_sound h2
            split at h
            · cases h
            · rename_i q r3
              split at h
              · split at h
                · rename_i e' h4; cases h; exact cons (pMapIndex_err h4) (fun _ hq => by simp [hq])
                · cases h
              · cases h
      · -- FROM
        split at h
        · cases h; trivial
        · rename_i q r1
          split at h
          · split at h
            · rename_i e' h2; cases h; exact cons (expect_err h2) (fun _ hq => by simp [hq])
            · rename_i r2 h2
              obtain ⟨p2, rfl, -⟩ := expect_sound h2
              split at h
              · rename_i e' h3; cases h; exact cons (expect_err h3) (fun _ hq => by simp [hq])
              · cases h
          · split at h
            · rename_i e' h2; cases h; exact cons (expect_err h2) (fun _ hq => by simp [hq])
            · rename_i r2 h2
              obtain ⟨p2, rfl, -⟩ := expect_sound h2
              split at h
              · rename_i e' h3; cases h; exact cons (expect_err h3) (fun _ hq => by simp [hq])
              · cases h
          · cases h; exact .here _ (by simp)
      · -- IMPORT
        split at h
        · rename_i e' h1; cases h; exact cons (pIdent_err h1) (fun _ hq => hq)
        · rename_i nm r1 h1
          obtain ⟨p1, rfl, -⟩ := pIdent_sound h1
          split at h
          · rename_i e' h2; cases h; exact cons (expect_err h2) (fun _ hq => by simp [hq])
          · rename_i r2 h2
            obtain ⟨p2, rfl, -⟩ := expect_sound h2
            split at h
            · rename_i e' h3; cases h; exact cons (pIdent_err h3) (fun _ hq => by simp [hq])
            · cases h
      · -- MACRO
        split at h
        · rename_i e' h1; cases h; exact cons (pIdent_err h1) (fun _ hq => hq)
        · rename_i name r1 h1
          obtain ⟨p1, rfl, -⟩ := pIdent_sound h1
          simp only at h
          split at h
          · rename_i e' hb
            cases h
            exact cons ((blocks_err _).2.2.2.2 _ _ hb) (fun _ hq => by simp [pIdents_subset _ _ hq])
          · cases h
      · -- BRANCH
        split at h
        · rename_i e' h1; cases h; exact cons (expect_err h1) (fun _ hq => hq)
        · rename_i r1 h1
          obtain ⟨p1, rfl, -⟩ := expect_sound h1
          split at h
          · rename_i e' hc
            cases h
            exact cons (pCases_err _ _ hc) (fun _ hq => by simp [skipSeq_subset _ _ hq])
          · cases h
      · -- "{"
        split at h
        · rename_i e' hrec
          cases h
          exact cons ((blocks_err _).1 _ _ hrec) (fun _ hq => skipSeq_subset _ _ hq)
        · cases h
      · -- other
        split at h
        · rename_i e' hx
          cases h
          exact (blocks_err _).2.2.1 _ _ hx
        · cases h

theorem topAction_err {inBody p atEnd res e} (h : topAction inBody p.line p.index atEnd res = .error e)
    {ts : List PTok} (hp : p ∈ ts) : ErrAt ts e := by
  cases res with
  | bad k => cases h; exact ⟨p, hp, rfl, rfl⟩
  | header y =>
    simp only [topAction] at h
    split at h
    · cases h; exact ⟨p, hp, rfl, rfl⟩
    · cases h
  | body y => cases h

theorem pTop_err (n : Nat) (inBody : Bool) (ts : List PTok) : ∀ {e}, pTop n inBody ts = .error e →
    ErrAt ts e := by
  fun_induction pTop n inBody ts <;> intro e h <;> cases h
  case case1 => trivial
  case case3 n ib p tail e' hx => exact pTopStmt_err hx
  case case4 n ib p tail res e' hact hx => exact topAction_err hact (by simp)
  case case6 n ib p tail res q tail' hsep e' hact hx => exact topAction_err hact (by simp)
  case case7 n ib p tail res q tail' hsep x ib' hact e' hrec hx ih =>
    obtain ⟨c, hc, -⟩ := pTopStmt_sound hx
    exact (ih hrec).mono (fun p' hp' =>
      mem_of_append hc _ (List.mem_cons_of_mem _ (skipSeq_subset _ _ hp')))
  case case9 n ib p tail res q tail' hsep hx =>
    obtain ⟨c, hc, -⟩ := pTopStmt_sound hx
    exact .here _ (mem_of_append hc _ (by simp))

/-- Every position reported by `parse` is the position of one of its input tokens. -/
theorem parse_err {ts e} (h : parse ts = .error e) : ErrAt ts e := by
  unfold parse at h
  split at h
  · rename_i e' hx
    cases h
    exact (pTop_err _ _ _ hx).mono (skipSeq_subset ts)
  · cases h


end Jaqal.Parser
