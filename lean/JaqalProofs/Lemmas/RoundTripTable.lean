import JaqalProofs.Lemmas.BuilderNames
import Mathlib.Data.Finset.Card
import Mathlib.Data.List.Basic
/-!
# C01, builder layer: the gate table is acyclic, so the fuel of `macroHasSub` does not matter

`nestingCheck` asks whether a macro's expansion contains a subcircuit block; the model follows the macro calls through
the gate table with fuel `table length + 1`.  A macro body can only call what was in the table when the body was built,
and a macro's name is added after its body was built, so the calls go down a rank (`Ranked`).  Hence

* the answer does not depend on the fuel once it exceeds the rank (`macroHasSub_fuel`),
* two tables that agree on what the first one knows give the same answer (`macroHasSub_tables`, `nesting_eq`).
-/
set_option linter.unusedSimpArgs false
set_option linter.unusedVariables false
namespace Jaqal.RoundTrip
open Jaqal Jaqal.Builder

/-! ## the names a table binds -/

def dom (g : GCtx) : Finset String := (g.map (·.1)).toFinset

theorem lookup_some_mem {β : Type} {n : String} {v : β} : ∀ {l : List (String × β)}, l.lookup n = some v → n ∈ l.map (·.1) := by
  intro l
  induction l with
  | nil => intro h; cases h
  | cons p ps ih =>
    intro h
    obtain ⟨k, w⟩ := p
    simp only [List.lookup] at h
    by_cases hk : (n == k) = true
    · have : n = k := by simpa using hk
      simp [this]
    · simp only [hk] at h
      simp only [List.map_cons, List.mem_cons]
      exact Or.inr (ih h)

theorem mem_dom {g : GCtx} {n : String} : n ∈ dom g ↔ (g.lookup n).isSome = true := by
  unfold dom
  rw [List.mem_toFinset]
  constructor
  · exact lookup_isSome_of_mem_keys
  · intro h
    cases hl : g.lookup n with
    | none => rw [hl] at h; cases h
    | some v => exact lookup_some_mem hl

theorem dom_mono {g g' : GCtx} (h : GExt g g') : dom g ⊆ dom g' := by
  intro n hn
  rw [mem_dom] at hn ⊢
  cases hl : g.lookup n with
  | none => rw [hl] at hn; cases hn
  | some v => rw [h n v hl]; rfl

theorem dom_card_le (g : GCtx) : (dom g).card ≤ g.length := by
  unfold dom
  exact (List.toFinset_card_le _).trans (by simp)

theorem dom_cons {g : GCtx} {k : String} (e : GEntry) (h : g.lookup k = none) :
    (dom ((k, e) :: g)).card = (dom g).card + 1 := by
  have : dom ((k, e) :: g) = insert k (dom g) := by
    unfold dom
    simp
  rw [this, Finset.card_insert_of_notMem]
  rw [mem_dom, h]
  simp

theorem lookup_cons_ne {β : Type} {k n : String} {e : β} {g : List (String × β)} (h : n ≠ k) :
    List.lookup n ((k, e) :: g) = List.lookup n g := by
  simp only [List.lookup]
  have : (n == k) = false := by simpa using h
  rw [this]

theorem lookup_cons_self {β : Type} {k : String} {e : β} {g : List (String × β)} :
    List.lookup k ((k, e) :: g) = some e := by
  simp [List.lookup]

/-! ## `contains_subcircuit` reads the table only at the names the statement calls -/

mutual
theorem stmtHasSub_congr {look look' : String → Bool} : ∀ (s : Stmt),
    (∀ gd ∈ gateDefsOf s, look gd.name = look' gd.name) → stmtHasSub look s = stmtHasSub look' s
  | .gate _ gd _, h => by
    simp only [stmtHasSub]
    rw [h gd (by simp [gateDefsOf])]
  | .block _ sub _ body, h => by
    simp only [stmtHasSub]
    rw [stmtsHaveSub_congr body (fun gd hgd => h gd (by simpa [gateDefsOf] using hgd))]
  | .loop _ b, h => by
    simp only [stmtHasSub]
    exact stmtHasSub_congr b (fun gd hgd => h gd (by simpa [gateDefsOf] using hgd))
theorem stmtsHaveSub_congr {look look' : String → Bool} : ∀ (ss : List Stmt),
    (∀ gd ∈ gateDefsOfList ss, look gd.name = look' gd.name) → stmtsHaveSub look ss = stmtsHaveSub look' ss
  | [], _ => rfl
  | s :: ss, h => by
    simp only [stmtsHaveSub]
    rw [stmtHasSub_congr s (fun gd hgd => h gd (by simp [gateDefsOfList, hgd])),
      stmtsHaveSub_congr ss (fun gd hgd => h gd (by simp [gateDefsOfList, hgd]))]
end

/-! ## ranks -/

/-- every macro of the table has a rank below the number of names bound; what its body calls is bound in the table,
and the macros among them have a smaller rank -/
structure Ranked (g : GCtx) (ρ : String → Nat) : Prop where
  bound : ∀ n M, g.lookup n = some (.macro M) → ρ n ≤ (dom g).card
  known : ∀ n M, g.lookup n = some (.macro M) → ∀ gd ∈ gateDefsOf M.body, GKnown g gd
  desc : ∀ n M, g.lookup n = some (.macro M) → ∀ gd ∈ gateDefsOf M.body, ∀ M', g.lookup gd.name = some (.macro M') →
    ρ gd.name < ρ n

def RInv (g : GCtx) : Prop := ∃ ρ, Ranked g ρ

theorem macroHasSub_not_macro {g : GCtx} {n : String} (h : ∀ M, g.lookup n ≠ some (.macro M)) :
    ∀ f, macroHasSub g f n = false
  | 0 => rfl
  | f+1 => by
    simp only [macroHasSub]

theorem macroHasSub_fuel {g : GCtx} {ρ : String → Nat} (hR : Ranked g ρ) : ∀ (f1 f2 : Nat) (n : String),
    (∀ M, g.lookup n = some (.macro M) → ρ n < f1 ∧ ρ n < f2) → macroHasSub g f1 n = macroHasSub g f2 n := by
  intro f1
  induction f1 with
  | zero =>
    intro f2 n h
    have hn : ∀ M, g.lookup n ≠ some (.macro M) := fun M hM => by have := (h M hM).1; omega
    rw [macroHasSub_not_macro hn, macroHasSub_not_macro hn]
  | succ f1 ih =>
    intro f2 n h
    by_cases hn : ∃ M, g.lookup n = some (.macro M)
    · obtain ⟨M, hM⟩ := hn
      obtain ⟨h1, h2⟩ := h M hM
      cases f2 with
      | zero => omega
      | succ f2 =>
        simp only [macroHasSub, hM]
        apply stmtHasSub_congr
        intro gd hgd
        apply ih
        intro M' hM'
        have := hR.desc n M hM gd hgd M' hM'
        omega
    · have hn' : ∀ M, g.lookup n ≠ some (.macro M) := fun M hM => hn ⟨M, hM⟩
      rw [macroHasSub_not_macro hn', macroHasSub_not_macro hn']

/-- `g2` has the same entry wherever `g1` has a macro, and no macro where `g1` has another definition -/
def Agree (g1 g2 : GCtx) : Prop :=
  ∀ n e, g1.lookup n = some e → g2.lookup n = some e ∨ (g2.lookup n = none ∧ ∀ M, e ≠ .macro M)

theorem macroHasSub_tables {g1 g2 : GCtx}
    (hk : ∀ n M, g1.lookup n = some (.macro M) → ∀ gd ∈ gateDefsOf M.body, GKnown g1 gd) (hc : Agree g1 g2) :
    ∀ (f : Nat) (n : String), (g1.lookup n).isSome = true → macroHasSub g1 f n = macroHasSub g2 f n := by
  intro f
  induction f with
  | zero => intro n _; rfl
  | succ f ih =>
    intro n hn
    cases h1 : g1.lookup n with
    | none => rw [h1] at hn; cases hn
    | some e =>
      rcases hc n e h1 with h2 | ⟨h2, hne⟩
      · cases e with
        | gdef d => simp only [macroHasSub, h1, h2]
        | «macro» M =>
          simp only [macroHasSub, h1, h2]
          apply stmtHasSub_congr
          intro gd hgd
          apply ih
          obtain ⟨e', he', _⟩ := hk n M h1 gd hgd
          rw [he']; rfl
      · cases e with
        | gdef d => simp only [macroHasSub, h1, h2]
        | «macro» M => exact absurd rfl (hne M)

/-- the nesting check gives the same answer in two tables that agree on what the first one binds -/
theorem nesting_eq {g1 g2 : GCtx} {ρ1 ρ2 : String → Nat} (h1 : Ranked g1 ρ1) (h2 : Ranked g2 ρ2) (hc : Agree g1 g2)
    (n : String) (hn : (g1.lookup n).isSome = true) :
    macroHasSub g1 (g1.length + 1) n = macroHasSub g2 (g2.length + 1) n := by
  have e1 : macroHasSub g1 (g1.length + 1) n = macroHasSub g1 (max g1.length g2.length + 1) n := by
    apply macroHasSub_fuel h1
    intro M hM
    have := h1.bound n M hM
    have := dom_card_le g1
    omega
  have e2 : macroHasSub g2 (g2.length + 1) n = macroHasSub g2 (max g1.length g2.length + 1) n := by
    apply macroHasSub_fuel h2
    intro M hM
    have := h2.bound n M hM
    have := dom_card_le g2
    omega
  rw [e1, e2]
  exact macroHasSub_tables h1.known hc _ n hn

/-! ## the ranks survive the growth of the table -/

/-- new anonymous definitions -/
theorem Ranked.grow {cfg : Config} {g g' : GCtx} {ρ : String → Nat} (h : Ranked g ρ) (hx : GExt g g')
    (ha : AnonExt cfg g g') : Ranked g' ρ := by
  have hmac : ∀ n M, g'.lookup n = some (.macro M) → g.lookup n = some (.macro M) := by
    intro n M hM
    rcases ha n _ hM with h0 | ⟨_, k, hk⟩
    · exact h0
    · cases hk
  refine ⟨?_, ?_, ?_⟩
  · intro n M hM
    exact (h.bound n M (hmac n M hM)).trans (Finset.card_le_card (dom_mono hx))
  · intro n M hM gd hgd
    exact (h.known n M (hmac n M hM) gd hgd).ext hx
  · intro n M hM gd hgd M' hM'
    exact h.desc n M (hmac n M hM) gd hgd M' (hmac _ M' hM')

theorem RInv.grow {cfg : Config} {g g' : GCtx} (h : RInv g) (hx : GExt g g') (ha : AnonExt cfg g g') : RInv g' := by
  obtain ⟨ρ, hρ⟩ := h
  exact ⟨ρ, hρ.grow hx ha⟩

/-- a new macro whose body calls only what the table binds -/
theorem Ranked.addMacro {g : GCtx} {ρ : String → Nat} (h : Ranked g ρ) (m : Macro) (hm : g.lookup m.name = none)
    (hk : StmtKnown g m.body) :
    Ranked ((m.name, .macro m) :: g) (Function.update ρ m.name ((dom g).card + 1)) := by
  have hx : GExt g ((m.name, GEntry.macro m) :: g) := by
    intro n e hn
    have : n ≠ m.name := by rintro rfl; rw [hm] at hn; cases hn
    rw [lookup_cons_ne this]; exact hn
  have hne : ∀ gd, GKnown g gd → gd.name ≠ m.name := by
    rintro gd ⟨e, he, _⟩ heq
    rw [heq, hm] at he; cases he
  refine ⟨?_, ?_, ?_⟩
  · intro n M hM
    rw [dom_cons _ hm]
    by_cases hn : n = m.name
    · subst hn; simp
    · rw [lookup_cons_ne hn] at hM
      rw [Function.update_of_ne hn]
      exact (h.bound n M hM).trans (Nat.le_succ _)
  · intro n M hM gd hgd
    by_cases hn : n = m.name
    · subst hn
      rw [lookup_cons_self] at hM
      cases hM
      exact (hk gd hgd).ext hx
    · rw [lookup_cons_ne hn] at hM
      exact (h.known n M hM gd hgd).ext hx
  · intro n M hM gd hgd M' hM'
    by_cases hn : n = m.name
    · subst hn
      rw [lookup_cons_self] at hM
      cases hM
      have hg := hne gd (hk gd hgd)
      rw [lookup_cons_ne hg] at hM'
      rw [Function.update_of_ne hg, Function.update_self]
      have := h.bound _ M' hM'
      omega
    · rw [lookup_cons_ne hn] at hM
      have hg := hne gd (h.known n M hM gd hgd)
      rw [lookup_cons_ne hg] at hM'
      rw [Function.update_of_ne hg, Function.update_of_ne hn]
      exact h.desc n M hM gd hgd M' hM'

theorem RInv.addMacro {g : GCtx} (h : RInv g) (m : Macro) (hm : g.lookup m.name = none) (hk : StmtKnown g m.body) :
    RInv ((m.name, .macro m) :: g) := by
  obtain ⟨ρ, hρ⟩ := h
  exact ⟨_, hρ.addMacro m hm hk⟩

/-- a table of native definitions only -/
theorem RInv.natives (l : List (String × GateDef)) : RInv (l.map wrapG) := by
  refine ⟨fun _ => 0, ?_, ?_, ?_⟩ <;>
  · intro n M hM
    obtain ⟨g, hg, _⟩ := lookup_map_wrapG hM
    cases hg

end Jaqal.RoundTrip
