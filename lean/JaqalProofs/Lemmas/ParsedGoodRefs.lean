import JaqalProofs.Lemmas.ParsedLegal
import JaqalProofs.Props.ParsedC05
/-!
# After `fill_in_let`, the hypothesis of C06 holds of a parsed circuit — unless a macro body indexes a parameter

`parsed_let_goodRefs : parseProgram cfg txt = .ok c → noParamIndex c = true → fillInLet ov c = .ok c1 → goodRefs c1 = true`.

`goodRefs` (`Lemmas/ParsedLegal.lean`) is the decidable form of the hypotheses `AllVals GoodRef` of `C06_fill_in_map`: every qubit
reference goes through a `ValidChain` and has an integer index.  Before `fill_in_let` it can fail for a parsed circuit because a
slice of a let-sized register is not checked (`goodRefs_parsed_fails`).  AFTER `fill_in_let` (any overrides):

* every value is constant-free and typed (`filled_typed`: registers are sized and sliced by Python ints, `RegL`; a qubit index is
  an int or a parameter),
* every value satisfies what the constructors check on literals (`C05_revalidate_parsed`, from C14's `RefsValid`: `ValOK`),
* and for a register sized and sliced by literals `ValOK` IS `ValidChain` (`C06_valid_of_builder`; `RegL_litSize`: the literal size
  exists because `ValOK` excludes the step 0).

What is left is a reference whose SOURCE or INDEX is a macro parameter (`x[0]`, `r[i]` inside `macro M x i { … }`): there is no
chain under a parameter, and no integer index.  `noParamIndex c` — decidable, on the ORIGINAL circuit — says that no macro body
holds such a reference (`noParRef`); the body never does (`ScopedC`: no parameter occurs in the body of a parsed circuit), and
`LetFiller` does not turn a register into a parameter (`letVal_noParRef`).  The condition cannot be dropped:
`noParamIndex_needed` evaluates `register r[2]; macro M x { G x[0] }; M r`, for which `fill_in_let` succeeds and `goodRefs` of the
result is false.
-/
set_option linter.unusedSimpArgs false
set_option linter.unusedVariables false
namespace Jaqal.FillIn
open Jaqal Jaqal.Builder Jaqal.Passes

/-- the value is no qubit reference whose source or index is a parameter -/
def noParRef : Val → Bool
  | .qubit _ src idx => !isParam src && !isParam idx
  | _ => true

/-- **no macro body indexes a parameter or indexes by a parameter** (decidable; about the circuit as parsed) -/
def noParamIndex (c : Circuit) : Bool := c.macros.all (fun m => allValsB noParRef m.body)

/-! ### literal registers: `ValOK` is `ValidChain` -/

theorem RegL_litSize : ∀ v : Val, RegL v = true → ValOK v → ∃ k, litSize v = some k
  | .regF n sz, h, _ => by
    simp only [RegL] at h
    cases sz <;> simp [isIntL] at h
    exact ⟨_, rfl⟩
  | .regA n src, h, hok => by
    simp only [RegL] at h
    simp only [ValOK] at hok
    obtain ⟨k, hk⟩ := RegL_litSize src h hok.1
    exact ⟨k, by simpa [litSize] using hk⟩
  | .regS n src a b s, h, hok => by
    simp only [RegL, Bool.and_eq_true] at h
    simp only [ValOK] at hok
    obtain ⟨k, hk⟩ := RegL_litSize src h.1.1.1 hok.1
    cases a <;> simp [isIntL] at h
    cases b <;> simp [isIntL] at h
    cases s <;> simp [isIntL] at h
    rename_i ia ib is
    have := (hok.2.2 ia ib is k rfl rfl rfl hk).1
    refine ⟨rangeLenI ia ib is, ?_⟩
    simp [litSize, hk, this]
  | .int _, h, _ | .flt _, h, _ | .const _ _, h, _ | .param _ _, h, _ | .qubit _ _ _, h, _ | .none, h, _ | .str _, h, _ => by
    simp [RegL] at h

theorem RegL_validChain {v : Val} (h : RegL v = true) (hok : ValOK v) : ValidChain v := by
  obtain ⟨k, hk⟩ := RegL_litSize v h hok
  exact (C06_valid_of_builder hk hok).1

/-- a value of a circuit `fill_in_let` returned (typed, validated) that is no reference through a parameter is a good reference -/
theorem goodRef_of_out {v : Val} (ho : OutT v = true) (hok : ValOK v) (hn : noParRef v = true) : GoodRef v := by
  cases v with
  | qubit n src idx =>
    simp only [OutT, Bool.and_eq_true, Bool.or_eq_true] at ho
    simp only [noParRef, Bool.and_eq_true, Bool.not_eq_true'] at hn
    simp only [ValOK] at hok
    have hs : RegL src = true := by
      rcases ho.1 with h | h
      · exact h
      · rw [hn.1] at h; cases h
    have hi : isIntL idx = true := by
      rcases ho.2 with h | h
      · exact h
      · rw [hn.2] at h; cases h
    refine ⟨RegL_validChain hs hok.1, ?_⟩
    cases idx <;> simp [isIntL] at hi
    exact ⟨_, rfl⟩
  | _ => trivial

/-! ### `LetFiller` on values: no new qubit, no new parameter -/

theorem letVal_notQubit {ov : List (String × Num)} {rv : Bool} {v v' : Val} (hv : ∀ n s i, v ≠ .qubit n s i)
    (h : letVal ov rv v = .ok v') : ∀ n s i, v' ≠ .qubit n s i := by
  cases v <;> simp only [letVal] at h
  · cases h; exact hv
  · cases h; exact hv
  · rcases Passes.resolveConstant_numeric h with ⟨k, rfl⟩ | ⟨d, rfl⟩ <;> intro n s i hh <;> cases hh
  · cases h; exact hv
  · exact absurd rfl (hv _ _ _)
  · split at h
    · obtain ⟨ns, _, h⟩ := bind_ok h
      rw [FillIn.mkRegister_eq h]; intro n s i hh; cases hh
    · cases h; exact hv
  · obtain ⟨nf, _, h⟩ := bind_ok h
    cases h; intro n s i hh; cases hh
  · obtain ⟨nf, _, h⟩ := bind_ok h
    obtain ⟨a', _, h⟩ := bind_ok h
    obtain ⟨b', _, h⟩ := bind_ok h
    obtain ⟨s', _, h⟩ := bind_ok h
    rw [(FillIn.mkSliceN_eq h).1]; intro n s i hh; cases hh
  · cases h; exact hv
  · cases h; exact hv

theorem RegT_regLike {v : Val} (h : RegT v = true) : isRegLike v = true := by
  cases v <;> simp [RegT] at h <;> rfl

theorem RegT_notQubit {v : Val} (h : RegT v = true) : ∀ n s i, v ≠ .qubit n s i := by
  intro n s i hh; subst hh; simp [RegT] at h

/-- the visitor keeps a register a register -/
theorem letVal_reg_notParam {ov : List (String × Num)} {rv : Bool} {v v' : Val} (hv : RegT v = true)
    (h : letVal ov rv v = .ok v') : isParam v' = false := by
  have := letVal_regLike (RegT_regLike hv) h
  cases v' <;> simp [isRegLike] at this <;> rfl

theorem noParRef_of_notQubit {v : Val} (h : ∀ n s i, v ≠ .qubit n s i) : noParRef v = true := by
  cases v <;> first | rfl | exact absurd rfl (h _ _ _)

/-- **`LetFiller` makes no reference through a parameter out of one that is none** -/
theorem letVal_noParRef {ov : List (String × Num)} {v v' : Val} (ht : InT v = true) (hn : noParRef v = true)
    (h : letVal ov false v = .ok v') : noParRef v' = true := by
  cases v with
  | qubit n src idx =>
    simp only [InT, Bool.and_eq_true, Bool.or_eq_true] at ht
    simp only [noParRef, Bool.and_eq_true, Bool.not_eq_true'] at hn
    have hs : RegT src = true := by
      rcases ht.1 with h' | h'
      · exact h'
      · rw [hn.1] at h'; cases h'
    simp only [letVal] at h
    obtain ⟨nf, hnf, h⟩ := bind_ok h
    have hnfp := letVal_reg_notParam hs hnf
    split at h
    · obtain ⟨ni, hni, h⟩ := bind_ok h
      obtain ⟨n', hq⟩ := constIndexQubit_mk h
      rw [mkQubit_eq hq]
      rcases Passes.resolveConstant_numeric hni with ⟨k, rfl⟩ | ⟨d, rfl⟩
      · show (!isParam nf && !isParam (Val.int k)) = true
        rw [hnfp]; rfl
      · show (!isParam nf && !isParam (Val.flt d)) = true
        rw [hnfp]; rfl
    · rw [mkQubit_eq h]
      show (!isParam nf && !isParam idx) = true
      rw [hnfp, hn.2]; rfl
  | int _ => exact noParRef_of_notQubit (letVal_notQubit (fun n s i hh => by cases hh) h)
  | flt _ => exact noParRef_of_notQubit (letVal_notQubit (fun n s i hh => by cases hh) h)
  | const _ _ => exact noParRef_of_notQubit (letVal_notQubit (fun n s i hh => by cases hh) h)
  | param _ _ => exact noParRef_of_notQubit (letVal_notQubit (fun n s i hh => by cases hh) h)
  | regF _ _ => exact noParRef_of_notQubit (letVal_notQubit (fun n s i hh => by cases hh) h)
  | regA _ _ => exact noParRef_of_notQubit (letVal_notQubit (fun n s i hh => by cases hh) h)
  | regS _ _ _ _ _ => exact noParRef_of_notQubit (letVal_notQubit (fun n s i hh => by cases hh) h)
  | none => exact noParRef_of_notQubit (letVal_notQubit (fun n s i hh => by cases hh) h)
  | str _ => exact noParRef_of_notQubit (letVal_notQubit (fun n s i hh => by cases hh) h)

/-! ### statements -/

mutual
  theorem allVals_inT {Q : Val → Prop} : ∀ s : Stmt, StmtIn s → AllVals Q s → AllVals (fun v => InT v = true ∧ Q v) s
    | .gate n gd args, ht, hq => by
      simp only [StmtIn] at ht
      simp only [AllVals] at hq ⊢
      exact fun a ha => ⟨ht a ha, hq a ha⟩
    | .block par sub it body, ht, hq => by
      simp only [StmtIn] at ht
      simp only [AllVals] at hq ⊢
      exact ⟨fun h => ⟨CntIn_InT ht.1, hq.1 h⟩, allValsList_inT body ht.2 hq.2⟩
    | .loop c b, ht, hq => by
      simp only [StmtIn] at ht
      simp only [AllVals] at hq ⊢
      exact ⟨⟨CntIn_InT ht.1, hq.1⟩, allVals_inT b ht.2 hq.2⟩
  theorem allValsList_inT {Q : Val → Prop} : ∀ l : List Stmt, StmtsIn l → AllValsList Q l →
      AllValsList (fun v => InT v = true ∧ Q v) l
    | [], _, _ => by simp only [AllValsList]
    | s :: ss, ht, hq => by
      simp only [StmtsIn] at ht
      simp only [AllValsList] at hq ⊢
      exact ⟨allVals_inT s ht.1 hq.1, allValsList_inT ss ht.2 hq.2⟩
end

theorem CntIn_noParRef {c : Val} (h : CntIn c = true) : noParRef c = true := by
  cases c <;> first | rfl | simp [CntIn, isIntC, isParam] at h

theorem parIn_noParRef {v : Val} (h : ParIn noPar v = true) : noParRef v = true := by
  cases v with
  | qubit n src idx =>
    simp only [ParIn, Bool.and_eq_true] at h
    have h1 : isParam src = false := by cases src <;> first | rfl | simp [parOK, noPar] at h
    have h2 : isParam idx = false := by cases idx <;> first | rfl | simp [parOK, noPar] at h
    simp [noParRef, h1, h2]
  | _ => rfl

mutual
  /-- no parameter occurs in the body of a parsed circuit: in particular no reference through one -/
  theorem allVals_noParRef_of_scoped : ∀ s : Stmt, StmtIn s → ScS noPar s → AllVals (fun v => noParRef v = true) s
    | .gate n gd args, _, hs => by
      simp only [ScS] at hs
      simp only [AllVals]
      exact fun a ha => parIn_noParRef (hs a ha)
    | .block par sub it body, ht, hs => by
      simp only [StmtIn] at ht
      simp only [ScS] at hs
      simp only [AllVals]
      exact ⟨fun _ => CntIn_noParRef ht.1, allValsList_noParRef_of_scoped body ht.2 hs⟩
    | .loop c b, ht, hs => by
      simp only [StmtIn] at ht
      simp only [ScS] at hs
      simp only [AllVals]
      exact ⟨CntIn_noParRef ht.1, allVals_noParRef_of_scoped b ht.2 hs.2.2⟩
  theorem allValsList_noParRef_of_scoped : ∀ l : List Stmt, StmtsIn l → ScSL noPar l →
      AllValsList (fun v => noParRef v = true) l
    | [], _, _ => by simp only [AllValsList]
    | s :: ss, ht, hs => by
      simp only [StmtsIn] at ht
      simp only [ScSL] at hs
      simp only [AllValsList]
      exact ⟨allVals_noParRef_of_scoped s ht.1 hs.1, allValsList_noParRef_of_scoped ss ht.2 hs.2⟩
end

theorem CntOut_goodRef {c : Val} (h : CntOut c = true) : GoodRef c := by
  cases c <;> first | trivial | simp [CntOut] at h

mutual
  /-- on a circuit `fill_in_let` returned: typed, validated, no reference through a parameter ⟹ the hypothesis of C06 -/
  theorem allVals_goodRef_of : ∀ s : Stmt, StmtOut s → AllVals ValOK s → ArgsAll (fun v => noParRef v = true) s →
      AllVals GoodRef s
    | .gate n gd args, ho, hv, hn => by
      simp only [StmtOut] at ho
      simp only [AllVals] at hv ⊢
      simp only [ArgsAll] at hn
      exact fun a ha => goodRef_of_out (ho a ha) (hv a ha) (hn a ha)
    | .block par sub it body, ho, hv, hn => by
      simp only [StmtOut] at ho
      simp only [AllVals] at hv ⊢
      simp only [ArgsAll] at hn
      exact ⟨fun _ => CntOut_goodRef ho.1, allValsList_goodRef_of body ho.2 hv.2 hn⟩
    | .loop c b, ho, hv, hn => by
      simp only [StmtOut] at ho
      simp only [AllVals] at hv ⊢
      simp only [ArgsAll] at hn
      exact ⟨CntOut_goodRef ho.1, allVals_goodRef_of b ho.2 hv.2 hn⟩
  theorem allValsList_goodRef_of : ∀ l : List Stmt, StmtsOut l → AllValsList ValOK l →
      ArgsAllList (fun v => noParRef v = true) l → AllValsList GoodRef l
    | [], _, _, _ => by simp only [AllValsList]
    | s :: ss, ho, hv, hn => by
      simp only [StmtsOut] at ho
      simp only [AllValsList] at hv ⊢
      simp only [ArgsAllList] at hn
      exact ⟨allVals_goodRef_of s ho.1 hv.1 hn.1, allValsList_goodRef_of ss ho.2 hv.2 hn.2⟩
end

/-! ### the theorem -/

/-- **After `fill_in_let` (any overrides) a parsed circuit none of whose macro bodies indexes a parameter satisfies the
hypothesis of `C06_fill_in_map`.** -/
theorem parsed_let_goodRefs (cfg : Config) (txt : String) (ov : List (String × Num)) (c c1 : Circuit)
    (hp : Pipeline.parseProgram cfg txt = .ok c) (hn : noParamIndex c = true) (h : fillInLet ov c = .ok c1) :
    goodRefs c1 = true := by
  obtain ⟨_, ht, _, hsc⟩ := parseProgram_facts hp
  have hw2 := (parsed_legal cfg txt c hp).wf2
  obtain ⟨bs, regs, hbs, _, hr⟩ := fillInLet_rebuilt hw2 h
  obtain ⟨⟨ss, hss, hout⟩, hmout, _⟩ := filled_typed ht hbs h
  obtain ⟨hvb, hvm, _⟩ := C05_revalidate_parsed cfg txt ov c c1 hp h
  have hF : ∀ v v', (InT v = true ∧ noParRef v = true) → letVal ov false v = .ok v' → noParRef v' = true :=
    fun v v' hv hl => letVal_noParRef hv.1 hv.2 hl
  rw [goodRefs_iff]
  constructor
  · -- the body
    obtain ⟨ss', hc', hrel⟩ := hr.body
    have hbody_in : StmtsIn bs := by have := ht.body; rw [hbs] at this; simp only [StmtIn] at this; exact this.2
    have hbody_sc : ScSL noPar bs := by have := hsc.body; rw [hbs] at this; simp only [ScS] at this; exact this
    have hP := allValsList_inT bs hbody_in (allValsList_noParRef_of_scoped bs hbody_in hbody_sc)
    have hnp := Rel_argss hF bs ss' hrel hP
    rw [hss] at hc'
    cases hc'
    rw [hss] at hvb ⊢
    simp only [AllVals] at hvb ⊢
    exact ⟨fun hh => (by cases hh), allValsList_goodRef_of ss hout hvb.2 hnp⟩
  · -- the macros
    intro m' hm'
    obtain ⟨m, hmem, hmm⟩ := forall₂_right hr.macros m' hm'
    have hq : AllVals (fun v => noParRef v = true) m.body := by
      simp only [noParamIndex, List.all_eq_true] at hn
      exact (allValsB_iff (fun v => Iff.rfl) m.body).1 (hn m hmem)
    have hP := allVals_inT m.body (ht.macros m hmem) hq
    have hnp := Rel_args hF _ _ hmm.2.2 hP
    exact allVals_goodRef_of m'.body (hmout m' hm') (hvm m' hm') hnp

/-- the condition cannot be dropped: `register r[2]; macro M x { G x[0] }; M r` — `fill_in_let` succeeds and `goodRefs` of the
result is false -/
theorem noParamIndex_needed :
    (match Pipeline.parseProgram {} "register r[2]\nmacro M x { G x[0] }\nM r\n" with
     | .ok c => (match fillInLet [] c with
                 | .ok c1 => !noParamIndex c && !goodRefs c1
                 | .error _ => false)
     | .error _ => false) = true := by decide +kernel

/-- non-vacuity: `let n 4; register r[n]; map a r[1:n]; macro M x { G x }; M a[0]` satisfies the premises (and the result is
good, as the theorem says) -/
theorem parsed_let_goodRefs_ex :
    (match Pipeline.parseProgram {} "let n 4\nregister r[n]\nmap a r[1:n]\nmacro M x { G x }\nM a[0]\n" with
     | .ok c => (match fillInLet [("n", .int 6)] c with
                 | .ok c1 => noParamIndex c && goodRefs c1
                 | .error _ => false)
     | .error _ => false) = true := by decide +kernel

end Jaqal.FillIn
