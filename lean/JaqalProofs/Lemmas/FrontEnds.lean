import JaqalModel.Model.FrontEnds
import Mathlib.Data.List.Perm.Subperm
import Mathlib.Data.List.Nodup
/-!
Lemmas for C17 (`JaqalProofs/Props/C17.lean`): the `Namer`, the frame discipline of the Q-syntax `Stack`,
the comparison of the three lowerings.
-/
namespace Jaqal.FrontEnds
open Jaqal

/-! ## Namer -/

theorem toDigits_inj {a b : Nat} (h : Nat.toDigits 10 a = Nat.toDigits 10 b) : a = b := by
  have := congrArg (fun l => Nat.ofDigitChars 10 l 0) h
  simpa [Nat.ofDigitChars_ten_toDigits] using this

theorem letTemplate_inj : Function.Injective letTemplate := by
  intro a b h
  unfold letTemplate at h
  have := String.ofList_injective h
  simp only [List.cons.injEq, true_and] at this
  exact toDigits_inj this

theorem regTemplate_inj : Function.Injective regTemplate := by
  intro a b h
  unfold regTemplate at h
  have := String.ofList_injective h
  simp only [List.cons.injEq, true_and] at this
  exact toDigits_inj this

theorem letTemplate_ne_regTemplate (a b : Nat) : letTemplate a ≠ regTemplate b := by
  intro h
  unfold letTemplate regTemplate at h
  have := String.ofList_injective h
  simp at this

/-- What a failed search has seen. -/
theorem chooseName_error {tmpl : Nat → String} {user : List String} :
    ∀ (fuel idx : Nat) (e : Err), chooseName tmpl user fuel idx = .error e →
      ∀ i, i < fuel → tmpl (idx + i) ∈ user
  | 0, _, _, _ => by intro i hi; omega
  | fuel + 1, idx, e, h => by
    intro i hi
    unfold chooseName at h
    split at h
    · rename_i hmem
      cases i with
      | zero => simpa using hmem
      | succ i =>
        have := chooseName_error fuel (idx + 1) e h i (by omega)
        rwa [show idx + 1 + i = idx + (i + 1) by omega] at this
    · cases h

/-- `_choose_name` terminates: the `user.length + 1` candidates from `idx` on are distinct, so one of
them is not a user name. -/
theorem chooseName_total {tmpl : Nat → String} (hinj : Function.Injective tmpl) (user : List String)
    (idx : Nat) : ∃ r, chooseName tmpl user (user.length + 1) idx = .ok r := by
  cases h : chooseName tmpl user (user.length + 1) idx with
  | ok r => exact ⟨r, rfl⟩
  | error e =>
    exfalso
    have hall := chooseName_error _ _ _ h
    let cand := (List.range (user.length + 1)).map (fun i => tmpl (idx + i))
    have hnd : cand.Nodup := by
      refine List.Nodup.map ?_ List.nodup_range
      intro a b hab
      have := hinj hab
      omega
    have hsub : cand ⊆ user := by
      intro x hx
      simp only [cand, List.mem_map, List.mem_range] at hx
      obtain ⟨i, hi, rfl⟩ := hx
      exact hall i hi
    have := (List.subperm_of_subset hnd hsub).length_le
    simp only [cand, List.length_map, List.length_range] at this
    omega

theorem chooseName_spec {tmpl : Nat → String} {user : List String} :
    ∀ (fuel idx : Nat) (n : String) (idx' : Nat), chooseName tmpl user fuel idx = .ok (n, idx') →
      ∃ j, idx ≤ j ∧ n = tmpl j ∧ idx' = j + 1 ∧ n ∉ user
  | 0, _, _, _, h => by simp [chooseName] at h
  | fuel + 1, idx, n, idx', h => by
    unfold chooseName at h
    split at h
    · obtain ⟨j, hj, r⟩ := chooseName_spec fuel (idx + 1) n idx' h
      exact ⟨j, by omega, r⟩
    · rename_i hmem
      simp only [Except.ok.injEq, Prod.mk.injEq] at h
      exact ⟨idx, Nat.le_refl _, h.1.symm, h.2.symm, h.1 ▸ hmem⟩

/-- The names given to the anonymous entries (in order). -/
def genNames : List (Option String) → List String → List String
  | none :: os, n :: ns => n :: genNames os ns
  | some _ :: os, _ :: ns => genNames os ns
  | _, _ => []

theorem nameAll_spec {tmpl : Nat → String} {user : List String} :
    ∀ (l : List (Option String)) (next : Nat) (ns : List String), nameAll tmpl user l next = .ok ns →
      ns.length = l.length ∧
      (∀ (i : Nat) (n : String), l[i]? = some (some n) → ns[i]? = some n) ∧
      ∃ js : List Nat, js.Pairwise (· < ·) ∧ (∀ j ∈ js, next ≤ j) ∧ genNames l ns = js.map tmpl ∧
        ∀ n ∈ genNames l ns, n ∉ user
  | [], next, ns, h => by
    simp only [nameAll, Except.ok.injEq] at h
    subst h
    exact ⟨rfl, by simp, [], by simp [genNames]⟩
  | some u :: rest, next, ns, h => by
    simp only [nameAll, bind, Except.bind, pure, Except.pure] at h
    split at h
    · cases h
    · rename_i ns' hr
      simp only [Except.ok.injEq] at h
      subst h
      obtain ⟨hl, hu, js, h1, h2, h3, h4⟩ := nameAll_spec rest next ns' hr
      refine ⟨by simp [hl], ?_, js, h1, h2, by simpa [genNames] using h3, by simpa [genNames] using h4⟩
      intro i n hi
      cases i with
      | zero => simpa using hi
      | succ i => simpa using hu i n (by simpa using hi)
  | none :: rest, next, ns, h => by
    simp only [nameAll, bind, Except.bind, pure, Except.pure] at h
    split at h
    · cases h
    · rename_i r hc
      obtain ⟨n, next'⟩ := r
      simp only at h
      split at h
      · cases h
      · rename_i ns' hr
        simp only [Except.ok.injEq] at h
        subst h
        obtain ⟨j, hj1, hj2, hj3, hj4⟩ := chooseName_spec _ _ _ _ hc
        obtain ⟨hl, hu, js, h1, h2, h3, h4⟩ := nameAll_spec rest next' ns' hr
        refine ⟨by simp [hl], ?_, j :: js, ?_, ?_, ?_, ?_⟩
        · intro i n' hi
          cases i with
          | zero => simp at hi
          | succ i => simpa using hu i n' (by simpa using hi)
        · refine List.Pairwise.cons ?_ h1
          intro a ha
          have := h2 a ha
          omega
        · intro a ha
          rcases List.mem_cons.1 ha with rfl | ha
          · exact hj1
          · have := h2 a ha
            omega
        · simp [genNames, h3, hj2]
        · intro x hx
          simp only [genNames, List.mem_cons] at hx
          rcases hx with rfl | hx
          · exact hj4
          · exact h4 x hx

theorem nameAll_total {tmpl : Nat → String} (hinj : Function.Injective tmpl) (user : List String) :
    ∀ (l : List (Option String)) (next : Nat), ∃ ns, nameAll tmpl user l next = .ok ns
  | [], _ => ⟨[], rfl⟩
  | some u :: rest, next => by
    obtain ⟨ns, h⟩ := nameAll_total hinj user rest next
    exact ⟨u :: ns, by simp [nameAll, h, bind, Except.bind, pure, Except.pure]⟩
  | none :: rest, next => by
    obtain ⟨⟨n, next'⟩, hc⟩ := chooseName_total hinj user next
    obtain ⟨ns, h⟩ := nameAll_total hinj user rest next'
    exact ⟨n :: ns, by simp [nameAll, hc, h, bind, Except.bind, pure, Except.pure]⟩

theorem nodup_map_of_pairwise_lt {tmpl : Nat → String} (hinj : Function.Injective tmpl) {js : List Nat}
    (h : js.Pairwise (· < ·)) : (js.map tmpl).Nodup := by
  refine List.Nodup.map hinj ?_
  exact h.imp (fun hab => Nat.ne_of_lt hab)

theorem namer_total (lets regs : List (Option String)) : ∃ r, namer lets regs = .ok r := by
  obtain ⟨ln, h1⟩ := nameAll_total letTemplate_inj (userNames lets regs) lets 0
  obtain ⟨rn, h2⟩ := nameAll_total regTemplate_inj (userNames lets regs) regs 0
  exact ⟨(ln, rn), by simp [namer, h1, h2, bind, Except.bind, pure, Except.pure]⟩

theorem namer_ok {lets regs : List (Option String)} {ln rn : List String}
    (h : namer lets regs = .ok (ln, rn)) :
    nameAll letTemplate (userNames lets regs) lets 0 = .ok ln ∧
    nameAll regTemplate (userNames lets regs) regs 0 = .ok rn := by
  simp only [namer, bind, Except.bind, pure, Except.pure] at h
  split at h
  · cases h
  · split at h
    · cases h
    · simp only [Except.ok.injEq, Prod.mk.injEq] at h
      obtain ⟨rfl, rfl⟩ := h
      exact ⟨by assumption, by assumption⟩

/-! ## A relational reading of `M` computations -/

/-- Both fail with the same error, or both succeed with related results. -/
def MRel {α β} (r : α → β → Prop) : M α → M β → Prop
  | .ok x, .ok y => r x y
  | .error e, .error e' => e = e'
  | _, _ => False

theorem MRel.pure {α β} {r : α → β → Prop} {x : α} {y : β} (h : r x y) :
    MRel r (Pure.pure x : M α) (Pure.pure y : M β) := h

theorem MRel.bind {α β γ δ} {r : α → β → Prop} {r' : γ → δ → Prop} {m1 : M α} {m2 : M β}
    {f : α → M γ} {g : β → M δ} (h : MRel r m1 m2) (hf : ∀ x y, r x y → MRel r' (f x) (g y)) :
    MRel r' (m1 >>= f) (m2 >>= g) := by
  cases m1 <;> cases m2 <;> simp only [MRel] at h
  · subst h; rfl
  · exact hf _ _ h

theorem MRel.bind_same {α γ δ} {r' : γ → δ → Prop} (m : M α) {f : α → M γ} {g : α → M δ}
    (hf : ∀ x, MRel r' (f x) (g x)) : MRel r' (m >>= f) (m >>= g) := by
  cases m
  · rfl
  · exact hf _

theorem MRel.map_eq {α β γ} {f : α → γ} {g : β → γ} {m1 : M α} {m2 : M β}
    (h : MRel (fun x y => f x = g y) m1 m2) : m1.map f = m2.map g := by
  cases m1 <;> cases m2 <;> simp only [MRel] at h
  · subst h; rfl
  · simp [Except.map, h]

/-! ## The frame discipline of the Q-syntax stack -/

mutual
/-- The `QGateCall` / `QBlock` object a statement becomes (what `exec` appends to the current frame). -/
def toQ (L : List LetObj) : Stmt → M QStmt
  | .gate name args => do
      let a ← args.mapM (mkArg L)
      pure (.gateCall name a)
  | .seq body => do pure (.block .seq .none (← toQs L body))
  | .par body => do pure (.block .par .none (← toQs L body))
  | .loop c body => do pure (.block .loop (countVal c) (← toQs L body))
  | .sub c body => do pure (.block .sub (subCountVal c) (← toQs L body))
def toQs (L : List LetObj) : List Stmt → M (List QStmt)
  | [] => .ok []
  | s :: rest => do
      let q ← toQ L s
      let qs ← toQs L rest
      pure (q :: qs)
end

theorem finishBlock_eq (cls : BlockCls) (arg : QVal) (qs f : List QStmt) (fr : List (List QStmt))
    (L : List LetObj) (R : List RegObj) :
    finishBlock cls arg (fr.length + 1) ⟨qs :: f :: fr, L, R⟩
      = .ok ⟨(f ++ [.block cls arg qs]) :: fr, L, R⟩ := by
  simp [finishBlock, Stack.iterStatements, Stack.pop, Stack.depth, Stack.setStatement, bind, Except.bind]

mutual
/-- One statement leaves the stack as it found it, except for one more object in the current frame. -/
theorem exec_eq (L : List LetObj) (R : List RegObj) :
    ∀ (s : Stmt) (f : List QStmt) (fr : List (List QStmt)),
      exec s ⟨f :: fr, L, R⟩ = (toQ L s).map (fun q => ⟨(f ++ [q]) :: fr, L, R⟩)
  | .gate name args, f, fr => by
    simp only [exec, toQ]
    cases args.mapM (mkArg L) <;> rfl
  | .seq body, f, fr => by
    simp only [exec, toQ, Stack.push, Stack.depth, List.length_cons]
    rw [execs_eq L R body [] (f :: fr)]
    cases toQs L body with
    | error e => rfl
    | ok qs =>
      simp only [Except.map, bind, Except.bind, List.nil_append]
      exact finishBlock_eq ..
  | .par body, f, fr => by
    simp only [exec, toQ, Stack.push, Stack.depth, List.length_cons]
    rw [execs_eq L R body [] (f :: fr)]
    cases toQs L body with
    | error e => rfl
    | ok qs =>
      simp only [Except.map, bind, Except.bind, List.nil_append]
      exact finishBlock_eq ..
  | .loop c body, f, fr => by
    simp only [exec, toQ, Stack.push, Stack.depth, List.length_cons]
    rw [execs_eq L R body [] (f :: fr)]
    cases toQs L body with
    | error e => rfl
    | ok qs =>
      simp only [Except.map, bind, Except.bind, List.nil_append]
      exact finishBlock_eq ..
  | .sub c body, f, fr => by
    simp only [exec, toQ, Stack.push, Stack.depth, List.length_cons]
    rw [execs_eq L R body [] (f :: fr)]
    cases toQs L body with
    | error e => rfl
    | ok qs =>
      simp only [Except.map, bind, Except.bind, List.nil_append]
      exact finishBlock_eq ..
theorem execs_eq (L : List LetObj) (R : List RegObj) :
    ∀ (b : List Stmt) (f : List QStmt) (fr : List (List QStmt)),
      execs b ⟨f :: fr, L, R⟩ = (toQs L b).map (fun qs => ⟨(f ++ qs) :: fr, L, R⟩)
  | [], f, fr => by simp [execs, toQs, Except.map]
  | s :: rest, f, fr => by
    simp only [execs, toQs]
    rw [exec_eq L R s f fr]
    cases toQ L s with
    | error e => rfl
    | ok q =>
      simp only [Except.map, bind, Except.bind]
      rw [execs_eq L R rest (f ++ [q]) fr]
      cases toQs L rest with
      | error e => rfl
      | ok qs => simp [Except.map, pure, Except.pure]
end

def letObjs (ls : List LetDecl) : List LetObj := ls.map (fun l => { value := l.value, name := l.name })

theorem declLets_eq : ∀ (ls : List LetDecl) (st : Stack),
    declLets ls st = { st with lets := st.lets ++ letObjs ls }
  | [], st => by simp [declLets, letObjs]
  | l :: rest, st => by
    have := declLets_eq rest (st.setLet { value := l.value, name := l.name })
    simp only [declLets, List.foldl_cons] at this ⊢
    rw [this]
    simp [Stack.setLet, letObjs]

/-- The `QRegister` objects: sizes validated against the lets. -/
def toRegObjs (L : List LetObj) : List RegDecl → M (List RegObj)
  | [] => .ok []
  | r :: rest => do
      let sz ← validateInt L r.size
      let os ← toRegObjs L rest
      pure ({ size := sz, name := r.name } :: os)

theorem declRegs_eq : ∀ (rs : List RegDecl) (st : Stack),
    declRegs rs st = (toRegObjs st.lets rs).map (fun os => { st with regs := st.regs ++ os })
  | [], st => by simp [declRegs, toRegObjs, Except.map]
  | r :: rest, st => by
    simp only [declRegs, toRegObjs]
    cases validateInt st.lets r.size with
    | error e => rfl
    | ok sz =>
      simp only [bind, Except.bind]
      rw [declRegs_eq rest]
      simp only [Stack.setRegister]
      cases toRegObjs st.lets rest with
      | error e => rfl
      | ok os => simp [Except.map, pure, Except.pure]

/-- The stack `circuit_from_stack` sees: one frame holding the top-level objects. -/
theorem runQ_eq (p : Prog) :
    runQ p = (do
      let os ← toRegObjs (letObjs p.lets) p.regs
      let qs ← toQs (letObjs p.lets) p.body
      pure ⟨[qs], letObjs p.lets, os⟩) := by
  simp only [runQ, declLets_eq, Stack.empty, Stack.push, List.nil_append, declRegs_eq]
  cases toRegObjs (letObjs p.lets) p.regs with
  | error e => rfl
  | ok os =>
    simp only [Except.map, bind, Except.bind]
    rw [execs_eq]
    cases toQs (letObjs p.lets) p.body with
    | error e => rfl
    | ok qs => simp [Except.map, pure, Except.pure]

/-! ## One lowering, parameterised by how an absent subcircuit count is written -/

def genSubCount (a : Sx) (ln : List String) : SubCount → M Sx
  | .absent => .ok a
  | .given c => countSx ln c

mutual
def genStmt (a : Sx) (ln rn : List String) : Stmt → M Sx
  | .gate name args => do
      let x ← args.mapM (argSx ln rn)
      pure (.list (.str "gate" :: .str name :: x))
  | .seq body => do pure (.list (.str "sequential_block" :: (← genStmts a ln rn body)))
  | .par body => do pure (.list (.str "parallel_block" :: (← genStmts a ln rn body)))
  | .loop c body => do
      let n ← countSx ln c
      let b ← genStmts a ln rn body
      pure (.list [.str "loop", n, .list (.str "sequential_block" :: b)])
  | .sub c body => do
      let n ← genSubCount a ln c
      let b ← genStmts a ln rn body
      pure (.list (.str "subcircuit_block" :: n :: b))
def genStmts (a : Sx) (ln rn : List String) : List Stmt → M (List Sx)
  | [] => .ok []
  | s :: rest => do
      let x ← genStmt a ln rn s
      let xs ← genStmts a ln rn rest
      pure (x :: xs)
end

def genProg (a : Sx) (p : Prog) : M Sx := do
  let (ln, rn) ← namer p.letNames p.regNames
  let lets := List.zipWith declLetSx ln p.lets
  let regs ← declRegsSx ln rn p.regs
  let body ← genStmts a ln rn p.body
  pure (.list (.str "circuit" :: (lets ++ regs ++ body)))

mutual
theorem ooStmt_eq (ln rn : List String) : ∀ s : Stmt, ooStmt ln rn s = genStmt .none ln rn s
  | .gate _ _ => by simp [ooStmt, genStmt]
  | .seq b => by simp [ooStmt, genStmt, ooStmts_eq ln rn b]
  | .par b => by simp [ooStmt, genStmt, ooStmts_eq ln rn b]
  | .loop _ b => by simp [ooStmt, genStmt, ooStmts_eq ln rn b]
  | .sub c b => by cases c <;> simp [ooStmt, genStmt, ooStmts_eq ln rn b, ooSubCount, genSubCount]
theorem ooStmts_eq (ln rn : List String) : ∀ b : List Stmt, ooStmts ln rn b = genStmts .none ln rn b
  | [] => by simp [ooStmts, genStmts]
  | s :: rest => by simp [ooStmts, genStmts, ooStmt_eq ln rn s, ooStmts_eq ln rn rest]
end

mutual
theorem parseStmt_eq (ln rn : List String) : ∀ s : Stmt, parseStmt ln rn s = genStmt (.str "") ln rn s
  | .gate _ _ => by simp [parseStmt, genStmt]
  | .seq b => by simp [parseStmt, genStmt, parseStmts_eq ln rn b]
  | .par b => by simp [parseStmt, genStmt, parseStmts_eq ln rn b]
  | .loop _ b => by simp [parseStmt, genStmt, parseStmts_eq ln rn b]
  | .sub c b => by cases c <;> simp [parseStmt, genStmt, parseStmts_eq ln rn b, parseSubCount, genSubCount]
theorem parseStmts_eq (ln rn : List String) : ∀ b : List Stmt, parseStmts ln rn b = genStmts (.str "") ln rn b
  | [] => by simp [parseStmts, genStmts]
  | s :: rest => by simp [parseStmts, genStmts, parseStmt_eq ln rn s, parseStmts_eq ln rn rest]
end

theorem lowerOO_eq (p : Prog) : lowerOO p = genProg .none p := by
  simp only [lowerOO, genProg, ooStmts_eq]

theorem parseSx_eq (p : Prog) : parseSx p = genProg (.str "") p := by
  simp only [parseSx, genProg, parseStmts_eq]

/-! ## `norm` on the shapes that occur -/

theorem normList_append (xs ys : List Sx) : normList (xs ++ ys) = normList xs ++ normList ys := by
  induction xs with
  | nil => simp [normList]
  | cons x xs ih => simp [normList, ih]

theorem norm_circuit (xs : List Sx) : norm (.list (.str "circuit" :: xs)) = .list (.str "circuit" :: normList xs) := by
  simp [norm, normList]

mutual
/-- Two spellings of the absent count that `normCount` identifies give `norm`-equal statements. -/
theorem genStmt_norm {a b : Sx} (hab : normCount (norm a) = normCount (norm b)) (ln rn : List String) :
    ∀ s : Stmt, MRel (fun x y => norm x = norm y) (genStmt a ln rn s) (genStmt b ln rn s)
  | .gate name args => by
    simp only [genStmt]
    exact MRel.bind_same _ (fun x => MRel.pure rfl)
  | .seq body => by
    simp only [genStmt]
    refine MRel.bind (genStmts_norm hab ln rn body) (fun x y h => MRel.pure ?_)
    simp [norm, normList, h]
  | .par body => by
    simp only [genStmt]
    refine MRel.bind (genStmts_norm hab ln rn body) (fun x y h => MRel.pure ?_)
    simp [norm, normList, h]
  | .loop c body => by
    simp only [genStmt]
    refine MRel.bind_same _ (fun n => ?_)
    refine MRel.bind (genStmts_norm hab ln rn body) (fun x y h => MRel.pure ?_)
    simp [norm, normList, h]
  | .sub c body => by
    simp only [genStmt]
    have hc : MRel (fun x y => normCount (norm x) = normCount (norm y)) (genSubCount a ln c) (genSubCount b ln c) := by
      cases c with
      | absent => exact hab
      | given c =>
        simp only [genSubCount]
        cases countSx ln c <;> simp [MRel]
    refine MRel.bind hc (fun n n' hn => ?_)
    refine MRel.bind (genStmts_norm hab ln rn body) (fun x y h => MRel.pure ?_)
    simp [norm, h, hn]
theorem genStmts_norm {a b : Sx} (hab : normCount (norm a) = normCount (norm b)) (ln rn : List String) :
    ∀ l : List Stmt, MRel (fun x y => normList x = normList y) (genStmts a ln rn l) (genStmts b ln rn l)
  | [] => by simp [genStmts, MRel]
  | s :: rest => by
    simp only [genStmts]
    refine MRel.bind (genStmt_norm hab ln rn s) (fun x y h => ?_)
    refine MRel.bind (genStmts_norm hab ln rn rest) (fun xs ys hs => MRel.pure ?_)
    simp [normList, h, hs]
end

theorem genProg_norm {a b : Sx} (hab : normCount (norm a) = normCount (norm b)) (p : Prog) :
    MRel (fun x y => norm x = norm y) (genProg a p) (genProg b p) := by
  simp only [genProg]
  refine MRel.bind_same _ (fun names => ?_)
  obtain ⟨ln, rn⟩ := names
  refine MRel.bind_same _ (fun regs => ?_)
  refine MRel.bind (genStmts_norm hab ln rn p.body) (fun x y h => MRel.pure ?_)
  simp [norm_circuit, normList_append, h]

/-! ## Q-syntax: `build` of the objects = the lowering with `1` for an absent count -/

theorem validateInt_lookup {L : List LetObj} {ln : List String} {c : Count} {a : QAtom}
    (h : validateInt L c = .ok a) : lookupAtom ln a = countSx ln c := by
  cases c with
  | lit n => simp only [validateInt, Except.ok.injEq] at h; subst h; rfl
  | ref i =>
    simp only [validateInt] at h
    split at h
    · cases h
    · split at h
      · simp only [Except.ok.injEq] at h; subst h; rfl
      · cases h

theorem mkArg_lookup {L : List LetObj} {ln rn : List String} {x : Arg} {v : QVal}
    (h : mkArg L x = .ok v) : lookup ln rn v = argSx ln rn x := by
  cases x with
  | num n => simp only [mkArg, Except.ok.injEq] at h; subst h; rfl
  | ref i => simp only [mkArg, Except.ok.injEq] at h; subst h; rfl
  | reg r => simp only [mkArg, Except.ok.injEq] at h; subst h; rfl
  | qubit r idx =>
    simp only [mkArg, bind, Except.bind] at h
    split at h
    · cases h
    · rename_i a ha
      simp only [pure, Except.pure, Except.ok.injEq] at h
      subst h
      simp only [lookup, argSx, validateInt_lookup ha]

theorem mapM_mkArg_lookup {L : List LetObj} {ln rn : List String} :
    ∀ (args : List Arg) (vs : List QVal), args.mapM (mkArg L) = .ok vs →
      vs.mapM (lookup ln rn) = args.mapM (argSx ln rn)
  | [], vs, h => by
    simp only [List.mapM_nil, pure, Except.pure, Except.ok.injEq] at h
    subst h; rfl
  | x :: rest, vs, h => by
    simp only [List.mapM_cons, bind, Except.bind] at h
    split at h
    · cases h
    · rename_i v hv
      split at h
      · cases h
      · rename_i vs' hvs
        simp only [pure, Except.pure, Except.ok.injEq] at h
        subst h
        simp only [List.mapM_cons, mkArg_lookup hv, mapM_mkArg_lookup rest vs' hvs]

theorem lookup_countVal (ln rn : List String) (c : Count) : lookup ln rn (countVal c) = countSx ln c := by
  cases c <;> rfl

theorem lookup_subCountVal (ln rn : List String) (c : SubCount) :
    lookup ln rn (subCountVal c) = genSubCount (.int 1) ln c := by
  cases c with
  | absent => rfl
  | given c => exact lookup_countVal ln rn c

theorem countVal_ne_none (c : Count) : (countVal c == QVal.none) = false := by
  cases c <;> rfl

theorem subCountVal_ne_none (c : SubCount) : (subCountVal c == QVal.none) = false := by
  cases c with
  | absent => rfl
  | given c => exact countVal_ne_none c

theorem blockHeader_seq (ln rn : List String) : blockHeader ln rn .seq .none = .ok [] := rfl
theorem blockHeader_par (ln rn : List String) : blockHeader ln rn .par .none = .ok [] := rfl

theorem blockHeader_loop (ln rn : List String) (c : Count) :
    blockHeader ln rn .loop (countVal c) = (countSx ln c).map (fun n => [n]) := by
  simp only [blockHeader, BlockCls.arity, countVal_ne_none, lookup_countVal]
  cases countSx ln c <;> rfl

theorem blockHeader_sub (ln rn : List String) (c : SubCount) :
    blockHeader ln rn .sub (subCountVal c) = (genSubCount (.int 1) ln c).map (fun n => [n]) := by
  simp only [blockHeader, BlockCls.arity, subCountVal_ne_none, lookup_subCountVal]
  cases genSubCount (.int 1) ln c <;> rfl

mutual
theorem buildQ_gen {L : List LetObj} {ln rn : List String} :
    ∀ (s : Stmt) (q : QStmt) (x : Sx), toQ L s = .ok q → buildQ ln rn q = .ok x →
      genStmt (.int 1) ln rn s = .ok x
  | .gate name args, q, x, hq, hx => by
    simp only [toQ, bind, Except.bind] at hq
    split at hq
    · cases hq
    · rename_i vs hvs
      simp only [pure, Except.pure, Except.ok.injEq] at hq
      subst hq
      simp only [buildQ, mapM_mkArg_lookup args vs hvs] at hx
      simpa only [genStmt] using hx
  | .seq body, q, x, hq, hx => by
    simp only [toQ, bind, Except.bind] at hq
    split at hq
    · cases hq
    · rename_i qs hqs
      simp only [pure, Except.pure, Except.ok.injEq] at hq
      subst hq
      simp only [buildQ, blockHeader_seq, BlockCls.wrapStatements, BlockCls.internalName,
        bind, Except.bind, pure, Except.pure] at hx
      cases hxs : buildQs ln rn .seq qs with
      | error e => simp [hxs] at hx
      | ok xs =>
        simp [hxs] at hx
        subst hx
        simp [genStmt, buildQs_gen body qs .seq xs hqs hxs]
  | .par body, q, x, hq, hx => by
    simp only [toQ, bind, Except.bind] at hq
    split at hq
    · cases hq
    · rename_i qs hqs
      simp only [pure, Except.pure, Except.ok.injEq] at hq
      subst hq
      simp only [buildQ, blockHeader_par, BlockCls.wrapStatements, BlockCls.internalName,
        bind, Except.bind, pure, Except.pure] at hx
      cases hxs : buildQs ln rn .par qs with
      | error e => simp [hxs] at hx
      | ok xs =>
        simp [hxs] at hx
        subst hx
        simp [genStmt, buildQs_gen body qs .par xs hqs hxs]
  | .loop c body, q, x, hq, hx => by
    simp only [toQ, bind, Except.bind] at hq
    split at hq
    · cases hq
    · rename_i qs hqs
      simp only [pure, Except.pure, Except.ok.injEq] at hq
      subst hq
      simp only [buildQ, blockHeader_loop, BlockCls.wrapStatements, BlockCls.internalName,
        bind, Except.bind, pure, Except.pure] at hx
      cases hn : countSx ln c with
      | error e => simp [hn, Except.map] at hx
      | ok n =>
        cases hxs : buildQs ln rn .loop qs with
        | error e => simp [hn, hxs, Except.map] at hx
        | ok xs =>
          simp [hn, hxs, Except.map] at hx
          subst hx
          simp [genStmt, hn, buildQs_gen body qs .loop xs hqs hxs]
          rfl
  | .sub c body, q, x, hq, hx => by
    simp only [toQ, bind, Except.bind] at hq
    split at hq
    · cases hq
    · rename_i qs hqs
      simp only [pure, Except.pure, Except.ok.injEq] at hq
      subst hq
      simp only [buildQ, blockHeader_sub, BlockCls.wrapStatements, BlockCls.internalName,
        bind, Except.bind, pure, Except.pure] at hx
      cases hn : genSubCount (.int 1) ln c with
      | error e => simp [hn, Except.map] at hx
      | ok n =>
        cases hxs : buildQs ln rn .sub qs with
        | error e => simp [hn, hxs, Except.map] at hx
        | ok xs =>
          simp [hn, hxs, Except.map] at hx
          subst hx
          simp [genStmt, hn, buildQs_gen body qs .sub xs hqs hxs]
          rfl
theorem buildQs_gen {L : List LetObj} {ln rn : List String} :
    ∀ (b : List Stmt) (qs : List QStmt) (cls : BlockCls) (xs : List Sx), toQs L b = .ok qs →
      buildQs ln rn cls qs = .ok xs → genStmts (.int 1) ln rn b = .ok xs
  | [], qs, cls, xs, hq, hx => by
    simp only [toQs, Except.ok.injEq] at hq
    subst hq
    simpa [buildQs, genStmts] using hx
  | s :: rest, qs, cls, xs, hq, hx => by
    simp only [toQs, bind, Except.bind] at hq
    split at hq
    · cases hq
    · rename_i q hq1
      split at hq
      · cases hq
      · rename_i qs' hqs'
        simp only [pure, Except.pure, Except.ok.injEq] at hq
        subst hq
        simp only [buildQs, bind, Except.bind] at hx
        split at hx
        · cases hx
        · split at hx
          · cases hx
          · rename_i x hx1
            split at hx
            · cases hx
            · rename_i xs' hxs'
              simp only [pure, Except.pure, Except.ok.injEq] at hx
              subst hx
              simp [genStmts, buildQ_gen s q x hq1 hx1, buildQs_gen rest qs' cls xs' hqs' hxs']
              rfl
end

theorem buildTop_gen {L : List LetObj} {ln rn : List String} :
    ∀ (b : List Stmt) (qs : List QStmt) (xs : List Sx), toQs L b = .ok qs →
      buildTop ln rn qs = .ok xs → genStmts (.int 1) ln rn b = .ok xs
  | [], qs, xs, hq, hx => by
    simp only [toQs, Except.ok.injEq] at hq
    subst hq
    simpa [buildTop, genStmts] using hx
  | s :: rest, qs, xs, hq, hx => by
    simp only [toQs, bind, Except.bind] at hq
    split at hq
    · cases hq
    · rename_i q hq1
      split at hq
      · cases hq
      · rename_i qs' hqs'
        simp only [pure, Except.pure, Except.ok.injEq] at hq
        subst hq
        simp only [buildTop, bind, Except.bind] at hx
        split at hx
        · cases hx
        · rename_i x hx1
          split at hx
          · cases hx
          · rename_i xs' hxs'
            simp only [pure, Except.pure, Except.ok.injEq] at hx
            subst hx
            simp [genStmts, buildQ_gen s q x hq1 hx1, buildTop_gen rest qs' xs' hqs' hxs']
            rfl

/-! ## The implicit wrap -/

theorem toQs_cons {L : List LetObj} {s : Stmt} {rest : List Stmt} {qs : List QStmt}
    (h : toQs L (s :: rest) = .ok qs) :
    ∃ q qs', toQ L s = .ok q ∧ toQs L rest = .ok qs' ∧ qs = q :: qs' := by
  simp only [toQs, bind, Except.bind] at h
  split at h
  · cases h
  · rename_i q hq
    split at h
    · cases h
    · rename_i qs' hqs'
      simp only [pure, Except.pure, Except.ok.injEq] at h
      exact ⟨q, qs', hq, hqs', h.symm⟩

theorem toQ_block {L : List LetObj} {cls : BlockCls} {arg : QVal} {body : List Stmt} {q : QStmt}
    (h : (do pure (QStmt.block cls arg (← toQs L body)) : M QStmt) = .ok q) :
    ∃ qs, toQs L body = .ok qs ∧ q = .block cls arg qs := by
  simp only [bind, Except.bind] at h
  split at h
  · cases h
  · rename_i qs hqs
    simp only [pure, Except.pure, Except.ok.injEq] at h
    exact ⟨qs, hqs, h.symm⟩

mutual
theorem startsWith_eq (L : List LetObj) :
    ∀ (s : Stmt) (q : QStmt), toQ L s = .ok q → startsWithPrepare prepareName q = s.beginsPrepOrSub
  | .gate n args, q, h => by
    simp only [toQ, bind, Except.bind] at h
    split at h
    · cases h
    · simp only [pure, Except.pure, Except.ok.injEq] at h
      subst h
      simp [startsWithPrepare, Stmt.beginsPrepOrSub]
  | .seq body, q, h => by
    obtain ⟨qs, hqs, rfl⟩ := toQ_block (by simpa only [toQ] using h)
    have := heads_eq L body qs hqs
    cases qs <;> simpa [startsWithPrepare, Stmt.beginsPrepOrSub] using this
  | .par body, q, h => by
    obtain ⟨qs, hqs, rfl⟩ := toQ_block (by simpa only [toQ] using h)
    have := heads_eq L body qs hqs
    cases qs <;> simpa [startsWithPrepare, Stmt.beginsPrepOrSub] using this
  | .loop c body, q, h => by
    obtain ⟨qs, hqs, rfl⟩ := toQ_block (by simpa only [toQ] using h)
    have := heads_eq L body qs hqs
    cases qs <;> simpa [startsWithPrepare, Stmt.beginsPrepOrSub] using this
  | .sub c body, q, h => by
    obtain ⟨qs, hqs, rfl⟩ := toQ_block (by simpa only [toQ] using h)
    simp [startsWithPrepare, Stmt.beginsPrepOrSub]
theorem heads_eq (L : List LetObj) :
    ∀ (b : List Stmt) (qs : List QStmt), toQs L b = .ok qs →
      (match qs with | [] => false | q :: _ => startsWithPrepare prepareName q) = beginsPrepOrSub b
  | [], qs, h => by
    simp only [toQs, Except.ok.injEq] at h
    subst h
    simp [beginsPrepOrSub]
  | s :: rest, qs, h => by
    obtain ⟨q, qs', hq, _, rfl⟩ := toQs_cons h
    simpa [beginsPrepOrSub] using startsWith_eq L s q hq
end

/-- The code's decision (`do_implicit_measure`) is the specification `¬ beginsPrepOrSub`. -/
theorem doImplicit_eq {L : List LetObj} {b : List Stmt} {qs : List QStmt} (h : toQs L b = .ok qs) :
    doImplicitMeasure qs = !beginsPrepOrSub b := by
  have := heads_eq L b qs h
  cases qs with
  | nil => simp [doImplicitMeasure, ← this]
  | cons q qs' => simp [doImplicitMeasure, ← this]

/-! ## The header -/

theorem toRegObjs_names {L : List LetObj} :
    ∀ (rs : List RegDecl) (os : List RegObj), toRegObjs L rs = .ok os → os.map (·.name) = rs.map (·.name)
  | [], os, h => by
    simp only [toRegObjs, Except.ok.injEq] at h
    subst h; rfl
  | r :: rest, os, h => by
    simp only [toRegObjs, bind, Except.bind] at h
    split at h
    · cases h
    · split at h
      · cases h
      · rename_i os' hos'
        simp only [pure, Except.pure, Except.ok.injEq] at h
        subst h
        simp [toRegObjs_names rest os' hos']

theorem zipWith_letSx : ∀ (ln : List String) (ls : List LetDecl),
    List.zipWith letSx ln (letObjs ls) = List.zipWith declLetSx ln ls
  | [], _ => by simp
  | _ :: _, [] => by simp [letObjs]
  | n :: ns, l :: ls => by
    have := zipWith_letSx ns ls
    simp only [letObjs] at this
    simp [letObjs, this, letSx, declLetSx]

theorem regsSx_eq {L : List LetObj} {ln : List String} :
    ∀ (rn : List String) (rs : List RegDecl) (os : List RegObj), toRegObjs L rs = .ok os →
      regsSx ln rn os = declRegsSx ln rn rs
  | rn, [], os, h => by
    simp only [toRegObjs, Except.ok.injEq] at h
    subst h
    cases rn <;> simp [regsSx, declRegsSx]
  | [], r :: rest, os, h => by simp [regsSx, declRegsSx]
  | n :: ns, r :: rest, os, h => by
    simp only [toRegObjs, bind, Except.bind] at h
    split at h
    · cases h
    · rename_i sz hsz
      split at h
      · cases h
      · rename_i os' hos'
        simp only [pure, Except.pure, Except.ok.injEq] at h
        subst h
        simp only [regsSx, declRegsSx, regSx, validateInt_lookup hsz, regsSx_eq ns rest os' hos']
        cases countSx ln r.size <;> rfl

theorem genStmts_append (a : Sx) (ln rn : List String) :
    ∀ (b1 b2 : List Stmt), genStmts a ln rn (b1 ++ b2) = (do
      let x ← genStmts a ln rn b1
      let y ← genStmts a ln rn b2
      pure (x ++ y))
  | [], b2 => by
    simp only [List.nil_append, genStmts]
    cases genStmts a ln rn b2 <;> rfl
  | s :: rest, b2 => by
    simp only [List.cons_append, genStmts, genStmts_append a ln rn rest b2]
    cases genStmt a ln rn s <;> cases genStmts a ln rn rest <;> cases genStmts a ln rn b2 <;> rfl

/-! ## `circuit_from_stack` -/

theorem buildQ_prepare (ln rn : List String) (name : String) :
    buildQ ln rn (.gateCall name []) = .ok (.list [.str "gate", .str name]) := by
  simp [buildQ, pure, Except.pure, bind, Except.bind]

theorem genStmt_gate0 (a : Sx) (ln rn : List String) (name : String) :
    genStmt a ln rn (.gate name []) = .ok (.list [.str "gate", .str name]) := by
  simp [genStmt, pure, Except.pure, bind, Except.bind]

/-- What `circuit_from_stack` returns for the stack a program leaves behind is the lowering (absent
count ↦ `1`) of the program, wrapped iff `wraps p`. -/
theorem circuitFromStack_gen (p : Prog) {os : List RegObj} {qs : List QStmt} {s : Sx}
    (hos : toRegObjs (letObjs p.lets) p.regs = .ok os) (hqs : toQs (letObjs p.lets) p.body = .ok qs)
    (h : circuitFromStack ⟨[qs], letObjs p.lets, os⟩ = .ok s) :
    genProg (.int 1) (if wraps p then wrap p else p) = .ok s := by
  have hln : (letObjs p.lets).map (·.name) = p.letNames := by
    simp [letObjs, Prog.letNames, Function.comp_def]
  have hrn : os.map (·.name) = p.regNames := toRegObjs_names _ _ hos
  have hw : doImplicitMeasure qs = wraps p := doImplicit_eq hqs
  simp only [circuitFromStack, Stack.depth, List.length_singleton, Nat.lt_irrefl, if_false, hln, hrn,
    Stack.iterStatements, bind, Except.bind, pure, Except.pure] at h
  cases hn : namer p.letNames p.regNames with
  | error e => simp [hn] at h
  | ok names =>
    obtain ⟨ln, rn⟩ := names
    simp only [hn, zipWith_letSx, regsSx_eq rn p.regs os hos, hw] at h
    cases hr : declRegsSx ln rn p.regs with
    | error e => simp [hr] at h
    | ok regs =>
      simp only [hr] at h
      cases hwp : wraps p with
      | false =>
        simp only [hwp, Bool.false_eq_true, if_false] at h ⊢
        cases hb : buildTop ln rn qs with
        | error e => simp [hb] at h
        | ok body =>
          simp only [hb, Except.ok.injEq, List.append_nil] at h
          have hg := buildTop_gen p.body qs body hqs hb
          subst h
          simp [genProg, hn, hr, hg, bind, Except.bind, pure, Except.pure]
      | true =>
        simp only [hwp, if_true, buildQ_prepare] at h ⊢
        cases hb : buildTop ln rn qs with
        | error e => simp [hb] at h
        | ok body =>
          simp only [hb, Except.ok.injEq] at h
          have hg := buildTop_gen p.body qs body hqs hb
          have hwl : (wrap p).letNames = p.letNames := rfl
          have hwr : (wrap p).regNames = p.regNames := rfl
          have hbody : genStmts (.int 1) ln rn (wrap p).body
              = .ok (.list [.str "gate", .str prepareName] :: (body ++ [.list [.str "gate", .str measureName]])) := by
            simp only [wrap, genStmts, genStmt_gate0, genStmts_append, hg, bind, Except.bind, pure, Except.pure]
          simp only [genProg, hwl, hwr, hn, hbody, bind, Except.bind, pure, Except.pure]
          simp only [wrap, hr]
          rw [← h]
          simp

/-- Everything `lowerQ` returns is the lowering with `1` for an absent count, of the program wrapped iff
`wraps p`. -/
theorem lowerQ_gen (p : Prog) {s : Sx} (h : lowerQ p = .ok s) :
    genProg (.int 1) (if wraps p then wrap p else p) = .ok s := by
  simp only [lowerQ, runQ_eq, bind, Except.bind] at h
  cases hos : toRegObjs (letObjs p.lets) p.regs with
  | error e => simp [hos] at h
  | ok os =>
    cases hqs : toQs (letObjs p.lets) p.body with
    | error e => simp [hos, hqs] at h
    | ok qs =>
      simp only [hos, hqs, pure, Except.pure] at h
      exact circuitFromStack_gen p hos hqs h

/-! ## When Q-syntax gets as far as `build` -/

/-- `validate_int` passes: a literal, or an existing let with an integral value. -/
def Count.intOK (lets : List LetDecl) : Count → Bool
  | .lit _ => true
  | .ref i => match lets[i]? with
    | some l => numIsInt l.value
    | none => false

def Arg.intOK (lets : List LetDecl) : Arg → Bool
  | .qubit _ idx => idx.intOK lets
  | _ => true

def Stmt.isSub : Stmt → Bool
  | .sub _ _ => true
  | _ => false

def BlockCls.isSub : BlockCls → Bool
  | .sub => true
  | _ => false

mutual
/-- Every qubit index passes `validate_int`. -/
def Stmt.idxOK (lets : List LetDecl) : Stmt → Bool
  | .gate _ args => args.all (Arg.intOK lets)
  | .seq b => idxOKs lets b
  | .par b => idxOKs lets b
  | .loop _ b => idxOKs lets b
  | .sub _ b => idxOKs lets b
def idxOKs (lets : List LetDecl) : List Stmt → Bool
  | [] => true
  | s :: r => s.idxOK lets && idxOKs lets r
end

mutual
/-- No subcircuit DIRECTLY inside a subcircuit (`QSubcircuitBlock._validate_inner_block`). -/
def Stmt.innerOK : Stmt → Bool
  | .gate _ _ => true
  | .seq b => innerOKs false b
  | .par b => innerOKs false b
  | .loop _ b => innerOKs false b
  | .sub _ b => innerOKs true b
def innerOKs (parentSub : Bool) : List Stmt → Bool
  | [] => true
  | s :: r => !(parentSub && s.isSub) && s.innerOK && innerOKs parentSub r
end

/-- Q-syntax raises nothing before it calls `build`. -/
def Prog.qOK (p : Prog) : Bool :=
  p.regs.all (fun r => r.size.intOK p.lets) && idxOKs p.lets p.body && innerOKs false p.body

theorem mapM_ok_iff {α β} (f : α → M β) : ∀ l : List α,
    (∃ bs, l.mapM f = .ok bs) ↔ ∀ a ∈ l, ∃ b, f a = .ok b
  | [] => by simp [pure, Except.pure]
  | a :: l => by
    have ih := mapM_ok_iff f l
    simp only [List.mapM_cons, List.mem_cons, forall_eq_or_imp, ← ih, bind, Except.bind]
    cases f a with
    | error e => simp
    | ok b =>
      cases l.mapM f with
      | error e => simp
      | ok bs => simp [pure, Except.pure]

theorem validateInt_ok_iff (lets : List LetDecl) (c : Count) :
    (∃ a, validateInt (letObjs lets) c = .ok a) ↔ c.intOK lets = true := by
  cases c with
  | lit n => simp [validateInt, Count.intOK]
  | ref i =>
    simp only [validateInt, Count.intOK, letObjs, List.getElem?_map]
    cases lets[i]? with
    | none => simp
    | some l => cases h : numIsInt l.value <;> simp [h]

theorem mkArg_ok_iff (lets : List LetDecl) (x : Arg) :
    (∃ v, mkArg (letObjs lets) x = .ok v) ↔ x.intOK lets = true := by
  cases x with
  | num n => simp [mkArg, Arg.intOK]
  | ref i => simp [mkArg, Arg.intOK]
  | reg r => simp [mkArg, Arg.intOK]
  | qubit r idx =>
    simp only [mkArg, Arg.intOK, ← validateInt_ok_iff, bind, Except.bind]
    cases validateInt (letObjs lets) idx <;> simp [pure, Except.pure]

theorem toRegObjs_ok_iff (lets : List LetDecl) : ∀ rs : List RegDecl,
    (∃ os, toRegObjs (letObjs lets) rs = .ok os) ↔ rs.all (fun r => r.size.intOK lets) = true
  | [] => by simp [toRegObjs]
  | r :: rest => by
    have ih := toRegObjs_ok_iff lets rest
    simp only [toRegObjs, List.all_cons, Bool.and_eq_true, ← ih, ← validateInt_ok_iff, bind, Except.bind]
    cases validateInt (letObjs lets) r.size with
    | error e => simp
    | ok sz =>
      cases toRegObjs (letObjs lets) rest with
      | error e => simp
      | ok os => simp [pure, Except.pure]

mutual
theorem toQ_ok_iff (lets : List LetDecl) : ∀ s : Stmt,
    (∃ q, toQ (letObjs lets) s = .ok q) ↔ s.idxOK lets = true
  | .gate n args => by
    have := mapM_ok_iff (mkArg (letObjs lets)) args
    simp only [mkArg_ok_iff] at this
    simp only [toQ, Stmt.idxOK, List.all_eq_true, ← this, bind, Except.bind]
    cases args.mapM (mkArg (letObjs lets)) <;> simp [pure, Except.pure]
  | .seq b => by
    simp only [toQ, Stmt.idxOK, ← toQs_ok_iff lets b, bind, Except.bind]
    cases toQs (letObjs lets) b <;> simp [pure, Except.pure]
  | .par b => by
    simp only [toQ, Stmt.idxOK, ← toQs_ok_iff lets b, bind, Except.bind]
    cases toQs (letObjs lets) b <;> simp [pure, Except.pure]
  | .loop c b => by
    simp only [toQ, Stmt.idxOK, ← toQs_ok_iff lets b, bind, Except.bind]
    cases toQs (letObjs lets) b <;> simp [pure, Except.pure]
  | .sub c b => by
    simp only [toQ, Stmt.idxOK, ← toQs_ok_iff lets b, bind, Except.bind]
    cases toQs (letObjs lets) b <;> simp [pure, Except.pure]
theorem toQs_ok_iff (lets : List LetDecl) : ∀ b : List Stmt,
    (∃ qs, toQs (letObjs lets) b = .ok qs) ↔ idxOKs lets b = true
  | [] => by simp [toQs, idxOKs]
  | s :: rest => by
    simp only [toQs, idxOKs, Bool.and_eq_true, ← toQ_ok_iff lets s, ← toQs_ok_iff lets rest, bind, Except.bind]
    cases toQ (letObjs lets) s with
    | error e => simp
    | ok q =>
      cases toQs (letObjs lets) rest with
      | error e => simp
      | ok qs => simp [pure, Except.pure]
end

theorem toQ_validInner {L : List LetObj} {s : Stmt} {q : QStmt} (h : toQ L s = .ok q) (cls : BlockCls) :
    validInner cls q = !(cls.isSub && s.isSub) := by
  cases s with
  | gate n args =>
    simp only [toQ, bind, Except.bind] at h
    split at h
    · cases h
    · simp only [pure, Except.pure, Except.ok.injEq] at h
      subst h
      cases cls <;> rfl
  | seq b => obtain ⟨qs, _, rfl⟩ := toQ_block (by simpa only [toQ] using h); cases cls <;> rfl
  | par b => obtain ⟨qs, _, rfl⟩ := toQ_block (by simpa only [toQ] using h); cases cls <;> rfl
  | loop c b => obtain ⟨qs, _, rfl⟩ := toQ_block (by simpa only [toQ] using h); cases cls <;> rfl
  | sub c b => obtain ⟨qs, _, rfl⟩ := toQ_block (by simpa only [toQ] using h); cases cls <;> rfl

theorem buildQs_seq (ln rn : List String) : ∀ qs : List QStmt, buildQs ln rn .seq qs = buildTop ln rn qs
  | [] => by simp [buildQs, buildTop]
  | q :: qs => by
    have hv : validInner .seq q = true := by cases q <;> rfl
    simp only [buildQs, buildTop, hv, Bool.not_true, Bool.false_eq_true, if_false, buildQs_seq ln rn qs]

/-- If `build` of the Q objects succeeds there is no subcircuit directly in a subcircuit … -/
theorem buildQ_innerOK_aux {ln rn : List String} {cls : BlockCls} {arg : QVal}
    {qs : List QStmt} {x : Sx} (hx : buildQ ln rn (.block cls arg qs) = .ok x) :
    ∃ xs, buildQs ln rn cls qs = .ok xs := by
  simp only [buildQ, bind, Except.bind] at hx
  split at hx
  · cases hx
  · cases h : buildQs ln rn cls qs with
    | error e => simp [h] at hx
    | ok xs => exact ⟨xs, rfl⟩

mutual
theorem buildQ_innerOK {L : List LetObj} {ln rn : List String} :
    ∀ (s : Stmt) (q : QStmt) (x : Sx), toQ L s = .ok q → buildQ ln rn q = .ok x → s.innerOK = true
  | .gate _ _, _, _, _, _ => by simp [Stmt.innerOK]
  | .seq b, q, x, hq, hx => by
    obtain ⟨qs, hqs, rfl⟩ := toQ_block (by simpa only [toQ] using hq)
    obtain ⟨xs, hxs⟩ := buildQ_innerOK_aux hx
    simpa [Stmt.innerOK, BlockCls.isSub] using buildQs_innerOK b qs .seq xs hqs hxs
  | .par b, q, x, hq, hx => by
    obtain ⟨qs, hqs, rfl⟩ := toQ_block (by simpa only [toQ] using hq)
    obtain ⟨xs, hxs⟩ := buildQ_innerOK_aux hx
    simpa [Stmt.innerOK, BlockCls.isSub] using buildQs_innerOK b qs .par xs hqs hxs
  | .loop c b, q, x, hq, hx => by
    obtain ⟨qs, hqs, rfl⟩ := toQ_block (by simpa only [toQ] using hq)
    obtain ⟨xs, hxs⟩ := buildQ_innerOK_aux hx
    simpa [Stmt.innerOK, BlockCls.isSub] using buildQs_innerOK b qs .loop xs hqs hxs
  | .sub c b, q, x, hq, hx => by
    obtain ⟨qs, hqs, rfl⟩ := toQ_block (by simpa only [toQ] using hq)
    obtain ⟨xs, hxs⟩ := buildQ_innerOK_aux hx
    simpa [Stmt.innerOK, BlockCls.isSub] using buildQs_innerOK b qs .sub xs hqs hxs
theorem buildQs_innerOK {L : List LetObj} {ln rn : List String} :
    ∀ (b : List Stmt) (qs : List QStmt) (cls : BlockCls) (xs : List Sx), toQs L b = .ok qs →
      buildQs ln rn cls qs = .ok xs → innerOKs cls.isSub b = true
  | [], _, _, _, _, _ => by simp [innerOKs]
  | s :: rest, qs, cls, xs, hq, hx => by
    obtain ⟨q, qs', hq1, hqs', rfl⟩ := toQs_cons hq
    simp only [buildQs, toQ_validInner hq1 cls, bind, Except.bind] at hx
    split at hx
    · cases hx
    · rename_i hv
      split at hx
      · cases hx
      · rename_i x hx1
        split at hx
        · cases hx
        · rename_i xs' hxs'
          simp only [innerOKs, Bool.and_eq_true]
          refine ⟨⟨?_, buildQ_innerOK s q x hq1 hx1⟩, buildQs_innerOK rest qs' cls xs' hqs' hxs'⟩
          cases hc : (cls.isSub && s.isSub) <;> simp [hc] at hv ⊢
end

mutual
/-- … and conversely then `build` of the Q objects is the lowering with `1` for an absent count. -/
theorem buildQ_eq {L : List LetObj} {ln rn : List String} :
    ∀ (s : Stmt) (q : QStmt), toQ L s = .ok q → s.innerOK = true →
      buildQ ln rn q = genStmt (.int 1) ln rn s
  | .gate name args, q, hq, _ => by
    simp only [toQ, bind, Except.bind] at hq
    split at hq
    · cases hq
    · rename_i vs hvs
      simp only [pure, Except.pure, Except.ok.injEq] at hq
      subst hq
      simp only [buildQ, mapM_mkArg_lookup args vs hvs, genStmt]
  | .seq b, q, hq, hi => by
    obtain ⟨qs, hqs, rfl⟩ := toQ_block (by simpa only [toQ] using hq)
    have hb := buildQs_eq (ln := ln) (rn := rn) b qs .seq hqs (by simpa [Stmt.innerOK, BlockCls.isSub] using hi)
    simp only [buildQ, blockHeader_seq, BlockCls.wrapStatements, BlockCls.internalName, genStmt, hb]
    cases genStmts (.int 1) ln rn b <;> rfl
  | .par b, q, hq, hi => by
    obtain ⟨qs, hqs, rfl⟩ := toQ_block (by simpa only [toQ] using hq)
    have hb := buildQs_eq (ln := ln) (rn := rn) b qs .par hqs (by simpa [Stmt.innerOK, BlockCls.isSub] using hi)
    simp only [buildQ, blockHeader_par, BlockCls.wrapStatements, BlockCls.internalName, genStmt, hb]
    cases genStmts (.int 1) ln rn b <;> rfl
  | .loop c b, q, hq, hi => by
    obtain ⟨qs, hqs, rfl⟩ := toQ_block (by simpa only [toQ] using hq)
    have hb := buildQs_eq (ln := ln) (rn := rn) b qs .loop hqs (by simpa [Stmt.innerOK, BlockCls.isSub] using hi)
    simp only [buildQ, blockHeader_loop, BlockCls.wrapStatements, BlockCls.internalName, genStmt, hb]
    cases countSx ln c <;> cases genStmts (.int 1) ln rn b <;> rfl
  | .sub c b, q, hq, hi => by
    obtain ⟨qs, hqs, rfl⟩ := toQ_block (by simpa only [toQ] using hq)
    have hb := buildQs_eq (ln := ln) (rn := rn) b qs .sub hqs (by simpa [Stmt.innerOK, BlockCls.isSub] using hi)
    simp only [buildQ, blockHeader_sub, BlockCls.wrapStatements, BlockCls.internalName, genStmt, hb]
    cases genSubCount (.int 1) ln c <;> cases genStmts (.int 1) ln rn b <;> rfl
theorem buildQs_eq {L : List LetObj} {ln rn : List String} :
    ∀ (b : List Stmt) (qs : List QStmt) (cls : BlockCls), toQs L b = .ok qs →
      innerOKs cls.isSub b = true → buildQs ln rn cls qs = genStmts (.int 1) ln rn b
  | [], qs, cls, hq, _ => by
    simp only [toQs, Except.ok.injEq] at hq
    subst hq
    simp [buildQs, genStmts]
  | s :: rest, qs, cls, hq, hi => by
    obtain ⟨q, qs', hq1, hqs', rfl⟩ := toQs_cons hq
    simp only [innerOKs, Bool.and_eq_true] at hi
    obtain ⟨⟨h1, h2⟩, h3⟩ := hi
    simp only [buildQs, toQ_validInner hq1 cls, h1, Bool.not_true, Bool.false_eq_true, if_false,
      buildQ_eq s q hq1 h2, buildQs_eq rest qs' cls hqs' h3, genStmts]
end

theorem nameAt_ok {names : List String} {i : Nat} (h : i < names.length) : ∃ n, nameAt names i = .ok n := by
  simp [nameAt, List.getElem?_eq_getElem h]

theorem countSx_ok {ln : List String} {c : Count} (h : c.wf ln.length = true) : ∃ x, countSx ln c = .ok x := by
  cases c with
  | lit n => exact ⟨_, rfl⟩
  | ref i =>
    obtain ⟨n, hn⟩ := nameAt_ok (names := ln) (i := i) (by simpa [Count.wf] using h)
    simp [countSx, hn, bind, Except.bind, pure, Except.pure]

theorem argSx_ok {ln rn : List String} {a : Arg} (h : a.wf ln.length rn.length = true) :
    ∃ x, argSx ln rn a = .ok x := by
  cases a with
  | num v => exact ⟨_, rfl⟩
  | ref i =>
    obtain ⟨n, hn⟩ := nameAt_ok (names := ln) (i := i) (by simpa [Arg.wf] using h)
    simp [argSx, hn, bind, Except.bind, pure, Except.pure]
  | reg r =>
    obtain ⟨n, hn⟩ := nameAt_ok (names := rn) (i := r) (by simpa [Arg.wf] using h)
    simp [argSx, hn, bind, Except.bind, pure, Except.pure]
  | qubit r idx =>
    simp only [Arg.wf, Bool.and_eq_true, decide_eq_true_eq] at h
    obtain ⟨n, hn⟩ := nameAt_ok (names := rn) (i := r) h.1
    obtain ⟨x, hx⟩ := countSx_ok h.2
    simp [argSx, hn, hx, bind, Except.bind, pure, Except.pure]

mutual
theorem genStmt_ok (a : Sx) {ln rn : List String} :
    ∀ s : Stmt, s.wf ln.length rn.length = true → ∃ x, genStmt a ln rn s = .ok x
  | .gate n args, h => by
    have : ∃ xs, args.mapM (argSx ln rn) = .ok xs := by
      rw [mapM_ok_iff]
      intro x hx
      exact argSx_ok (by simpa [Stmt.wf] using (List.all_eq_true.1 (by simpa [Stmt.wf] using h)) x hx)
    obtain ⟨xs, hxs⟩ := this
    simp [genStmt, hxs, bind, Except.bind, pure, Except.pure]
  | .seq b, h => by
    obtain ⟨xs, hxs⟩ := genStmts_ok a b (by simpa [Stmt.wf] using h)
    simp [genStmt, hxs, bind, Except.bind, pure, Except.pure]
  | .par b, h => by
    obtain ⟨xs, hxs⟩ := genStmts_ok a b (by simpa [Stmt.wf] using h)
    simp [genStmt, hxs, bind, Except.bind, pure, Except.pure]
  | .loop c b, h => by
    simp only [Stmt.wf, Bool.and_eq_true] at h
    obtain ⟨n, hn⟩ := countSx_ok h.1
    obtain ⟨xs, hxs⟩ := genStmts_ok a b h.2
    simp [genStmt, hn, hxs, bind, Except.bind, pure, Except.pure]
  | .sub c b, h => by
    simp only [Stmt.wf, Bool.and_eq_true] at h
    have : ∃ n, genSubCount a ln c = .ok n := by
      cases c with
      | absent => exact ⟨a, rfl⟩
      | given c => exact countSx_ok (by simpa [SubCount.wf] using h.1)
    obtain ⟨n, hn⟩ := this
    obtain ⟨xs, hxs⟩ := genStmts_ok a b h.2
    simp [genStmt, hn, hxs, bind, Except.bind, pure, Except.pure]
theorem genStmts_ok (a : Sx) {ln rn : List String} :
    ∀ b : List Stmt, wfs ln.length rn.length b = true → ∃ xs, genStmts a ln rn b = .ok xs
  | [], _ => ⟨[], rfl⟩
  | s :: rest, h => by
    simp only [wfs, Bool.and_eq_true] at h
    obtain ⟨x, hx⟩ := genStmt_ok a s h.1
    obtain ⟨xs, hxs⟩ := genStmts_ok a rest h.2
    simp [genStmts, hx, hxs, bind, Except.bind, pure, Except.pure]
end

theorem declRegsSx_ok {ln : List String} : ∀ (rn : List String) (rs : List RegDecl),
    rs.all (fun r => r.size.wf ln.length) = true → ∃ xs, declRegsSx ln rn rs = .ok xs
  | [], _, _ => ⟨[], by simp [declRegsSx]⟩
  | _ :: _, [], _ => ⟨[], by simp [declRegsSx]⟩
  | n :: ns, r :: rs, h => by
    simp only [List.all_cons, Bool.and_eq_true] at h
    obtain ⟨sz, hsz⟩ := countSx_ok h.1
    obtain ⟨xs, hxs⟩ := declRegsSx_ok ns rs h.2
    simp [declRegsSx, hsz, hxs, bind, Except.bind, pure, Except.pure]

theorem circuitFromStack_eq (p : Prog) {os : List RegObj} {qs : List QStmt}
    (hos : toRegObjs (letObjs p.lets) p.regs = .ok os) :
    circuitFromStack ⟨[qs], letObjs p.lets, os⟩ = (do
      let (ln, rn) ← namer p.letNames p.regNames
      let regs ← declRegsSx ln rn p.regs
      let body ← buildTop ln rn qs
      pure (.list (.str "circuit" :: (List.zipWith declLetSx ln p.lets ++ regs
        ++ (if doImplicitMeasure qs then [.list [.str "gate", .str prepareName]] else []) ++ body
        ++ (if doImplicitMeasure qs then [.list [.str "gate", .str measureName]] else []))))) := by
  have hln : (letObjs p.lets).map (·.name) = p.letNames := by
    simp [letObjs, Prog.letNames, Function.comp_def]
  have hrn : os.map (·.name) = p.regNames := toRegObjs_names _ _ hos
  simp only [circuitFromStack, Stack.depth, List.length_singleton, Nat.lt_irrefl, if_false, hln, hrn,
    Stack.iterStatements, bind, Except.bind, pure, Except.pure]
  cases hn : namer p.letNames p.regNames with
  | error e => rfl
  | ok names =>
    obtain ⟨ln, rn⟩ := names
    simp only [zipWith_letSx, regsSx_eq rn p.regs os hos]
    cases declRegsSx ln rn p.regs with
    | error e => rfl
    | ok regs =>
      cases doImplicitMeasure qs with
      | false =>
        simp only [Bool.false_eq_true, if_false]
      | true =>
        simp only [if_true, buildQ_prepare]

/-- With all references in range, Q-syntax reaches `build` exactly when `validate_int` passes for every
register size and qubit index and no subcircuit stands directly in a subcircuit. -/
theorem lowerQ_ok_iff (p : Prog) (hwf : p.wf = true) : (∃ s, lowerQ p = .ok s) ↔ p.qOK = true := by
  simp only [Prog.wf, Bool.and_eq_true] at hwf
  obtain ⟨hwr, hwb⟩ := hwf
  simp only [Prog.qOK, Bool.and_eq_true, ← toRegObjs_ok_iff, ← toQs_ok_iff]
  constructor
  · rintro ⟨s, h⟩
    simp only [lowerQ, runQ_eq, bind, Except.bind] at h
    cases hos : toRegObjs (letObjs p.lets) p.regs with
    | error e => simp [hos] at h
    | ok os =>
      cases hqs : toQs (letObjs p.lets) p.body with
      | error e => simp [hos, hqs] at h
      | ok qs =>
        simp only [hos, hqs, pure, Except.pure, circuitFromStack_eq p hos, bind, Except.bind] at h
        refine ⟨⟨⟨os, rfl⟩, ⟨qs, rfl⟩⟩, ?_⟩
        cases hn : namer p.letNames p.regNames with
        | error e => simp [hn] at h
        | ok names =>
          obtain ⟨ln, rn⟩ := names
          simp only [hn] at h
          cases hr : declRegsSx ln rn p.regs with
          | error e => simp [hr] at h
          | ok regs =>
            simp only [hr] at h
            cases hb : buildTop ln rn qs with
            | error e => simp [hb] at h
            | ok body =>
              rw [← buildQs_seq] at hb
              exact buildQs_innerOK p.body qs .seq body hqs hb
  · rintro ⟨⟨⟨os, hos⟩, ⟨qs, hqs⟩⟩, hi⟩
    obtain ⟨⟨ln, rn⟩, hn⟩ := namer_total p.letNames p.regNames
    obtain ⟨h1, h2⟩ := namer_ok hn
    obtain ⟨l1, _⟩ := nameAll_spec _ _ _ h1
    obtain ⟨l2, _⟩ := nameAll_spec _ _ _ h2
    have hl1 : ln.length = p.lets.length := by simpa [Prog.letNames] using l1
    have hl2 : rn.length = p.regs.length := by simpa [Prog.regNames] using l2
    obtain ⟨regs, hr⟩ := declRegsSx_ok (ln := ln) rn p.regs (by rw [hl1]; exact hwr)
    have hb : buildTop ln rn qs = genStmts (.int 1) ln rn p.body := by
      rw [← buildQs_seq]
      exact buildQs_eq p.body qs .seq hqs hi
    obtain ⟨body, hbody⟩ := genStmts_ok (.int 1) (ln := ln) (rn := rn) p.body (by rw [hl1, hl2]; exact hwb)
    simp [lowerQ, runQ_eq, hos, hqs, bind, Except.bind, pure, Except.pure, circuitFromStack_eq p hos, hn, hr,
      hb, hbody]

end Jaqal.FrontEnds
