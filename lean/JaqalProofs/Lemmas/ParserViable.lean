import JaqalProofs.Lemmas.ParserComplete
import JaqalProofs.Lemmas.ParserErrPos
/-!
Anatomy of the parser model's syntax errors: when a parsing function fails, the input splits into the part
it has worked through (`c`) and the rest (`la`, whose first token is the one reported, or which is empty for
an end-of-input error) such that

* the same failure happens on every input that agrees with this one up to and including the first token of
  `la` (the decision does not depend on anything further on), and
* `c` can be completed to a phrase of the grammar.

Together with completeness this gives: a syntax error is reported at the first token at which the input
stops being a viable prefix of the (context-free) grammar.
-/
namespace Jaqal.Parser
open Jaqal.Lexer Jaqal.Grammar

/-- Both lists are empty, or they begin with the same token. -/
def SameHead : List PTok → List PTok → Prop
  | [], [] => True
  | p :: _, q :: _ => p = q
  | _, _ => False

theorem SameHead.refl (l : List PTok) : SameHead l l := by
  cases l <;> simp [SameHead]

theorem SameHead.synErr_eq {la la' : List PTok} (h : SameHead la la') : synErr la' = synErr la := by
  cases la <;> cases la' <;> simp_all [SameHead, Parser.synErr]

theorem SameHead.cons_inv {p : PTok} {r la' : List PTok} (h : SameHead (p :: r) la') : ∃ r', la' = p :: r' := by
  cases la' with
  | nil => simp [SameHead] at h
  | cons q r' => simp only [SameHead] at h; exact ⟨r', by rw [h]⟩

theorem SameHead.nil_inv {la' : List PTok} (h : SameHead [] la') : la' = [] := by
  cases la' with
  | nil => rfl
  | cons q r' => simp [SameHead] at h

/-- `SameHead` for the rest of a larger prefix. -/
theorem SameHead.append {la la' : List PTok} (h : SameHead la la') (c : List PTok) :
    SameHead (c ++ la) (c ++ la') := by
  cases c with
  | nil => exact h
  | cons p c => simp [SameHead]

/-- A syntax error (as opposed to an action error or the recursion bound). -/
def IsSyn : ParseErr → Prop
  | .syntaxAt _ _ => True
  | .syntaxEOF => True
  | _ => False

theorem isSyn_synErr (la : List PTok) : IsSyn (synErr la) := by cases la <;> simp [synErr, IsSyn]

/-! ## The token-level pieces fail at their first token -/

theorem pLetOrInt_stuck {ts e} (h : pLetOrInt ts = .error e) :
    e = synErr ts ∧ ∀ ts', SameHead ts ts' → pLetOrInt ts' = .error (synErr ts') := by
  unfold pLetOrInt at h
  split at h
  · cases h
    exact ⟨rfl, fun ts' hs => by rw [hs.nil_inv]; rfl⟩
  · rename_i p r
    split at h <;> cases h
    rename_i h1 h2
    refine ⟨rfl, fun ts' hs => ?_⟩
    obtain ⟨r', rfl⟩ := hs.cons_inv
    simp only [pLetOrInt]
    rfl

theorem pLetOrInt_succ {ts x rest} (h : pLetOrInt ts = .ok (x, rest)) :
    ∃ p, ts = p :: rest ∧ ∀ rest', pLetOrInt (p :: rest') = .ok (x, rest') := by
  unfold pLetOrInt at h
  split at h
  · cases h
  · rename_i p r
    split at h <;> cases h
    · rename_i s hs; exact ⟨p, rfl, fun rest' => by simp [pLetOrInt, hs]⟩
    · rename_i v hv; exact ⟨p, rfl, fun rest' => by simp [pLetOrInt, hv]⟩

theorem expect_stuck {t ts e} (h : expect t ts = .error e) :
    e = synErr ts ∧ ∀ ts', SameHead ts ts' → expect t ts' = .error (synErr ts') := by
  unfold expect at h
  split at h
  · cases h
    exact ⟨rfl, fun ts' hs => by rw [hs.nil_inv]; rfl⟩
  · rename_i p r
    split at h <;> cases h
    rename_i hp
    refine ⟨rfl, fun ts' hs => ?_⟩
    obtain ⟨r', rfl⟩ := hs.cons_inv
    simp [expect, hp, synErr]

theorem expect_succ {t ts rest} (h : expect t ts = .ok rest) :
    ∃ p, ts = p :: rest ∧ p.tok = t ∧ ∀ rest', expect t (p :: rest') = .ok rest' := by
  obtain ⟨p, rfl, hp⟩ := expect_sound h
  exact ⟨p, rfl, hp, fun rest' => by simp [expect, hp]⟩

theorem pIdent_stuck {ts e} (h : pIdent ts = .error e) :
    e = synErr ts ∧ ∀ ts', SameHead ts ts' → pIdent ts' = .error (synErr ts') := by
  unfold pIdent at h
  split at h
  · cases h
    exact ⟨rfl, fun ts' hs => by rw [hs.nil_inv]; rfl⟩
  · rename_i p r
    split at h <;> cases h
    rename_i h1
    refine ⟨rfl, fun ts' hs => ?_⟩
    obtain ⟨r', rfl⟩ := hs.cons_inv
    simp only [pIdent]
    rfl

theorem pIdent_succ {ts s rest} (h : pIdent ts = .ok (s, rest)) :
    ∃ p, ts = p :: rest ∧ p.tok = .IDENTIFIER s ∧ ∀ rest', pIdent (p :: rest') = .ok (s, rest') := by
  obtain ⟨p, rfl, hp⟩ := pIdent_sound h
  exact ⟨p, rfl, hp, fun rest' => by simp [pIdent, hp]⟩

theorem pGateArgs_succ (ts : List PTok) : ∀ {as rest}, pGateArgs ts = .ok (as, rest) →
    ∃ c, ts = c ++ rest ∧ ∀ rest', SameHead rest rest' → pGateArgs (c ++ rest') = .ok (as, rest') := by
  fun_induction pGateArgs ts <;> intro as rest h <;> cases h
  case case1 =>
    exact ⟨[], rfl, fun rest' hs => by rw [hs.nil_inv]; rfl⟩
  case case2 p a ha =>
    exact ⟨[p], rfl, fun rest' hs => by rw [hs.nil_inv]; simp [pGateArgs, ha]⟩
  case case5 p a ha q hq i s hi c tail hc as' rest' hrec ih =>
    obtain ⟨c', rfl, hc'⟩ := ih hrec
    exact ⟨p :: q :: i :: c :: c', rfl, fun r' hs => by
      simp only [List.cons_append, pGateArgs, ha, hq, hi, hc, if_true, hc' r' hs]⟩
  case case9 p a ha q hq i v hi c tail hc as' rest' hrec ih =>
    obtain ⟨c', rfl, hc'⟩ := ih hrec
    exact ⟨p :: q :: i :: c :: c', rfl, fun r' hs => by
      simp only [List.cons_append, pGateArgs, ha, hq, hi, hc, if_true, hc' r' hs]⟩
  case case13 p a ha q tail hq as' rest' hrec ih =>
    obtain ⟨c', hc1, hc'⟩ := ih hrec
    refine ⟨p :: c', by rw [hc1]; rfl, fun r' hs => ?_⟩
    have h2 := hc' r' hs
    -- the token after `p` is still `q`
    cases hcr : c' ++ r' with
    | nil =>
      cases c' with
      | nil =>
        simp only [List.nil_append] at hc1 hcr
        subst hcr
        rw [← hc1] at hs
        simp [SameHead] at hs
      | cons d c' => simp at hcr
    | cons q' rr =>
      have hq' : q' = q := by
        cases c' with
        | nil =>
          simp only [List.nil_append] at hc1 hcr
          rw [← hc1, hcr] at hs
          simp only [SameHead] at hs
          exact hs.symm
        | cons d c' =>
          simp only [List.cons_append, List.cons.injEq] at hc1 hcr
          rw [← hcr.1, hc1.1]
      subst hq'
      rw [hcr] at h2
      simp only [List.cons_append, hcr, pGateArgs, ha, hq, if_false, h2]
  case case15 p tail d hd as' rest' hrec ih =>
    obtain ⟨c', rfl, hc'⟩ := ih hrec
    exact ⟨p :: c', rfl, fun r' hs => by simp only [List.cons_append, pGateArgs, hd, hc' r' hs]⟩
  case case17 p tail v hv as' rest' hrec ih =>
    obtain ⟨c', rfl, hc'⟩ := ih hrec
    exact ⟨p :: c', rfl, fun r' hs => by simp only [List.cons_append, pGateArgs, hv, hc' r' hs]⟩
  case case19 p tail h1 h2 h3 =>
    refine ⟨[], rfl, fun r' hs => ?_⟩
    obtain ⟨r'', rfl⟩ := hs.cons_inv
    simp only [List.nil_append]
    unfold pGateArgs
    split
    · rename_i a ha; exact absurd ha (h1 a)
    · rename_i d hd; exact absurd hd (h2 d)
    · rename_i v hv; exact absurd hv (h3 v)
    · rfl


/-- What the anatomy of a failure of `pGateArgs` looks like. -/
def GateArgsStuck (ts : List PTok) (e : ParseErr) : Prop :=
  ∃ c la, ts = c ++ la ∧ e = synErr la ∧
    (∀ la', SameHead la la' → pGateArgs (c ++ la') = .error (synErr la')) ∧
    ∃ w xs, GateArgs (toks c ++ w) xs

theorem gateArgs_single {a x} (h : GateArg a x) : GateArgs a [x] := by
  simpa using GateArgs.cons h .nil

/-- a failure further on, after one more argument -/
theorem GateArgsStuck.cons {tail : List PTok} {e} (h : GateArgsStuck tail e) (pre : List PTok) {x : Sx}
    (ha : GateArg (toks pre) x)
    (hrun : ∀ r, pGateArgs (pre ++ r) = match pGateArgs r with
      | .ok (as, rest) => .ok (x :: as, rest)
      | .error e => .error e) :
    GateArgsStuck (pre ++ tail) e := by
  obtain ⟨c, la, rfl, he, hA, w, xs, hB⟩ := h
  refine ⟨pre ++ c, la, by simp, he, fun la' hs => ?_, w, x :: xs, ?_⟩
  · rw [List.append_assoc, hrun, hA la' hs]
  · have := GateArgs.cons ha hB
    simpa [toks] using this

theorem pGateArgs_stuck (ts : List PTok) : ∀ {e}, pGateArgs ts = .error e → GateArgsStuck ts e := by
  fun_induction pGateArgs ts <;> intro e h <;> cases h
  case case3 p a ha q hq =>
    refine ⟨[p, q], [], rfl, rfl, fun la' hs => by rw [hs.nil_inv]; simp [pGateArgs, ha, hq, synErr],
      [.INT 0, .rbrack], [.list [.str "array_item", .str a, .int 0]], ?_⟩
    simpa [toks, ha, hq] using gateArgs_single (GateArg.itemInt a 0)
  case case4 p a ha q hq i s hi =>
    refine ⟨[p, q, i], [], rfl, rfl, fun la' hs => by rw [hs.nil_inv]; simp [pGateArgs, ha, hq, hi, synErr],
      [.rbrack], [.list [.str "array_item", .str a, .str s]], ?_⟩
    simpa [toks, ha, hq, hi] using gateArgs_single (GateArg.itemIdent a s)
  case case6 p a ha q hq i s hi c tail hc e' hrec ih =>
    have := GateArgsStuck.cons (ih hrec) [p, q, i, c] (x := sxArrayItem a (.str s))
      (by simpa [toks, ha, hq, hi, hc, sxArrayItem] using GateArg.itemIdent a s)
      (fun r => by
        simp only [List.cons_append, List.nil_append, pGateArgs, ha, hq, hi, hc, if_true]
        rcases pGateArgs r with e | ⟨as, rest⟩ <;> rfl)
    simpa using this
  case case7 p a ha q hq i s hi c tail hc =>
    refine ⟨[p, q, i], c :: tail, rfl, rfl, fun la' hs => ?_, [.rbrack],
      [.list [.str "array_item", .str a, .str s]], ?_⟩
    · obtain ⟨r', rfl⟩ := hs.cons_inv
      simp [pGateArgs, ha, hq, hi, hc, synErr]
    · simpa [toks, ha, hq, hi] using gateArgs_single (GateArg.itemIdent a s)
  case case8 p a ha q hq i v hi =>
    refine ⟨[p, q, i], [], rfl, rfl, fun la' hs => by rw [hs.nil_inv]; simp [pGateArgs, ha, hq, hi, synErr],
      [.rbrack], [.list [.str "array_item", .str a, .int v]], ?_⟩
    simpa [toks, ha, hq, hi] using gateArgs_single (GateArg.itemInt a v)
  case case10 p a ha q hq i v hi c tail hc e' hrec ih =>
    have := GateArgsStuck.cons (ih hrec) [p, q, i, c] (x := sxArrayItem a (.int v))
      (by simpa [toks, ha, hq, hi, hc, sxArrayItem] using GateArg.itemInt a v)
      (fun r => by
        simp only [List.cons_append, List.nil_append, pGateArgs, ha, hq, hi, hc, if_true]
        rcases pGateArgs r with e | ⟨as, rest⟩ <;> rfl)
    simpa using this
  case case11 p a ha q hq i v hi c tail hc =>
    refine ⟨[p, q, i], c :: tail, rfl, rfl, fun la' hs => ?_, [.rbrack],
      [.list [.str "array_item", .str a, .int v]], ?_⟩
    · obtain ⟨r', rfl⟩ := hs.cons_inv
      simp [pGateArgs, ha, hq, hi, hc, synErr]
    · simpa [toks, ha, hq, hi] using gateArgs_single (GateArg.itemInt a v)
  case case12 p a ha q hq i tail h1 h2 =>
    refine ⟨[p, q], i :: tail, rfl, rfl, fun la' hs => ?_, [.INT 0, .rbrack],
      [.list [.str "array_item", .str a, .int 0]], ?_⟩
    · obtain ⟨r', rfl⟩ := hs.cons_inv
      simp only [List.cons_append, List.nil_append, pGateArgs, ha, hq, if_true]
      rfl
    · simpa [toks, ha, hq] using gateArgs_single (GateArg.itemInt a 0)
  case case14 p a ha q tail hq e' hrec ih =>
    obtain ⟨c, la, hcl, he, hA, w, xs, hB⟩ := ih hrec
    refine ⟨p :: c, la, by rw [hcl]; rfl, he, fun la' hs => ?_, w, .str a :: xs, ?_⟩
    · have h2 := hA la' hs
      -- the token after `p` is still `q`
      have hhead : ∃ rr, c ++ la' = q :: rr := by
        cases c with
        | nil =>
          simp only [List.nil_append] at hcl ⊢
          rw [← hcl] at hs
          obtain ⟨r', rfl⟩ := hs.cons_inv
          exact ⟨r', rfl⟩
        | cons d c =>
          simp only [List.cons_append, List.cons.injEq] at hcl
          exact ⟨c ++ la', by rw [hcl.1]; rfl⟩
      obtain ⟨rr, hrr⟩ := hhead
      rw [hrr] at h2
      simp only [List.cons_append, hrr, pGateArgs, ha, hq, if_false, h2]
    · have := GateArgs.cons (GateArg.ident a) hB
      simpa [toks, ha] using this
  case case16 p tail d hd e' hrec ih =>
    have := GateArgsStuck.cons (ih hrec) [p] (x := .flt d) (by simpa [toks, hd] using GateArg.number d)
      (fun r => by
        simp only [List.cons_append, List.nil_append, pGateArgs, hd]
        rcases pGateArgs r with e | ⟨as, rest⟩ <;> rfl)
    simpa using this
  case case18 p tail v hv e' hrec ih =>
    have := GateArgsStuck.cons (ih hrec) [p] (x := .int v) (by simpa [toks, hv] using GateArg.int v)
      (fun r => by
        simp only [List.cons_append, List.nil_append, pGateArgs, hv]
        rcases pGateArgs r with e | ⟨as, rest⟩ <;> rfl)
    simpa using this


/-! ## Replaying successful block-level calls -/

theorem pSeqStmts_succ {n ts xs rest} (h : pSeqStmts n ts = .ok (xs, rest)) :
    ∃ c, ts = c ++ rest ∧ c ≠ [] ∧ Block .seqStmts (toks c.dropLast) (.list xs) ∧
      ∀ rest' n', 2 * c.length ≤ n' → pSeqStmts n' (c ++ rest') = .ok (xs, rest') := by
  obtain ⟨body, q, rfl, hq, hb⟩ := (blocks_sound n).1 _ _ _ h
  refine ⟨body ++ [q], by simp, by simp, by simpa using hb, fun rest' n' hn => ?_⟩
  obtain ⟨xs', hx, hres⟩ := block_complete hb body q rest' n' rfl hq (by
    simp only [toks_length, List.length_append, List.length_cons, List.length_nil] at hn ⊢; omega)
  cases hx
  simpa using hres

theorem pParStmts_succ {n ts xs rest} (h : pParStmts n ts = .ok (xs, rest)) :
    ∃ c, ts = c ++ rest ∧ c ≠ [] ∧ Block .parStmts (toks c.dropLast) (.list xs) ∧
      ∀ rest' n', 2 * c.length ≤ n' → pParStmts n' (c ++ rest') = .ok (xs, rest') := by
  obtain ⟨body, q, rfl, hq, hb⟩ := (blocks_sound n).2.1 _ _ _ h
  refine ⟨body ++ [q], by simp, by simp, by simpa using hb, fun rest' n' hn => ?_⟩
  obtain ⟨xs', hx, hres⟩ := block_complete hb body q rest' n' rfl hq (by
    simp only [toks_length, List.length_append, List.length_cons, List.length_nil] at hn ⊢; omega)
  cases hx
  simpa using hres

theorem pGateBlock_succ {n ts x rest} (h : pGateBlock n ts = .ok (x, rest)) :
    ∃ c, ts = c ++ rest ∧ Block .gateBlock (toks c) x ∧
      ∀ rest' n', 2 * c.length ≤ n' → pGateBlock n' (c ++ rest') = .ok (x, rest') := by
  obtain ⟨c, rfl, hb⟩ := (blocks_sound n).2.2.2.2 _ _ _ h
  exact ⟨c, rfl, hb, fun rest' n' hn => block_complete hb c rest' n' rfl (by rw [toks_length]; exact hn)⟩

theorem pCases_succ {n ts xs rest} (h : pCases n ts = .ok (xs, rest)) :
    ∃ c, ts = c ++ rest ∧ c ≠ [] ∧ Cases (toks c.dropLast) xs ∧
      ∀ rest' n', 2 * c.length ≤ n' → pCases n' (c ++ rest') = .ok (xs, rest') := by
  obtain ⟨body, q, rfl, hq, hb⟩ := pCases_sound _ _ h
  refine ⟨body ++ [q], by simp, by simp, by simpa using hb, fun rest' n' hn => ?_⟩
  have := pCases_complete hb body q rest' n' rfl hq (by
    simp only [toks_length, List.length_append, List.length_cons, List.length_nil] at hn ⊢; omega)
  simpa using this

/-- A statement inside `{ }` that is not a gate statement. -/
theorem pSeqStmt_succ {n ts x rest} (h : pSeqStmt n ts = .ok (x, rest)) :
    ∃ c, ts = c ++ rest ∧ c ≠ [] ∧ Block .seqStmt (toks c) x ∧
      ∀ rest' n', SameHead rest rest' → 2 * c.length ≤ n' → pSeqStmt n' (c ++ rest') = .ok (x, rest') := by
  obtain ⟨c, hc, hb⟩ := (blocks_sound n).2.2.1 _ _ _ h
  obtain ⟨p, r, rfl, hstart⟩ := stmt_head hb (by decide)
  refine ⟨p :: r, hc, by simp, hb, fun rest' n' hs hn => ?_⟩
  by_cases hg : ∃ g, p.tok = .IDENTIFIER g
  · -- gate statement: replay the arguments
    obtain ⟨g, hg⟩ := hg
    cases n with
    | zero => rw [pSeqStmt.eq_def] at h; cases h
    | succ n =>
    cases n' with
    | zero => simp at hn
    | succ n' =>
      subst hc
      rw [pSeqStmt.eq_def] at h ⊢
      simp only [List.cons_append, hg] at h ⊢
      split at h
      · cases h
      · rename_i as r1 hargs
        cases h
        obtain ⟨c', hc1, hc2⟩ := pGateArgs_succ _ hargs
        have : c' = r := List.append_cancel_right hc1.symm
        subst this
        rw [hc2 rest' hs]
  · exact block_complete hb (p :: r) rest' n' rfl (fun ⟨g, r', hgr⟩ => by
      exfalso; apply hg
      simp only [toks, List.map_cons, List.cons.injEq] at hgr
      exact ⟨g, hgr.1⟩) (by rw [toks_length]; exact hn)

theorem pParStmt_succ {n ts x rest} (h : pParStmt n ts = .ok (x, rest)) :
    ∃ c, ts = c ++ rest ∧ c ≠ [] ∧ Block .parStmt (toks c) x ∧
      ∀ rest' n', SameHead rest rest' → 2 * c.length ≤ n' → pParStmt n' (c ++ rest') = .ok (x, rest') := by
  obtain ⟨c, hc, hb⟩ := (blocks_sound n).2.2.2.1 _ _ _ h
  obtain ⟨p, r, rfl, hstart⟩ := stmt_head hb (by decide)
  refine ⟨p :: r, hc, by simp, hb, fun rest' n' hs hn => ?_⟩
  by_cases hg : ∃ g, p.tok = .IDENTIFIER g
  · obtain ⟨g, hg⟩ := hg
    cases n with
    | zero => rw [pParStmt.eq_def] at h; cases h
    | succ n =>
    cases n' with
    | zero => simp at hn
    | succ n' =>
      subst hc
      rw [pParStmt.eq_def] at h ⊢
      simp only [List.cons_append, hg] at h ⊢
      split at h
      · cases h
      · rename_i as r1 hargs
        cases h
        obtain ⟨c', hc1, hc2⟩ := pGateArgs_succ _ hargs
        have : c' = r := List.append_cancel_right hc1.symm
        subst this
        rw [hc2 rest' hs]
  · exact block_complete hb (p :: r) rest' n' rfl (fun ⟨g, r', hgr⟩ => by
      exfalso; apply hg
      simp only [toks, List.map_cons, List.cons.injEq] at hgr
      exact ⟨g, hgr.1⟩) (by rw [toks_length]; exact hn)


/-! ## Anatomy of failures of the block-level functions -/

/-- `f` fails on `ts` with the syntax error `e`: `ts = c ++ la`, the error is reported at the first token
of `la` (or at the end if `la = []`), the same happens for every input that agrees up to that token
(given enough fuel), and `c` satisfies `Compl` (it can be completed). -/
def Stuck {α : Type} (f : Nat → List PTok → Except ParseErr α) (k : Nat) (Compl : List Tok → Prop)
    (ts : List PTok) (e : ParseErr) : Prop :=
  ∃ c la, ts = c ++ la ∧ e = synErr la ∧
    (∀ la' n', SameHead la la' → 2 * (c ++ la').length + k ≤ n' → f n' (c ++ la') = .error (synErr la')) ∧
    Compl (toks c)

def ComplSeqStmts (u : List Tok) : Prop := ∃ w xs, Block .seqStmts (u ++ w) (.list xs)
def ComplParStmts (u : List Tok) : Prop := ∃ w xs, Block .parStmts (u ++ w) (.list xs)
def ComplSeqStmt (u : List Tok) : Prop := ∃ w x, Block .seqStmt (u ++ w) x
def ComplParStmt (u : List Tok) : Prop := ∃ w x, Block .parStmt (u ++ w) x
def ComplGateBlock (u : List Tok) : Prop := ∃ w x, Block .gateBlock (u ++ w) x

def AnatSeqStmts (n : Nat) : Prop := ∀ ts e, pSeqStmts n ts = .error e → IsSyn e → Stuck pSeqStmts 2 ComplSeqStmts ts e
def AnatParStmts (n : Nat) : Prop := ∀ ts e, pParStmts n ts = .error e → IsSyn e → Stuck pParStmts 2 ComplParStmts ts e
def AnatSeqStmt (n : Nat) : Prop := ∀ ts e, pSeqStmt n ts = .error e → IsSyn e → Stuck pSeqStmt 1 ComplSeqStmt ts e
def AnatParStmt (n : Nat) : Prop := ∀ ts e, pParStmt n ts = .error e → IsSyn e → Stuck pParStmt 1 ComplParStmt ts e
def AnatGateBlock (n : Nat) : Prop := ∀ ts e, pGateBlock n ts = .error e → IsSyn e → Stuck pGateBlock 1 ComplGateBlock ts e

theorem noSeqHead_sameHead {c la la' : List PTok} (h : NoSeqHead (c ++ la)) (hs : SameHead la la') :
    NoSeqHead (c ++ la') := by
  cases c with
  | nil =>
    cases la <;> cases la' <;> simp_all [SameHead, NoSeqHead]
  | cons d c => simpa [NoSeqHead] using h

theorem noParHead_sameHead {c la la' : List PTok} (h : NoParHead (c ++ la)) (hs : SameHead la la') :
    NoParHead (c ++ la') := by
  cases c with
  | nil =>
    cases la <;> cases la' <;> simp_all [SameHead, NoParHead]
  | cons d c => simpa [NoParHead] using h

/-- `skipSeq` on an input that agrees up to the first token after the padding. -/
theorem skipSeq_replay {r2 c2 la la' : List PTok} (h : skipSeq r2 = c2 ++ la) (hs : SameHead la la') :
    ∃ pad, r2 = pad ++ (c2 ++ la) ∧ SeqPad (toks pad) ∧ skipSeq (pad ++ (c2 ++ la')) = c2 ++ la' := by
  obtain ⟨pad, h1, h2, h3⟩ := skipSeq_spec r2
  rw [h] at h1 h3
  exact ⟨pad, h1, h2, skipSeq_append h2 (noSeqHead_sameHead h3 hs)⟩

theorem skipPar_replay {r2 c2 la la' : List PTok} (h : skipPar r2 = c2 ++ la) (hs : SameHead la la') :
    ∃ pad, r2 = pad ++ (c2 ++ la) ∧ ParPad (toks pad) ∧ skipPar (pad ++ (c2 ++ la')) = c2 ++ la' := by
  obtain ⟨pad, h1, h2, h3⟩ := skipPar_spec r2
  rw [h] at h1 h3
  exact ⟨pad, h1, h2, skipPar_append h2 (noParHead_sameHead h3 hs)⟩

/-- the first token of `c ++ la'` is the first token of `c ++ la` -/
theorem head_replay {c la la' : List PTok} {p : PTok} {r : List PTok} (h : p :: r = c ++ la)
    (hs : SameHead la la') : ∃ r', c ++ la' = p :: r' := by
  cases c with
  | nil =>
    simp only [List.nil_append] at h ⊢
    rw [← h] at hs
    exact hs.cons_inv
  | cons d c =>
    simp only [List.cons_append, List.cons.injEq] at h
    exact ⟨c ++ la', by rw [h.1]; rfl⟩

theorem anatSeqStmts_succ (n : Nat) (ih3 : AnatSeqStmt n) (ih1 : AnatSeqStmts n) : AnatSeqStmts (n+1) := by
  intro ts e h hsyn
  rw [pSeqStmts.eq_def] at h; simp only at h
  split at h
  · -- end of input
    cases h
    refine ⟨[], [], rfl, rfl, fun la' n' hs hn => ?_, [], [], by simpa using Block.seqNil⟩
    rw [hs.nil_inv]
    cases n' with
    | zero => omega
    | succ n' => rw [pSeqStmts.eq_def]; rfl
  · rename_i p r
    split at h
    · cases h
    · rename_i hp
      split at h
      · -- the first statement fails
        rename_i e' hx
        cases h
        obtain ⟨c, la, hcl, he, hA, w, x, hB⟩ := ih3 _ _ hx hsyn
        refine ⟨c, la, hcl, he, fun la' n' hs hn => ?_, w, [x], .seqOne hB⟩
        obtain ⟨r', hr'⟩ := head_replay hcl hs
        cases n' with
        | zero => omega
        | succ n' =>
          rw [pSeqStmts.eq_def]
          simp only [hr', hp, if_false]
          rw [← hr', hA la' n' hs (by omega)]
      · rename_i x r1 hx
        obtain ⟨c1, hc1, hne, hb1, hrep⟩ := pSeqStmt_succ hx
        have hhead : ∀ rest', ∃ r', c1 ++ rest' = p :: r' := by
          intro rest'
          cases c1 with
          | nil => exact absurd rfl hne
          | cons d c1 =>
            simp only [List.cons_append, List.cons.injEq] at hc1
            exact ⟨c1 ++ rest', by rw [hc1.1]; rfl⟩
        split at h
        · -- end of input after a statement
          cases h
          refine ⟨c1, [], by simpa using hc1, rfl, fun la' n' hs hn => ?_, [], [x], by simpa using Block.seqOne hb1⟩
          rw [hs.nil_inv]
          obtain ⟨r', hr'⟩ := hhead []
          cases n' with
          | zero => omega
          | succ n' =>
            rw [pSeqStmts.eq_def]
            simp only [hr', hp, if_false]
            rw [← hr', hrep [] n' (by simp [SameHead]) (by simp at hn ⊢; omega)]
            rfl
        · rename_i q r2
          split at h
          · cases h
          · rename_i hq
            split at h
            · rename_i hsep
              split at h
              · -- a later statement fails
                rename_i e' hrec
                cases h
                obtain ⟨c2, la, hcl, he, hA, w, xs, hB⟩ := ih1 _ _ hrec hsyn
                obtain ⟨pad, h1, h2, h3⟩ := skipSeq_spec r2
                refine ⟨c1 ++ q :: pad ++ c2, la, ?_, he, fun la' n' hs hn => ?_, w, x :: xs, ?_⟩
                · rw [hc1]
                  conv => lhs; rw [h1, hcl]
                  simp
                · have hskip : skipSeq (pad ++ (c2 ++ la')) = c2 ++ la' := by
                    rw [hcl] at h3
                    exact skipSeq_append h2 (noSeqHead_sameHead h3 hs)
                  have e1 : c1 ++ q :: pad ++ c2 ++ la' = c1 ++ (q :: (pad ++ (c2 ++ la'))) := by simp
                  obtain ⟨r', hr'⟩ := hhead (q :: (pad ++ (c2 ++ la')))
                  cases n' with
                  | zero => omega
                  | succ n' =>
                    rw [pSeqStmts.eq_def, e1]
                    simp only [hr', hp, if_false]
                    rw [← hr', hrep _ n' (by simp [SameHead]) (by
                      simp only [List.length_append, List.length_cons] at hn ⊢; omega)]
                    simp only [hq, if_false, hsep, if_true, hskip]
                    rw [hA la' n' hs (by simp only [List.length_append, List.length_cons] at hn ⊢; omega)]
                · have := Block.seqCons hb1 (seqSep_single hsep h2) hB
                  simpa [toks] using this
              · cases h
            · -- neither a separator nor the closing brace
              rename_i hsep
              cases h
              refine ⟨c1, q :: r2, hc1, rfl, fun la' n' hs hn => ?_, [], [x], by simpa using Block.seqOne hb1⟩
              obtain ⟨r2', rfl⟩ := hs.cons_inv
              obtain ⟨r', hr'⟩ := hhead (q :: r2')
              cases n' with
              | zero => omega
              | succ n' =>
                rw [pSeqStmts.eq_def]
                simp only [hr', hp, if_false]
                rw [← hr', hrep _ n' (by simp [SameHead]) (by
                  simp only [List.length_append, List.length_cons] at hn ⊢; omega)]
                simp only [hq, if_false, hsep, synErr]
                simp

theorem anatParStmts_succ (n : Nat) (ih3 : AnatParStmt n) (ih1 : AnatParStmts n) : AnatParStmts (n+1) := by
  intro ts e h hsyn
  rw [pParStmts.eq_def] at h; simp only at h
  split at h
  · -- end of input
    cases h
    refine ⟨[], [], rfl, rfl, fun la' n' hs hn => ?_, [], [], by simpa using Block.parNil⟩
    rw [hs.nil_inv]
    cases n' with
    | zero => omega
    | succ n' => rw [pParStmts.eq_def]; rfl
  · rename_i p r
    split at h
    · cases h
    · rename_i hp
      split at h
      · -- the first statement fails
        rename_i e' hx
        cases h
        obtain ⟨c, la, hcl, he, hA, w, x, hB⟩ := ih3 _ _ hx hsyn
        refine ⟨c, la, hcl, he, fun la' n' hs hn => ?_, w, [x], .parOne hB⟩
        obtain ⟨r', hr'⟩ := head_replay hcl hs
        cases n' with
        | zero => omega
        | succ n' =>
          rw [pParStmts.eq_def]
          simp only [hr', hp, if_false]
          rw [← hr', hA la' n' hs (by omega)]
      · rename_i x r1 hx
        obtain ⟨c1, hc1, hne, hb1, hrep⟩ := pParStmt_succ hx
        have hhead : ∀ rest', ∃ r', c1 ++ rest' = p :: r' := by
          intro rest'
          cases c1 with
          | nil => exact absurd rfl hne
          | cons d c1 =>
            simp only [List.cons_append, List.cons.injEq] at hc1
            exact ⟨c1 ++ rest', by rw [hc1.1]; rfl⟩
        split at h
        · -- end of input after a statement
          cases h
          refine ⟨c1, [], by simpa using hc1, rfl, fun la' n' hs hn => ?_, [], [x], by simpa using Block.parOne hb1⟩
          rw [hs.nil_inv]
          obtain ⟨r', hr'⟩ := hhead []
          cases n' with
          | zero => omega
          | succ n' =>
            rw [pParStmts.eq_def]
            simp only [hr', hp, if_false]
            rw [← hr', hrep [] n' (by simp [SameHead]) (by simp at hn ⊢; omega)]
            rfl
        · rename_i q r2
          split at h
          · cases h
          · rename_i hq
            split at h
            · rename_i hsep
              split at h
              · -- a later statement fails
                rename_i e' hrec
                cases h
                obtain ⟨c2, la, hcl, he, hA, w, xs, hB⟩ := ih1 _ _ hrec hsyn
                obtain ⟨pad, h1, h2, h3⟩ := skipPar_spec r2
                refine ⟨c1 ++ q :: pad ++ c2, la, ?_, he, fun la' n' hs hn => ?_, w, x :: xs, ?_⟩
                · rw [hc1]
                  conv => lhs; rw [h1, hcl]
                  simp
                · have hskip : skipPar (pad ++ (c2 ++ la')) = c2 ++ la' := by
                    rw [hcl] at h3
                    exact skipPar_append h2 (noParHead_sameHead h3 hs)
                  have e1 : c1 ++ q :: pad ++ c2 ++ la' = c1 ++ (q :: (pad ++ (c2 ++ la'))) := by simp
                  obtain ⟨r', hr'⟩ := hhead (q :: (pad ++ (c2 ++ la')))
                  cases n' with
                  | zero => omega
                  | succ n' =>
                    rw [pParStmts.eq_def, e1]
                    simp only [hr', hp, if_false]
                    rw [← hr', hrep _ n' (by simp [SameHead]) (by
                      simp only [List.length_append, List.length_cons] at hn ⊢; omega)]
                    simp only [hq, if_false, hsep, if_true, hskip]
                    rw [hA la' n' hs (by simp only [List.length_append, List.length_cons] at hn ⊢; omega)]
                · have := Block.parCons hb1 (parSep_single hsep h2) hB
                  simpa [toks] using this
              · cases h
            · -- neither a separator nor the closing brace
              rename_i hsep
              cases h
              refine ⟨c1, q :: r2, hc1, rfl, fun la' n' hs hn => ?_, [], [x], by simpa using Block.parOne hb1⟩
              obtain ⟨r2', rfl⟩ := hs.cons_inv
              obtain ⟨r', hr'⟩ := hhead (q :: r2')
              cases n' with
              | zero => omega
              | succ n' =>
                rw [pParStmts.eq_def]
                simp only [hr', hp, if_false]
                rw [← hr', hrep _ n' (by simp [SameHead]) (by
                  simp only [List.length_append, List.length_cons] at hn ⊢; omega)]
                simp only [hq, if_false, hsep, synErr]
                simp



theorem emptyGateBlock : Block .gateBlock [.lbrace, .rbrace] (.list [.str "sequential_block"]) := by
  have := Block.gateBlockSeq (Block.seqBlock (pad := []) (by intro t ht; cases ht) Block.seqNil)
  simpa using this

/-- failure inside `{ … }` after the opening brace `p` -/
theorem stuck_curly {n : Nat} (ih1 : AnatSeqStmts n) {p : PTok} {r : List PTok} {e} (_hp : p.tok = .lbrace)
    (hrec : pSeqStmts n (skipSeq r) = .error e) (hsyn : IsSyn e) :
    ∃ c la, p :: r = c ++ la ∧ e = synErr la ∧
      (∃ pad c2, c = p :: pad ++ c2 ∧ SeqPad (toks pad) ∧
        (∀ la', SameHead la la' → skipSeq (pad ++ (c2 ++ la')) = c2 ++ la') ∧
        (∀ la' n', SameHead la la' → 2 * (c2 ++ la').length + 2 ≤ n' →
          pSeqStmts n' (c2 ++ la') = .error (synErr la')) ∧
        ∃ w xs, Block .seqStmts (toks c2 ++ w) (.list xs)) := by
  obtain ⟨c2, la, hcl, he, hA, hB⟩ := ih1 _ _ hrec hsyn
  obtain ⟨pad, h1, h2, h3⟩ := skipSeq_spec r
  refine ⟨p :: pad ++ c2, la, ?_, he, pad, c2, rfl, h2, fun la' hs => ?_, hA, hB⟩
  · conv => lhs; rw [h1, hcl]
    simp
  · rw [hcl] at h3
    exact skipSeq_append h2 (noSeqHead_sameHead h3 hs)

theorem stuck_angle {n : Nat} (ih2 : AnatParStmts n) {p : PTok} {r : List PTok} {e} (_hp : p.tok = .lt)
    (hrec : pParStmts n (skipPar r) = .error e) (hsyn : IsSyn e) :
    ∃ c la, p :: r = c ++ la ∧ e = synErr la ∧
      (∃ pad c2, c = p :: pad ++ c2 ∧ ParPad (toks pad) ∧
        (∀ la', SameHead la la' → skipPar (pad ++ (c2 ++ la')) = c2 ++ la') ∧
        (∀ la' n', SameHead la la' → 2 * (c2 ++ la').length + 2 ≤ n' →
          pParStmts n' (c2 ++ la') = .error (synErr la')) ∧
        ∃ w xs, Block .parStmts (toks c2 ++ w) (.list xs)) := by
  obtain ⟨c2, la, hcl, he, hA, hB⟩ := ih2 _ _ hrec hsyn
  obtain ⟨pad, h1, h2, h3⟩ := skipPar_spec r
  refine ⟨p :: pad ++ c2, la, ?_, he, pad, c2, rfl, h2, fun la' hs => ?_, hA, hB⟩
  · conv => lhs; rw [h1, hcl]
    simp
  · rw [hcl] at h3
    exact skipPar_append h2 (noParHead_sameHead h3 hs)

theorem anatGateBlock_succ (n : Nat) (ih1 : AnatSeqStmts n) (ih2 : AnatParStmts n) : AnatGateBlock (n+1) := by
  intro ts e h hsyn
  rw [pGateBlock.eq_def] at h; simp only at h
  split at h
  · cases h
    refine ⟨[], [], rfl, rfl, fun la' n' hs hn => ?_, [.lbrace, .rbrace], _, by simpa using emptyGateBlock⟩
    rw [hs.nil_inv]
    cases n' with
    | zero => omega
    | succ n' => rw [pGateBlock.eq_def]; rfl
  · rename_i p r
    split at h
    · rename_i hp
      split at h
      · rename_i e' hrec
        cases h
        obtain ⟨c, la, hcl, he, pad, c2, rfl, hpad, hskip, hA, w, xs, hB⟩ := stuck_curly ih1 hp hrec hsyn
        refine ⟨_, la, hcl, he, fun la' n' hs hn => ?_, w ++ [.rbrace], .list (.str "sequential_block" :: xs), ?_⟩
        · cases n' with
          | zero => omega
          | succ n' =>
            rw [pGateBlock.eq_def]
            have e1 : p :: pad ++ c2 ++ la' = p :: (pad ++ (c2 ++ la')) := by simp
            rw [e1]
            simp only [hp, hskip la' hs]
            rw [hA la' n' hs (by simp only [List.length_append, List.length_cons] at hn ⊢; omega)]
        · have := Block.gateBlockSeq (Block.seqBlock hpad hB)
          simpa [toks, hp] using this
      · cases h
    · rename_i hp
      split at h
      · rename_i e' hrec
        cases h
        obtain ⟨c, la, hcl, he, pad, c2, rfl, hpad, hskip, hA, w, xs, hB⟩ := stuck_angle ih2 hp hrec hsyn
        refine ⟨_, la, hcl, he, fun la' n' hs hn => ?_, w ++ [.gt], .list (.str "parallel_block" :: xs), ?_⟩
        · cases n' with
          | zero => omega
          | succ n' =>
            rw [pGateBlock.eq_def]
            have e1 : p :: pad ++ c2 ++ la' = p :: (pad ++ (c2 ++ la')) := by simp
            rw [e1]
            simp only [hp, hskip la' hs]
            rw [hA la' n' hs (by simp only [List.length_append, List.length_cons] at hn ⊢; omega)]
        · have := Block.gateBlockPar (Block.parBlock hpad hB)
          simpa [toks, hp] using this
      · cases h
    · rename_i h1 h2
      cases h
      refine ⟨[], p :: r, rfl, rfl, fun la' n' hs hn => ?_, [.lbrace, .rbrace], _, by simpa using emptyGateBlock⟩
      obtain ⟨r', rfl⟩ := hs.cons_inv
      cases n' with
      | zero => omega
      | succ n' =>
        rw [pGateBlock.eq_def]
        simp only [List.nil_append]
        rfl


theorem someGate : Gate [.IDENTIFIER "g"] (.list [.str "gate", .str "g"]) := by
  simpa using Gate.mk "g" GateArgs.nil

theorem anatParStmt_succ (n : Nat) (ih1 : AnatSeqStmts n) : AnatParStmt (n+1) := by
  intro ts e h hsyn
  rw [pParStmt.eq_def] at h; simp only at h
  split at h
  · cases h
    refine ⟨[], [], rfl, rfl, fun la' n' hs hn => ?_, [.IDENTIFIER "g"], _, by simpa using Block.parGate someGate⟩
    rw [hs.nil_inv]
    cases n' with
    | zero => omega
    | succ n' => rw [pParStmt.eq_def]; rfl
  · rename_i p r
    split at h
    · rename_i g hg
      split at h
      · rename_i e' hrec
        cases h
        obtain ⟨c', la, hcl, he, hA, w, xs, hB⟩ := pGateArgs_stuck _ hrec
        refine ⟨p :: c', la, by rw [hcl]; rfl, he, fun la' n' hs hn => ?_, w, sxGate g xs, ?_⟩
        · cases n' with
          | zero => omega
          | succ n' =>
            rw [pParStmt.eq_def]
            simp only [List.cons_append, hg, hA la' hs]
        · have := Block.parGate (Gate.mk g hB)
          simpa [toks, hg, sxGate] using this
      · cases h
    · rename_i hp
      split at h
      · rename_i e' hrec
        cases h
        obtain ⟨c, la, hcl, he, pad, c2, rfl, hpad, hskip, hA, w, xs, hB⟩ := stuck_curly ih1 hp hrec hsyn
        refine ⟨_, la, hcl, he, fun la' n' hs hn => ?_, w ++ [.rbrace], .list (.str "sequential_block" :: xs), ?_⟩
        · cases n' with
          | zero => omega
          | succ n' =>
            rw [pParStmt.eq_def]
            have e1 : p :: pad ++ c2 ++ la' = p :: (pad ++ (c2 ++ la')) := by simp
            rw [e1]
            simp only [hp, hskip la' hs]
            rw [hA la' n' hs (by simp only [List.length_append, List.length_cons] at hn ⊢; omega)]
        · have := Block.parSeq (Block.seqBlock hpad hB)
          simpa [toks, hp] using this
      · cases h
    · rename_i h1 h2
      cases h
      refine ⟨[], p :: r, rfl, rfl, fun la' n' hs hn => ?_, [.IDENTIFIER "g"], _, by simpa using Block.parGate someGate⟩
      obtain ⟨r', rfl⟩ := hs.cons_inv
      cases n' with
      | zero => omega
      | succ n' =>
        rw [pParStmt.eq_def]
        simp only [List.nil_append]
        rfl

theorem emptySub : Block .seqStmt [.SUBCIRCUIT, .lbrace, .rbrace] (.list [.str "subcircuit_block", .str ""]) := by
  have := Block.seqSub (pad := []) (by intro t ht; cases ht) Block.seqNil
  simpa using this

theorem anatSeqStmt_succ (n : Nat) (ih1 : AnatSeqStmts n) (ih2 : AnatParStmts n) (ih5 : AnatGateBlock n) :
    AnatSeqStmt (n+1) := by
  intro ts e h hsyn
  rw [pSeqStmt.eq_def] at h; simp only at h
  split at h
  · cases h
    refine ⟨[], [], rfl, rfl, fun la' n' hs hn => ?_, [.IDENTIFIER "g"], _, by simpa using Block.seqGate someGate⟩
    rw [hs.nil_inv]
    cases n' with
    | zero => omega
    | succ n' => rw [pSeqStmt.eq_def]; rfl
  · rename_i p r
    split at h
    · -- gate
      rename_i g hg
      split at h
      · rename_i e' hrec
        cases h
        obtain ⟨c', la, hcl, he, hA, w, xs, hB⟩ := pGateArgs_stuck _ hrec
        refine ⟨p :: c', la, by rw [hcl]; rfl, he, fun la' n' hs hn => ?_, w, sxGate g xs, ?_⟩
        · cases n' with
          | zero => omega
          | succ n' =>
            rw [pSeqStmt.eq_def]
            simp only [List.cons_append, hg, hA la' hs]
        · have := Block.seqGate (Gate.mk g hB)
          simpa [toks, hg, sxGate] using this
      · cases h
    · -- parallel block
      rename_i hp
      split at h
      · rename_i e' hrec
        cases h
        obtain ⟨c, la, hcl, he, pad, c2, rfl, hpad, hskip, hA, w, xs, hB⟩ := stuck_angle ih2 hp hrec hsyn
        refine ⟨_, la, hcl, he, fun la' n' hs hn => ?_, w ++ [.gt], .list (.str "parallel_block" :: xs), ?_⟩
        · cases n' with
          | zero => omega
          | succ n' =>
            rw [pSeqStmt.eq_def]
            have e1 : p :: pad ++ c2 ++ la' = p :: (pad ++ (c2 ++ la')) := by simp
            rw [e1]
            simp only [hp, hskip la' hs]
            rw [hA la' n' hs (by simp only [List.length_append, List.length_cons] at hn ⊢; omega)]
        · have := Block.seqPar (Block.parBlock hpad hB)
          simpa [toks, hp] using this
      · cases h
    · -- loop
      rename_i hp
      split at h
      · rename_i e' hrec
        cases h
        obtain ⟨he, hA⟩ := pLetOrInt_stuck hrec
        refine ⟨[p], r, rfl, he, fun la' n' hs hn => ?_, [.INT 1, .lbrace, .rbrace],
          .list [.str "loop", .int 1, .list [.str "sequential_block"]], ?_⟩
        · cases n' with
          | zero => omega
          | succ n' =>
            rw [pSeqStmt.eq_def]
            simp only [List.cons_append, List.nil_append, hp, hA la' hs]
        · have := Block.seqLoop (LetOrInt.int 1) emptyGateBlock
          simpa [toks, hp] using this
      · rename_i cnt r1 hc
        obtain ⟨pc, rfl, hpc⟩ := pLetOrInt_succ hc
        have hlo := (pLetOrInt_sound hc)
        split at h
        · rename_i e' hrec
          cases h
          obtain ⟨c2, la, hcl, he, hA, w, x, hB⟩ := ih5 _ _ hrec hsyn
          refine ⟨p :: pc :: c2, la, by rw [hcl]; rfl, he, fun la' n' hs hn => ?_, w, sxLoop cnt x, ?_⟩
          · cases n' with
            | zero => omega
            | succ n' =>
              rw [pSeqStmt.eq_def]
              simp only [List.cons_append, hp, hpc]
              rw [hA la' n' hs (by simp only [List.length_append, List.length_cons] at hn ⊢; omega)]
          · obtain ⟨pc', hpc1, hpc2⟩ := hlo
            simp only [List.cons.injEq] at hpc1
            have := Block.seqLoop (hpc1.1 ▸ hpc2) hB
            simpa [toks, hp, sxLoop] using this
        · cases h
    · -- subcircuit
      rename_i hp
      split at h
      · cases h
        refine ⟨[p], [], rfl, rfl, fun la' n' hs hn => ?_, [.lbrace, .rbrace],
          .list [.str "subcircuit_block", .str ""], ?_⟩
        · rw [hs.nil_inv]
          cases n' with
          | zero => omega
          | succ n' => rw [pSeqStmt.eq_def]; simp only [List.cons_append, List.nil_append, hp]; rfl
        · simpa [toks, hp] using emptySub
      · rename_i q r1
        split at h
        · rename_i hq
          split at h
          · rename_i e' hrec
            cases h
            obtain ⟨c, la, hcl, he, pad, c2, rfl, hpad, hskip, hA, w, xs, hB⟩ := stuck_curly ih1 hq hrec hsyn
            refine ⟨p :: (q :: pad ++ c2), la, by rw [hcl]; rfl, he, fun la' n' hs hn => ?_, w ++ [.rbrace],
              .list (.str "subcircuit_block" :: .str "" :: xs), ?_⟩
            · cases n' with
              | zero => omega
              | succ n' =>
                rw [pSeqStmt.eq_def]
                have e1 : p :: (q :: pad ++ c2) ++ la' = p :: q :: (pad ++ (c2 ++ la')) := by simp
                rw [e1]
                simp only [hp, hq, if_true, hskip la' hs]
                rw [hA la' n' hs (by simp only [List.length_append, List.length_cons] at hn ⊢; omega)]
            · have := Block.seqSub hpad hB
              simpa [toks, hp, hq] using this
          · cases h
        · rename_i hq
          split at h
          · rename_i e' hrec
            cases h
            obtain ⟨he, hA⟩ := pLetOrInt_stuck hrec
            refine ⟨[p], q :: r1, rfl, he, fun la' n' hs hn => ?_, [.lbrace, .rbrace],
              .list [.str "subcircuit_block", .str ""], ?_⟩
            · obtain ⟨r', rfl⟩ := hs.cons_inv
              cases n' with
              | zero => omega
              | succ n' =>
                rw [pSeqStmt.eq_def]
                simp only [List.cons_append, List.nil_append, hp, hq, if_false, hA (q :: r') (by simp [SameHead])]
            · simpa [toks, hp] using emptySub
          · rename_i cnt r2 hc
            obtain ⟨pc, hpc0, hpc⟩ := pLetOrInt_succ hc
            obtain ⟨pc', hpc1, hpc2⟩ := pLetOrInt_sound hc
            simp only [List.cons.injEq] at hpc0 hpc1
            obtain ⟨rfl, rfl⟩ := hpc0
            split at h
            · rename_i e' hrec
              cases h
              obtain ⟨he, hA⟩ := expect_stuck hrec
              refine ⟨[p, q], r1, rfl, he, fun la' n' hs hn => ?_, [.lbrace, .rbrace],
                .list [.str "subcircuit_block", cnt], ?_⟩
              · cases n' with
                | zero => omega
                | succ n' =>
                  rw [pSeqStmt.eq_def]
                  simp only [List.cons_append, List.nil_append, hp, hq, if_false, hpc, hA la' hs]
              · have := Block.seqSubN (pad := []) (hpc1.1 ▸ hpc2) (by intro t ht; cases ht) Block.seqNil
                simpa [toks, hp] using this
            · rename_i r3 hex
              obtain ⟨pl, rfl, hpl, hexr⟩ := expect_succ hex
              split at h
              · rename_i e' hrec
                cases h
                obtain ⟨c, la, hcl, he, pad, c2, rfl, hpad, hskip, hA, w, xs, hB⟩ := stuck_curly ih1 hpl hrec hsyn
                refine ⟨p :: q :: (pl :: pad ++ c2), la, by rw [hcl]; rfl, he, fun la' n' hs hn => ?_,
                  w ++ [.rbrace], .list (.str "subcircuit_block" :: cnt :: xs), ?_⟩
                · cases n' with
                  | zero => omega
                  | succ n' =>
                    rw [pSeqStmt.eq_def]
                    have e1 : p :: q :: (pl :: pad ++ c2) ++ la' = p :: q :: pl :: (pad ++ (c2 ++ la')) := by simp
                    rw [e1]
                    simp only [hp, hq, if_false, hpc, hexr, hskip la' hs]
                    rw [hA la' n' hs (by simp only [List.length_append, List.length_cons] at hn ⊢; omega)]
                · have := Block.seqSubN (hpc1.1 ▸ hpc2) hpad hB
                  simpa [toks, hp, hpl] using this
              · cases h
    · rename_i h1 h2 h3 h4
      cases h
      refine ⟨[], p :: r, rfl, rfl, fun la' n' hs hn => ?_, [.IDENTIFIER "g"], _, by simpa using Block.seqGate someGate⟩
      obtain ⟨r', rfl⟩ := hs.cons_inv
      cases n' with
      | zero => omega
      | succ n' =>
        rw [pSeqStmt.eq_def]
        simp only [List.nil_append]
        rfl


theorem blocks_anat (n : Nat) :
    AnatSeqStmts n ∧ AnatParStmts n ∧ AnatSeqStmt n ∧ AnatParStmt n ∧ AnatGateBlock n := by
  induction n with
  | zero =>
    refine ⟨?_, ?_, ?_, ?_, ?_⟩ <;> intro ts e h hsyn
    · rw [pSeqStmts.eq_def] at h; cases h; cases hsyn
    · rw [pParStmts.eq_def] at h; cases h; cases hsyn
    · rw [pSeqStmt.eq_def] at h; cases h; cases hsyn
    · rw [pParStmt.eq_def] at h; cases h; cases hsyn
    · rw [pGateBlock.eq_def] at h; cases h; cases hsyn
  | succ n ih =>
    obtain ⟨i1, i2, i3, i4, i5⟩ := ih
    exact ⟨anatSeqStmts_succ n i3 i1, anatParStmts_succ n i4 i2, anatSeqStmt_succ n i1 i2 i5,
      anatParStmt_succ n i1, anatGateBlock_succ n i1 i2⟩

def ComplCases (u : List Tok) : Prop := ∃ w xs, Cases (u ++ w) xs

theorem pCases_anat (n : Nat) (ts : List PTok) : ∀ {e}, pCases n ts = .error e → IsSyn e →
    Stuck pCases 2 ComplCases ts e := by
  fun_induction pCases n ts <;> intro e h hsyn <;> cases h
  case case1 => cases hsyn
  case case2 n =>
    refine ⟨[], [], rfl, rfl, fun la' n' hs hn => ?_, [], [], by simpa using Cases.nil⟩
    rw [hs.nil_inv]
    cases n' with
    | zero => omega
    | succ n' => rfl
  case case4 n p tail v hp e' he =>
    obtain ⟨hee, hA⟩ := expect_stuck he
    refine ⟨[p], tail, rfl, hee, fun la' n' hs hn => ?_, [.colon, .lbrace, .rbrace],
      [sxCase v (.list [.str "sequential_block"])], ?_⟩
    · cases n' with
      | zero => omega
      | succ n' => simp only [List.cons_append, List.nil_append, pCases, hp, hA la' hs]
    · have := Cases.one (Case.mk v emptyGateBlock)
      simpa [toks, hp, sxCase] using this
  case case5 n p tail v hp r3 he e' hb =>
    obtain ⟨pc, rfl, hpc, hexr⟩ := expect_succ he
    obtain ⟨c2, la, hcl, hee, hA, w, x, hB⟩ := (blocks_anat n).2.2.2.2 _ _ hb hsyn
    refine ⟨p :: pc :: c2, la, by rw [hcl]; rfl, hee, fun la' n' hs hn => ?_, w, [sxCase v x], ?_⟩
    · cases n' with
      | zero => omega
      | succ n' =>
        simp only [List.cons_append, pCases, hp, hexr]
        rw [hA la' n' hs (by simp only [List.length_append, List.length_cons] at hn ⊢; omega)]
    · have := Cases.one (Case.mk v hB)
      simpa [toks, hp, hpc, sxCase] using this
  case case6 n p tail v hp r3 he b hb =>
    obtain ⟨pc, rfl, hpc, hexr⟩ := expect_succ he
    obtain ⟨cb, hcb, hbl, hrep⟩ := pGateBlock_succ hb
    simp only [List.append_nil] at hcb
    subst hcb
    refine ⟨p :: pc :: r3, [], by simp, rfl, fun la' n' hs hn => ?_, [], [sxCase v b], ?_⟩
    · rw [hs.nil_inv]
      cases n' with
      | zero => omega
      | succ n' =>
        simp only [List.append_nil, pCases, hp, hexr]
        have := hrep [] n' (by simp only [List.length_append, List.length_cons] at hn ⊢; omega)
        simp only [List.append_nil] at this
        rw [this]; rfl
    · have := Cases.one (Case.mk v hbl)
      simpa [toks, hp, hpc, sxCase] using this
  case case8 n p tail v hp r3 he b q tail' hq hsep e' hrec hb ih =>
    obtain ⟨pc, rfl, hpc, hexr⟩ := expect_succ he
    obtain ⟨cb, hcb, hbl, hrep⟩ := pGateBlock_succ hb
    obtain ⟨c2, la, hcl, hee, hA, w, xs, hB⟩ := ih hrec hsyn
    obtain ⟨pad, h1, h2, h3⟩ := skipSeq_spec tail'
    refine ⟨p :: pc :: cb ++ q :: pad ++ c2, la, ?_, hee, fun la' n' hs hn => ?_, w, sxCase v b :: xs, ?_⟩
    · rw [hcb]; conv => lhs; rw [h1, hcl]
      simp
    · have hskip : skipSeq (pad ++ (c2 ++ la')) = c2 ++ la' := by
        rw [hcl] at h3
        exact skipSeq_append h2 (noSeqHead_sameHead h3 hs)
      have e1 : p :: pc :: cb ++ q :: pad ++ c2 ++ la' = p :: pc :: (cb ++ (q :: (pad ++ (c2 ++ la')))) := by simp
      cases n' with
      | zero => omega
      | succ n' =>
        rw [e1]
        simp only [pCases, hp, hexr]
        rw [hrep _ n' (by simp only [List.length_append, List.length_cons] at hn ⊢; omega)]
        simp only [hq, if_false, hsep, if_true, hskip]
        rw [hA la' n' hs (by simp only [List.length_append, List.length_cons] at hn ⊢; omega)]
    · have := Cases.cons (Case.mk v hbl) (seqSep_single hsep h2) hB
      simpa [toks, hp, hpc, sxCase] using this
  case case10 n p tail v hp r3 he b q tail' hq hsep hb =>
    obtain ⟨pc, rfl, hpc, hexr⟩ := expect_succ he
    obtain ⟨cb, hcb, hbl, hrep⟩ := pGateBlock_succ hb
    refine ⟨p :: pc :: cb, q :: tail', by rw [hcb]; simp, rfl, fun la' n' hs hn => ?_, [], [sxCase v b], ?_⟩
    · obtain ⟨r', rfl⟩ := hs.cons_inv
      cases n' with
      | zero => omega
      | succ n' =>
        simp only [List.cons_append, pCases, hp, hexr]
        rw [hrep _ n' (by simp only [List.length_append, List.length_cons] at hn ⊢; omega)]
        simp [hq, hsep, synErr]
    · have := Cases.one (Case.mk v hbl)
      simpa [toks, hp, hpc, sxCase] using this
  case case11 n p tail h1 h2 =>
    refine ⟨[], p :: tail, rfl, rfl, fun la' n' hs hn => ?_, [], [], by simpa using Cases.nil⟩
    obtain ⟨r', rfl⟩ := hs.cons_inv
    cases n' with
    | zero => omega
    | succ n' =>
      simp only [List.nil_append, pCases]
      rfl


/-! ## The index of a map statement -/

theorem pMapIndex_succ {ts idx rest} (h : pMapIndex ts = .ok (idx, rest)) :
    ∃ c, ts = c ++ rest ∧ MapIndex (toks c) idx ∧ ∀ rest', pMapIndex (c ++ rest') = .ok (idx, rest') := by
  obtain ⟨c, rfl, hc⟩ := pMapIndex_sound h
  exact ⟨c, rfl, hc, fun rest' => pMapIndex_complete hc rfl rest'⟩

/-- failure without fuel: `f` fails on `ts = c ++ la` at the head of `la`, in the same way on every input
agreeing up to there, and `c` satisfies `Compl`. -/
def Stuck0 {α : Type} (f : List PTok → Except ParseErr α) (Compl : List Tok → Prop)
    (ts : List PTok) (e : ParseErr) : Prop :=
  ∃ c la, ts = c ++ la ∧ e = synErr la ∧
    (∀ la', SameHead la la' → f (c ++ la') = .error (synErr la')) ∧ Compl (toks c)

def ComplStep (u : List Tok) : Prop := ∃ w s sx, OptStep s sx ∧ u ++ w = s ++ [.rbrack]
def ComplStop (u : List Tok) : Prop :=
  ∃ w b bx s sx, OptLetOrInt b bx ∧ OptStep s sx ∧ u ++ w = b ++ (s ++ [.rbrack])
def ComplIndex (u : List Tok) : Prop := ∃ w idx, MapIndex (u ++ w) idx

theorem pSliceStep_stuck {start stop ts e} (h : pSliceStep start stop ts = .error e) :
    Stuck0 (pSliceStep start stop) ComplStep ts e := by
  unfold pSliceStep at h
  split at h
  · cases h
    exact ⟨[], [], rfl, rfl, fun la' hs => by rw [hs.nil_inv]; rfl, [.rbrack], [], .none, .none, rfl⟩
  · rename_i p r1
    split at h
    · cases h
    · rename_i hp1
      split at h
      · rename_i hp
        split at h
        · rename_i e' hs
          cases h
          obtain ⟨he, hA⟩ := pLetOrInt_stuck hs
          refine ⟨[p], r1, rfl, he, fun la' hs' => ?_, [.INT 1, .rbrack], [.colon, .INT 1], .int 1,
            .some (.int 1), by simp [toks, hp]⟩
          simp [pSliceStep, hp, hA la' hs']
        · rename_i step r2 hs
          obtain ⟨ps, rfl, hps⟩ := pLetOrInt_succ hs
          obtain ⟨ps', hps1, hps2⟩ := pLetOrInt_sound hs
          simp only [List.cons.injEq] at hps1
          split at h
          · rename_i e' hex
            cases h
            obtain ⟨he, hA⟩ := expect_stuck hex
            refine ⟨[p, ps], r2, rfl, he, fun la' hs' => ?_, [.rbrack], [.colon, ps.tok], step,
              .some (hps1.1 ▸ hps2), by simp [toks, hp]⟩
            simp [pSliceStep, hp, hps, hA la' hs']
          · cases h
      · rename_i hp
        cases h
        refine ⟨[], p :: r1, rfl, rfl, fun la' hs => ?_, [.rbrack], [], .none, .none, rfl⟩
        obtain ⟨r', rfl⟩ := hs.cons_inv
        simp [pSliceStep, hp1, hp, synErr]

theorem pSliceStop_stuck {start ts e} (h : pSliceStop start ts = .error e) :
    Stuck0 (pSliceStop start) ComplStop ts e := by
  unfold pSliceStop at h
  split at h
  · cases h
    exact ⟨[], [], rfl, rfl, fun la' hs => by rw [hs.nil_inv]; rfl, [.rbrack], [], .none, [], .none, .none,
      .none, rfl⟩
  · rename_i p r1
    split at h
    · rename_i s hs
      obtain ⟨c, la, hcl, he, hA, w, st, sx, h1, h2⟩ := pSliceStep_stuck h
      refine ⟨p :: c, la, by rw [hcl]; rfl, he, fun la' hs' => ?_, w, [p.tok], .str s, st, sx,
        .some (hs ▸ .ident s), h1, by simp [toks] at h2 ⊢; exact h2⟩
      simp only [List.cons_append, pSliceStop, hs, hA la' hs']
    · rename_i v hv
      obtain ⟨c, la, hcl, he, hA, w, st, sx, h1, h2⟩ := pSliceStep_stuck h
      refine ⟨p :: c, la, by rw [hcl]; rfl, he, fun la' hs' => ?_, w, [p.tok], .int v, st, sx,
        .some (hv ▸ .int v), h1, by simp [toks] at h2 ⊢; exact h2⟩
      simp only [List.cons_append, pSliceStop, hv, hA la' hs']
    · rename_i h1 h2
      obtain ⟨c, la, hcl, he, hA, w, st, sx, h3, h4⟩ := pSliceStep_stuck h
      refine ⟨c, la, hcl, he, fun la' hs' => ?_, w, [], .none, st, sx, .none, h3, by simpa using h4⟩
      obtain ⟨r', hr'⟩ := head_replay hcl hs'
      rw [hr']
      have : pSliceStop start (p :: r') = pSliceStep start .none (p :: r') := by
        simp only [pSliceStop]
      rw [this, ← hr', hA la' hs']

theorem pMapIndex_stuck {ts e} (h : pMapIndex ts = .error e) : Stuck0 pMapIndex ComplIndex ts e := by
  unfold pMapIndex at h
  split at h
  · cases h
    exact ⟨[], [], rfl, rfl, fun la' hs => by rw [hs.nil_inv]; rfl, [.INT 0, .rbrack], [.int 0],
      by simpa using MapIndex.index (.int 0)⟩
  · rename_i p r
    split at h
    · rename_i hp
      obtain ⟨c, la, hcl, he, hA, w, b, bx, st, sx, h1, h2, h3⟩ := pSliceStop_stuck h
      refine ⟨p :: c, la, by rw [hcl]; rfl, he, fun la' hs' => ?_, w, [.none, bx, sx], ?_⟩
      · simp only [List.cons_append, pMapIndex, hp, if_true, hA la' hs']
      · have := MapIndex.slice .none h1 h2
        simp only [List.nil_append] at this
        rw [← h3] at this
        simpa [toks, hp] using this
    · rename_i hp
      split at h
      · rename_i e' hi
        cases h
        obtain ⟨he, hA⟩ := pLetOrInt_stuck hi
        refine ⟨[], p :: r, rfl, he, fun la' hs' => ?_, [.INT 0, .rbrack], [.int 0],
          by simpa using MapIndex.index (.int 0)⟩
        obtain ⟨r', rfl⟩ := hs'.cons_inv
        simp only [List.nil_append, pMapIndex, hp, if_false, hA (p :: r') (by simp [SameHead])]
      · rename_i i r1 hi
        obtain ⟨pi, hpi0, hpi⟩ := pLetOrInt_succ hi
        obtain ⟨pi', hpi1, hpi2⟩ := pLetOrInt_sound hi
        simp only [List.cons.injEq] at hpi0 hpi1
        obtain ⟨rfl, rfl⟩ := hpi0
        split at h
        · cases h
          refine ⟨[p], [], rfl, rfl, fun la' hs' => ?_, [.rbrack], [i], ?_⟩
          · rw [hs'.nil_inv]; simp [pMapIndex, hp, hpi, synErr]
          · simpa [toks] using MapIndex.index (hpi1.1 ▸ hpi2)
        · rename_i q r2
          split at h
          · cases h
          · rename_i hq
            split at h
            · rename_i hq2
              obtain ⟨c, la, hcl, he, hA, w, b, bx, st, sx, h1, h2, h3⟩ := pSliceStop_stuck h
              refine ⟨p :: q :: c, la, by rw [hcl]; rfl, he, fun la' hs' => ?_, w, [i, bx, sx], ?_⟩
              · simp [pMapIndex, hp, hpi, hq2, hA la' hs']
              · have := MapIndex.slice (.some (hpi1.1 ▸ hpi2)) h1 h2
                rw [← h3] at this
                simpa [toks, hq2] using this
            · rename_i hq2
              cases h
              refine ⟨[p], q :: r2, rfl, rfl, fun la' hs' => ?_, [.rbrack], [i], ?_⟩
              · obtain ⟨r', rfl⟩ := hs'.cons_inv
                simp [pMapIndex, hp, hpi, hq, hq2, synErr]
              · simpa [toks] using MapIndex.index (hpi1.1 ▸ hpi2)


/-- replay of a body statement -/
theorem pTopStmt_body_succ {n ts x rest} (h : pTopStmt n ts = .ok (.body x, rest)) :
    ∃ c, ts = c ++ rest ∧ c ≠ [] ∧ TopSyn (toks c) ∧
      ∀ rest' n', SameHead rest rest' → 2 * c.length + 1 ≤ n' → pTopStmt n' (c ++ rest') = .ok (.body x, rest') := by
  obtain ⟨c, hc, hres⟩ := pTopStmt_sound h
  have hb : Body (toks c) x := hres
  obtain ⟨t, r, ht, hts⟩ := body_head hb
  obtain ⟨p, r', rfl, hpt, -⟩ := toks_eq_cons ht
  refine ⟨p :: r', hc, by simp, .body hb, fun rest' n' hs hn => ?_⟩
  by_cases hg : ∃ g, p.tok = .IDENTIFIER g
  · obtain ⟨g, hg⟩ := hg
    -- a gate statement: `pTopStmt` hands over to `pSeqStmt`
    cases n with
    | zero => unfold pTopStmt at h; cases h
    | succ n =>
    cases n' with
    | zero => omega
    | succ n' =>
      subst hc
      have hstart : isSeqStart p.tok = true := by rw [hg]; rfl
      rw [List.cons_append, pTopStmt_seqStart hstart] at h ⊢
      split at h
      · cases h
      · rename_i x' r1 hx
        cases h
        obtain ⟨c1, hc1, -, -, hrep⟩ := pSeqStmt_succ hx
        have : c1 = p :: r' := List.append_cancel_right (by simpa using hc1.symm)
        subst this
        have := hrep rest' n' hs (by simp only [List.length_cons] at hn ⊢; omega)
        simp only [List.cons_append] at this
        rw [this]
  · exact body_complete hb rfl (fun ⟨g, r2, hgr⟩ => by
      exfalso; apply hg
      simp only [toks, List.map_cons, List.cons.injEq] at hgr
      exact ⟨g, hgr.1⟩) (by rw [toks_length]; exact hn)


theorem header_of_mapIndex (n src : String) {m idx} (h : MapIndex m idx) :
    Header (.MAP :: .IDENTIFIER n :: .IDENTIFIER src :: .lbrack :: m) (sxMap n src idx) := by
  cases h with
  | index hi => exact Header.mapIndex n src hi
  | slice ha hb hs => exact Header.mapSlice n src ha hb hs

theorem pTopStmt_succ {n ts res rest} (h : pTopStmt n ts = .ok (res, rest)) :
    ∃ c, ts = c ++ rest ∧ c ≠ [] ∧ TopSyn (toks c) ∧
      ∀ rest' n', SameHead rest rest' → 2 * c.length + 1 ≤ n' → pTopStmt n' (c ++ rest') = .ok (res, rest') := by
  have h0 := h
  unfold pTopStmt at h
  split at h
  · cases h
  · rename_i n ts
    split at h
    · cases h
    · rename_i p r
      split at h
      · -- REG
        rename_i hp
        split at h
        · cases h
        · rename_i name r1 h1
          obtain ⟨p1, rfl, hp1, g1⟩ := pIdent_succ h1
          split at h
          · cases h
          · rename_i r2 h2
            obtain ⟨p2, rfl, hp2, g2⟩ := expect_succ h2
            split at h
            · cases h
            · rename_i sz r3 h3
              obtain ⟨p3, rfl, g3⟩ := pLetOrInt_succ h3
              obtain ⟨p3', e3, hlo⟩ := pLetOrInt_sound h3
              simp only [List.cons.injEq] at e3
              split at h
              · cases h
              · rename_i r4 h4
                obtain ⟨p4, rfl, hp4, g4⟩ := expect_succ h4
                have hsyn : TopSyn (toks [p, p1, p2, p3, p4]) := by
                  have := RegisterAny.mk name (e3.1 ▸ hlo)
                  exact .register (by simpa [toks, hp, hp1, hp2, hp4] using this)
                have hrun : ∀ rest' n', 1 ≤ n' → pTopStmt n' ([p, p1, p2, p3, p4] ++ rest') =
                    (match sz with
                      | .int v => if v ≤ 0 then .ok (.bad .registerSize, rest') else .ok (.header (sxRegister name sz), rest')
                      | _ => .ok (.header (sxRegister name sz), rest')) := by
                  intro rest' n' hn
                  cases n' with
                  | zero => omega
                  | succ n' =>
                    simp only [List.cons_append, List.nil_append, pTopStmt, hp, g1, g2, g3, g4]
                    cases sz <;> rfl
                cases sz with
                | int v =>
                  simp only at h
                  split at h
                  · rename_i hv
                    cases h
                    exact ⟨[p, p1, p2, p3, p4], rfl, by simp, hsyn, fun rest' n' hs hn => by
                      rw [hrun rest' n' (by omega)]; simp [hv]⟩
                  · rename_i hv
                    cases h
                    exact ⟨[p, p1, p2, p3, p4], rfl, by simp, hsyn, fun rest' n' hs hn => by
                      rw [hrun rest' n' (by omega)]; simp [hv]⟩
                | _ =>
                  cases h
                  exact ⟨[p, p1, p2, p3, p4], rfl, by simp, hsyn, fun rest' n' hs hn => by
                    rw [hrun rest' n' (by omega)]⟩
      · -- LET
        rename_i hp
        split at h
        · cases h
        · rename_i name r1 h1
          obtain ⟨p1, rfl, hp1, g1⟩ := pIdent_succ h1
          split at h
          · cases h
          · rename_i q r2
            split at h
            · rename_i d hd
              cases h
              refine ⟨[p, p1, q], rfl, by simp, ?_, fun rest' n' hs hn => ?_⟩
              · exact .header (x := sxLet name (.flt d)) (by
                  simpa [toks, hp, hp1, hd, sxLet] using Header.letNumber name d)
              · cases n' with
                | zero => omega
                | succ n' => simp only [List.cons_append, List.nil_append, pTopStmt, hp, g1, hd]
            · rename_i v hv
              cases h
              refine ⟨[p, p1, q], rfl, by simp, ?_, fun rest' n' hs hn => ?_⟩
              · exact .header (x := sxLet name (.int v)) (by
                  simpa [toks, hp, hp1, hv, sxLet] using Header.letInt name v)
              · cases n' with
                | zero => omega
                | succ n' => simp only [List.cons_append, List.nil_append, pTopStmt, hp, g1, hv]
            · cases h
      · -- MAP
        rename_i hp
        split at h
        · cases h
        · rename_i name r1 h1
          obtain ⟨p1, rfl, hp1, g1⟩ := pIdent_succ h1
          split at h
          · cases h
          · rename_i src r2 h2
            obtain ⟨p2, rfl, hp2, g2⟩ := pIdent_succ h2
            have hwhole : TopSyn (toks [p, p1, p2]) :=
              .header (x := sxMap name src []) (by
                simpa [toks, hp, hp1, hp2, sxMap] using Header.mapWhole name src)
            split at h
            · cases h
              refine ⟨[p, p1, p2], rfl, by simp, hwhole, fun rest' n' hs hn => ?_⟩
              rw [hs.nil_inv]
              cases n' with
              | zero => omega
              | succ n' => simp only [List.cons_append, List.nil_append, pTopStmt, hp, g1, g2]
            · rename_i q r3
              split at h
              · rename_i hq
                split at h
                · cases h
                · rename_i idx r4 h4
                  cases h
                  obtain ⟨c, rfl, hmi, gi⟩ := pMapIndex_succ h4
                  refine ⟨p :: p1 :: p2 :: q :: c, rfl, by simp, ?_, fun rest' n' hs hn => ?_⟩
                  · have := header_of_mapIndex name src hmi
                    exact .header (by simpa [toks, hp, hp1, hp2, hq] using this)
                  · cases n' with
                    | zero => omega
                    | succ n' => simp only [List.cons_append, pTopStmt, hp, g1, g2, hq, if_true, gi]
              · rename_i hq
                cases h
                refine ⟨[p, p1, p2], rfl, by simp, hwhole, fun rest' n' hs hn => ?_⟩
                obtain ⟨r', rfl⟩ := hs.cons_inv
                cases n' with
                | zero => omega
                | succ n' => simp only [List.cons_append, List.nil_append, pTopStmt, hp, g1, g2, hq, if_false]
      · -- FROM
        rename_i hp
        split at h
        · cases h
        · rename_i q r1
          split at h
          · rename_i m hm
            split at h
            · cases h
            · rename_i r2 h2
              obtain ⟨p2, rfl, hp2, g2⟩ := expect_succ h2
              split at h
              · cases h
              · rename_i r3 h3
                obtain ⟨p3, rfl, hp3, g3⟩ := expect_succ h3
                cases h
                refine ⟨[p, q, p2, p3], rfl, by simp, ?_, fun rest' n' hs hn => ?_⟩
                · exact .header (x := sxUsepulses m) (by
                    simpa [toks, hp, hm, hp2, hp3, sxUsepulses] using Header.usepulses m)
                · cases n' with
                  | zero => omega
                  | succ n' => simp only [List.cons_append, List.nil_append, pTopStmt, hp, hm, g2, g3]
          · rename_i m hm
            split at h
            · cases h
            · rename_i r2 h2
              obtain ⟨p2, rfl, hp2, g2⟩ := expect_succ h2
              split at h
              · cases h
              · rename_i r3 h3
                obtain ⟨p3, rfl, hp3, g3⟩ := expect_succ h3
                cases h
                refine ⟨[p, q, p2, p3], rfl, by simp, ?_, fun rest' n' hs hn => ?_⟩
                · exact .header (x := sxUsepulses m) (by
                    simpa [toks, hp, hm, hp2, hp3, sxUsepulses] using Header.usepulsesDot m)
                · cases n' with
                  | zero => omega
                  | succ n' => simp only [List.cons_append, List.nil_append, pTopStmt, hp, hm, g2, g3]
          · cases h
      · -- IMPORT
        rename_i hp
        split at h
        · cases h
        · rename_i nm r1 h1
          obtain ⟨p1, rfl, hp1, g1⟩ := pIdent_succ h1
          split at h
          · cases h
          · rename_i r2 h2
            obtain ⟨p2, rfl, hp2, g2⟩ := expect_succ h2
            split at h
            · cases h
            · rename_i nm2 r3 h3
              obtain ⟨p3, rfl, hp3, g3⟩ := pIdent_succ h3
              cases h
              refine ⟨[p, p1, p2, p3], rfl, by simp, ?_, fun rest' n' hs hn => ?_⟩
              · exact .importStmt (by simpa [toks, hp, hp1, hp2, hp3] using ImportStmt.mk nm nm2)
              · cases n' with
                | zero => omega
                | succ n' => simp only [List.cons_append, List.nil_append, pTopStmt, hp, g1, g2, g3]
      · -- MACRO
        split at h
        · cases h
        · simp only at h
          split at h
          · cases h
          · cases h; exact pTopStmt_body_succ h0
      · -- BRANCH
        split at h
        · cases h
        · split at h
          · cases h
          · cases h; exact pTopStmt_body_succ h0
      · -- "{"
        split at h
        · cases h
        · cases h; exact pTopStmt_body_succ h0
      · split at h
        · cases h
        · cases h; exact pTopStmt_body_succ h0


theorem pIdents_replay (ts : List PTok) :
    ∃ ids, ts = ids ++ (pIdents ts).2 ∧ toks ids = (pIdents ts).1.map Tok.IDENTIFIER ∧
      ∀ rest', SameHead (pIdents ts).2 rest' → pIdents (ids ++ rest') = ((pIdents ts).1, rest') := by
  fun_induction pIdents ts
  · exact ⟨[], rfl, rfl, fun rest' hs => by rw [hs.nil_inv]; rfl⟩
  · rename_i p r s hs x ih
    obtain ⟨ids, h1, h2, h3⟩ := ih
    refine ⟨p :: ids, ?_, ?_, fun rest' hs' => ?_⟩
    · simp only [List.cons_append]; exact congrArg _ h1
    · simp only [toks, List.map_cons, hs]; exact congrArg _ h2
    · simp only [List.cons_append, pIdents, hs, h3 rest' hs']
      rfl
  · rename_i p r h1
    refine ⟨[], rfl, rfl, fun rest' hs => ?_⟩
    obtain ⟨r', rfl⟩ := hs.cons_inv
    simp only [List.nil_append, pIdents]

/-- tokens that `pTopStmt` treats itself; every other first token is handed to `pSeqStmt` -/
def isTopSpecial : Tok → Bool
  | .REG | .LET | .MAP | .FROM | .IMPORT | .MACRO | .BRANCH | .lbrace => true
  | _ => false

theorem pTopStmt_default {p : PTok} (h : isTopSpecial p.tok = false) (n : Nat) (r : List PTok) :
    pTopStmt (n+1) (p :: r) =
      match pSeqStmt n (p :: r) with
      | .error e => .error e
      | .ok (x, r1) => .ok (.body x, r1) := by
  cases hp : p.tok <;> simp_all [isTopSpecial, pTopStmt] <;> (split <;> simp_all)

def ComplTop (u : List Tok) : Prop := ∃ w, TopSyn (u ++ w)


theorem regAny (n : String) : RegisterAny [.REG, .IDENTIFIER n, .lbrack, .INT 1, .rbrack] :=
  RegisterAny.mk n (.int 1)

/-- a fixed-shape statement stuck after the tokens `c`: shorthand for the common pattern -/
theorem stuck_fixed {c la : List PTok} {e : ParseErr} {w : List Tok} (he : e = synErr la)
    (hA : ∀ la' n', SameHead la la' → pTopStmt (n' + 1) (c ++ la') = .error (synErr la'))
    (hB : TopSyn (toks c ++ w)) : Stuck pTopStmt 2 ComplTop (c ++ la) e :=
  ⟨c, la, rfl, he, fun la' n' hs hn => by
    cases n' with
    | zero => omega
    | succ n' => exact hA la' n' hs, w, hB⟩

theorem pTopStmt_anat {n ts e} (h : pTopStmt n ts = .error e) (hsyn : IsSyn e) :
    Stuck pTopStmt 2 ComplTop ts e := by
  unfold pTopStmt at h
  split at h
  · cases h; cases hsyn
  · rename_i n ts
    split at h
    · cases h
      exact stuck_fixed (c := []) (la := []) (w := [.IDENTIFIER "g"]) rfl
        (fun la' n' hs => by rw [hs.nil_inv]; rfl) (.body (.stmt (.seqGate someGate)))
    · rename_i p r
      split at h
      · -- REG
        rename_i hp
        split at h
        · rename_i e' h1
          cases h
          obtain ⟨he, hA⟩ := pIdent_stuck h1
          exact stuck_fixed (c := [p]) (w := [.IDENTIFIER "q", .lbrack, .INT 1, .rbrack]) he
            (fun la' n' hs => by simp [pTopStmt, hp, hA la' hs])
            (.register (by simpa [toks, hp] using regAny "q"))
        · rename_i name r1 h1
          obtain ⟨p1, rfl, hp1, g1⟩ := pIdent_succ h1
          split at h
          · rename_i e' h2
            cases h
            obtain ⟨he, hA⟩ := expect_stuck h2
            exact stuck_fixed (c := [p, p1]) (w := [.lbrack, .INT 1, .rbrack]) he
              (fun la' n' hs => by simp [pTopStmt, hp, g1, hA la' hs])
              (.register (by simpa [toks, hp, hp1] using regAny name))
          · rename_i r2 h2
            obtain ⟨p2, rfl, hp2, g2⟩ := expect_succ h2
            split at h
            · rename_i e' h3
              cases h
              obtain ⟨he, hA⟩ := pLetOrInt_stuck h3
              exact stuck_fixed (c := [p, p1, p2]) (w := [.INT 1, .rbrack]) he
                (fun la' n' hs => by simp [pTopStmt, hp, g1, g2, hA la' hs])
                (.register (by simpa [toks, hp, hp1, hp2] using regAny name))
            · rename_i sz r3 h3
              obtain ⟨p3, rfl, g3⟩ := pLetOrInt_succ h3
              obtain ⟨p3', e3, hlo⟩ := pLetOrInt_sound h3
              simp only [List.cons.injEq] at e3
              split at h
              · rename_i e' h4
                cases h
                obtain ⟨he, hA⟩ := expect_stuck h4
                exact stuck_fixed (c := [p, p1, p2, p3]) (w := [.rbrack]) he
                  (fun la' n' hs => by simp [pTopStmt, hp, g1, g2, g3, hA la' hs])
                  (.register (by simpa [toks, hp, hp1, hp2] using RegisterAny.mk name (e3.1 ▸ hlo)))
              · split at h
                · split at h <;> cases h
                · cases h
      · -- LET
        rename_i hp
        split at h
        · rename_i e' h1
          cases h
          obtain ⟨he, hA⟩ := pIdent_stuck h1
          exact stuck_fixed (c := [p]) (w := [.IDENTIFIER "a", .INT 1]) he
            (fun la' n' hs => by simp [pTopStmt, hp, hA la' hs])
            (.header (by simpa [toks, hp] using Header.letInt "a" 1))
        · rename_i name r1 h1
          obtain ⟨p1, rfl, hp1, g1⟩ := pIdent_succ h1
          have hB : TopSyn (toks [p, p1] ++ [.INT 1]) :=
            .header (by simpa [toks, hp, hp1] using Header.letInt name 1)
          split at h
          · cases h
            exact stuck_fixed (c := [p, p1]) (la := []) rfl
              (fun la' n' hs => by rw [hs.nil_inv]; simp [pTopStmt, hp, g1, synErr]) hB
          · rename_i q r2
            split at h
            · cases h
            · cases h
            · rename_i hq1 hq2
              cases h
              exact stuck_fixed (c := [p, p1]) (la := q :: r2) rfl (fun la' n' hs => by
                obtain ⟨r', rfl⟩ := hs.cons_inv
                simp only [List.cons_append, List.nil_append, pTopStmt, hp, g1]
                rfl) hB
      · -- MAP
        rename_i hp
        split at h
        · rename_i e' h1
          cases h
          obtain ⟨he, hA⟩ := pIdent_stuck h1
          exact stuck_fixed (c := [p]) (w := [.IDENTIFIER "a", .IDENTIFIER "b"]) he
            (fun la' n' hs => by simp [pTopStmt, hp, hA la' hs])
            (.header (by simpa [toks, hp] using Header.mapWhole "a" "b"))
        · rename_i name r1 h1
          obtain ⟨p1, rfl, hp1, g1⟩ := pIdent_succ h1
          split at h
          · rename_i e' h2
            cases h
            obtain ⟨he, hA⟩ := pIdent_stuck h2
            exact stuck_fixed (c := [p, p1]) (w := [.IDENTIFIER "b"]) he
              (fun la' n' hs => by simp [pTopStmt, hp, g1, hA la' hs])
              (.header (by simpa [toks, hp, hp1] using Header.mapWhole name "b"))
          · rename_i src r2 h2
            obtain ⟨p2, rfl, hp2, g2⟩ := pIdent_succ h2
            split at h
            · cases h
            · rename_i q r3
              split at h
              · rename_i hq
                split at h
                · rename_i e' h4
                  cases h
                  obtain ⟨c, la, rfl, he, hA, w, idx, hB⟩ := pMapIndex_stuck h4
                  have := stuck_fixed (c := p :: p1 :: p2 :: q :: c) (la := la) (w := w) he
                    (fun la' n' hs => by simp [pTopStmt, hp, g1, g2, hq, hA la' hs])
                    (.header (by simpa [toks, hp, hp1, hp2, hq] using header_of_mapIndex name src hB))
                  simpa using this
                · cases h
              · cases h
      · -- FROM
        rename_i hp
        split at h
        · cases h
          exact stuck_fixed (c := [p]) (la := []) (w := [.IDENTIFIER "a", .USEPULSES, .star]) rfl
            (fun la' n' hs => by rw [hs.nil_inv]; simp [pTopStmt, hp, synErr])
            (.header (by simpa [toks, hp] using Header.usepulses "a"))
        · rename_i q r1
          split at h
          · rename_i m hm
            split at h
            · rename_i e' h2
              cases h
              obtain ⟨he, hA⟩ := expect_stuck h2
              exact stuck_fixed (c := [p, q]) (w := [.USEPULSES, .star]) he
                (fun la' n' hs => by simp [pTopStmt, hp, hm, hA la' hs])
                (.header (by simpa [toks, hp, hm] using Header.usepulses m))
            · rename_i r2 h2
              obtain ⟨p2, rfl, hp2, g2⟩ := expect_succ h2
              split at h
              · rename_i e' h3
                cases h
                obtain ⟨he, hA⟩ := expect_stuck h3
                exact stuck_fixed (c := [p, q, p2]) (w := [.star]) he
                  (fun la' n' hs => by simp [pTopStmt, hp, hm, g2, hA la' hs])
                  (.header (by simpa [toks, hp, hm, hp2] using Header.usepulses m))
              · cases h
          · rename_i m hm
            split at h
            · rename_i e' h2
              cases h
              obtain ⟨he, hA⟩ := expect_stuck h2
              exact stuck_fixed (c := [p, q]) (w := [.USEPULSES, .star]) he
                (fun la' n' hs => by simp [pTopStmt, hp, hm, hA la' hs])
                (.header (by simpa [toks, hp, hm] using Header.usepulsesDot m))
            · rename_i r2 h2
              obtain ⟨p2, rfl, hp2, g2⟩ := expect_succ h2
              split at h
              · rename_i e' h3
                cases h
                obtain ⟨he, hA⟩ := expect_stuck h3
                exact stuck_fixed (c := [p, q, p2]) (w := [.star]) he
                  (fun la' n' hs => by simp [pTopStmt, hp, hm, g2, hA la' hs])
                  (.header (by simpa [toks, hp, hm, hp2] using Header.usepulsesDot m))
              · cases h
          · rename_i hq1 hq2
            cases h
            exact stuck_fixed (c := [p]) (la := q :: r1) (w := [.IDENTIFIER "a", .USEPULSES, .star]) rfl
              (fun la' n' hs => by
                obtain ⟨r', rfl⟩ := hs.cons_inv
                simp only [List.cons_append, List.nil_append, pTopStmt, hp]
                rfl)
              (.header (by simpa [toks, hp] using Header.usepulses "a"))
      · -- IMPORT
        rename_i hp
        split at h
        · rename_i e' h1
          cases h
          obtain ⟨he, hA⟩ := pIdent_stuck h1
          exact stuck_fixed (c := [p]) (w := [.IDENTIFIER "a", .AS, .IDENTIFIER "b"]) he
            (fun la' n' hs => by simp [pTopStmt, hp, hA la' hs])
            (.importStmt (by simpa [toks, hp] using ImportStmt.mk "a" "b"))
        · rename_i nm r1 h1
          obtain ⟨p1, rfl, hp1, g1⟩ := pIdent_succ h1
          split at h
          · rename_i e' h2
            cases h
            obtain ⟨he, hA⟩ := expect_stuck h2
            exact stuck_fixed (c := [p, p1]) (w := [.AS, .IDENTIFIER "b"]) he
              (fun la' n' hs => by simp [pTopStmt, hp, g1, hA la' hs])
              (.importStmt (by simpa [toks, hp, hp1] using ImportStmt.mk nm "b"))
          · rename_i r2 h2
            obtain ⟨p2, rfl, hp2, g2⟩ := expect_succ h2
            split at h
            · rename_i e' h3
              cases h
              obtain ⟨he, hA⟩ := pIdent_stuck h3
              exact stuck_fixed (c := [p, p1, p2]) (w := [.IDENTIFIER "b"]) he
                (fun la' n' hs => by simp [pTopStmt, hp, g1, g2, hA la' hs])
                (.importStmt (by simpa [toks, hp, hp1, hp2] using ImportStmt.mk nm "b"))
            · cases h
      · -- MACRO
        rename_i hp
        split at h
        · rename_i e' h1
          cases h
          obtain ⟨he, hA⟩ := pIdent_stuck h1
          exact stuck_fixed (c := [p]) (w := [.IDENTIFIER "m", .lbrace, .rbrace]) he
            (fun la' n' hs => by simp [pTopStmt, hp, hA la' hs])
            (.body (by simpa [toks, hp] using Body.macroDef "m" [] emptyGateBlock))
        · rename_i name r1 h1
          obtain ⟨p1, rfl, hp1, g1⟩ := pIdent_succ h1
          simp only at h
          split at h
          · rename_i e' hb
            cases h
            obtain ⟨ids, hi1, hi2, hi3⟩ := pIdents_replay r1
            obtain ⟨c2, la, hcl, he, hA, w, x, hB⟩ := (blocks_anat _).2.2.2.2 _ _ hb hsyn
            refine ⟨p :: p1 :: ids ++ c2, la, ?_, he, fun la' n' hs hn => ?_, w, ?_⟩
            · conv => lhs; rw [hi1, hcl]
              simp
            · cases n' with
              | zero => omega
              | succ n' =>
                have e1 : p :: p1 :: ids ++ c2 ++ la' = p :: p1 :: (ids ++ (c2 ++ la')) := by simp
                rw [e1]
                simp only [pTopStmt, hp, g1]
                rw [hi3 (c2 ++ la') (by rw [hcl]; exact hs.append c2)]
                simp only
                rw [hA la' n' hs (by simp only [List.length_append, List.length_cons] at hn ⊢; omega)]
            · have := Body.macroDef name (pIdents r1).1 hB
              exact .body (by simpa [toks, hp, hp1, hi2] using this)
          · cases h
      · -- BRANCH
        rename_i hp
        split at h
        · rename_i e' h1
          cases h
          obtain ⟨he, hA⟩ := expect_stuck h1
          exact stuck_fixed (c := [p]) (w := [.lbrace, .rbrace]) he
            (fun la' n' hs => by simp [pTopStmt, hp, hA la' hs])
            (.body (by simpa [toks, hp] using Body.branch (pad := []) (by intro t ht; cases ht) Cases.nil))
        · rename_i r1 h1
          obtain ⟨p1, rfl, hp1, g1⟩ := expect_succ h1
          split at h
          · rename_i e' hc
            cases h
            obtain ⟨c2, la, hcl, he, hA, w, xs, hB⟩ := pCases_anat _ _ hc hsyn
            obtain ⟨pad, h1', h2', h3'⟩ := skipSeq_spec r1
            refine ⟨p :: p1 :: pad ++ c2, la, ?_, he, fun la' n' hs hn => ?_, w ++ [.rbrace], ?_⟩
            · conv => lhs; rw [h1', hcl]
              simp
            · have hskip : skipSeq (pad ++ (c2 ++ la')) = c2 ++ la' := by
                rw [hcl] at h3'
                exact skipSeq_append h2' (noSeqHead_sameHead h3' hs)
              cases n' with
              | zero => omega
              | succ n' =>
                have e1 : p :: p1 :: pad ++ c2 ++ la' = p :: p1 :: (pad ++ (c2 ++ la')) := by simp
                rw [e1]
                simp only [pTopStmt, hp, g1, hskip]
                rw [hA la' n' hs (by simp only [List.length_append, List.length_cons] at hn ⊢; omega)]
            · have := Body.branch h2' hB
              exact .body (by simpa [toks, hp, hp1] using this)
          · cases h
      · -- "{"
        rename_i hp
        split at h
        · rename_i e' hrec
          cases h
          obtain ⟨c, la, hcl, he, pad, c2, rfl, hpad, hskip, hA, w, xs, hB⟩ :=
            stuck_curly (blocks_anat _).1 hp hrec hsyn
          refine ⟨_, la, hcl, he, fun la' n' hs hn => ?_, w ++ [.rbrace], ?_⟩
          · cases n' with
            | zero => omega
            | succ n' =>
              have e1 : p :: pad ++ c2 ++ la' = p :: (pad ++ (c2 ++ la')) := by simp
              rw [e1]
              simp only [pTopStmt, hp, hskip la' hs]
              rw [hA la' n' hs (by simp only [List.length_append, List.length_cons] at hn ⊢; omega)]
          · have := Body.seqBlock (Block.seqBlock hpad hB)
            exact .body (by simpa [toks, hp] using this)
        · cases h
      · -- every other first token: `pSeqStmt`
        rename_i h1 h2 h3 h4 h5 h6 h7 h8
        have hdef : isTopSpecial p.tok = false := by
          cases hp : p.tok <;> simp_all [isTopSpecial]
        split at h
        · rename_i e' hx
          cases h
          obtain ⟨c, la, hcl, he, hA, w, x, hB⟩ := (blocks_anat _).2.2.1 _ _ hx hsyn
          refine ⟨c, la, hcl, he, fun la' n' hs hn => ?_, w, .body (.stmt hB)⟩
          obtain ⟨r', hr'⟩ := head_replay hcl hs
          cases n' with
          | zero => omega
          | succ n' =>
            rw [hr', pTopStmt_default hdef, ← hr', hA la' n' hs (by omega)]
        · cases h


/-! ## The top level, syntax only -/

/-- `pTop` without the actions. -/
def pTopSyn : Nat → List PTok → Except ParseErr Unit
  | 0, _ => .error .outOfFuel
  | n+1, ts =>
    match ts with
    | [] => .ok ()
    | p :: r =>
      match pTopStmt n (p :: r) with
      | .error e => .error e
      | .ok (_, r1) =>
        match r1 with
        | [] => .ok ()
        | q :: r2 =>
          if isSeqSep q.tok then pTopSyn n (skipSeq r2) else .error (.syntaxAt q.line q.index)

/-- `parse` without the actions: accepts exactly the context-free part (`parseSyn_complete`). -/
def parseSyn (ts : List PTok) : Except ParseErr Unit := pTopSyn (fuelFor ts) (skipSeq ts)

theorem topAction_not_syn {inBody l i atEnd res e} (h : topAction inBody l i atEnd res = .error e) : ¬ IsSyn e := by
  cases res with
  | bad k => cases h; exact id
  | header y => simp only [topAction] at h; split at h <;> cases h; exact id
  | body y => cases h

/-- A syntax error of `pTop` is a syntax error of `pTopSyn`. -/
theorem pTop_syn (n : Nat) (inBody : Bool) (ts : List PTok) : ∀ {e}, pTop n inBody ts = .error e → IsSyn e →
    pTopSyn n ts = .error e := by
  fun_induction pTop n inBody ts <;> intro e h hsyn <;> cases h
  case case1 => cases hsyn
  case case3 n ib p tail e' hx => simp only [pTopSyn, hx]
  case case4 n ib p tail res e' hact hx => exact absurd hsyn (topAction_not_syn hact)
  case case6 n ib p tail res q tail' hsep e' hact hx => exact absurd hsyn (topAction_not_syn hact)
  case case7 n ib p tail res q tail' hsep x ib' hact e' hrec hx ih =>
    simp only [pTopSyn, hx, hsep, if_true]
    exact ih hrec hsyn
  case case9 n ib p tail res q tail' hsep hx =>
    simp only [pTopSyn, hx, hsep]
    rfl

theorem parse_syn {ts e} (h : parse ts = .error e) (hsyn : IsSyn e) : parseSyn ts = .error e := by
  unfold parse at h
  split at h
  · rename_i e' hx
    cases h
    exact pTop_syn _ _ _ hx hsyn
  · cases h

/-! ### completeness for the context-free part -/

theorem topSyn_head {s} (h : TopSyn s) : ∃ t r, s = t :: r ∧ isSeqSep t = false := by
  cases h with
  | header hh => exact header_head hh
  | body hb => exact body_head hb
  | register hr => cases hr; exact ⟨_, _, rfl, rfl⟩
  | importStmt hi => cases hi; exact ⟨_, _, rfl, rfl⟩

theorem topSyn_complete {s} (h : TopSyn s) {pts : List PTok} (hp : toks pts = s) {rest : List PTok}
    (hf : TopFollow rest) {n : Nat} (hn : 2 * s.length + 1 ≤ n) :
    ∃ res, pTopStmt n (pts ++ rest) = .ok (res, rest) := by
  cases n with
  | zero => omega
  | succ n =>
  cases h with
  | header hh => exact ⟨_, header_complete hh hp hf n⟩
  | body hb => exact ⟨_, body_complete hb hp (fun _ => hf.follow) hn⟩
  | register hr =>
    cases hr with
    | @mk nm sz szx hsz =>
      obtain ⟨p1, r, rfl, h1, hr⟩ := toks_eq_cons hp
      obtain ⟨p2, r, rfl, h2, hr⟩ := toks_eq_cons hr
      obtain ⟨p3, r, rfl, h3, hr⟩ := toks_eq_cons hr
      obtain ⟨p4, r, rfl, h4, hr⟩ := toks_eq_cons hr
      obtain ⟨p5, r, rfl, h5, hr⟩ := toks_eq_cons hr
      rw [toks_eq_nil hr]
      simp only [pTopStmt, List.cons_append, List.nil_append, h1, pIdent, h2, expect, h3, if_true,
        pLetOrInt_complete hsz h4, h5]
      cases hsz with
      | ident s => exact ⟨_, rfl⟩
      | int v =>
        simp only
        split <;> exact ⟨_, rfl⟩
  | importStmt hi =>
    cases hi with
    | mk a b =>
      obtain ⟨p1, r, rfl, h1, hr⟩ := toks_eq_cons hp
      obtain ⟨p2, r, rfl, h2, hr⟩ := toks_eq_cons hr
      obtain ⟨p3, r, rfl, h3, hr⟩ := toks_eq_cons hr
      obtain ⟨p4, r, rfl, h4, hr⟩ := toks_eq_cons hr
      rw [toks_eq_nil hr]
      exact ⟨.bad .importStmt, by simp only [pTopStmt, List.cons_append, List.nil_append, h1, pIdent, h2,
        expect, h3, h4, if_true]⟩

theorem stmtsSyn_noSeqHead {ts} (h : StmtsSyn ts) {pts : List PTok} (hp : toks pts = ts) : NoSeqHead pts := by
  have key : ∀ {s rest : List Tok}, (∃ t r, s = t :: r ∧ isSeqSep t = false) →
      toks pts = s ++ rest → NoSeqHead pts := by
    intro s rest ⟨t, r, hs, ht⟩ hp
    subst hs
    obtain ⟨p, r', rfl, hpt, -⟩ := toks_eq_cons hp
    simp only [NoSeqHead, hpt, ht]
  cases h with
  | nil => rw [toks_eq_nil hp]; trivial
  | last hs => exact key (topSyn_head hs) (rest := []) (by simpa using hp)
  | cons hs _ _ => exact key (topSyn_head hs) (by simpa using hp)

theorem pTopSyn_complete {ts} (h : StmtsSyn ts) : ∀ (pts : List PTok) (n : Nat), toks pts = ts →
    2 * ts.length + 2 ≤ n → pTopSyn n pts = .ok () := by
  induction h with
  | nil =>
    intro pts n hp hn
    rw [toks_eq_nil hp]
    cases n with
    | zero => omega
    | succ n => rfl
  | @last s hs =>
    intro pts n hp hn
    cases n with
    | zero => omega
    | succ n =>
      obtain ⟨t, r, hst, -⟩ := topSyn_head hs
      obtain ⟨p, r', rfl, -, -⟩ := toks_eq_cons (hst ▸ hp)
      obtain ⟨res, hres⟩ := topSyn_complete hs hp (rest := []) trivial (n := n) (by omega)
      simp only [List.append_nil] at hres
      simp only [pTopSyn, hres]
  | @cons s sep rest hs hsep hrest ih =>
    intro pts n hp hn
    cases n with
    | zero => omega
    | succ n =>
      obtain ⟨p1, prest, rfl, h1, hprest⟩ := toks_eq_append hp
      obtain ⟨ps, psep, rfl, hps, hpsep⟩ := toks_eq_append h1
      obtain ⟨t, r, hst, -⟩ := topSyn_head hs
      obtain ⟨p, r', rfl, -, -⟩ := toks_eq_cons (hst ▸ hps)
      obtain ⟨hsep1, hsep2⟩ := hsep
      cases psep with
      | nil => rw [← hpsep] at hsep1; simp [toks] at hsep1
      | cons qs psep' =>
        have hqs : isSeqSep qs.tok = true := (isSeqSep_iff _).2 (hsep2 _ (by rw [← hpsep]; simp [toks]))
        have hpad : SeqPad (toks psep') := fun t ht => hsep2 t (by
          rw [← hpsep]; simp only [toks, List.map_cons, List.mem_cons]; exact Or.inr ht)
        have hlen : s.length + (sep.length + rest.length) = (s ++ sep ++ rest).length := by simp
        have hsl : 1 ≤ sep.length := by rw [← hpsep]; simp [toks]
        obtain ⟨res, hres⟩ := topSyn_complete hs hps (rest := qs :: (psep' ++ prest)) hqs (n := n) (by omega)
        have e : p :: r' ++ qs :: psep' ++ prest = p :: (r' ++ qs :: (psep' ++ prest)) := by simp
        rw [e]
        simp only [List.cons_append] at hres
        rw [pTopSyn]
        simp only [hres, hqs, if_true]
        rw [skipSeq_append hpad (stmtsSyn_noSeqHead hrest hprest)]
        exact ih prest n hprest (by omega)

/-- Every sentence of the context-free part is accepted by the syntax-only parser. -/
theorem parseSyn_complete {ts : List PTok} (h : Syntax (toks ts)) : parseSyn ts = .ok () := by
  generalize hts : toks ts = tt at h
  cases h with
  | @circuit pad body hpad hbody =>
    obtain ⟨ppad, pbody, rfl, hppad, hpbody⟩ := toks_eq_append hts
    have h1 := skipSeq_append (hppad ▸ hpad) (stmtsSyn_noSeqHead hbody hpbody)
    have h2 := pTopSyn_complete hbody pbody (fuelFor (ppad ++ pbody)) hpbody (by
      rw [← hpbody]; simp [fuelFor, toks]; omega)
    simp only [parseSyn, h1, h2]


def ComplStmts (u : List Tok) : Prop := ∃ w, StmtsSyn (u ++ w)

theorem pTopSyn_anat (n : Nat) (ts : List PTok) : ∀ {e}, pTopSyn n ts = .error e → IsSyn e →
    Stuck pTopSyn 3 ComplStmts ts e := by
  fun_induction pTopSyn n ts <;> intro e h hsyn
  · cases h; cases hsyn
  · cases h
  · -- the statement fails
    rename_i n p r e' hx
    cases h
    obtain ⟨c, la, hcl, he, hA, w, hB⟩ := pTopStmt_anat hx hsyn
    refine ⟨c, la, hcl, he, fun la' n' hs hn => ?_, w, .last hB⟩
    obtain ⟨r', hr'⟩ := head_replay hcl hs
    cases n' with
    | zero => omega
    | succ n' =>
      rw [hr', pTopSyn, ← hr', hA la' n' hs (by omega)]
  · cases h
  · -- a later statement fails
    rename_i n p r res q r2 hsep hx ih
    obtain ⟨c1, hc1, hne, hsyn1, hrep⟩ := pTopStmt_succ hx
    obtain ⟨c2, la, hcl, he, hA, w, hB⟩ := ih h hsyn
    obtain ⟨pad, h1, h2, h3⟩ := skipSeq_spec r2
    refine ⟨c1 ++ q :: pad ++ c2, la, ?_, he, fun la' n' hs hn => ?_, w, ?_⟩
    · rw [hc1]; conv => lhs; rw [h1, hcl]
      simp
    · have hskip : skipSeq (pad ++ (c2 ++ la')) = c2 ++ la' := by
        rw [hcl] at h3
        exact skipSeq_append h2 (noSeqHead_sameHead h3 hs)
      have e1 : c1 ++ q :: pad ++ c2 ++ la' = c1 ++ (q :: (pad ++ (c2 ++ la'))) := by simp
      obtain ⟨r', hr'⟩ : ∃ r', c1 ++ (q :: (pad ++ (c2 ++ la'))) = p :: r' := by
        cases c1 with
        | nil => exact absurd rfl hne
        | cons d c1 =>
          simp only [List.cons_append, List.cons.injEq] at hc1
          exact ⟨_, by rw [hc1.1]; rfl⟩
      cases n' with
      | zero => omega
      | succ n' =>
        rw [e1, hr', pTopSyn, ← hr']
        rw [hrep _ n' (by simp [SameHead]) (by simp only [List.length_append, List.length_cons] at hn ⊢; omega)]
        simp only [hsep, if_true, hskip]
        exact hA la' n' hs (by simp only [List.length_append, List.length_cons] at hn ⊢; omega)
    · have := StmtsSyn.cons hsyn1 (seqSep_single hsep h2) hB
      simpa [toks] using this
  · -- neither a separator nor the end
    rename_i n p r res q r2 hsep hx
    cases h
    obtain ⟨c1, hc1, hne, hsyn1, hrep⟩ := pTopStmt_succ hx
    refine ⟨c1, q :: r2, hc1, rfl, fun la' n' hs hn => ?_, [], by simpa using StmtsSyn.last hsyn1⟩
    obtain ⟨r2', rfl⟩ := hs.cons_inv
    obtain ⟨r', hr'⟩ : ∃ r', c1 ++ (q :: r2') = p :: r' := by
      cases c1 with
      | nil => exact absurd rfl hne
      | cons d c1 =>
        simp only [List.cons_append, List.cons.injEq] at hc1
        exact ⟨_, by rw [hc1.1]; rfl⟩
    cases n' with
    | zero => omega
    | succ n' =>
      rw [hr', pTopSyn, ← hr']
      rw [hrep _ n' (by simp [SameHead]) (by simp only [List.length_append, List.length_cons] at hn ⊢; omega)]
      simp only [hsep]
      rfl

/-- Anatomy of a syntax error of `parse`: the input splits into `c ++ la`, the error is reported at the
head of `la` (or at the end), `c` is a viable prefix of the context-free grammar, and no input that agrees
with this one up to and including the head of `la` is a sentence. -/
theorem parse_anat {ts : List PTok} {e : ParseErr} (h : parse ts = .error e) (hsyn : IsSyn e) :
    ∃ c la, ts = c ++ la ∧ e = synErr la ∧ Viable (toks c) ∧
      ∀ la', SameHead la la' → ¬ Syntax (toks (c ++ la')) := by
  have h1 := parse_syn h hsyn
  unfold parseSyn at h1
  obtain ⟨c2, la, hcl, he, hA, w, hB⟩ := pTopSyn_anat _ _ h1 hsyn
  obtain ⟨pad, hp1, hp2, hp3⟩ := skipSeq_spec ts
  refine ⟨pad ++ c2, la, by rw [List.append_assoc, ← hcl]; exact hp1, he, ⟨w, ?_⟩, fun la' hs hsx => ?_⟩
  · have := Syntax.circuit hp2 hB
    simpa [toks] using this
  · have hok := parseSyn_complete hsx
    unfold parseSyn at hok
    have hskip : skipSeq (pad ++ c2 ++ la') = c2 ++ la' := by
      rw [List.append_assoc]
      rw [hcl] at hp3
      exact skipSeq_append hp2 (noSeqHead_sameHead hp3 hs)
    rw [hskip, hA la' _ hs (by simp [fuelFor]; omega)] at hok
    cases hok


end Jaqal.Parser
