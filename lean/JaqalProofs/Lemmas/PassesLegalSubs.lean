import JaqalProofs.Lemmas.PassesSubs
import JaqalProofs.Props.C04
/-!
`expand_subcircuits` keeps `ExpandMacros.WellFormed`: the inserted bounding statements are parameterless calls of
definitions that are no macros of the circuit (the pass checks both), everything else is copied.
-/
namespace Jaqal.Passes
open Jaqal Jaqal.ExpandSubcircuits Jaqal.ExpandMacros

/-! ### the three statement predicates as one, lists as `all` -/

theorem wfStmtList_all (ms : List Macro) : ∀ l : List Stmt, wfStmtList ms l = l.all (wfStmt ms)
  | [] => rfl
  | s :: r => by simp [wfStmtList, wfStmtList_all ms r]
theorem inScopeList_all' (a all : List String) : ∀ l : List Stmt, inScopeList a all l = l.all (inScope a all)
  | [] => rfl
  | s :: r => by simp [inScopeList, inScopeList_all' a all r]
theorem wfTList_all : ∀ l : List Stmt, wfTList l = l.all wfT
  | [] => rfl
  | s :: r => by simp [wfTList, wfTList_all r]

/-- everything `WellFormed` says about one statement (for the macro table `ms`, callable macros `avail`) -/
def okS (ms : List Macro) (avail : List String) (s : Stmt) : Bool :=
  wfStmt ms s && inScope avail (ms.map (·.name)) s && wfT s

theorem all3 {α : Type} (f g h : α → Bool) : ∀ l : List α,
    (l.all f && l.all g && l.all h) = l.all (fun x => f x && g x && h x)
  | [] => rfl
  | x :: r => by
    simp only [List.all_cons, ← all3 f g h r]
    cases f x <;> cases g x <;> cases h x <;> cases r.all f <;> cases r.all g <;> cases r.all h <;> rfl

theorem okS_block (ms : List Macro) (avail : List String) (par sub : Bool) (it : Val) (body : List Stmt) :
    okS ms avail (.block par sub it body) =
      ((isParam it || noParam it) && isIndexLike it && body.all (okS ms avail)) := by
  have e : body.all (okS ms avail) =
      (body.all (wfStmt ms) && body.all (inScope avail (ms.map (·.name))) && body.all wfT) := by
    rw [all3]; rfl
  rw [e]
  simp only [okS, wfStmt, inScope, wfT, wfStmtList_all, inScopeList_all', wfTList_all]
  generalize (isParam it || noParam it) = a
  generalize isIndexLike it = b
  generalize body.all (wfStmt ms) = c
  generalize body.all (inScope avail (ms.map (·.name))) = d
  generalize body.all wfT = e'
  cases a <;> cases b <;> cases c <;> cases d <;> cases e' <;> rfl

mutual
  /-- spelling out keeps a statement well formed when the inserted statements are (needed only if a subcircuit occurs) -/
  theorem okS_spell (ms : List Macro) (avail : List String) (p m : Stmt) : ∀ (s : Stmt), okS ms avail s = true →
      (hasSub s = true → okS ms avail p = true ∧ okS ms avail m = true) → okS ms avail (spell p m s) = true
    | .gate n gd a, h, _ => by simpa [spell] using h
    | .loop c b, h, hg => by
      simp only [okS, wfStmt, inScope, wfT, Bool.and_eq_true] at h
      have ih := okS_spell ms avail p m b (by simp [okS, h.1.1.2, h.1.2, h.2.2]) (fun hs => hg (by simpa [hasSub] using hs))
      simp only [okS, Bool.and_eq_true] at ih
      simp [spell, okS, wfStmt, inScope, wfT, h.1.1.1, h.2.1, ih.1.1, ih.1.2, ih.2]
    | .block par sub it body, h, hg => by
      rw [okS_block] at h
      simp only [Bool.and_eq_true] at h
      have ihl := okSList_spell ms avail p m body h.2 (fun hs => hg (by simp [hasSub, hs]))
      cases sub with
      | false =>
        simp only [spell, Bool.false_eq_true, if_false]
        rw [okS_block]
        simp [noParam, isIndexLike, ihl]
      | true =>
        obtain ⟨hp, hm⟩ := hg (by simp [hasSub])
        simp only [spell, if_true]
        rw [okS_block]
        simp [noParam, isIndexLike, ihl, hp, hm]
  theorem okSList_spell (ms : List Macro) (avail : List String) (p m : Stmt) : ∀ (l : List Stmt),
      l.all (okS ms avail) = true → (hasSubList l = true → okS ms avail p = true ∧ okS ms avail m = true) →
      (spellList p m l).all (okS ms avail) = true
    | [], _, _ => by simp [spellList]
    | s :: r, h, hg => by
      simp only [List.all_cons, Bool.and_eq_true] at h
      simp only [spellList, List.all_cons, Bool.and_eq_true]
      exact ⟨okS_spell ms avail p m s h.1 (fun hs => hg (by simp [hasSubList, hs])),
        okSList_spell ms avail p m r h.2 (fun hs => hg (by simp [hasSubList, hs]))⟩
end

/-! ### a subcircuit block that was expanded had parameterless bounding definitions -/

mutual
  theorem visitStmt_sub_params (pd md : GateDef) : ∀ (s s' : Stmt), visitStmt pd md s = .ok s' → hasSub s = true →
      pd.params = [] ∧ md.params = []
    | .gate n gd a, s', _, hs => by simp [hasSub] at hs
    | .loop c b, s', h, hs => by
      simp only [visitStmt, bind, Except.bind] at h
      cases hb : visitStmt pd md b with
      | error e => rw [hb] at h; cases h
      | ok b' => exact visitStmt_sub_params pd md b b' hb (by simpa [hasSub] using hs)
    | .block par sub it body, s', h, hs => by
      cases sub with
      | true =>
        simp only [visitStmt, if_true, bind, Except.bind] at h
        cases hp : GateDef.callPos pd [] with
        | error e => rw [hp] at h; cases h
        | ok p =>
          rw [hp] at h; simp only at h
          cases hl : visitList pd md body with
          | error e => rw [hl] at h; cases h
          | ok l =>
            rw [hl] at h; simp only at h
            cases hm : GateDef.callPos md [] with
            | error e => rw [hm] at h; cases h
            | ok m => exact ⟨(callPos_nil_ok hp).2, (callPos_nil_ok hm).2⟩
      | false =>
        simp only [visitStmt, Bool.false_eq_true, if_false, bind, Except.bind] at h
        cases hl : visitList pd md body with
        | error e => rw [hl] at h; cases h
        | ok l => exact visitList_sub_params pd md body l hl (by simpa [hasSub] using hs)
  theorem visitList_sub_params (pd md : GateDef) : ∀ (l l' : List Stmt), visitList pd md l = .ok l' → hasSubList l = true →
      pd.params = [] ∧ md.params = []
    | [], _, _, hs => by simp [hasSubList] at hs
    | s :: r, l', h, hs => by
      simp only [visitList, bind, Except.bind] at h
      cases hv : visitStmt pd md s with
      | error e => rw [hv] at h; cases h
      | ok s' =>
        rw [hv] at h; simp only at h
        cases hr : visitList pd md r with
        | error e => rw [hr] at h; cases h
        | ok r' =>
          simp only [hasSubList, Bool.or_eq_true] at hs
          rcases hs with hs | hs
          · exact visitStmt_sub_params pd md s s' hv hs
          · exact visitList_sub_params pd md r r' hr hs
end

theorem visitMacros_sub_params (pd md : GateDef) : ∀ (ms ms' : List Macro), visitMacros pd md ms = .ok ms' →
    ∀ m ∈ ms, hasSub m.body = true → pd.params = [] ∧ md.params = []
  | [], _, _, m, hm, _ => by cases hm
  | m0 :: r, ms', h, m, hm, hs => by
    simp only [visitMacros, bind, Except.bind] at h
    cases hb : visitStmt pd md m0.body with
    | error e => rw [hb] at h; cases h
    | ok b =>
      rw [hb] at h; simp only at h
      cases hr : visitMacros pd md r with
      | error e => rw [hr] at h; cases h
      | ok r' =>
        rcases List.mem_cons.1 hm with rfl | hm
        · exact visitStmt_sub_params pd md _ b hb hs
        · exact visitMacros_sub_params pd md r r' hr m hm hs

/-! ### the macro table -/

theorem findMacro_spell (p m : Stmt) (n : String) : ∀ (ms : List Macro),
    findMacro (ms.map (spellMacro p m)) n = (findMacro ms n).map (spellMacro p m)
  | [] => rfl
  | m0 :: r => by
    simp only [findMacro, List.map_cons, List.find?_cons, spellMacro] at *
    cases (m0.name == n) with
    | true => rfl
    | false => simpa [findMacro, spellMacro] using findMacro_spell p m n r

mutual
  theorem wfStmt_spellTable (p m : Stmt) (ms : List Macro) : ∀ (s : Stmt),
      wfStmt (ms.map (spellMacro p m)) s = wfStmt ms s
    | .gate n gd a => by
      simp only [wfStmt, wfGate, findMacro_spell]
      cases findMacro ms n <;> rfl
    | .loop c b => by simp only [wfStmt, wfStmt_spellTable p m ms b]
    | .block _ _ it body => by simp only [wfStmt, wfStmtList_spellTable p m ms body]
  theorem wfStmtList_spellTable (p m : Stmt) (ms : List Macro) : ∀ (l : List Stmt),
      wfStmtList (ms.map (spellMacro p m)) l = wfStmtList ms l
    | [] => rfl
    | s :: r => by simp only [wfStmtList, wfStmt_spellTable p m ms s, wfStmtList_spellTable p m ms r]
end

theorem names_spellTable (p m : Stmt) (ms : List Macro) : (ms.map (spellMacro p m)).map (·.name) = ms.map (·.name) := by
  simp [spellMacro, Function.comp_def]

/-- a parameterless bounding definition that is no macro of the table is a well-formed statement anywhere -/
theorem okS_boundGate (ms : List Macro) (avail : List String) (gd : GateDef) (hp : gd.params = [])
    (hn : ∀ m ∈ ms, (m.name == gd.name) = false) : okS ms avail (boundGate gd) = true := by
  have hf : findMacro ms gd.name = none := by
    unfold findMacro
    rw [List.find?_eq_none]
    intro m hm
    simp [hn m hm]
  have hnot : gd.name ∉ ms.map (·.name) := by
    intro hmem
    obtain ⟨m, hm, he⟩ := List.mem_map.1 hmem
    have := hn m hm
    simp [he] at this
  simp [okS, boundGate, wfStmt, wfGate, inScope, wfT, hp, hf, hnot]

theorem wfMacrosFrom_spell (ms : List Macro) (p m : Stmt)
    (hgood : ∀ avail, okS ms avail p = true ∧ okS ms avail m = true) :
    ∀ (pre : List String) (r : List Macro), (∀ x ∈ r, wfT x.body = true) → wfMacrosFrom ms pre r = true →
      wfMacrosFrom (ms.map (spellMacro p m)) pre (r.map (spellMacro p m)) = true ∧
        ∀ x ∈ r.map (spellMacro p m), wfT x.body = true
  | pre, [], _, _ => by simp [wfMacrosFrom]
  | pre, x :: r, hT, h => by
    simp only [wfMacrosFrom, Bool.and_eq_true] at h
    obtain ⟨⟨h1, h2⟩, h3⟩ := h
    have hx : okS ms pre x.body = true := by simp [okS, h1, h2, hT x (by simp)]
    have hsp := okS_spell ms pre p m x.body hx (fun _ => hgood pre)
    simp only [okS, Bool.and_eq_true] at hsp
    obtain ⟨ih1, ih2⟩ := wfMacrosFrom_spell ms p m hgood (pre ++ [x.name]) r (fun y hy => hT y (by simp [hy])) h3
    refine ⟨?_, ?_⟩
    · simp only [List.map_cons, wfMacrosFrom, Bool.and_eq_true, names_spellTable]
      refine ⟨⟨?_, hsp.1.2⟩, ?_⟩
      · rw [wfStmt_spellTable]; exact hsp.1.1
      · simpa [spellMacro] using ih1
    · intro y hy
      simp only [List.map_cons, List.mem_cons] at hy
      rcases hy with rfl | hy
      · exact hsp.2
      · exact ih2 y hy

/-- the same when no subcircuit occurs anywhere: nothing is inserted -/
theorem wfMacrosFrom_spell_nosub (ms : List Macro) (p m : Stmt) :
    ∀ (pre : List String) (r : List Macro), (∀ x ∈ r, hasSub x.body = false) → (∀ x ∈ r, wfT x.body = true) →
      wfMacrosFrom ms pre r = true →
      wfMacrosFrom (ms.map (spellMacro p m)) pre (r.map (spellMacro p m)) = true ∧
        ∀ x ∈ r.map (spellMacro p m), wfT x.body = true
  | pre, [], _, _, _ => by simp [wfMacrosFrom]
  | pre, x :: r, hns, hT, h => by
    simp only [wfMacrosFrom, Bool.and_eq_true] at h
    obtain ⟨⟨h1, h2⟩, h3⟩ := h
    have hx : okS ms pre x.body = true := by simp [okS, h1, h2, hT x (by simp)]
    have hsp := okS_spell ms pre p m x.body hx (fun hs => by rw [hns x (by simp)] at hs; cases hs)
    simp only [okS, Bool.and_eq_true] at hsp
    obtain ⟨ih1, ih2⟩ := wfMacrosFrom_spell_nosub ms p m (pre ++ [x.name]) r (fun y hy => hns y (by simp [hy]))
      (fun y hy => hT y (by simp [hy])) h3
    refine ⟨?_, ?_⟩
    · simp only [List.map_cons, wfMacrosFrom, Bool.and_eq_true, names_spellTable]
      refine ⟨⟨?_, hsp.1.2⟩, ?_⟩
      · rw [wfStmt_spellTable]; exact hsp.1.1
      · simpa [spellMacro] using ih1
    · intro y hy
      simp only [List.map_cons, List.mem_cons] at hy
      rcases hy with rfl | hy
      · exact hsp.2
      · exact ih2 y hy

/-- **`expand_subcircuits` keeps `ExpandMacros.WellFormed`.** -/
theorem expandSubcircuits_wellFormed (c c' : Circuit) (hw : WellFormed c = true)
    (h : expandSubcircuits none none c = .ok c') : WellFormed c' = true := by
  have hnb := noBoundingMacro_of_ok h
  obtain ⟨it, b0, hb0⟩ := WellFormed_body_block hw
  have hbody := C09_shape_body hb0 h
  have hmac := (C09_shape h).1
  -- the two visits that succeeded
  have hvis : ∃ ms' b, visitMacros (chooseBounding none "prepare_all" c) (chooseBounding none "measure_all" c) c.macros = .ok ms' ∧
      visitStmt (chooseBounding none "prepare_all" c) (chooseBounding none "measure_all" c) c.body = .ok b := by
    obtain ⟨hcp, hcm⟩ := expandSubcircuits_ok_noclash h
    have h' := h
    rw [expandSubcircuits_noclash hcp hcm] at h'
    unfold expandCore at h'
    simp only [bind, Except.bind] at h'
    cases hm : visitMacros (chooseBounding none "prepare_all" c) (chooseBounding none "measure_all" c) c.macros with
    | error e => rw [hm] at h'; cases h'
    | ok ms' =>
      rw [hm] at h'; simp only at h'
      cases hb : visitStmt (chooseBounding none "prepare_all" c) (chooseBounding none "measure_all" c) c.body with
      | error e => rw [hb] at h'; cases h'
      | ok b => exact ⟨ms', b, rfl, rfl⟩
  obtain ⟨ms', b, hvm, hvb⟩ := hvis
  have hpn := chooseBounding_none_name "prepare_all" c
  have hmn := chooseBounding_none_name "measure_all" c
  simp only [WellFormed, Bool.and_eq_true] at hw
  obtain ⟨⟨⟨⟨hwm, hwb⟩, _⟩, hTb⟩, hTm⟩ := hw
  have hTm' : ∀ x ∈ c.macros, wfT x.body = true := by simpa [List.all_eq_true] using hTm
  have hbodyOk : okS c.macros (c.macros.map (·.name)) c.body = true := by
    simp [okS, hwb, hTb, inScope_all]
  -- either both bounding definitions are parameterless, or no subcircuit occurs anywhere
  by_cases hpar : (chooseBounding none "prepare_all" c).params = [] ∧ (chooseBounding none "measure_all" c).params = []
  · have hgood : ∀ avail, okS c.macros avail (prepStmt none c) = true ∧ okS c.macros avail (measStmt none c) = true := by
      intro avail
      exact ⟨okS_boundGate _ _ _ hpar.1 (by rw [hpn]; exact fun m hm => (hnb m hm).1),
        okS_boundGate _ _ _ hpar.2 (by rw [hmn]; exact fun m hm => (hnb m hm).2)⟩
    obtain ⟨hm1, hm2⟩ := wfMacrosFrom_spell c.macros _ _ hgood [] c.macros hTm' hwm
    have hb1 := okS_spell c.macros _ (prepStmt none c) (measStmt none c) c.body hbodyOk (fun _ => hgood _)
    simp only [okS, Bool.and_eq_true] at hb1
    simp only [WellFormed, Bool.and_eq_true, hmac, hbody, hm1, wfStmt_spellTable, hb1.1.1, hb1.2, List.all_eq_true]
    refine ⟨⟨⟨⟨trivial, trivial⟩, ?_⟩, trivial⟩, hm2⟩
    rw [hb0]; simp [spell]
  · have hns : hasSub c.body = false := by
      cases hs : hasSub c.body with
      | false => rfl
      | true => exact absurd (visitStmt_sub_params _ _ _ _ hvb hs) hpar
    have hnsm : ∀ x ∈ c.macros, hasSub x.body = false := by
      intro x hx
      cases hs : hasSub x.body with
      | false => rfl
      | true => exact absurd (visitMacros_sub_params _ _ _ _ hvm x hx hs) hpar
    obtain ⟨hm1, hm2⟩ := wfMacrosFrom_spell_nosub c.macros (prepStmt none c) (measStmt none c) [] c.macros hnsm hTm' hwm
    have hb1 := okS_spell c.macros _ (prepStmt none c) (measStmt none c) c.body hbodyOk
      (fun hs => by rw [hns] at hs; cases hs)
    simp only [okS, Bool.and_eq_true] at hb1
    simp only [WellFormed, Bool.and_eq_true, hmac, hbody, hm1, wfStmt_spellTable, hb1.1.1, hb1.2, List.all_eq_true]
    refine ⟨⟨⟨⟨trivial, trivial⟩, ?_⟩, trivial⟩, hm2⟩
    rw [hb0]; simp [spell]

end Jaqal.Passes

#print axioms Jaqal.Passes.expandSubcircuits_wellFormed
