import JaqalModel.Model.FillIn
import JaqalModel.Spec.Sem
import JaqalProofs.Lemmas.BuilderRefs
import JaqalProofs.Lemmas.ExpandMacrosVal
import Mathlib.Tactic.Linarith
import Mathlib.Tactic.Ring
/-!
Lemmas for C06: the library's closed-form alias resolution (`Resolve.resolveReg`) against the specification's
extensional reading (`Sem.evalReg`: a register denotes the list of fundamental qubits it stands for).
-/
namespace Jaqal.FillIn
open Jaqal Jaqal.Builder Jaqal.Resolve

/-! ### Ranges -/

/-- membership of the `j`-th element in `range(a, e, s)` without division -/
theorem lt_rangeLenI_iff {a e s j : Int} (hs : s ≠ 0) (hj : 0 ≤ j) :
    j < rangeLenI a e s ↔ (if s > 0 then a + j * s < e else a + j * s > e) := by
  unfold rangeLenI
  rcases Int.lt_or_gt_of_ne hs with hneg | hpos
  · have hn : ¬ s > 0 := by omega
    simp only [hn, if_false]
    have hps : 0 < -s := by omega
    by_cases hae : a ≤ e
    · simp only [hae, if_true]
      have : j * s ≤ 0 := Int.mul_nonpos_of_nonneg_of_nonpos hj (by omega)
      constructor
      · intro h; omega
      · intro h; omega
    · simp only [hae, if_false]
      constructor
      · intro h
        have h1 : j + 1 ≤ (a - e + -s - 1) / -s := by omega
        have := (Int.le_ediv_iff_mul_le hps).1 h1
        nlinarith
      · intro h
        have h1 : (j + 1) * -s ≤ a - e + -s - 1 := by nlinarith
        have := (Int.le_ediv_iff_mul_le hps).2 h1
        omega
  · simp only [hpos, if_true]
    by_cases hea : e ≤ a
    · simp only [hea, if_true]
      have : 0 ≤ j * s := Int.mul_nonneg hj (by omega)
      constructor
      · intro h; omega
      · intro h; omega
    · simp only [hea, if_false]
      constructor
      · intro h
        have h1 : j + 1 ≤ (e - a + s - 1) / s := by omega
        have := (Int.le_ediv_iff_mul_le hpos).1 h1
        nlinarith
      · intro h
        have h1 : (j + 1) * s ≤ e - a + s - 1 := by nlinarith
        have := (Int.le_ediv_iff_mul_le hpos).2 h1
        omega

theorem rangeLenI_nonneg {a e s : Int} (hs : s ≠ 0) : 0 ≤ rangeLenI a e s := by
  unfold rangeLenI
  rcases Int.lt_or_gt_of_ne hs with hneg | hpos
  · have hn : ¬ s > 0 := by omega
    simp only [hn, if_false]
    split
    · omega
    · exact Int.ediv_nonneg (by omega) (by omega)
  · simp only [hpos, if_true]
    split
    · omega
    · exact Int.ediv_nonneg (by omega) (by omega)

theorem rangeUp_get (s : Int) (hs : 0 < s) (e : Int) : ∀ (f : Nat) (a : Int) (j : Nat),
    (Sem.rangeUp f a e s)[j]? = if j < f ∧ a + j * s < e then some (a + j * s) else none := by
  intro f
  induction f with
  | zero => intro a j; simp [Sem.rangeUp]
  | succ f ih =>
    intro a j
    unfold Sem.rangeUp
    by_cases hae : a < e
    · rw [if_pos hae]
      cases j with
      | zero => simp [hae]
      | succ j =>
        simp only [List.getElem?_cons_succ, ih]
        have e1 : a + s + (j : Int) * s = a + ((j + 1 : Nat) : Int) * s := by push_cast; ring
        rw [e1]
        by_cases hj : j < f
        · have : j + 1 < f + 1 := by omega
          simp [hj, this]
        · have : ¬ j + 1 < f + 1 := by omega
          simp [hj, this]
    · rw [if_neg hae]
      have : ¬ a + (j : Int) * s < e := by
        have : 0 ≤ (j : Int) * s := Int.mul_nonneg (by omega) (by omega)
        omega
      simp [this]

theorem rangeDown_get (s : Int) (hs : s < 0) (e : Int) : ∀ (f : Nat) (a : Int) (j : Nat),
    (Sem.rangeDown f a e s)[j]? = if j < f ∧ a + j * s > e then some (a + j * s) else none := by
  intro f
  induction f with
  | zero => intro a j; simp [Sem.rangeDown]
  | succ f ih =>
    intro a j
    unfold Sem.rangeDown
    by_cases hae : a > e
    · rw [if_pos hae]
      cases j with
      | zero => simp [hae]
      | succ j =>
        simp only [List.getElem?_cons_succ, ih]
        have e1 : a + s + (j : Int) * s = a + ((j + 1 : Nat) : Int) * s := by push_cast; ring
        rw [e1]
        by_cases hj : j < f
        · have : j + 1 < f + 1 := by omega
          simp [hj, this]
        · have : ¬ j + 1 < f + 1 := by omega
          simp [hj, this]
    · rw [if_neg hae]
      have : ¬ a + (j : Int) * s > e := by
        have : (j : Int) * s ≤ 0 := Int.mul_nonpos_of_nonneg_of_nonpos (by omega) (by omega)
        omega
      simp [this]

/-- `list(range(a, e, s))[j]` is `a + j·s` for `j < len(range(a, e, s))` -/
theorem rangeList_get {a e s : Int} (hs : s ≠ 0) (j : Nat) :
    (Sem.rangeList a e s)[j]? = if (j : Int) < rangeLenI a e s then some (a + j * s) else none := by
  have hiff := lt_rangeLenI_iff (a := a) (e := e) hs (Int.natCast_nonneg j)
  unfold Sem.rangeList
  rcases Int.lt_or_gt_of_ne hs with hneg | hpos
  · have hn : ¬ s > 0 := by omega
    simp only [hn, if_false, hneg, if_true] at hiff ⊢
    rw [rangeDown_get s hneg]
    by_cases h : a + (j : Int) * s > e
    · have hjf : j < (a - e).toNat := by
        have : (j : Int) * s ≤ -(j : Int) := by nlinarith
        omega
      simp [h, hjf, hiff.2 h]
    · have : ¬ (j : Int) < rangeLenI a e s := fun hh => h (hiff.1 hh)
      simp [h, this]
  · simp only [hpos, if_true] at hiff ⊢
    rw [rangeUp_get s hpos]
    by_cases h : a + (j : Int) * s < e
    · have hjf : j < (e - a).toNat := by
        have : (j : Int) ≤ (j : Int) * s := by nlinarith
        omega
      simp [h, hjf, hiff.2 h]
    · have : ¬ (j : Int) < rangeLenI a e s := fun hh => h (hiff.1 hh)
      simp [h, this]

theorem length_of_get {α : Type} {l : List α} {n : Nat} (h : ∀ j, (l[j]?).isSome ↔ j < n) : l.length = n := by
  have h1 := h l.length
  have h2 : ∀ j, j < l.length ↔ j < n := fun j => by
    rw [← h j]; simp [List.getElem?_eq_some_iff, Option.isSome_iff_exists]
  have a1 := h2 n
  have a2 := h2 l.length
  omega

theorem rangeList_length {a e s : Int} (hs : s ≠ 0) : (Sem.rangeList a e s).length = (rangeLenI a e s).toNat := by
  apply length_of_get
  intro j
  rw [rangeList_get hs]
  have := rangeLenI_nonneg (a := a) (e := e) hs
  by_cases h : (j : Int) < rangeLenI a e s
  · simp [h]; try omega
  · simp [h]; try omega

/-! ### `mapM` of a partial lookup -/

theorem mapM_lookup {α : Type} (f : Int → M α) (g : Int → Option α) (hf : ∀ i q, g i = some q → f i = .ok q) :
    ∀ (xs : List Int), (∀ x ∈ xs, (g x).isSome) →
    ∃ l : List α, xs.mapM f = .ok l ∧ l.length = xs.length ∧ ∀ j : Nat, l[j]? = (xs[j]?).bind g := by
  intro xs
  induction xs with
  | nil => intro _; exact ⟨[], rfl, rfl, fun j => by simp⟩
  | cons x xs ih =>
    intro h
    obtain ⟨l, hl, hlen, hget⟩ := ih (fun y hy => h y (List.mem_cons_of_mem _ hy))
    have hx := h x (List.mem_cons_self ..)
    obtain ⟨q, hq⟩ := Option.isSome_iff_exists.1 hx
    refine ⟨q :: l, ?_, by simp [hlen], ?_⟩
    · rw [List.mapM_cons, hf x q hq, hl]; rfl
    · intro j
      cases j with
      | zero => simp [hq]
      | succ j => simpa using hget j

/-! ### Integer-like values and valid chains -/

/-- a Python int, or a let-constant whose value is one -/
def intOf : Val → Option Int
  | .int v => some v
  | .const _ (.int v) => some v
  | _ => none

/-- the number of qubits of a register, read off its declaration (sizes and bounds literal or let-valued) -/
def sizeI : Val → Option Int
  | .regF _ sz => intOf sz
  | .regA _ src => sizeI src
  | .regS _ src a b s =>
    match sizeI src, intOf a, intOf b, intOf s with
    | some _, some ia, some ib, some is => if is = 0 then none else some (rangeLenI ia ib is)
    | _, _, _, _ => none
  | _ => none

/-- The constructors' checks (`Register.__init__` for a literal size and literal slice bounds), as a decidable
predicate that reads let-valued sizes and bounds through their declared values: a fundamental register has a size
≥ 1; a slice has a non-zero step and its first and last element lie inside the source (`start ≥ 0`,
`indices[0] < size`, `indices[-1] ≥ 0`; for a positive step `stop ≤ size` follows from the last element). -/
def validChain : Val → Bool
  | .regF _ sz =>
    match intOf sz with
    | some k => decide (1 ≤ k)
    | none => false
  | .regA _ src => validChain src
  | .regS _ src a b s =>
    validChain src &&
    match sizeI src, intOf a, intOf b, intOf s with
    | some k, some ia, some ib, some is =>
      decide (is ≠ 0) &&
        (decide (rangeLenI ia ib is ≤ 0) ||
          (decide (0 ≤ ia) && decide (ia < k) && decide (0 ≤ ia + (rangeLenI ia ib is - 1) * is) &&
            decide (ia + (rangeLenI ia ib is - 1) * is < k)))
    | _, _, _, _ => false
  | _ => false

abbrev ValidChain (v : Val) : Prop := validChain v = true

instance (v : Val) : Decidable (ValidChain v) := inferInstanceAs (Decidable (validChain v = true))

/-- every element of a valid slice lies inside its source -/
theorem slice_elems {ia ib is k j : Int} (hs : is ≠ 0)
    (h : rangeLenI ia ib is ≤ 0 ∨ (0 ≤ ia ∧ ia < k ∧ 0 ≤ ia + (rangeLenI ia ib is - 1) * is ∧
      ia + (rangeLenI ia ib is - 1) * is < k))
    (hj0 : 0 ≤ j) (hj : j < rangeLenI ia ib is) : 0 ≤ ia + j * is ∧ ia + j * is < k := by
  rcases h with h | ⟨h1, h2, h3, h4⟩
  · omega
  · rcases Int.lt_or_gt_of_ne hs with hneg | hpos
    · have hle : (rangeLenI ia ib is - 1 - j) * is ≤ 0 := Int.mul_nonpos_of_nonneg_of_nonpos (by omega) (by omega)
      have hjs : j * is ≤ 0 := Int.mul_nonpos_of_nonneg_of_nonpos hj0 (by omega)
      constructor <;> nlinarith
    · have hle : 0 ≤ (rangeLenI ia ib is - 1 - j) * is := Int.mul_nonneg (by omega) (by omega)
      have hjs : 0 ≤ j * is := Int.mul_nonneg hj0 (by omega)
      constructor <;> nlinarith

theorem validChain_regS {n : String} {src a b s : Val} (h : ValidChain (.regS n src a b s)) :
    ValidChain src ∧ ∃ k ia ib is, sizeI src = some k ∧ intOf a = some ia ∧ intOf b = some ib ∧ intOf s = some is ∧
      is ≠ 0 ∧ (rangeLenI ia ib is ≤ 0 ∨ (0 ≤ ia ∧ ia < k ∧ 0 ≤ ia + (rangeLenI ia ib is - 1) * is ∧
        ia + (rangeLenI ia ib is - 1) * is < k)) := by
  simp only [ValidChain, validChain, Bool.and_eq_true] at h
  obtain ⟨hv, h2⟩ := h
  refine ⟨hv, ?_⟩
  cases h1 : sizeI src <;> cases h2' : intOf a <;> cases h3 : intOf b <;> cases h4 : intOf s <;>
    simp only [h1, h2', h3, h4] at h2 <;> try (exact Bool.noConfusion h2)
  rename_i k ia ib is
  simp only [Bool.and_eq_true, Bool.or_eq_true, decide_eq_true_eq] at h2
  exact ⟨k, ia, ib, is, rfl, rfl, rfl, rfl, h2.1, by tauto⟩

theorem sizeI_regS {n : String} {src a b s : Val} {k ia ib is : Int} (h1 : sizeI src = some k) (h2 : intOf a = some ia)
    (h3 : intOf b = some ib) (h4 : intOf s = some is) (hs : is ≠ 0) :
    sizeI (.regS n src a b s) = some (rangeLenI ia ib is) := by
  simp [sizeI, h1, h2, h3, h4, hs]

theorem validChain_sizeI {v : Val} : ValidChain v → ∃ k, sizeI v = some k ∧ 0 ≤ k := by
  induction v with
  | regF _ sz _ =>
    intro h
    simp only [ValidChain, validChain] at h
    cases hk : intOf sz with
    | none => simp [hk] at h
    | some k => simp only [hk, decide_eq_true_eq] at h; exact ⟨k, by simp [sizeI, hk], by omega⟩
  | regA _ src ih =>
    intro h
    simp only [ValidChain, validChain] at h
    simpa [sizeI] using ih h
  | regS _ src a b s _ _ _ _ =>
    intro h
    obtain ⟨_, k, ia, ib, is, h1, h2, h3, h4, hs, _⟩ := validChain_regS h
    exact ⟨rangeLenI ia ib is, sizeI_regS h1 h2 h3 h4 hs, rangeLenI_nonneg hs⟩
  | _ => intro h; simp [ValidChain, validChain] at h

/-! ### Evaluation of integer-like values on both sides -/

theorem evalInt_intOf {v : Val} {k : Int} (h : intOf v = some k) : Sem.evalInt [] [] v = .ok k := by
  cases v with
  | int i => simp [intOf] at h; subst h; rfl
  | const n x =>
    cases x <;> simp [intOf] at h
    subst h; rfl
  | _ => simp [intOf] at h

theorem resolveAV_intOf {v : Val} {k : Int} (h : intOf v = some k) (ctx : Resolve.Ctx) :
    resolveAV ctx (avFuel ctx) v = .ok (.int k) := by
  cases v with
  | int i => simp [intOf] at h; subst h; simp [avFuel, resolveAV]
  | const n x =>
    cases x <;> simp [intOf] at h
    subst h
    show resolveAV ctx (ctx.length + 62 + 1 + 1) _ = _
    simp [resolveAV]
  | _ => simp [intOf] at h

theorem resolveInt_intOf {v : Val} {k : Int} (h : intOf v = some k) (ctx : Resolve.Ctx) : resolveInt ctx v = .ok k := by
  simp [resolveInt, resolveAV_intOf h, bind, Except.bind, pure, Except.pure]

theorem startOr0_intOf {v : Val} {k : Int} (h : intOf v = some k) : intOf (startOr0 v) = some k := by
  cases v with
  | int i =>
    simp [intOf] at h; subst h
    unfold startOr0
    split <;> simp_all [intOf]
  | const n x => simpa [startOr0] using h
  | _ => simp [intOf] at h

theorem stepOr1_intOf {v : Val} {k : Int} (h : intOf v = some k) : intOf (stepOr1 v) = some k := by
  cases v <;> simp [intOf] at h <;> simpa [stepOr1, intOf] using h

theorem intOf_ne_none {v : Val} {k : Int} (h : intOf v = some k) : v ≠ .none := by
  intro hv; subst hv; simp [intOf] at h

theorem validChain_not_av {v : Val} (h : ValidChain v) : (∀ n k, v ≠ .param n k) ∧ (∀ n x, v ≠ .const n x) := by
  constructor
  · intro n k hv; subst hv; simp [ValidChain, validChain] at h
  · intro n x hv; subst hv; simp [ValidChain, validChain] at h

theorem resolveSize_regA {n : String} {src : Val} (hp : ∀ n k, src ≠ .param n k) (hc : ∀ n x, src ≠ .const n x)
    (ctx : Resolve.Ctx) : resolveSize ctx (.regA n src) = resolveSize [] src := by
  cases src <;> first | rfl | (exfalso; first | exact hp _ _ rfl | exact hc _ _ rfl)

theorem resolveSize_regS {n : String} {src a b s : Val} (hp : ∀ n k, src ≠ .param n k) (hc : ∀ n x, src ≠ .const n x)
    (ctx : Resolve.Ctx) : resolveSize ctx (.regS n src a b s) = (do
        let a' ← resolveInt ctx (startOr0 a)
        let s' ← resolveInt ctx (stepOr1 s)
        let b' ← resolveInt ctx b
        if s' = 0 then .error (.jaqal "zero-step") else
        pure (.int (← rangeLen a' b' s'))) := by
  cases src <;> first | rfl | (exfalso; first | exact hp _ _ rfl | exact hc _ _ rfl)

/-- `resolve_size` of a valid chain: the declared size -/
theorem resolveSize_valid {v : Val} : ∀ {k : Int}, ValidChain v → sizeI v = some k →
    ∃ sz, resolveSize [] v = .ok sz ∧ resolveAV [] (avFuel []) sz = .ok (.int k) := by
  induction v with
  | regF _ sz _ => intro k _ hk; exact ⟨sz, rfl, resolveAV_intOf (by simpa [sizeI] using hk) []⟩
  | regA _ src ih =>
    intro k h hk
    have hv : ValidChain src := by simpa [ValidChain, validChain] using h
    obtain ⟨sz, h1, h2⟩ := ih hv (by simpa [sizeI] using hk)
    obtain ⟨hp, hc⟩ := validChain_not_av hv
    exact ⟨sz, by rw [resolveSize_regA hp hc]; exact h1, h2⟩
  | regS _ src a b s _ _ _ _ =>
    intro k h hk
    obtain ⟨hv, ks, ia, ib, is, h1, h2, h3, h4, hs, _⟩ := validChain_regS h
    rw [sizeI_regS h1 h2 h3 h4 hs] at hk
    cases hk
    obtain ⟨hp, hc⟩ := validChain_not_av hv
    refine ⟨.int (rangeLenI ia ib is), ?_, by simp [avFuel, resolveAV]⟩
    rw [resolveSize_regS hp hc, resolveInt_intOf (startOr0_intOf h2), resolveInt_intOf (stepOr1_intOf h4),
      resolveInt_intOf h3]
    simp [bind, Except.bind, hs, rangeLen_eq hs, pure, Except.pure]
  | _ => intro k h; simp [ValidChain, validChain] at h

/-! ### One link of a chain, in the library's closed form -/

theorem resolveReg_regF_int (ctx : Resolve.Ctx) (n : String) (sz : Val) (K i : Int) (h : resolveAV ctx (avFuel ctx) sz = .ok (.int K)) :
    resolveReg ctx (.regF n sz) i = if i < 0 ∨ i ≥ K then .error (.jaqal "index-out-of-range") else .ok (n, i) := by
  simp only [resolveReg, h, bind, Except.bind]
  rfl

theorem resolveReg_regA_int (ctx : Resolve.Ctx) (n : String) (src sz : Val) (K i : Int)
    (h1 : resolveSize ctx (.regA n src) = .ok sz) (h : resolveAV ctx (avFuel ctx) sz = .ok (.int K)) :
    resolveReg ctx (.regA n src) i = if i < 0 ∨ i ≥ K then .error (.jaqal "index-out-of-range") else resolveReg ctx src i := by
  simp only [resolveReg, h1, h, bind, Except.bind]
  split <;> rfl

theorem resolveReg_regS_int (ctx : Resolve.Ctx) (n : String) (src a b s sz : Val) (K i ia is : Int)
    (h1 : resolveSize ctx (.regS n src a b s) = .ok sz) (h : resolveAV ctx (avFuel ctx) sz = .ok (.int K))
    (ha : resolveInt ctx (startOr0 a) = .ok ia) (hs : resolveInt ctx (stepOr1 s) = .ok is) :
    resolveReg ctx (.regS n src a b s) i =
      if i < 0 ∨ i ≥ K then .error (.jaqal "index-out-of-range") else resolveReg ctx src (ia + i * is) := by
  simp only [resolveReg, h1, h, ha, hs, bind, Except.bind]
  split <;> rfl

/-! ### `Register.resolve_qubit` as a size check followed by a continuation -/

/-- the size check at the head of `Register.resolve_qubit` -/
def sizeGate {α : Type} (i : Int) (szr : M Val) (cont : M α) : M α :=
  match szr with
  | .error e => .error e
  | .ok (.int k) => if i < 0 ∨ i ≥ k then .error (.jaqal "index-out-of-range") else cont
  | .ok .none => cont
  | .ok _ => .error (.other "TypeError")

theorem sizeGate_ok {α : Type} {i : Int} {szr : M Val} {cont : M α} {q : α} (h : sizeGate i szr cont = .ok q) :
    cont = .ok q := by
  unfold sizeGate at h
  split at h
  · cases h
  · split at h
    · cases h
    · exact h
  · exact h
  · cases h

theorem sizeGate_map {α β : Type} (f : α → β) (i : Int) (szr : M Val) (cont : M α) :
    (sizeGate i szr cont).map f = sizeGate i szr (cont.map f) := by
  unfold sizeGate
  split
  · rfl
  · split <;> rfl
  · rfl
  · rfl

theorem resolveReg_regA_eq (ctx : Resolve.Ctx) (n : String) (src : Val) (i : Int) :
    resolveReg ctx (.regA n src) i =
      sizeGate i (resolveSize ctx (.regA n src) >>= resolveAV ctx (avFuel ctx)) (resolveReg ctx src i) := by
  rw [resolveReg]
  cases resolveSize ctx (.regA n src) with
  | error e => rfl
  | ok sz =>
    simp only [bind, Except.bind]
    cases resolveAV ctx (avFuel ctx) sz with
    | error e => rfl
    | ok szv =>
      cases szv <;> simp only [sizeGate] <;> rfl

theorem resolveReg_regS_eq (ctx : Resolve.Ctx) (n : String) (src a b s : Val) (i : Int) :
    resolveReg ctx (.regS n src a b s) i =
      sizeGate i (resolveSize ctx (.regS n src a b s) >>= resolveAV ctx (avFuel ctx)) (do
        let ia ← resolveInt ctx (startOr0 a)
        let is ← resolveInt ctx (stepOr1 s)
        resolveReg ctx src (ia + i * is)) := by
  rw [resolveReg]
  cases resolveSize ctx (.regS n src a b s) with
  | error e => rfl
  | ok sz =>
    simp only [bind, Except.bind]
    cases resolveAV ctx (avFuel ctx) sz with
    | error e => rfl
    | ok szv =>
      cases szv <;> simp only [sizeGate] <;> rfl

theorem resolveRegV_regA_eq (ctx : Resolve.Ctx) (n : String) (src : Val) (i : Int) :
    resolveRegV ctx (.regA n src) i =
      sizeGate i (resolveSize ctx (.regA n src) >>= resolveAV ctx (avFuel ctx)) (resolveRegV ctx src i) := by
  rw [resolveRegV]
  cases resolveSize ctx (.regA n src) with
  | error e => rfl
  | ok sz =>
    simp only [bind, Except.bind]
    cases resolveAV ctx (avFuel ctx) sz with
    | error e => rfl
    | ok szv =>
      cases szv <;> simp only [sizeGate] <;> rfl

theorem resolveRegV_regS_eq (ctx : Resolve.Ctx) (n : String) (src a b s : Val) (i : Int) :
    resolveRegV ctx (.regS n src a b s) i =
      sizeGate i (resolveSize ctx (.regS n src a b s) >>= resolveAV ctx (avFuel ctx)) (do
        let ia ← resolveInt ctx (startOr0 a)
        let is ← resolveInt ctx (stepOr1 s)
        resolveRegV ctx src (ia + i * is)) := by
  rw [resolveRegV]
  cases resolveSize ctx (.regS n src a b s) with
  | error e => rfl
  | ok sz =>
    simp only [bind, Except.bind]
    cases resolveAV ctx (avFuel ctx) sz with
    | error e => rfl
    | ok szv =>
      cases szv <;> simp only [sizeGate] <;> rfl

/-- the base of `Register.resolve_qubit` -/
def baseGate {α : Type} (i : Int) (szr : M Val) (res : α) : M α :=
  match szr with
  | .error e => .error e
  | .ok (.int k) => if i < 0 ∨ i ≥ k then .error (.jaqal "index-out-of-range") else .ok res
  | .ok .none => .ok res
  | .ok (.flt _) => .error (.other "float-size")
  | .ok _ => .error (.other "TypeError")

theorem resolveReg_regF_eq (ctx : Resolve.Ctx) (n : String) (sz : Val) (i : Int) :
    resolveReg ctx (.regF n sz) i = baseGate i (resolveAV ctx (avFuel ctx) sz) (n, i) := by
  rw [resolveReg]
  cases resolveAV ctx (avFuel ctx) sz with
  | error e => rfl
  | ok szv => cases szv <;> simp only [baseGate, bind, Except.bind] <;> rfl

theorem resolveRegV_regF_eq (ctx : Resolve.Ctx) (n : String) (sz : Val) (i : Int) :
    resolveRegV ctx (.regF n sz) i = baseGate i (resolveAV ctx (avFuel ctx) sz) (.regF n sz, i) := by
  rw [resolveRegV]
  cases resolveAV ctx (avFuel ctx) sz with
  | error e => rfl
  | ok szv => cases szv <;> simp only [baseGate, bind, Except.bind] <;> rfl

theorem baseGate_ok {α : Type} {i : Int} {szr : M Val} {res q : α} (h : baseGate i szr res = .ok q) :
    q = res ∧ ((∃ K, szr = .ok (.int K) ∧ 0 ≤ i ∧ i < K) ∨ szr = .ok .none) := by
  unfold baseGate at h
  split at h
  · cases h
  · rename_i k
    split at h
    · cases h
    · cases h; exact ⟨rfl, Or.inl ⟨k, rfl, by omega⟩⟩
  · cases h; exact ⟨rfl, Or.inr rfl⟩
  · cases h
  · cases h

theorem baseGate_map {α β : Type} (f : α → β) (i : Int) (szr : M Val) (res : α) :
    (baseGate i szr res).map f = baseGate i szr (f res) := by
  unfold baseGate
  split
  · rfl
  · split <;> rfl
  · rfl
  · rfl
  · rfl

/-! ### The library's closed form against the specification's list reading -/

theorem nth?_of_nonneg {α : Type} (l : List α) {i : Int} (h : 0 ≤ i) : Sem.nth? l i = l[i.toNat]? := by
  simp [Sem.nth?, show ¬ i < 0 by omega]

theorem evalReg_regS_eq (n : String) (src a b s : Val) {ia ib is : Int} (h2 : intOf a = some ia) (h3 : intOf b = some ib)
    (h4 : intOf s = some is) {l : List Sem.FQ} (hl : Sem.evalReg [] [] src = .ok l) (hs : is ≠ 0) :
    Sem.evalReg [] [] (.regS n src a b s) = (Sem.rangeList ia ib is).mapM (fun i => match Sem.nth? l i with
      | some q => pure q
      | none => .error (.jaqal "slice leaves its source")) := by
  have opt : ∀ (d : Int) (v : Val) (k : Int), intOf v = some k → ExpandMacros.optInt [] [] d v = .ok k := by
    intro d v k hk
    have := intOf_ne_none hk
    cases v <;> first | exact evalInt_intOf hk | exact absurd rfl this
  rw [ExpandMacros.evalReg_regS]
  simp only [hl, opt _ _ _ h2, opt _ _ _ h3, opt _ _ _ h4, bind, Except.bind, hs, if_false]
  rfl

/-- **The bridge.** For a register whose declaration passes the constructors' checks (`ValidChain`), the
specification's denotation is a list of exactly `size` fundamental qubits, the library resolves index `i` to the `i`-th
element of that list when `0 ≤ i < size`, and raises `JaqalError` otherwise. -/
theorem chain_spec {v : Val} : ∀ {K : Int}, ValidChain v → sizeI v = some K →
    ∃ l, Sem.evalReg [] [] v = .ok l ∧ l.length = K.toNat ∧
      (∀ i : Int, 0 ≤ i → i < K → ∃ q, l[i.toNat]? = some q ∧ resolveReg [] v i = .ok q) ∧
      (∀ i : Int, (i < 0 ∨ K ≤ i) → ∃ e, resolveReg [] v i = .error (.jaqal e)) := by
  induction v with
  | regF n sz _ =>
    intro K h hK
    have hk : intOf sz = some K := by simpa [sizeI] using hK
    have h1 : 1 ≤ K := by simpa [ValidChain, validChain, hk] using h
    refine ⟨(List.range K.toNat).map (fun (i : Nat) => (n, (i : Int))), ?_, by simp, ?_, ?_⟩
    · simp [Sem.evalReg, evalInt_intOf hk, bind, Except.bind, show ¬ K < 1 by omega, pure, Except.pure]
    · intro i h0 hi
      refine ⟨(n, i), ?_, ?_⟩
      · have : i.toNat < K.toNat := by omega
        simp [this, Int.toNat_of_nonneg h0]
      · rw [resolveReg_regF_int [] n sz K i (resolveAV_intOf hk [])]
        simp [show ¬ (i < 0 ∨ i ≥ K) by omega]
    · intro i hi
      refine ⟨"index-out-of-range", ?_⟩
      rw [resolveReg_regF_int [] n sz K i (resolveAV_intOf hk [])]
      simp [show (i < 0 ∨ i ≥ K) by omega]
  | regA n src ih =>
    intro K h hK
    have hv : ValidChain src := by simpa [ValidChain, validChain] using h
    obtain ⟨l, hl, hlen, hin, hout⟩ := ih hv (by simpa [sizeI] using hK)
    obtain ⟨sz, hs1, hs2⟩ := resolveSize_valid h hK
    refine ⟨l, by simpa [Sem.evalReg] using hl, hlen, ?_, ?_⟩
    · intro i h0 hi
      obtain ⟨q, hq, hr⟩ := hin i h0 hi
      refine ⟨q, hq, ?_⟩
      rw [resolveReg_regA_int [] n src sz K i hs1 hs2]
      simpa [show ¬ (i < 0 ∨ i ≥ K) by omega] using hr
    · intro i hi
      refine ⟨"index-out-of-range", ?_⟩
      rw [resolveReg_regA_int [] n src sz K i hs1 hs2]
      simp [show (i < 0 ∨ i ≥ K) by omega]
  | regS n src a b s ih _ _ _ =>
    intro K h hK
    obtain ⟨hv, ks, ia, ib, is, h1, h2, h3, h4, hs, hends⟩ := validChain_regS h
    rw [sizeI_regS h1 h2 h3 h4 hs] at hK
    cases hK
    obtain ⟨l, hl, hlen, hin, hout⟩ := ih hv h1
    obtain ⟨sz, hs1, hs2⟩ := resolveSize_valid h (sizeI_regS h1 h2 h3 h4 hs)
    have hK0 := rangeLenI_nonneg (a := ia) (e := ib) hs
    -- every element of the range indexes the source
    have hall : ∀ x ∈ Sem.rangeList ia ib is, (Sem.nth? l x).isSome := by
      intro x hx
      obtain ⟨j, hj⟩ := List.getElem?_of_mem hx
      rw [rangeList_get hs] at hj
      by_cases hjl : (j : Int) < rangeLenI ia ib is
      · simp only [hjl, if_true, Option.some.injEq] at hj
        obtain ⟨e1, e2⟩ := slice_elems hs hends (Int.natCast_nonneg j) hjl
        obtain ⟨q, hq, _⟩ := hin x (by omega) (by omega)
        rw [nth?_of_nonneg l (by omega), hq]; rfl
      · simp [hjl] at hj
    obtain ⟨l', hl', hlen', hget'⟩ := mapM_lookup (fun i => match Sem.nth? l i with
      | some q => (pure q : M Sem.FQ)
      | none => .error (.jaqal "slice leaves its source")) (Sem.nth? l) (by intro i q h; simp only [h]; rfl) _ hall
    refine ⟨l', ?_, ?_, ?_, ?_⟩
    · rw [evalReg_regS_eq n src a b s h2 h3 h4 hl hs]; exact hl'
    · rw [hlen', rangeList_length hs]
    · intro i h0 hi
      obtain ⟨e1, e2⟩ := slice_elems hs hends h0 hi
      obtain ⟨q, hq, hr⟩ := hin (ia + i * is) e1 e2
      refine ⟨q, ?_, ?_⟩
      · rw [hget', rangeList_get hs]
        have : ((i.toNat : Nat) : Int) = i := Int.toNat_of_nonneg h0
        simp only [this, hi, if_true, Option.bind_some]
        rw [nth?_of_nonneg l e1, hq]
      · rw [resolveReg_regS_int [] n src a b s sz _ i ia is hs1 hs2 (resolveInt_intOf (startOr0_intOf h2) [])
          (resolveInt_intOf (stepOr1_intOf h4) [])]
        simpa [show ¬ (i < 0 ∨ i ≥ rangeLenI ia ib is) by omega] using hr
    · intro i hi
      refine ⟨"index-out-of-range", ?_⟩
      rw [resolveReg_regS_int [] n src a b s sz _ i ia is hs1 hs2 (resolveInt_intOf (startOr0_intOf h2) [])
        (resolveInt_intOf (stepOr1_intOf h4) [])]
      simp [show (i < 0 ∨ i ≥ rangeLenI ia ib is) by omega]
  | _ => intro K h; simp [ValidChain, validChain] at h

end Jaqal.FillIn
