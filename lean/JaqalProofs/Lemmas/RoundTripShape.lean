import JaqalModel.Spec.Grammar
import JaqalProofs.Props.C16ParseBuild
/-!
# C01: the exact shape of the statement trees of the grammar

`ParserSx` (C16) is deliberately coarse (any block inside any block).  For the round trip the nesting rules of the
grammar matter: a `{ }` holds gates, `< >`, loops and subcircuits; a `< >` holds gates and `{ }`; a loop or macro body
is a `{ }` or a `< >`; header statements come before body statements.  `GStmt`, `GTop`, `GHeader`, `GProgram` say
exactly that on the builder's input type `BSx`, as inductive predicates (so that proofs can do case analysis), and
`derives_gprogram` shows every tree of `Derives` has that shape.
-/
namespace Jaqal.RoundTrip
open Jaqal Jaqal.Lexer Jaqal.Grammar Jaqal.Builder

/-- `GStmt par e`: `e` is a statement that may stand directly in a block of kind `par` (`true` = `< >`) -/
inductive GStmt : Bool → BSx → Prop
  | gate {par : Bool} {g : String} {args : List BSx} : args.all isGateArg = true →
      GStmt par (.list (.str "gate" :: .str g :: args))
  | parB {items : List BSx} : (∀ x ∈ items, GStmt true x) → GStmt false (.list (.str "parallel_block" :: items))
  | seqB {items : List BSx} : (∀ x ∈ items, GStmt false x) → GStmt true (.list (.str "sequential_block" :: items))
  | loopSeq {c : BSx} {items : List BSx} : isIntOrId c = true → (∀ x ∈ items, GStmt false x) →
      GStmt false (.list [.str "loop", c, .list (.str "sequential_block" :: items)])
  | loopPar {c : BSx} {items : List BSx} : isIntOrId c = true → (∀ x ∈ items, GStmt true x) →
      GStmt false (.list [.str "loop", c, .list (.str "parallel_block" :: items)])
  | sub {c : BSx} {items : List BSx} : isIntOrId c = true → (∀ x ∈ items, GStmt false x) →
      GStmt false (.list (.str "subcircuit_block" :: c :: items))

/-- a `{ }` or `< >` block: `par` is its kind -/
def GBlock (par : Bool) (items : List BSx) : Prop := ∀ x ∈ items, GStmt par x

def blockCmdB (par : Bool) : String := if par then "parallel_block" else "sequential_block"

/-- a body statement at top level -/
inductive GTop : BSx → Prop
  | stmt {e : BSx} : GStmt false e → GTop e
  | seqB {items : List BSx} : (∀ x ∈ items, GStmt false x) → GTop (.list (.str "sequential_block" :: items))
  | macroDef {name : String} {params : List String} {par : Bool} {items : List BSx} : (∀ x ∈ items, GStmt par x) →
      GTop (.list (.str "macro" :: .str name :: (params.map BSx.str ++ [.list (.str (blockCmdB par) :: items)])))
  | branch {args : List BSx} : GTop (.list (.str "branch" :: args))

/-- a header statement -/
inductive GHeader : BSx → Prop
  | usepulses (m : String) : GHeader (.list [.str "usepulses", .str m, .str "*"])
  | letInt (n : String) (v : Int) : GHeader (.list [.str "let", .str n, .int v])
  | letFlt (n : String) (d : Dec) : GHeader (.list [.str "let", .str n, .flt d])
  | register (n : String) {size : BSx} : isIntOrId size = true → GHeader (.list [.str "register", .str n, size])
  | mapWhole (n s : String) : GHeader (.list [.str "map", .str n, .str s])
  | mapIndex (n s : String) {i : BSx} : isIntOrId i = true → GHeader (.list [.str "map", .str n, .str s, i])
  | mapSlice (n s : String) {a b c : BSx} : isBound a = true → isBound b = true → isBound c = true →
      GHeader (.list [.str "map", .str n, .str s, a, b, c])

/-- a program: header statements, then body statements -/
def GProgram (e : BSx) : Prop :=
  ∃ hs bs, e = .list (.str "circuit" :: (hs ++ bs)) ∧ (∀ h ∈ hs, GHeader h) ∧ (∀ b ∈ bs, GTop b)

/-! ## every tree of the grammar has that shape -/

theorem ofSxList_mem {x : BSx} : ∀ {xs : List Sx}, x ∈ BSx.ofSxList xs → ∃ y ∈ xs, x = BSx.ofSx y
  | [], h => by simp [BSx.ofSxList] at h
  | y :: ys, h => by
    simp only [BSx.ofSxList, List.mem_cons] at h
    rcases h with h | h
    · exact ⟨y, by simp, h⟩
    · obtain ⟨z, hz, hx⟩ := ofSxList_mem h
      exact ⟨z, by simp [hz], hx⟩

/-- what each phrase of the block grammar yields -/
def BlockG : Ph → Sx → Prop
  | .seqStmts, x => ∃ xs, x = .list xs ∧ ∀ y ∈ xs, GStmt false (BSx.ofSx y)
  | .parStmts, x => ∃ xs, x = .list xs ∧ ∀ y ∈ xs, GStmt true (BSx.ofSx y)
  | .seqStmt, x => GStmt false (BSx.ofSx x)
  | .parStmt, x => GStmt true (BSx.ofSx x)
  | .seqBlock, x => ∃ xs, x = .list (.str "sequential_block" :: xs) ∧ ∀ y ∈ xs, GStmt false (BSx.ofSx y)
  | .parBlock, x => ∃ xs, x = .list (.str "parallel_block" :: xs) ∧ ∀ y ∈ xs, GStmt true (BSx.ofSx y)
  | .gateBlock, x => ∃ par xs, x = .list (.str (blockCmdB par) :: xs) ∧ ∀ y ∈ xs, GStmt par (BSx.ofSx y)

theorem items_of {par : Bool} {xs : List Sx} (h : ∀ y ∈ xs, GStmt par (BSx.ofSx y)) :
    ∀ x ∈ BSx.ofSxList xs, GStmt par x := by
  intro x hx
  obtain ⟨y, hy, rfl⟩ := ofSxList_mem hx
  exact h y hy

theorem gate_g {par : Bool} {ts : List Tok} {x : Sx} (h : Gate ts x) : GStmt par (BSx.ofSx x) := by
  cases h with
  | mk g has =>
    simp only [BSx.ofSx, BSx.ofSxList]
    exact GStmt.gate (gateArgs_shape has)

theorem block_g {ph : Ph} {ts : List Tok} {x : Sx} (h : Block ph ts x) : BlockG ph x := by
  induction h with
  | seqBlock _ _ ih =>
    obtain ⟨xs', hx, hs⟩ := ih
    cases hx
    exact ⟨_, rfl, hs⟩
  | parBlock _ _ ih =>
    obtain ⟨xs', hx, hs⟩ := ih
    cases hx
    exact ⟨_, rfl, hs⟩
  | gateBlockSeq _ ih =>
    obtain ⟨xs, hx, hs⟩ := ih
    exact ⟨false, xs, hx, hs⟩
  | gateBlockPar _ ih =>
    obtain ⟨xs, hx, hs⟩ := ih
    exact ⟨true, xs, hx, hs⟩
  | seqGate hg => exact gate_g hg
  | seqPar _ ih =>
    obtain ⟨xs, hx, hs⟩ := ih
    cases hx
    simp only [BlockG, BSx.ofSx, BSx.ofSxList]
    exact GStmt.parB (items_of hs)
  | seqLoop hc _ ih =>
    obtain ⟨par, xs, hx, hs⟩ := ih
    cases hx
    simp only [BlockG, BSx.ofSx, BSx.ofSxList]
    cases par
    · exact GStmt.loopSeq (letOrInt_shape hc) (items_of hs)
    · exact GStmt.loopPar (letOrInt_shape hc) (items_of hs)
  | seqSub _ _ ih =>
    obtain ⟨xs', hx, hs⟩ := ih
    cases hx
    simp only [BlockG, BSx.ofSx, BSx.ofSxList]
    exact GStmt.sub rfl (items_of hs)
  | seqSubN hc _ _ ih =>
    obtain ⟨xs', hx, hs⟩ := ih
    cases hx
    simp only [BlockG, BSx.ofSx, BSx.ofSxList]
    exact GStmt.sub (letOrInt_shape hc) (items_of hs)
  | parGate hg => exact gate_g hg
  | parSeq _ ih =>
    obtain ⟨xs, hx, hs⟩ := ih
    cases hx
    simp only [BlockG, BSx.ofSx, BSx.ofSxList]
    exact GStmt.seqB (items_of hs)
  | seqNil => exact ⟨[], rfl, fun _ h => by simp at h⟩
  | seqOne _ ih => exact ⟨_, rfl, fun y hy => by simp at hy; subst hy; exact ih⟩
  | seqCons _ _ _ ih1 ih2 =>
    obtain ⟨xs', hx, hs⟩ := ih2
    cases hx
    exact ⟨_, rfl, fun y hy => by
      rcases List.mem_cons.1 hy with rfl | hy
      · exact ih1
      · exact hs y hy⟩
  | parNil => exact ⟨[], rfl, fun _ h => by simp at h⟩
  | parOne _ ih => exact ⟨_, rfl, fun y hy => by simp at hy; subst hy; exact ih⟩
  | parCons _ _ _ ih1 ih2 =>
    obtain ⟨xs', hx, hs⟩ := ih2
    cases hx
    exact ⟨_, rfl, fun y hy => by
      rcases List.mem_cons.1 hy with rfl | hy
      · exact ih1
      · exact hs y hy⟩

theorem header_g {ts : List Tok} {x : Sx} (h : Header ts x) : GHeader (BSx.ofSx x) := by
  cases h with
  | register n hsz _ => exact GHeader.register n (letOrInt_shape hsz)
  | letInt n v => exact GHeader.letInt n v
  | letNumber n d => exact GHeader.letFlt n d
  | mapWhole n src => exact GHeader.mapWhole n src
  | mapIndex n src hi => exact GHeader.mapIndex n src (letOrInt_shape hi)
  | mapSlice n src ha hb hc =>
    exact GHeader.mapSlice n src (optLetOrInt_shape ha) (optLetOrInt_shape hb) (optStep_shape hc)
  | usepulses m => exact GHeader.usepulses m
  | usepulsesDot m => exact GHeader.usepulses m

theorem body_g {ts : List Tok} {x : Sx} (h : Body ts x) : GTop (BSx.ofSx x) := by
  cases h with
  | stmt hb => exact GTop.stmt (block_g hb)
  | seqBlock hb =>
    obtain ⟨xs, hx, hs⟩ := block_g hb
    cases hx
    simp only [BSx.ofSx, BSx.ofSxList]
    exact GTop.seqB (items_of hs)
  | macroDef name params hb =>
    obtain ⟨par, xs, hx, hs⟩ := block_g hb
    cases hx
    simp only [BSx.ofSx, BSx.ofSxList, ofSxList_append, ofSxList_map_str]
    exact GTop.macroDef (items_of hs)
  | branch _ _ =>
    simp only [BSx.ofSx, BSx.ofSxList]
    exact GTop.branch

theorem stmts_g {ph : Phase} {ts : List Tok} {xs : List Sx} (h : Stmts ph ts xs) :
    (ph = .body → ∀ b ∈ BSx.ofSxList xs, GTop b) ∧
    (∃ hs bs, BSx.ofSxList xs = hs ++ bs ∧ (∀ h ∈ hs, GHeader h) ∧ (∀ b ∈ bs, GTop b)) := by
  induction h with
  | nil =>
    refine ⟨?_, [], [], rfl, ?_, ?_⟩
    · intro _ b hb; simp [BSx.ofSxList] at hb
    · intro h hh; simp at hh
    · intro b hb; simp at hb
  | @lastHeader s x hh =>
    refine ⟨?_, [BSx.ofSx x], [], ?_, ?_, ?_⟩
    · intro hp; cases hp
    · simp [BSx.ofSxList]
    · intro h hmem; simp at hmem; subst hmem; exact header_g hh
    · intro b hb; simp at hb
  | @lastBody ph' s x hb =>
    have hall : ∀ b ∈ BSx.ofSxList [x], GTop b := by
      intro b hmem; simp [BSx.ofSxList] at hmem; subst hmem; exact body_g hb
    refine ⟨fun _ => hall, [], _, rfl, ?_, hall⟩
    intro h hh; simp at hh
  | @consHeader s x sep rest xs' hh _ _ ih =>
    obtain ⟨_, hs, bs, he, h1, h2⟩ := ih
    refine ⟨?_, BSx.ofSx x :: hs, bs, ?_, ?_, h2⟩
    · intro hp; cases hp
    · simp [BSx.ofSxList, he]
    · intro h hmem
      rcases List.mem_cons.1 hmem with rfl | hmem
      · exact header_g hh
      · exact h1 h hmem
  | @consBody ph' s x sep rest xs' hb _ _ ih =>
    have hall : ∀ b ∈ BSx.ofSxList (x :: xs'), GTop b := by
      intro b hmem
      simp only [BSx.ofSxList, List.mem_cons] at hmem
      rcases hmem with rfl | hmem
      · exact body_g hb
      · exact ih.1 rfl b hmem
    refine ⟨fun _ => hall, [], _, rfl, ?_, hall⟩
    intro h hh; simp at hh

theorem derives_gprogram {ts : List Tok} {sx : Sx} (h : Derives ts sx) : GProgram (BSx.ofSx sx) := by
  cases h with
  | circuit _ hs =>
    obtain ⟨_, hs', bs, he, h1, h2⟩ := stmts_g hs
    exact ⟨hs', bs, by simp only [BSx.ofSx, BSx.ofSxList, he], h1, h2⟩

end Jaqal.RoundTrip
