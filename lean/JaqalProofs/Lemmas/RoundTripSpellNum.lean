import JaqalProofs.Lemmas.RoundTripSpell
import JaqalProofs.Lemmas.NumText
/-!
# C01, text layer: the numbers the generator writes spell one NUMBER / INT token of the same value

`Lexer.mNumber` / `Lexer.mInt` (the matchers inside `Lexer.step`) on the texts `genFloatL d` / `genIntL i`, via the
piecewise description of those texts in `Lemmas/NumText.lean` (`genParts`, `Parts.WF`, `genParts_value`).
-/
set_option linter.unusedSimpArgs false
set_option linter.unusedVariables false
namespace Jaqal.RoundTrip
open Jaqal Jaqal.Lexer Jaqal.NumText

theorem lexDigit_eq (c : Char) : Lexer.isDigit c = c.isDigit := by
  simp only [Lexer.isDigit, Char.isDigit]
  congr 1

theorem spanP_append_stop {p : Char → Bool} : ∀ (l r : List Char), (∀ c ∈ l, p c = true) →
    (∀ c ∈ r.head?, p c = false) → spanP p (l ++ r) = (l, r)
  | [], r, _, hr => by
    cases r with
    | nil => rfl
    | cons c r' => simp [spanP, hr c (by simp)]
  | a :: l, r, hl, hr => by
    have ha : p a = true := hl a (by simp)
    simp only [List.cons_append, spanP, ha, if_true, spanP_append_stop l r (fun c hc => hl c (by simp [hc])) hr]

theorem lexDigits {ds : List Char} (h : ∀ c ∈ ds, c.isDigit = true) : ∀ c ∈ ds, Lexer.isDigit c = true :=
  fun c hc => by rw [lexDigit_eq]; exact h c hc

theorem lexOptSign_append (sg X : List Char) (h : SignOK sg)
    (hX : ∀ c ∈ X.head?, (c == '-' || c == '+') = false) : Lexer.optSign (sg ++ X) = (sg, X) := by
  rcases h with h | h | h <;> subst h
  · cases X with
    | nil => rfl
    | cons c X' =>
      have := hX c (by simp)
      simp only [Bool.or_eq_false_iff, beq_eq_false_iff_ne] at this
      simp [Lexer.optSign, Lexer.isSign, this.1, this.2]
  · simp [Lexer.optSign, Lexer.isSign]
  · simp [Lexer.optSign, Lexer.isSign]

theorem mExponent_stop {rest : List Char} (h : Stop rest) : mExponent rest = none := by
  cases rest with
  | nil => rfl
  | cons c r =>
    have := h c (by simp)
    simp [mExponent, this.2.1, this.2.2]

theorem mExponent_text (c : Char) (sg ds rest : List Char) (hc : c = 'e' ∨ c = 'E') (hsg : SignOK sg)
    (hds : ∀ x ∈ ds, x.isDigit = true) (hne : ds ≠ []) (hrest : Stop rest) :
    mExponent (c :: (sg ++ ds) ++ rest) = some (sg, ds, rest) := by
  have hc' : (c = 'e' || c = 'E') = true := by rcases hc with h | h <;> subst h <;> decide
  have h1 : Lexer.optSign (sg ++ (ds ++ rest)) = (sg, ds ++ rest) := by
    apply lexOptSign_append _ _ hsg
    intro x hx
    rw [head?_append_of_ne_nil hne] at hx
    exact not_sign_of_isDigit (hds x (mem_of_mem_head? hx))
  have h2 : spanP Lexer.isDigit (ds ++ rest) = (ds, rest) :=
    spanP_append_stop ds rest (lexDigits hds) (fun x hx => by rw [lexDigit_eq]; exact (hrest x hx).1)
  cases ds with
  | nil => exact absurd rfl hne
  | cons d ds' =>
    simp only [List.cons_append] at h1 h2
    simp only [List.cons_append, List.append_assoc, mExponent, hc', if_true, h1, h2]

/-- the lexer's record of a NUMBER match, from the pieces -/
def numLit (p : Parts) : NumLit :=
  { sign := p.sign, intDigits := p.ip, fracDigits := p.fp, exponent := p.ex.map (fun t => (t.2.1, t.2.2)) }

theorem mNumber_text (p : Parts) (hp : p.WF) (rest : List Char) (hrest : Stop rest) :
    mNumber (p.text ++ rest) = some (numLit p, rest) := by
  rcases p with ⟨sg, ip, fp, ex⟩
  obtain ⟨tail, htail, hparse, hstop⟩ : ∃ tail : List Char,
      (Parts.text ⟨sg, ip, fp, ex⟩ ++ rest = sg ++ (ip ++ '.' :: (fp ++ tail))) ∧
      ((mExponent tail = none ∧ ex = none ∧ tail = rest) ∨
        (∃ c esg ds, mExponent tail = some (esg, ds, rest) ∧ ex = some (c, esg, ds))) ∧
      (∀ x ∈ tail.head?, x.isDigit = false) := by
    cases ex with
    | none =>
      exact ⟨rest, by simp [Parts.text], .inl ⟨mExponent_stop hrest, rfl, rfl⟩, fun x hx => (hrest x hx).1⟩
    | some t =>
      rcases t with ⟨c, esg, ds⟩
      obtain ⟨hc, hsg, hds, hne⟩ := hp.ex c esg ds rfl
      refine ⟨c :: (esg ++ ds) ++ rest, by simp [Parts.text],
        .inr ⟨c, esg, ds, mExponent_text c esg ds rest hc hsg hds hne hrest, rfl⟩, ?_⟩
      intro x hx
      simp at hx; subst hx
      rcases hc with h | h <;> subst h <;> decide
  rw [htail]
  have h1 : Lexer.optSign (sg ++ (ip ++ '.' :: (fp ++ tail))) = (sg, ip ++ '.' :: (fp ++ tail)) := by
    apply lexOptSign_append _ _ hp.sign
    intro x hx
    cases ip with
    | nil => simp at hx; subst hx; decide
    | cons a ip' =>
      simp at hx; subst hx
      exact not_sign_of_isDigit (hp.ip _ (by simp))
  have h2 : spanP Lexer.isDigit (ip ++ '.' :: (fp ++ tail)) = (ip, '.' :: (fp ++ tail)) :=
    spanP_append_stop ip _ (lexDigits hp.ip) (by intro x hx; simp at hx; subst hx; decide)
  have h3 : spanP Lexer.isDigit (fp ++ tail) = (fp, tail) :=
    spanP_append_stop fp tail (lexDigits hp.fp) (fun x hx => by rw [lexDigit_eq]; exact hstop x hx)
  have hfp : fp ≠ [] := hp.fp_ne
  cases fp with
  | nil => exact absurd rfl hfp
  | cons f0 fp' =>
    simp only [mNumber, h1, h2, if_true, h3]
    rcases hparse with ⟨h4, h5, h6⟩ | ⟨c, esg, ds, h4, h5⟩
    · subst h5; subst h6; simp [h4, numLit]
    · subst h5; simp [h4, numLit]

theorem numLit_value (p : Parts) : (numLit p).value = p.value := by
  rcases p with ⟨sg, ip, fp, ex⟩
  have hneg : ∀ s : List Char, Lexer.isNeg s = signNeg s := by
    intro s
    simp only [Lexer.isNeg, signNeg]
    by_cases h : s = ['-'] <;> simp [h]
  have hval : ∀ s ds : List Char, Lexer.intValue s ds = applySign s (digitsVal ds) := by
    intro s ds
    simp only [Lexer.intValue, applySign, hneg]
    rfl
  cases ex with
  | none =>
    simp only [NumLit.value, Parts.value, numLit, hneg, Option.map_none, expValue, Parts.expValue]
    rfl
  | some t =>
    rcases t with ⟨c, esg, ds⟩
    simp only [NumLit.value, Parts.value, numLit, hneg, Option.map_some, expValue, Parts.expValue, hval]
    rfl

/-- the text of a float, followed by a stop, is matched by the NUMBER rule, with the float's value -/
theorem mNumber_genFloatL (d : Dec) (hd : d.Canonical) (rest : List Char) (h : Stop rest) :
    ∃ n, mNumber (genFloatL d ++ rest) = some (n, rest) ∧ n.value = d := by
  refine ⟨numLit (genParts d.normalize), ?_, ?_⟩
  · rw [genFloatL_eq]; exact mNumber_text _ (genParts_wf _) rest h
  · rw [numLit_value, genParts_value _ (normalize_canonical d), normalize_of_canonical hd]

theorem mInt_text (sg ds rest : List Char) (hsg : SignOK sg) (hds : ∀ x ∈ ds, x.isDigit = true)
    (hne : ds ≠ []) (hrest : ∀ c ∈ rest.head?, c.isDigit = false) :
    mInt (sg ++ ds ++ rest) = some (sg, ds, rest) := by
  have h1 : Lexer.optSign (sg ++ (ds ++ rest)) = (sg, ds ++ rest) := by
    apply lexOptSign_append _ _ hsg
    intro x hx
    rw [head?_append_of_ne_nil hne] at hx
    exact not_sign_of_isDigit (hds x (mem_of_mem_head? hx))
  have h2 : spanP Lexer.isDigit (ds ++ rest) = (ds, rest) :=
    spanP_append_stop ds rest (lexDigits hds) (fun x hx => by rw [lexDigit_eq]; exact hrest x hx)
  cases ds with
  | nil => exact absurd rfl hne
  | cons d ds' => simp only [List.append_assoc, mInt, h1, h2]

theorem mNumber_int_text (sg ds rest : List Char) (hsg : SignOK sg) (hds : ∀ x ∈ ds, x.isDigit = true)
    (hne : ds ≠ []) (hrest : ∀ c ∈ rest.head?, c.isDigit = false ∧ c ≠ '.') :
    mNumber (sg ++ ds ++ rest) = none := by
  have h1 : Lexer.optSign (sg ++ (ds ++ rest)) = (sg, ds ++ rest) := by
    apply lexOptSign_append _ _ hsg
    intro x hx
    rw [head?_append_of_ne_nil hne] at hx
    exact not_sign_of_isDigit (hds x (mem_of_mem_head? hx))
  have h2 : spanP Lexer.isDigit (ds ++ rest) = (ds, rest) :=
    spanP_append_stop ds rest (lexDigits hds) (fun c hc => by rw [lexDigit_eq]; exact (hrest c hc).1)
  simp only [List.append_assoc, mNumber, h1, h2]
  cases rest with
  | nil => rfl
  | cons c r =>
    have := (hrest c (by simp)).2
    simp [this]

/-! ## the steps of the lexer on a number -/

theorem lexIntValue_eq (s ds : List Char) : Lexer.intValue s ds = applySign s (digitsVal ds) := by
  have hneg : Lexer.isNeg s = signNeg s := by
    simp only [Lexer.isNeg, signNeg]
    by_cases h : s = ['-'] <;> simp [h]
  simp only [Lexer.intValue, applySign, hneg]
  rfl

/-- the first character of a number: `-` or a digit -/
def NumHead (c : Char) : Prop := c = '-' ∨ c.isDigit = true

theorem NumHead.not_nl {c : Char} (h : NumHead c) : c ≠ '\n' := by
  rintro rfl; rcases h with h | h <;> revert h <;> decide
theorem NumHead.not_alpha {c : Char} (h : NumHead c) : isAlpha_ c = false := by
  rcases h with rfl | h
  · decide
  · cases ha : isAlpha_ c
    · rfl
    · exfalso
      simp only [isAlpha_, Bool.or_eq_true, Bool.and_eq_true, decide_eq_true_eq] at ha
      simp only [Char.isDigit, Bool.and_eq_true, decide_eq_true_eq] at h
      have h1 : c.val.toNat ≤ 57 := by
        have := h.2; exact UInt32.le_iff_toNat_le.mp this
      rcases ha with (⟨ha, _⟩ | ⟨ha, _⟩) | ha
      · have : 97 ≤ c.val.toNat := by
          have : ('a' : Char).val ≤ c.val := ha
          exact UInt32.le_iff_toNat_le.mp this
        omega
      · have : 65 ≤ c.val.toNat := by
          have : ('A' : Char).val ≤ c.val := ha
          exact UInt32.le_iff_toNat_le.mp this
        omega
      · subst ha; revert h; decide
theorem NumHead.not_dot {c : Char} (h : NumHead c) : c ≠ '.' := by
  rintro rfl; rcases h with h | h <;> revert h <;> decide
theorem NumHead.not_ignore {c : Char} (h : NumHead c) : isIgnore c = false := by
  cases hi : isIgnore c
  · rfl
  · simp only [isIgnore, Bool.or_eq_true, decide_eq_true_eq] at hi
    rcases hi with rfl | rfl <;> rcases h with h | h <;> revert h <;> decide

theorem step_prefix_num {c : Char} (hc : NumHead c) (w : List Char) :
    mNL (c :: w) = none ∧ mIdent (c :: w) = none ∧ mDotIdent (c :: w) = none := by
  refine ⟨?_, ?_, ?_⟩
  · simp [mNL, spanP, hc.not_nl]
  · simp [mIdent, hc.not_alpha]
  · simp [mDotIdent, hc.not_dot]

theorem step_float (d : Dec) (hd : d.Canonical) (hov : Dec.overflows d = false) (rest : List Char) (h : Stop rest) :
    ∃ c w, genFloatL d = c :: w ∧ isIgnore c = false ∧ step (c :: w ++ rest) = .token (.NUMBER d) rest 0 := by
  obtain ⟨c, w, hcw, hc⟩ := genFloatL_head d
  obtain ⟨n, hn, hv⟩ := mNumber_genFloatL d hd rest h
  have hc' : NumHead c := hc
  obtain ⟨h1, h2, h3⟩ := step_prefix_num hc' (w ++ rest)
  refine ⟨c, w, hcw, hc'.not_ignore, ?_⟩
  rw [hcw] at hn
  simp only [List.cons_append] at hn ⊢
  simp only [step, h1, h2, h3, hn, hv, hov, Bool.false_eq_true, if_false]

/-- an int whose decimal text the lexer accepts (`int(text)` refuses more than 4300 digits) -/
def IntOK (i : Int) : Prop := (natDigits i.natAbs).length ≤ maxIntDigits

theorem step_int (i : Int) (hi : IntOK i) (rest : List Char) (h : ∀ c ∈ rest.head?, c.isDigit = false ∧ c ≠ '.') :
    ∃ c w, genIntL i = c :: w ∧ isIgnore c = false ∧ step (c :: w ++ rest) = .token (.INT i) rest 0 := by
  obtain ⟨c, w, hcw, hc⟩ := genIntL_head i
  have hc' : NumHead c := hc
  obtain ⟨h1, h2, h3⟩ := step_prefix_num hc' (w ++ rest)
  have hnum : mNumber (genIntL i ++ rest) = none := by
    rw [genIntL_eq]
    exact mNumber_int_text _ _ rest (signOK_intSign i) isDigit_natDigits natDigits_ne_nil h
  have hint : mInt (genIntL i ++ rest) = some ((if i < 0 then ['-'] else []), natDigits i.natAbs, rest) := by
    rw [genIntL_eq]
    exact mInt_text _ _ rest (signOK_intSign i) isDigit_natDigits natDigits_ne_nil (fun c hc => (h c hc).1)
  refine ⟨c, w, hcw, hc'.not_ignore, ?_⟩
  rw [hcw] at hnum hint
  simp only [List.cons_append] at hnum hint ⊢
  have hlen : ¬ ((natDigits i.natAbs).length > maxIntDigits) := by unfold IntOK at hi; omega
  simp only [step, h1, h2, h3, hnum, hint, hlen, if_false, lexIntValue_eq, digitsVal_natDigits, applySign_intSign]

theorem Spells.float {d : Dec} (hd : d.Canonical) (hov : Dec.overflows d = false) {cs : List Char} {ts : List Tok}
    (hs : Stop cs) (h : Spells cs ts) : Spells (genFloatL d ++ cs) (Tok.NUMBER d :: ts) := by
  obtain ⟨c, w, hcw, hi, hst⟩ := step_float d hd hov cs hs
  rw [hcw]
  exact Spells.tok hi hst h

theorem Spells.int {i : Int} (hi : IntOK i) {cs : List Char} {ts : List Tok}
    (hs : ∀ c ∈ cs.head?, c.isDigit = false ∧ c ≠ '.') (h : Spells cs ts) :
    Spells (genIntL i ++ cs) (Tok.INT i :: ts) := by
  obtain ⟨c, w, hcw, hig, hst⟩ := step_int i hi cs hs
  rw [hcw]
  exact Spells.tok hig hst h

end Jaqal.RoundTrip
